(* C12 — Cross-validation folds partition the data.  Statements only; proofs in C12Proofs.v,
   C12BalancedProofs.v, C12FoldsProofs.v, C12PairingProofs.v.

   Proved for all datasets, fold counts, batch sizes, shuffles and index vectors:
   the fold layout produced by batchPartitioning + CVFolds reads out exactly the consecutive
   slices of the reorganised element list with the requested validation sizes (so the validation
   parts are pairwise disjoint and jointly exhaustive), equal sizes (+-1) for the same-size
   constructors, each training part is the complement of its validation part, index-based
   construction puts every element into exactly the requested fold (original order inside a fold).
   createCVSameSizeBalanced (members = per class a permutation of the class's positions, the shuffle
   drawn by the library): contiguous fold layout with the same-size sizes; validation part p holds
   exactly the members with running number p, p+k, p+2k, ... of the concatenated member lists (the
   dealing continues across class borders); hence part p holds, of class c with n_c members,
   n_c / k members plus one more iff one of the n_c mod k running numbers off_c, off_c + 1, ... is
   congruent p modulo k (off_c = number of members of the classes before c): class counts of any two
   folds differ by at most one, for every class.
   All six constructors as ONE function [cv_create] of a request (C12Folds.v; this function, on containers
   that carry their element shape, is what the driver runs next to the C++):
   - createCVFullyIndexed: part p holds exactly the elements first[t] of the steps t with second[t] = p, in
     the order of the steps; contiguous layout with the counted sizes.
   - createCVBatch: the dataset is untouched, the folds are the consecutive runs of the shuffled batch
     indices with lengths nb/k (+1 for the first nb mod k); for every permutation drawn: the folds
     partition the batch indices, each fold is duplicate-free, validation(p) / training(p) are exactly the
     batches of the fold / the remaining batches in ascending order.
   - createCVIID: for EVERY outcome of the draws (any list of n fold numbers below k) and every maximal
     batch size > 0 the construction succeeds, part p holds exactly the elements that drew p (original
     order), the parts partition the data; a fold nobody drew is an empty fold (no batches).
   - CVFolds::validation(p) / training(p), for every contiguous constructor and every p < k: both are
     defined; validation(p) = positions [a, a+q) of the reorganised element list (a = sizes of the parts
     before p, q = size of part p), training(p) = the other positions in order; batch sizes of
     validation(p) = optimalBatchSizes(q, m), of training(p) = those of the other parts one after the
     other, of the whole set = those of all parts; together they are a permutation of the ORIGINAL data
     whenever the explicit choices are permutations (req_valid).  For createCVBatch likewise (batch level).
   - element shape: the set kept by the CVFolds object and every validation / training part have the shape
     of the argument, for every constructor, every fold, input and label container alike (the shape is a
     field of the model's container record; all shapes printed by the model driver come from there).
   - LabeledData: every constructor and both accessors commute with element-wise maps (they never look at
     the elements), hence the fold objects built for the input and for the label container (driven
     separately with the same arguments) are the two projections of ONE fold object over (input,label)
     pairs: same folds, and in the reorganised set and in every validation / training part the i-th
     input sits next to the i-th label.
   THE LOOPS AS WRITTEN (C12Loops.v; this is what the model driver executes for createCVIndexed, createCVFullyIndexed,
   createCVSameSizeBalanced, createCVIID and for training(i) on every case):
   - the construction loop shared by the three constructors (for every (source position, fold) step:
     batchElements[fold].push_back; when the size of batch validationSetStart[fold] is reached:
     newSet.batch(validationSetStart[fold]) = subBatch(view, batchElements[fold]), clear, ++validationSetStart[fold])
     fills newSet with exactly chunk batchSizes (the positions named for fold 0 in step order, then fold 1, ...)
     (C12_construction_loop); with the step sequences of the three constructors that is the gather order of the model;
   - subBatch through a DataView (subset of the view, createBatch) reads the elements at the given positions (C12_sub_batch);
   - hence the loop-built fold objects ARE the ones of cv_create (C12_loop_constructors_are_cv_create), so every theorem
     above holds for them;
   - detail::complement (iota, insertion-sorted copy, std::set_difference as in libstdc++) = the filter [complement] of the
     model, for any index list, duplicates and any order included (C12_complement_set_difference), so training(i) computed
     through it is the training(i) of the theorems (C12_training_through_set_difference).
   NOT proved (tie by the correspondence run only): std::sort is modelled by insertion sort (any sorting function yields the
   same sorted list); the CVFolds(set, foldStart) constructor loop is folds_from_starts by definition (seq);
   createCVSameSize uses repartition + shuffle (C03 model), createCVBatch copies index ranges (no loop model needed);
   the distribution of the random draws (the theorems hold for every outcome).                          *)
From Coq Require Import List Arith Permutation.
From SharkV Require Import ListAux C03Model C03Proofs C03Class C12Model C12Proofs C12BalancedProofs C12Folds C12FoldsProofs C12PairingProofs C12Loops C12LoopsProofs.
Import ListNotations.

Theorem C12_same_size_fold_sizes :
  forall n k, 0 < k ->
    sum (val_sizes n k) = n /\ length (val_sizes n k) = k /\
    (forall a b, In a (val_sizes n k) -> In b (val_sizes n k) -> a <= b + 1).
Proof. exact val_sizes_spec. Qed.
Print Assumptions C12_same_size_fold_sizes.

(* validation parts of a contiguous fold layout: disjoint position ranges covering everything *)
Theorem C12_validation_parts_partition :
  forall A (c : @cv A) psizes, contiguous_cv c psizes ->
    concat (map (fold_elems (cv_set c)) (cv_folds c)) = elems (cv_set c) /\
    map (@length A) (map (fold_elems (cv_set c)) (cv_folds c)) = psizes.
Proof. intros A. exact (@contiguous_partition A). Qed.
Print Assumptions C12_validation_parts_partition.

Theorem C12_createCVSameSize :
  forall A dflt sigma k m (d : @data A) c, cv_same_size dflt sigma k m d = Some c ->
    contiguous_cv c (val_sizes (nelems d) k) /\
    elems (cv_set c) = map (fun i => nth i (elems d) dflt) sigma /\
    (forall s, In s (sizes (cv_set c)) -> 1 <= s <= m).
Proof. intros A. exact (@cv_same_size_spec A). Qed.
Print Assumptions C12_createCVSameSize.

Theorem C12_createCVIndexed :
  forall A dflt idx k m (d : @data A) c, cv_indexed dflt idx k m d = Some c ->
    contiguous_cv c (map (count_eq idx) (seq 0 k)) /\
    map (fold_elems (cv_set c)) (cv_folds c) =
      map (fun p => map (fun i => nth i (elems d) dflt) (filter (fun i => nth i idx 0 =? p) (seq 0 (length idx)))) (seq 0 k) /\
    (forall s, In s (sizes (cv_set c)) -> 1 <= s <= m).
Proof. intros A. exact (@cv_indexed_spec A). Qed.
Print Assumptions C12_createCVIndexed.

Theorem C12_training_is_complement :
  forall A (c : @cv A) p (dv dt : @data A),
    NoDup (nth p (cv_folds c) []) ->
    validation c p = Some dv -> training c p = Some dt ->
    Permutation (dv ++ dt) (cv_set c) /\ Permutation (elems dv ++ elems dt) (elems (cv_set c)).
Proof. intros A. exact (@training_is_complement A). Qed.
Print Assumptions C12_training_is_complement.

(* createCVSameSizeBalanced: the round-robin dealing of the members is a permutation of them, so
   (with members = a permutation of all positions) no element is lost or duplicated *)
Theorem C12_balanced_dealing_is_permutation :
  forall s k, 0 < k -> Permutation (dealt_order s k) s.
Proof. exact dealt_order_perm. Qed.
Print Assumptions C12_balanced_dealing_is_permutation.

(* createCVSameSizeBalanced.  [fold_positions members k p] := the members (class after class, each class
   in its shuffled order) whose running number 0,1,2,... is congruent p modulo k;
   [cnt k p a n] := how many of the numbers a, a+1, ..., a+n-1 are congruent p modulo k *)
Theorem C12_round_robin_count :
  forall k p a n, p < k -> cnt k p a n = n / k + cnt k p a (n mod k) /\ cnt k p a (n mod k) <= 1.
Proof. exact cnt_div. Qed.
Print Assumptions C12_round_robin_count.

Theorem C12_createCVSameSizeBalanced :
  forall A dflt members k m (d : @data A) c, cv_balanced dflt members k m d = Some c ->
    contiguous_cv c (val_sizes (nelems d) k) /\
    map (fold_elems (cv_set c)) (cv_folds c) =
      map (fun p => map (fun i => nth i (elems d) dflt) (fold_positions members k p)) (seq 0 k) /\
    (forall s, In s (sizes (cv_set c)) -> 1 <= s <= m).
Proof. intros A. exact (@cv_balanced_spec A). Qed.
Print Assumptions C12_createCVSameSizeBalanced.

(* what the dealing guarantees for the class counts, exactly (on the label container) *)
Theorem C12_balanced_class_counts :
  forall members k m (lab : @data nat) c,
    valid_members (elems lab) members = true -> cv_balanced 0 members k m lab = Some c ->
    forall cl p, cl < length members -> p < k ->
      let n_c := count_in (elems lab) cl in
      let off_c := sum (map (count_in (elems lab)) (seq 0 cl)) in
      count_in (nth p (map (fold_elems (cv_set c)) (cv_folds c)) []) cl = n_c / k + cnt k p off_c (n_c mod k) /\
      cnt k p off_c (n_c mod k) <= 1.
Proof. exact cv_balanced_class_balance. Qed.
Print Assumptions C12_balanced_class_counts.

Theorem C12_balanced_class_counts_differ_by_at_most_one :
  forall members k m (lab : @data nat) c,
    valid_members (elems lab) members = true -> cv_balanced 0 members k m lab = Some c ->
    forall cl p q, cl < length members -> p < k -> q < k ->
      count_in (nth p (map (fold_elems (cv_set c)) (cv_folds c)) []) cl
      <= count_in (nth q (map (fold_elems (cv_set c)) (cv_folds c)) []) cl + 1.
Proof. exact cv_balanced_class_counts_differ_by_at_most_one. Qed.
Print Assumptions C12_balanced_class_counts_differ_by_at_most_one.

Example C12_example :
  exists c, cv_indexed 0 [1;0;1;2;0] 3 2 [[10;11;12];[13;14]] = Some c /\
            cv_set c = [[11;14];[10;12];[13]] /\ cv_folds c = [[0];[1];[2]].
Proof. eexists. vm_compute. repeat split; reflexivity. Qed.

(* labels 0 1 0 1 0 0 1, three folds: class 0 (4 members, shuffled 5 0 2 4) then class 1 (shuffled 6 1 3) *)
Example C12_balanced_example :
  exists c, valid_members (elems [[0;1;0;1];[0;0;1]]) [[5;0;2;4];[6;1;3]] = true /\
            cv_balanced 0 [[5;0;2;4];[6;1;3]] 3 2 [[0;1;0;1];[0;0;1]] = Some c /\
            map (fold_elems (cv_set c)) (cv_folds c) = [[0;0;1];[0;1];[0;1]].
Proof. eexists. vm_compute. repeat split; reflexivity. Qed.

(* ================= all constructors, accessors, shape (C12Folds.v / C12FoldsProofs.v) ================= *)

(* [osz m q] = optimalBatchSizes(q, m) (empty when undefined); [slices], [fold_elems] as above *)
Theorem C12_createCVFullyIndexed :
  forall A dflt first second k m (d : @data A) c, cv_fully_indexed dflt first second k m d = Some c ->
    contiguous_cv c (map (count_eq second) (seq 0 k)) /\
    map (fold_elems (cv_set c)) (cv_folds c) =
      map (fun p => map (fun t => nth (nth t first 0) (elems d) dflt)
                        (filter (fun t => nth t second 0 =? p) (seq 0 (length second)))) (seq 0 k) /\
    (forall s, In s (sizes (cv_set c)) -> 1 <= s <= m).
Proof. intros A. exact (@cv_fully_indexed_spec A). Qed.
Print Assumptions C12_createCVFullyIndexed.

Theorem C12_createCVBatch :
  forall A bperm k (d : @data A) c,
    cv_batch bperm k d = Some c -> valid_perm (length d) bperm = true ->
    cv_set c = d /\
    cv_folds c = slices (val_sizes (length d) k) bperm /\
    length (cv_folds c) = k /\
    map (@length nat) (cv_folds c) = val_sizes (length d) k /\
    concat (cv_folds c) = bperm /\
    Permutation (concat (cv_folds c)) (seq 0 (length d)) /\
    Permutation (concat (map (fold_elems d) (cv_folds c))) (elems d) /\
    forall p, p < k ->
      let f := nth p (cv_folds c) [] in
      f = firstn (nth p (val_sizes (length d) k) 0) (skipn (sum (firstn p (val_sizes (length d) k))) bperm) /\
      NoDup f /\
      exists dv dt,
        validation c p = Some dv /\ training c p = Some dt /\
        dv = map (fun i => nth i d []) f /\
        dt = map (fun i => nth i d []) (complement f (length d)) /\
        Permutation (dv ++ dt) d /\
        Permutation (elems dv ++ elems dt) (elems d).
Proof. intros A. exact (@cv_batch_spec A). Qed.
Print Assumptions C12_createCVBatch.

Theorem C12_createCVIID_every_outcome :
  forall A dflt draws k m (d : @data A),
    0 < m -> length draws = nelems d -> (forall i, In i draws -> i < k) ->
    exists c, cv_iid dflt draws k m d = Some c /\
      length (cv_folds c) = k /\
      map (fold_elems (cv_set c)) (cv_folds c) =
        map (fun p => map (fun i => nth i (elems d) dflt)
                          (filter (fun i => nth i draws 0 =? p) (seq 0 (length draws)))) (seq 0 k) /\
      concat (map (fold_elems (cv_set c)) (cv_folds c)) = elems (cv_set c) /\
      Permutation (elems (cv_set c)) (elems d) /\
      (forall s, In s (sizes (cv_set c)) -> 1 <= s <= m) /\
      (forall p, count_eq draws p = 0 -> nth p (cv_folds c) [] = []).
Proof. intros A. exact (@cv_iid_every_outcome A). Qed.
Print Assumptions C12_createCVIID_every_outcome.

(* validation(p) / training(p) of any fold object with the batchPartitioning layout *)
Theorem C12_layout_validation_training :
  forall A (c : @cv A) psizes m p, cv_layout c psizes m -> p < length psizes ->
    let E := elems (cv_set c) in
    let a := sum (firstn p psizes) in
    let q := nth p psizes 0 in
    exists dv dt,
      validation c p = Some dv /\ training c p = Some dt /\
      elems dv = firstn q (skipn a E) /\
      elems dt = firstn a E ++ skipn (a + q) E /\
      sizes dv = osz m q /\
      sizes dt = concat (map (osz m) (firstn p psizes ++ skipn (S p) psizes)) /\
      Permutation (elems dv ++ elems dt) E.
Proof. intros A. exact (@layout_parts A). Qed.
Print Assumptions C12_layout_validation_training.

(* every constructor that reorganises the set (all but createCVBatch) *)
Theorem C12_constructor_validation_training :
  forall A dflt req (d : @data A) c,
    req_contiguous req = true -> cv_create dflt req d = Some c ->
    let ps := req_psizes req d in
    let m := req_m req in
    let E := map (fun i => nth i (elems d) dflt) (req_order req d) in
    elems (cv_set c) = E /\
    sizes (cv_set c) = concat (map (osz m) ps) /\
    length (cv_folds c) = req_k req /\ length ps = req_k req /\ sum ps = nelems d /\
    (req_valid req d = true -> Permutation E (elems d)) /\
    forall p, p < req_k req ->
      let a := sum (firstn p ps) in
      let q := nth p ps 0 in
      exists dv dt,
        validation c p = Some dv /\ training c p = Some dt /\
        elems dv = firstn q (skipn a E) /\
        elems dt = firstn a E ++ skipn (a + q) E /\
        sizes dv = osz m q /\
        sizes dt = concat (map (osz m) (firstn p ps ++ skipn (S p) ps)) /\
        Permutation (elems dv ++ elems dt) E.
Proof. intros A. exact (@cv_create_parts A). Qed.
Print Assumptions C12_constructor_validation_training.

(* every constructor, createCVBatch included *)
Theorem C12_training_validation_reassemble :
  forall A dflt req (d : @data A) c,
    cv_create dflt req d = Some c -> req_valid req d = true ->
    length (cv_folds c) = req_k req /\
    Permutation (elems (cv_set c)) (elems d) /\
    Permutation (concat (map (fold_elems (cv_set c)) (cv_folds c))) (elems d) /\
    forall p, p < req_k req ->
      NoDup (nth p (cv_folds c) []) /\
      exists dv dt,
        validation c p = Some dv /\ training c p = Some dt /\
        Permutation (dv ++ dt) (cv_set c) /\
        Permutation (elems dv ++ elems dt) (elems d).
Proof. intros A. exact (@cv_create_reassemble A). Qed.
Print Assumptions C12_training_validation_reassemble.

Theorem C12_shape_preserved :
  forall A S dflt req (x : sdata A S) c,
    scv_create dflt req x = Some c ->
    sd_shape (scv_set c) = sd_shape x /\
    cv_create dflt req (sd_data x) = Some (scv_cv c) /\
    forall p,
      (forall v, s_validation c p = Some v ->
         sd_shape v = sd_shape x /\ validation (scv_cv c) p = Some (sd_data v)) /\
      (forall t, s_training c p = Some t ->
         sd_shape t = sd_shape x /\ training (scv_cv c) p = Some (sd_data t)) /\
      (forall dv, validation (scv_cv c) p = Some dv -> s_validation c p = Some (mkSD (sd_shape x) dv)) /\
      (forall dt, training (scv_cv c) p = Some dt -> s_training c p = Some (mkSD (sd_shape x) dt)).
Proof. intros A S. exact (@scv_create_shape A S). Qed.
Print Assumptions C12_shape_preserved.

Theorem C12_shaped_constructor_defined :
  forall A S dflt req (x : sdata A S) c0,
    cv_create dflt req (sd_data x) = Some c0 ->
    scv_create dflt req x = Some (mkSCV (mkSD (sd_shape x) (cv_set c0)) (cv_folds c0)).
Proof. intros A S. exact (@scv_create_defined A S). Qed.
Print Assumptions C12_shaped_constructor_defined.

(* naturality: the constructors and accessors commute with every element-wise map *)
Theorem C12_constructors_natural :
  forall A B (f : A -> B) dflt req (d : @data A),
    cv_create (f dflt) req (transform f d) = omap (cv_map f) (cv_create dflt req d).
Proof. intros A B. exact (@cv_create_natural A B). Qed.
Print Assumptions C12_constructors_natural.

Theorem C12_accessors_natural :
  forall A B (f : A -> B) (c : @cv A) p,
    validation (cv_map f c) p = omap (transform f) (validation c p) /\
    training (cv_map f c) p = omap (transform f) (training c p).
Proof. intros A B. exact (@accessors_natural A B). Qed.
Print Assumptions C12_accessors_natural.

(* LabeledData: inputs and labels are never separated *)
Theorem C12_labeled_folds_stay_paired :
  forall I L di dl req (z : @data (I * L)),
    match cv_create di req (inputs (paired z)), cv_create dl req (labels (paired z)) with
    | Some a, Some b => Some (a, b)
    | _, _ => None
    end = omap (fun c => (cv_map fst c, cv_map snd c)) (cv_create (di, dl) req z).
Proof. intros I L. exact (@cv_create_pairing I L). Qed.
Print Assumptions C12_labeled_folds_stay_paired.

Theorem C12_labeled_parts_stay_paired :
  forall I L (c : @cv (I * L)) p,
    match validation (cv_map fst c) p, validation (cv_map snd c) p with
    | Some a, Some b => Some (mkL a b)
    | _, _ => None
    end = omap paired (validation c p) /\
    match training (cv_map fst c) p, training (cv_map snd c) p with
    | Some a, Some b => Some (mkL a b)
    | _, _ => None
    end = omap paired (training c p).
Proof. intros I L. exact (@parts_pairing I L). Qed.
Print Assumptions C12_labeled_parts_stay_paired.

(* ---- the hypotheses are satisfiable ---- *)
(* steps: element 3 -> fold 1, element 0 -> fold 0, element 4 -> fold 1, element 1 -> fold 2, element 2 -> fold 0 *)
Example C12_fully_indexed_example :
  exists c, cv_fully_indexed 0 [3;0;4;1;2] [1;0;1;2;0] 3 2 [[10;11;12];[13;14]] = Some c /\
            req_valid (ReqFullyIndexed [3;0;4;1;2] [1;0;1;2;0] 3 2) [[10;11;12];[13;14]] = true /\
            cv_set c = [[10;12];[13;14];[11]] /\ cv_folds c = [[0];[1];[2]].
Proof. eexists. vm_compute. repeat split; reflexivity. Qed.

(* five batches, shuffled 3 0 4 1 2, two folds: 3 0 4 | 1 2 *)
Example C12_batch_example :
  exists c, cv_batch [3;0;4;1;2] 2 [[10];[11;12];[13];[14];[15]] = Some c /\
            valid_perm 5 [3;0;4;1;2] = true /\
            cv_folds c = [[3;0;4];[1;2]] /\
            validation c 0 = Some [[14];[10];[15]] /\ training c 0 = Some [[11;12];[13]].
Proof. eexists. vm_compute. repeat split; reflexivity. Qed.

(* four folds, nobody drew fold 2: it is an empty fold *)
Example C12_iid_example :
  exists c, cv_iid 0 [1;1;0;1;3] 4 2 [[10;11];[12;13];[14]] = Some c /\
            cv_set c = [[12];[10;11];[13];[14]] /\ cv_folds c = [[0];[1;2];[];[3]] /\
            validation c 2 = Some [] /\ training c 2 = Some [[12];[10;11];[13];[14]].
Proof. eexists. vm_compute. repeat split; reflexivity. Qed.

Example C12_layout_example :
  exists c, cv_create 0 (ReqIndexed [1;1;0;1;3] 4 2) [[10;11];[12;13];[14]] = Some c /\
            cv_layout c [1;3;0;1] 2 /\ osz 2 3 = [2;1].
Proof.
  eexists. split; [vm_compute; reflexivity|]. split; [|reflexivity].
  unfold cv_layout. split; [reflexivity|]. split; [reflexivity|].
  intros p [<-|[<-|[<-|[<-|[]]]]]; reflexivity.
Qed.

Example C12_shape_example :
  exists c v, scv_create 0 (ReqSameSize [4;2;0;1;3] 2 2) (mkSD (2, 3) [[10;11;12];[13;14]]) = Some c /\
              s_validation c 1 = Some v /\ sd_shape v = (2, 3) /\ sd_data v = [[11;13]].
Proof. eexists. eexists. vm_compute. repeat split; reflexivity. Qed.

Example C12_pairing_example :
  exists c, cv_create (0, 0) (ReqBatch [1;0] 2) [[(10, 0); (11, 1)]; [(12, 1)]] = Some c /\
            validation (cv_map fst c) 0 = Some [[12]] /\ validation (cv_map snd c) 0 = Some [[1]].
Proof. eexists. vm_compute. repeat split; reflexivity. Qed.

(* ================= the loops as written (C12Loops.v / C12LoopsProofs.v) ================= *)

(* the construction loop: bszs = batch sizes of fold 0, of fold 1, ... (all >= 1); batchSizes = their concatenation,
   partitionStart = the prefix sums of the numbers of batches; steps = (source position, fold) in loop order, every fold
   named exactly as often as it has room.  [newset] = the batches of newSet as lists of source positions. *)
Theorem C12_construction_loop :
  forall bszs : list (list nat), (forall p s, In s (nth p bszs []) -> 1 <= s) ->
  forall steps,
    (forall sp, In sp steps -> snd sp < length bszs) ->
    (forall p, p < length bszs -> count_eq (map snd steps) p = sum (nth p bszs [])) ->
    newset (cv_loop (concat bszs) (pstarts (map (@length nat) bszs) 0) (length bszs) steps) =
    chunk (concat bszs) (flat_map (fun p => map fst (filter (fun sp => snd sp =? p) steps)) (seq 0 (length bszs))).
Proof. exact cv_loop_newset. Qed.
Print Assumptions C12_construction_loop.

Theorem C12_sub_batch :
  forall A (dflt : A) (d : @data A) idxs, forallb (fun i => i <? nelems d) idxs = true ->
    sub_batch d idxs = Some (map (fun i => nth i (elems d) dflt) idxs).
Proof. intros A. exact (@sub_batch_spec A). Qed.
Print Assumptions C12_sub_batch.

Theorem C12_loop_constructors_are_cv_create :
  forall A (dflt : A) req (d : @data A), cv_create_loop dflt req d = cv_create dflt req d.
Proof. intros A. exact (@cv_create_loop_correct A). Qed.
Print Assumptions C12_loop_constructors_are_cv_create.

Theorem C12_complement_set_difference :
  forall idx n, complement_sd idx n = complement idx n.
Proof. exact complement_sd_correct. Qed.
Print Assumptions C12_complement_set_difference.

Theorem C12_training_through_set_difference :
  forall A (c : @cv A) p, training_sd c p = training c p.
Proof. intros A. exact (@training_sd_correct A). Qed.
Print Assumptions C12_training_through_set_difference.

(* with shapes: what the driver runs *)
Theorem C12_shaped_loop_constructors :
  forall A S (dflt : A) req (x : sdata A S),
    scv_create_loop dflt req x = scv_create dflt req x /\
    forall (c : scv A S) p, s_training_sd c p = s_training c p.
Proof. intros A S dflt req x. split; [apply scv_create_loop_correct|intros; apply s_training_sd_correct]. Qed.
Print Assumptions C12_shaped_loop_constructors.

(* the loop on the steps (2,1) (0,0) (1,1) (3,0) (4,1), fold 0 = one batch of 2, fold 1 = batches of 2 and 1 *)
Example C12_loop_example :
  newset (cv_loop [2;2;1] [0;1] 2 [(2,1);(0,0);(1,1);(3,0);(4,1)]) = [[0;3];[2;1];[4]] /\
  complement_sd [3;0;3] 5 = [1;2;4] /\
  cv_create_loop 0 (ReqIndexed [1;0;1;2;0] 3 2) [[10;11;12];[13;14]] = cv_create 0 (ReqIndexed [1;0;1;2;0] 3 2) [[10;11;12];[13;14]].
Proof. vm_compute. repeat split; reflexivity. Qed.
