(* C12 — Cross-validation folds partition the data.  Statements only; proofs in C12Proofs.v.

   Proved for all datasets, fold counts, batch sizes, shuffles and index vectors:
   the fold layout produced by batchPartitioning + CVFolds reads out exactly the consecutive
   slices of the reorganised element list with the requested validation sizes (so the validation
   parts are pairwise disjoint and jointly exhaustive), equal sizes (+-1) for the same-size
   constructors, each training part is the complement of its validation part, index-based
   construction puts every element into exactly the requested fold (original order inside a fold).
   createCVSameSizeBalanced (members = per class a permutation of the class's positions, the shuffle
   drawn by the library): contiguous fold layout with the same-size sizes; validation part p holds
   exactly the members with running number p, p+k, p+2k, ... of the concatenated member lists (the
   dealing continues across class borders); hence part p holds, of class c with n_c members,
   n_c / k members plus one more iff one of the n_c mod k running numbers off_c, off_c + 1, ... is
   congruent p modulo k (off_c = number of members of the classes before c): class counts of any two
   folds differ by at most one, for every class.
   NOT proved (correspondence + monitor only): createCVFullyIndexed / createCVBatch layouts,
   preservation of the element shape (the shape is not part of the Coq model; it is compared by the
   correspondence run).                                                                             *)
From Coq Require Import List Arith Permutation.
From SharkV Require Import ListAux C03Model C03Proofs C03Class C12Model C12Proofs C12BalancedProofs.
Import ListNotations.

Theorem C12_same_size_fold_sizes :
  forall n k, 0 < k ->
    sum (val_sizes n k) = n /\ length (val_sizes n k) = k /\
    (forall a b, In a (val_sizes n k) -> In b (val_sizes n k) -> a <= b + 1).
Proof. exact val_sizes_spec. Qed.
Print Assumptions C12_same_size_fold_sizes.

(* validation parts of a contiguous fold layout: disjoint position ranges covering everything *)
Theorem C12_validation_parts_partition :
  forall A (c : @cv A) psizes, contiguous_cv c psizes ->
    concat (map (fold_elems (cv_set c)) (cv_folds c)) = elems (cv_set c) /\
    map (@length A) (map (fold_elems (cv_set c)) (cv_folds c)) = psizes.
Proof. intros A. exact (@contiguous_partition A). Qed.
Print Assumptions C12_validation_parts_partition.

Theorem C12_createCVSameSize :
  forall A dflt sigma k m (d : @data A) c, cv_same_size dflt sigma k m d = Some c ->
    contiguous_cv c (val_sizes (nelems d) k) /\
    elems (cv_set c) = map (fun i => nth i (elems d) dflt) sigma /\
    (forall s, In s (sizes (cv_set c)) -> 1 <= s <= m).
Proof. intros A. exact (@cv_same_size_spec A). Qed.
Print Assumptions C12_createCVSameSize.

Theorem C12_createCVIndexed :
  forall A dflt idx k m (d : @data A) c, cv_indexed dflt idx k m d = Some c ->
    contiguous_cv c (map (count_eq idx) (seq 0 k)) /\
    map (fold_elems (cv_set c)) (cv_folds c) =
      map (fun p => map (fun i => nth i (elems d) dflt) (filter (fun i => nth i idx 0 =? p) (seq 0 (length idx)))) (seq 0 k) /\
    (forall s, In s (sizes (cv_set c)) -> 1 <= s <= m).
Proof. intros A. exact (@cv_indexed_spec A). Qed.
Print Assumptions C12_createCVIndexed.

Theorem C12_training_is_complement :
  forall A (c : @cv A) p (dv dt : @data A),
    NoDup (nth p (cv_folds c) []) ->
    validation c p = Some dv -> training c p = Some dt ->
    Permutation (dv ++ dt) (cv_set c) /\ Permutation (elems dv ++ elems dt) (elems (cv_set c)).
Proof. intros A. exact (@training_is_complement A). Qed.
Print Assumptions C12_training_is_complement.

(* createCVSameSizeBalanced: the round-robin dealing of the members is a permutation of them, so
   (with members = a permutation of all positions) no element is lost or duplicated *)
Theorem C12_balanced_dealing_is_permutation :
  forall s k, 0 < k -> Permutation (dealt_order s k) s.
Proof. exact dealt_order_perm. Qed.
Print Assumptions C12_balanced_dealing_is_permutation.

(* createCVSameSizeBalanced.  [fold_positions members k p] := the members (class after class, each class
   in its shuffled order) whose running number 0,1,2,... is congruent p modulo k;
   [cnt k p a n] := how many of the numbers a, a+1, ..., a+n-1 are congruent p modulo k *)
Theorem C12_round_robin_count :
  forall k p a n, p < k -> cnt k p a n = n / k + cnt k p a (n mod k) /\ cnt k p a (n mod k) <= 1.
Proof. exact cnt_div. Qed.
Print Assumptions C12_round_robin_count.

Theorem C12_createCVSameSizeBalanced :
  forall A dflt members k m (d : @data A) c, cv_balanced dflt members k m d = Some c ->
    contiguous_cv c (val_sizes (nelems d) k) /\
    map (fold_elems (cv_set c)) (cv_folds c) =
      map (fun p => map (fun i => nth i (elems d) dflt) (fold_positions members k p)) (seq 0 k) /\
    (forall s, In s (sizes (cv_set c)) -> 1 <= s <= m).
Proof. intros A. exact (@cv_balanced_spec A). Qed.
Print Assumptions C12_createCVSameSizeBalanced.

(* what the dealing guarantees for the class counts, exactly (on the label container) *)
Theorem C12_balanced_class_counts :
  forall members k m (lab : @data nat) c,
    valid_members (elems lab) members = true -> cv_balanced 0 members k m lab = Some c ->
    forall cl p, cl < length members -> p < k ->
      let n_c := count_in (elems lab) cl in
      let off_c := sum (map (count_in (elems lab)) (seq 0 cl)) in
      count_in (nth p (map (fold_elems (cv_set c)) (cv_folds c)) []) cl = n_c / k + cnt k p off_c (n_c mod k) /\
      cnt k p off_c (n_c mod k) <= 1.
Proof. exact cv_balanced_class_balance. Qed.
Print Assumptions C12_balanced_class_counts.

Theorem C12_balanced_class_counts_differ_by_at_most_one :
  forall members k m (lab : @data nat) c,
    valid_members (elems lab) members = true -> cv_balanced 0 members k m lab = Some c ->
    forall cl p q, cl < length members -> p < k -> q < k ->
      count_in (nth p (map (fold_elems (cv_set c)) (cv_folds c)) []) cl
      <= count_in (nth q (map (fold_elems (cv_set c)) (cv_folds c)) []) cl + 1.
Proof. exact cv_balanced_class_counts_differ_by_at_most_one. Qed.
Print Assumptions C12_balanced_class_counts_differ_by_at_most_one.

Example C12_example :
  exists c, cv_indexed 0 [1;0;1;2;0] 3 2 [[10;11;12];[13;14]] = Some c /\
            cv_set c = [[11;14];[10;12];[13]] /\ cv_folds c = [[0];[1];[2]].
Proof. eexists. vm_compute. repeat split; reflexivity. Qed.

(* labels 0 1 0 1 0 0 1, three folds: class 0 (4 members, shuffled 5 0 2 4) then class 1 (shuffled 6 1 3) *)
Example C12_balanced_example :
  exists c, valid_members (elems [[0;1;0;1];[0;0;1]]) [[5;0;2;4];[6;1;3]] = true /\
            cv_balanced 0 [[5;0;2;4];[6;1;3]] 3 2 [[0;1;0;1];[0;0;1]] = Some c /\
            map (fold_elems (cv_set c)) (cv_folds c) = [[0;0;1];[0;1];[0;1]].
Proof. eexists. vm_compute. repeat split; reflexivity. Qed.
