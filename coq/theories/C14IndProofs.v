(* C14 — proofs about the indicator models of C14Ind.v, part 1 (axiom-free):
     validity (index into the non-empty argument) of eps_lc, hv_ind_lc, cd_lc for every input, hence
     valid_oracle of the three leastContributors; the meaning of the epsilon indicator; the coded
     2-D hypervolume indicator with reference point returns an index of minimal contrib_spec;
     the steady-state hypervolume theorem with its hypothesis restricted to fronts the selection can
     hand over, and its instance for the coded 2-D indicator. *)
From Coq Require Import List ZArith Lia Bool Arith Permutation.
From SharkV Require Import ListAux C13Model C13Proofs C13ProofsContrib C14Model C14Proofs C14Ind.
Import ListNotations.

(* ========================================================================================== *)
(* 1. the polymorphic loop *)
Lemma lc_iter_g_point lc : forall K P act A, lc_iter_g lc K P act A = lc_iter lc K P act A.
Proof. induction K as [|K IH]; intros; simpl; auto; try now rewrite IH. Qed.

Lemma least_contributors_g_point lc F A K : least_contributors_g lc F A K = least_contributors lc F A K.
Proof. apply lc_iter_g_point. Qed.

Definition valid_oracle_g {P : Type} (lcs : list P -> list P -> nat -> list nat) : Prop :=
  forall F A K, K <= length F ->
    length (lcs F A K) = K /\ NoDup (lcs F A K) /\ (forall i, In i (lcs F A K) -> i < length F).

Section LcIterG.
  Context {P : Type}.
  Variable lc : list P -> list P -> nat.
  Hypothesis lc_valid : forall F A, F <> [] -> lc F A < length F.

  Lemma lc_iter_g_valid : forall K F act A, length act = length F -> K <= length F -> NoDup act ->
    length (lc_iter_g lc K F act A) = K /\ NoDup (lc_iter_g lc K F act A) /\
    forall x, In x (lc_iter_g lc K F act A) -> In x act.
  Proof.
    induction K as [|K IH]; intros F act A L HK ND; simpl.
    - repeat split; [constructor|tauto].
    - assert (HP : F <> []) by (destruct F; simpl in *; [lia|discriminate]).
      pose proof (lc_valid F A HP) as Hi. set (idx := lc F A) in *.
      destruct (IH (remove_nth idx F) (remove_nth idx act) A) as [L' [ND' IN']].
      + pose proof (remove_nth_length idx F Hi). pose proof (remove_nth_length idx act ltac:(lia)). lia.
      + pose proof (remove_nth_length idx F Hi). lia.
      + now apply NoDup_remove_nth.
      + repeat split.
        * now rewrite L'.
        * constructor; auto. intros Hin. apply IN' in Hin. revert Hin.
          apply nth_notin_remove_nth; auto. lia.
        * intros x [<-|Hx]; [apply nth_In; lia|]. apply IN' in Hx. eapply In_remove_nth; eauto.
  Qed.

  Theorem least_contributors_g_valid : valid_oracle_g (least_contributors_g lc).
  Proof.
    intros F A K HK. unfold least_contributors_g.
    destruct (lc_iter_g_valid K F (seq 0 (length F)) A) as [L [ND IN]]; auto.
    - now rewrite seq_length.
    - apply seq_NoDup.
    - repeat split; auto. intros i Hi. apply IN in Hi. apply in_seq in Hi. lia.
  Qed.
End LcIterG.

(* ========================================================================================== *)
(* 2. std::min_element *)
Section MinElementProofs.
  Context {T : Type}.
  Variable ltb : T -> T -> bool.

  Lemma min_element_from_bound : forall l bi b i, bi < i ->
    min_element_from ltb bi b i l < i + length l.
  Proof.
    induction l as [|x l IH]; intros bi b i H; simpl; [lia|].
    destruct (ltb x b).
    - specialize (IH i x (Datatypes.S i) ltac:(lia)). lia.
    - specialize (IH bi b (Datatypes.S i) ltac:(lia)). lia.
  Qed.

  Lemma min_element_lt l : l <> [] -> min_element ltb l < length l.
  Proof.
    destruct l as [|x l]; [congruence|]. intros _. simpl.
    pose proof (min_element_from_bound l 0 x 1 ltac:(lia)). lia.
  Qed.

  (* first minimum, for a comparison that is the strict part of a total boolean preorder *)
  Variable leb : T -> T -> bool.
  Hypothesis ltb_leb : forall x y, ltb x y = negb (leb y x).
  Hypothesis leb_total : forall x y, leb x y = true \/ leb y x = true.
  Hypothesis leb_trans : forall x y z, leb x y = true -> leb y z = true -> leb x z = true.

  Lemma min_element_from_spec d : forall l pre bi b i,
    length pre = i -> bi < i -> nth bi pre d = b ->
    (forall j, j < i -> leb b (nth j pre d) = true) ->
    (forall j, j < bi -> leb (nth j pre d) b = false) ->
    let r := min_element_from ltb bi b i l in
    let all := pre ++ l in
    r < length all /\
    (forall j, j < length all -> leb (nth r all d) (nth j all d) = true) /\
    (forall j, j < r -> leb (nth j all d) (nth r all d) = false).
  Proof.
    induction l as [|x l IH]; intros pre bi b i L H E LE LT; cbn zeta.
    - simpl. rewrite app_nil_r. rewrite E. repeat split; try lia; auto. intros j Hj. apply LE. lia.
    - cbn [min_element_from]. rewrite ltb_leb. destruct (leb b x) eqn:C; cbn [negb].
      + specialize (IH (pre ++ [x]) bi b (Datatypes.S i)).
        rewrite app_length in IH. cbn [length] in IH. rewrite <- app_assoc in IH. cbn [app] in IH.
        apply IH; try lia.
        * rewrite app_nth1 by lia. auto.
        * intros j Hj. destruct (Nat.eq_dec j i) as [->|N].
          -- rewrite app_nth2, L, Nat.sub_diag by lia. exact C.
          -- rewrite app_nth1 by lia. apply LE. lia.
        * intros j Hj. rewrite app_nth1 by lia. auto.
      + assert (XB : leb x b = true) by (destruct (leb_total x b); congruence).
        specialize (IH (pre ++ [x]) i x (Datatypes.S i)).
        rewrite app_length in IH. cbn [length] in IH. rewrite <- app_assoc in IH. cbn [app] in IH.
        apply IH; try lia.
        * rewrite app_nth2, L, Nat.sub_diag by lia. reflexivity.
        * intros j Hj. destruct (Nat.eq_dec j i) as [->|N].
          -- rewrite app_nth2, L, Nat.sub_diag by lia. cbn [nth]. destruct (leb_total x x); auto.
          -- rewrite app_nth1 by lia. apply (leb_trans x b); auto. apply LE. lia.
        * intros j Hj. rewrite app_nth1 by lia.
          destruct (leb (nth j pre d) x) eqn:Cj; auto.
          rewrite (leb_trans b (nth j pre d) x) in C; auto; try discriminate; apply LE; lia.
  Qed.

  Lemma min_element_spec d l : l <> [] ->
    let r := min_element ltb l in
    r < length l /\
    (forall j, j < length l -> leb (nth r l d) (nth j l d) = true) /\
    (forall j, j < r -> leb (nth j l d) (nth r l d) = false).
  Proof.
    destruct l as [|x l]; [congruence|]. intros _. cbn zeta. unfold min_element.
    apply (min_element_from_spec d l [x] 0 x 1); auto.
    - intros [|j] Hj; [|lia]. simpl. destruct (leb_total x x); auto.
    - intros j Hj. lia.
  Qed.
End MinElementProofs.

(* ========================================================================================== *)
(* 3. "argmin with strict update": for i in 0..n-1: if g(i) < best then best = g(i), index = i *)
Section ArgminFold.
  Context {V : Type}.
  Variable ltb leb : V -> V -> bool.
  Hypothesis ltb_leb : forall x y, ltb x y = negb (leb y x).
  Hypothesis leb_total : forall x y, leb x y = true \/ leb y x = true.
  Hypothesis leb_trans : forall x y z, leb x y = true -> leb y z = true -> leb x z = true.
  Variable top : V.
  Hypothesis top_max : forall v, leb v top = true.
  Variable g : nat -> V.

  Definition am_step (st : nat * V) (i : nat) : nat * V :=
    if ltb (g i) (snd st) then (i, g i) else st.

  Lemma am_fold n : 1 <= n ->
    let st := fold_left am_step (seq 0 n) (0, top) in
    fst st < n /\ leb (snd st) (g (fst st)) = true /\ leb (g (fst st)) (snd st) = true /\
    (forall j, j < n -> leb (g (fst st)) (g j) = true) /\
    (forall j, j < fst st -> leb (g j) (g (fst st)) = false).
  Proof.
    assert (R : forall x, leb x x = true) by (intros x; destruct (leb_total x x); auto).
    induction n as [|n IH]; [lia|]. intros _. rewrite seq_S, fold_left_app. cbn [fold_left Nat.add].
    destruct n as [|n].
    - cbn [seq fold_left]. unfold am_step. cbn [snd]. rewrite ltb_leb.
      destruct (leb top (g 0)) eqn:C; cbn [negb fst snd].
      + repeat split; auto; try lia. intros [|j] Hj; [auto|lia].
      + repeat split; auto; try lia. intros [|j] Hj; [auto|lia].
    - specialize (IH ltac:(lia)). cbn zeta in IH.
      set (st := fold_left am_step (seq 0 (Datatypes.S n)) (0, top)) in *.
      destruct IH as [B [E1 [E2 [MIN FIRST]]]].
      assert (ST : am_step st (Datatypes.S n) =
                   if negb (leb (snd st) (g (Datatypes.S n))) then (Datatypes.S n, g (Datatypes.S n)) else st)
        by (unfold am_step; now rewrite ltb_leb).
      rewrite ST. clear ST.
      destruct (leb (snd st) (g (Datatypes.S n))) eqn:C; cbn [negb fst snd].
      + repeat split; auto; try lia. intros j Hj. destruct (Nat.eq_dec j (Datatypes.S n)) as [->|N].
        * apply (leb_trans _ (snd st)); auto.
        * apply MIN. lia.
      + assert (XB : leb (g (Datatypes.S n)) (snd st) = true) by (destruct (leb_total (g (Datatypes.S n)) (snd st)); congruence).
        repeat split; auto; try lia.
        * intros j Hj. destruct (Nat.eq_dec j (Datatypes.S n)) as [->|N]; auto.
          apply (leb_trans _ (snd st)); auto. apply (leb_trans _ (g (fst st))); auto. apply MIN. lia.
        * intros j Hj. destruct (leb (g j) (g (Datatypes.S n))) eqn:Cj; auto.
          rewrite (leb_trans (snd st) (g j) (g (Datatypes.S n))) in C; auto; try discriminate.
          apply (leb_trans _ (g (fst st))); auto.
  Qed.
End ArgminFold.

(* ========================================================================================== *)
(* 4. AdditiveEpsilonIndicator *)
Local Open Scope Z_scope.

Definition ez_leb (a b : option Z) : bool := negb (ez_ltb b a).

Lemma ez_ltb_leb x y : ez_ltb x y = negb (ez_leb y x).
Proof. unfold ez_leb. now rewrite negb_involutive. Qed.
Lemma ez_leb_total x y : ez_leb x y = true \/ ez_leb y x = true.
Proof.
  unfold ez_leb. destruct x as [x|], y as [y|]; simpl; auto.
  destruct (Z.ltb_spec y x), (Z.ltb_spec x y); simpl; auto; lia.
Qed.
Lemma ez_leb_trans x y z : ez_leb x y = true -> ez_leb y z = true -> ez_leb x z = true.
Proof.
  unfold ez_leb. destruct x as [x|], y as [y|], z as [z|]; simpl; auto; try discriminate.
  destruct (Z.ltb_spec y x), (Z.ltb_spec z y), (Z.ltb_spec z x); simpl; auto; try discriminate; lia.
Qed.
Lemma ez_top_max v : ez_leb v None = true.
Proof. destruct v; reflexivity. Qed.

(* max(front[j]-front[i]) is the largest component of the difference *)
Lemma fold_max_spec : forall l m,
  let r := fold_left Z.max l m in
  (r = m \/ In r l) /\ m <= r /\ forall x, In x l -> x <= r.
Proof.
  induction l as [|a l IH]; intros m; cbn zeta; simpl.
  - repeat split; auto; try lia; try tauto.
  - destruct (IH (Z.max m a)) as [D [G A]]. split; [|split].
    + destruct D as [E|I]; [|auto]. destruct (Z.max_spec m a) as [[_ Em]|[_ Em]]; rewrite Em in *; [right; left; auto|left; auto].
    + lia.
    + intros x [<-|Hx]; [lia|auto].
Qed.

Lemma max_diff_spec a b : length a = length b -> (1 <= length a)%nat ->
  (exists k, (k < length a)%nat /\ max_diff a b = nth k a 0 - nth k b 0) /\
  forall k, (k < length a)%nat -> nth k a 0 - nth k b 0 <= max_diff a b.
Proof.
  destruct a as [|x a], b as [|y b]; simpl; try lia. intros L _.
  set (l := map (fun p => fst p - snd p) (combine a b)).
  assert (NL : forall k, (k < length a)%nat -> nth k l 0 = nth k a 0 - nth k b 0).
  { intros k Hk. unfold l.
    rewrite (nth_indep _ 0 ((fun p => fst p - snd p) (0, 0))) by (rewrite map_length, combine_length; lia).
    rewrite (map_nth (fun p => fst p - snd p)). rewrite combine_nth by lia. reflexivity. }
  assert (LL : length l = length a) by (unfold l; rewrite map_length, combine_length; lia).
  destruct (fold_max_spec l (x - y)) as [[E|I] [G A]]; split.
  - exists 0%nat. split; [lia|auto].
  - intros [|k] Hk; [lia|]. rewrite <- NL by lia. apply A. apply nth_In. lia.
  - destruct (In_nth l _ 0 I) as [k [Hk Ek]]. exists (Datatypes.S k). split; [lia|]. rewrite <- NL by lia. auto.
  - intros [|k] Hk; [lia|]. rewrite <- NL by lia. apply A. apply nth_In. lia.
Qed.

(* the inner loop computes the minimum over the other points *)
Lemma eps_inner_spec (md : nat -> Z) (i : nat) : forall l res,
  let r := fold_left (fun res j => if (j =? i)%nat then res else ez_min res (md j)) l res in
  match r with
  | None => res = None /\ forall j, In j l -> j = i
  | Some v => (res = Some v \/ exists j, In j l /\ j <> i /\ v = md j) /\
              (forall w, res = Some w -> v <= w) /\ (forall j, In j l -> j <> i -> v <= md j)
  end.
Proof.
  induction l as [|a l IH]; intros res; cbn zeta; cbn [fold_left].
  - destruct res as [v|]; [|split; auto; intros j []].
    repeat split; auto. + intros w [= <-]. lia. + intros j [].
  - destruct (Nat.eqb_spec a i) as [->|N].
    + specialize (IH res). cbn zeta in IH.
      destruct (fold_left _ l res) as [v|].
      * destruct IH as [D [W M]]. split; [|split]; auto.
        -- destruct D as [E|[j [Hj [Nj Ej]]]]; auto. right. exists j. simpl. auto.
        -- intros j [<-|Hj] Nj; [congruence|auto].
      * destruct IH as [E A]. split; auto. intros j [<-|Hj]; auto.
    + specialize (IH (ez_min res (md a))). cbn zeta in IH.
      destruct (fold_left _ l (ez_min res (md a))) as [v|].
      * destruct IH as [D [W M]].
        assert (Wa : v <= md a) by (destruct res as [w|]; simpl in W; specialize (W _ eq_refl); lia).
        split; [|split].
        -- destruct D as [E|[j [Hj [Nj Ej]]]].
           ++ destruct res as [w|]; simpl in E; injection E as E.
              ** destruct (Z.min_spec w (md a)) as [[_ Em]|[_ Em]]; rewrite Em in E.
                 --- left. congruence.
                 --- right. exists a. simpl. auto.
              ** right. exists a. simpl. auto.
           ++ right. exists j. simpl. auto.
        -- intros w ->. simpl in W. specialize (W _ eq_refl). lia.
        -- intros j [<-|Hj] Nj; [lia|auto].
      * destruct IH as [E _]. destruct res; discriminate.
Qed.

(* epsilon value of point i: the least amount the OTHER points must be shifted to weakly dominate it *)
Theorem eps_result_spec F i :
  match eps_result F i with
  | None => forall j, (j < length F)%nat -> j = i
  | Some v => (exists j, (j < length F)%nat /\ j <> i /\ v = max_diff (nth j F []) (nth i F [])) /\
              forall j, (j < length F)%nat -> j <> i -> v <= max_diff (nth j F []) (nth i F [])
  end.
Proof.
  unfold eps_result.
  pose proof (eps_inner_spec (fun j => max_diff (nth j F []) (nth i F [])) i (seq 0 (length F)) None) as H.
  cbn zeta in H. destruct (fold_left _ (seq 0 (length F)) None) as [v|].
  - destruct H as [[E|[j [Hj [Nj Ej]]]] [_ M]]; [discriminate|]. split.
    + exists j. apply in_seq in Hj. repeat split; auto; lia.
    + intros j' Hj' Nj'. apply M; auto. apply in_seq. lia.
  - destruct H as [_ A]. intros j Hj. apply A. apply in_seq. lia.
Qed.

Lemma eps_lc_fold F n :
  fold_left (eps_step F) (seq 0 n) (0%nat, None) =
  fold_left (am_step ez_ltb (eps_result F)) (seq 0 n) (0%nat, None).
Proof. reflexivity. Qed.

(* leastContributor = the first index of minimal epsilon value (None = numeric_limits::max) *)
Theorem eps_lc_spec F A : F <> [] ->
  let i0 := eps_lc F A in
  (i0 < length F)%nat /\
  (forall j, (j < length F)%nat -> ez_leb (eps_result F i0) (eps_result F j) = true) /\
  (forall j, (j < i0)%nat -> ez_ltb (eps_result F i0) (eps_result F j) = true).
Proof.
  intros N. cbn zeta. unfold eps_lc. rewrite eps_lc_fold.
  assert (Hn : (1 <= length F)%nat) by (destruct F; simpl; [congruence|lia]).
  destruct (am_fold ez_ltb ez_leb ez_ltb_leb ez_leb_total ez_leb_trans None ez_top_max (eps_result F) (length F) Hn)
    as [B [_ [_ [MIN FIRST]]]].
  repeat split; auto. intros j Hj. rewrite ez_ltb_leb. rewrite FIRST; auto.
Qed.

Lemma eps_lc_valid F A : F <> [] -> (eps_lc F A < length F)%nat.
Proof. intros N. apply (eps_lc_spec F A N). Qed.

Theorem eps_lcs_valid : valid_oracle eps_lcs.
Proof. apply least_contributors_valid. exact eps_lc_valid. Qed.

(* ========================================================================================== *)
(* 5. HypervolumeIndicator *)

Lemma fold_keep_smallest : forall t x,
  let r := fold_left keep_smallest t x in
  In r (x :: t) /\ forall y, In y (x :: t) -> fst r <= fst y.
Proof.
  induction t as [|c t IH]; intros x; cbn zeta; cbn [fold_left].
  - split; [simpl; auto|]. intros y [<-|[]]. lia.
  - destruct (IH (keep_smallest x c)) as [I M]. unfold keep_smallest in *.
    destruct (Z.ltb_spec (fst x) (fst c)).
    + split.
      * destruct I as [E|I]; [left; auto|right; right; auto].
      * intros y [<-|[<-|Hy]].
        -- apply M. left. auto.
        -- specialize (M x (or_introl eq_refl)). lia.
        -- apply M. right. auto.
    + split.
      * destruct I as [E|I]; [right; left; auto|right; right; auto].
      * intros y [<-|[<-|Hy]].
        -- specialize (M c (or_introl eq_refl)). lia.
        -- apply M. left. auto.
        -- apply M. right. auto.
Qed.

Lemma smallest1_spec l : l <> [] ->
  exists v, In (v, smallest1 l) l /\ forall y, In y l -> v <= fst y.
Proof.
  destruct l as [|x t]; [congruence|]. intros _. unfold smallest1.
  destruct (fold_keep_smallest t x) as [I M]. cbn zeta in *.
  exists (fst (fold_left keep_smallest t x)). split; auto.
  now rewrite <- surjective_pairing.
Qed.

(* indices reported by the sweep are indices of elements that have a successor *)
Lemma contribs_idx : forall l y v i, In (v, i) (contribs y l) -> In i (map snd (removelast l)).
Proof.
  induction l as [|[[x y0] i0] l IH]; intros y v i H; [destruct H|].
  destruct l as [|[[x' y'] i'] l']; [destruct H|].
  change (contribs y (((x, y0), i0) :: ((x', y'), i') :: l')) with
    (((x' - x) * (y - y0), i0) :: contribs y0 (((x', y'), i') :: l')) in H.
  change (removelast (((x, y0), i0) :: ((x', y'), i') :: l')) with
    (((x, y0), i0) :: removelast (((x', y'), i') :: l')).
  destruct H as [E|H]; [injection E as _ <-; left; reflexivity|]. right. eapply IH; eauto.
Qed.

Lemma contrib2d_ref_idx ref S v i : In (v, i) (contrib2d_ref ref S) -> (i < length S)%nat.
Proof.
  unfold contrib2d_ref. destruct ref as [|r0 [|r1 [|? ?]]]; try (intros []).
  intros H. apply contribs_idx in H. rewrite removelast_last in H.
  apply (Permutation_in _ (Permutation_map snd (sort_lex_perm (indexed S)))) in H.
  rewrite indexed_snd in H. apply in_seq in H. lia.
Qed.

Lemma contrib2d_noref_idx S v i : In (v, i) (contrib2d_noref S) -> (i < length S)%nat.
Proof.
  unfold contrib2d_noref. intros H.
  assert (P : forall j, In j (map snd (sort_lex (indexed S))) -> (j < length S)%nat).
  { intros j Hj. apply (Permutation_in _ (Permutation_map snd (sort_lex_perm (indexed S)))) in Hj.
    rewrite indexed_snd in Hj. apply in_seq in Hj. lia. }
  destruct (sort_lex (indexed S)) as [|[[x0 y0] i0] t]; [destruct H|].
  apply contribs_idx in H. apply P. simpl. right.
  clear -H. induction t as [|a t IH]; [destruct H|]. destruct t as [|b t]; [destruct H|].
  change (removelast (a :: b :: t)) with (a :: removelast (b :: t)) in H.
  destruct H as [<-|H]; [left; auto|right; auto].
Qed.

Lemma smallest1_idx (l : list (Z * nat)) n : (0 < n)%nat ->
  (forall v i, In (v, i) l -> (i < n)%nat) -> (smallest1 l < n)%nat.
Proof.
  intros Hn H. destruct l as [|x t]; [exact Hn|].
  destruct (smallest1_spec (x :: t) ltac:(discriminate)) as [v [I _]]. eapply H; eauto.
Qed.

Lemma hv2d_noref_lc_valid F : F <> [] -> (hv2d_noref_lc F < length F)%nat.
Proof.
  intros N. assert (Hn : (0 < length F)%nat) by (destruct F; simpl; [congruence|lia]).
  unfold hv2d_noref_lc. destruct (2 <? length F)%nat.
  - apply smallest1_idx; auto. apply contrib2d_noref_idx.
  - assert (P : forall j, In j (map snd (sort_lex (indexed F))) -> (j < length F)%nat).
    { intros j Hj. apply (Permutation_in _ (Permutation_map snd (sort_lex_perm (indexed F)))) in Hj.
      rewrite indexed_snd in Hj. apply in_seq in Hj. lia. }
    destruct (sort_lex (indexed F)) as [|[p i] t]; auto. apply P. simpl. auto.
Qed.

Section HvIndicatorProofs.
  Variable other : point -> list point -> nat.
  Hypothesis other_valid : forall ref F, F <> [] -> (other ref F < length F)%nat.

  Lemma hv_ind_lc_valid ref F A : F <> [] -> (hv_ind_lc other ref F A < length F)%nat.
  Proof.
    intros N. assert (Hn : (0 < length F)%nat) by (destruct F; simpl; [congruence|lia]).
    unfold hv_ind_lc. destruct ref as [|r ref].
    - destruct F as [|p0 F']; [congruence|]. destruct (length p0 =? 2)%nat.
      + now apply hv2d_noref_lc_valid.
      + now apply other_valid.
    - destruct (length (r :: ref) =? 2)%nat.
      + apply smallest1_idx; auto. apply contrib2d_ref_idx.
      + now apply other_valid.
  Qed.

  (* HypervolumeIndicator::leastContributors returns K distinct indices into the front, with or without
     reference point, whatever the 3-D / MD routines return as long as it is an index into their argument *)
  Theorem hv_ind_lcs_valid ref : valid_oracle (hv_ind_lcs other ref).
  Proof. apply least_contributors_valid. intros; now apply hv_ind_lc_valid. Qed.

  (* with a 2-objective reference point: an index of minimal exact contribution *)
  Theorem hv_ind_lc_least ref F A :
    length ref = 2%nat -> F <> [] -> below_ref ref F -> mutually_nondominated F ->
    (hv_ind_lc other ref F A < length F)%nat /\
    forall j, (j < length F)%nat ->
      contrib_spec ref F (hv_ind_lc other ref F A) <= contrib_spec ref F j.
  Proof.
    intros L2 N B MN. split; [now apply hv_ind_lc_valid|]. intros j Hj.
    unfold hv_ind_lc. destruct ref as [|r0 [|r1 [|? ?]]]; try discriminate.
    cbn [length Nat.eqb].
    pose proof (contrib2d_ref_value [r0; r1] F eq_refl B MN) as V.
    assert (NE : contrib2d_ref [r0; r1] F <> []).
    { intros E. assert (I0 : In (contrib_spec [r0; r1] F 0%nat, 0%nat) (contrib2d_ref [r0; r1] F)).
      { apply V. split; auto. destruct F; simpl; [congruence|lia]. }
      rewrite E in I0. destruct I0. }
    destruct (smallest1_spec _ NE) as [v [I M]].
    apply V in I. destruct I as [_ ->].
    apply (M (contrib_spec [r0; r1] F j, j)). apply V. auto.
  Qed.
End HvIndicatorProofs.

Local Close Scope Z_scope.

(* ========================================================================================== *)
(* 6. CrowdingDistance: validity for every carrier, every comparison, every sort routine *)
Section CrowdingValid.
  Variable T : Type.
  Variables zero keep : T.
  Variables add sub div : T -> T -> T.
  Variables ltb eqb : T -> T -> bool.
  Variable sort : list (T * nat) -> list (T * nat).

  Lemma cd_interior_cons3 nF nrm a b c l d :
    cd_interior T zero keep add sub div eqb nF nrm (a :: b :: c :: l) d =
    cd_interior T zero keep add sub div eqb nF nrm (b :: c :: l)
      (if (nF <=? snd b) || eqb (nth (snd b) d zero) keep then d
       else upd (snd b) (add (nth (snd b) d zero) (div (sub (fst c) (fst a)) nrm)) d).
  Proof. reflexivity. Qed.

  Lemma cd_interior_length nF nrm : forall l d,
    length (cd_interior T zero keep add sub div eqb nF nrm l d) = length d.
  Proof.
    induction l as [|a l IH]; intros d; [reflexivity|].
    destruct l as [|b [|c l']]; try reflexivity.
    rewrite cd_interior_cons3, IH. destruct (_ || _); auto. apply upd_length.
  Qed.

  Lemma cd_mark_length nF e d : length (cd_mark T keep nF e d) = length d.
  Proof. unfold cd_mark. destruct (_ <? _); auto. apply upd_length. Qed.

  Lemma cd_distances_length F A :
    length (cd_distances T zero keep add sub div eqb sort F A) = length F.
  Proof.
    unfold cd_distances. generalize (seq 0 (length (hd [] F))). intros l.
    assert (G : forall d, length (fold_left (cd_objective T zero keep add sub div eqb sort F A) l d) = length d).
    { induction l as [|i l IH]; intros d; simpl; auto. rewrite IH. unfold cd_objective.
      now rewrite cd_interior_length, !cd_mark_length. }
    rewrite G. apply repeat_length.
  Qed.

  Lemma cd_lc_valid F A : F <> [] -> cd_lc T zero keep add sub div ltb eqb sort F A < length F.
  Proof.
    intros N. unfold cd_lc. destruct (Nat.ltb_spec (length F) 2).
    - destruct F; simpl; [congruence|lia].
    - pose proof (cd_distances_length F A) as LD.
      rewrite <- LD. apply min_element_lt.
      intros E. pose proof (cd_distances_length F A) as L. rewrite E in L. simpl in L. lia.
  Qed.

  Theorem cd_lcs_valid : valid_oracle_g (cd_lcs T zero keep add sub div ltb eqb sort).
  Proof. apply least_contributors_g_valid. exact cd_lc_valid. Qed.
End CrowdingValid.

(* ========================================================================================== *)
(* 7. steady-state hypervolume theorem, hypothesis restricted to what the selection can hand over:
      a mutually non-dominated front of the population's dimension below the reference point *)
Section SteadyStateFront.
  Variable lc : list point -> list point -> nat.
  Variable ref : point.
  Variable d : nat.
  Hypothesis lc_valid : forall F A, F <> [] -> lc F A < length F.
  Hypothesis lc_least : forall F A, F <> [] -> same_dim d F -> below_ref ref F -> mutually_nondominated F ->
    forall j, j < length F -> (contrib_spec ref F (lc F A) <= contrib_spec ref F j)%Z.

  Let lcs := least_contributors lc.
  Lemma lcs_ok_front : valid_oracle lcs.
  Proof. apply least_contributors_valid. exact lc_valid. Qed.

  Theorem steady_state_keep_front P o :
    same_dim d (P ++ [o]) -> below_ref ref (P ++ [o]) -> 1 <= length P ->
    (hv_spec ref P <= hv_spec ref (keep (ss_flags lc P o) (P ++ [o])))%Z.
  Proof.
    intros SD BR HP. unfold ss_flags, indicator_selection. cbn [snd].
    set (Q := P ++ [o]) in *. set (r := rank_list Q). set (mu := length P).
    assert (LQ : length Q = Datatypes.S mu) by (unfold Q, mu; rewrite app_length; simpl; lia).
    pose proof (rank_list_is_rank d Q SD) as RA. fold r in RA.
    assert (Lr : length r = length Q) by apply RA.
    assert (R1 : forall i, i < length r -> 1 <= nth i r 0).
    { intros i Hi. apply (rank_fronts_consistent Q r RA i). lia. }
    assert (Hmu : 1 <= mu <= length r) by lia.
    fold lcs.
    destruct (selection_count lcs lcs_ok_front r Q mu Hmu R1) as [CNT LS].
    pose proof (selection_rank_monotone lcs lcs_ok_front r Q mu Hmu R1) as MONO. cbv zeta in MONO.
    set (sel := o_sel (select_with_ranks lcs r Q mu)) in *.
    destruct (forallb (fun x => x =? 1) r) eqn:ALL1.
    - assert (A1 : forall i, i < length r -> nth i r 0 = 1).
      { intros i Hi. rewrite forallb_forall in ALL1. apply Nat.eqb_eq. apply ALL1. now apply nth_In. }
      assert (Nr : r <> []) by (destruct r; simpl in *; [lia|discriminate]).
      unfold sel. rewrite (select_single_front lcs r Q mu Nr A1 (proj1 Hmu)).
      rewrite Lr, pts_seq. replace (length Q - mu) with 1 by lia.
      unfold lcs, least_contributors. cbn [lc_iter map unset_all fold_left].
      assert (NQ : Q <> []) by (destruct Q; simpl in *; [lia|discriminate]).
      assert (MN : mutually_nondominated Q).
      { intros p q Hp Hq Dpq.
        destruct (In_nth Q p [] Hp) as [i [Hi Ei]]. destruct (In_nth Q q [] Hq) as [j [Hj Ej]].
        destruct (rank_fronts_consistent Q r RA j Hj) as [_ [_ [_ ONE]]].
        pose proof (proj1 ONE (A1 j ltac:(lia)) i Hi) as DF.
        rewrite Ei, Ej in DF. apply (proj2 (domb_true_iff p q ltac:(rewrite (SD p Hp), (SD q Hq); auto))) in Dpq.
        congruence. }
      pose proof (lc_valid Q [] NQ) as Lx. pose proof (lc_least Q [] NQ SD BR MN) as Least.
      set (x := lc Q []) in *.
      rewrite (@seq_nth (length Q) 0%nat x 0%nat Lx). cbn [Nat.add]. rewrite (@seq_nth (length Q) 0%nat x 0%nat Lx). cbn [Nat.add].
      rewrite keep_upd_repeat.
      specialize (Least mu ltac:(lia)). unfold contrib_spec in Least.
      assert (RL : remove_nth mu Q = P) by (unfold Q, mu; apply remove_nth_last).
      rewrite RL in Least. lia.
    - assert (EX : exists y, y < length r /\ 2 <= nth y r 0).
      { destruct (forallb_forall (fun x => x =? 1) r) as [_ Hf].
        assert (~ (forall x, In x r -> (x =? 1) = true)) as NA by (intros HA; rewrite (Hf HA) in ALL1; discriminate).
        clear Hf. assert (exists v, In v r /\ v <> 1) as [v [Hv Nv]].
        { clear -NA. induction r as [|a r IH]; [exfalso; apply NA; intros ? []|].
          destruct (Nat.eq_dec a 1) as [->|Na]; [|exists a; simpl; auto].
          destruct IH as [v [Hv Nv]]; [|exists v; simpl; auto].
          intros HA. apply NA. intros x [<-|Hx]; auto. }
        destruct (In_nth r v 0 Hv) as [y [Hy Ey]]. exists y. split; auto.
        specialize (R1 y Hy). lia. }
      destruct EX as [y [Hy Ry]].
      assert (UNIQ : forall a b, a < length r -> b < length r -> a <> b ->
                nth a sel false = false -> nth b sel false = false -> False).
      { intros a b Ha Hb Nab Sa Sb. pose proof (two_false sel a b Nab ltac:(lia) ltac:(lia) Sa Sb). lia. }
      assert (DESEL : forall x, x < length r -> nth x sel false = false -> 2 <= nth x r 0).
      { intros x Hx Sx. destruct (Nat.le_gt_cases 2 (nth x r 0)) as [|Hlt]; auto. exfalso.
        assert (x <> y) by (intros ->; lia).
        destruct (nth y sel false) eqn:Sy.
        - specialize (MONO y x Hy Hx Sy Sx). lia.
        - eapply (UNIQ x y); eauto. }
      transitivity (hv_spec ref Q).
      + apply hv_spec_incl. intros p Hp. unfold Q. apply in_or_app. auto.
      + apply hv_spec_covered_le. intros p Hp.
        destruct (In_nth Q p [] Hp) as [i [Hi Ei]].
        destruct (nth i sel false) eqn:Si.
        * exists p. split; [|apply leq_all_refl]. apply keep_In. exists i. auto.
        * pose proof (DESEL i ltac:(lia) Si) as R2.
          destruct (rank_fronts_consistent Q r RA i Hi) as [_ [_ [DOM _]]].
          destruct (DOM ltac:(lia)) as [j [Hj [Dj Rj]]].
          exists (nth j Q []). split.
          -- apply keep_In. exists j. repeat split; auto.
             destruct (nth j sel false) eqn:Sj; auto. exfalso.
             apply (UNIQ i j); auto; try lia. intros ->. lia.
          -- apply domb_true_iff in Dj.
             ++ rewrite Ei in Dj. apply Dj.
             ++ rewrite (SD (nth j Q [])), (SD (nth i Q [])); auto; apply nth_In; auto.
  Qed.

  Theorem steady_state_step_front P o :
    same_dim d (P ++ [o]) -> below_ref ref (P ++ [o]) -> 1 <= length P ->
    (hv_spec ref P <= hv_spec ref (ss_step lc P o))%Z /\ length (ss_step lc P o) = length P.
  Proof.
    intros SD BR HP. split.
    - etransitivity; [apply (steady_state_keep_front P o SD BR HP)|].
      apply hv_spec_incl. intros p Hp. apply keep_In in Hp. destruct Hp as [i [Hi [Si Ei]]].
      unfold ss_step.
      set (sel := ss_flags lc P o) in *. set (mu := length P) in *.
      assert (LQ : length (P ++ [o]) = Datatypes.S mu) by (unfold mu; rewrite app_length; simpl; lia).
      assert (CL : count_true sel = mu /\ length sel = Datatypes.S mu).
      { unfold sel, ss_flags, indicator_selection. cbn [snd].
        pose proof (rank_list_is_rank d _ SD) as RA.
        assert (Lr : length (rank_list (P ++ [o])) = length (P ++ [o])) by apply RA.
        fold mu. rewrite <- LQ, <- Lr.
        apply (selection_count _ lcs_ok_front); [lia|].
        intros k Hk. apply (rank_fronts_consistent _ _ RA k). lia. }
      destruct CL as [CNT LS].
      assert (Hlt : i <> mu -> i < mu) by lia.
      destruct (nth mu sel false) eqn:So.
      + destruct (Nat.eq_dec i mu) as [->|Ni].
        * rewrite app_nth2 in Ei by (unfold mu; lia). unfold mu in Ei. rewrite Nat.sub_diag in Ei.
          simpl in Ei. subst p. apply rfu_inserts.
          -- rewrite firstn_length. lia.
          -- pose proof (count_true_firstn_last sel mu LS) as C. rewrite So in C.
             rewrite firstn_length. lia.
        * rewrite app_nth1 in Ei by (apply Hlt; auto). subst p. apply rfu_keeps_selected; [apply Hlt; auto|].
          rewrite nth_firstn_lt; auto.
      + destruct (Nat.eq_dec i mu) as [->|Ni]; [congruence|].
        rewrite app_nth1 in Ei by (apply Hlt; auto). subst p. apply nth_In. apply Hlt; auto.
    - unfold ss_step. destruct (nth (length P) (ss_flags lc P o) false); auto.
      generalize (firstn (length P) (ss_flags lc P o)). intros s. revert P HP SD BR.
      clear. intros P _ _ _. revert s. induction P as [|p P IH]; intros [|[] s]; simpl; auto.
  Qed.
End SteadyStateFront.

(* the coded HypervolumeIndicator, 2 objectives, setReference(ref): hypothesis discharged *)
Lemma hv_ind_lc_valid_2d other ref F A : length ref = 2 -> F <> [] -> hv_ind_lc other ref F A < length F.
Proof.
  intros L N. assert (Hn : 0 < length F) by (destruct F; simpl; [congruence|lia]).
  unfold hv_ind_lc. destruct ref as [|r0 [|r1 [|? ?]]]; try discriminate. cbn [length Nat.eqb].
  apply smallest1_idx; auto. apply contrib2d_ref_idx.
Qed.

Lemma hv_ind_lc_least_2d other ref F A :
  length ref = 2 -> F <> [] -> below_ref ref F -> mutually_nondominated F ->
  forall j, j < length F -> (contrib_spec ref F (hv_ind_lc other ref F A) <= contrib_spec ref F j)%Z.
Proof.
  intros L2 N B MN j Hj.
  unfold hv_ind_lc. destruct ref as [|r0 [|r1 [|? ?]]]; try discriminate.
  cbn [length Nat.eqb].
  pose proof (contrib2d_ref_value [r0; r1] F eq_refl B MN) as V.
  assert (NE : contrib2d_ref [r0; r1] F <> []).
  { intros E. assert (I0 : In (contrib_spec [r0; r1] F 0%nat, 0%nat) (contrib2d_ref [r0; r1] F)).
    { apply V. split; auto. destruct F; simpl; [congruence|lia]. }
    rewrite E in I0. destruct I0. }
  destruct (smallest1_spec _ NE) as [v [I M]].
  apply V in I. destruct I as [_ ->].
  apply (M (contrib_spec [r0; r1] F j, j)). apply V. auto.
Qed.

Theorem hv_ind_lc_2d_spec :
  forall other ref F A, length ref = 2 -> F <> [] -> below_ref ref F -> mutually_nondominated F ->
    hv_ind_lc other ref F A < length F /\
    forall j, j < length F -> (contrib_spec ref F (hv_ind_lc other ref F A) <= contrib_spec ref F j)%Z.
Proof.
  intros other ref F A L N B M. split.
  - exact (hv_ind_lc_valid_2d other ref F A L N).
  - exact (hv_ind_lc_least_2d other ref F A L N B M).
Qed.

Theorem steady_state_hv_indicator_2d other ref P o :
  length ref = 2 -> same_dim 2 (P ++ [o]) -> below_ref ref (P ++ [o]) -> 1 <= length P ->
  (hv_spec ref P <= hv_spec ref (ss_step (hv_ind_lc other ref) P o))%Z /\
  length (ss_step (hv_ind_lc other ref) P o) = length P.
Proof.
  intros L2. apply (steady_state_step_front (hv_ind_lc other ref) ref 2).
  - intros F A N. now apply hv_ind_lc_valid_2d.
  - intros F A N _ B MN. now apply hv_ind_lc_least_2d.
Qed.

(* the proved selection theorems apply to the coded indicators without further hypotheses *)
Theorem selection_with_coded_indicators :
  forall other : point -> list point -> nat,
    (forall ref F, F <> [] -> other ref F < length F) ->
  forall lcs, (lcs = eps_lcs \/ exists ref, lcs = hv_ind_lcs other ref) ->
  forall d S mu, same_dim d S -> 1 <= mu <= length S ->
    let r := fst (indicator_selection lcs S mu) in
    let sel := o_sel (snd (indicator_selection lcs S mu)) in
    count_true sel = mu /\ length sel = length S /\ is_rank_assignment S r /\
    forall i j, i < length S -> j < length S ->
      nth i sel false = true -> nth j sel false = false -> nth i r 0 <= nth j r 0.
Proof.
  intros other OV lcs H d S mu SD Hmu.
  assert (V : valid_oracle lcs).
  { destruct H as [->|[ref ->]]; [exact eps_lcs_valid|exact (hv_ind_lcs_valid other OV ref)]. }
  destruct (indicator_selection_count lcs d S mu V SD Hmu) as [C L].
  destruct (indicator_selection_rank_monotone lcs d S mu V SD Hmu) as [R M].
  cbv zeta. split; [exact C|]. split; [exact L|]. split; [exact R|exact M].
Qed.

(* satisfiability / worked values (the same front is line 5-7 of the smoke test of stream I) *)
Example coded_indicator_examples :
  let F := [[1; 5]; [2; 3]; [4; 2]; [5; 1]]%Z in
  eps_lcs F [] 2 = [0; 2] /\ map (eps_result F) [0; 1; 2; 3] = [Some 1; Some 2; Some 1; Some 1]%Z /\
  hv_ind_lcs (fun _ _ => 0) [6; 6]%Z F [] 2 = [3; 0] /\
  hv_ind_lcs (fun _ _ => 0) [] F [] 4 = [2; 1; 0; 3] /\
  below_ref [6; 6]%Z F /\ mutually_nondominated F /\
  ss_step (hv_ind_lc (fun _ _ => 0) [6; 6]%Z) [[1; 5]; [3; 3]; [5; 1]]%Z [2; 2]%Z = [[1; 5]; [2; 2]; [5; 1]]%Z.
Proof.
  cbv zeta. repeat split; try (vm_compute; reflexivity).
  - intros p Hp. simpl in Hp. repeat (destruct Hp as [<-|Hp]; [repeat constructor; lia|]). destruct Hp.
  - apply mutually_nondominated_dec_check; [|vm_compute; reflexivity].
    intros p q Hp Hq. simpl in Hp, Hq.
    repeat (destruct Hp as [<-|Hp]; [repeat (destruct Hq as [<-|Hq]; [reflexivity|]); destruct Hq|]). destruct Hp.
Qed.
