(* C20 — proofs about the model of C20Model.v (axiom-free: nat, lists, Permutation). *)
From Coq Require Import List Arith Bool PeanoNat Permutation Lia.
From SharkV Require Import C20Model.
Import ListNotations.

(* ================================================================ small list facts *)

Lemma forallb_repeat {A} (f : A -> bool) x n : f x = true -> forallb f (repeat x n) = true.
Proof. intros H; induction n; simpl; auto. rewrite H, IHn; auto. Qed.

Lemma NoDup_app_disjoint {A} (l l' : list A) x : NoDup (l ++ l') -> In x l -> In x l' -> False.
Proof.
  induction l as [|y l IH]; simpl; intros N H1 H2; [contradiction|].
  inversion N as [|? ? Hn N']; subst. destruct H1 as [->|H1].
  - apply Hn. apply in_or_app; auto.
  - eauto.
Qed.

Lemma NoDup_app_tail {A} (l l' : list A) : NoDup (l ++ l') -> NoDup l'.
Proof. induction l; simpl; auto. intros N. inversion N; auto. Qed.

Lemma In_nth_concat {A} (s : list (list A)) t x : In x (nth t s []) -> In x (concat s).
Proof.
  intros H. destruct (Nat.lt_ge_cases t (length s)) as [L|L].
  - apply in_concat. exists (nth t s []). split; auto. apply nth_In; auto.
  - rewrite nth_overflow in H by auto. contradiction.
Qed.

Lemma NoDup_concat_disjoint {A} (s : list (list A)) t1 t2 x :
  NoDup (concat s) -> t1 <> t2 -> In x (nth t1 s []) -> In x (nth t2 s []) -> False.
Proof.
  revert t1 t2; induction s as [|l s IH]; intros t1 t2 N D H1 H2.
  - destruct t1; simpl in H1; contradiction.
  - simpl in N. destruct t1 as [|t1], t2 as [|t2]; simpl in H1, H2.
    + congruence.
    + eapply NoDup_app_disjoint; eauto. eapply In_nth_concat; eauto.
    + eapply NoDup_app_disjoint; eauto. eapply In_nth_concat; eauto.
    + apply (IH t1 t2); auto. apply NoDup_app_tail in N; auto.
Qed.

Lemma set_nth_length {A} k (x : A) l : length (set_nth k x l) = length l.
Proof. revert k; induction l; destruct k; simpl; auto. Qed.

Lemma nth_set_nth_eq {A} k (x : A) l d : k < length l -> nth k (set_nth k x l) d = x.
Proof. revert k; induction l; destruct k; simpl; intros; try lia; auto. apply IHl; lia. Qed.

Lemma nth_set_nth_neq {A} k k' (x : A) l d : k <> k' -> nth k' (set_nth k x l) d = nth k' l d.
Proof.
  revert k k'; induction l as [|y l IH]; intros k k' D; [destruct k; reflexivity|].
  destruct k, k'; simpl; auto; try congruence.
Qed.

(* ================================================================ (a) race freedom *)

(* a schedule runs every iteration exactly once on one of T >= 1 threads *)
Definition valid_schedule (r : region) (s : schedule) : Prop :=
  1 <= length s /\ Permutation (concat s) (seq 0 (length r)).

(* data race: two different threads are both about to perform an access, the two accesses touch
   overlapping memory and at least one of them writes *)
Definition race_state (m : mstate) : Prop :=
  exists t1 t2 a1 a2 r1 r2, t1 <> t2 /\ prog_of m t1 = IAcc a1 :: r1 /\ prog_of m t2 = IAcc a2 :: r2 /\
                            conflict a1 a2 = true.

(* a thread is about to index a thread-indexed array past its end *)
Definition oob_state (m : mstate) : Prop :=
  exists t a r v, prog_of m t = IAcc a :: r /\ c_fp a = FOob v.

(* mutual exclusion is violated: two threads are inside critical blocks at once *)
Inductive wf : bool -> list instr -> Prop :=
| wf_nil : wf false []
| wf_acc b a r : c_crit a = b -> wf b r -> wf b (IAcc a :: r)
| wf_acq r : wf true r -> wf false (IAcq :: r)
| wf_rel r : wf false r -> wf true (IRel :: r).

Lemma compile_wf l : forall inside rest, wf false rest -> wf inside (compile inside l ++ rest).
Proof.
  induction l as [|a l IH]; intros inside rest W; simpl.
  - destruct inside; simpl; auto. constructor; auto.
  - destruct inside, (c_crit a) eqn:E; simpl.
    + apply wf_acc; auto.
    + apply wf_rel. apply wf_acc; auto.
    + apply wf_acq. apply wf_acc; auto.
    + apply wf_acc; auto.
Qed.

Lemma thread_prog_wf r T t its : wf false (thread_prog r T t its).
Proof.
  unfold thread_prog. induction its as [|i its IH]; simpl; [constructor|].
  unfold iter_prog at 1. apply compile_wf; auto.
Qed.

Lemma compile_In a l : forall inside, In (IAcc a) (compile inside l) -> In a l.
Proof.
  induction l as [|b l IH]; intros inside H; simpl in H.
  - destruct inside; simpl in H; [destruct H as [H|H]; [discriminate|contradiction]|contradiction].
  - destruct inside, (c_crit b); simpl in H.
    + destruct H as [H|H]; [inversion H; left; auto|right; eauto].
    + destruct H as [H|[H|H]]; [discriminate|inversion H; left; auto|right; eauto].
    + destruct H as [H|[H|H]]; [discriminate|inversion H; left; auto|right; eauto].
    + destruct H as [H|H]; [inversion H; left; auto|right; eauto].
Qed.

Lemma thread_prog_In r T t its a :
  In (IAcc a) (thread_prog r T t its) ->
  exists i acc, In i its /\ In acc (nth i r []) /\ a = concretize T (length r) i t acc.
Proof.
  unfold thread_prog. rewrite in_flat_map. intros [i [Hi H]].
  unfold iter_prog in H. apply compile_In in H. apply in_map_iff in H. destruct H as [acc [E H]].
  exists i, acc; auto.
Qed.

Lemma pairs_ok_spec r : pairs_ok r = true ->
  forall i j a b, i <> j -> In a (nth i r []) -> In b (nth j r []) -> pair_ok a b = true.
Proof.
  induction r as [|b0 r IH]; intros P i j a b D Ha Hb.
  - destruct i; simpl in Ha; contradiction.
  - simpl in P. apply andb_prop in P. destruct P as [P1 P2].
    rewrite forallb_forall in P1.
    assert (In_nth : forall k x, In x (nth k r []) -> In (nth k r []) r).
    { intros k x Hx. destruct (Nat.lt_ge_cases k (length r)); [apply nth_In; auto|].
      rewrite nth_overflow in Hx by auto. contradiction. }
    destruct i as [|i], j as [|j]; simpl in Ha, Hb.
    + congruence.
    + specialize (P1 _ (In_nth _ _ Hb)). apply andb_prop in P1. destruct P1 as [Q _].
      unfold bodies_ok in Q. rewrite forallb_forall in Q. specialize (Q _ Ha).
      rewrite forallb_forall in Q. auto.
    + specialize (P1 _ (In_nth _ _ Ha)). apply andb_prop in P1. destruct P1 as [_ Q].
      unfold bodies_ok in Q. rewrite forallb_forall in Q. specialize (Q _ Ha).
      rewrite forallb_forall in Q. auto.
    + apply (IH P2 i j); auto.
Qed.

Lemma disjoint_no_overlap T n i1 i2 t1 t2 l1 l2 :
  loc_disjoint l1 l2 = true -> i1 <> i2 -> t1 <> t2 -> t1 < T -> t2 < T ->
  overlap (resolve T n i1 t1 l1) (resolve T n i2 t2 l2) = false.
Proof.
  intros D Di Dt L1 L2.
  assert (Ei : (i1 =? i2) = false) by (apply Nat.eqb_neq; auto).
  assert (Et : (t1 =? t2) = false) by (apply Nat.eqb_neq; auto).
  assert (NE : forall v w, negb (v =? w) = true -> (v =? w) = false) by (intros; apply negb_true_iff; auto).
  assert (NE' : forall v w, negb (v =? w) = true -> (w =? v) = false) by (intros; rewrite Nat.eqb_sym; apply negb_true_iff; auto).
  destruct l1 as [v|v|v c|], l2 as [w|w|w c'|]; simpl in D |- *; auto.
  - rewrite ?(NE _ _ D), ?(NE' _ _ D); auto.
  - rewrite ?(NE _ _ D), ?(NE' _ _ D); auto.
  - destruct (t2 <? capval c' T n); simpl; rewrite ?(NE _ _ D), ?(NE' _ _ D); auto.
  - rewrite ?(NE _ _ D), ?(NE' _ _ D); auto.
  - rewrite Ei, andb_false_r; auto.
  - destruct (t2 <? capval c' T n); simpl; rewrite ?(NE _ _ D), ?(NE' _ _ D); auto.
  - destruct (t1 <? capval c T n); simpl; rewrite ?(NE _ _ D), ?(NE' _ _ D); auto.
  - destruct (t1 <? capval c T n); simpl; rewrite ?(NE _ _ D), ?(NE' _ _ D); auto.
  - apply orb_true_iff in D. destruct D as [D|D].
    + destruct (t1 <? capval c T n), (t2 <? capval c' T n); simpl; rewrite ?(NE _ _ D), ?(NE' _ _ D); auto.
    + apply andb_prop in D. destruct D as [C1 C2].
      destruct c; try discriminate. destruct c'; try discriminate. simpl.
      apply Nat.ltb_lt in L1, L2. rewrite L1, L2. simpl. rewrite Et, andb_false_r. auto.
  - destruct (t1 <? capval c T n); auto.
Qed.

Lemma pair_sound T n i1 i2 t1 t2 a b :
  pair_ok a b = true -> i1 <> i2 -> t1 <> t2 -> t1 < T -> t2 < T ->
  conflict (concretize T n i1 t1 a) (concretize T n i2 t2 b) = true ->
  a_crit a = true /\ a_crit b = true.
Proof.
  intros P Di Dt L1 L2 C. unfold pair_ok in P. unfold conflict in C. simpl in C.
  apply andb_prop in C. destruct C as [Co Cw].
  apply orb_true_iff in P. destruct P as [P|P].
  - apply orb_true_iff in P. destruct P as [P|P].
    + apply andb_prop in P; auto.
    + apply andb_prop in P. destruct P as [Pa Pb]. apply negb_true_iff in Pa, Pb.
      rewrite Pa, Pb in Cw. discriminate.
  - rewrite (disjoint_no_overlap T n i1 i2 t1 t2 _ _ P Di Dt L1 L2) in Co. discriminate.
Qed.

Lemma access_ok_in_bounds T n i t a : access_ok a = true -> t < T ->
  forall v, c_fp (concretize T n i t a) <> FOob v.
Proof.
  intros H L v. unfold concretize; simpl. destruct (a_loc a) as [w|w|w c|] eqn:E; simpl; try discriminate.
  unfold access_ok in H. rewrite E in H. destruct c; try discriminate. simpl.
  apply Nat.ltb_lt in L. rewrite L. discriminate.
Qed.

(* invariant of the machine *)
Record Inv (r : region) (s : schedule) (m : mstate) : Prop := {
  I_len  : length (progs m) = length s;
  I_lock : forall h, lock m = Some h -> h < length s;
  I_wf   : forall t, exists b, wf b (prog_of m t) /\ (b = true <-> lock m = Some t);
  I_sub  : forall t a, In (IAcc a) (prog_of m t) ->
             t < length s /\ In (IAcc a) (thread_prog r (length s) t (nth t s []))
}.

Lemma init_prog_of r s t : t < length s ->
  prog_of (init_state r s) t = thread_prog r (length s) t (nth t s []).
Proof.
  intros L. unfold prog_of, init_state; simpl.
  set (f := fun t => thread_prog r (length s) t (nth t s [])).
  rewrite nth_indep with (d' := f 0) by (rewrite map_length, seq_length; auto).
  rewrite map_nth. rewrite seq_nth by auto. reflexivity.
Qed.

Lemma init_prog_of_oob r s t : length s <= t -> prog_of (init_state r s) t = [].
Proof.
  intros L. unfold prog_of, init_state; simpl. apply nth_overflow. rewrite map_length, seq_length. auto.
Qed.

Lemma Inv_init r s : Inv r s (init_state r s).
Proof.
  split.
  - simpl. rewrite map_length, seq_length. auto.
  - simpl. discriminate.
  - intros t. exists false. split; [|split; simpl; discriminate].
    destruct (Nat.lt_ge_cases t (length s)).
    + rewrite init_prog_of by auto. apply thread_prog_wf.
    + rewrite init_prog_of_oob by auto. constructor.
  - intros t a H. destruct (Nat.lt_ge_cases t (length s)).
    + rewrite init_prog_of in H by auto. auto.
    + rewrite init_prog_of_oob in H by auto. contradiction.
Qed.

Lemma prog_nonempty_lt m t x r : prog_of m t = x :: r -> t < length (progs m).
Proof.
  intros H. destruct (Nat.lt_ge_cases t (length (progs m))); auto.
  unfold prog_of in H. rewrite nth_overflow in H by auto. discriminate.
Qed.

Lemma wf_det b b' l : wf b l -> wf b' l -> b = b'.
Proof. intros W W'. inversion W; inversion W'; subst; try congruence. Qed.

Lemma Inv_step r s m t m' : Inv r s m -> step m t = Some m' -> Inv r s m'.
Proof.
  intros I S. unfold step in S. destruct (prog_of m t) as [|x rest] eqn:P; [discriminate|].
  pose proof (prog_nonempty_lt _ _ _ _ P) as Lt.
  assert (Pt : forall lk, prog_of (MS (set_nth t rest (progs m)) lk) t = rest)
    by (intros; unfold prog_of; simpl; apply nth_set_nth_eq; auto).
  assert (Po : forall lk t', t' <> t -> prog_of (MS (set_nth t rest (progs m)) lk) t' = prog_of m t')
    by (intros; unfold prog_of; simpl; apply nth_set_nth_neq; auto).
  assert (Sub : forall lk t' a, In (IAcc a) (prog_of (MS (set_nth t rest (progs m)) lk) t') ->
                  t' < length s /\ In (IAcc a) (thread_prog r (length s) t' (nth t' s []))).
  { intros lk t' a H. destruct (Nat.eq_dec t' t) as [->|D].
    - rewrite Pt in H. apply (I_sub _ _ _ I). rewrite P. right; auto.
    - rewrite Po in H by auto. apply (I_sub _ _ _ I); auto. }
  destruct (I_wf _ _ _ I t) as [bt [Wt Ht]]. rewrite P in Wt.
  destruct x as [| |a].
  - (* acquire *)
    destruct (lock m) as [h|] eqn:Lk; [discriminate|]. inversion S; subst m'; clear S.
    inversion Wt; subst. split.
    + simpl. rewrite set_nth_length. apply I.
    + simpl. intros h E. inversion E; subst. rewrite <- (I_len _ _ _ I). auto.
    + intros t'. destruct (Nat.eq_dec t' t) as [->|D].
      * exists true. rewrite Pt. split; auto. simpl. tauto.
      * destruct (I_wf _ _ _ I t') as [b' [W' H']]. exists b'. rewrite Po by auto. split; auto.
        simpl. split.
        -- intros E. apply H' in E. rewrite Lk in E. discriminate.
        -- intros E. inversion E. congruence.
    + apply Sub.
  - (* release *)
    destruct (lock m) as [h|] eqn:Lk; [|discriminate].
    destruct (Nat.eqb_spec h t) as [->|Dh]; [|discriminate]. inversion S; subst m'; clear S.
    inversion Wt; subst. split.
    + simpl. rewrite set_nth_length. apply I.
    + simpl. discriminate.
    + intros t'. destruct (Nat.eq_dec t' t) as [->|D].
      * exists false. rewrite Pt. split; auto. simpl. split; discriminate.
      * destruct (I_wf _ _ _ I t') as [b' [W' H']]. exists b'. rewrite Po by auto. split; auto.
        simpl. split; [|discriminate].
        intros E. apply H' in E. rewrite Lk in E. inversion E. congruence.
    + apply Sub.
  - (* access *)
    inversion S; subst m'; clear S. inversion Wt; subst. split.
    + simpl. rewrite set_nth_length. apply I.
    + simpl. apply I.
    + intros t'. destruct (Nat.eq_dec t' t) as [->|D].
      * exists (c_crit a). rewrite Pt. split; auto.
      * destruct (I_wf _ _ _ I t') as [b' [W' H']]. exists b'. rewrite Po by auto. split; auto.
    + apply Sub.
Qed.

Lemma Inv_run r s choices : forall m m', Inv r s m -> run m choices = Some m' -> Inv r s m'.
Proof.
  induction choices as [|t cs IH]; intros m m' I R; simpl in R.
  - inversion R; subst; auto.
  - destruct (step m t) as [m1|] eqn:S; [|discriminate]. apply (IH m1 m'); auto. eapply Inv_step; eauto.
Qed.

(* in every reachable state at most one thread is inside a critical block, and it holds the lock *)
Lemma mutual_exclusion r s m t1 t2 a1 a2 r1 r2 :
  Inv r s m -> prog_of m t1 = IAcc a1 :: r1 -> prog_of m t2 = IAcc a2 :: r2 ->
  c_crit a1 = true -> c_crit a2 = true -> t1 = t2.
Proof.
  intros I P1 P2 C1 C2.
  destruct (I_wf _ _ _ I t1) as [b1 [W1 H1]]. destruct (I_wf _ _ _ I t2) as [b2 [W2 H2]].
  rewrite P1 in W1. rewrite P2 in W2. inversion W1; inversion W2; subst.
  assert (E1 : lock m = Some t1) by (apply H1; auto).
  assert (E2 : lock m = Some t2) by (apply H2; auto).
  congruence.
Qed.

Theorem race_free_b_sound_lemma r :
  race_free_b r = true ->
  forall s, valid_schedule r s ->
  forall choices m, run (init_state r s) choices = Some m ->
    ~ race_state m /\ ~ oob_state m.
Proof.
  intros RF s [T1 Perm] choices m R.
  pose proof (Inv_run r s choices _ _ (Inv_init r s) R) as I.
  unfold race_free_b in RF. apply andb_prop in RF. destruct RF as [AO PO].
  assert (ND : NoDup (concat s)).
  { apply Permutation_NoDup with (l := seq 0 (length r)); [apply Permutation_sym; auto|apply seq_NoDup]. }
  assert (AOk : forall i a, In a (nth i r []) -> access_ok a = true).
  { intros i a H. rewrite forallb_forall in AO.
    destruct (Nat.lt_ge_cases i (length r)) as [L|L].
    - specialize (AO _ (nth_In r [] L)). rewrite forallb_forall in AO. auto.
    - rewrite nth_overflow in H by auto. contradiction. }
  split.
  - intros [t1 [t2 [a1 [a2 [r1 [r2 [D [P1 [P2 C]]]]]]]]].
    destruct (I_sub _ _ _ I t1 a1) as [L1 S1]; [rewrite P1; left; auto|].
    destruct (I_sub _ _ _ I t2 a2) as [L2 S2]; [rewrite P2; left; auto|].
    apply thread_prog_In in S1. destruct S1 as [i1 [c1 [Hi1 [Hc1 E1]]]].
    apply thread_prog_In in S2. destruct S2 as [i2 [c2 [Hi2 [Hc2 E2]]]].
    assert (Di : i1 <> i2).
    { intros ->. eapply (NoDup_concat_disjoint s t1 t2 i2); eauto. }
    pose proof (pairs_ok_spec r PO i1 i2 c1 c2 Di Hc1 Hc2) as PK.
    subst a1 a2.
    destruct (pair_sound _ _ _ _ _ _ _ _ PK Di D L1 L2 C) as [K1 K2].
    apply D. eapply mutual_exclusion; eauto.
  - intros [t [a [rest [v [P F]]]]].
    destruct (I_sub _ _ _ I t a) as [L S]; [rewrite P; left; auto|].
    apply thread_prog_In in S. destruct S as [i [c [Hi [Hc E]]]]. subst a.
    eapply access_ok_in_bounds; eauto.
Qed.

(* a loop whose iterations share one body: checking two copies of the body suffices for every
   iteration count *)
Theorem uniform_region_ok b : race_free_b [b; b] = true -> forall n, race_free_b (uniform b n) = true.
Proof.
  intros H n. unfold race_free_b in *. simpl in H.
  rewrite !andb_true_r in H. apply andb_prop in H. destruct H as [A P].
  apply andb_prop in P. destruct P as [P _].
  apply andb_true_intro. split.
  - unfold uniform. apply forallb_repeat. apply andb_prop in A. tauto.
  - unfold uniform. induction n; simpl; auto. rewrite IHn, andb_true_r.
    apply forallb_repeat. rewrite P; auto.
Qed.

(* the checker is not vacuous: it rejects an unprotected shared accumulation, and the machine really
   reaches a race state for it *)
Definition ex_bad_body : body := [Acc (Shared 0) Write false].
Example checker_rejects_unprotected_accumulation : race_free_b [ex_bad_body; ex_bad_body] = false.
Proof. reflexivity. Qed.
Example unprotected_accumulation_races :
  exists s, valid_schedule [ex_bad_body; ex_bad_body] s /\
            race_state (init_state [ex_bad_body; ex_bad_body] s).
Proof.
  exists [[0]; [1]]. split.
  - split; simpl; auto.
  - exists 0, 1. do 4 eexists. split; [discriminate|]. split; [reflexivity|]. split; reflexivity.
Qed.

(* F6 shape: array indexed by the thread number but allocated with min(threads, iterations) cells.
   One iteration, two threads, the iteration given to thread 1: index 1 in an array of 1 cell. *)
Definition ex_f6_body : body := [Acc (ThreadLocal 0 CapMinThreadsIters) Write false].
Example checker_rejects_min_sized_thread_array : race_free_b [ex_f6_body; ex_f6_body] = false.
Proof. reflexivity. Qed.
Example min_sized_thread_array_overflows :
  exists s, valid_schedule [ex_f6_body] s /\ oob_state (init_state [ex_f6_body] s).
Proof.
  exists [[]; [0]]. split.
  - split; simpl; auto.
  - exists 1. do 3 eexists. split; reflexivity.
Qed.

(* and it accepts the pattern the library uses: private work, then accumulate under the lock *)
Definition ex_good_body : body :=
  [Acc (Shared 1) Read false; Acc (SharedIndexed 2) Write false; Acc (Shared 0) Read true; Acc (Shared 0) Write true].
Example checker_accepts_locked_accumulation : race_free_b [ex_good_body; ex_good_body] = true.
Proof. reflexivity. Qed.

(* ================================================================ (b) merge order *)

Section MergeProofs.
  Variable A : Type.
  Variable op : A -> A -> A.

  Lemma merge_run_is_fold acc pending res :
    merge_run A op acc pending res ->
    exists order, Permutation pending order /\ res = fold_left op order acc.
  Proof.
    induction 1 as [acc|acc pending x rest res P R [order [Po E]]].
    - exists []. split; auto.
    - exists (x :: order). split.
      + eapply Permutation_trans; [exact P|]. constructor; auto.
      + simpl. auto.
  Qed.

  (* every order can happen *)
  Lemma merge_run_any_order acc order : merge_run A op acc order (fold_left op order acc).
  Proof.
    revert acc; induction order as [|x l IH]; intros acc; simpl.
    - constructor.
    - eapply merge_step; [apply Permutation_refl|apply IH].
  Qed.

  Hypothesis op_assoc : forall a b c, op (op a b) c = op a (op b c).
  Hypothesis op_comm : forall a b, op a b = op b a.

  Lemma fold_left_perm l l' : Permutation l l' -> forall acc, fold_left op l acc = fold_left op l' acc.
  Proof.
    induction 1; intros acc; simpl; auto.
    - f_equal. rewrite !op_assoc. f_equal. apply op_comm.
    - rewrite IHPermutation1. auto.
  Qed.

  Theorem merge_schedule_independent_lemma acc pending res :
    merge_run A op acc pending res ->
    (exists order, Permutation pending order /\ res = fold_left op order acc) /\
    res = fold_left op pending acc.
  Proof.
    intros R. destruct (merge_run_is_fold _ _ _ R) as [order [P E]]. split.
    - exists order; auto.
    - subst res. symmetry. apply fold_left_perm; auto.
  Qed.

  Variable e : A.
  Hypothesis op_unit_r : forall a, op a e = a.

  Lemma fold_left_shift xs : forall a b, op a (fold_left op xs b) = fold_left op xs (op a b).
  Proof. induction xs as [|x xs IH]; intros a b; simpl; auto. rewrite IH, op_assoc. auto. Qed.

  Lemma fold_partials {B} (f : B -> A) (ls : list (list B)) : forall acc,
    fold_left op (map (fun l => fold_left op (map f l) e) ls) acc = fold_left op (map f (concat ls)) acc.
  Proof.
    induction ls as [|l ls IH]; intros acc; simpl; auto.
    rewrite map_app, fold_left_app, IH. f_equal.
    rewrite fold_left_shift, op_unit_r. auto.
  Qed.
End MergeProofs.

(* ================================================================ (c) static work split *)

Lemma left_over_lt B T : 1 <= T -> left_over B T < T /\ batches_per_thread B T * T + left_over B T = B.
Proof.
  intros H. unfold left_over, batches_per_thread.
  pose proof (Nat.div_mod B T ltac:(lia)) as D. pose proof (Nat.mod_upper_bound B T ltac:(lia)) as U.
  assert (B / T * T = T * (B / T)) by apply Nat.mul_comm. lia.
Qed.

Lemma range_end_is_next_start B T t : range_end B T t = range_start B T (t + 1).
Proof. reflexivity. Qed.

Lemma range_start_0 B T : range_start B T 0 = 0.
Proof. unfold range_start. simpl. reflexivity. Qed.

Lemma range_start_T B T : 1 <= T -> range_start B T T = B.
Proof.
  intros H. destruct (left_over_lt B T H) as [L E]. unfold range_start.
  rewrite Nat.min_r by lia. rewrite Nat.mul_comm.
  assert (batches_per_thread B T * T = T * batches_per_thread B T) by apply Nat.mul_comm. lia.
Qed.

Lemma range_start_mono B T t : range_start B T t <= range_start B T (t + 1).
Proof.
  unfold range_start. rewrite Nat.mul_add_distr_r.
  assert (Nat.min t (left_over B T) <= Nat.min (t + 1) (left_over B T)) by (apply Nat.min_le_compat_r; lia).
  lia.
Qed.

Lemma concat_seq_telescope (g : nat -> nat) : (forall t, g t <= g (S t)) ->
  forall T, concat (map (fun t => seq (g t) (g (S t) - g t)) (seq 0 T)) = seq (g 0) (g T - g 0) /\ g 0 <= g T.
Proof.
  intros M. induction T as [|T [IH L]].
  - simpl. rewrite Nat.sub_diag. simpl. auto.
  - rewrite seq_S, map_app, concat_app, IH. simpl. rewrite app_nil_r. split; [|specialize (M T); lia].
    replace (g (S T) - g 0) with ((g T - g 0) + (g (S T) - g T)) by (specialize (M T); lia).
    rewrite seq_app. f_equal. f_equal. lia.
Qed.

Theorem thread_ranges_tile_lemma B T : 1 <= T ->
  concat (all_ranges B T) = seq 0 B /\
  (forall t, t < T -> range_start B T t <= range_end B T t <= B) /\
  (forall t, range_end B T t = range_start B T (t + 1)) /\
  range_start B T 0 = 0 /\ range_end B T (T - 1) = B.
Proof.
  intros H.
  assert (M : forall t, range_start B T t <= range_start B T (S t)).
  { intros t. replace (S t) with (t + 1) by lia. apply range_start_mono. }
  split; [|split; [|split; [|split]]].
  - unfold all_ranges, thread_range.
    destruct (concat_seq_telescope (range_start B T) M T) as [E _].
    rewrite range_start_0, range_start_T, Nat.sub_0_r in E by auto. rewrite <- E.
    f_equal. apply map_ext. intros t. rewrite range_end_is_next_start.
    replace (t + 1) with (S t) by lia. reflexivity.
  - intros t Lt. rewrite range_end_is_next_start. split; [apply range_start_mono|].
    assert (Mono : forall d a, range_start B T a <= range_start B T (a + d)).
    { induction d; intros a; [rewrite Nat.add_0_r; auto|].
      replace (a + S d) with (S (a + d)) by lia. eapply Nat.le_trans; [apply IHd|apply M]. }
    pose proof (Mono (T - (t + 1)) (t + 1)) as Q.
    replace (t + 1 + (T - (t + 1))) with T in Q by lia.
    rewrite (range_start_T B T H) in Q. exact Q.
  - intros; apply range_end_is_next_start.
  - apply range_start_0.
  - rewrite range_end_is_next_start. replace (T - 1 + 1) with T by lia. apply range_start_T; auto.
Qed.

(* the ranges are pairwise disjoint and cover [0,B): every batch is handled by exactly one thread *)
Corollary every_batch_exactly_once B T : 1 <= T ->
  NoDup (concat (all_ranges B T)) /\ forall i, i < B <-> In i (concat (all_ranges B T)).
Proof.
  intros H. destruct (thread_ranges_tile_lemma B T H) as [E _]. rewrite E. split; [apply seq_NoDup|].
  intros i. rewrite in_seq. lia.
Qed.

(* ================================================================ (b)+(c): the ErrorFunction scheme *)

Section ParallelSum.
  Variable A : Type.
  Variable op : A -> A -> A.
  Variable e : A.
  Hypothesis op_assoc : forall a b c, op (op a b) c = op a (op b c).
  Hypothesis op_comm : forall a b, op a b = op b a.
  Hypothesis op_unit_r : forall a, op a e = a.

  (* per-batch contributions f 0 .. f (B-1); thread t folds its range sequentially starting from
     the neutral element; the thread results are merged under the lock in any order *)
  Definition thread_partial (f : nat -> A) (B T t : nat) : A :=
    fold_left op (map f (thread_range B T t)) e.

  Theorem parallel_sum_is_sequential_lemma (f : nat -> A) B T res : 1 <= T ->
    merge_run A op e (map (thread_partial f B T) (seq 0 T)) res ->
    res = fold_left op (map f (seq 0 B)) e.
  Proof.
    intros H R.
    destruct (merge_schedule_independent_lemma A op op_assoc op_comm _ _ _ R) as [_ E]. rewrite E.
    destruct (thread_ranges_tile_lemma B T H) as [Tile _]. rewrite <- Tile.
    unfold all_ranges. rewrite <- (fold_partials A op op_assoc e op_unit_r f).
    rewrite map_map. reflexivity.
  Qed.
End ParallelSum.
