(* C02 — proofs about the pivoted LU model of C02BlkModel.v (getrf_block, getrf_recursive, getrf, lu_solve),
   over an arbitrary field; the statements about |L_ij| additionally over the order/abs laws listed below. *)
From Coq Require Import List Arith Bool Lia Field Permutation FinFun.
From SharkV Require Import C02Model C02Proofs C02BlkModel.
Import ListNotations.

Ltac bdall :=
  repeat match goal with
  | |- context [Nat.leb ?a ?b] => destruct (Nat.leb_spec a b)
  | |- context [Nat.ltb ?a ?b] => destruct (Nat.ltb_spec a b)
  | |- context [Nat.eqb ?a ?b] => destruct (Nat.eqb_spec a b)
  end; cbn [andb orb negb].

(* ================= transpositions and the row permutation a pivot vector denotes ================= *)
Lemma tr_invol : forall j p i, tr j p (tr j p i) = i.
Proof.
  intros. unfold tr. destruct (Nat.eqb_spec i j) as [->|N1].
  - destruct (Nat.eqb_spec p j) as [->|N2]; [reflexivity|]. rewrite Nat.eqb_refl. reflexivity.
  - destruct (Nat.eqb_spec i p) as [->|N2].
    + rewrite Nat.eqb_refl. reflexivity.
    + apply Nat.eqb_neq in N1, N2. rewrite N1, N2. reflexivity.
Qed.
Lemma tr_fix : forall j p i, i <> j -> i <> p -> tr j p i = i.
Proof. intros. unfold tr. bdall; lia. Qed.
Lemma tr_range : forall lo hi j p i, lo <= j < hi -> lo <= p < hi -> lo <= i < hi -> lo <= tr j p i < hi.
Proof. intros. unfold tr. bdall; lia. Qed.

(* swap_rows(P[s..s+k)) moves row (perm_of P s k i) to row i *)
Fixpoint perm_of (P : pvec) (s k i : nat) : nat :=
  match k with O => i | S k' => perm_of P s k' (tr (s + k') (P (s + k')) i) end.
Fixpoint perm_inv (P : pvec) (s k i : nat) : nat :=
  match k with O => i | S k' => tr (s + k') (P (s + k')) (perm_inv P s k' i) end.
Definition pgood (P : pvec) (s k n : nat) : Prop := forall t, s <= t < s + k -> t <= P t < n.

Lemma perm_of_inv : forall P s k i, perm_of P s k (perm_inv P s k i) = i.
Proof. intros P s k. induction k; intros i; cbn; [reflexivity|]. rewrite tr_invol. apply IHk. Qed.
Lemma perm_inv_of : forall P s k i, perm_inv P s k (perm_of P s k i) = i.
Proof. intros P s k. induction k; intros i; cbn; [reflexivity|]. rewrite IHk. apply tr_invol. Qed.
Lemma perm_of_range : forall P s k n i, pgood P s k n -> s <= i < n -> s <= perm_of P s k i < n.
Proof.
  intros P s k n. induction k; intros i G Hi; cbn; [exact Hi|].
  apply IHk; [intros t Ht; apply G; lia|]. pose proof (G (s + k) ltac:(lia)). apply tr_range; lia.
Qed.
Lemma perm_inv_range : forall P s k n i, pgood P s k n -> s <= i < n -> s <= perm_inv P s k i < n.
Proof.
  intros P s k n. induction k; intros i G Hi; cbn; [exact Hi|].
  pose proof (G (s + k) ltac:(lia)). apply tr_range; try lia. apply IHk; [intros t Ht; apply G; lia|exact Hi].
Qed.
Lemma perm_of_out : forall P s k n i, pgood P s k n -> i < s \/ n <= i -> perm_of P s k i = i.
Proof.
  intros P s k n. induction k; intros i G Hi; cbn; [reflexivity|].
  pose proof (G (s + k) ltac:(lia)). rewrite tr_fix by lia. apply IHk; [intros t Ht; apply G; lia|exact Hi].
Qed.
Lemma perm_of_ext : forall P P' s k i, (forall t, s <= t < s + k -> P t = P' t) -> perm_of P s k i = perm_of P' s k i.
Proof.
  intros P P' s k. induction k; intros i H; cbn; [reflexivity|].
  rewrite (H (s + k)) by lia. apply IHk. intros; apply H; lia.
Qed.
Lemma perm_of_split : forall P s k1 k2 i, perm_of P s (k1 + k2) i = perm_of P s k1 (perm_of P (s + k1) k2 i).
Proof.
  intros P s k1 k2. induction k2; intros i.
  - rewrite Nat.add_0_r. reflexivity.
  - rewrite Nat.add_succ_r. cbn. rewrite IHk2. rewrite Nat.add_assoc. reflexivity.
Qed.
Lemma pgood_split : forall P s k1 k2 n, pgood P s k1 n -> pgood P (s + k1) k2 n -> pgood P s (k1 + k2) n.
Proof. intros P s k1 k2 n G1 G2 t Ht. destruct (Nat.lt_ge_cases t (s + k1)); [apply G1|apply G2]; lia. Qed.

Lemma perm_of_Permutation : forall P n, pgood P 0 n n -> Permutation (map (perm_of P 0 n) (seq 0 n)) (seq 0 n).
Proof.
  intros P n G. apply NoDup_Permutation_bis.
  - apply Injective_map_NoDup; [|apply seq_NoDup].
    intros x y E. rewrite <- (perm_inv_of P 0 n x), <- (perm_inv_of P 0 n y). rewrite E. reflexivity.
  - rewrite map_length. apply Nat.le_refl.
  - intros a Ha. apply in_map_iff in Ha. destruct Ha as [i [<- Hi]]. apply in_seq in Hi. apply in_seq.
    pose proof (perm_of_range P 0 n n i G). lia.
Qed.

Section LU.
Variable A : Type.
Variable F : ops A.
Variable fabs : A -> A.
Notation "0" := (fzero F) : F_scope.
Notation "1" := (fone F) : F_scope.
Infix "+" := (fadd F) : F_scope.
Infix "*" := (fmul F) : F_scope.
Infix "-" := (fsub F) : F_scope.
Infix "/" := (fdiv F) : F_scope.
Notation "- x" := (fopp F x) : F_scope.

Hypothesis Fth : field_theory (fzero F) (fone F) (fadd F) (fmul F) (fsub F) (fopp F) (fdiv F) (finv F) (@eq A).
Hypothesis feqb_spec : forall x y, feqb F x y = true <-> x = y.
Add Field FfieldLU : Fth.

(* a property of the multipliers that is established by the pivot rule (instantiated below with
   "|l| <= 1" under the order laws, and with True for the purely algebraic statements) *)
Variable small : A -> Prop.
Hypothesis small_pivot : forall (M : mat A) j k pv p i, pivot_scan A F fabs M j k = (pv, p) -> pv <> fzero F ->
  (j <= i <= j + k)%nat -> small (fdiv F (M i j) pv).

Local Open Scope F_scope.
Notation vec := (vec A).
Notation mat := (mat A).
Notation sumr := (sumr A F).
Notation memo2_eq := (memo2_eq A F).
Notation memo_eq := (memo_eq A F).
Notation sumr_ext := (sumr_ext A F).
Notation sumr_empty := (sumr_empty A F).
Notation sumr_S := (sumr_S A F).
Notation sumr_split := (sumr_split A F Fth).

(* ---------- row swaps ---------- *)
Lemma swap_rows_w_eq : forall n c0 c1 j p (M : mat) i c,
  swap_rows_w A F n c0 c1 j p M i c = if Nat.leb c0 c && Nat.ltb c c1 then M (tr j p i) c else M i c.
Proof. intros. unfold swap_rows_w. rewrite memo2_eq. reflexivity. Qed.
Lemma swap_seq_eq : forall n c0 c1 s k P (M : mat) i c,
  swap_seq A F n c0 c1 s k P M i c = if Nat.leb c0 c && Nat.ltb c c1 then M (perm_of P s k i) c else M i c.
Proof.
  intros n c0 c1 s k P M. induction k; intros i c; cbn [swap_seq perm_of].
  - destruct (Nat.leb c0 c && Nat.ltb c c1); reflexivity.
  - rewrite swap_rows_w_eq. rewrite !IHk. destruct (Nat.leb c0 c && Nat.ltb c c1); reflexivity.
Qed.
Lemma swap_vec_eq : forall n k P (b : vec) i, swap_vec A F n k P b i = b (perm_of P 0 k i).
Proof.
  intros n k P b. induction k; intros i; cbn [swap_vec perm_of]; [reflexivity|].
  rewrite memo_eq. rewrite IHk. reflexivity.
Qed.

(* ---------- pivot search ---------- *)
Lemma pivot_scan_loc : forall (M : mat) j k pv p, pivot_scan A F fabs M j k = (pv, p) -> (j <= p <= j + k)%nat /\ pv = M p j.
Proof.
  intros M j k. induction k; intros pv p H; cbn [pivot_scan] in H.
  - inversion H; subst. split; [lia|reflexivity].
  - destruct (pivot_scan A F fabs M j k) as [pv0 p0] eqn:E. destruct (IHk pv0 p0 eq_refl) as [I1 I2].
    destruct (fltb F (fabs pv0) (fabs (M (j + S k)%nat j))); inversion H; subst; split; try lia; reflexivity.
Qed.

(* ---------- the block kernel: loop invariant after k columns ---------- *)
(* X: matrix before, Y: matrix after; P0/P: pivot vector before/after; window rows [s,n) x columns [s,e).
   With sigma = the row permutation of P[s..s+k):
   L  : finished columns, below the diagonal;  U : finished rows;  S : the rest of the window is the Schur complement *)
Definition blk_inv (n s e k : nat) (X Y : mat) (P0 P : pvec) : Prop :=
  (forall i c, (s <= c < s + k)%nat -> (c < i < n)%nat ->
      X (perm_of P s k i) c = sumr s c (fun t => Y i t * Y t c) + Y i c * Y c c) /\
  (forall i c, (s <= i < s + k)%nat -> (i <= c < e)%nat ->
      X (perm_of P s k i) c = sumr s i (fun t => Y i t * Y t c) + Y i c) /\
  (forall i c, (s + k <= i < n)%nat -> (s + k <= c < e)%nat ->
      X (perm_of P s k i) c = sumr s (s + k) (fun t => Y i t * Y t c) + Y i c) /\
  (forall i c, ~ ((s <= i < n)%nat /\ (s <= c < e)%nat) -> Y i c = X i c) /\
  pgood P s k n /\
  (forall t, ~ (s <= t < s + k)%nat -> P t = P0 t) /\
  (forall c, (s <= c < s + k)%nat -> Y c c <> 0) /\
  (forall i c, (s <= c < s + k)%nat -> (c < i < n)%nat -> small (Y i c)).

Lemma getrf_step_inv : forall n s e k (X Y0 Y : mat) (P0 P1 P : pvec), (s + k < e)%nat -> (e <= n)%nat ->
  blk_inv n s e k X Y0 P0 P1 -> getrf_step A F fabs n s e (s + k) Y0 P1 = LUOk A Y P ->
  blk_inv n s e (S k) X Y P0 P.
Proof.
  intros n s e k X Y0 Y P0 P1 P Hk He I H. destruct I as [I1 [I2 [I3 [I4 [I5 [I6 [I7 I8]]]]]]].
  unfold getrf_step in H. set (j := (s + k)%nat) in *.
  destruct (pivot_scan A F fabs Y0 j (n - 1 - j)) as [pv p] eqn:Ep.
  pose proof (small_pivot Y0 j (n - 1 - j) pv p) as Hsm. specialize (Hsm) with (1 := Ep).
  apply pivot_scan_loc in Ep. destruct Ep as [Hp Hpv].
  destruct (feqb F pv 0) eqn:Ez; [discriminate|]. apply (feqb_false A F feqb_spec) in Ez.
  specialize (fun i => Hsm i Ez).
  inversion H; subst Y P; clear H.
  match goal with |- blk_inv _ _ _ _ _ (memo2 A F n ?f) _ _ => set (g := f) end.
  assert (G : forall i c, memo2 A F n g i c = g i c) by (intros; apply memo2_eq).
  set (Y := memo2 A F n g) in *. clearbody Y.
  set (Y1 := swap_rows_w A F n s e j p Y0) in *.
  assert (HY1 : forall i c, Y1 i c = if Nat.leb s c && Nat.ltb c e then Y0 (tr j p i) c else Y0 i c)
    by (intros; apply swap_rows_w_eq).
  clearbody Y1.
  assert (Hj : (j < n)%nat) by lia. assert (Hpn : (j <= p < n)%nat) by lia.
  (* the new permutation *)
  assert (Hperm : forall i, perm_of (updp P1 j p) s (S k) i = perm_of P1 s k (tr j p i)).
  { intros i. cbn [perm_of]. fold j.
    assert (E : updp P1 j p j = p) by (unfold updp; rewrite Nat.eqb_refl; reflexivity). rewrite E.
    apply perm_of_ext. intros t Ht. unfold updp. destruct (Nat.eqb_spec t j); [lia|reflexivity]. }
  (* entries of the new matrix *)
  assert (Yrow : forall i c, (i <= j \/ n <= i)%nat -> Y i c = Y1 i c).
  { intros i c Hi. rewrite G. unfold g. bdall; try lia; reflexivity. }
  assert (Ycolj : forall i, (j < i < n)%nat -> Y i j = Y1 i j / pv).
  { intros i Hi. rewrite G. unfold g. bdall; try lia; reflexivity. }
  assert (Yupd : forall i c, (j < i < n)%nat -> (j < c < e)%nat -> Y i c = Y1 i c - (Y1 i j / pv) * Y1 j c).
  { intros i c Hi Hc. rewrite G. unfold g. bdall; try lia; reflexivity. }
  assert (Yoth : forall i c, (c < j \/ e <= c)%nat -> Y i c = Y1 i c).
  { intros i c Hc. rewrite G. unfold g. bdall; try lia; reflexivity. }
  assert (Y1in : forall i c, (s <= c < e)%nat -> Y1 i c = Y0 (tr j p i) c).
  { intros i c Hc. rewrite HY1. bdall; try lia; reflexivity. }
  assert (Y1out : forall i c, ~ (s <= c < e)%nat -> Y1 i c = Y0 i c).
  { intros i c Hc. rewrite HY1. bdall; try lia; reflexivity. }
  assert (Y1jj : Y1 j j = pv).
  { rewrite Y1in by lia. unfold tr. rewrite Nat.eqb_refl. symmetry; exact Hpv. }
  assert (trlow : forall i, (i < j)%nat -> tr j p i = i) by (intros; apply tr_fix; lia).
  assert (trge : forall i, (j <= i < n)%nat -> (j <= tr j p i < n)%nat) by (intros; apply tr_range; lia).
  clear G HY1. clearbody g.
  unfold blk_inv. replace (s + S k)%nat with (S j) by (unfold j; lia).
  split; [|split; [|split; [|split; [|split; [|split; [|split]]]]]].
  - (* L *)
    intros i c Hc Hi. rewrite Hperm.
    destruct (Nat.eq_dec c j) as [->|Nc].
    + (* the column just finished *)
      rewrite (I3 (tr j p i) j) by (try apply trge; unfold j; lia). fold j.
      rewrite Ycolj by lia. rewrite (Yrow j j) by lia. rewrite Y1jj.
      rewrite (Y1in i j) by (unfold j; lia).
      assert (E : sumr s j (fun t => Y i t * Y t j) = sumr s j (fun t => Y0 (tr j p i) t * Y0 t j)).
      { apply sumr_ext. intros t Ht. rewrite (Yoth i t) by lia. rewrite (Y1in i t) by lia.
        rewrite (Yrow t j) by lia. rewrite (Y1in t j) by (unfold j; lia). rewrite (trlow t) by lia. reflexivity. }
      rewrite E. field. exact Ez.
    + assert (Hcj : (c < j)%nat) by lia.
      destruct (Nat.lt_ge_cases i j) as [Hij|Hij].
      * rewrite (trlow i) by lia. rewrite (I1 i c) by (unfold j in *; lia).
        rewrite (Yoth i c) by lia. rewrite (Y1in i c) by lia. rewrite (trlow i) by lia.
        rewrite (Yoth c c) by lia. rewrite (Y1in c c) by lia. rewrite (trlow c) by lia.
        f_equal. apply sumr_ext. intros t Ht. rewrite (Yoth i t) by lia. rewrite (Y1in i t) by lia. rewrite (trlow i) by lia.
        rewrite (Yoth t c) by lia. rewrite (Y1in t c) by lia. rewrite (trlow t) by lia. reflexivity.
      * rewrite (I1 (tr j p i) c) by (try (pose proof (trge i); unfold j in *; lia)).
        rewrite (Yoth i c) by lia. rewrite (Y1in i c) by lia.
        rewrite (Yoth c c) by lia. rewrite (Y1in c c) by lia. rewrite (trlow c) by lia.
        f_equal. apply sumr_ext. intros t Ht. rewrite (Yoth i t) by lia. rewrite (Y1in i t) by lia.
        rewrite (Yoth t c) by lia. rewrite (Y1in t c) by lia. rewrite (trlow t) by lia. reflexivity.
  - (* U *)
    intros i c Hi Hc. rewrite Hperm.
    destruct (Nat.eq_dec i j) as [->|Ni].
    + rewrite (I3 (tr j p j) c) by (try apply trge; unfold j in *; lia). fold j.
      rewrite (Yrow j c) by lia. rewrite (Y1in j c) by (unfold j in *; lia).
      f_equal. apply sumr_ext. intros t Ht. rewrite (Yoth j t) by lia. rewrite (Y1in j t) by lia.
      rewrite (Yrow t c) by lia. rewrite (Y1in t c) by (unfold j in *; lia). rewrite (trlow t) by lia. reflexivity.
    + assert (Hij : (i < j)%nat) by lia. rewrite (trlow i) by lia.
      rewrite (I2 i c) by (unfold j in *; lia).
      rewrite (Yrow i c) by lia. rewrite (Y1in i c) by lia. rewrite (trlow i) by lia.
      f_equal. apply sumr_ext. intros t Ht. rewrite (Yoth i t) by lia. rewrite (Y1in i t) by lia. rewrite (trlow i) by lia.
      rewrite (Yrow t c) by lia. rewrite (Y1in t c) by lia. rewrite (trlow t) by lia. reflexivity.
  - (* Schur complement *)
    intros i c Hi Hc. rewrite Hperm.
    rewrite (I3 (tr j p i) c) by (try (pose proof (trge i)); unfold j in *; lia). fold j.
    rewrite sumr_S by (unfold j; lia).
    rewrite Ycolj by lia. rewrite (Yrow j c) by lia. rewrite Yupd by lia.
    rewrite (Y1in i c) by (unfold j in *; lia).
    assert (E : sumr s j (fun t => Y i t * Y t c) = sumr s j (fun t => Y0 (tr j p i) t * Y0 t c)).
    { apply sumr_ext. intros t Ht. rewrite (Yoth i t) by lia. rewrite (Y1in i t) by lia.
      rewrite (Yrow t c) by lia. rewrite (Y1in t c) by (unfold j in *; lia). rewrite (trlow t) by lia. reflexivity. }
    rewrite E. ring.
  - (* frame *)
    intros i c Hic. rewrite <- I4 by exact Hic.
    destruct (Nat.lt_ge_cases c s) as [Hc|Hc]; [rewrite Yoth by (unfold j; lia); apply Y1out; lia|].
    destruct (Nat.le_gt_cases e c) as [Hc2|Hc2]; [rewrite Yoth by lia; apply Y1out; lia|].
    assert (Hi : (i < s \/ n <= i)%nat) by lia.
    rewrite Yrow by (unfold j; lia). rewrite Y1in by lia. rewrite tr_fix by (unfold j in *; lia). reflexivity.
  - (* pivot vector entries in range *)
    intros t Ht. unfold updp. destruct (Nat.eqb_spec t j) as [->|N]; [lia|]. apply I5. unfold j in *; lia.
  - intros t Ht. unfold updp. destruct (Nat.eqb_spec t j) as [->|N]; [unfold j in *; lia|]. apply I6. unfold j in *; lia.
  - (* pivots *)
    intros c Hc. destruct (Nat.eq_dec c j) as [->|N].
    + rewrite (Yrow j j) by lia. rewrite Y1jj. exact Ez.
    + rewrite (Yoth c c) by lia. rewrite (Y1in c c) by lia. rewrite trlow by lia. apply I7. unfold j in *; lia.
  - (* multipliers *)
    intros i c Hc Hi. destruct (Nat.eq_dec c j) as [->|N].
    + rewrite Ycolj by lia. rewrite (Y1in i j) by (unfold j in *; lia). apply Hsm.
      pose proof (trge i ltac:(lia)). lia.
    + rewrite (Yoth i c) by lia. rewrite (Y1in i c) by lia.
      destruct (Nat.lt_ge_cases i j) as [Hij|Hij]; [rewrite trlow by lia; apply I8; unfold j in *; lia|].
      apply I8; [unfold j in *; lia|]. pose proof (trge i ltac:(lia)). lia.
Qed.

Lemma blk_inv_0 : forall n s e (X : mat) P0, blk_inv n s e 0 X X P0 P0.
Proof.
  intros. unfold blk_inv, pgood. repeat split; intros; try lia; try reflexivity.
  cbn [perm_of]. rewrite sumr_empty by lia. ring.
Qed.

Lemma getrf_block_inv : forall n s e k (X Y : mat) P0 P, (s + k <= e)%nat -> (e <= n)%nat ->
  getrf_block A F fabs n s e k X P0 = LUOk A Y P -> blk_inv n s e k X Y P0 P.
Proof.
  intros n s e k X. induction k; intros Y P0 P Hk He H; cbn [getrf_block] in H.
  - inversion H; subst. apply blk_inv_0.
  - destruct (getrf_block A F fabs n s e k X P0) as [Y0 P1| |] eqn:E; try discriminate.
    eapply getrf_step_inv; [| |apply IHk; [lia|exact He|exact E]|exact H]; lia.
Qed.

Lemma map_opt_nth : forall (X Y : Type) (f : X -> option Y) l r dx dy, map_opt f l = Some r ->
  length r = length l /\ forall k, (k < length l)%nat -> f (nth k l dx) = Some (nth k r dy).
Proof.
  intros X Y f. induction l; intros r dx dy H; cbn in H.
  - inversion H; subst. split; [reflexivity|]. intros k Hk. cbn in Hk. lia.
  - destruct (f a) eqn:E; [|discriminate]. destruct (map_opt f l) eqn:E2; [|discriminate].
    inversion H; subst. destruct (IHl l0 dx dy eq_refl) as [I1 I2]. split; [cbn; lia|].
    intros k Hk. destruct k; [exact E|]. cbn in *. apply I2. lia.
Qed.

(* ---------- the blocked recursion ---------- *)
Lemma getrf_rec_inv : forall bs tbs fuel n s len (X Y : mat) P0 P, (0 < bs)%nat -> (0 < tbs)%nat -> (s + len <= n)%nat ->
  getrf_rec A F fabs bs tbs fuel n s len X P0 = LUOk A Y P -> blk_inv n s (s + len) len X Y P0 P.
Proof.
  intros bs tbs fuel n. induction fuel; intros s len X Y P0 P Hb Htb Hn H; cbn [getrf_rec] in H.
  - destruct (Nat.leb len bs); [|discriminate]. apply getrf_block_inv in H; [exact H|lia|exact Hn].
  - destruct (Nat.leb len bs). { apply getrf_block_inv in H; [exact H|lia|exact Hn]. }
    pose proof (split_le bs len Hb) as Hsp.
    set (split := ((len + bs - 1) / bs / 2 * bs)%nat) in *. clearbody split.
    set (m := (s + split)%nat) in *. set (e := (s + len)%nat) in *.
    destruct (getrf_rec A F fabs bs tbs fuel n s split X P0) as [Y1 P1| |] eqn:E1; try discriminate.
    apply IHfuel in E1; [|exact Hb|exact Htb|lia]. fold m in E1.
    destruct E1 as [A1 [A2 [_ [A4 [A5 [A6 [A7 A8]]]]]]].
    set (Y2 := swap_seq A F n m e s split P1 Y1) in *.
    assert (HY2 : forall i c, Y2 i c = if Nat.leb m c && Nat.ltb c e then Y1 (perm_of P1 s split i) c else Y1 i c)
      by (intros; apply swap_seq_eq). clearbody Y2.
    match type of H with match map_opt ?f ?l with _ => _ end = _ => destruct (map_opt f l) as [Xs|] eqn:EX; [|discriminate] end.
    apply (map_opt_nth _ _ _ _ _ O (fun _ => 0)) in EX. destruct EX as [_ EX]. rewrite seq_length in EX.
    assert (HX : forall c, (m <= c < e)%nat -> win_lower A F true Y2 s split (fun i => Y2 i c) (nth (c - m) Xs (fun _ => 0))).
    { intros c Hc. specialize (EX (c - m)%nat ltac:(lia)). rewrite seq_nth in EX by lia.
      replace (m + (c - m))%nat with c in EX by lia.
      eapply (trsv_rec_lower A F Fth feqb_spec); [exact Htb|exact EX]. }
    clear EX.
    match type of H with context [getrf_rec A F fabs bs tbs fuel n m (len - split) (memo2 A F n ?f4) P1] => set (g4 := f4) in * end.
    match (eval unfold g4 in g4) with context [memo2 A F n ?f3] => set (g3 := f3) in * end.
    assert (G3 : forall i c, memo2 A F n g3 i c = g3 i c) by (intros; apply memo2_eq).
    set (Y3 := memo2 A F n g3) in *. clearbody Y3.
    assert (G4 : forall i c, memo2 A F n g4 i c = g4 i c) by (intros; apply memo2_eq).
    set (Y4 := memo2 A F n g4) in *. clearbody Y4.
    destruct (getrf_rec A F fabs bs tbs fuel n m (len - split) Y4 P1) as [Y5 P2| |] eqn:E2; try discriminate.
    apply IHfuel in E2; [|exact Hb|exact Htb|unfold m; lia].
    replace (m + (len - split))%nat with e in E2 by (unfold m, e; lia).
    destruct E2 as [B1 [B2 [_ [B4 [B5 [B6 [B7 B8]]]]]]].
    inversion H; subst Y P; clear H.
    set (s1 := perm_of P1 s split) in *. set (s2 := perm_of P2 m (len - split)) in *.
    (* the permutation *)
    assert (Hperm : forall i, perm_of P2 s len i = s1 (s2 i)).
    { intros i. replace len with (split + (len - split))%nat at 1 by lia. rewrite perm_of_split. fold m. fold s2.
      apply perm_of_ext. intros t Ht. apply B6. unfold m; lia. }
    assert (s2low : forall i, (i < m \/ n <= i)%nat -> s2 i = i) by (intros; eapply perm_of_out; eauto).
    assert (s2rng : forall i, (m <= i < n)%nat -> (m <= s2 i < n)%nat) by (intros; apply perm_of_range; auto).
    assert (s1low : forall i, (i < s \/ n <= i)%nat -> s1 i = i) by (intros; eapply perm_of_out; eauto).
    (* entries of the intermediate matrices *)
    assert (Y2a : forall i c, (m <= c < e)%nat -> Y2 i c = X (s1 i) c).
    { intros i c Hc. rewrite HY2. bdall; try lia. apply A4. unfold m in *; lia. }
    assert (Y2b : forall i c, ~ (m <= c < e)%nat -> Y2 i c = Y1 i c).
    { intros i c Hc. rewrite HY2. bdall; try lia; reflexivity. }
    assert (Y3a : forall i c, (s <= i < m)%nat -> (m <= c < e)%nat -> Y3 i c = nth (c - m) Xs (fun _ => 0) i).
    { intros i c Hi Hc. rewrite G3. unfold g3. bdall; try lia; reflexivity. }
    assert (Y3b : forall i c, ~ ((s <= i < m)%nat /\ (m <= c < e)%nat) -> Y3 i c = Y2 i c).
    { intros i c Hc. rewrite G3. unfold g3. bdall; try lia; reflexivity. }
    assert (Y4a : forall i c, (m <= i < n)%nat -> (m <= c < e)%nat -> Y4 i c = Y3 i c + - (1) * sumr s m (fun t => Y3 i t * Y3 t c)).
    { intros i c Hi Hc. rewrite G4. unfold g4. bdall; try lia; reflexivity. }
    assert (Y4b : forall i c, ~ ((m <= i < n)%nat /\ (m <= c < e)%nat) -> Y4 i c = Y3 i c).
    { intros i c Hc. rewrite G4. unfold g4. bdall; try lia; reflexivity. }
    clear G3 G4 HY2. clearbody g3 g4.
    set (Y := swap_seq A F n s m m (len - split) P2 Y5).
    assert (HY : forall i c, Y i c = if Nat.leb s c && Nat.ltb c m then Y5 (s2 i) c else Y5 i c)
      by (intros; apply swap_seq_eq). clearbody Y.
    (* the four blocks of the result *)
    assert (K11 : forall i c, (s <= c < m)%nat -> Y i c = Y1 (s2 i) c).
    { intros i c Hc. rewrite HY. bdall; try lia. rewrite B4 by lia. rewrite Y4b by lia. rewrite Y3b by lia. apply Y2b. lia. }
    assert (K12 : forall i c, (s <= i < m)%nat -> (m <= c < e)%nat -> Y i c = Y3 i c).
    { intros i c Hi Hc. rewrite HY. bdall; try lia. rewrite B4 by lia. apply Y4b. lia. }
    assert (K22 : forall i c, (m <= c < e)%nat -> Y i c = Y5 i c).
    { intros i c Hc. rewrite HY. bdall; try lia; reflexivity. }
    assert (U12 : forall i c, (s <= i < m)%nat -> (m <= c < e)%nat ->
              X (s1 i) c = sumr s i (fun t => Y1 i t * Y3 t c) + Y3 i c).
    { intros i c Hi Hc. destruct (HX c Hc) as [W _]. specialize (W i ltac:(unfold m in *; lia)). cbn beta in W.
      rewrite <- Y2a by lia. rewrite <- W. unfold dg. rewrite (Y3a i c) by lia.
      assert (E : sumr s i (fun t => Y1 i t * Y3 t c) = sumr s i (fun j => Y2 i j * nth (c - m) Xs (fun _ => 0) j)).
      { apply sumr_ext. intros t Ht. rewrite Y2b by lia. rewrite (Y3a t c) by lia. reflexivity. }
      rewrite E. ring. }
    unfold blk_inv. fold e.
    split; [|split; [|split; [|split; [|split; [|split; [|split]]]]]].
    + (* L *)
      intros i c Hc Hi. rewrite Hperm.
      destruct (Nat.lt_ge_cases c m) as [Hcm|Hcm].
      * assert (Hi2 : (c < s2 i < n)%nat).
        { destruct (Nat.lt_ge_cases i m); [rewrite s2low by lia; lia|pose proof (s2rng i ltac:(lia)); lia]. }
        fold s1 in A1. rewrite (A1 (s2 i) c) by (unfold m in *; lia).
        rewrite (K11 i c) by lia. rewrite (K11 c c) by lia. rewrite (s2low c) by lia.
        f_equal. apply sumr_ext. intros t Ht. rewrite (K11 i t) by lia. rewrite (K11 t c) by lia. rewrite (s2low t) by lia. reflexivity.
      * pose proof (s2rng i ltac:(lia)) as Hs2.
        fold s2 in B1. pose proof (B1 i c ltac:(lia) ltac:(lia)) as E.
        rewrite Y4a in E by lia. rewrite (Y3b (s2 i) c) in E by lia. rewrite Y2a in E by lia.
        rewrite (K22 i c) by lia. rewrite (K22 c c) by lia.
        rewrite (sumr_split s m c) by (unfold m; lia).
        assert (E1 : sumr s m (fun t => Y i t * Y t c) = sumr s m (fun t => Y3 (s2 i) t * Y3 t c)).
        { apply sumr_ext. intros t Ht. rewrite (K11 i t) by lia. rewrite (K12 t c) by lia.
          rewrite (Y3b (s2 i) t) by lia. rewrite Y2b by lia. reflexivity. }
        assert (E2 : sumr m c (fun t => Y i t * Y t c) = sumr m c (fun t => Y5 i t * Y5 t c)).
        { apply sumr_ext. intros t Ht. rewrite (K22 i t) by lia. rewrite (K22 t c) by lia. reflexivity. }
        rewrite E1, E2. match type of E with ?l = _ => assert (Hx : X (s1 (s2 i)) c = l + sumr s m (fun t => Y3 (s2 i) t * Y3 t c)) by ring; rewrite Hx, E; ring end.
    + (* U *)
      intros i c Hi Hc. rewrite Hperm.
      destruct (Nat.lt_ge_cases i m) as [Him|Him].
      * rewrite (s2low i) by lia.
        destruct (Nat.lt_ge_cases c m) as [Hcm|Hcm].
        -- fold s1 in A2. rewrite (A2 i c) by (unfold m in *; lia).
           rewrite (K11 i c) by lia. rewrite (s2low i) by lia.
           f_equal. apply sumr_ext. intros t Ht. rewrite (K11 i t) by lia. rewrite (K11 t c) by lia.
           rewrite (s2low i) by lia. rewrite (s2low t) by lia. reflexivity.
        -- rewrite U12 by lia. rewrite (K12 i c) by lia.
           f_equal. apply sumr_ext. intros t Ht. rewrite (K11 i t) by lia. rewrite (s2low i) by lia. rewrite (K12 t c) by lia. reflexivity.
      * pose proof (s2rng i ltac:(lia)) as Hs2.
        fold s2 in B2. pose proof (B2 i c ltac:(lia) ltac:(lia)) as E.
        rewrite Y4a in E by lia. rewrite (Y3b (s2 i) c) in E by lia. rewrite Y2a in E by lia.
        rewrite (K22 i c) by lia.
        rewrite (sumr_split s m i) by (unfold m; lia).
        assert (E1 : sumr s m (fun t => Y i t * Y t c) = sumr s m (fun t => Y3 (s2 i) t * Y3 t c)).
        { apply sumr_ext. intros t Ht. rewrite (K11 i t) by lia. rewrite (K12 t c) by lia.
          rewrite (Y3b (s2 i) t) by lia. rewrite Y2b by lia. reflexivity. }
        assert (E2 : sumr m i (fun t => Y i t * Y t c) = sumr m i (fun t => Y5 i t * Y5 t c)).
        { apply sumr_ext. intros t Ht. rewrite (K22 i t) by lia. rewrite (K22 t c) by lia. reflexivity. }
        rewrite E1, E2. match type of E with ?l = _ => assert (Hx : X (s1 (s2 i)) c = l + sumr s m (fun t => Y3 (s2 i) t * Y3 t c)) by ring; rewrite Hx, E; ring end.
    + intros i c Hi Hc. unfold e in *. lia.
    + (* frame *)
      intros i c Hic.
      destruct (Nat.lt_ge_cases c s) as [Hc|Hc].
      { rewrite HY. bdall; try lia. rewrite B4 by lia. rewrite Y4b by lia. rewrite Y3b by lia. rewrite Y2b by lia. apply A4. lia. }
      destruct (Nat.le_gt_cases e c) as [Hc2|Hc2].
      { rewrite HY. bdall; try lia. rewrite B4 by lia. rewrite Y4b by lia. rewrite Y3b by lia. rewrite Y2b by lia. apply A4. unfold e, m in *; lia. }
      assert (Hi : (i < s \/ n <= i)%nat) by lia.
      destruct (Nat.lt_ge_cases c m) as [Hcm|Hcm].
      * rewrite K11 by lia. rewrite s2low by (unfold m; lia). apply A4. lia.
      * rewrite K22 by lia. rewrite B4 by (unfold m in *; lia). rewrite Y4b by (unfold m in *; lia).
        rewrite Y3b by lia. rewrite Y2a by lia. rewrite s1low by lia. reflexivity.
    + (* pivot vector *)
      intros t Ht. destruct (Nat.lt_ge_cases t m) as [Htm|Htm].
      * rewrite B6 by lia. apply A5. unfold m in *; lia.
      * apply B5. unfold m, e in *; lia.
    + intros t Ht. rewrite B6 by (unfold m, e in *; lia). apply A6. unfold m, e in *; lia.
    + (* pivots *)
      intros c Hc. destruct (Nat.lt_ge_cases c m) as [Hcm|Hcm].
      * rewrite K11 by lia. rewrite s2low by lia. apply A7. unfold m in *; lia.
      * rewrite K22 by (unfold e; lia). apply B7. unfold m, e in *; lia.
    + (* multipliers *)
      intros i c Hc Hi. destruct (Nat.lt_ge_cases c m) as [Hcm|Hcm].
      * rewrite K11 by lia. apply A8; [unfold m in *; lia|].
        destruct (Nat.lt_ge_cases i m); [rewrite s2low by lia; lia|pose proof (s2rng i ltac:(lia)); lia].
      * rewrite K22 by (unfold e; lia). apply B8; unfold m, e in *; lia.
Qed.

(* failure comes out of a block kernel only *)
Lemma getrf_step_fail : forall n s e j (M M' : mat) P j', getrf_step A F fabs n s e j M P = LUFail A j' M' ->
  j' = j /\ M' = M /\ fst (pivot_scan A F fabs M j (n - 1 - j)) = 0.
Proof.
  intros n s e j M M' P j' H. unfold getrf_step in H.
  destruct (pivot_scan A F fabs M j (n - 1 - j)) as [pv p]. destruct (feqb F pv 0) eqn:Ez; [|discriminate].
  apply feqb_spec in Ez. inversion H; subst. auto.
Qed.
Lemma getrf_block_fail : forall n s e k (M M' : mat) P j, getrf_block A F fabs n s e k M P = LUFail A j M' ->
  (s <= j < s + k)%nat /\ fst (pivot_scan A F fabs M' j (n - 1 - j)) = 0.
Proof.
  intros n s e k M M' P. induction k; intros j H; cbn [getrf_block] in H; [discriminate|].
  destruct (getrf_block A F fabs n s e k M P) as [M1 P1|j1 M1|] eqn:E; try discriminate.
  - apply getrf_step_fail in H. destruct H as [-> [-> H]]. split; [lia|exact H].
  - inversion H; subst. destruct (IHk j eq_refl). split; [lia|assumption].
Qed.
Lemma getrf_rec_fail : forall bs tbs fuel n s len (M M' : mat) P j, (0 < bs)%nat ->
  getrf_rec A F fabs bs tbs fuel n s len M P = LUFail A j M' ->
  (s <= j < s + len)%nat /\ fst (pivot_scan A F fabs M' j (n - 1 - j)) = 0.
Proof.
  intros bs tbs fuel n. induction fuel; intros s len M M' P j Hb H; cbn [getrf_rec] in H.
  - destruct (Nat.leb len bs); [|discriminate]. apply getrf_block_fail in H. exact H.
  - destruct (Nat.leb len bs). { apply getrf_block_fail in H. exact H. }
    pose proof (split_le bs len Hb) as Hsp.
    set (split := ((len + bs - 1) / bs / 2 * bs)%nat) in *. clearbody split.
    destruct (getrf_rec A F fabs bs tbs fuel n s split M P) as [Y1 P1|j1 M1|] eqn:E1; try discriminate.
    + match type of H with match map_opt ?f ?l with _ => _ end = _ => destruct (map_opt f l) as [Xs|]; [|discriminate] end.
      match type of H with match ?r with _ => _ end = _ => destruct r as [Y5 P2|j2 M2|] eqn:E2; try discriminate end.
      inversion H; subst. apply IHfuel in E2; [|exact Hb]. destruct E2. split; [lia|assumption].
    + inversion H; subst. apply IHfuel in E1; [|exact Hb]. destruct E1. split; [lia|assumption].
Qed.

(* ================= getrf: P A = L U ================= *)
Notation tri := (tri A F).
Notation mv := (mv A F).

Lemma LU_entry : forall n (Y : mat) i c, (i < n)%nat -> (c < n)%nat ->
  sumr 0 n (fun t => tri false true Y i t * tri true false Y t c) =
  if Nat.ltb c i then sumr 0 c (fun t => Y i t * Y t c) + Y i c * Y c c else sumr 0 i (fun t => Y i t * Y t c) + Y i c.
Proof.
  intros n Y i c Hi Hc. destruct (Nat.ltb_spec c i) as [Hci|Hci].
  - rewrite (sumr_split 0 c n) by lia. rewrite (sumr_first A F Fth c n) by lia.
    rewrite (sumr_zero A F Fth (S c) n).
    2:{ intros t Ht. unfold C02Proofs.tri at 2. bdall; try lia. ring. }
    rewrite (sumr_ext 0 c _ (fun t => Y i t * Y t c)).
    2:{ intros t Ht. unfold C02Proofs.tri, dg. bdall; try lia. reflexivity. }
    unfold C02Proofs.tri, dg. bdall; try lia. ring.
  - rewrite (sumr_split 0 i n) by lia. rewrite (sumr_first A F Fth i n) by lia.
    rewrite (sumr_zero A F Fth (S i) n).
    2:{ intros t Ht. unfold C02Proofs.tri at 1. bdall; try lia. ring. }
    rewrite (sumr_ext 0 i _ (fun t => Y i t * Y t c)).
    2:{ intros t Ht. unfold C02Proofs.tri, dg. bdall; try lia. reflexivity. }
    unfold C02Proofs.tri, dg. bdall; try lia; subst; ring.
Qed.

Theorem getrf_correct_gen : forall bs tbs n (M0 LU : mat) P, (0 < bs)%nat -> (0 < tbs)%nat ->
  getrf A F fabs bs tbs n M0 = LUOk A LU P ->
  (forall i c, (i < n)%nat -> (c < n)%nat ->
     sumr 0 n (fun t => tri false true LU i t * tri true false LU t c) = M0 (perm_of P 0 n i) c) /\
  pgood P 0 n n /\
  (forall c, (c < n)%nat -> LU c c <> 0) /\
  (forall i c, (c < i < n)%nat -> small (LU i c)).
Proof.
  intros bs tbs n M0 LU P Hb Htb H. unfold getrf in H. apply getrf_rec_inv in H; [|exact Hb|exact Htb|lia].
  destruct H as [I1 [I2 [_ [_ [I5 [_ [I7 I8]]]]]]]. cbn [Nat.add] in *.
  split; [|split; [exact I5|split; [intros; apply I7; lia|intros; apply I8; lia]]].
  intros i c Hi Hc. rewrite LU_entry by assumption. destruct (Nat.ltb_spec c i).
  - symmetry. apply I1; lia.
  - symmetry. apply I2; lia.
Qed.

(* the reported pivot vector denotes a permutation of the rows 0..n-1 *)
Theorem perm_of_bijective : forall P n, pgood P 0 n n ->
  forall i, (i < n)%nat -> (perm_of P 0 n i < n)%nat /\ (perm_inv P 0 n i < n)%nat /\
    perm_of P 0 n (perm_inv P 0 n i) = i /\ perm_inv P 0 n (perm_of P 0 n i) = i.
Proof.
  intros P n G i Hi. split; [apply perm_of_range; [exact G|lia]|]. split; [apply perm_inv_range; [exact G|lia]|].
  split; [apply perm_of_inv|apply perm_inv_of].
Qed.

(* ================= solve(A, b, indefinite_full_rank, left) ================= *)
Theorem lu_solve_correct : forall bs tbs n o (M0 LU : mat) P b x, (0 < bs)%nat -> (0 < tbs)%nat ->
  getrf A F fabs bs tbs n M0 = LUOk A LU P -> lu_solve A F o LU P n b = Some x ->
  forall k, (k < n)%nat -> mv n M0 x k = b k.
Proof.
  intros bs tbs n o M0 LU P b x Hb Htb HG H k Hk.
  apply getrf_correct_gen in HG; [|exact Hb|exact Htb]. destruct HG as [HLU [G _]].
  unfold lu_solve in H.
  destruct (trsv_left A F false true o LU n (swap_vec A F n n P b)) as [y|] eqn:E1; [|discriminate].
  pose proof (trsv_left_correct A F Fth feqb_spec _ _ _ _ _ _ _ E1) as Y.
  pose proof (trsv_left_correct A F Fth feqb_spec _ _ _ _ _ _ _ H) as Xs.
  destruct (perm_of_bijective P n G k Hk) as [_ [Hi [Hki _]]].
  set (i := perm_inv P 0 n k) in *.
  unfold C02Proofs.mv in *.
  rewrite (sumr_ext 0 n _ (fun c => sumr 0 n (fun t => tri false true LU i t * (tri true false LU t c * x c)))).
  2:{ intros c Hc. rewrite <- Hki. rewrite <- (HLU i c) by lia. rewrite <- (sumr_mul_r A F Fth). apply sumr_ext. intros; ring. }
  rewrite (sumr_swap A F Fth).
  rewrite (sumr_ext 0 n _ (fun t => tri false true LU i t * y t)).
  2:{ intros t Ht. rewrite (sumr_mul_l A F Fth). f_equal. apply Xs. lia. }
  rewrite (Y i Hi). rewrite swap_vec_eq. rewrite Hki. reflexivity.
Qed.

Theorem lu_solve_total : forall bs tbs n o (M0 LU : mat) P b, (0 < bs)%nat -> (0 < tbs)%nat ->
  getrf A F fabs bs tbs n M0 = LUOk A LU P -> exists x, lu_solve A F o LU P n b = Some x.
Proof.
  intros bs tbs n o M0 LU P b Hb Htb HG.
  apply getrf_correct_gen in HG; [|exact Hb|exact Htb]. destruct HG as [_ [_ [D _]]].
  unfold lu_solve.
  destruct (trsv_left_total A F feqb_spec false true o LU n (swap_vec A F n n P b)) as [y Ey]; [left; reflexivity|].
  rewrite Ey. apply (trsv_left_total A F feqb_spec). right. intros i Hi. apply D. lia.
Qed.

Theorem lu_solve_full_correct : forall bs tbs n o (M0 : mat) b x, (0 < bs)%nat -> (0 < tbs)%nat ->
  lu_solve_full A F fabs bs tbs o M0 n b = Some x -> forall k, (k < n)%nat -> mv n M0 x k = b k.
Proof.
  intros bs tbs n o M0 b x Hb Htb H. unfold lu_solve_full in H.
  destruct (getrf A F fabs bs tbs n M0) as [LU P| |] eqn:E; try discriminate.
  intros k Hk. exact (lu_solve_correct bs tbs n o M0 LU P b x Hb Htb E H k Hk).
Qed.

(* failure: the exception is thrown at a column j whose pivot search returned the value 0 *)
Theorem getrf_fail_pivot : forall bs tbs n (M0 M' : mat) j, (0 < bs)%nat ->
  getrf A F fabs bs tbs n M0 = LUFail A j M' -> (j < n)%nat /\ fst (pivot_scan A F fabs M' j (n - 1 - j)) = 0.
Proof.
  intros bs tbs n M0 M' j Hb H. unfold getrf in H. apply getrf_rec_fail in H; [|exact Hb]. destruct H. split; [lia|assumption].
Qed.

End LU.

(* ================= the pivot rule: order / absolute-value laws ================= *)
Section LUOrd.
Variable A : Type.
Variable F : ops A.
Variable fabs : A -> A.
Notation "0" := (fzero F) : F_scope.
Notation "1" := (fone F) : F_scope.
Infix "*" := (fmul F) : F_scope.
Infix "/" := (fdiv F) : F_scope.
Hypothesis Fth : field_theory (fzero F) (fone F) (fadd F) (fmul F) (fsub F) (fopp F) (fdiv F) (finv F) (@eq A).
Hypothesis feqb_spec : forall x y, feqb F x y = true <-> x = y.
Add Field FfieldLUO : Fth.
Local Open Scope F_scope.

(* fltb x y : x < y,  fleb x y : x <= y  (the comparisons of the record);  fabs : std::abs *)
Hypothesis lt_irrefl : forall x, fltb F x x = false.
Hypothesis lt_trans : forall x y z, fltb F y x = false -> fltb F y z = true -> fltb F z x = false.   (* x <= y < z -> x <= z *)
Hypothesis lt_le_trans : forall x y z, fltb F y x = false -> fltb F y z = true -> fltb F x z = true. (* x <= y < z -> x < z *)
Hypothesis le_of_nlt : forall x y, fltb F y x = false -> fleb F x y = true.
Hypothesis le_mul_r : forall x y z, fleb F x y = true -> fltb F 0 z = true -> fleb F (x * z) (y * z) = true.
Hypothesis abs_mul : forall x y, fabs (x * y) = fabs x * fabs y.
Hypothesis abs_pos : forall x, x <> 0 -> fltb F 0 (fabs x) = true.
Hypothesis abs_0 : fabs 0 = 0.

(* the pivot is an entry of largest absolute value of the scanned part of its column; among equals the first *)
Lemma pivot_scan_max : forall (M : mat A) j k pv p, pivot_scan A F fabs M j k = (pv, p) ->
  forall i, (j <= i <= j + k)%nat -> fltb F (fabs pv) (fabs (M i j)) = false.
Proof.
  intros M j k. induction k; intros pv p H i Hi; cbn [pivot_scan] in H.
  - inversion H; subst pv p. replace i with j by lia. apply lt_irrefl.
  - destruct (pivot_scan A F fabs M j k) as [pv0 p0] eqn:E. specialize (IHk pv0 p0 eq_refl).
    destruct (fltb F (fabs pv0) (fabs (M (j + S k)%nat j))) eqn:Et; inversion H; subst.
    + destruct (Nat.eq_dec i (j + S k)) as [->|N]; [apply lt_irrefl|].
      eapply lt_trans; [apply IHk; lia|exact Et].
    + destruct (Nat.eq_dec i (j + S k)) as [->|N]; [exact Et|]. apply IHk. lia.
Qed.
Lemma pivot_scan_first : forall (M : mat A) j k pv p, pivot_scan A F fabs M j k = (pv, p) ->
  forall i, (j <= i < p)%nat -> fltb F (fabs (M i j)) (fabs pv) = true.
Proof.
  intros M j k. induction k; intros pv p H i Hi; cbn [pivot_scan] in H.
  - inversion H; subst pv p. lia.
  - destruct (pivot_scan A F fabs M j k) as [pv0 p0] eqn:E.
    destruct (fltb F (fabs pv0) (fabs (M (j + S k)%nat j))) eqn:Et; inversion H; subst.
    + pose proof (pivot_scan_max M j k pv0 p0 E i ltac:(lia)) as Hm. eapply lt_le_trans; [exact Hm|exact Et].
    + eapply IHk; [reflexivity|exact Hi].
Qed.

Definition small1 (x : A) : Prop := fleb F (fabs x) 1 = true.

Lemma abs_one : fabs 1 = 1.
Proof.
  assert (N : fabs 1 <> 0).
  { intros Z. pose proof (abs_pos 1 (F_1_neq_0 Fth)) as H. rewrite Z in H. rewrite lt_irrefl in H. discriminate. }
  assert (E : fabs 1 = fabs 1 * fabs 1) by (rewrite <- abs_mul; f_equal; ring).
  assert (E2 : fabs 1 = (fabs 1 * fabs 1) / fabs 1) by (field; exact N).
  rewrite <- E in E2. rewrite E2. field. exact N.
Qed.

Lemma small1_pivot : forall (M : mat A) j k pv p i, pivot_scan A F fabs M j k = (pv, p) -> pv <> 0 ->
  (j <= i <= j + k)%nat -> small1 (M i j / pv).
Proof.
  intros M j k pv p i H Hz Hi. unfold small1.
  pose proof (pivot_scan_max M j k pv p H i Hi) as Hm. apply le_of_nlt in Hm.
  assert (Hinv : finv F pv <> 0).
  { intros Z. apply (F_1_neq_0 Fth). rewrite <- (Finv_l Fth pv Hz). rewrite Z. ring. }
  rewrite (Fdiv_def Fth). rewrite abs_mul.
  replace 1 with (fabs pv * fabs (finv F pv)).
  - apply le_mul_r; [exact Hm|apply abs_pos; exact Hinv].
  - rewrite <- abs_mul. rewrite <- abs_one. f_equal. field. exact Hz.
Qed.

Lemma pivot_zero_column : forall (M : mat A) j k, fst (pivot_scan A F fabs M j k) = 0 ->
  forall i, (j <= i <= j + k)%nat -> M i j = 0.
Proof.
  intros M j k H i Hi. destruct (pivot_scan A F fabs M j k) as [pv p] eqn:E. cbn in H. subst pv.
  pose proof (pivot_scan_max M j k 0 p E i Hi) as Hm. rewrite abs_0 in Hm.
  destruct (feqb F (M i j) 0) eqn:Ez; [apply feqb_spec; exact Ez|].
  apply (feqb_false A F feqb_spec) in Ez. rewrite (abs_pos _ Ez) in Hm. discriminate.
Qed.

(* P A = L U, the pivot vector is in range, non-zero pivots, |l_ij| <= 1 *)
Theorem getrf_correct : forall bs tbs n (M0 LU : mat A) P, (0 < bs)%nat -> (0 < tbs)%nat ->
  getrf A F fabs bs tbs n M0 = LUOk A LU P ->
  (forall i c, (i < n)%nat -> (c < n)%nat ->
     sumr A F 0 n (fun t => tri A F false true LU i t * tri A F true false LU t c) = M0 (perm_of P 0 n i) c) /\
  pgood P 0 n n /\
  (forall c, (c < n)%nat -> LU c c <> 0) /\
  (forall i c, (c < i < n)%nat -> fleb F (fabs (LU i c)) 1 = true).
Proof.
  intros bs tbs n M0 LU P Hb Htb H.
  exact (getrf_correct_gen A F fabs Fth feqb_spec small1 small1_pivot bs tbs n M0 LU P Hb Htb H).
Qed.

(* the exception is thrown exactly at a column whose remaining part (rows j..n-1 of the matrix as left behind) is zero *)
Theorem getrf_fail_zero_column : forall bs tbs n (M0 M' : mat A) j, (0 < bs)%nat ->
  getrf A F fabs bs tbs n M0 = LUFail A j M' -> (j < n)%nat /\ forall i, (j <= i < n)%nat -> M' i j = 0.
Proof.
  intros bs tbs n M0 M' j Hb H. apply (getrf_fail_pivot A F fabs feqb_spec) in H; [|exact Hb]. destruct H as [Hj H].
  split; [exact Hj|]. intros i Hi. eapply pivot_zero_column; [exact H|lia].
Qed.

End LUOrd.

(* ================= the purely algebraic statements (no order laws: small := True) ================= *)
Section LUAlg.
Variable A : Type.
Variable F : ops A.
Variable fabs : A -> A.
Hypothesis Fth : field_theory (fzero F) (fone F) (fadd F) (fmul F) (fsub F) (fopp F) (fdiv F) (finv F) (@eq A).
Hypothesis feqb_spec : forall x y, feqb F x y = true <-> x = y.
Let smallT (x : A) : Prop := True.
Let smallT_pivot : forall (M : mat A) j k pv p i, pivot_scan A F fabs M j k = (pv, p) -> pv <> fzero F ->
  (j <= i <= j + k)%nat -> smallT (fdiv F (M i j) pv).
Proof. intros. exact I. Qed.

Theorem getrf_PA_LU : forall bs tbs n (M0 LU : mat A) P, (0 < bs)%nat -> (0 < tbs)%nat ->
  getrf A F fabs bs tbs n M0 = LUOk A LU P ->
  (forall i c, (i < n)%nat -> (c < n)%nat ->
     sumr A F 0 n (fun t => fmul F (tri A F false true LU i t) (tri A F true false LU t c)) = M0 (perm_of P 0 n i) c) /\
  (forall t, (t < n)%nat -> (t <= P t < n)%nat) /\
  Permutation (map (perm_of P 0 n) (seq 0 n)) (seq 0 n) /\
  (forall c, (c < n)%nat -> LU c c <> fzero F).
Proof.
  intros bs tbs n M0 LU P Hb Htb H.
  destruct (getrf_correct_gen A F fabs Fth feqb_spec smallT smallT_pivot bs tbs n M0 LU P Hb Htb H) as [H1 [H2 [H3 _]]].
  split; [exact H1|]. split; [intros t Ht; apply H2; lia|]. split; [apply perm_of_Permutation; exact H2|exact H3].
Qed.
Theorem lu_solve_correct_alg : forall bs tbs n o (M0 LU : mat A) P b x, (0 < bs)%nat -> (0 < tbs)%nat ->
  getrf A F fabs bs tbs n M0 = LUOk A LU P -> lu_solve A F o LU P n b = Some x ->
  forall k, (k < n)%nat -> mv A F n M0 x k = b k.
Proof. exact (lu_solve_correct A F fabs Fth feqb_spec smallT smallT_pivot). Qed.
Theorem lu_solve_total_alg : forall bs tbs n o (M0 LU : mat A) P b, (0 < bs)%nat -> (0 < tbs)%nat ->
  getrf A F fabs bs tbs n M0 = LUOk A LU P -> exists x, lu_solve A F o LU P n b = Some x.
Proof. exact (lu_solve_total A F fabs Fth feqb_spec smallT smallT_pivot). Qed.
Theorem lu_solve_full_correct_alg : forall bs tbs n o (M0 : mat A) b x, (0 < bs)%nat -> (0 < tbs)%nat ->
  lu_solve_full A F fabs bs tbs o M0 n b = Some x -> forall k, (k < n)%nat -> mv A F n M0 x k = b k.
Proof. exact (lu_solve_full_correct A F fabs Fth feqb_spec smallT smallT_pivot). Qed.
End LUAlg.
