(* C04 — executable model of Shark's differentiable models (definitions only).
   Carrier and arithmetic are Section variables: the proofs instantiate them with any commutative
   ring (and with the ring of dual numbers / of symbolic expressions over it), the extraction with
   OCaml floats (passed by the driver as function arguments; exact on small dyadic inputs).
   Vectors are lists, matrices are lists of rows, a batch is a list of rows.

   Anchors: LinearModel.h (eval / parameterVector / setParameterVector / weighted*Derivative),
   NeuronLayers.h (activation = value + derivative expressed in the OUTPUT), ConcatenatedModel.h
   (forward chaining with stored intermediates, backward chain rule), Normalizer.h, Classifier.h. *)
From Coq Require Import List Arith Bool.
Import ListNotations.
Set Implicit Arguments.

Section Arith.
Variable A : Type.
Variables (zero one : A) (add mul sub : A -> A -> A).

(* ---------- finite-sum linear algebra on lists ---------- *)
Fixpoint dot (u v : list A) : A :=
  match u, v with x :: u', y :: v' => add (mul x y) (dot u' v') | _, _ => zero end.
Fixpoint vadd (u v : list A) : list A :=
  match u, v with x :: u', y :: v' => add x y :: vadd u' v' | _, _ => [] end.
Fixpoint vmul (u v : list A) : list A :=
  match u, v with x :: u', y :: v' => mul x y :: vmul u' v' | _, _ => [] end.
Definition vscale (c : A) (v : list A) : list A := map (mul c) v.
Definition zeros (n : nat) : list A := repeat zero n.
Definition vsum (v : list A) : A := fold_right add zero v.
Fixpoint madd (M N : list (list A)) : list (list A) :=
  match M, N with r :: M', s :: N' => vadd r s :: madd M' N' | _, _ => [] end.
Definition zmat (m n : nat) : list (list A) := repeat (zeros n) m.
(* W * x  (single evaluation: `m_matrix % input`) *)
Definition mv (W : list (list A)) (x : list A) : list A := map (fun w => dot w x) W.
(* X * W^T (batch evaluation: `inputs % trans(m_matrix)`) *)
Definition mm_nt (X W : list (list A)) : list (list A) := map (fun x => map (fun w => dot x w) W) X.
(* d * W = sum_o d_o * W_o  (a row of `delta % m_matrix`) ; n = number of columns of W *)
Fixpoint vm (n : nat) (d : list A) (W : list (list A)) : list A :=
  match d, W with di :: d', w :: W' => vadd (vscale di w) (vm n d' W') | _, _ => zeros n end.
Definition outer (d x : list A) : list (list A) := map (fun di => vscale di x) d.
(* trans(D) * X = sum over batch rows of outer products ; result m x n *)
Fixpoint gradW (m n : nat) (D X : list (list A)) : list (list A) :=
  match D, X with d :: D', x :: X' => madd (outer d x) (gradW m n D' X') | _, _ => zmat m n end.
(* sum(as_columns(D)) *)
Fixpoint colsum (m : nat) (D : list (list A)) : list A :=
  match D with d :: D' => vadd d (colsum m D') | [] => zeros m end.
Fixpoint map2 {B C E} (f : B -> C -> E) (u : list B) (v : list C) : list E :=
  match u, v with x :: u', y :: v' => f x y :: map2 f u' v' | _, _ => [] end.

(* ---------- activations (NeuronLayers.h) ----------
   aphi : row of pre-activations -> row of outputs            (evalInPlace)
   amul : pre-activation row (only the normaliser's stored row sum is read from it), output row,
          coefficient row -> coefficient row times derivative   (multiplyDerivative) *)
Record act := { aphi : list A -> list A; amul : list A -> list A -> list A -> list A }.
(* element-wise neuron: phi and its derivative written as a function of the OUTPUT *)
Definition ew_act (phi dphi : A -> A) : act :=
  {| aphi := map phi; amul := fun _ y c => map2 (fun ci yi => mul ci (dphi yi)) c y |}.
Definition id_act : act := {| aphi := fun z => z; amul := fun _ _ c => c |}.   (* LinearNeuron *)
(* row-wise neurons; `div`/`expA` are supplied by the driver (float stream only) *)
Definition normalizer_act (div : A -> A -> A) : act :=
  {| aphi := fun z => map (fun x => div x (vsum z)) z;
     amul := fun z y c => map (fun ci => div (sub ci (dot c y)) (vsum z)) c |}.
Definition softmax_act (div : A -> A -> A) (expA : A -> A) : act :=
  {| aphi := fun z => let e := map expA z in map (fun x => div x (vsum e)) e;
     amul := fun _ y c => vmul (map (fun ci => sub ci (vsum (vmul c y))) c) y |}.

(* ---------- LinearModel ---------- *)
Record layer := { lW : list (list A); lb : list A (* [] = no offset *); lact : act }.
Definition addoff (y b : list A) : list A := match b with [] => y | _ => vadd y b end.
Definition lin_pre (l : layer) (x : list A) : list A := addoff (mv (lW l) x) (lb l).
(* eval(InputType, OutputType) *)
Definition lin_eval (l : layer) (x : list A) : list A := aphi (lact l) (lin_pre l x).
(* eval(BatchInputType, BatchOutputType [, State]) *)
Definition lin_pre_batch (l : layer) (X : list (list A)) : list (list A) :=
  map (fun r => addoff r (lb l)) (mm_nt X (lW l)).
Definition lin_eval_batch (l : layer) (X : list (list A)) : list (list A) :=
  map (aphi (lact l)) (lin_pre_batch l X).

(* parameter layout: row-major weights, then offset *)
Definition lin_params (l : layer) : list A := concat (lW l) ++ lb l.
Fixpoint chunk (n m : nat) (t : list A) : list (list A) :=
  match m with 0 => [] | S m' => firstn n t :: chunk n m' (skipn n t) end.
Definition lin_nparams (nin nout : nat) (off : bool) : nat := nin * nout + (if off then nout else 0).
Definition lin_set (nin nout : nat) (off : bool) (a : act) (t : list A) : layer :=
  {| lW := chunk nin nout t; lb := if off then firstn nout (skipn (nin * nout) t) else []; lact := a |}.

(* delta = coefficients (.) act'(output), row by row *)
Definition lin_delta (l : layer) (X C : list (list A)) : list (list A) :=
  map2 (fun x c => amul (lact l) (lin_pre l x) (lin_eval l x) c) X C.
Definition lin_wpd (nin nout : nat) (l : layer) (X C : list (list A)) : list A :=
  let D := lin_delta l X C in
  concat (gradW nout nin D X) ++ (match lb l with [] => [] | _ => colsum nout D end).
Definition lin_wid (nin : nat) (l : layer) (X C : list (list A)) : list (list A) :=
  map (fun d => vm nin d (lW l)) (lin_delta l X C).
(* weightedDerivatives: one pass computing both *)
Definition lin_wd (nin nout : nat) (l : layer) (X C : list (list A)) : list A * list (list A) :=
  let D := lin_delta l X C in
  (concat (gradW nout nin D X) ++ (match lb l with [] => [] | _ => colsum nout D end),
   map (fun d => vm nin d (lW l)) D).

(* ---------- ConcatenatedModel: layers with their input widths ---------- *)
Definition net := list (nat * nat * layer).       (* (nin, nout, layer) *)
Fixpoint net_eval (N : net) (x : list A) : list A :=
  match N with [] => x | (_, _, l) :: N' => net_eval N' (lin_eval l x) end.
Fixpoint net_eval_batch (N : net) (X : list (list A)) : list (list A) :=
  match N with [] => X | (_, _, l) :: N' => net_eval_batch N' (lin_eval_batch l X) end.
Definition net_params (N : net) : list A := flat_map (fun q => lin_params (snd q)) N.
Definition net_nparams (sh : list (nat * nat * bool)) : nat :=
  fold_right (fun q s => match q with (i, o, off) => lin_nparams i o off + s end) 0 sh.
Fixpoint net_set (sh : list (nat * nat * bool * act)) (t : list A) : net :=
  match sh with
  | [] => []
  | (i, o, off, a) :: sh' =>
      let k := lin_nparams i o off in (i, o, lin_set i o off a (firstn k t)) :: net_set sh' (skipn k t)
  end.
(* backward pass: returns (gradient in layer order, input derivative) *)
Fixpoint net_back (N : net) (X C : list (list A)) : list A * list (list A) :=
  match N with
  | [] => ([], C)
  | (i, o, l) :: N' =>
      let '(g, CY) := net_back N' (lin_eval_batch l X) C in
      (lin_wpd i o l X CY ++ g, lin_wid i l X CY)
  end.

(* ---------- Normalizer: x (.) A (+ b) ---------- *)
Definition norm_eval (dg b x : list A) : list A := addoff (vmul x dg) b.
Definition norm_eval_batch (dg b : list A) (X : list (list A)) : list (list A) := map (norm_eval dg b) X.
Definition norm_params (dg b : list A) : list A := dg ++ b.
Definition norm_set (n : nat) (off : bool) (t : list A) : list A * list A :=
  (firstn n t, if off then skipn n t else []).

(* ---------- Classifier: arg max (first maximum) / threshold for one output ---------- *)
Variable ltb : A -> A -> bool.
Fixpoint argmax_from (best : A) (bi i : nat) (v : list A) : nat :=
  match v with [] => bi | x :: v' => if ltb best x then argmax_from x i (S i) v' else argmax_from best bi (S i) v' end.
Definition argmax (v : list A) : nat := match v with [] => 0 | x :: v' => argmax_from x 0 1 v' end.
Definition classify (bias v : list A) : nat :=
  let s := addoff v bias in
  match s with [x] => if ltb zero x then 1 else 0 | _ => argmax s end.
Definition classifier_eval (l : layer) (bias x : list A) : nat := classify bias (lin_eval l x).
Definition classifier_eval_batch (l : layer) (bias : list A) (X : list (list A)) : list nat :=
  map (classify bias) (lin_eval_batch l X).

End Arith.
