(* C10 — fourth part of the executable model (definitions only): include/shark/Algorithms/GradientDescent/Adam.h
   (init / step / read / write) and Rprop.h + src/Algorithms/GradientDescent/Rprop.cpp (init / step with the flags
   m_useFreezing, m_useBacktracking, m_useOldValue that select Rprop-, iRprop-, Rprop+, iRprop+; read / write as repaired
   by 9fe8fcd6), written once over the abstract number type of C10Gen.v, then instantiated with the exact rationals.
   The objective is the pair of oracles f / grad; Rprop's feasibility test is an arbitrary predicate [feas]
   (objectiveFunction.isFeasible; fun _ => true for unconstrained objectives).
   What solution().value means: both classes store m_best.value = the value returned by evalDerivative at m_best.point
   at the end of init and of every step; the derivative stored next to it is the one of the same call. *)
From Coq Require Import List QArith Qreduction Qabs Bool Arith.
From SharkV Require Import C10Model C10LsModel C10Gen C10LbfgsModel.
Import ListNotations.

Section GenericAR.
  Variable T : Type.
  Variable O : ops T.
  Notation gvec := (list T).
  Variable f : gvec -> T.
  Variable grad : gvec -> gvec.

  Notation "0" := (o_zero O).
  Notation "1" := (o_one O).
  Infix "+" := (o_add O).
  Infix "-" := (o_sub O).
  Infix "*" := (o_mul O).
  Infix "/" := (o_div O).
  Infix "<?" := (o_ltb O) (at level 70).

  (* ================= Adam.h ================= *)
  Record gadam : Type := mkAdam {
    ad_avg : gvec;            (* m_avgGrad *)
    ad_sec : gvec;            (* m_secondMoment *)
    ad_cnt : nat;             (* m_counter *)
    ad_der : gvec;            (* m_derivative *)
    ad_pt : gvec; ad_val : T; (* m_best *)
    ad_b1 : T; ad_b2 : T; ad_eps : T; ad_eta : T }.

  (* the four parameters are set by the constructor / setters, not by init *)
  Definition g_adam_init (b1 b2 eps eta : T) (x0 : gvec) : gadam :=
    mkAdam (map (fun _ => 0) x0) (map (fun _ => 0) x0) Datatypes.O (grad x0) x0 (f x0) b1 b2 eps eta.

  Fixpoint g_adam_point (c1 bias2 eps : T) (p m v : gvec) : gvec :=
    match p, m, v with
    | pi :: p', mi :: m', vi :: v' => (pi - (c1 * mi) / (eps + o_sqrt O (vi / bias2))) :: g_adam_point c1 bias2 eps p' m' v'
    | _, _, _ => []
    end.

  Definition g_adam_step (s : gadam) : gadam :=
    let b1 := ad_b1 s in let b2 := ad_b2 s in
    let m := gvadd T O (gvscale T O b1 (ad_avg s)) (gvscale T O (1 - b1) (ad_der s)) in
    let v := gvadd T O (gvscale T O b2 (ad_sec s)) (gvscale T O (1 - b2) (map (fun g => g * g) (ad_der s))) in
    let c := S (ad_cnt s) in
    let bias1 := 1 - o_pow O b1 c in
    let bias2 := 1 - o_pow O b2 c in
    let p := g_adam_point (ad_eta s / bias1) bias2 (ad_eps s) (ad_pt s) m v in
    mkAdam m v c (grad p) p (f p) b1 b2 (ad_eps s) (ad_eta s).

  (* ================= Rprop ================= *)
  Record grprop : Type := mkRprop {
    rp_delta : gvec; rp_deltaw : gvec; rp_oldder : gvec; rp_oldval : T;
    rp_inc : T; rp_dec : T; rp_dmax : T; rp_dmin : T;
    rp_size : nat;                    (* m_parameterSize *)
    rp_pt : gvec; rp_val : T; rp_der : gvec;
    rp_frz : bool; rp_bt : bool; rp_ov : bool }.

  (* [huge]: std::numeric_limits<double>::max() *)
  Definition g_rprop_init (huge inc dec dmax dmin : T) (frz bt ov : bool) (init_delta : T) (x0 : gvec) : grprop :=
    mkRprop (map (fun _ => init_delta) x0) (map (fun _ => 0) x0) (map (fun _ => 0) x0) huge inc dec dmax dmin
            (length x0) x0 (f x0) (grad x0) frz bt ov.

  (* m_delta(i) * -boost::math::sign(m_derivative(i)) *)
  Definition g_step_of (delta g : T) : T :=
    if 0 <? g then delta * o_neg O 1 else if g <? 0 then delta * 1 else delta * 0.

  (* body of the loop for one coordinate up to and including "point(i) += deltaw(i)":
     (new point(i), new delta(i), new deltaw(i), new oldDerivative(i)) *)
  Definition g_rprop_coord (s : grprop) (p g og d dw : T) : T * T * T * T :=
    let direction := g * og in
    if 0 <? direction then
      let d' := gmin T O (rp_dmax s) (rp_inc s * d) in
      let dw' := g_step_of d' g in (p + dw', d', dw', g)
    else if direction <? 0 then
      let d' := gmax T O (rp_dmin s) (rp_dec s * d) in
      let og' := if rp_frz s then 0 else g in
      if negb (rp_bt s) then let dw' := g_step_of d' g in (p + dw', d', dw', og')
      else if negb (rp_ov s) || (rp_oldval s <? rp_val s) then ((p - dw) + 0, d', 0, og')
      else (p + dw, d', dw, og')
    else
      let dw' := g_step_of d g in (p + dw', d, dw', g).

  (* the loop over the coordinates; [done]: the coordinates already updated, in reverse order.  The feasibility test sees
     the whole point: updated coordinates, the candidate for coordinate i, old coordinates behind it.
     Result: (point, delta, deltaw, oldDerivative) *)
  Fixpoint g_rprop_loop (feas : gvec -> bool) (s : grprop) (done : gvec) (ps gs ogs ds dws : gvec)
    : gvec * gvec * gvec * gvec :=
    match ps, gs, ogs, ds, dws with
    | p :: ps', g :: gs', og :: ogs', d :: ds', dw :: dws' =>
      let '(p1, d1, dw1, og1) := g_rprop_coord s p g og d dw in
      let ok := feas (rev_append done (p1 :: ps')) in
      let p2 := if ok then p1 else p in
      let d2 := if ok then d1 else d1 * rp_dec s in
      let og2 := if ok then og1 else 0 in
      let '(P, D, DW, OG) := g_rprop_loop feas s (p2 :: done) ps' gs' ogs' ds' dws' in
      (P, d2 :: D, dw1 :: DW, og2 :: OG)
    | _, _, _, _, _ => (rev done, [], [], [])
    end.

  Definition g_rprop_step (feas : gvec -> bool) (s : grprop) : grprop :=
    let '(P, D, DW, OG) := g_rprop_loop feas s [] (rp_pt s) (rp_der s) (rp_oldder s) (rp_delta s) (rp_deltaw s) in
    mkRprop D DW OG (rp_val s) (rp_inc s) (rp_dec s) (rp_dmax s) (rp_dmin s) (rp_size s) P (f P) (grad P)
            (rp_frz s) (rp_bt s) (rp_ov s).
End GenericAR.

Arguments mkAdam {T}. Arguments ad_avg {T}. Arguments ad_sec {T}. Arguments ad_cnt {T}. Arguments ad_der {T}.
Arguments ad_pt {T}. Arguments ad_val {T}. Arguments ad_b1 {T}. Arguments ad_b2 {T}. Arguments ad_eps {T}. Arguments ad_eta {T}.
Arguments mkRprop {T}. Arguments rp_delta {T}. Arguments rp_deltaw {T}. Arguments rp_oldder {T}. Arguments rp_oldval {T}.
Arguments rp_inc {T}. Arguments rp_dec {T}. Arguments rp_dmax {T}. Arguments rp_dmin {T}. Arguments rp_size {T}.
Arguments rp_pt {T}. Arguments rp_val {T}. Arguments rp_der {T}. Arguments rp_frz {T}. Arguments rp_bt {T}. Arguments rp_ov {T}.

(* ---------------- the rational instances ---------------- *)
Open Scope Q_scope.
Definition adam_state : Type := gadam Q.
Definition rprop_state : Type := grprop Q.

Section Instances.
  Variable f : vec -> Q.
  Variable grad : vec -> vec.
  Variable sq : Q -> Q.                 (* what stands for std::sqrt *)

  Definition adam_init : Q -> Q -> Q -> Q -> vec -> adam_state := g_adam_init Q (qops sq) f grad.
  Definition adam_step : adam_state -> adam_state := g_adam_step Q (qops sq) f grad.
  Fixpoint adam_run (n : nat) (s : adam_state) : adam_state :=
    match n with O => s | S k => adam_run k (adam_step s) end.

  Definition rprop_init : Q -> Q -> Q -> Q -> Q -> bool -> bool -> bool -> Q -> vec -> rprop_state := g_rprop_init Q QO f grad.
  Definition rprop_coord : rprop_state -> Q -> Q -> Q -> Q -> Q -> Q * Q * Q * Q := g_rprop_coord Q QO.
  Definition rprop_loop : (vec -> bool) -> rprop_state -> vec -> vec -> vec -> vec -> vec -> vec -> vec * vec * vec * vec :=
    g_rprop_loop Q QO.
  Definition rprop_step : (vec -> bool) -> rprop_state -> rprop_state := g_rprop_step Q QO f grad.
  Fixpoint rprop_run (feas : vec -> bool) (n : nat) (s : rprop_state) : rprop_state :=
    match n with O => s | S k => rprop_run feas k (rprop_step feas s) end.
End Instances.

(* the doubles of the constructors: Adam 0.9, 0.999, 1e-8, 0.001; Rprop 1.2, 0.5, 1e100, 0, std::numeric_limits<double>::max() *)
Definition adam_default_b1 : Q := 8106479329266893 # 9007199254740992.
Definition adam_default_b2 : Q := 8998192055486251 # 9007199254740992.
Definition adam_default_eps : Q := 6042939670531283 # 604462909807314587353088.
Definition adam_default_eta : Q := 1152921504606847 # 1152921504606846976.
Definition rprop_default_inc : Q := 5404319552844595 # 4503599627370496.
Definition rprop_default_dec : Q := 1 # 2.
Definition rprop_huge : Q := Qred ((2 - (1 # 4503599627370496)) * Qpower 2 1023).

(* ---------------- save / restore ---------------- *)
Definition fb (b : bool) : field := FN (if b then 1%nat else 0%nat).
Definition bf (k : nat) : bool := negb (Nat.eqb k 0).

(* Adam::write: m_avgGrad, m_secondMoment, m_counter, m_derivative, m_best (point, value), m_beta1, m_beta2, m_epsilon, m_eta *)
Definition adam_save (s : adam_state) : list field :=
  [FV (ad_avg s); FV (ad_sec s); FN (ad_cnt s); FV (ad_der s); FV (ad_pt s); FQ (ad_val s);
   FQ (ad_b1 s); FQ (ad_b2 s); FQ (ad_eps s); FQ (ad_eta s)].
Definition adam_restore (fresh : adam_state) (fs : list field) : option adam_state :=
  match fs with
  | [FV m; FV v; FN c; FV g; FV p; FQ x; FQ b1; FQ b2; FQ e; FQ eta] => Some (mkAdam m v c g p x b1 b2 e eta)
  | _ => None
  end.

(* Rprop::write as coded since the repair 9fe8fcd6 *)
Definition rprop_save (s : rprop_state) : list field :=
  [FV (rp_delta s); FV (rp_deltaw s); FV (rp_oldder s); FQ (rp_oldval s); FQ (rp_inc s); FQ (rp_dec s); FQ (rp_dmax s);
   FQ (rp_dmin s); FN (rp_size s); FV (rp_pt s); FQ (rp_val s); FV (rp_der s); fb (rp_frz s); fb (rp_bt s); fb (rp_ov s)].
Definition rprop_restore (fresh : rprop_state) (fs : list field) : option rprop_state :=
  match fs with
  | [FV d; FV dw; FV og; FQ ov; FQ inc; FQ dec; FQ dmax; FQ dmin; FN n; FV p; FQ x; FV g; FN a; FN b; FN c] =>
    Some (mkRprop d dw og ov inc dec dmax dmin n p x g (bf a) (bf b) (bf c))
  | _ => None
  end.
(* the list before the repair 9fe8fcd6: no m_derivative and no flags (they kept the values of the instance read into) *)
Definition rprop_save_old (s : rprop_state) : list field :=
  [FV (rp_delta s); FV (rp_deltaw s); FV (rp_oldder s); FQ (rp_oldval s); FQ (rp_inc s); FQ (rp_dec s); FQ (rp_dmax s);
   FQ (rp_dmin s); FN (rp_size s); FV (rp_pt s); FQ (rp_val s)].
Definition rprop_restore_old (fresh : rprop_state) (fs : list field) : option rprop_state :=
  match fs with
  | [FV d; FV dw; FV og; FQ ov; FQ inc; FQ dec; FQ dmax; FQ dmin; FN n; FV p; FQ x] =>
    Some (mkRprop d dw og ov inc dec dmax dmin n p x (rp_der fresh) (rp_frz fresh) (rp_bt fresh) (rp_ov fresh))
  | _ => None
  end.
