(* C03 — binarySubProblem on class-sorted batches returns exactly the elements of the two classes, in
   order, relabelled 0/1. *)
From Coq Require Import List Arith Lia Bool Permutation Sorted.
From SharkV Require Import ListAux C03Model C03Proofs C12Model C12Proofs C03Class C03ClassProofs.
Import ListNotations.

Definition has_key (c : nat) (b : list nat) : bool :=
  match first_label b with Some x => x =? c | None => false end.

(* the two loops of binarySubProblem: skip to the first batch of the class / collect its run *)
Lemma skip_until_spec lb c pos :
  exists pre rest, lb = pre ++ rest /\ skip_until lb c pos = (pos + length pre, rest) /\
    Forall (fun b => has_key c b = false) pre /\
    match rest with [] => True | b :: _ => has_key c b = true end.
Proof.
  revert pos; induction lb as [|b r IH]; intros pos; simpl.
  - exists [], []. simpl. rewrite Nat.add_0_r. auto.
  - fold (has_key c b). destruct (has_key c b) eqn:E.
    + exists [], (b :: r). simpl. rewrite Nat.add_0_r. auto.
    + destruct (IH (S pos)) as (pre & rest & -> & E2 & F & Hd).
      exists (b :: pre), rest. simpl. rewrite E2.
      replace (S pos + length pre) with (pos + S (length pre)) by lia. auto.
Qed.

Lemma take_while_spec lb c pos :
  exists run rest, lb = run ++ rest /\
    take_while lb c pos = (seq pos (length run), (pos + length run, rest)) /\
    Forall (fun b => has_key c b = true) run /\
    match rest with [] => True | b :: _ => has_key c b = false end.
Proof.
  revert pos; induction lb as [|b r IH]; intros pos; simpl.
  - exists [], []. simpl. rewrite Nat.add_0_r. auto.
  - fold (has_key c b). destruct (has_key c b) eqn:E.
    + destruct (IH (S pos)) as (run & rest & -> & E2 & F & Hd).
      exists (b :: run), rest. simpl. rewrite E2.
      replace (S pos + length run) with (pos + S (length run)) by lia. auto.
    + exists [], (b :: r). simpl. rewrite Nat.add_0_r. auto.
Qed.

Lemma binary_indices_comm lb a b : binary_indices lb a b = binary_indices lb b a.
Proof. unfold binary_indices. rewrite (Nat.min_comm a b), (Nat.max_comm a b). reflexivity. Qed.

(* ---------- keys of class-sorted batches ---------- *)
Definition key (b : list nat) : nat := hd 0 b.

Lemma one_class_key b c : one_class b -> has_key c b = (key b =? c).
Proof. intros [N _]. destruct b; [congruence|]. reflexivity. Qed.

Lemma one_class_all b : one_class b -> forall x, In x b -> x = key b.
Proof. intros [N H] x Hx. destruct b as [|y t]; [congruence|]. simpl. apply H; auto. left; auto. Qed.

Lemma one_class_key_in b : one_class b -> In (key b) b.
Proof. intros [N _]. destruct b; [congruence|]. left. auto. Qed.

Lemma keys_sorted lb : Forall one_class lb -> StronglySorted le (concat lb) -> StronglySorted le (map key lb).
Proof.
  induction lb as [|b r IH]; intros F S; simpl; [constructor|].
  inversion F as [|? ? Fb Fr]; subst. simpl in S. apply SS_app_inv in S. destruct S as (_ & Sr & Cross).
  constructor; auto. rewrite Forall_forall. intros y Hy. apply in_map_iff in Hy. destruct Hy as (b' & <- & Hb').
  apply Cross; [apply one_class_key_in; auto|].
  apply in_concat. exists b'. split; auto. apply one_class_key_in. rewrite Forall_forall in Fr. auto.
Qed.

Lemma filter_none {A} (f : A -> bool) l : Forall (fun x => f x = false) l -> filter f l = [].
Proof. induction 1 as [|x l H F IH]; simpl; auto. rewrite H. auto. Qed.

Lemma filter_every {A} (f : A -> bool) l : Forall (fun x => f x = true) l -> filter f l = l.
Proof. induction 1 as [|x l H F IH]; simpl; auto. rewrite H, IH. auto. Qed.

(* a sorted key list whose head differs from c and is at least c never shows c again *)
Lemma sorted_above ks c :
  StronglySorted le ks -> (forall k, In k ks -> c <= k) ->
  match ks with [] => True | k :: _ => k <> c end -> forall k, In k ks -> k <> c.
Proof.
  intros S Hge Hd k Hk. destruct ks as [|k0 t]; [destruct Hk|].
  inversion S as [|? ? _ F]; subst. rewrite Forall_forall in F.
  pose proof (Hge k0 (or_introl eq_refl)). destruct Hk as [<-|Hk]; auto.
  apply F in Hk. lia.
Qed.

Definition keep_label (zero one l : nat) : bool := (l =? zero) || (l =? one).
Definition keep_key (zero one : nat) (b : list nat) : bool := keep_label zero one (key b).

(* ---------- binary_indices on class-sorted batches (zero < one) ---------- *)
Lemma binary_indices_sorted_lt lb zero one :
  class_batched lb -> zero < one -> In zero (elems lb) -> In one (elems lb) ->
  exists pre run1 mid run2 post,
    lb = pre ++ run1 ++ mid ++ run2 ++ post /\
    binary_indices lb zero one =
      Some (seq (length pre) (length run1) ++ seq (length pre + length run1 + length mid) (length run2)) /\
    Forall (fun b => keep_key zero one b = false) pre /\ Forall (fun b => keep_key zero one b = true) run1 /\
    Forall (fun b => keep_key zero one b = false) mid /\ Forall (fun b => keep_key zero one b = true) run2 /\
    Forall (fun b => keep_key zero one b = false) post.
Proof.
  intros [Foc Ssorted] Hlt Hz Ho.
  pose proof (keys_sorted lb Foc Ssorted) as KS.
  assert (HK : forall c b, In b lb -> has_key c b = (key b =? c)).
  { intros c b Hb. apply one_class_key. rewrite Forall_forall in Foc. auto. }
  assert (Hex : forall c, In c (elems lb) -> exists b, In b lb /\ key b = c).
  { intros c Hc. apply in_concat in Hc. destruct Hc as (b & Hb & Hcb). exists b. split; auto.
    rewrite Forall_forall in Foc. symmetry. apply one_class_all; auto. }
  unfold binary_indices. rewrite Nat.min_l, Nat.max_r by lia.
  destruct (skip_until_spec lb zero 0) as (pre & r1 & E1 & S1 & F1 & H1). rewrite S1.
  destruct r1 as [|b1 r1'].
  { exfalso. destruct (Hex zero Hz) as (b & Hb & Kb). rewrite app_nil_r in E1. subst pre.
    rewrite Forall_forall in F1. specialize (F1 b Hb). rewrite HK in F1 by auto.
    apply Nat.eqb_neq in F1. auto. }
  destruct (take_while_spec (b1 :: r1') zero (0 + length pre)) as (run1 & r2 & E2 & T1 & F2 & H2). rewrite T1.
  destruct (skip_until_spec r2 one (0 + length pre + length run1)) as (mid & r3 & E3 & S3 & F3 & H3). rewrite S3.
  assert (Elb : lb = pre ++ run1 ++ mid ++ r3) by (rewrite E1, E2, E3; reflexivity).
  assert (Hin : forall b, In b pre \/ In b run1 \/ In b mid \/ In b r3 -> In b lb).
  { intros b Hb. rewrite Elb. rewrite !in_app_iff. tauto. }
  (* run1 is not empty *)
  assert (R1 : run1 <> []).
  { intros ->. simpl in E2. subst r2. simpl in H2. congruence. }
  (* keys: pre <= zero (before run1), r2 >= zero and hence > zero *)
  rewrite Elb in KS. rewrite !map_app in KS.
  apply SS_app_inv in KS. destruct KS as (_ & KS1 & C1).
  apply SS_app_inv in KS1. destruct KS1 as (_ & KS2 & C2).
  assert (Krun1 : forall b, In b run1 -> key b = zero).
  { intros b Hb. rewrite Forall_forall in F2. specialize (F2 b Hb). rewrite HK in F2 by auto.
    apply Nat.eqb_eq in F2. auto. }
  assert (Kpre : forall b, In b pre -> key b < zero).
  { intros b Hb. destruct run1 as [|bb rr]; [congruence|].
    assert (key b <= key bb).
    { apply C1; [apply in_map; auto|]. apply in_or_app. left. apply in_map. left. auto. }
    rewrite (Krun1 bb (or_introl eq_refl)) in H.
    rewrite Forall_forall in F1. specialize (F1 b Hb). rewrite HK in F1 by auto.
    apply Nat.eqb_neq in F1. lia. }
  assert (Kr2 : forall b, In b (mid ++ r3) -> zero < key b).
  { intros b Hb.
    assert (Hne : forall k, In k (map key (mid ++ r3)) -> k <> zero).
    { rewrite <- map_app in KS2, C2. apply sorted_above; auto.
      - intros k Hk. destruct run1 as [|bb rr]; [congruence|].
        rewrite <- (Krun1 bb (or_introl eq_refl)). apply C2; auto. apply in_map. left. auto.
      - rewrite <- E3. destruct r2 as [|b2 r2']; simpl; auto.
        rewrite HK in H2; [apply Nat.eqb_neq in H2; auto|].
        rewrite E1, E2. apply in_or_app. right. apply in_or_app. right. left. auto. }
    assert (zero <= key b).
    { destruct run1 as [|bb rr]; [congruence|].
      rewrite <- (Krun1 bb (or_introl eq_refl)). apply C2; [apply in_map; left; auto|].
      rewrite <- map_app. apply in_map. auto. }
    specialize (Hne (key b) (in_map key _ _ Hb)). lia. }
  destruct r3 as [|b3 r3'].
  { exfalso. destruct (Hex one Ho) as (b & Hb & Kb). rewrite Elb, app_nil_r in Hb.
    rewrite !in_app_iff in Hb. destruct Hb as [Hb|[Hb|Hb]].
    - apply Kpre in Hb. lia.
    - apply Krun1 in Hb. lia.
    - rewrite Forall_forall in F3. pose proof (F3 b Hb) as F3b. rewrite HK in F3b; [|apply Hin; tauto].
      apply Nat.eqb_neq in F3b. auto. }
  destruct (take_while_spec (b3 :: r3') one (0 + length pre + length run1 + length mid)) as (run2 & post & E4 & T2 & F4 & H4).
  rewrite T2.
  assert (R2 : run2 <> []).
  { intros ->. simpl in E4. subst post. simpl in H4. congruence. }
  rewrite E4 in *.
  assert (Krun2 : forall b, In b run2 -> key b = one).
  { intros b Hb. rewrite Forall_forall in F4. specialize (F4 b Hb). rewrite HK in F4.
    - apply Nat.eqb_eq in F4. auto.
    - apply Hin. right. right. right. apply in_or_app. auto. }
  rewrite map_app in KS2. apply SS_app_inv in KS2. destruct KS2 as (_ & KS3 & _).
  apply SS_app_inv in KS3. destruct KS3 as (_ & KS4 & C4).
  assert (Kpost : forall b, In b post -> one < key b).
  { intros b Hb.
    assert (Hge : forall k, In k (map key post) -> one <= k).
    { intros k Hk. destruct run2 as [|bb rr]; [congruence|].
      rewrite <- (Krun2 bb (or_introl eq_refl)). apply C4; auto. apply in_map. left. auto. }
    assert (Hne : forall k, In k (map key post) -> k <> one).
    { apply sorted_above; auto.
      destruct post as [|p0 post']; simpl; auto.
      rewrite HK in H4; [apply Nat.eqb_neq in H4; auto|].
      apply Hin. right. right. right. apply in_or_app. right. left. auto. }
    specialize (Hge _ (in_map key _ _ Hb)). specialize (Hne _ (in_map key _ _ Hb)). lia. }
  exists pre, run1, mid, run2, post. split; [exact Elb|]. split.
  { f_equal. }
  unfold keep_key, keep_label. repeat split.
  - rewrite Forall_forall. intros b Hb. apply Kpre in Hb.
    apply orb_false_intro; apply Nat.eqb_neq; lia.
  - rewrite Forall_forall. intros b Hb. rewrite (Krun1 b Hb), Nat.eqb_refl. reflexivity.
  - rewrite Forall_forall. intros b Hb.
    pose proof (Kr2 b ltac:(apply in_or_app; auto)).
    rewrite Forall_forall in F3. pose proof (F3 b Hb) as F3b. rewrite HK in F3b by (apply Hin; tauto).
    apply orb_false_intro; [apply Nat.eqb_neq; lia|exact F3b].
  - rewrite Forall_forall. intros b Hb. rewrite (Krun2 b Hb), Nat.eqb_refl. apply orb_true_r.
  - rewrite Forall_forall. intros b Hb. apply Kpost in Hb.
    apply orb_false_intro; apply Nat.eqb_neq; lia.
Qed.

(* either order of the two class arguments *)
Lemma binary_indices_sorted lb zero one :
  class_batched lb -> zero <> one -> In zero (elems lb) -> In one (elems lb) ->
  exists pre run1 mid run2 post,
    lb = pre ++ run1 ++ mid ++ run2 ++ post /\
    binary_indices lb zero one =
      Some (seq (length pre) (length run1) ++ seq (length pre + length run1 + length mid) (length run2)) /\
    Forall (fun b => keep_key zero one b = false) pre /\ Forall (fun b => keep_key zero one b = true) run1 /\
    Forall (fun b => keep_key zero one b = false) mid /\ Forall (fun b => keep_key zero one b = true) run2 /\
    Forall (fun b => keep_key zero one b = false) post.
Proof.
  intros CB Hne Hz Ho. destruct (Nat.lt_ge_cases zero one) as [H|H].
  - apply binary_indices_sorted_lt; auto.
  - destruct (binary_indices_sorted_lt lb one zero CB ltac:(lia) Ho Hz) as (pre & run1 & mid & run2 & post & E & B & F).
    exists pre, run1, mid, run2, post. split; auto. split; [rewrite binary_indices_comm; exact B|].
    assert (forall b, keep_key zero one b = keep_key one zero b) as Hc by (intros; apply orb_comm).
    destruct F as (F1 & F2 & F3 & F4 & F5).
    repeat split; (eapply Forall_impl; [|eassumption]); intros b; rewrite Hc; auto.
Qed.

(* ---------- from batch indices to batches and elements ---------- *)
Lemma map_nth_seq_mid {A} (a b c : list A) d :
  map (fun i => nth i (a ++ b ++ c) d) (seq (length a) (length b)) = b.
Proof.
  revert a; induction b as [|x b IH]; intros a; simpl; auto.
  rewrite nth_middle. f_equal.
  specialize (IH (a ++ [x])). rewrite app_length in IH. simpl in IH.
  rewrite Nat.add_1_r in IH. rewrite <- app_assoc in IH. exact IH.
Qed.

Lemma concat_filter_batches {A} (fb : list A -> bool) (fe : A -> bool) (z : list (list A)) :
  (forall b, In b z -> forall p, In p b -> fe p = fb b) ->
  concat (filter fb z) = filter fe (concat z).
Proof.
  induction z as [|b z IH]; intros H; simpl; auto.
  rewrite filter_app, <- IH by (intros; apply H; auto; right; auto).
  assert (Hb : forall p, In p b -> fe p = fb b) by (intros; apply H; auto; left; auto).
  destruct (fb b).
  - simpl. f_equal. symmetry. apply filter_every. rewrite Forall_forall. auto.
  - rewrite (filter_none fe b); auto. rewrite Forall_forall. auto.
Qed.

(* the batch-level selection: by the label of the first element of the batch *)
Definition keep_batch {I} (zero one : nat) (b : list (I * nat)) : bool := keep_key zero one (map snd b).

Lemma transform_comp {A B C} (f : A -> B) (g : B -> C) (d : @data A) :
  transform g (transform f d) = transform (fun x => g (f x)) d.
Proof. unfold transform. rewrite map_map. apply map_ext. intros b. apply map_map. Qed.

Theorem binary_sub_problem_spec {I} (z : @data (I * nat)) zero one :
  class_batched (labels (paired z)) -> zero <> one ->
  In zero (elems (labels (paired z))) -> In one (elems (labels (paired z))) ->
  exists z',
    binary_sub_problem zero one (paired z) =
      Some (mkL (transform fst z') (transform (fun p => binary_relabel one (snd p)) z')) /\
    z' = filter (keep_batch zero one) z /\
    elems z' = filter (fun p => keep_label zero one (snd p)) (elems z).
Proof.
  intros CB Hne Hz Ho. cbn [labels inputs paired] in *.
  destruct (binary_indices_sorted _ zero one CB Hne Hz Ho) as (pre & run1 & mid & run2 & post & E & B & P1 & P2 & P3 & P4 & P5).
  unfold binary_sub_problem. cbn [labels inputs paired]. rewrite B.
  set (ix := seq (length pre) (length run1) ++ seq (length pre + length run1 + length mid) (length run2)) in *.
  (* the same decomposition of the batches of pairs *)
  unfold transform in E.
  apply map_eq_app in E. destruct E as (zpre & z1 & Ez & Epre & E).
  apply map_eq_app in E. destruct E as (zrun1 & z2 & Ez1 & Erun1 & E).
  apply map_eq_app in E. destruct E as (zmid & z3 & Ez2 & Emid & E).
  apply map_eq_app in E. destruct E as (zrun2 & zpost & Ez3 & Erun2 & Epost).
  subst z1 z2 z3.
  assert (Lpre : length pre = length zpre) by (rewrite <- Epre, map_length; auto).
  assert (Lrun1 : length run1 = length zrun1) by (rewrite <- Erun1, map_length; auto).
  assert (Lmid : length mid = length zmid) by (rewrite <- Emid, map_length; auto).
  assert (Lrun2 : length run2 = length zrun2) by (rewrite <- Erun2, map_length; auto).
  assert (Hix : forallb (fun i => i <? length z) ix = true).
  { apply forallb_forall. intros i Hi. apply Nat.ltb_lt. unfold ix in Hi. rewrite Ez, !app_length.
    apply in_app_or in Hi. destruct Hi as [Hi|Hi]; apply in_seq in Hi; lia. }
  assert (Hsel : map (fun i => nth i z []) ix = zrun1 ++ zrun2).
  { unfold ix. rewrite map_app. f_equal.
    - rewrite Ez, Lpre, Lrun1. rewrite (app_assoc zmid). apply map_nth_seq_mid.
    - rewrite Lpre, Lrun1, Lmid, Lrun2.
      replace (length zpre + length zrun1 + length zmid) with (length (zpre ++ zrun1 ++ zmid))
        by (rewrite !app_length; lia).
      rewrite Ez. replace (zpre ++ zrun1 ++ zmid ++ zrun2 ++ zpost) with ((zpre ++ zrun1 ++ zmid) ++ zrun2 ++ zpost)
        by (rewrite <- !app_assoc; reflexivity).
      apply map_nth_seq_mid. }
  rewrite !indexed_subset_natural. unfold indexed_subset. rewrite Hix. cbn [omap]. rewrite Hsel.
  exists (zrun1 ++ zrun2).
  assert (T : forall zz ll v, map (map snd) zz = ll -> Forall (fun b => keep_key zero one b = v) ll ->
                Forall (fun b => @keep_batch I zero one b = v) zz).
  { intros zz ll v <- HF. rewrite Forall_map in HF. exact HF. }
  split; [|split].
  - rewrite transform_comp. reflexivity.
  - rewrite Ez, !filter_app.
    rewrite (filter_none _ zpre), (filter_every _ zrun1), (filter_none _ zmid), (filter_every _ zrun2), (filter_none _ zpost);
      eauto.
    rewrite app_nil_r. reflexivity.
  - assert (Hf : filter (keep_batch zero one) z = zrun1 ++ zrun2).
    { rewrite Ez, !filter_app.
      rewrite (filter_none _ zpre), (filter_every _ zrun1), (filter_none _ zmid), (filter_every _ zrun2), (filter_none _ zpost);
        eauto.
      rewrite app_nil_r. reflexivity. }
    rewrite <- Hf. unfold elems. apply concat_filter_batches.
    intros b Hb p Hp. unfold keep_batch, keep_key. f_equal.
    destruct CB as [Foc _]. unfold transform in Foc. rewrite Forall_map in Foc. rewrite Forall_forall in Foc.
    apply one_class_all; auto. apply in_map. auto.
Qed.

(* a class that does not occur: the SHARK_RUNTIME_CHECK fires (for every batch structure) *)
Lemma has_key_in c b : has_key c b = true -> In c b.
Proof. unfold has_key. destruct b as [|x t]; simpl; [discriminate|]. intros H. apply Nat.eqb_eq in H. auto. Qed.

Theorem binary_sub_problem_absent {I} (d : labeled I nat) zero one :
  ~ In zero (elems (labels d)) \/ ~ In one (elems (labels d)) -> binary_sub_problem zero one d = None.
Proof.
  intros H. unfold binary_sub_problem.
  assert (binary_indices (labels d) zero one = None) as ->; [|reflexivity].
  set (lb := labels d) in *.
  assert (Hboth : In (Nat.min zero one) (elems lb) -> In (Nat.max zero one) (elems lb) -> False).
  { intros A B. destruct (Nat.min_spec zero one) as [[_ E]|[_ E]]; rewrite E in A;
      destruct (Nat.max_spec zero one) as [[L E']|[L E']]; rewrite E' in B; try tauto;
      destruct H; auto; try (replace zero with one in * by lia; auto); try (replace one with zero in * by lia; auto). }
  assert (Hk : forall c (l1 l2 : list (list nat)) b, lb = l1 ++ b :: l2 -> has_key c b = true -> In c (elems lb)).
  { intros c l1 l2 b E K. apply in_concat. exists b. split; [rewrite E; apply in_or_app; right; left; auto|].
    apply has_key_in; auto. }
  unfold binary_indices.
  destruct (skip_until_spec lb (Nat.min zero one) 0) as (pre & r1 & E1 & S1 & F1 & H1). rewrite S1.
  destruct r1 as [|b1 r1']; [reflexivity|].
  destruct (take_while_spec (b1 :: r1') (Nat.min zero one) (0 + length pre)) as (run1 & r2 & E2 & T1 & F2 & H2). rewrite T1.
  destruct (skip_until_spec r2 (Nat.max zero one) (0 + length pre + length run1)) as (mid & r3 & E3 & S3 & F3 & H3). rewrite S3.
  destruct r3 as [|b3 r3']; [reflexivity|].
  exfalso. apply Hboth.
  - eapply Hk; [exact E1|exact H1].
  - apply (Hk _ (pre ++ run1 ++ mid) r3' b3); [|exact H3].
    rewrite E1, E2, E3. rewrite <- !app_assoc. reflexivity.
Qed.

(* identically batched containers are the two projections of one dataset of pairs *)
Lemma map_fst_combine' {X Y} (a : list X) (b : list Y) : length a = length b -> map fst (combine a b) = a.
Proof. revert b; induction a as [|x a IH]; intros [|y b] H; simpl in *; try discriminate; auto. f_equal. apply IH. lia. Qed.
Lemma map_snd_combine' {X Y} (a : list X) (b : list Y) : length a = length b -> map snd (combine a b) = b.
Proof. revert b; induction a as [|x a IH]; intros [|y b] H; simpl in *; try discriminate; auto. f_equal. apply IH. lia. Qed.

Theorem paired_exists {I L} (d : labeled I L) : sizes (inputs d) = sizes (labels d) -> exists z, d = paired z.
Proof.
  destruct d as [a b]. simpl. revert b; induction a as [|x a IH]; intros [|y b] H; simpl in H; try discriminate.
  - exists []. reflexivity.
  - injection H as H1 H2. destruct (IH b H2) as [z Ez]. exists (combine x y :: z).
    unfold paired in *. simpl. injection Ez as -> ->.
    rewrite map_fst_combine', map_snd_combine' by auto. reflexivity.
Qed.
