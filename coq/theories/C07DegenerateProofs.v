(* C07 — degenerate geometry: feasibility of the SMO step does not depend on the curvature.
   Proofs over the exact-rational instantiation (qops) of C07Degenerate.smo_pair / C08Model.svm_update.

   A. smo_new_is_smo_pair: the step of the solver model (C08Model.smo_new, tied to the real solver by
      tools/c08.py) is smo_pair with the as-coded clamp, for every arithmetic.
   B. smo_pair_feasible_every_curvature: with the as-coded clamp max(d, 1e-12) and g_i >= g_j the step
      keeps both variables in their boxes and preserves their sum for EVERY curvature d (negative, zero,
      positive), the step length is >= 0 and never overshoots (t * d <= g_i - g_j).
   C. svm_update_feasible_every_matrix: the same at state level for EVERY matrix K0 (no symmetry, no
      positive semidefiniteness): box, bound flags, sum(alpha), all other variables untouched.
   D. refutations (concrete numbers, computed): without the clamp, and with the clamp replaced by the
      test `d == 0` (seeded change C07-7), a negative curvature throws both variables out of their boxes;
      and the hypothesis g_i >= g_j of B is needed (a working pair with g_i < g_j leaves the box even
      with the clamp: the clipping only limits steps in the positive direction). *)
From Coq Require Import QArith Qminmax Lqa Arith Bool List Lia.
From SharkV Require Import C08Model C08Defs C08Aux C07Proofs C08Proofs C07Degenerate.
Open Scope Q_scope.

Lemma smo_new_is_smo_pair : forall (A : Type) (O : ops A) (K0 : nat -> nat -> A) (s : st A) (i j : nat),
  smo_new O K0 s i j =
  smo_pair O (clamp_coded O) (grad s i) (grad s j)
           (o_sub O (o_add O (diag K0 s i) (diag K0 s j)) (o_mul O (o_two O) (K K0 s i j)))
           (alpha s i) (alpha s j) (bmax s i) (bmin s j).
Proof. reflexivity. Qed.

Theorem smo_pair_feasible_every_curvature :
  forall gi gj d ai aj Li Ui Lj Uj : Q,
  Li <= ai -> ai <= Ui -> Lj <= aj -> aj <= Uj -> gj <= gi ->
  forall ai' aj' t, smo_pair qops (clamp_coded qops) gi gj d ai aj Ui Lj = (ai', aj', t) ->
  (Li <= ai' /\ ai' <= Ui) /\ (Lj <= aj' /\ aj' <= Uj) /\ ai' + aj' == ai + aj /\
  0 <= t /\ ai' == ai + t /\ aj' == aj - t /\ t * d <= gi - gj.
Proof.
  intros gi gj d ai aj Li Ui Lj Uj Bi1 Bi2 Bj1 Bj2 G ai' aj' t.
  unfold smo_pair, clamp_coded. qsimpl.
  set (num := gi - gj). assert (Hnum : 0 <= num) by (unfold num; lra).
  set (den := maxA qops d qthr).
  assert (Hden : 0 < den /\ d <= den).
  { unfold den, maxA. qsimpl. pose proof qthr_pos. qcase d qthr; lra. }
  destruct Hden as [Hd1 Hd2].
  set (step := num / den).
  assert (Hst : step * den == num) by (unfold step; field; lra).
  assert (Hst0 : 0 <= step) by (unfold step; apply Qle_shift_div_l; lra).
  assert (Hmono : forall x, 0 <= x -> x <= step -> x * d <= num).
  { intros x X0 X1. rewrite <- Hst. nra. }
  assert (Fin : forall x y z : Q, x == ai + z -> y == aj - z -> 0 <= z -> z <= step ->
            x <= Ui -> Lj <= y -> (x, y, z) = (ai', aj', t) ->
            (Li <= ai' /\ ai' <= Ui) /\ (Lj <= aj' /\ aj' <= Uj) /\ ai' + aj' == ai + aj /\
            0 <= t /\ ai' == ai + t /\ aj' == aj - t /\ t * d <= num).
  { intros x y z X1 X2 X3 X4 X5 X6 Q1. inversion Q1; subst x y z.
    pose proof (Hmono t X3 X4). repeat split; try assumption; lra. }
  unfold minA. qsimpl.
  qcase (aj - Lj) (Ui - ai); [qcase step (aj - Lj) | qcase step (Ui - ai)]; simpl.
  - apply Fin; lra.
  - apply Fin; lra.
  - apply Fin; lra.
  - qcase (Ui - ai) (aj - Lj); apply Fin; lra.
Qed.

Theorem svm_update_feasible_every_matrix :
  forall (n : nat) (K0 : nat -> nat -> Q) (s : qst) (i j : nat),
  (i < n)%nat -> (j < n)%nat -> i <> j ->
  Inv_box n s -> Inv_flags n s -> grad s j <= grad s i ->
  let s' := svm_update qops K0 s i j in
  Inv_box n s' /\ Inv_flags n s' /\ sumn n (alpha s') == sumn n (alpha s) /\
  (forall a, a <> i -> a <> j -> alpha s' a = alpha s a) /\ lo s' = lo s /\ hi s' = hi s.
Proof.
  intros n K0 s i j Hi Hj Hij B F G s'.
  destruct (svm_update_char n K0 s i j Hi Hj Hij B F G) as
    (t & T0 & _ & Hal & Hoth & _ & _ & _ & Elo & Ehi & _ & _ & _ & _ & F' & Bi & Bj).
  fold s' in Hal, Hoth, Elo, Ehi, F', Bi, Bj.
  split; [|split; [exact F'|split; [|split; [exact Hoth|split; assumption]]]].
  - intros a Ha. rewrite Elo, Ehi. destruct (B a Ha) as [B1 B2].
    destruct (Nat.eq_dec a i) as [->|Ni]; [|destruct (Nat.eq_dec a j) as [->|Nj]].
    + split; [|assumption]. rewrite Hal. unfold two_pt, delta. rewrite Nat.eqb_refl.
      destruct (Nat.eqb_spec i j); [congruence|]. lra.
    + split; [assumption|]. rewrite Hal. unfold two_pt, delta. rewrite Nat.eqb_refl.
      destruct (Nat.eqb_spec j i); [congruence|]. lra.
    + rewrite (Hoth a Ni Nj). auto.
  - rewrite (sumn_ext n (alpha s') (fun a => 1 * two_pt (alpha s) i j t (- t) a)) by (intros; rewrite Hal; ring).
    rewrite (sum_two_pt n (fun _ => 1) (alpha s) i j t (- t) Hi Hj).
    rewrite (sumn_ext n (fun a => 1 * alpha s a) (alpha s)) by (intros; ring). ring.
Qed.

(* ---- refutations: concrete numbers ---- *)

(* g_i = 1, g_j = 0, curvature -1e-6, both variables at 0 in the boxes [0,1] and [-1,0] (a positive and a
   negative example of a C-SVM with C = 1): the step is -1e6 *)
Theorem smo_pair_zero_test_instead_of_clamp_refuted :
  exists gi gj d ai aj Li Ui Lj Uj : Q,
  d < 0 /\ Li <= ai /\ ai <= Ui /\ Lj <= aj /\ aj <= Uj /\ gj <= gi /\
  let '(ai', aj', _) := smo_pair qops (clamp_zero_only qops) gi gj d ai aj Ui Lj in
  ai' < Li /\ Uj < aj'.
Proof.
  exists 1, 0, (- 1 # 1000000), 0, 0, 0, 1, (- 1 # 1), 0. vm_compute. repeat split; congruence.
Qed.

Theorem smo_pair_without_clamp_refuted :
  exists gi gj d ai aj Li Ui Lj Uj : Q,
  d < 0 /\ Li <= ai /\ ai <= Ui /\ Lj <= aj /\ aj <= Uj /\ gj <= gi /\
  let '(ai', aj', _) := smo_pair qops (no_clamp (A := Q)) gi gj d ai aj Ui Lj in
  ai' < Li /\ Uj < aj'.
Proof.
  exists 1, 0, (- 1 # 1000000), 0, 0, 0, 1, (- 1 # 1), 0. vm_compute. repeat split; congruence.
Qed.

(* the universal statement B with the clamp removed / replaced is false *)
Theorem smo_pair_feasible_without_clamp_refuted :
  ~ (forall gi gj d ai aj Li Ui Lj Uj : Q,
     Li <= ai -> ai <= Ui -> Lj <= aj -> aj <= Uj -> gj <= gi ->
     forall ai' aj' t, smo_pair qops (clamp_zero_only qops) gi gj d ai aj Ui Lj = (ai', aj', t) ->
     Li <= ai' /\ aj' <= Uj).
Proof.
  intros H.
  destruct (H 1 0 (- 1 # 1000000) 0 0 0 1 (- 1 # 1) 0) with (ai' := -1000000 # 1) (aj' := 1000000 # 1) (t := -1000000 # 1) as [X _];
    try (vm_compute; congruence); try reflexivity.
  vm_compute in X. congruence.
Qed.

(* the hypothesis g_i >= g_j is needed: with the clamp, curvature 1, g_i - g_j = -5 the step is -5 *)
Theorem smo_pair_needs_ordered_gradients_refuted :
  exists gi gj d ai aj Li Ui Lj Uj : Q,
  0 < d /\ Li <= ai /\ ai <= Ui /\ Lj <= aj /\ aj <= Uj /\ gi < gj /\
  let '(ai', aj', _) := smo_pair qops (clamp_coded qops) gi gj d ai aj Ui Lj in
  ai' < Li /\ Uj < aj'.
Proof.
  exists 0, 5, 1, 0, 0, 0, 1, (- 1 # 1), 0. vm_compute. repeat split; congruence.
Qed.
