(* C08 — the composite "unshrink; recompute the KKT bounds; shrink again" of BoxBasedShrinkingStrategy::shrink()
   (C08Reshrink.reshrink) only removes variables that cannot improve the objective at that moment; without the
   recomputation (reshrink_stale, seeded change C08-5) it removes variables that can.  Axiom-free.

   [row s a] is everything the solver stores about the variable at position a; the shrink loop moves whole rows
   (flipCoordinates), so "the variable removed at position p of the result" is identified with a position b of
   the un-shrunk state u by row equality (in particular perm s' p = perm u b: the same original index). *)
From Coq Require Import QArith Qminmax Lqa Arith Bool List Lia.
From SharkV Require Import C08Model C08Defs C08Aux C08Proofs C08ProofsShrink C08ProofsEdge C08ProofsFlip C08ProofsHist
  C08Reshrink.
Import ListNotations.
Open Scope Q_scope.

Definition row (s : qst) (a : nat) : nat * Q * Q * Q * Q * Q * Q * bool * bool :=
  (perm s a, alpha s a, grad s a, gedge s a, lin s a, lo s a, hi s a, fl s a, fu s a).

Lemma test_shrink_row kind (s s' : qst) a b lu sd :
  row s a = row s' b -> test_shrink qops kind s a lu sd = test_shrink qops kind s' b lu sd.
Proof.
  unfold row, test_shrink. intros E. injection E as E1 E2 E3 E4 E5 E6 E7 E8 E9.
  rewrite E3, E8, E9. reflexivity.
Qed.

Lemma flip_row (s f : qst) i j a : is_flip s f i j -> row f a = row s (sw i j a).
Proof.
  intros (A1 & A2 & A3 & A4 & A5 & A6 & A7 & A8 & A9 & _). unfold row.
  rewrite A1, A2, A3, A4, A5, A6, A7, A8, A9. reflexivity.
Qed.

Lemma shrink_one_row (s : qst) i a : row (shrink_one s i) a = row s (sw i (active s - 1) a).
Proof.
  unfold shrink_one. pose proof (flip_is_flip s i (active s - 1)) as FL.
  rewrite <- (flip_row s _ i (active s - 1) a FL). reflexivity.
Qed.

Section Reshrink.
Variable n : nat.
Variable K0 : nat -> nat -> Q.

(* ---------------- what the shrink loop removes ---------------- *)
Lemma shrink_loop_removed kind lu sd a : forall s : qst,
  (a <= active s)%nat -> (active s <= n)%nat ->
  let s' := shrink_loop qops kind lu sd a s in
  forall p, (active s' <= p < n)%nat ->
    (exists b, (active s <= b < n)%nat /\ row s' p = row s b) \/
    (exists b, (b < a)%nat /\ test_shrink qops kind s b lu sd = true /\ row s' p = row s b).
Proof.
  induction a as [|i IH]; intros s Ha Hn; cbn [shrink_loop]; cbv zeta.
  - intros p Hp. left. exists p. split; [exact Hp|reflexivity].
  - destruct (test_shrink qops kind s i lu sd) eqn:T.
    + fold (shrink_one s i). set (s1 := shrink_one s i).
      assert (A1 : active s1 = (active s - 1)%nat) by reflexivity.
      intros p Hp.
      destruct (IH s1 ltac:(rewrite A1; lia) ltac:(rewrite A1; lia) p Hp) as [(b & Hb & R)|(b & Hb & Tb & R)].
      * rewrite A1 in Hb. unfold s1 in R. rewrite shrink_one_row in R.
        destruct (Nat.eq_dec b (active s - 1)) as [->|Nb].
        -- rewrite sw_right in R. right. exists i. split; [lia|]. split; [exact T|exact R].
        -- rewrite sw_other in R by lia. left. exists b. split; [lia|exact R].
      * assert (Rb : row s1 b = row s b).
        { unfold s1. rewrite shrink_one_row. rewrite sw_other by lia. reflexivity. }
        right. exists b. split; [lia|]. split.
        -- rewrite <- (test_shrink_row kind s1 s b b lu sd Rb). exact Tb.
        -- rewrite R. exact Rb.
    + intros p Hp.
      destruct (IH s ltac:(lia) Hn p Hp) as [H|(b & Hb & Tb & R)]; [left; exact H|].
      right. exists b. split; [lia|]. split; assumption.
Qed.

(* ---------------- "cannot improve the objective at that moment" ----------------
   G is the gradient the statement is about (the maintained one, or the true one lin - K alpha).
   kind = true (equality constraint): the feasible directions containing b are e_b - e_d (b up, d down: d not at its lower
   bound) and e_d - e_b (b down, d up: d not at its upper bound); a variable at its lower bound can only move up, one at
   its upper bound only down.  kind = false: the directions +-e_b. *)
Definition cannot_improve_with (G : nat -> Q) (kind : bool) (u : qst) (b : nat) : Prop :=
  if kind then
    (fl u b = true /\ forall d, (d < n)%nat -> fl u d = false -> G b - G d < 0) \/
    (fu u b = true /\ forall d, (d < n)%nat -> fu u d = false -> G d - G b < 0)
  else (fl u b = true /\ G b < 0) \/ (fu u b = true /\ 0 < G b).

Definition true_grad (u : qst) (a : nat) : Q := lin u a - Kalpha n K0 u a.

Lemma test_shrink_cannot_improve kind (u : qst) b :
  test_shrink qops kind u b (largest_up qops u n) (smallest_down qops u n) = true ->
  cannot_improve_with (grad u) kind u b.
Proof.
  intros T. destruct kind; cbn [cannot_improve_with].
  - exact (shrink_sound_svm u n b T).
  - exact (shrink_sound_box u b _ _ T).
Qed.

Lemma cannot_improve_true kind (u : qst) b : (b < n)%nat -> Inv_grad_all n K0 u ->
  cannot_improve_with (grad u) kind u b -> cannot_improve_with (true_grad u) kind u b.
Proof.
  intros Hb GA. unfold true_grad. destruct kind; cbn [cannot_improve_with].
  - intros [[F H]|[F H]]; [left|right]; (split; [exact F|]); intros d Hd Fd;
      specialize (H d Hd Fd); rewrite <- (GA b Hb), <- (GA d Hd); exact H.
  - intros [[F H]|[F H]]; [left|right]; (split; [exact F|]); rewrite <- (GA b Hb); exact H.
Qed.

Hypothesis Hsym : Ksym K0.

(* shrink() takes the composite exactly when reshrink_due holds *)
Lemma shrink_is_reshrink kind eps (s : qst) :
  shrink qops n K0 kind true eps s =
  if reshrink_due qops eps s then reshrink qops n K0 kind s
  else shrink_loop qops kind (largest_up qops s (active s)) (smallest_down qops s (active s)) (active s) s.
Proof. reflexivity. Qed.

(* ---- the as-coded composite: every removed variable cannot improve the objective in the state AFTER the unshrink,
        with the maintained gradient (which is what the code tests) and with the true gradient lin - K alpha ---- *)
Theorem reshrink_sound kind (s : qst) : Inv_core n K0 true s ->
  let u := unshrink qops n K0 s in
  let s' := reshrink qops n K0 kind s in
  Inv_core n K0 true u /\ Inv_grad_all n K0 u /\ active u = n /\
  Inv_core n K0 true s' /\ same_vars n K0 s s' /\
  forall p, (active s' <= p < n)%nat ->
    exists b, (b < n)%nat /\ row s' p = row u b /\
              cannot_improve_with (grad u) kind u b /\ cannot_improve_with (true_grad u) kind u b.
Proof.
  intros I u s'.
  destruct (unshrink_preserves n K0 Hsym s I) as (Iu & GA & Vu & Au & _). fold u in Iu, GA, Vu, Au.
  destruct (shrink_loop_preserves n K0 kind (largest_up qops u n) (smallest_down qops u n) (active u) u (le_n _) Iu)
    as (I2 & V2 & _).
  split; [exact Iu|]. split; [exact GA|]. split; [exact Au|].
  split; [exact I2|]. split; [eapply same_vars_trans; eassumption|].
  intros p Hp.
  destruct (shrink_loop_removed kind (largest_up qops u n) (smallest_down qops u n) (active u) u (le_n _)
              ltac:(rewrite Au; lia) p Hp) as [(b & Hb & R)|(b & Hb & Tb & R)].
  - rewrite Au in Hb. lia.
  - rewrite Au in Hb. exists b. split; [exact Hb|]. split; [exact R|].
    pose proof (test_shrink_cannot_improve kind u b Tb) as C. split; [exact C|].
    apply cannot_improve_true; assumption.
Qed.

(* the same through shrink(): whenever the un-shrink branch is due *)
Corollary shrink_reshrink_sound kind eps (s : qst) : Inv_core n K0 true s -> reshrink_due qops eps s = true ->
  let u := unshrink qops n K0 s in
  let s' := shrink qops n K0 kind true eps s in
  forall p, (active s' <= p < n)%nat ->
    exists b, (b < n)%nat /\ row s' p = row u b /\ cannot_improve_with (true_grad u) kind u b.
Proof.
  intros I D u s' p Hp. unfold s' in *. rewrite shrink_is_reshrink, D in *.
  destruct (reshrink_sound kind s I) as (_ & _ & _ & _ & _ & H).
  destruct (H p Hp) as (b & Hb & R & _ & C). exists b. auto.
Qed.

(* ---- objective level (equality-constrained problem): a removed variable at its lower bound paired with ANY variable d
        that can move down, any step length t >= 0 along e_b - e_d: the dual objective does not increase, provided the
        curvature along the pair is non-negative (K positive semi-definite) ---- *)
Lemma pair_step_no_gain (u : qst) b d t : (b < n)%nat -> (d < n)%nat -> 0 <= t ->
  0 <= Kq K0 u b b + Kq K0 u d d - 2 * Kq K0 u b d ->
  true_grad u b - true_grad u d <= 0 ->
  objf n (Kq K0 u) (lin u) (two_pt (alpha u) b d t (- t)) <= objf n (Kq K0 u) (lin u) (alpha u).
Proof.
  intros Hb Hd Ht Hc Hg.
  pose proof (objf_two_pt n (Kq K0 u) (Kq_sym K0 Hsym u) (lin u) (alpha u) b d t (- t) Hb Hd) as E.
  unfold true_grad, Kalpha in Hg. unfold Kv in E.
  set (gb := lin u b - sumn n (fun b0 => Kq K0 u b b0 * alpha u b0)) in *.
  set (gd := lin u d - sumn n (fun b0 => Kq K0 u d b0 * alpha u b0)) in *.
  set (c := Kq K0 u b b + Kq K0 u d d - 2 * Kq K0 u b d) in *.
  assert (E2 : objf n (Kq K0 u) (lin u) (two_pt (alpha u) b d t (- t)) - objf n (Kq K0 u) (lin u) (alpha u)
               == t * (gb - gd) - (1 # 2) * (t * t) * c).
  { rewrite E. unfold c. ring. }
  assert (0 <= t * t * c) by (apply Qmult_le_0_compat; [apply Qmult_le_0_compat; assumption|assumption]).
  assert (t * (gb - gd) <= 0).
  { setoid_replace (t * (gb - gd)) with (- (t * (gd - gb))) by ring.
    assert (0 <= t * (gd - gb)) by (apply Qmult_le_0_compat; [assumption|lra]). lra. }
  lra.
Qed.

End Reshrink.

(* ---------------- the composite WITHOUT the recomputation removes a variable that can improve ----------------
   three variables, K = identity, boxes [0,1]; variable 0 free (alpha 1/2), variable 1 at its lower bound (alpha 0),
   variable 2 SHRUNK at its upper bound (alpha 1) and by now a violator: true gradients (3/2, 1, 0).
   On the active set {0,1}: largestUp = smallestDown = 3/2, so shrink() un-shrinks (accuracy 0 < 10 eps).
   With the stale bounds the loop removes variable 1 (g = 1 < 3/2) although e_1 - e_2 is feasible (1 can move up, 2 down)
   with directional derivative g_1 - g_2 = 1 > 0, and a step along it raises the objective by 1/4 (t = 1/2).
   With the recomputed bounds (smallestDown = 0) variable 1 stays active. *)
Definition rs_K0 (p q : nat) : Q := if (p =? q)%nat then 1 else 0.
Definition rs_s : qst :=
  mk (nth3 (1 # 2) 0 1) (nth3 (3 # 2) 1 7) (nth3 2 1 0) (nth3 2 1 1)
     (nth3 0 0 0) (nth3 1 1 1) (fun a => a)
     (fun a => match a with S O => true | _ => false end) (fun a => match a with S (S _) => true | _ => false end)
     2 false.

Lemma rs_core : Inv_core 3 rs_K0 true rs_s.
Proof.
  unfold Inv_core. splits.
  - intros a Ha. cbn in Ha. assert (a = 0 \/ a = 1)%nat as [->| ->] by lia; vm_compute; reflexivity.
  - intros a Ha. three a Ha; split; vm_compute; discriminate.
  - intros a Ha. three a Ha; split; vm_compute; reflexivity.
  - split; [cbn; lia|]. intros a Ha. cbn in Ha. assert (a = 2)%nat as -> by lia. reflexivity.
  - intros a Ha. three a Ha; vm_compute; reflexivity.
Qed.

Theorem reshrink_stale_refuted :
  exists (n : nat) (K0 : nat -> nat -> Q) (s : qst) (eps : Q),
    Ksym K0 /\ (forall p q, 0 <= K0 p p + K0 q q - 2 * K0 p q) /\
    Inv_full n K0 true (lin s) (lo s) (hi s) s /\ reshrink_due qops eps s = true /\
    let u := unshrink qops n K0 s in
    let bad := reshrink_stale qops n K0 true s in
    let good := reshrink qops n K0 true s in
    exists p b d, (active bad <= p < n)%nat /\ (b < n)%nat /\ (d < n)%nat /\ row bad p = row u b /\
      (* b sits at its lower bound and can move up, d can move down, and the direction e_b - e_d is an ascent direction *)
      fl u b = true /\ fu u b = false /\ fl u d = false /\
      0 < true_grad n K0 u b - true_grad n K0 u d /\
      obj n K0 u < objf n (Kq K0 u) (lin u) (two_pt (alpha u) b d (1 # 2) (- (1 # 2))) /\
      (forall a, (a < n)%nat -> lo u a <= two_pt (alpha u) b d (1 # 2) (- (1 # 2)) a <= hi u a) /\
      (* the as-coded composite keeps that variable active *)
      (exists q, (q < active good)%nat /\ perm good q = perm u b).
Proof.
  exists 3%nat, rs_K0, rs_s, (1 # 1000).
  split; [intros p q; unfold rs_K0; rewrite (Nat.eqb_sym q p); reflexivity|].
  split.
  { intros p q. unfold rs_K0. rewrite !Nat.eqb_refl. destruct (p =? q)%nat; vm_compute; discriminate. }
  split.
  { split; [exact rs_core|]. split; [split|].
    - intros a Ha. three a Ha; vm_compute; lia.
    - intros a b Ha Hb E. exact E.
    - intros a Ha. splits; reflexivity. }
  split; [vm_compute; reflexivity|].
  cbv zeta. exists 2%nat, 1%nat, 2%nat.
  split; [vm_compute; lia|]. split; [lia|]. split; [lia|].
  split; [vm_compute; reflexivity|].
  split; [reflexivity|]. split; [reflexivity|]. split; [reflexivity|].
  split; [vm_compute; reflexivity|].
  split; [vm_compute; reflexivity|].
  split.
  { intros a Ha. three a Ha; split; vm_compute; discriminate. }
  exists 1%nat. split; vm_compute; [lia|reflexivity].
Qed.

Print Assumptions shrink_loop_removed.
Print Assumptions reshrink_sound.
Print Assumptions shrink_reshrink_sound.
Print Assumptions pair_step_no_gain.
Print Assumptions reshrink_stale_refuted.
