(* C04 — executable model of ConcatenatedModel over ARBITRARY layers with optimisation flags (definitions only), as coded.
   Anchor: include/shark/Models/ConcatenatedModel.h (add / enableModelOptimization, parameterVector, setParameterVector,
   numberOfParameters, eval with state, weightedParameterDerivative, weightedInputDerivative, weightedDerivatives).
   A layer is given by the functions ConcatenatedModel calls through AbstractModel's interface, as functions of the layer's
   own parameter vector (`lkind`), its current parameters and its optimize flag.  Frozen layers (optimize = false) keep their
   parameters: the parameter vector of the concatenation skips them and the derivative has no block for them. *)
From Coq Require Import List Arith Bool.
From SharkV Require Import C04Model C04Conv C04Pool C04Misc.
Import ListNotations.
Set Implicit Arguments.

Section Het.
Variable A : Type.

Record lkind := {
  k_np : nat;                                                            (* numberOfParameters() *)
  k_nin : nat; k_nout : nat;                                             (* inputShape / outputShape numElements *)
  k_hp : bool; k_hi : bool;                                              (* hasFirstParameterDerivative / hasFirstInputDerivative *)
  k_get : list A -> list A;                                              (* parameterVector() after setParameterVector(p) *)
  k_eval : list A -> list (list A) -> list (list A);                     (* eval(batch, outputs, state) *)
  k_wpd : list A -> list (list A) -> list (list A) -> list A;            (* weightedParameterDerivative(inputs, .., coefficients, ..) *)
  k_wid : list A -> list (list A) -> list (list A) -> list (list A);     (* weightedInputDerivative *)
  k_wd : list A -> list (list A) -> list (list A) -> list A * list (list A)   (* weightedDerivatives *)
}.
Record hlayer := { h_opt : bool; h_kind : lkind; h_par : list A }.
Definition hnet := list hlayer.

Definition h_eval (l : hlayer) (X : list (list A)) : list (list A) := k_eval (h_kind l) (h_par l) X.
(* the branch `!m_layers[i].optimize || m_layers[i].model->numberOfParameters() == 0` *)
Definition h_skip (l : hlayer) : bool := negb (h_opt l) || (k_np (h_kind l) =? 0).

(* numberOfParameters / parameterVector / setParameterVector: only layers with optimize = true *)
Fixpoint hnet_np (N : hnet) : nat :=
  match N with [] => 0 | l :: N' => (if h_opt l then k_np (h_kind l) else 0) + hnet_np N' end.
Fixpoint hnet_params (N : hnet) : list A :=
  match N with [] => [] | l :: N' => (if h_opt l then k_get (h_kind l) (h_par l) else []) ++ hnet_params N' end.
Fixpoint hnet_set (N : hnet) (t : list A) : hnet :=
  match N with
  | [] => []
  | l :: N' =>
      if h_opt l
      then {| h_opt := true; h_kind := h_kind l; h_par := firstn (k_np (h_kind l)) t |} :: hnet_set N' (skipn (k_np (h_kind l)) t)
      else l :: hnet_set N' t
  end.

(* enableModelOptimization: backwards through the layers *)
Definition hnet_features (N : hnet) : bool * bool :=       (* (parameter derivative, input derivative) *)
  fold_right (fun l (st : bool * bool) =>
                let (pD, iD) := st in
                ((if h_opt l && (negb (k_hp (h_kind l)) || negb iD) then false else pD),
                 (if k_hi (h_kind l) then iD else false)))
             (true, true) N.

(* eval: every layer on the stored response of the one before *)
Fixpoint hnet_eval (N : hnet) (X : list (list A)) : list (list A) :=
  match N with [] => X | l :: N' => hnet_eval N' (h_eval l X) end.
(* AbstractModel::eval(InputType const&, OutputType&): a batch of one *)
Definition hnet_eval1 (N : hnet) (x : list A) : list A := nth 0 (hnet_eval N [x]) [].

(* weightedInputDerivative: the chain rule through all layers *)
Fixpoint hnet_wid (N : hnet) (X C : list (list A)) : list (list A) :=
  match N with
  | [] => C
  | l :: N' => k_wid (h_kind l) (h_par l) X (hnet_wid N' (h_eval l X) C)
  end.

(* weightedDerivatives: frozen / parameter-free layers only pass the coefficients on, the others call weightedDerivatives
   of the layer; gradient blocks in layer order (the code fills the gradient from the back) *)
Fixpoint hnet_wd (N : hnet) (X C : list (list A)) : list A * list (list A) :=
  match N with
  | [] => ([], C)
  | l :: N' =>
      let '(g, CY) := hnet_wd N' (h_eval l X) C in
      if h_skip l then (g, k_wid (h_kind l) (h_par l) X CY)
      else let '(pd, id) := k_wd (h_kind l) (h_par l) X CY in (pd ++ g, id)
  end.

(* weightedParameterDerivative: as weightedDerivatives, but the first layer (i = 0) does not compute an input derivative:
   a skipped first layer does nothing, an optimised first layer calls weightedParameterDerivative *)
Fixpoint hnet_wpd_from (first : bool) (N : hnet) (X C : list (list A)) : list A * list (list A) :=
  match N with
  | [] => ([], C)
  | l :: N' =>
      let '(g, CY) := hnet_wpd_from false N' (h_eval l X) C in
      if h_skip l then (g, if first then CY else k_wid (h_kind l) (h_par l) X CY)
      else if first then (k_wpd (h_kind l) (h_par l) X CY ++ g, CY)
      else let '(pd, id) := k_wd (h_kind l) (h_par l) X CY in (pd ++ g, id)
  end.
Definition hnet_wpd (N : hnet) (X C : list (list A)) : list A := fst (hnet_wpd_from true N X C).

End Het.

(* ---------- the layer kinds that can be put into a concatenation (NeuronLayer is modelled here) ---------- *)
Section Kinds.
Variable A : Type.
Variables (zero : A) (add mul : A -> A -> A).

(* NeuronLayer<Neuron>: eval = evalInPlace, weightedInputDerivative = coefficients; multiplyDerivative(outputs, ., state);
   no parameters (weightedParameterDerivative leaves the gradient alone) *)
Definition neu_eval (a : act A) (X : list (list A)) : list (list A) := map (aphi a) X.
Definition neu_eval1 (a : act A) (x : list A) : list A := aphi a x.
Definition neu_wid (a : act A) (X C : list (list A)) : list (list A) := map2 (fun x c => amul a x (aphi a x) c) X C.

Definition lin_kind (nin nout : nat) (off : bool) (a : act A) : lkind A :=
  {| k_np := lin_nparams nin nout off; k_nin := nin; k_nout := nout; k_hp := true; k_hi := true; k_get := fun p => p;
     k_eval := fun p X => lin_eval_batch zero add mul (lin_set nin nout off a p) X;
     k_wpd := fun p X C => lin_wpd zero add mul nin nout (lin_set nin nout off a p) X C;
     k_wid := fun p X C => lin_wid zero add mul nin (lin_set nin nout off a p) X C;
     k_wd := fun p X C => lin_wd zero add mul nin nout (lin_set nin nout off a p) X C |}.
Definition neu_kind (n : nat) (a : act A) : lkind A :=
  {| k_np := 0; k_nin := n; k_nout := n; k_hp := true; k_hi := true; k_get := fun p => p;
     k_eval := fun _ X => neu_eval a X;
     k_wpd := fun _ _ _ => [];
     k_wid := fun _ X C => neu_wid a X C;
     k_wd := fun _ X C => ([], neu_wid a X C) |}.
Definition conv_kind (g : cgeo) (a : act A) : lkind A :=
  {| k_np := conv_nparams g; k_nin := conv_nin g; k_nout := conv_nout g; k_hp := true; k_hi := true; k_get := fun p => p;
     k_eval := fun p X => conv_eval_batch zero add mul (conv_set zero g a p) X;
     k_wpd := fun p X C => conv_wpd zero add mul (conv_set zero g a p) X C;
     k_wid := fun p X C => conv_wid zero add mul (conv_set zero g a p) X C;
     k_wd := fun p X C => conv_wd zero add mul (conv_set zero g a p) X C |}.
Definition pool_kind (ltb : A -> A -> bool) (g : pgeo) : lkind A :=
  {| k_np := 0; k_nin := pool_nin g; k_nout := pool_nout g; k_hp := true; k_hi := true; k_get := fun p => p;
     k_eval := fun _ X => pool_eval_batch zero ltb g X;
     k_wpd := fun _ _ _ => [];
     k_wid := fun _ X C => pool_wid zero add ltb g X C;
     k_wd := fun _ X C => ([], pool_wid zero add ltb g X C) |}.
Definition resize_kind (rsub rdiv : A -> A -> A) (ropp : A -> A) (ofnat : nat -> A) (floorn : A -> nat) (g : rgeo) : lkind A :=
  {| k_np := 0; k_nin := resize_nin g; k_nout := resize_nout g; k_hp := true; k_hi := true; k_get := fun p => p;
     k_eval := fun _ X => resize_eval_batch zero add mul rsub rdiv ropp ofnat floorn g X;
     k_wpd := fun _ _ _ => [];
     k_wid := fun _ _ C => resize_wid zero add mul rsub rdiv ropp ofnat floorn g C;
     k_wd := fun _ _ C => ([], resize_wid zero add mul rsub rdiv ropp ofnat floorn g C) |}.
(* Normalizer: no derivatives *)
Definition norm_kind (n : nat) (off : bool) : lkind A :=
  {| k_np := n + (if off then n else 0); k_nin := n; k_nout := n; k_hp := false; k_hi := false; k_get := fun p => p;
     k_eval := fun p X => let '(dg, b) := norm_set n off p in norm_eval_batch add mul dg b X;
     k_wpd := fun _ _ _ => [];
     k_wid := fun _ _ C => C;
     k_wd := fun _ _ C => ([], C) |}.
(* RBFLayer (parameter derivative only); m0 carries the structure, the training flags and the untrained part of the parameters *)
Definition rbf_kind (sub : A -> A -> A) (opp : A -> A) (expA logA : A -> A) (ofnat : nat -> A) (half logPi : A) (m0 : rbf A) : lkind A :=
  {| k_np := rbf_nparams m0; k_nin := r_nin m0; k_nout := r_nout m0; k_hp := true; k_hi := false;
     k_get := fun p => rbf_params logA (rbf_set mul sub expA logA ofnat half logPi m0 p);
     k_eval := fun p X => rbf_eval_batch zero add mul sub opp expA (rbf_set mul sub expA logA ofnat half logPi m0 p) X;
     k_wpd := fun p X C => rbf_wpd zero add mul sub opp expA ofnat half (rbf_set mul sub expA logA ofnat half logPi m0 p) X C;
     k_wid := fun _ _ C => C;
     k_wd := fun p X C => (rbf_wpd zero add mul sub opp expA ofnat half (rbf_set mul sub expA logA ofnat half logPi m0 p) X C, C) |}.
End Kinds.
