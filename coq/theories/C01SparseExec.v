(* C01 — statement level on top of the sparse storage / kernel models: the operator forms of assignment.hpp
   (plain forms build a temporary of the TARGET's storage kind, noalias forms call the kernels directly,
   `-=` is `+=` of (-1)*e), the functor table used by the harness, and a small command interpreter that the
   extracted driver runs next to harness/c01_sparse.cpp.  Definitions only. *)
From Coq Require Import ZArith List Bool Arith Lia.
From SharkV Require Import ListAux C01SparseModel C01SparseMatModel C01SparseExpr C01BlockModel.
Import ListNotations.
Open Scope Z_scope.

(* ---------- functors ---------- *)
Inductive sfun :=
| SFAdd | SFSub | SFMul            (* device_traits<cpu_tag>::add / subtract / multiply *)
| SFMad (c : Z)                    (* multiply_and_add(c): x + c*y, declares right_zero_identity *)
| SFSqp1                           (* harness functor x + y*y + 1: f(0,0) = 1, no right_zero_identity *)
| SFRsub.                          (* harness functor y - x: f(x,0) = -x, f(0,0) = 0, no right_zero_identity *)

Definition sf_app (f : sfun) (x y : Z) : Z :=
  match f with
  | SFAdd => x + y | SFSub => x - y | SFMul => x * y
  | SFMad c => x + c * y | SFSqp1 => x + y * y + 1 | SFRsub => y - x
  end.
Definition sf_rzi (f : sfun) : bool :=
  match f with SFAdd | SFSub | SFMad _ => true | _ => false end.

Inductive sop := SSet | SAdd | SSub | SMul.

(* ---------- vectors ---------- *)
Inductive vcont := VS (v : svec) | VD (d : dvec).

Fixpoint map2 (f : Z -> Z -> Z) (a b : list Z) : list Z :=
  match a, b with
  | x :: a', y :: b' => f x y :: map2 f a' b'
  | _, _ => a
  end.

(* kernels::assign(t, s) and kernels::assign(t, s, F) dispatched on the storage tags *)
Definition kv_assign (t s : vcont) : vcont :=
  match t, s with
  | VS v, VS e => VS (k_assign_ss v e)
  | VS v, VD e => VS (k_assign_sd v e)
  | VD d, VS e => VD (k_assign_ds d e)
  | VD d, VD e => VD (map2 (fun _ y => y) d e)
  end.
Definition kv_fun (fx : bool) (f : Z -> Z -> Z) (rzi : bool) (t s : vcont) : vcont :=
  match t, s with
  | VS v, VS e => VS (k_fun_ss fx f v e)
  | VS v, VD e => VS (k_fun_sd fx f v e)
  | VD d, VS e => VD (k_fun_ds f rzi d e)
  | VD d, VD e => VD (map2 f d e)
  end.

(* (-1)*e as the kernels see it: same stored indices, negated values *)
Definition v_neg (s : vcont) : vcont :=
  match s with VS e => VS (k_apply_s Z.opp e) | VD d => VD (map Z.opp d) end.
(* typename vector_temporary<VecX>::type temporary(v): a fresh container of the target's kind *)
Definition v_fresh (t : vcont) : vcont :=
  match t with VS v => VS (sv_empty (sv_size v)) | VD d => VD (repeat 0 (length d)) end.

Definition v_compound (fx : bool) (o : sop) (t s : vcont) : vcont :=
  match o with
  | SSet => kv_assign t s
  | SAdd => kv_fun fx (sf_app SFAdd) true t s
  | SSub => kv_fun fx (sf_app SFAdd) true t (v_neg s)        (* minus_assign: plus_assign of (-1)*v *)
  | SMul => kv_fun fx (sf_app SFMul) false t s
  end.

Definition v_op (fx : bool) (noalias : bool) (o : sop) (t s : vcont) : vcont :=
  if noalias then v_compound fx o t s
  else match o with
       | SSet => match t, s with
                 | VS _, VS e => VS e                  (* defaulted copy assignment of compressed_vector *)
                 | _, _ => kv_assign t s               (* container assignment: resize (same size) + assign *)
                 end
       | _ => v_compound fx o t (kv_assign (v_fresh t) s)
       end.

(* x op= scalar: only the stored elements of a sparse target are touched *)
Definition v_scal (o : sop) (t : vcont) (c : Z) : vcont :=
  let g := match o with SSet => fun _ => c | SAdd => fun x => x + c | SSub => fun x => x - c | SMul => fun x => x * c end in
  match t with VS v => VS (k_apply_s g v) | VD d => VD (map g d) end.

(* ---------- matrices ---------- *)
(* rm = row_major; the lines of the model are major lines in both cases *)
Inductive mcont := MS (rm : bool) (m : smat) | MD (rm : bool) (d : dmat).

Definition m_rm (c : mcont) : bool := match c with MS rm _ => rm | MD rm _ => rm end.

Definition km_assign (t s : mcont) : mcont :=
  match t, s with
  | MS rt m, MS rs e => MS rt (if Bool.eqb rt rs then km_assign_same m e else km_assign_cross m e)
  | MD rt d, MS rs e => MD rt (if Bool.eqb rt rs then km_assign_ds_same d e else km_assign_ds_cross d e)
  | _, _ => t        (* sparse <- dense does not exist in matrix_assign.hpp; dense <- dense is C01Model's business *)
  end.
Definition km_fun (f : Z -> Z -> Z) (rzi : bool) (t s : mcont) : mcont :=
  match t, s with
  | MS rt m, MS rs e => MS rt (if Bool.eqb rt rs then km_fun_same f m e else km_fun_cross f m e)
  | MD rt d, MS rs e => MD rt (if Bool.eqb rt rs then km_fun_ds_same f rzi d e else km_fun_ds_cross f rzi d e)
  | _, _ => t
  end.

Definition m_neg (s : mcont) : mcont :=
  match s with MS rm e => MS rm (km_apply Z.opp e) | MD rm d => MD rm (map (map Z.opp) d) end.
(* matrix_temporary<MatA>::type temporary(B): fresh matrix with the target's kind and orientation *)
Definition m_fresh (t : mcont) : mcont :=
  match t with
  | MS rm m => MS rm (sm_empty (sm_major m) (sm_minor m))
  | MD rm d => MD rm (map (fun r => repeat 0 (length r)) d)
  end.

Definition m_compound (o : sop) (t s : mcont) : mcont :=
  match o with
  | SSet => km_assign t s
  | SAdd => km_fun (sf_app SFAdd) true t s
  | SSub => km_fun (sf_app SFAdd) true t (m_neg s)
  | SMul => km_fun (sf_app SFMul) false t s
  end.

(* plain compound forms of a dense target: the temporary is dense, the second step is a dense-dense kernel *)
Fixpoint dm_map2 (f : Z -> Z -> Z) (a b : dmat) : dmat :=
  match a, b with
  | x :: a', y :: b' => map2 f x y :: dm_map2 f a' b'
  | _, _ => a
  end.

Definition m_op (noalias : bool) (o : sop) (t s : mcont) : mcont :=
  if noalias then m_compound o t s
  else match o, t with
       | SSet, MS rt _ => match s with
                          | MS rs e => if Bool.eqb rt rs then MS rt e         (* defaulted copy assignment *)
                                       else km_assign (m_fresh t) s           (* temporary(m); m_impl = move(temporary) *)
                          | _ => t
                          end
       | SSet, MD _ _ => km_assign t s
       | _, MS _ _ => m_compound o t (km_assign (m_fresh t) s)
       | _, MD rt d =>
           match km_assign (m_fresh t) s with
           | MD _ tmp =>
               MD rt (match o with
                      | SAdd => dm_map2 Z.add d tmp
                      | SSub => dm_map2 (fun x y => x + (-1) * y) d tmp
                      | SMul => dm_map2 Z.mul d tmp
                      | SSet => tmp
                      end)
           | _ => t
           end
       end.

Definition m_scal (o : sop) (t : mcont) (c : Z) : mcont :=
  let g := match o with SSet => fun _ => c | SAdd => fun x => x + c | SSub => fun x => x - c | SMul => fun x => x * c end in
  match t with MS rm m => MS rm (km_apply g m) | MD rm d => MD rm (map (map g) d) end.

(* ---------- command interpreter ---------- *)
Inductive scmd :=
| CReset
| CNewSV (id n : nat) | CNewDV (id n : nat)
| CPut (id i : nat) (x : Z)                   (* sparse: lower_bound + set_element; dense: v(i) = x *)
| CSetEl (id pos i : nat) (x : Z)             (* raw set_element(begin()+pos, i, x) *)
| CReserve (id k : nat) | CClear (id : nat) | CClearRange (id a b : nat)
| CKAssign (t s : nat) | CKFun (f : sfun) (t s : nat)
| COp (noalias : bool) (o : sop) (t s : nat)
| CScal (o : sop) (t : nat) (c : Z)
| CNewSM (id : nat) (rm : bool) (rows cols : nat) | CNewDM (id : nat) (rm : bool) (rows cols : nat)
| CMPut (id i j : nat) (x : Z)                (* logical row i, column j *)
| CMReserve (id k : nat) | CMMajorReserve (id i k : nat) (exact : bool)
| CMClear (id : nat) | CMClearRange (id i a b : nat)
| CMKAssign (t s : nat) | CMKFun (f : sfun) (t s : nat)
| CMOp (noalias : bool) (o : sop) (t s : nat)
| CMScal (o : sop) (t : nat) (c : Z)
| CSpmv (noalias : bool) (o : sop) (t a v : nat) (tr : bool)   (* dense vector t op= prod(A, v) resp. prod(trans(A), v),
                                                                   A compressed; documented value only (the sparse gemv
                                                                   kernel itself is not modelled) *)
| CMFill (id seed : nat)                     (* dense matrix: m(i,j) = ((7 i + 13 j + seed) mod 11) - 5 *)
| CMBlk (f : option sfun) (t s : nat)        (* kernels::assign(dense matrix t, dense matrix s [, F]) *)
| CXV (noalias : bool) (o : sop) (t : nat) (e : sxv)     (* vector target op= sparse vector expression over slots *)
| CXM (noalias : bool) (o : sop) (t : nat) (rm : bool) (e : sxv).   (* matrix target op= expression over compressed
                                                                    matrices of orientation rm (SXRef = matrix slot) *)

Record sstore := mkStore { st_v : list vcont; st_m : list mcont }.
Definition st_empty : sstore := mkStore (repeat (VD []) 8) (repeat (MD true []) 8).
Definition getv (s : sstore) (id : nat) : vcont := nth id (st_v s) (VD []).
Definition getm (s : sstore) (id : nat) : mcont := nth id (st_m s) (MD true []).
Definition setv (s : sstore) (id : nat) (c : vcont) : sstore := mkStore (upd id c (st_v s)) (st_m s).
Definition setm (s : sstore) (id : nat) (c : mcont) : sstore := mkStore (st_v s) (upd id c (st_m s)).

(* result: new store and the container to print (true = vector namespace) *)
Definition run_cmd (fx : bool) (s : sstore) (c : scmd) : sstore * (bool * nat) :=
  match c with
  | CReset => (st_empty, (true, 0%nat))
  | CNewSV id n => (setv s id (VS (sv_empty n)), (true, id))
  | CNewDV id n => (setv s id (VD (repeat 0 n)), (true, id))
  | CPut id i x => (setv s id (match getv s id with VS v => VS (sv_put v i x) | VD d => VD (upd i x d) end), (true, id))
  | CSetEl id pos i x =>
      (setv s id (match getv s id with VS v => VS (fst (sv_set_element v pos i x)) | c => c end), (true, id))
  | CReserve id k => (setv s id (match getv s id with VS v => VS (sv_reserve v k) | c => c end), (true, id))
  | CClear id => (setv s id (match getv s id with VS v => VS (sv_clear v) | VD d => VD (dclear d) end), (true, id))
  | CClearRange id a b =>
      (setv s id (match getv s id with VS v => VS (sv_clear_range v a b) | c => c end), (true, id))
  | CKAssign t src => (setv s t (kv_assign (getv s t) (getv s src)), (true, t))
  | CKFun f t src => (setv s t (kv_fun fx (sf_app f) (sf_rzi f) (getv s t) (getv s src)), (true, t))
  | COp na o t src => (setv s t (v_op fx na o (getv s t) (getv s src)), (true, t))
  | CScal o t c => (setv s t (v_scal o (getv s t) c), (true, t))
  | CNewSM id rm r c =>
      (setm s id (MS rm (if rm then sm_empty r c else sm_empty c r)), (false, id))
  | CNewDM id rm r c =>
      (setm s id (MD rm (if rm then repeat (repeat 0 c) r else repeat (repeat 0 r) c)), (false, id))
  | CMPut id i j x =>
      (setm s id (match getm s id with
                  | MS rm m => MS rm (if rm then sm_put m i j x else sm_put m j i x)
                  | MD rm d => MD rm (if rm then upd i (upd j x (nth i d [])) d else upd j (upd i x (nth j d [])) d)
                  end), (false, id))
  | CMReserve id k => (setm s id (match getm s id with MS rm m => MS rm (sm_reserve m k) | c => c end), (false, id))
  | CMMajorReserve id i k ex =>
      (setm s id (match getm s id with MS rm m => MS rm (sm_major_reserve m i k ex) | c => c end), (false, id))
  | CMClear id => (setm s id (match getm s id with MS rm m => MS rm (sm_clear m) | c => c end), (false, id))
  | CMClearRange id i a b =>
      (setm s id (match getm s id with MS rm m => MS rm (sm_clear_range m i a b) | c => c end), (false, id))
  | CMKAssign t src => (setm s t (km_assign (getm s t) (getm s src)), (false, t))
  | CMKFun f t src => (setm s t (km_fun (sf_app f) (sf_rzi f) (getm s t) (getm s src)), (false, t))
  | CMOp na o t src => (setm s t (m_op na o (getm s t) (getm s src)), (false, t))
  | CMScal o t c => (setm s t (m_scal o (getm s t) c), (false, t))
  | CSpmv na o t a v tr =>
      (setv s t (match getv s t, getm s a, getv s v with
                 | VD d, MS rm m, VD x =>
                     let entry := fun i j => if Bool.eqb rm tr then smden m j i else smden m i j in   (* logical (i,j) of A or trans(A) *)
                     let res := map (fun i => fold_right (fun j acc => entry i j * nth j x 0 + acc) 0 (seq 0 (length x)))
                                    (seq 0 (length d)) in
                     VD (match o with
                         | SSet => res | SAdd => map2 Z.add d res | SSub => map2 Z.sub d res | SMul => map2 Z.mul d res
                         end)
                 | tv, _, _ => tv
                 end), (true, t))
  | CMFill id seed =>
      (setm s id (match getm s id with
                  | MD rt d =>
                      let '(r, c) := if rt then (length d, length (nth 0 d [])) else (length (nth 0 d []), length d) in
                      MD rt (lines_of_fmat rt r c (fun i j => Z.of_nat ((7 * i + 13 * j + seed) mod 11) - 5))
                  | tm => tm
                  end), (false, id))
  | CMBlk fo t src =>
      (setm s t (match getm s t, getm s src with
                 | MD rt d, MD rs e =>
                     let '(r, c) := if rt then (length d, length (nth 0 d [])) else (length (nth 0 d []), length d) in
                     let mt := fmat_of_lines rt d in
                     let me := fmat_of_lines rs e in
                     let f := match fo with Some g => sf_app g | None => fun _ y => y end in
                     let bs := match fo with Some _ => 16%nat | None => 8%nat end in
                     let res :=
                       if Bool.eqb rt rs then (fun i j => f (mt i j) (me i j))          (* same orientation: line by line *)
                       else if rt then blk_kernel bs f r c me mt                        (* row_major <- column_major *)
                       else (fun i j => blk_kernel bs f c r (fun a b => me b a) (fun a b => mt b a) j i)
                                                        (* column_major target: kernels::assign transposes both *)
                     in MD rt (lines_of_fmat rt r c res)
                 | tm, _ => tm
                 end), (false, t))
  | CXV na o t e =>
      let tv := getv s t in
      let n := match tv with VS v => sv_size v | VD d => length d end in
      let src := VS (sx_source fx n (fun id => match getv s id with VS v => sv_el v | VD _ => [] end) e) in
      (setv s t (match na, o, tv with
                 | false, SSet, VS _ => tv            (* compressed_vector = expression does not compile (sparse.hpp:131) *)
                 | _, _, _ => v_op fx na o tv src
                 end), (true, t))
  | CXM na o t rm e =>
      let tm := getm s t in
      let '(major, minor) :=
        match tm with
        | MS rt m => if Bool.eqb rt rm then (sm_major m, sm_minor m) else (sm_minor m, sm_major m)
        | MD rt d => let a := length d in let b := length (nth 0 d []) in if Bool.eqb rt rm then (a, b) else (b, a)
        end in
      let src := MS rm (sx_msource fx major minor
                          (fun id => match getm s id with MS _ m => m | MD _ _ => sm_empty major minor end) e) in
      (setm s t (m_op na o tm src), (false, t))
  end.

(* the model checks its own invariant on every container it prints *)
Definition v_ok (c : vcont) : bool := match c with VS v => sv_invb v | VD _ => true end.
Definition m_ok (c : mcont) : bool := match c with MS _ m => sm_invb m | MD _ _ => true end.
