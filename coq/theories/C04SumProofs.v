(* C04 — finite sums, tabulated vectors, raw-storage views (chunk / concat): the lemma library behind the
   index-level proofs about Conv2DModel / PoolingLayer / ResizeLayer.  Any commutative ring, axiom-free. *)
From Coq Require Import List Arith Bool Lia Ring PeanoNat.
From SharkV Require Import C04Model C04Conv C04Aux C04Proofs.
Import ListNotations.

Declare Scope CA_scope.
Delimit Scope CA_scope with CA.

Section Sums.
Variable A : Type.
Variables (zero one : A) (add mul sub : A -> A -> A) (opp : A -> A).
Hypothesis Rth : ring_theory zero one add mul sub opp eq.
Add Ring AringS : Rth.

Infix "+" := add : CA_scope.
Infix "*" := mul : CA_scope.
Local Open Scope CA_scope.
Notation getA := (get zero).
Notation bsumA := (bsum zero add).
Notation dotA := (dot zero add mul).

(* ---------------- finite sums ---------------- *)
Lemma bsum_ext n f g : (forall i, i < n -> f i = g i) -> bsumA n f = bsumA n g.
Proof. induction n; intros H; simpl; auto. rewrite IHn, H; auto. Qed.

Lemma bsum_zero' n f : (forall i, i < n -> f i = zero) -> bsumA n f = zero.
Proof. induction n; intros H; simpl; auto. rewrite IHn, H; auto. ring. Qed.

Lemma bsum_zero n : bsumA n (fun _ => zero) = zero.
Proof. apply bsum_zero'; auto. Qed.

Lemma bsum_add n f g : bsumA n (fun i => f i + g i) = bsumA n f + bsumA n g.
Proof. induction n; simpl; [ring|]. rewrite IHn. ring. Qed.

Lemma bsum_mul_l n c f : c * bsumA n f = bsumA n (fun i => c * f i).
Proof. induction n; simpl; [ring|]. rewrite <- IHn. ring. Qed.

Lemma bsum_mul_r n c f : bsumA n f * c = bsumA n (fun i => f i * c).
Proof. induction n; simpl; [ring|]. rewrite <- IHn. ring. Qed.

Lemma bsum_swap n m (g : nat -> nat -> A) :
  bsumA n (fun i => bsumA m (fun j => g i j)) = bsumA m (fun j => bsumA n (fun i => g i j)).
Proof.
  induction n; simpl.
  - symmetry. apply bsum_zero.
  - rewrite IHn. symmetry. apply bsum_add.
Qed.

Lemma bsum_S_l n f : bsumA (S n) f = f 0 + bsumA n (fun i => f (S i)).
Proof. induction n; [simpl; ring|]. change (bsumA (S (S n)) f) with (bsumA (S n) f + f (S n)). rewrite IHn. simpl. ring. Qed.

Lemma bsum_app n m g : bsumA (n + m)%nat g = bsumA n g + bsumA m (fun i => g (n + i)%nat).
Proof.
  induction m; simpl.
  - rewrite Nat.add_0_r. ring.
  - rewrite Nat.add_succ_r. simpl. rewrite IHm. ring.
Qed.

Lemma bsum_prod n m g : bsumA (n * m)%nat g = bsumA n (fun a => bsumA m (fun b => g (a * m + b)%nat)).
Proof.
  induction n; simpl; auto.
  rewrite (Nat.add_comm m (n * m)%nat), bsum_app, IHn. reflexivity.
Qed.

Lemma bsum_rev n g : bsumA n g = bsumA n (fun i => g (n - 1 - i)%nat).
Proof.
  induction n; auto.
  rewrite (bsum_S_l n (fun i => g (S n - 1 - i)%nat)). cbn [bsum]. rewrite IHn.
  replace (S n - 1 - 0)%nat with n by lia.
  rewrite (bsum_ext n (fun i => g (S n - 1 - S i)%nat) (fun i => g (n - 1 - i)%nat)) by (intros; f_equal; lia).
  ring.
Qed.

(* only the first n terms are non-zero *)
Lemma bsum_trunc n m g : n <= m -> (forall i, n <= i -> i < m -> g i = zero) -> bsumA m g = bsumA n g.
Proof.
  intros L H. replace m with (n + (m - n))%nat by lia. rewrite bsum_app.
  rewrite (bsum_zero' (m - n)); [ring|]. intros i Hi. apply H; lia.
Qed.

(* indicator of  a + s = k *)
Lemma bsum_ind n s k g :
  bsumA n (fun a => if (a + s =? k)%nat then g a else zero) = if (s <=? k) && (k <? n + s)%nat then g (k - s)%nat else zero.
Proof.
  induction n; simpl.
  - destruct (s <=? k) eqn:E1; simpl; auto. destruct (k <? s) eqn:E2; auto.
    apply Nat.leb_le in E1. apply Nat.ltb_lt in E2. lia.
  - rewrite IHn. destruct (n + s =? k)%nat eqn:E.
    + apply Nat.eqb_eq in E.
      replace (k <? n + s)%nat with false by (symmetry; apply Nat.ltb_ge; lia).
      replace (s <=? k) with true by (symmetry; apply Nat.leb_le; lia).
      replace (k <? S (n + s))%nat with true by (symmetry; apply Nat.ltb_lt; lia).
      simpl. replace (k - s)%nat with n by lia. ring.
    + apply Nat.eqb_neq in E. destruct (s <=? k) eqn:E1; simpl; [|ring].
      destruct (k <? n + s)%nat eqn:E2.
      * replace (k <? S (n + s))%nat with true by (symmetry; apply Nat.ltb_lt; apply Nat.ltb_lt in E2; lia). ring.
      * replace (k <? S (n + s))%nat with false by (symmetry; apply Nat.ltb_ge; apply Nat.ltb_ge in E2; lia). ring.
Qed.

Lemma bsum_if (b : bool) n f : bsumA n (fun i => if b then f i else zero) = if b then bsumA n f else zero.
Proof. destruct b; auto. apply bsum_zero. Qed.

(* ---------------- tabulated vectors ---------------- *)
Lemma tab_length n (f : nat -> A) : length (tab n f) = n.
Proof. unfold tab. rewrite map_length, seq_length. reflexivity. Qed.

Lemma get_tab n f i : i < n -> getA (tab n f) i = f i.
Proof.
  intros H. unfold get, tab. rewrite (nth_indep _ zero (f 0)) by (rewrite map_length, seq_length; auto).
  rewrite map_nth, seq_nth; auto.
Qed.

Lemma get_ge v i : length v <= i -> getA v i = zero.
Proof. intros H. unfold get. apply nth_overflow; auto. Qed.

Lemma get_nil i : getA [] i = zero.
Proof. destruct i; reflexivity. Qed.

Lemma dot_map_seq f s n v : dotA (map f (seq s n)) v = bsumA n (fun i => f (s + i)%nat * getA v i).
Proof.
  revert s v; induction n; intros s v.
  - reflexivity.
  - rewrite bsum_S_l. destruct v as [|y v].
    + cbn [seq map dot]. rewrite (bsum_zero' n); [unfold get; simpl; ring|]. intros i _. unfold get; simpl. ring.
    + cbn [seq map dot]. rewrite IHn. rewrite Nat.add_0_r. unfold get at 2. cbn [nth]. f_equal.
      apply bsum_ext. intros i _. rewrite Nat.add_succ_r. reflexivity.
Qed.

Lemma dot_tab_l n f v : dotA (tab n f) v = bsumA n (fun i => f i * getA v i).
Proof. unfold tab. rewrite dot_map_seq. reflexivity. Qed.

Lemma tab_get v : tab (length v) (getA v) = v.
Proof.
  apply nth_ext with (d := zero) (d' := zero); [apply tab_length|].
  intros i Hi. rewrite tab_length in Hi. exact (get_tab (length v) (getA v) i Hi).
Qed.

Lemma dot_get u v : dotA u v = bsumA (length u) (fun i => getA u i * getA v i).
Proof. rewrite <- (tab_get u) at 1. apply dot_tab_l. Qed.

(* a vector that is given entry by entry *)
Lemma tab_ext n (f g : nat -> A) : (forall i, i < n -> f i = g i) -> tab n f = tab n g.
Proof. intros H. unfold tab. apply map_ext_in. intros i Hi. apply in_seq in Hi. apply H. lia. Qed.

Lemma eq_tab n v (f : nat -> A) : length v = n -> (forall i, i < n -> getA v i = f i) -> v = tab n f.
Proof. intros L H. rewrite <- (tab_get v), L. apply tab_ext. exact H. Qed.

(* ---------------- raw storage views ---------------- *)
Lemma get_firstn n v k : getA (firstn n v) k = if k <? n then getA v k else zero.
Proof.
  unfold get. revert v k; induction n; intros v k; simpl.
  - destruct k; reflexivity.
  - destruct v as [|y v]; [replace (nth k [] zero) with zero by (destruct k; reflexivity); destruct (k <? S n); reflexivity|].
    destruct k; simpl; auto. rewrite IHn. reflexivity.
Qed.

Lemma get_skipn n v k : getA (skipn n v) k = getA v (n + k)%nat.
Proof.
  unfold get. revert v; induction n; intros v; simpl; auto.
  destruct v; simpl; auto. destruct k; reflexivity.
Qed.

Lemma chunk_length n m (t : list A) : length (chunk n m t) = m.
Proof. revert t; induction m; intros t; simpl; auto. Qed.

Lemma nth_chunk n m (t : list A) r : r < m -> nth r (chunk n m t) [] = firstn n (skipn (r * n)%nat t).
Proof.
  revert t r; induction m; intros t r H; [lia|].
  destruct r; simpl; auto. rewrite IHm by lia. rewrite skipn_add. reflexivity.
Qed.

Lemma get_chunk n m t r k : r < m -> getA (nth r (chunk n m t) []) k = if k <? n then getA t (r * n + k)%nat else zero.
Proof. intros H. rewrite nth_chunk by auto. rewrite get_firstn, get_skipn. reflexivity. Qed.

Lemma chunk_rows n m (t : list A) : (n * m)%nat <= length t -> rows n (chunk n m t).
Proof. intros H. apply (chunk_shape A n m t H). Qed.

Lemma get_app_l (u v : list A) k : k < length u -> getA (u ++ v) k = getA u k.
Proof. intros H. unfold get. apply app_nth1; auto. Qed.

Lemma get_app_r (u v : list A) k : getA (u ++ v) (length u + k)%nat = getA v k.
Proof. unfold get. rewrite app_nth2 by lia. f_equal. lia. Qed.

Lemma concat_rows_length n (M : list (list A)) : rows n M -> length (concat M) = (length M * n)%nat.
Proof.
  induction M as [|r M IH]; intros H; simpl; auto. inversion H; subst.
  rewrite app_length, IH; auto.
Qed.

Lemma get_concat n (M : list (list A)) r k : rows n M -> k < n -> getA (concat M) (r * n + k)%nat = getA (nth r M []) k.
Proof.
  revert r; induction M as [|y M IH]; intros r H K.
  - cbn [concat]. rewrite get_nil. destruct r; cbn [nth]; rewrite get_nil; reflexivity.
  - inversion H; subst. destruct r; cbn [concat nth].
    + cbn [Nat.mul Nat.add]. apply get_app_l; lia.
    + replace (S r * length y + k)%nat with (length y + (r * length y + k))%nat by lia. rewrite get_app_r. apply IH; auto.
Qed.

(* sum over a matrix stored row by row *)
Lemma fr_bsum (M N : list (list A)) : length M = length N ->
  fr A zero add mul M N = bsumA (length M) (fun r => dotA (nth r M []) (nth r N [])).
Proof.
  revert N; induction M as [|u M IH]; intros [|v N] L; cbn [length] in L; try discriminate; [reflexivity|].
  cbn [fr length]. rewrite bsum_S_l. cbn [nth]. rewrite IH by lia. reflexivity.
Qed.

End Sums.
