(* C07 — the assembled problems ARE the documented duals.  Proofs about the exact-rational
   instantiation of C07Setup.v (qops of C08Defs.v, 1.0 := 1, (double) n := n).

   A. CSVMProblem / GeneralQuadraticProblem (CSvmTrainer::trainBinary): under the coded change of
      variables alpha_i = y_i beta_i the assembled problem is the textbook C-SVM dual
        max  sum beta - 1/2 sum_ab beta_a beta_b y_a y_b K_ab   s.t. 0 <= beta_i <= C_i  [, sum y_i beta_i = 0]
      with C_i = C-/C+ (times the example weight).  Warm start: the clipped (and, with offset,
      rebalanced when something was truncated, commit 73617c7d) point lies in the box; with offset
      it sums to 0 exactly when a truncation happened or the old point had sum 0 (an untruncated old
      point is handed over unchanged); then the warm problem has the feasible set of the cold one.
   B. EpsilonSvmTrainer: the 2n-variable problem over BlockMatrix2x2 is the eps-insensitive dual in
      alpha+ , alpha-; the returned coefficient is alpha+ - alpha-; (K2 v) = K coef.
   C. OneClassSvmTrainer: objective -1/2 alpha K alpha, box [0, 1/(nu n)], the initial point is
      feasible with sum 1.
   D. unconstrained (log-encoded) regularisation parameters decode to positive constants. *)
From Coq Require Import QArith Qminmax Lqa Arith Bool List Lia.
From SharkV Require Import C08Model C08Defs C08Aux C07Proofs C07Setup.
Open Scope Q_scope.

Definition qofnat (n : nat) : Q := inject_Z (Z.of_nat n).

(* the label sign y_i in {-1,+1} (labels are 0/1 in Shark) *)
Definition ysgn (lab : nat -> bool) (i : nat) : Q := if lab i then 1 else -1.

Lemma ysgn_sq lab i : ysgn lab i * ysgn lab i == 1.
Proof. unfold ysgn. destruct (lab i); reflexivity. Qed.

Lemma csvm_lin_ysgn lab i : csvm_lin qops 1 lab i == ysgn lab i.
Proof. unfold csvm_lin, ysgn, negA. cbn [o_sub o_zero qops]. destruct (lab i); reflexivity. Qed.

(* ------------------------------------------------------------------ *)
(* generic: what "the solver's problem" means                           *)
(* ------------------------------------------------------------------ *)

(* feasible set of the assembled problem: the box and, with equality constraint, the sum of the
   initial point (SMO steps of SvmProblem keep the sum) *)
Definition qp_feasible (p : qp Q) (al : nat -> Q) : Prop :=
  (forall i, (i < q_dim p)%nat -> q_lo p i <= al i /\ al i <= q_hi p i) /\
  (q_eq p = true -> sumn (q_dim p) al == sumn (q_dim p) (q_init p)).
(* its objective for the matrix K *)
Definition qp_obj (K : nat -> nat -> Q) (p : qp Q) (al : nat -> Q) : Q :=
  objv (q_dim p) K (q_lin p) al.

(* ------------------------------------------------------------------ *)
(* A. C-SVM                                                             *)
(* ------------------------------------------------------------------ *)

(* the textbook dual, in beta *)
Definition csvm_dual_obj (n : nat) (K : nat -> nat -> Q) (lab : nat -> bool) (beta : nat -> Q) : Q :=
  sumn n beta -
  (1 # 2) * sumn n (fun a => sumn n (fun b => beta a * beta b * (ysgn lab a * ysgn lab b * K a b))).
Definition csvm_dual_feasible (n : nat) (lab : nat -> bool) (Cv : nat -> Q) (bias : bool)
                              (beta : nat -> Q) : Prop :=
  (forall i, (i < n)%nat -> 0 <= beta i /\ beta i <= Cv i) /\
  (bias = true -> sumn n (fun i => ysgn lab i * beta i) == 0).
(* per-example regularisation constant *)
Definition csvm_C (lab : nat -> bool) (Cn Cp : Q) (w : nat -> Q) (i : nat) : Q :=
  (if lab i then Cp else Cn) * w i.
(* the coded change of variables *)
Definition to_alpha (lab : nat -> bool) (beta : nat -> Q) (i : nat) : Q := ysgn lab i * beta i.
Definition to_beta (lab : nat -> bool) (al : nat -> Q) (i : nat) : Q := ysgn lab i * al i.

Lemma to_beta_to_alpha lab beta i : to_beta lab (to_alpha lab beta) i == beta i.
Proof.
  unfold to_beta, to_alpha. rewrite Qmult_assoc, ysgn_sq. ring.
Qed.
Lemma to_alpha_to_beta lab al i : to_alpha lab (to_beta lab al) i == al i.
Proof.
  unfold to_beta, to_alpha. rewrite Qmult_assoc, ysgn_sq. ring.
Qed.

Theorem csvm_objective_is_dual n K lab beta :
  objv n K (csvm_lin qops 1 lab) (to_alpha lab beta) == csvm_dual_obj n K lab beta.
Proof.
  unfold objv, csvm_dual_obj.
  assert (E1 : sumn n (fun a => csvm_lin qops 1 lab a * to_alpha lab beta a) == sumn n beta).
  { apply sumn_ext. intros a _. rewrite csvm_lin_ysgn. unfold to_alpha.
    rewrite Qmult_assoc, ysgn_sq. ring. }
  assert (E2 : sumn n (fun a => to_alpha lab beta a * sumn n (fun b => K a b * to_alpha lab beta b)) ==
               sumn n (fun a => sumn n (fun b => beta a * beta b * (ysgn lab a * ysgn lab b * K a b)))).
  { apply sumn_ext. intros a _. rewrite <- sumn_scal. apply sumn_ext. intros b _.
    unfold to_alpha. ring. }
  rewrite E1, E2. reflexivity.
Qed.

(* box of the weighted problem <-> 0 <= beta_i <= C_i w_i *)
Lemma csvmw_box_iff lab Cn Cp w beta i :
  (csvmw_lo qops lab Cn w i <= to_alpha lab beta i /\ to_alpha lab beta i <= csvmw_hi qops lab Cp w i) <->
  (0 <= beta i /\ beta i <= csvm_C lab Cn Cp w i).
Proof.
  unfold csvmw_lo, csvmw_hi, to_alpha, csvm_C, ysgn, negA. cbn [o_sub o_zero o_mul qops].
  destruct (lab i); split; intros [H1 H2]; split; lra.
Qed.

Lemma csvm_box_iff lab Cn Cp beta i :
  (csvm_lo qops lab Cn i <= to_alpha lab beta i /\ to_alpha lab beta i <= csvm_hi qops lab Cp i) <->
  (0 <= beta i /\ beta i <= csvm_C lab Cn Cp (fun _ => 1) i).
Proof.
  unfold csvm_lo, csvm_hi, to_alpha, csvm_C, ysgn, negA. cbn [o_sub o_zero qops].
  destruct (lab i); split; intros [H1 H2]; split; lra.
Qed.

(* ---- warm start: clipping, and with offset the rebalancing that restores sum(alpha) = 0 ---- *)
Lemma clip_box_q a lo hi :
  clip_box qops a lo hi =
  (if qltb (if qltb hi a then hi else a) lo then lo else (if qltb hi a then hi else a)).
Proof. reflexivity. Qed.

Lemma clip_box_in_box a lo hi : lo <= hi -> lo <= clip_box qops a lo hi /\ clip_box qops a lo hi <= hi.
Proof. intros H. rewrite clip_box_q. qcases; split; lra. Qed.

Lemma clip_box_id a lo hi : lo <= a -> a <= hi -> clip_box qops a lo hi == a.
Proof. intros H1 H2. rewrite clip_box_q. qcases; lra. Qed.

Lemma sum_pos_S a m :
  sum_pos qops a (S m) = if qltb 0 (a m) then sum_pos qops a m + a m else sum_pos qops a m.
Proof. reflexivity. Qed.
Lemma sum_neg_S a m :
  sum_neg qops a (S m) = if qltb 0 (a m) then sum_neg qops a m else sum_neg qops a m - a m.
Proof. reflexivity. Qed.

Lemma sum_pos_nonneg a m : 0 <= sum_pos qops a m.
Proof.
  induction m; [cbn; lra|]. rewrite sum_pos_S. qcases; lra.
Qed.
Lemma sum_neg_nonneg a m : 0 <= sum_neg qops a m.
Proof.
  induction m; [cbn; lra|]. rewrite sum_neg_S. qcases; lra.
Qed.

(* the two partial sums split the sum; scaling the two sides separately *)
Lemma sum_scaled a m cp cn :
  sumn m (fun i => if qltb 0 (a i) then a i * cp else a i * cn) ==
  cp * sum_pos qops a m - cn * sum_neg qops a m.
Proof.
  induction m.
  - cbn. ring.
  - cbn [sumn]. rewrite IHm, sum_pos_S, sum_neg_S. qcases; ring.
Qed.

Lemma ratio_01 x y : 0 <= x -> x < y -> 0 <= x / y /\ x / y <= 1.
Proof.
  intros Hx Hy. split.
  - apply Qle_shift_div_l; lra.
  - apply Qle_shift_div_r; lra.
Qed.

Definition rb_scp (sp sn : Q) : Q := if qltb sn sp then sn / sp else 1.
Definition rb_scn (sp sn : Q) : Q := if qltb sp sn then sp / sn else 1.

Lemma rebalance_q n a i :
  rebalance qops 1 n a i =
  (if Qeq_bool (sum_pos qops a n) (sum_neg qops a n) then a i
   else if qltb 0 (a i) then a i * rb_scp (sum_pos qops a n) (sum_neg qops a n)
        else a i * rb_scn (sum_pos qops a n) (sum_neg qops a n)).
Proof. reflexivity. Qed.

Lemma rb_scales_01 sp sn :
  0 <= sp -> 0 <= sn ->
  (0 <= rb_scp sp sn /\ rb_scp sp sn <= 1) /\ (0 <= rb_scn sp sn /\ rb_scn sp sn <= 1).
Proof.
  intros Hp Hn. unfold rb_scp, rb_scn. split; qcases; try lra; apply ratio_01; assumption.
Qed.

(* the rebalanced point sums to 0 EXACTLY *)
Theorem rebalance_sum_zero n a : sumn n (rebalance qops 1 n a) == 0.
Proof.
  pose proof (sum_pos_nonneg a n) as Pp. pose proof (sum_neg_nonneg a n) as Pn.
  destruct (qeqb_spec (sum_pos qops a n) (sum_neg qops a n)) as [[E H]|[E H]].
  - rewrite (sumn_ext n _ (fun i => if qltb 0 (a i) then a i * 1 else a i * 1)).
    + rewrite sum_scaled. lra.
    + intros i _. rewrite rebalance_q, E. qcases; ring.
  - rewrite (sumn_ext n _ (fun i => if qltb 0 (a i)
                                    then a i * rb_scp (sum_pos qops a n) (sum_neg qops a n)
                                    else a i * rb_scn (sum_pos qops a n) (sum_neg qops a n))).
    + rewrite sum_scaled. unfold rb_scp, rb_scn. qcases.
      * exfalso; lra.
      * field. lra.
      * field. lra.
      * exfalso. apply H. lra.
    + intros i _. rewrite rebalance_q, E. reflexivity.
Qed.

(* it moves every coordinate towards 0, so it stays in any box that contains 0 *)
Theorem rebalance_in_box n a lo hi i :
  lo <= 0 -> 0 <= hi -> lo <= a i -> a i <= hi ->
  lo <= rebalance qops 1 n a i /\ rebalance qops 1 n a i <= hi.
Proof.
  intros H0 H1 H2 H3. rewrite rebalance_q.
  destruct (rb_scales_01 _ _ (sum_pos_nonneg a n) (sum_neg_nonneg a n)) as [[P1 P2] [N1 N2]].
  destruct (Qeq_bool (sum_pos qops a n) (sum_neg qops a n)); [split; assumption|].
  qcases; split; nra.
Qed.

(* a feasible (balanced) previous solution is kept *)
Lemma rebalance_id n a i : sumn n a == 0 -> rebalance qops 1 n a i == a i.
Proof.
  intros Hs. rewrite rebalance_q.
  assert (E : sum_pos qops a n == sum_neg qops a n).
  { pose proof (sum_scaled a n 1 1) as S.
    rewrite (sumn_ext n _ a) in S by (intros; qcases; ring). lra. }
  apply Qeq_bool_iff in E. rewrite E. reflexivity.
Qed.

Lemma csvmw_box_contains_0 lab Cn Cp w i :
  0 <= Cn -> 0 <= Cp -> 0 <= w i -> csvmw_lo qops lab Cn w i <= 0 /\ 0 <= csvmw_hi qops lab Cp w i.
Proof.
  intros Hn Hp Hw. unfold csvmw_lo, csvmw_hi, negA. cbn [o_sub o_zero o_mul qops].
  destruct (lab i); split; nra.
Qed.
Lemma csvm_box_contains_0 lab Cn Cp i :
  0 <= Cn -> 0 <= Cp -> csvm_lo qops lab Cn i <= 0 /\ 0 <= csvm_hi qops lab Cp i.
Proof.
  intros Hn Hp. unfold csvm_lo, csvm_hi, negA. cbn [o_sub o_zero qops].
  destruct (lab i); split; lra.
Qed.

(* bool truncated *)
Lemma truncated_false (p c : nat -> Q) m :
  truncated qops p c m = false -> forall k, (k < m)%nat -> c k == p k.
Proof.
  induction m; intros H k Hk; [lia|]. cbn [truncated o_eqb qops] in H.
  apply orb_false_iff in H. destruct H as [H1 H2]. apply negb_false_iff in H2.
  destruct (Nat.eq_dec k m) as [->|N]; [apply Qeq_bool_iff; exact H2|apply IHm; [exact H1|lia]].
Qed.
Lemma truncated_none (p c : nat -> Q) m :
  (forall k, (k < m)%nat -> c k == p k) -> truncated qops p c m = false.
Proof.
  induction m; intros H; [reflexivity|]. cbn [truncated o_eqb qops].
  rewrite IHm by (intros; apply H; lia).
  assert (E : Qeq_bool (c m) (p m) = true) by (apply Qeq_bool_iff; apply H; lia). rewrite E. reflexivity.
Qed.

(* the initial point handed to the solver lies in the box (cold, warm, with and without offset) *)
Lemma init_alpha_in_box bias n prev (lo hi : nat -> Q) i :
  lo i <= 0 -> 0 <= hi i -> lo i <= init_alpha qops 1 bias n prev lo hi i /\ init_alpha qops 1 bias n prev lo hi i <= hi i.
Proof.
  intros H0 H1. unfold init_alpha. destruct prev as [p|]; [|cbn [o_zero qops]; split; assumption].
  assert (C := clip_box_in_box (p i) (lo i) (hi i) ltac:(lra)).
  destruct (bias && truncated qops p (fun k => clip_box qops (p k) (lo k) (hi k)) n); [|exact C].
  apply rebalance_in_box; try assumption; apply C.
Qed.

(* when does the start point of the offset branch sum to 0 exactly: cold start; a truncation
   happened (then the point is rebalanced); or nothing was truncated and the old point had sum 0 *)
Definition warm_balanced (n : nat) (prev : option (nat -> Q)) (lo hi : nat -> Q) : Prop :=
  match prev with
  | None => True
  | Some p => truncated qops p (fun k => clip_box qops (p k) (lo k) (hi k)) n = true \/ sumn n p == 0
  end.

Lemma init_alpha_sum_zero n prev (lo hi : nat -> Q) :
  warm_balanced n prev lo hi -> sumn n (init_alpha qops 1 true n prev lo hi) == 0.
Proof.
  unfold init_alpha, warm_balanced. destruct prev as [p|].
  - cbn [andb]. destruct (truncated qops p (fun k => clip_box qops (p k) (lo k) (hi k)) n) eqn:T.
    + intros _. apply rebalance_sum_zero.
    + intros [X|X]; [discriminate|]. rewrite <- X. apply sumn_ext. apply (truncated_false _ _ _ T).
  - intros _. apply sumn_0. intros. reflexivity.
Qed.

(* an untruncated old point is handed over as it is (and so keeps its own sum) *)
Lemma init_alpha_untruncated bias n p (lo hi : nat -> Q) :
  (forall k, (k < n)%nat -> lo k <= p k /\ p k <= hi k) ->
  forall i, (i < n)%nat -> init_alpha qops 1 bias n (Some p) lo hi i == p i.
Proof.
  intros Hb i Hi. unfold init_alpha.
  assert (Ec : forall k, (k < n)%nat -> clip_box qops (p k) (lo k) (hi k) == p k).
  { intros k Hk. apply clip_box_id; apply (Hb k Hk). }
  rewrite (truncated_none p _ n Ec), andb_false_r. apply Ec. exact Hi.
Qed.

Theorem warm_start_feasible bias n lab Cn Cp w prev :
  0 <= Cn -> 0 <= Cp -> (forall i, (i < n)%nat -> 0 <= w i) ->
  let p := csvmw_problem qops 1 bias n lab Cn Cp w prev in
  (forall i, (i < n)%nat -> q_lo p i <= q_init p i /\ q_init p i <= q_hi p i) /\
  (bias = true -> warm_balanced n prev (q_lo p) (q_hi p) -> sumn n (q_init p) == 0).
Proof.
  intros Hn Hp Hw p. unfold p, csvmw_problem. cbn [q_lo q_hi q_init]. split.
  - intros i Hi. destruct (csvmw_box_contains_0 lab Cn Cp w i Hn Hp (Hw i Hi)).
    apply init_alpha_in_box; assumption.
  - intros ->. apply init_alpha_sum_zero.
Qed.

Theorem warm_start_feasible_unweighted bias n lab Cn Cp prev :
  0 <= Cn -> 0 <= Cp ->
  let p := csvm_problem qops 1 bias n lab Cn Cp prev in
  (forall i, (i < n)%nat -> q_lo p i <= q_init p i /\ q_init p i <= q_hi p i) /\
  (bias = true -> warm_balanced n prev (q_lo p) (q_hi p) -> sumn n (q_init p) == 0).
Proof.
  intros Hn Hp p. unfold p, csvm_problem. cbn [q_lo q_hi q_init]. split.
  - intros i Hi. destruct (csvm_box_contains_0 lab Cn Cp i Hn Hp).
    apply init_alpha_in_box; assumption.
  - intros ->. apply init_alpha_sum_zero.
Qed.

(* a previous solution that lies in the new box is kept unchanged (with and without offset) *)
Theorem warm_start_keeps_feasible bias n lab Cn Cp w prev :
  let p := csvmw_problem qops 1 bias n lab Cn Cp w (Some prev) in
  (forall i, (i < n)%nat -> q_lo p i <= prev i /\ prev i <= q_hi p i) ->
  forall i, (i < n)%nat -> q_init p i == prev i.
Proof.
  intros p. unfold p, csvmw_problem. cbn [q_lo q_hi q_init]. apply init_alpha_untruncated.
Qed.

(* the problem is the textbook dual: feasible sets correspond under alpha = y beta whenever the
   start point sums to 0 (cold start; warm start: warm_start_feasible) *)
Theorem csvm_problem_is_dual bias n lab Cn Cp prev beta :
  let p := csvm_problem qops 1 bias n lab Cn Cp prev in
  (bias = true -> sumn n (q_init p) == 0) ->
  (qp_feasible p (to_alpha lab beta) <->
   csvm_dual_feasible n lab (csvm_C lab Cn Cp (fun _ => 1)) bias beta).
Proof.
  intros p Hs. unfold p in *. unfold qp_feasible, csvm_dual_feasible, csvm_problem in *.
  cbn [q_dim q_lo q_hi q_eq q_init] in *. split; intros [Hb He]; split.
  - intros i Hi. apply csvm_box_iff. apply Hb; assumption.
  - intros B. rewrite <- (Hs B). apply He. exact B.
  - intros i Hi. apply csvm_box_iff. apply Hb; assumption.
  - intros B. rewrite (Hs B). apply He; assumption.
Qed.

Theorem csvmw_problem_is_dual bias n lab Cn Cp w prev beta :
  let p := csvmw_problem qops 1 bias n lab Cn Cp w prev in
  (bias = true -> sumn n (q_init p) == 0) ->
  (qp_feasible p (to_alpha lab beta) <->
   csvm_dual_feasible n lab (csvm_C lab Cn Cp w) bias beta).
Proof.
  intros p Hs. unfold p in *. unfold qp_feasible, csvm_dual_feasible, csvmw_problem in *.
  cbn [q_dim q_lo q_hi q_eq q_init] in *. split; intros [Hb He]; split.
  - intros i Hi. apply csvmw_box_iff. apply Hb; assumption.
  - intros B. rewrite <- (Hs B). apply He. exact B.
  - intros i Hi. apply csvmw_box_iff. apply Hb; assumption.
  - intros B. rewrite (Hs B). apply He; assumption.
Qed.

Lemma cold_start_sum_zero (bias : bool) n (lo hi : nat -> Q) :
  bias = true -> sumn n (init_alpha qops 1 bias n None lo hi) == 0.
Proof. intros _. apply sumn_0. intros. reflexivity. Qed.

(* every feasible point of the assembled problem is the image of a dual-feasible beta *)
Lemma qp_feasible_ext (p : qp Q) al al' :
  (forall i, (i < q_dim p)%nat -> al i == al' i) -> qp_feasible p al -> qp_feasible p al'.
Proof.
  intros E [Hb He]. split.
  - intros i Hi. rewrite <- (E i Hi). apply Hb; assumption.
  - intros B. rewrite <- (He B). symmetry. apply sumn_ext. exact E.
Qed.

Corollary csvmw_feasible_sets_coincide bias n lab Cn Cp w prev al :
  let p := csvmw_problem qops 1 bias n lab Cn Cp w prev in
  (bias = true -> sumn n (q_init p) == 0) ->
  (qp_feasible p al <-> csvm_dual_feasible n lab (csvm_C lab Cn Cp w) bias (to_beta lab al)).
Proof.
  intros p Hs. rewrite <- (csvmw_problem_is_dual bias n lab Cn Cp w prev (to_beta lab al) Hs).
  split; apply qp_feasible_ext; intros i _.
  - symmetry. apply to_alpha_to_beta.
  - apply to_alpha_to_beta.
Qed.

Corollary csvm_feasible_sets_coincide bias n lab Cn Cp prev al :
  let p := csvm_problem qops 1 bias n lab Cn Cp prev in
  (bias = true -> sumn n (q_init p) == 0) ->
  (qp_feasible p al <-> csvm_dual_feasible n lab (csvm_C lab Cn Cp (fun _ => 1)) bias (to_beta lab al)).
Proof.
  intros p Hs. rewrite <- (csvm_problem_is_dual bias n lab Cn Cp prev (to_beta lab al) Hs).
  split; apply qp_feasible_ext; intros i _.
  - symmetry. apply to_alpha_to_beta.
  - apply to_alpha_to_beta.
Qed.

(* the un-weighted problem is the weighted one with all weights 1 *)
Lemma csvmw_unit_weights lab Cn Cp i :
  csvmw_lo qops lab Cn (fun _ => 1) i == csvm_lo qops lab Cn i /\
  csvmw_hi qops lab Cp (fun _ => 1) i == csvm_hi qops lab Cp i.
Proof.
  unfold csvmw_lo, csvmw_hi, csvm_lo, csvm_hi, negA. cbn [o_sub o_zero o_mul qops].
  destruct (lab i); split; ring.
Qed.

(* representer form: the decision function  f = sum_j coef_j k(x_j, .) + b  with the returned
   coefficients coef = alpha is the dual's  sum_j y_j beta_j k(x_j, .) + b *)
Lemma csvm_representer n (K : nat -> nat -> Q) lab beta i :
  sumn n (fun j => K i j * to_alpha lab beta j) == sumn n (fun j => ysgn lab j * beta j * K i j).
Proof. apply sumn_ext. intros j _. unfold to_alpha. ring. Qed.

(* ------------------------------------------------------------------ *)
(* sums over n + n                                                      *)
(* ------------------------------------------------------------------ *)
Lemma sumn_plus n m f : sumn (n + m) f == sumn n f + sumn m (fun i => f (n + i)%nat).
Proof.
  induction m.
  - rewrite Nat.add_0_r. cbn [sumn]. ring.
  - rewrite Nat.add_succ_r. cbn [sumn]. rewrite IHm. ring.
Qed.

Lemma bidx_lo n i : (i < n)%nat -> bidx n i = i.
Proof. intros H. unfold bidx. destruct (Nat.ltb_spec i n); [reflexivity|lia]. Qed.
Lemma bidx_hi n i : bidx n (n + i) = i.
Proof. unfold bidx. destruct (Nat.ltb_spec (n + i) n); lia. Qed.

(* sum over the 2n variables of something that depends on the variable only through the data
   point: split into the two halves *)
Lemma sumn_2n n (f : nat -> Q) : sumn (n + n) f == sumn n (fun i => f i + f (n + i)%nat).
Proof. rewrite sumn_plus, sumn_add. reflexivity. Qed.

(* ------------------------------------------------------------------ *)
(* B. epsilon-SVR                                                       *)
(* ------------------------------------------------------------------ *)

(* the eps-insensitive dual in alpha+ (ap) and alpha- (am) *)
Definition svr_dual_obj (n : nat) (K : nat -> nat -> Q) (y : nat -> Q) (e : Q) (ap am : nat -> Q) : Q :=
  sumn n (fun i => y i * (ap i - am i)) - e * sumn n (fun i => ap i + am i) -
  (1 # 2) * sumn n (fun a => (ap a - am a) * sumn n (fun b => K a b * (ap b - am b))).
Definition svr_dual_feasible (n : nat) (C : Q) (ap am : nat -> Q) : Prop :=
  (forall i, (i < n)%nat -> (0 <= ap i /\ ap i <= C) /\ (0 <= am i /\ am i <= C)) /\
  sumn n (fun i => ap i - am i) == 0.
(* coded variables: v_i = alpha+_i, v_{n+i} = - alpha-_i *)
Definition svr_vars (n : nat) (ap am : nat -> Q) (i : nat) : Q :=
  if (i <? n)%nat then ap i else - am (i - n)%nat.

Lemma svr_vars_lo n ap am i : (i < n)%nat -> svr_vars n ap am i = ap i.
Proof. intros H. unfold svr_vars. destruct (Nat.ltb_spec i n); [reflexivity|lia]. Qed.
Lemma svr_vars_hi n ap am i : svr_vars n ap am (n + i) = - am i.
Proof.
  unfold svr_vars. destruct (Nat.ltb_spec (n + i) n); [lia|].
  replace (n + i - n)%nat with i by lia. reflexivity.
Qed.

Lemma svr_lin_lo n y e i : (i < n)%nat -> svr_lin qops n y e i = y i - e.
Proof. intros H. unfold svr_lin. destruct (Nat.ltb_spec i n); [reflexivity|lia]. Qed.
Lemma svr_lin_hi n y e i : svr_lin qops n y e (n + i) = y i + e.
Proof.
  unfold svr_lin. destruct (Nat.ltb_spec (n + i) n); [lia|].
  replace (n + i - n)%nat with i by lia. reflexivity.
Qed.

(* returned coefficient = alpha+ - alpha- *)
Lemma svr_coef_is_difference n ap am i :
  (i < n)%nat -> svr_coef qops n (svr_vars n ap am) i == ap i - am i.
Proof.
  intros H. unfold svr_coef. cbn [o_add qops]. rewrite svr_vars_lo by assumption.
  rewrite (Nat.add_comm i n), svr_vars_hi. ring.
Qed.

(* (K2 v)_r depends on r only through its data point and equals (K coef) there: the decision
   function built from the returned coefficients is the one the dual's gradient uses *)
Lemma svr_Kv_is_Kcoef n (K : nat -> nat -> Q) v r :
  sumn (n + n) (fun j => block2 n K r j * v j) ==
  sumn n (fun j => K (bidx n r) j * svr_coef qops n v j).
Proof.
  rewrite sumn_2n. apply sumn_ext. intros j Hj. unfold block2, svr_coef. cbn [o_add qops].
  rewrite bidx_hi, (bidx_lo n j Hj), (Nat.add_comm j n). ring.
Qed.

Theorem svr_objective_is_dual n K y e ap am :
  objv (n + n) (block2 n K) (svr_lin qops n y e) (svr_vars n ap am) == svr_dual_obj n K y e ap am.
Proof.
  unfold objv, svr_dual_obj.
  assert (E1 : sumn (n + n) (fun a => svr_lin qops n y e a * svr_vars n ap am a) ==
               sumn n (fun i => y i * (ap i - am i)) - e * sumn n (fun i => ap i + am i)).
  { rewrite sumn_2n, <- sumn_scal, <- sumn_sub. apply sumn_ext. intros i Hi.
    rewrite svr_lin_lo, svr_lin_hi, svr_vars_lo, svr_vars_hi by assumption. ring. }
  assert (E2 : sumn (n + n) (fun a => svr_vars n ap am a *
                   sumn (n + n) (fun b => block2 n K a b * svr_vars n ap am b)) ==
               sumn n (fun a => (ap a - am a) * sumn n (fun b => K a b * (ap b - am b)))).
  { rewrite sumn_2n. apply sumn_ext. intros a Ha.
    rewrite !svr_Kv_is_Kcoef, bidx_hi, (bidx_lo n a Ha), svr_vars_lo, svr_vars_hi by assumption.
    rewrite (sumn_ext n (fun j => K a j * svr_coef qops n (svr_vars n ap am) j)
               (fun b => K a b * (ap b - am b))).
    - ring.
    - intros j Hj. rewrite svr_coef_is_difference by assumption. reflexivity. }
  rewrite E1, E2. reflexivity.
Qed.

Theorem svr_problem_is_dual n y C e ap am :
  qp_feasible (svr_problem qops n y C e) (svr_vars n ap am) <-> svr_dual_feasible n C ap am.
Proof.
  unfold qp_feasible, svr_dual_feasible, svr_problem. cbn [q_dim q_lo q_hi q_eq q_init].
  assert (Es : sumn (n + n) (svr_vars n ap am) == sumn n (fun i => ap i - am i)).
  { rewrite sumn_2n. apply sumn_ext. intros i Hi.
    rewrite svr_vars_lo, svr_vars_hi by assumption. ring. }
  assert (Ez : sumn (n + n) (fun _ : nat => o_zero qops) == 0).
  { apply sumn_0. intros. reflexivity. }
  split; intros [Hb He]; split.
  - intros i Hi.
    pose proof (Hb i ltac:(lia)) as B1. pose proof (Hb (n + i)%nat ltac:(lia)) as B2.
    rewrite svr_vars_lo in B1 by assumption. rewrite svr_vars_hi in B2.
    unfold svr_lo, svr_hi, negA in B1, B2. cbn [o_sub o_zero qops] in B1, B2.
    destruct (Nat.ltb_spec i n); [|lia]. destruct (Nat.ltb_spec (n + i) n); [lia|].
    split; split; lra.
  - rewrite <- Es, (He eq_refl), Ez. reflexivity.
  - intros i Hi. unfold svr_lo, svr_hi, svr_vars, negA. cbn [o_sub o_zero qops].
    destruct (Nat.ltb_spec i n) as [L|G].
    + destruct (Hb i L) as [[H1 H2] _]. split; lra.
    + destruct (Hb (i - n)%nat ltac:(lia)) as [_ [H1 H2]]. split; lra.
  - intros _. rewrite Es, He, Ez. reflexivity.
Qed.

(* every point of the coded box arises from a pair (alpha+, alpha-) *)
Lemma svr_vars_surjective n v i :
  (i < n + n)%nat -> svr_vars n v (fun k => - v (n + k)%nat) i == v i.
Proof.
  intros H. unfold svr_vars. destruct (Nat.ltb_spec i n); [reflexivity|].
  replace (n + (i - n))%nat with i by lia. ring.
Qed.

(* ------------------------------------------------------------------ *)
(* C. one-class                                                         *)
(* ------------------------------------------------------------------ *)

Lemma qofnat_pos n : (0 < n)%nat -> 0 < qofnat n.
Proof. intros H. unfold qofnat. change 0 with (inject_Z 0). rewrite <- Zlt_Qlt. lia. Qed.

Lemma sumn_const n c : sumn n (fun _ => c) == qofnat n * c.
Proof.
  induction n.
  - unfold qofnat. cbn. ring.
  - cbn [sumn]. rewrite IHn. unfold qofnat. rewrite Nat2Z.inj_succ. unfold Z.succ.
    rewrite inject_Z_plus. ring.
Qed.

Theorem oc_objective n K nu al :
  qp_obj K (oc_problem qops 1 qofnat n nu) al ==
  - (1 # 2) * sumn n (fun a => al a * sumn n (fun b => K a b * al b)).
Proof.
  unfold qp_obj, oc_problem, objv. cbn [q_dim q_lin].
  rewrite (sumn_0 n (fun a => o_zero qops * al a)) by (intros; cbn [o_zero qops]; ring). ring.
Qed.

(* feasible set = { 0 <= alpha_i <= 1/(nu n), sum alpha = 1 } *)
Theorem oc_problem_is_dual n nu al :
  (0 < n)%nat ->
  (qp_feasible (oc_problem qops 1 qofnat n nu) al <->
   (forall i, (i < n)%nat -> 0 <= al i /\ al i <= 1 / (nu * qofnat n)) /\ sumn n al == 1).
Proof.
  intros Hn. unfold qp_feasible, oc_problem, oc_upper. cbn [q_dim q_lo q_hi q_eq q_init o_div o_mul o_zero qops].
  assert (E : sumn n (fun _ => 1 / qofnat n) == 1).
  { rewrite sumn_const. pose proof (qofnat_pos n Hn). field. lra. }
  split; intros [Hb He]; split; auto.
  - rewrite <- E. apply He. reflexivity.
  - intros _. rewrite E. exact He.
Qed.

(* the initial point 1/n is feasible for 0 < nu <= 1 *)
Theorem oc_init_feasible n nu :
  (0 < n)%nat -> 0 < nu -> nu <= 1 ->
  let p := oc_problem qops 1 qofnat n nu in qp_feasible p (q_init p).
Proof.
  intros Hn H0 H1 p. unfold p, qp_feasible, oc_problem, oc_upper.
  cbn [q_dim q_lo q_hi q_eq q_init o_div o_mul o_zero qops].
  pose proof (qofnat_pos n Hn) as Pn.
  split; [|reflexivity]. intros i Hi. split.
  - apply Qlt_le_weak. apply Qlt_shift_div_l; lra.
  - apply Qle_shift_div_l; [nra|].
    setoid_replace (1 / qofnat n * (nu * qofnat n)) with nu by (field; lra). exact H1.
Qed.

(* ------------------------------------------------------------------ *)
(* D. log-encoded regularisation parameters                             *)
(* ------------------------------------------------------------------ *)
Lemma reg_decode_pos (ex : Q -> Q) unc p :
  (forall x, 0 < ex x) -> (unc = false -> 0 < p) -> 0 < reg_decode ex unc p.
Proof. intros He Hp. unfold reg_decode. destruct unc; [apply He|apply Hp; reflexivity]. Qed.

Lemma reg_Cp_single (r0 r1 : Q) : reg_Cp r0 r1 false = reg_Cn r0 r1 false.
Proof. reflexivity. Qed.

(* ------------------------------------------------------------------ *)
(* satisfiability: a concrete 3-point weighted problem                  *)
(* ------------------------------------------------------------------ *)
Example csvmw_example_feasible :
  let lab := fun i => (i =? 0)%nat in
  let w := fun i => if (i =? 2)%nat then 1 # 2 else 1 in
  let beta := fun i : nat => if (i =? 0)%nat then 3 # 2 else if (i =? 1)%nat then 1 else 1 # 2 in
  csvm_dual_feasible 3 lab (csvm_C lab 1 2 w) true beta /\
  qp_feasible (csvmw_problem qops 1 true 3 lab 1 2 w None) (to_alpha lab beta).
Proof.
  intros lab w beta.
  assert (F : csvm_dual_feasible 3 lab (csvm_C lab 1 2 w) true beta).
  { split.
    - intros i Hi. destruct i as [|[|[|i]]]; [| | |lia]; vm_compute; split; discriminate.
    - intros _. vm_compute. reflexivity. }
  split; [exact F|]. apply csvmw_problem_is_dual; [apply cold_start_sum_zero|exact F].
Qed.

Print Assumptions csvm_objective_is_dual.
Print Assumptions csvmw_problem_is_dual.
Print Assumptions svr_objective_is_dual.
Print Assumptions svr_problem_is_dual.
Print Assumptions oc_problem_is_dual.
Print Assumptions oc_init_feasible.
Print Assumptions warm_start_feasible.
Print Assumptions rebalance_sum_zero.
