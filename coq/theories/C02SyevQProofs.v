(* C02 — Householder tridiagonalisation over Qc: a run of tred2 (phases 1 and 2 of kernels::syev) on A = [[2,1,3],[1,1,4],[3,4,5]]:
   the row (3,4) has scale 7 and h0 = 25/49 with the exact square root 5/7 (hypotheses of the step theorems satisfiable); on this
   instance the whole statement holds: Q is orthogonal and Q^T A Q is the tridiagonal matrix (d, e). *)
From Coq Require Import QArith Qcanon List Lia.
From SharkV Require Import C02Model C02Proofs C02Q C02QProofs C02PstrfQProofs C02SyevModel C02SyevProofs.
Import ListNotations.

Definition sy_sq (x : Qc) : Qc := if qc_eqb x (qc_make 25 49) then qc_make 5 7 else Q2Qc 0.
Definition sy_F := qc_ops sy_sq.
Definition ex_sy_A : mat Qc := of_rows Qc sy_F
  [[qc_make 2 1; qc_make 1 1; qc_make 3 1]; [qc_make 1 1; qc_make 1 1; qc_make 4 1]; [qc_make 3 1; qc_make 4 1; qc_make 5 1]].

Example ex_tred_house :
  match tred_house Qc sy_F qc_abs 2 ex_sy_A with
  | Some (scale, g, h, u) => qc_eqb scale (qc_make 7 1) = true /\ qc_eqb g (qc_make (-5) 7) = true /\ qc_eqb h (qc_make 45 49) = true /\
                             qc_eq_list (tab Qc 2 u) [qc_make 3 7; qc_make 9 7] = true
  | None => False
  end.
Proof. vm_compute. repeat split; reflexivity. Qed.

Definition mm3 (X Y : mat Qc) : mat Qc := fun r c => sumr Qc sy_F 0 3 (fun t => fmul sy_F (X r t) (Y t c)).
Definition tr3 (X : mat Qc) : mat Qc := fun r c => X c r.
Definition rows3 (X : mat Qc) : list Qc := concat (to_rows Qc 3 3 X).
(* d = (-23/25, 14/25, 5), e = (0, 4/5 ... ) are computed, not guessed: the statement below compares Q^T A Q with tridiag(d,e) *)
Definition ex_tred2_statement : Prop :=
  match tred2 Qc sy_F qc_abs 3 ex_sy_A with
  | (Q, d, e) =>
    let T : mat Qc := fun r c => if Nat.eqb r c then d r else if Nat.eqb r (S c) then e r else if Nat.eqb c (S r) then e c else Q2Qc 0 in
    qc_eq_list (rows3 (mm3 (tr3 Q) (mm3 ex_sy_A Q))) (rows3 T) = true /\
    qc_eq_list (rows3 (mm3 (tr3 Q) Q)) [qc_make 1 1; Q2Qc 0; Q2Qc 0; Q2Qc 0; qc_make 1 1; Q2Qc 0; Q2Qc 0; Q2Qc 0; qc_make 1 1] = true /\
    qc_eqb (e 2%nat) (qc_make (-5) 1) = true
  end.
Example ex_tred2_similarity : ex_tred2_statement.
Proof. vm_compute. repeat split; reflexivity. Qed.

(* the hypotheses of the step theorems hold for the row i = 2 of this matrix *)
Lemma ex_syev_hypotheses_satisfiable :
  exists scale g h u, tred_house Qc sy_F qc_abs 2 ex_sy_A = Some (scale, g, h, u) /\ h <> fzero sy_F /\ fadd sy_F h h <> fzero sy_F /\
    (let h0 := sumr Qc sy_F 0 2 (fun k => fmul sy_F (fdiv sy_F (ex_sy_A 2%nat k) scale) (fdiv sy_F (ex_sy_A 2%nat k) scale)) in
     fmul sy_F (fsqrt sy_F h0) (fsqrt sy_F h0) = h0).
Proof.
  pose proof ex_tred_house as H. destruct (tred_house Qc sy_F qc_abs 2 ex_sy_A) as [[[[scale g] h] u]|]; [|contradiction].
  destruct H as (H1 & _ & H3 & _). apply (qc_eqb_spec sy_sq) in H1. apply (qc_eqb_spec sy_sq) in H3. subst scale h.
  exists (qc_make 7 1), g, (qc_make 45 49), u. split; [reflexivity|]. split; [|split].
  - intros Z. apply (f_equal (fun q => Qnum (this q))) in Z. vm_compute in Z. discriminate.
  - intros Z. apply (f_equal (fun q => Qnum (this q))) in Z. vm_compute in Z. discriminate.
  - apply Qc_is_canon. vm_compute. reflexivity.
Qed.
