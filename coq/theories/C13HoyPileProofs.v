(* C13 — HOY, step (4) of stream: when every remaining point is a pile, the sweep over the groups of equal last
   objective with the trellis formula computes the measure of the dominated part of the region.  Axiom-free.
     computeTrellis(low, up, trellis) = prod (up - low) - prod (trellis - low)      (inclusion / exclusion)
     cells not dominated by the piles seen so far = the box [low, trellis)                                      *)
From Coq Require Import List ZArith Lia Bool Arith Permutation Sorted.
From SharkV Require Import ListAux C13Model C13Proofs C13Wfg C13WfgProofs C13Hoy C13HoyBoxProofs C13HoyCoverProofs.
Import ListNotations.
Local Open Scope Z_scope.

(* ---------------------------------------------------------------------------------------- *)
(* computeTrellis *)
Section Trellis.
Fixpoint ssum (low up tr : list Z) (L : list (list bool)) : Z :=
  match L with
  | [] => 0
  | bs :: L' => (if Nat.even (ones bs) then summand bs low up tr else - summand bs low up tr) + ssum low up tr L'
  end.

Lemma trellis_fold_ssum low up tr : forall L acc,
  fold_left (fun res bs => if Nat.even (ones bs) then res - summand bs low up tr else res + summand bs low up tr) L acc
  = acc - ssum low up tr L.
Proof.
  induction L as [|bs L IH]; intros acc; cbn [fold_left ssum]; [lia|]. rewrite IH.
  destruct (Nat.even (ones bs)); lia.
Qed.

Lemma ssum_app low up tr L1 L2 : ssum low up tr (L1 ++ L2) = ssum low up tr L1 + ssum low up tr L2.
Proof. induction L1 as [|bs L1 IH]; cbn [app ssum]; [lia|]. rewrite IH. lia. Qed.

Lemma ones_cons b bs : ones (b :: bs) = ((if b then 1 else 0) + ones bs)%nat.
Proof. unfold ones. cbn [filter]. destruct b; reflexivity. Qed.

Lemma ssum_step l u t low up tr : forall L,
  ssum (l :: low) (u :: up) (t :: tr) (flat_map (fun r => [false :: r; true :: r]) L) = (t - l) * ssum low up tr L.
Proof.
  induction L as [|r L IH]; cbn [flat_map ssum]; [lia|].
  rewrite ssum_app, IH. cbn [ssum app]. rewrite !ones_cons. cbn [Nat.add summand].
  rewrite Nat.even_succ, <- Nat.negb_even. destruct (Nat.even (ones r)); cbn [negb]; lia.
Qed.

Lemma ssum_all_bits : forall low up tr, length low = length up -> length low = length tr ->
  ssum low up tr (all_bits (length low)) = lprod (edges tr low).
Proof.
  induction low as [|l low IH]; intros [|u up] [|t tr] H1 H2; try discriminate.
  - cbn. lia.
  - injection H1 as H1. injection H2 as H2. cbn [length all_bits]. rewrite ssum_step, IH by auto.
    unfold edges. cbn [combine map lprod fst snd]. lia.
Qed.

Lemma all_bits_hd d : exists T, all_bits d = repeat false d :: T.
Proof.
  induction d as [|d [T IH]]; [exists []; reflexivity|]. cbn [all_bits]. rewrite IH. cbn [flat_map app repeat]. eauto.
Qed.

Lemma summand_false : forall low up tr, length low = length up -> length low = length tr ->
  summand (repeat false (length low)) low up tr = lprod (edges up low).
Proof.
  induction low as [|l low IH]; intros [|u up] [|t tr] H1 H2; try discriminate; [reflexivity|].
  injection H1 as H1. injection H2 as H2. cbn [length repeat summand]. rewrite IH by auto.
  unfold edges. cbn [combine map lprod fst snd]. lia.
Qed.

Lemma ones_repeat_false d : ones (repeat false d) = 0%nat.
Proof. induction d as [|d IH]; [reflexivity|]. cbn [repeat]. rewrite ones_cons, IH. reflexivity. Qed.

Theorem compute_trellis_formula low up tr : length low = length up -> length low = length tr ->
  compute_trellis low up tr = lprod (edges up low) - lprod (edges tr low).
Proof.
  intros H1 H2. unfold compute_trellis. rewrite trellis_fold_ssum.
  pose proof (ssum_all_bits low up tr H1 H2) as HS.
  destruct (all_bits_hd (length low)) as [T HT]. rewrite HT in HS |- *. cbn [tl]. cbn [ssum] in HS.
  rewrite ones_repeat_false in HS. cbn [Nat.even] in HS. rewrite summand_false in HS by auto. lia.
Qed.
End Trellis.

(* ---------------------------------------------------------------------------------------- *)
(* piles *)
Lemma open_dims_In low c j : In j (open_dims low c) <-> (j < length c)%nat /\ nth j low 0 < nth j c 0.
Proof.
  unfold open_dims, open_at. rewrite filter_In, in_seq, Z.ltb_lt. split; intros [H1 H2]; split; auto; lia.
Qed.

Lemma open_dims_nil low c : length c = length low -> open_dims low c = [] -> covers c low = true.
Proof.
  intros HL H. apply all2_nth; auto. intros j Hj. apply Z.leb_le.
  destruct (Z.le_gt_cases (nth j c 0) (nth j low 0)) as [Hle|Hgt]; auto.
  assert (In j (open_dims low c)) by (apply open_dims_In; split; auto; lia). rewrite H in H0. destruct H0.
Qed.

Lemma covers_open_dims low c : length c = length low -> covers c low = true -> open_dims low c = [].
Proof.
  intros HL H. destruct (open_dims low c) as [|j t] eqn:E; auto.
  assert (In j (open_dims low c)) as Hin by (rewrite E; now left). apply open_dims_In in Hin. destruct Hin as [Hj Hlt].
  pose proof (all2_true_nth _ _ _ HL H j Hj) as Hle. apply Z.leb_le in Hle. lia.
Qed.

Definition pile_ok (low : list Z) (jp : nat * hpt) : Prop :=
  let j := fst jp in let q := fst (snd jp) in
  length q = length low /\ (j < length low)%nat /\ nth j low 0 < nth j q 0 /\
  forall j', (j' < length low)%nat -> j' <> j -> nth j' q 0 <= nth j' low 0.

Lemma is_pile_ok low (p : hpt) j : length (fst p) = length low -> covers (fst p) low = false ->
  is_pile low (fst p) = Some j -> pile_ok low (j, p).
Proof.
  intros HL Hc Hp. unfold is_pile in Hp. destruct (open_dims low (fst p)) as [|j0 [|j1 t]] eqn:E; try discriminate.
  - rewrite (open_dims_nil _ _ HL E) in Hc. discriminate.
  - injection Hp as <-.
    assert (Hin : forall j', In j' (open_dims low (fst p)) <-> j' = j0) by (intros j'; rewrite E; cbn; intuition).
    pose proof (proj2 (Hin j0) eq_refl) as H0. apply open_dims_In in H0. destruct H0 as [Hj Hlt].
    unfold pile_ok. cbn [fst snd]. repeat split; auto; [lia|].
    intros j' Hj' Hne. destruct (Z.le_gt_cases (nth j' (fst p) 0) (nth j' low 0)); auto.
    exfalso. apply Hne. apply Hin. apply open_dims_In. split; [lia|lia].
Qed.

Lemma pile_list_spec low : forall P pl, pile_list low P = Some pl ->
  map snd pl = P /\ forall jp, In jp pl -> is_pile low (fst (snd jp)) = Some (fst jp).
Proof.
  induction P as [|p P IH]; intros pl H; cbn [pile_list] in H.
  - injection H as <-. split; [reflexivity|intros ? []].
  - destruct (is_pile low (fst p)) as [j|] eqn:E; [|discriminate].
    destruct (pile_list low P) as [l|] eqn:E2; [|discriminate]. injection H as <-.
    destruct (IH l eq_refl) as [H1 H2]. split; [cbn; now rewrite H1|].
    intros jp [<-|Hin]; auto.
Qed.

(* a pile dominates a cell of the region iff it does so in its own dimension *)
Lemma pile_dominates low up c jp : length low = length up -> pile_ok low jp -> inbox low up c ->
  all2 Z.leb (fst (snd jp)) c = (nth (fst jp) (fst (snd jp)) 0 <=? nth (fst jp) c 0).
Proof.
  intros HL [Lq [Hj [Hlt Hoth]]] Hb. apply inbox_nth in Hb; auto. destruct Hb as [Lc Hn].
  apply eq_true_iff_eq. rewrite all2_nth by lia. rewrite Z.leb_le. split.
  - intros H. specialize (H (fst jp) ltac:(lia)). now apply Z.leb_le in H.
  - intros H j' Hj'. apply Z.leb_le. destruct (Nat.eq_dec j' (fst jp)) as [->|Hne]; auto.
    specialize (Hoth j' ltac:(lia) Hne). specialize (Hn j' ltac:(lia)). lia.
Qed.

Lemma trellis_upd_length tr jp : length (trellis_upd tr jp) = length tr.
Proof. unfold trellis_upd. destruct (_ <? _); [apply upd_length|reflexivity]. Qed.

Lemma trellis_upd_nth tr jp j' : (fst jp < length tr)%nat ->
  nth j' (trellis_upd tr jp) 0 =
  if Nat.eqb (fst jp) j' then Z.min (nth j' tr 0) (nth (fst jp) (fst (snd jp)) 0) else nth j' tr 0.
Proof.
  intros Hj. unfold trellis_upd. cbv zeta.
  destruct (Z.ltb_spec (nth (fst jp) (fst (snd jp)) 0) (nth (fst jp) tr 0)) as [H|H].
  - rewrite nth_upd. destruct (Nat.eqb_spec (fst jp) j') as [<-|Hne]; cbn [andb].
    + destruct (Nat.ltb_spec (fst jp) (length tr)); [lia|lia].
    + reflexivity.
  - destruct (Nat.eqb_spec (fst jp) j') as [<-|Hne]; [lia|reflexivity].
Qed.

Lemma trellis_upd_lt tr jp c : length c = length tr -> (fst jp < length tr)%nat ->
  all2 Z.ltb c (trellis_upd tr jp) = all2 Z.ltb c tr && (nth (fst jp) c 0 <? nth (fst jp) (fst (snd jp)) 0).
Proof.
  intros Lc Hj. apply eq_true_iff_eq. rewrite andb_true_iff, !all2_nth by (rewrite ?trellis_upd_length; auto).
  rewrite Z.ltb_lt. split.
  - intros H. split.
    + intros j' Hj'. specialize (H j' Hj'). rewrite Z.ltb_lt in *. rewrite trellis_upd_nth in H by auto.
      destruct (Nat.eqb (fst jp) j'); lia.
    + specialize (H (fst jp) ltac:(lia)). rewrite Z.ltb_lt in H. rewrite trellis_upd_nth, Nat.eqb_refl in H by auto. lia.
  - intros [H1 H2] j' Hj'. specialize (H1 j' Hj'). rewrite Z.ltb_lt in *. rewrite trellis_upd_nth by auto.
    destruct (Nat.eqb_spec (fst jp) j') as [<-|Hne]; lia.
Qed.

Section Piles.
Variables (low up : list Z).
Hypothesis HLlow : length low = length up.
Hypothesis Hbox : Forall2 Z.le low up.

Definition tr_ok (tr : list Z) : Prop :=
  length tr = length low /\ forall j, (j < length low)%nat -> nth j low 0 <= nth j tr 0 <= nth j up 0.

Lemma Forall2_nth_le a b : length a = length b -> (forall j, (j < length a)%nat -> nth j a 0 <= nth j b 0) -> Forall2 Z.le a b.
Proof.
  revert b. induction a as [|x a IH]; intros [|y b] HL H; try discriminate; constructor.
  - apply (H 0%nat). cbn. lia.
  - apply IH; [now injection HL|]. intros j Hj. apply (H (S j)). cbn. lia.
Qed.

Lemma Forall2_le_nth a b : Forall2 Z.le a b -> forall j, nth j a 0 <= nth j b 0.
Proof. induction 1; intros [|j]; cbn [nth]; auto; lia. Qed.

Lemma tr_ok_up : tr_ok up.
Proof. split; [auto|]. intros j Hj. split; [apply Forall2_le_nth; auto|lia]. Qed.

Lemma tr_ok_upd tr jp : tr_ok tr -> pile_ok low jp -> tr_ok (trellis_upd tr jp).
Proof.
  intros [Lt Hn] [Lq [Hj [Hlt Hoth]]]. split; [now rewrite trellis_upd_length|].
  intros j' Hj'. rewrite trellis_upd_nth by lia. specialize (Hn j' Hj').
  destruct (Nat.eqb_spec (fst jp) j') as [<-|Hne]; lia.
Qed.

(* the cells of the region the piles Q dominate are those outside [low, trellis) *)
Lemma trellis_fold_spec c : inbox low up c -> forall Q tr b0, tr_ok tr -> (forall jp, In jp Q -> pile_ok low jp) ->
  b0 = negb (all2 Z.ltb c tr) ->
  b0 || existsb (fun jp => all2 Z.leb (fst (snd jp)) c) Q = negb (all2 Z.ltb c (fold_left trellis_upd Q tr)).
Proof.
  intros Hb. pose proof Hb as Hb'. apply inbox_nth in Hb'; auto. destruct Hb' as [Lc _].
  induction Q as [|jp Q IH]; intros tr b0 Ht HQ Hb0; cbn [existsb fold_left].
  - now rewrite orb_false_r.
  - rewrite orb_assoc. apply IH.
    + apply tr_ok_upd; auto. apply HQ. now left.
    + intros; apply HQ; now right.
    + assert (Pj := HQ jp (or_introl eq_refl)). rewrite (pile_dominates low up c jp HLlow Pj Hb).
      destruct Ht as [Lt _]. destruct Pj as [_ [Hj _]].
      rewrite trellis_upd_lt by lia. rewrite Hb0, negb_andb. f_equal.
      rewrite Z.leb_antisym. reflexivity.
Qed.

Lemma tr_ok_fold Q : forall tr, tr_ok tr -> (forall jp, In jp Q -> pile_ok low jp) -> tr_ok (fold_left trellis_upd Q tr).
Proof.
  induction Q as [|jp Q IH]; intros tr Ht HQ; cbn [fold_left]; auto.
  apply IH; [apply tr_ok_upd; auto; apply HQ; now left|intros; apply HQ; now right].
Qed.

Lemma piles_measure Q : (forall jp, In jp Q -> pile_ok low jp) ->
  bsum low up (fun c => if existsb (fun jp => all2 Z.leb (fst (snd jp)) c) Q then 1 else 0) =
  compute_trellis low up (fold_left trellis_upd Q up).
Proof.
  intros HQ. pose proof (tr_ok_fold Q up tr_ok_up HQ) as [Lt Hn]. set (tr := fold_left trellis_upd Q up) in *.
  rewrite compute_trellis_formula by auto.
  rewrite (bsum_ext low up _ (fun c => 1 + (if all2 Z.ltb c tr then -1 else 0))).
  - rewrite bsum_plus, bsum_const, bsum_corner; auto; [lia| |].
    + apply Forall2_nth_le; [lia|]. intros j Hj. apply Hn; auto.
    + apply Forall2_nth_le; [lia|]. intros j Hj. apply Hn; lia.
  - intros c Hb. pose proof (trellis_fold_spec c Hb Q up false tr_ok_up HQ) as H. cbn [orb] in H. fold tr in H.
    rewrite H.
    + destruct (all2 Z.ltb c tr); reflexivity.
    + assert (all2 Z.ltb c up = true) as ->; [|reflexivity].
      apply inbox_nth in Hb; auto. destruct Hb as [Lc Hc]. apply all2_nth; [lia|].
      intros j Hj. apply Z.ltb_lt. apply Hc. lia.
Qed.

(* ---------------------------------------------------------------------------------------- *)
(* the sweep *)
Definition plast (jp : nat * hpt) : Z := snd (snd jp).
Definition by_plast (a b : nat * hpt) : Prop := plast a <= plast b.
Definition upto (z : Z) (pl : list (nat * hpt)) : list (nat * hpt) := filter (fun jp => plast jp <=? z) pl.

Lemma upto_none z pl : (forall jp, In jp pl -> z < plast jp) -> upto z pl = [].
Proof. intros H. apply filter_none. intros jp Hin. apply Z.leb_gt. auto. Qed.

Lemma pile_sweep_one tr jp cover acc :
  pile_sweep low up tr [jp] cover acc = acc + compute_trellis low up (trellis_upd tr jp) * (cover - plast jp).
Proof. reflexivity. Qed.

Lemma pile_sweep_two tr jp jq t cover acc :
  pile_sweep low up tr (jp :: jq :: t) cover acc =
  if plast jq =? plast jp then pile_sweep low up (trellis_upd tr jp) (jq :: t) cover acc
  else if plast jq =? cover then acc + compute_trellis low up (trellis_upd tr jp) * (plast jq - plast jp)
       else pile_sweep low up (trellis_upd tr jp) (jq :: t) cover (acc + compute_trellis low up (trellis_upd tr jp) * (plast jq - plast jp)).
Proof. reflexivity. Qed.

Lemma pile_sweep_sum cover : forall pl tr acc, pl <> [] -> StronglySorted by_plast pl ->
  (forall jp, In jp pl -> plast jp < cover) ->
  pile_sweep low up tr pl cover acc =
  acc + zsum (plast (hd (0%nat, ([], 0)) pl)) cover
             (fun z => compute_trellis low up (fold_left trellis_upd (upto z pl) tr)).
Proof.
  induction pl as [|jp pl IH]; intros tr acc Hne HS Hlt; [congruence|].
  apply StronglySorted_inv in HS. destruct HS as [HS HF]. rewrite Forall_forall in HF.
  cbn [hd]. destruct pl as [|jq t].
  - rewrite pile_sweep_one. f_equal.
    rewrite (zsum_ext _ _ _ (fun _ => compute_trellis low up (trellis_upd tr jp))).
    + rewrite zsum_const; [reflexivity|]. specialize (Hlt jp (or_introl eq_refl)). lia.
    + intros z Hz. unfold upto. cbn [filter]. destruct (Z.leb_spec (plast jp) z); [reflexivity|lia].
  - assert (Hq : plast jp <= plast jq) by (apply (HF jq); now left).
    assert (Hlt' : forall x, In x (jq :: t) -> plast x < cover) by (intros; apply Hlt; now right).
    assert (Hhead : forall z, plast jp <= z ->
              fold_left trellis_upd (upto z (jp :: jq :: t)) tr = fold_left trellis_upd (upto z (jq :: t)) (trellis_upd tr jp)).
    { intros z Hz. unfold upto at 1. cbn [filter]. destruct (Z.leb_spec (plast jp) z); [reflexivity|lia]. }
    rewrite pile_sweep_two.
    destruct (Z.eqb_spec (plast jq) (plast jp)) as [E|NE].
    + rewrite IH by (auto; discriminate). cbn [hd]. rewrite E. f_equal.
      apply zsum_ext. intros z Hz. rewrite Hhead by lia. reflexivity.
    + pose proof (Hlt' jq (or_introl eq_refl)) as Hc.
      destruct (Z.eqb_spec (plast jq) cover) as [E2|_]; [lia|].
      rewrite IH by (auto; discriminate). cbn [hd].
      rewrite (zsum_split (plast jp) (plast jq) cover) by lia.
      rewrite <- Z.add_assoc. f_equal. f_equal.
      * rewrite (zsum_ext _ _ _ (fun _ => compute_trellis low up (trellis_upd tr jp))).
        -- rewrite zsum_const by lia. reflexivity.
        -- intros z Hz. rewrite Hhead by lia. rewrite upto_none; [reflexivity|].
           intros x [<-|Hx]; [lia|]. apply StronglySorted_inv in HS. destruct HS as [_ HF2].
           rewrite Forall_forall in HF2. specialize (HF2 x Hx). unfold by_plast in HF2. lia.
      * apply zsum_ext. intros z Hz. rewrite Hhead by lia. reflexivity.
Qed.

(* step (4) *)
Theorem pile_sweep_vol P pl zlo cover res :
  pile_list low P = Some pl -> P <> [] ->
  (forall p, In p P -> length (fst p) = length low /\ covers (fst p) low = false /\ zlo <= snd p < cover) ->
  StronglySorted by_last P ->
  pile_sweep low up up pl cover res = res + vol low up zlo cover P.
Proof.
  intros Hpl Hne HP HS. destruct (pile_list_spec _ _ _ Hpl) as [Hmap Hpile].
  assert (Hok : forall jp, In jp pl -> pile_ok low jp).
  { intros [j p] Hin. assert (In p P) as Hp by (rewrite <- Hmap; apply (in_map snd _ _ Hin)).
    destruct (HP p Hp) as [Lp [Hc _]]. apply is_pile_ok; auto. apply (Hpile _ Hin). }
  assert (HSpl : StronglySorted by_plast pl).
  { clear - Hmap HS. revert P Hmap HS. induction pl as [|jp pl IH]; intros P Hmap HS; [constructor|].
    destruct P as [|p P]; [discriminate|]. cbn [map] in Hmap. injection Hmap as E1 E2.
    apply StronglySorted_inv in HS. destruct HS as [HS HF]. constructor; [eapply IH; eauto|].
    rewrite Forall_forall in *. intros x Hx. unfold by_plast, plast. rewrite E1.
    apply (HF (snd x)). rewrite <- E2. now apply in_map. }
  assert (Hplne : pl <> []) by (intros ->; cbn in Hmap; congruence).
  assert (Hlt : forall jp, In jp pl -> zlo <= plast jp < cover).
  { intros jp Hin. apply (HP (snd jp)). rewrite <- Hmap. now apply in_map. }
  rewrite pile_sweep_sum; auto; [|intros; apply Hlt; auto]. f_equal.
  destruct pl as [|jp0 pl']; [congruence|]. cbn [hd].
  pose proof (Hlt jp0 (or_introl eq_refl)) as H0.
  unfold vol. rewrite (zsum_split zlo (plast jp0) cover) by lia.
  rewrite (zsum_zero zlo (plast jp0)).
  - cbn [Z.add]. apply zsum_ext. intros z Hz. rewrite <- piles_measure.
    2:{ intros jp Hin. apply Hok. unfold upto in Hin. apply filter_In in Hin. apply Hin. }
    apply bsum_ext. intros c Hb. unfold ind. apply ite_eq. apply existsb_ext_in.
    + intros jp Hin Hd. unfold upto in Hin. apply filter_In in Hin. destruct Hin as [Hin Hz'].
      exists (snd jp). split; [rewrite <- Hmap; now apply in_map|]. unfold dom1. rewrite Hd. exact Hz'.
    + intros p Hp Hd. rewrite <- Hmap in Hp. apply in_map_iff in Hp. destruct Hp as [jp [<- Hin]].
      unfold dom1 in Hd. apply andb_true_iff in Hd. destruct Hd as [Hd1 Hd2].
      exists jp. split; auto. unfold upto. apply filter_In. split; auto.
  - intros z Hz. apply bsum_zero. intros c _. unfold ind.
    assert (existsb (dom1 c z) P = false) as ->; [|reflexivity].
    destruct (existsb (dom1 c z) P) eqn:E; auto. apply existsb_exists in E. destruct E as [p [Hp Hd]].
    unfold dom1 in Hd. apply andb_true_iff in Hd. destruct Hd as [_ Hd]. apply Z.leb_le in Hd.
    rewrite <- Hmap in Hp. apply in_map_iff in Hp. destruct Hp as [jp [<- Hin]].
    apply StronglySorted_inv in HSpl. destruct HSpl as [_ HF]. rewrite Forall_forall in HF.
    destruct Hin as [<-|Hin]; [unfold plast in Hz; lia|]. specialize (HF jp Hin). unfold by_plast, plast in *. lia.
Qed.
End Piles.
