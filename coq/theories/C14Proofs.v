(* C14 — proofs about the model in C14Model.v (axiom-free; lists, nat, Z). *)
From Coq Require Import List ZArith Lia Bool Arith Permutation.
From SharkV Require Import ListAux C13Model C13Proofs C14Model.
Import ListNotations.

(* ========================================================================================== *)
(* 0. list helpers *)

Lemma nth_upd_false k i (s : list bool) :
  nth i (upd k false s) false = if i =? k then false else nth i s false.
Proof.
  rewrite nth_upd. destruct (Nat.eqb_spec k i) as [->|N].
  - rewrite Nat.eqb_refl. simpl. destruct (Nat.ltb_spec i (length s)); auto.
    rewrite nth_overflow; auto.
  - destruct (Nat.eqb_spec i k); [congruence|]. reflexivity.
Qed.

Lemma unset_all_length l : forall s, length (unset_all l s) = length s.
Proof.
  unfold unset_all. induction l; intros; simpl; auto. rewrite IHl, upd_length. auto.
Qed.

Lemma nth_unset_all l : forall s i,
  nth i (unset_all l s) false = negb (existsb (Nat.eqb i) l) && nth i s false.
Proof.
  unfold unset_all. induction l as [|k l IH]; intros s i; simpl; auto.
  rewrite IH, nth_upd_false. destruct (i =? k); simpl; auto. apply andb_false_r.
Qed.

Lemma count_true_le s : count_true s <= length s.
Proof. unfold count_true. induction s as [|[] s IH]; simpl; lia. Qed.

Lemma count_true_upd_false k : forall s, k < length s -> nth k s false = true ->
  count_true (upd k false s) + 1 = count_true s.
Proof.
  unfold count_true. induction k as [|k IH]; intros [|b s] L H; simpl in *; try lia.
  - subst b. simpl. lia.
  - specialize (IH s ltac:(lia) H). destruct b; simpl; lia.
Qed.

Lemma count_true_unset_all l : forall s, NoDup l ->
  (forall k, In k l -> k < length s /\ nth k s false = true) ->
  count_true (unset_all l s) + length l = count_true s.
Proof.
  unfold unset_all. induction l as [|k l IH]; intros s ND H; simpl; [lia|].
  inversion ND as [|? ? Hnin ND']; subst.
  destruct (H k (or_introl eq_refl)) as [Lk Tk].
  pose proof (count_true_upd_false k s Lk Tk) as E.
  rewrite <- E. rewrite <- (IH (upd k false s) ND'); [lia|].
  intros k' Hk'. rewrite upd_length, nth_upd_false.
  destruct (Nat.eqb_spec k' k) as [->|]; [contradiction|]. apply H. now right.
Qed.

Lemma count_true_map {A} (f : A -> bool) l : count_true (map f l) = length (filter f l).
Proof. unfold count_true. induction l as [|a l IH]; simpl; auto. destruct (f a); simpl; auto. Qed.

Lemma nth_repeat_true n : forall i, nth i (repeat true n) false = (i <? n).
Proof. induction n as [|n IH]; intros [|i]; simpl; auto. rewrite IH. reflexivity. Qed.

Lemma filter_all {A} (f : A -> bool) l : (forall x, In x l -> f x = true) -> filter f l = l.
Proof.
  induction l as [|a l IH]; intros H; simpl; auto.
  rewrite (H a (or_introl eq_refl)). f_equal. apply IH. intros; apply H; now right.
Qed.

Lemma filter_none {A} (f : A -> bool) l : (forall x, In x l -> f x = false) -> filter f l = [].
Proof.
  induction l as [|a l IH]; intros H; simpl; auto.
  rewrite (H a (or_introl eq_refl)). apply IH. intros; apply H; now right.
Qed.

(* filtering indices by a predicate on the element = filtering the elements *)
Lemma filter_seq_nth_off {A} (f : A -> bool) d : forall (r : list A) off,
  map (fun i => nth (i - off) r d) (filter (fun i => f (nth (i - off) r d)) (seq off (length r))) = filter f r.
Proof.
  induction r as [|a r IH]; intros off; [reflexivity|].
  cbn [length seq filter]. rewrite Nat.sub_diag. cbn [nth].
  assert (E : forall i, In i (seq (Datatypes.S off) (length r)) ->
              nth (i - off) (a :: r) d = nth (i - Datatypes.S off) r d).
  { intros i Hi. apply in_seq in Hi. replace (i - off) with (Datatypes.S (i - Datatypes.S off)) by lia. reflexivity. }
  rewrite (filter_ext_in (fun i => f (nth (i - off) (a :: r) d)) (fun i => f (nth (i - Datatypes.S off) r d)))
    by (intros i Hi; rewrite E; auto).
  destruct (f a); cbn [map].
  - rewrite Nat.sub_diag. cbn [nth]. f_equal. rewrite <- (IH (Datatypes.S off)). apply map_ext_in.
    intros i Hi. apply filter_In in Hi. apply E. tauto.
  - rewrite <- (IH (Datatypes.S off)). apply map_ext_in.
    intros i Hi. apply filter_In in Hi. apply E. tauto.
Qed.

Lemma filter_seq_nth {A} (f : A -> bool) d (r : list A) :
  map (fun i => nth i r d) (filter (fun i => f (nth i r d)) (seq 0 (length r))) = filter f r.
Proof.
  rewrite <- (filter_seq_nth_off f d r 0).
  rewrite (filter_ext (fun i => f (nth (i - 0) r d)) (fun i => f (nth i r d))) by (intros; now rewrite Nat.sub_0_r).
  apply map_ext. intros; now rewrite Nat.sub_0_r.
Qed.

Lemma remove_nth_length {A} : forall i (l : list A), i < length l ->
  Datatypes.S (length (remove_nth i l)) = length l.
Proof. induction i as [|i IH]; intros [|a l] H; simpl in *; try lia. rewrite IH; lia. Qed.

Lemma In_remove_nth {A} (x : A) : forall i l, In x (remove_nth i l) -> In x l.
Proof.
  induction i as [|i IH]; intros [|a l] H; simpl in *; auto.
  destruct H as [->|H]; auto.
Qed.

Lemma NoDup_remove_nth {A} : forall i (l : list A), NoDup l -> NoDup (remove_nth i l).
Proof.
  induction i as [|i IH]; intros [|a l] H; simpl; auto; inversion H; subst; auto.
  constructor; auto. intros Hin. apply In_remove_nth in Hin. contradiction.
Qed.

Lemma nth_notin_remove_nth {A} (d : A) : forall i l, NoDup l -> i < length l ->
  ~ In (nth i l d) (remove_nth i l).
Proof.
  induction i as [|i IH]; intros [|a l] ND L; simpl in *; try lia; inversion ND; subst; auto.
  intros [E|Hin].
  - apply H1. rewrite E. apply nth_In. lia.
  - revert Hin. apply IH; auto. lia.
Qed.

Lemma NoDup_map_nth (F d : list nat) : NoDup F -> NoDup d -> (forall i, In i d -> i < length F) ->
  NoDup (map (fun i => nth i F 0) d).
Proof.
  intros NF. induction d as [|a d IH]; intros ND H; simpl; [constructor|].
  inversion ND; subst. constructor.
  - intros Hin. apply in_map_iff in Hin. destruct Hin as [b [E Hb]].
    assert (a = b); [|subst; contradiction].
    symmetry. apply (proj1 (NoDup_nth F 0) NF); auto; apply H; simpl; auto.
  - apply IH; auto. intros; apply H; simpl; auto.
Qed.

(* ========================================================================================== *)
(* 1. fronts and counting *)

Definition cnt_le (r : list nat) (k : nat) : nat := length (filter (fun x => x <=? k) r).
Definition cnt_eq (r : list nat) (k : nat) : nat := length (filter (fun x => x =? k) r).

Lemma front_idx_In r k i : In i (front_idx r k) <-> i < length r /\ nth i r 0 = k.
Proof. unfold front_idx. rewrite filter_In, in_seq, Nat.eqb_eq. intuition lia. Qed.

Lemma front_idx_NoDup r k : NoDup (front_idx r k).
Proof. apply NoDup_filter, seq_NoDup. Qed.

Lemma front_idx_length r k : length (front_idx r k) = cnt_eq r k.
Proof.
  unfold cnt_eq, front_idx. rewrite <- (filter_seq_nth (fun x => x =? k) 0 r). now rewrite map_length.
Qed.

Lemma existsb_front_idx r k i :
  existsb (Nat.eqb i) (front_idx r k) = (i <? length r) && (nth i r 0 =? k).
Proof.
  apply eq_true_iff_eq. rewrite existsb_exists, andb_true_iff, Nat.ltb_lt, Nat.eqb_eq. split.
  - intros [x [Hin E]]. apply Nat.eqb_eq in E. subst x. now apply front_idx_In.
  - intros H. exists i. split; [now apply front_idx_In|apply Nat.eqb_refl].
Qed.

Lemma cnt_le_S r k : cnt_le r (Datatypes.S k) = cnt_le r k + cnt_eq r (Datatypes.S k).
Proof.
  unfold cnt_le, cnt_eq. induction r as [|a r IH]; simpl; auto.
  destruct (Nat.leb_spec a (Datatypes.S k)), (Nat.leb_spec a k), (Nat.eqb_spec a (Datatypes.S k)); simpl; lia.
Qed.

Lemma cnt_le_max r : cnt_le r (list_max r) = length r.
Proof.
  unfold cnt_le. rewrite filter_all; auto. intros x Hx. apply Nat.leb_le. now apply list_max_ge.
Qed.

Lemma cnt_le_0 r : (forall i, i < length r -> 1 <= nth i r 0) -> cnt_le r 0 = 0.
Proof.
  intros H. unfold cnt_le. rewrite filter_none; auto. intros x Hx.
  destruct (In_nth r x 0 Hx) as [i [Hi E]]. specialize (H i Hi). apply Nat.leb_gt. lia.
Qed.

Lemma count_true_pointwise r k s : length s = length r ->
  (forall i, nth i s false = (i <? length r) && (nth i r 0 <=? k)) -> count_true s = cnt_le r k.
Proof.
  intros L H. unfold cnt_le. rewrite <- count_true_map. f_equal.
  apply (nth_ext _ _ false false); [now rewrite map_length|].
  intros i Hi. rewrite H. rewrite L in Hi. destruct (Nat.ltb_spec i (length r)); [|lia]. simpl.
  rewrite (nth_indep _ false (0 <=? k)) by (rewrite map_length; auto).
  symmetry. exact (map_nth (fun x => x <=? k) r 0 i).
Qed.

(* the deselect-whole-fronts loop *)
Lemma drop_loop_spec r mu : forall rank popSize sel rk ps s',
  popSize = cnt_le r rank -> mu <= popSize -> length sel = length r ->
  (forall i, nth i sel false = (i <? length r) && (nth i r 0 <=? rank)) ->
  drop_loop r mu rank popSize sel = (rk, ps, s') ->
  ps = cnt_le r rk /\ mu <= ps /\ (rk = 0 \/ cnt_le r (pred rk) < mu) /\ length s' = length r /\
  (forall i, nth i s' false = (i <? length r) && (nth i r 0 <=? rk)).
Proof.
  induction rank as [|rank IH]; intros popSize sel rk ps s' EP Hmu L PW E; simpl in E.
  - inversion E; subst. repeat split; auto.
  - rewrite front_idx_length in E.
    assert (EC : popSize - cnt_eq r (Datatypes.S rank) = cnt_le r rank) by (rewrite EP, cnt_le_S; lia).
    rewrite EC in E.
    destruct (Nat.leb_spec mu (cnt_le r rank)) as [Hle|Hgt].
    + apply IH in E; auto.
      * now rewrite unset_all_length.
      * intros i. rewrite nth_unset_all, existsb_front_idx, PW.
        destruct (Nat.ltb_spec i (length r)); simpl; auto.
        destruct (Nat.eqb_spec (nth i r 0) (Datatypes.S rank)), (Nat.leb_spec (nth i r 0) (Datatypes.S rank)),
          (Nat.leb_spec (nth i r 0) rank); simpl; auto; lia.
    + inversion E; subst. repeat split; auto.
Qed.

(* ========================================================================================== *)
(* 2. IndicatorBasedSelection *)

Definition valid_oracle (lcs : list point -> list point -> nat -> list nat) : Prop :=
  forall F A K, K <= length F ->
    length (lcs F A K) = K /\ NoDup (lcs F A K) /\ (forall i, In i (lcs F A K) -> i < length F).

Section SelProofs.
  Variable lcs : list point -> list point -> nat -> list nat.
  Hypothesis lcs_valid : valid_oracle lcs.

  Lemma select_spec r S mu : 1 <= mu <= length r -> (forall i, i < length r -> 1 <= nth i r 0) ->
    let o := select_with_ranks lcs r S mu in
    exists rk s1,
      1 <= rk /\ o_rank o = rk /\ mu <= cnt_le r rk /\ cnt_le r (pred rk) < mu /\
      o_sel o = unset_all (o_removed o) s1 /\ length s1 = length r /\
      (forall i, nth i s1 false = (i <? length r) && (nth i r 0 <=? rk)) /\
      NoDup (o_removed o) /\ length (o_removed o) = cnt_le r rk - mu /\
      o_K o = cnt_le r rk - mu /\ o_K o < length (o_front o) /\
      (forall x, In x (o_removed o) -> x < length r /\ nth x r 0 = rk).
  Proof.
    intros Hmu R1. unfold select_with_ranks.
    destruct (drop_loop r mu (list_max r) (length r) (repeat true (length r))) as [[rk ps] s1] eqn:E.
    apply drop_loop_spec in E.
    - destruct E as [EP [Hps [Hrk [L1 PW]]]]. cbn [o_sel o_rank o_removed o_K o_front].
      assert (Hrk1 : 1 <= rk).
      { destruct rk; [|lia]. rewrite (cnt_le_0 r R1) in EP. lia. }
      destruct Hrk as [->|Hlt]; [lia|].
      set (F := front_idx r rk). set (A := flat_map (front_idx r) (seq 1 (rk - 1))).
      assert (HK : ps - mu < length F).
      { unfold F. rewrite front_idx_length. destruct rk; [lia|]. rewrite cnt_le_S in EP. simpl in Hlt. lia. }
      destruct (lcs_valid (pts S F) (pts S A) (ps - mu)) as [LD [ND VD]].
      { unfold pts. rewrite map_length. lia. }
      assert (VD' : forall i, In i (lcs (pts S F) (pts S A) (ps - mu)) -> i < length F).
      { intros i Hi. specialize (VD i Hi). unfold pts in VD. now rewrite map_length in VD. }
      clear VD. rename VD' into VD.
      exists rk, s1. subst ps. repeat split; auto.
      + apply NoDup_map_nth; auto. apply front_idx_NoDup.
      + rewrite map_length. exact LD.
      + apply in_map_iff in H. destruct H as [lc [<- Hlc]].
        assert (In (nth lc F 0) F) as Hin by (apply nth_In; auto). apply front_idx_In in Hin. tauto.
      + apply in_map_iff in H. destruct H as [lc [<- Hlc]].
        assert (In (nth lc F 0) F) as Hin by (apply nth_In; auto). apply front_idx_In in Hin. tauto.
    - now rewrite cnt_le_max.
    - lia.
    - now rewrite repeat_length.
    - intros i. rewrite nth_repeat_true. destruct (Nat.ltb_spec i (length r)); simpl; auto.
      symmetry. apply Nat.leb_le. apply list_max_ge. now apply nth_In.
  Qed.

  Theorem selection_count r S mu :
    1 <= mu <= length r -> (forall i, i < length r -> 1 <= nth i r 0) ->
    count_true (o_sel (select_with_ranks lcs r S mu)) = mu /\
    length (o_sel (select_with_ranks lcs r S mu)) = length r.
  Proof.
    intros Hmu R1. destruct (select_spec r S mu Hmu R1) as [rk [s1 H]].
    destruct H as [Hrk [_ [Hle [Hlt [ES [L1 [PW [ND [LR [_ [_ VR]]]]]]]]]]].
    rewrite ES. split; [|now rewrite unset_all_length].
    pose proof (count_true_unset_all (o_removed (select_with_ranks lcs r S mu)) s1 ND) as C.
    rewrite (count_true_pointwise r rk s1 L1 PW) in C. rewrite LR in C.
    enough (HC : forall k, In k (o_removed (select_with_ranks lcs r S mu)) ->
                   k < length s1 /\ nth k s1 false = true) by (specialize (C HC); lia).
    intros k Hk. destruct (VR k Hk) as [Lk Ek]. rewrite L1, PW. split; auto.
    destruct (Nat.ltb_spec k (length r)); [|lia]. simpl. apply Nat.leb_le. lia.
  Qed.

  Theorem selection_rank_monotone r S mu :
    1 <= mu <= length r -> (forall i, i < length r -> 1 <= nth i r 0) ->
    let sel := o_sel (select_with_ranks lcs r S mu) in
    forall i j, i < length r -> j < length r ->
      nth i sel false = true -> nth j sel false = false -> nth i r 0 <= nth j r 0.
  Proof.
    intros Hmu R1 sel i j Hi Hj Si Sj. unfold sel in *.
    destruct (select_spec r S mu Hmu R1) as [rk [s1 H]].
    destruct H as [Hrk [_ [Hle [Hlt [ES [L1 [PW [ND [LR [_ [_ VR]]]]]]]]]]].
    rewrite ES in Si, Sj. rewrite nth_unset_all, PW in Si, Sj.
    apply andb_true_iff in Si. destruct Si as [_ Si]. apply andb_true_iff in Si. destruct Si as [_ Si].
    apply Nat.leb_le in Si.
    destruct (existsb (Nat.eqb j) (o_removed (select_with_ranks lcs r S mu))) eqn:Ex.
    - apply existsb_exists in Ex. destruct Ex as [x [Hx E]]. apply Nat.eqb_eq in E. subst x.
      destruct (VR j Hx). lia.
    - simpl in Sj. destruct (Nat.ltb_spec j (length r)); [|lia]. simpl in Sj. apply Nat.leb_gt in Sj. lia.
  Qed.
End SelProofs.

(* ========================================================================================== *)
(* 3. the one-at-a-time leastContributors of HypervolumeIndicator / AdditiveEpsilonIndicator /
      CrowdingDistance is a valid oracle for ANY leastContributor returning an index into its
      (non-empty) argument *)
Section LcIter.
  Variable lc : list point -> list point -> nat.
  Hypothesis lc_valid : forall P A, P <> [] -> lc P A < length P.

  Lemma lc_iter_valid : forall K P act A, length act = length P -> K <= length P -> NoDup act ->
    length (lc_iter lc K P act A) = K /\ NoDup (lc_iter lc K P act A) /\
    forall x, In x (lc_iter lc K P act A) -> In x act.
  Proof.
    induction K as [|K IH]; intros P act A L HK ND; simpl.
    - repeat split; [constructor|tauto].
    - assert (HP : P <> []) by (destruct P; simpl in *; [lia|discriminate]).
      pose proof (lc_valid P A HP) as Hi. set (idx := lc P A) in *.
      destruct (IH (remove_nth idx P) (remove_nth idx act) A) as [L' [ND' IN']].
      + pose proof (remove_nth_length idx P Hi). pose proof (remove_nth_length idx act ltac:(lia)). lia.
      + pose proof (remove_nth_length idx P Hi). lia.
      + now apply NoDup_remove_nth.
      + repeat split.
        * now rewrite L'.
        * constructor; auto. intros Hin. apply IN' in Hin. revert Hin.
          apply nth_notin_remove_nth; auto. lia.
        * intros x [<-|Hx]; [apply nth_In; lia|]. apply IN' in Hx. eapply In_remove_nth; eauto.
  Qed.

  Theorem least_contributors_valid : valid_oracle (least_contributors lc).
  Proof.
    intros F A K HK. unfold least_contributors.
    destruct (lc_iter_valid K F (seq 0 (length F)) A) as [L [ND IN]]; auto.
    - now rewrite seq_length.
    - apply seq_NoDup.
    - repeat split; auto. intros i Hi. apply IN in Hi. apply in_seq in Hi. lia.
  Qed.
End LcIter.

(* ========================================================================================== *)
(* 4. hypervolume facts derived from C13 *)
Local Open Scope Z_scope.

Lemma hv_spec_incl ref S S' : (forall p, In p S -> In p S') -> hv_spec ref S <= hv_spec ref S'.
Proof.
  intros H. set (lo := Z.min (min_coord ref S) (min_coord ref S')).
  rewrite (hv_spec_any_lo ref S lo), (hv_spec_any_lo ref S' lo).
  - apply hv_box_mono. intros p Hp. apply in_map_iff in Hp. destruct Hp as [q [<- Hq]]. apply in_map. auto.
  - eapply lower_bound_weaken; [apply (min_coord_lower_bound ref)|]. unfold lo; lia.
  - eapply lower_bound_weaken; [apply (min_coord_lower_bound ref)|]. unfold lo; lia.
Qed.

(* every point of S is weakly dominated by a point of S' *)
Lemma hv_spec_covered_le ref S S' :
  (forall p, In p S -> exists q, In q S' /\ leq_all q p) -> hv_spec ref S <= hv_spec ref S'.
Proof.
  intros H. transitivity (hv_spec ref (S ++ S')).
  - apply hv_spec_incl. intros; apply in_or_app; auto.
  - apply Z.eq_le_incl. induction S as [|p S IH]; simpl; auto.
    rewrite hv_spec_add_covered.
    + apply IH. intros; apply H; right; auto.
    + destruct (H p (or_introl eq_refl)) as [q [Hq Hle]]. exists q. split; auto. apply in_or_app; auto.
Qed.

Local Close Scope Z_scope.

(* ========================================================================================== *)
(* 5. flags, keep, replace_first_unselected *)

Lemma keep_In sel : forall Q p,
  In p (keep sel Q) <-> exists i, i < length Q /\ nth i sel false = true /\ nth i Q [] = p.
Proof.
  induction sel as [|b sel IH]; intros [|q Q] p; simpl.
  - split; [tauto|]. intros [i [Hi _]]. lia.
  - split; [tauto|]. intros [[|i] [_ [H _]]]; discriminate.
  - split; [tauto|]. intros [i [Hi _]]. lia.
  - destruct b; simpl; rewrite IH; split.
    + intros [<-|[i [Hi [Hs Hq]]]]; [exists 0; repeat split; auto; lia|].
      exists (Datatypes.S i). repeat split; auto; lia.
    + intros [[|i] [Hi [Hs Hq]]]; auto. right. exists i. repeat split; auto; lia.
    + intros [i [Hi [Hs Hq]]]. exists (Datatypes.S i). repeat split; auto; lia.
    + intros [[|i] [Hi [Hs Hq]]]; [discriminate|]. exists i. repeat split; auto; lia.
Qed.

Lemma keep_repeat_true Q : keep (repeat true (length Q)) Q = Q.
Proof. induction Q; simpl; congruence. Qed.

Lemma keep_upd_repeat : forall Q x,
  keep (upd x false (repeat true (length Q))) Q = remove_nth x Q.
Proof.
  induction Q as [|q Q IH]; intros [|x]; simpl; auto.
  - apply keep_repeat_true.
  - now rewrite IH.
Qed.

Lemma remove_nth_last {A} (P : list A) o : remove_nth (length P) (P ++ [o]) = P.
Proof. induction P; simpl; congruence. Qed.

Lemma one_false s : forall x, x < length s -> nth x s false = false -> count_true s + 1 <= length s.
Proof.
  unfold count_true. induction s as [|b s IH]; intros [|x] L H; simpl in *; try lia.
  - subst b. pose proof (count_true_le s). unfold count_true in *. lia.
  - specialize (IH x ltac:(lia) H). destruct b; simpl; lia.
Qed.

Lemma two_false s : forall x y, x <> y -> x < length s -> y < length s ->
  nth x s false = false -> nth y s false = false -> count_true s + 2 <= length s.
Proof.
  induction s as [|b s IH]; intros [|x] [|y] N Lx Ly Hx Hy; simpl in *; try lia.
  - subst b. pose proof (one_false s y ltac:(lia) Hy). unfold count_true in *. simpl. lia.
  - subst b. pose proof (one_false s x ltac:(lia) Hx). unfold count_true in *. simpl. lia.
  - specialize (IH x y ltac:(lia) ltac:(lia) ltac:(lia) Hx Hy). unfold count_true in *.
    destruct b; simpl; lia.
Qed.

Lemma count_true_firstn_last s : forall k, length s = Datatypes.S k ->
  count_true s = count_true (firstn k s) + (if nth k s false then 1 else 0).
Proof.
  unfold count_true. induction s as [|b s IH]; intros k L; simpl in L; [lia|].
  destruct k as [|k].
  - destruct s; [|simpl in L; lia]. destruct b; reflexivity.
  - specialize (IH k ltac:(lia)). cbn [firstn nth filter]. destruct b; simpl; lia.
Qed.

Lemma nth_firstn_lt {A} (d : A) : forall k l i, i < k -> nth i (firstn k l) d = nth i l d.
Proof.
  induction k as [|k IH]; intros [|a l] [|i] H; simpl; auto; try lia. apply IH. lia.
Qed.

Lemma rfu_keeps_selected : forall sel P o i, i < length P -> nth i sel false = true ->
  In (nth i P []) (replace_first_unselected sel P o).
Proof.
  induction sel as [|b sel IH]; intros [|p P] o [|i] L H; simpl in *; try lia; try discriminate.
  - subst b. simpl. auto.
  - destruct b; simpl.
    + right. apply IH; auto. lia.
    + right. apply nth_In. lia.
Qed.

Lemma rfu_inserts : forall sel P o, length sel = length P -> count_true sel < length sel ->
  In o (replace_first_unselected sel P o).
Proof.
  unfold count_true. induction sel as [|b sel IH]; intros [|p P] o L H; simpl in *; try lia.
  destruct b; simpl in *; auto. right. apply IH; lia.
Qed.

Lemma list_max_all1 r : r <> [] -> (forall x, In x r -> x = 1) -> list_max r = 1.
Proof.
  induction r as [|a r IH]; intros N H; [congruence|]. simpl.
  rewrite (H a (or_introl eq_refl)). destruct r as [|b r]; [reflexivity|].
  rewrite IH; auto; [discriminate|]. intros; apply H; now right.
Qed.

Lemma pts_seq Q : pts Q (seq 0 (length Q)) = Q.
Proof.
  unfold pts. apply (nth_ext _ _ [] []); [now rewrite map_length, seq_length|].
  intros i Hi. rewrite map_length, seq_length in Hi.
  rewrite (nth_indep _ [] ((fun i => nth i Q []) 0)) by (now rewrite map_length, seq_length).
  rewrite (map_nth (fun i => nth i Q [])). now rewrite seq_nth.
Qed.

(* a population that is one single front: the loop stops immediately and the indicator is asked
   for n - mu members of the whole population *)
Lemma select_single_front lcs r S mu :
  r <> [] -> (forall i, i < length r -> nth i r 0 = 1) -> 1 <= mu ->
  o_sel (select_with_ranks lcs r S mu) =
  unset_all (map (fun lc => nth lc (seq 0 (length r)) 0)
                 (lcs (pts S (seq 0 (length r))) [] (length r - mu))) (repeat true (length r)).
Proof.
  intros N H Hmu. unfold select_with_ranks.
  assert (M : list_max r = 1).
  { apply list_max_all1; auto. intros x Hx. destruct (In_nth r x 0 Hx) as [i [Hi <-]]. auto. }
  assert (F1 : front_idx r 1 = seq 0 (length r)).
  { unfold front_idx. apply filter_all. intros i Hi. apply in_seq in Hi. apply Nat.eqb_eq. apply H. lia. }
  rewrite M. cbn [drop_loop]. rewrite F1, seq_length, Nat.sub_diag.
  destruct (Nat.leb_spec mu 0); [lia|]. cbn [o_sel]. rewrite F1. reflexivity.
Qed.

(* ========================================================================================== *)
(* 6. the steady-state step never loses hypervolume w.r.t. the indicator's reference point *)
Section SteadyStateProofs.
  Variable lc : list point -> list point -> nat.
  Variable ref : point.
  (* HypervolumeIndicator::leastContributor with setReference(ref): an index of minimal
     hypervolume contribution (w.r.t. ref) within the front it is given *)
  Hypothesis lc_least : forall F A, F <> [] ->
    lc F A < length F /\
    forall j, j < length F -> (contrib_spec ref F (lc F A) <= contrib_spec ref F j)%Z.

  Let lcs := least_contributors lc.
  Lemma lcs_ok : valid_oracle lcs.
  Proof. apply least_contributors_valid. intros P A HP. now apply lc_least. Qed.

  Theorem steady_state_keep d P o :
    same_dim d (P ++ [o]) -> 1 <= length P ->
    (hv_spec ref P <= hv_spec ref (keep (ss_flags lc P o) (P ++ [o])))%Z.
  Proof.
    intros SD HP. unfold ss_flags, indicator_selection. cbn [snd].
    set (Q := P ++ [o]). set (r := rank_list Q). set (mu := length P).
    assert (LQ : length Q = Datatypes.S mu) by (unfold Q, mu; rewrite app_length; simpl; lia).
    pose proof (rank_list_is_rank d Q SD) as RA. fold r in RA.
    assert (Lr : length r = length Q) by apply RA.
    assert (R1 : forall i, i < length r -> 1 <= nth i r 0).
    { intros i Hi. apply (rank_fronts_consistent Q r RA i). lia. }
    assert (Hmu : 1 <= mu <= length r) by lia.
    fold lcs.
    destruct (selection_count lcs lcs_ok r Q mu Hmu R1) as [CNT LS].
    pose proof (selection_rank_monotone lcs lcs_ok r Q mu Hmu R1) as MONO. cbv zeta in MONO.
    set (sel := o_sel (select_with_ranks lcs r Q mu)) in *.
    destruct (forallb (fun x => x =? 1) r) eqn:ALL1.
    - (* one single front: the least contributor of the whole population goes *)
      assert (A1 : forall i, i < length r -> nth i r 0 = 1).
      { intros i Hi. rewrite forallb_forall in ALL1. apply Nat.eqb_eq. apply ALL1. now apply nth_In. }
      assert (Nr : r <> []) by (destruct r; simpl in *; [lia|discriminate]).
      unfold sel. rewrite (select_single_front lcs r Q mu Nr A1 (proj1 Hmu)).
      rewrite Lr, pts_seq. replace (length Q - mu) with 1 by lia.
      unfold lcs, least_contributors. cbn [lc_iter map unset_all fold_left].
      assert (NQ : Q <> []) by (destruct Q; simpl in *; [lia|discriminate]).
      destruct (lc_least Q [] NQ) as [Lx Least]. set (x := lc Q []) in *.
      rewrite (@seq_nth (length Q) 0%nat x 0%nat Lx). cbn [Nat.add]. rewrite (@seq_nth (length Q) 0%nat x 0%nat Lx). cbn [Nat.add].
      rewrite keep_upd_repeat.
      specialize (Least mu ltac:(lia)). unfold contrib_spec in Least.
      assert (RL : remove_nth mu Q = P) by (unfold Q, mu; apply remove_nth_last).
      rewrite RL in Least. lia.
    - (* several fronts: whatever is deselected is dominated by a kept individual *)
      assert (EX : exists y, y < length r /\ 2 <= nth y r 0).
      { destruct (forallb_forall (fun x => x =? 1) r) as [_ Hf].
        assert (~ (forall x, In x r -> (x =? 1) = true)) as NA by (intros HA; rewrite (Hf HA) in ALL1; discriminate).
        clear Hf. assert (exists v, In v r /\ v <> 1) as [v [Hv Nv]].
        { clear -NA. induction r as [|a r IH]; [exfalso; apply NA; intros ? []|].
          destruct (Nat.eq_dec a 1) as [->|Na]; [|exists a; simpl; auto].
          destruct IH as [v [Hv Nv]]; [|exists v; simpl; auto].
          intros HA. apply NA. intros x [<-|Hx]; auto. }
        destruct (In_nth r v 0 Hv) as [y [Hy Ey]]. exists y. split; auto.
        specialize (R1 y Hy). lia. }
      destruct EX as [y [Hy Ry]].
      assert (UNIQ : forall a b, a < length r -> b < length r -> a <> b ->
                nth a sel false = false -> nth b sel false = false -> False).
      { intros a b Ha Hb Nab Sa Sb. pose proof (two_false sel a b Nab ltac:(lia) ltac:(lia) Sa Sb). lia. }
      assert (DESEL : forall x, x < length r -> nth x sel false = false -> 2 <= nth x r 0).
      { intros x Hx Sx. destruct (Nat.le_gt_cases 2 (nth x r 0)) as [|Hlt]; auto. exfalso.
        assert (x <> y) by (intros ->; lia).
        destruct (nth y sel false) eqn:Sy.
        - specialize (MONO y x Hy Hx Sy Sx). lia.
        - eapply (UNIQ x y); eauto. }
      transitivity (hv_spec ref Q).
      + apply hv_spec_incl. intros p Hp. unfold Q. apply in_or_app. auto.
      + apply hv_spec_covered_le. intros p Hp.
        destruct (In_nth Q p [] Hp) as [i [Hi Ei]].
        destruct (nth i sel false) eqn:Si.
        * exists p. split; [|apply leq_all_refl]. apply keep_In. exists i. auto.
        * pose proof (DESEL i ltac:(lia) Si) as R2.
          destruct (rank_fronts_consistent Q r RA i Hi) as [_ [_ [DOM _]]].
          destruct (DOM ltac:(lia)) as [j [Hj [Dj Rj]]].
          exists (nth j Q []). split.
          -- apply keep_In. exists j. repeat split; auto.
             destruct (nth j sel false) eqn:Sj; auto. exfalso.
             apply (UNIQ i j); auto; try lia. intros ->. lia.
          -- apply domb_true_iff in Dj.
             ++ rewrite Ei in Dj. apply Dj.
             ++ rewrite (SD (nth j Q [])), (SD (nth i Q [])); auto; apply nth_In; auto.
  Qed.

  (* full statement of the property's last sentence for the model of the steady-state update *)
  Theorem steady_state_step d P o :
    same_dim d (P ++ [o]) -> 1 <= length P ->
    (hv_spec ref P <= hv_spec ref (ss_step lc P o))%Z /\ length (ss_step lc P o) = length P.
  Proof.
    intros SD HP. split.
    - etransitivity; [apply (steady_state_keep d P o SD HP)|].
      apply hv_spec_incl. intros p Hp. apply keep_In in Hp. destruct Hp as [i [Hi [Si Ei]]].
      unfold ss_step.
      set (sel := ss_flags lc P o) in *. set (mu := length P) in *.
      assert (LQ : length (P ++ [o]) = Datatypes.S mu) by (unfold mu; rewrite app_length; simpl; lia).
      assert (CL : count_true sel = mu /\ length sel = Datatypes.S mu).
      { unfold sel, ss_flags, indicator_selection. cbn [snd].
        pose proof (rank_list_is_rank d _ SD) as RA.
        assert (Lr : length (rank_list (P ++ [o])) = length (P ++ [o])) by apply RA.
        fold mu. rewrite <- LQ, <- Lr.
        apply (selection_count _ lcs_ok); [lia|].
        intros k Hk. apply (rank_fronts_consistent _ _ RA k). lia. }
      destruct CL as [CNT LS].
      assert (Hlt : i <> mu -> i < mu) by lia.
      destruct (nth mu sel false) eqn:So.
      + destruct (Nat.eq_dec i mu) as [->|Ni].
        * rewrite app_nth2 in Ei by (unfold mu; lia). unfold mu in Ei. rewrite Nat.sub_diag in Ei.
          simpl in Ei. subst p. apply rfu_inserts.
          -- rewrite firstn_length. lia.
          -- pose proof (count_true_firstn_last sel mu LS) as C. rewrite So in C.
             rewrite firstn_length. lia.
        * rewrite app_nth1 in Ei by (apply Hlt; auto). subst p. apply rfu_keeps_selected; [apply Hlt; auto|].
          rewrite nth_firstn_lt; auto.
      + destruct (Nat.eq_dec i mu) as [->|Ni]; [congruence|].
        rewrite app_nth1 in Ei by (apply Hlt; auto). subst p. apply nth_In. apply Hlt; auto.
    - unfold ss_step. destruct (nth (length P) (ss_flags lc P o) false); auto.
      generalize (firstn (length P) (ss_flags lc P o)). intros s. revert P HP SD.
      clear. intros P _ _. revert s. induction P as [|p P IH]; intros [|[] s]; simpl; auto.
  Qed.
End SteadyStateProofs.

(* ========================================================================================== *)
(* 7. PenalizingEvaluator *)
Local Open Scope Z_scope.

Lemma vadd_map_scale c v : vadd (map (fun x => x * c) v) v = map (fun x => x * (c + 1)) v.
Proof. induction v as [|a v IH]; simpl; auto. rewrite IH. f_equal. lia. Qed.

Lemma iter_vadd m v :
  Nat.iter m (fun acc => vadd acc v) v = map (fun x => x * Z.of_nat (Datatypes.S m)) v.
Proof.
  induction m as [|m IH].
  - simpl. rewrite <- (map_id v) at 1. apply map_ext. intros; lia.
  - change (Nat.iter (Datatypes.S m) (fun acc => vadd acc v) v) with (vadd (Nat.iter m (fun acc => vadd acc v) v) v).
    rewrite IH, vadd_map_scale. apply map_ext. intros. rewrite (Nat2Z.inj_succ (Datatypes.S m)). lia.
Qed.

Lemma norm_sqr_diff_same s : norm_sqr_diff s s = 0.
Proof. induction s as [|a s IH]; simpl; auto. rewrite IH. lia. Qed.

Theorem penalized_eval_spec f feasible closest alpha m s :
  let t := repaired feasible closest s in
  let '(unp, pen) := penalized_eval f feasible closest alpha m s in
  unp = f t /\
  pen = map (fun v => v + alpha * norm_sqr_diff t s) (f t) /\
  (feasible s = true -> unp = f s /\ pen = f s).
Proof.
  unfold penalized_eval. cbv zeta. set (t := repaired feasible closest s).
  rewrite iter_vadd, map_map.
  assert (E : map (fun x => x * Z.of_nat (Datatypes.S m) / Z.of_nat (Datatypes.S m)) (f t) = f t).
  { rewrite <- (map_id (f t)) at 2. apply map_ext. intros a. apply Z.div_mul. lia. }
  rewrite E. repeat split; auto.
  - unfold t, repaired in *. rewrite H. reflexivity.
  - unfold t, repaired. rewrite H. rewrite norm_sqr_diff_same.
    rewrite <- (map_id (f s)) at 2. apply map_ext. intros; lia.
Qed.

Lemma box_closest_feasible : forall lo hi s, Forall2 Z.le lo hi ->
  box_feasible lo hi (box_closest lo hi s) = true.
Proof.
  intros lo hi s H. revert s. induction H as [|l h lo hi Hlh H IH]; intros s; [destruct s; reflexivity|].
  destruct s as [|x s]; [reflexivity|]. cbn [box_closest box_feasible]. rewrite IH.
  unfold clampz. destruct (Z.leb_spec l (Z.max l (Z.min x h))), (Z.leb_spec (Z.max l (Z.min x h)) h); auto; lia.
Qed.

Lemma box_closest_id : forall lo hi s, box_feasible lo hi s = true -> box_closest lo hi s = s.
Proof.
  induction lo as [|l lo IH]; intros [|h hi] [|x s] H; simpl in *; auto.
  apply andb_true_iff in H. destruct H as [H1 H2]. apply andb_true_iff in H1. destruct H1 as [Ha Hb].
  apply Z.leb_le in Ha, Hb. rewrite IH; auto. f_equal. unfold clampz. lia.
Qed.

(* ========================================================================================== *)
(* 8. the spec-level hypervolume least contributor satisfies the hypothesis of section 6 *)
Lemma argmin_spec l : l <> [] ->
  (argmin l < length l)%nat /\ forall j, (j < length l)%nat -> nth (argmin l) l 0 <= nth j l 0.
Proof.
  induction l as [|v t IH]; intros N; [congruence|].
  destruct t as [|w t']; [simpl; split; [lia|intros [|j] H; simpl in *; lia]|].
  destruct (IH ltac:(discriminate)) as [L M]. set (t := w :: t') in *.
  change (argmin (v :: t)) with (let k := argmin t in if v <=? nth k t 0 then 0%nat else Datatypes.S k).
  cbv zeta. clearbody t. destruct (Z.leb_spec v (nth (argmin t) t 0)).
  - split; [cbn [length]; lia|]. intros [|j] Hj; cbn [nth length] in *; [lia|].
    specialize (M j ltac:(lia)). lia.
  - split; [cbn [length]; lia|]. intros [|j] Hj; cbn [nth length] in *; [lia|]. apply M. lia.
Qed.

Lemma hv_lc_least ref F A : F <> [] ->
  (hv_lc ref F A < length F)%nat /\
  forall j, (j < length F)%nat -> contrib_spec ref F (hv_lc ref F A) <= contrib_spec ref F j.
Proof.
  intros N. unfold hv_lc.
  assert (L : length (contribs_spec ref F) = length F) by (unfold contribs_spec; now rewrite map_length, seq_length).
  assert (NC : contribs_spec ref F <> []) by (destruct F; [congruence|discriminate]).
  destruct (argmin_spec _ NC) as [Lk M]. rewrite L in Lk. split; auto.
  intros j Hj. specialize (M j ltac:(lia)).
  assert (E : forall i, (i < length F)%nat -> nth i (contribs_spec ref F) 0 = contrib_spec ref F i).
  { intros i Hi. unfold contribs_spec.
    rewrite (nth_indep _ 0 (contrib_spec ref F 0%nat)) by (now rewrite map_length, seq_length).
    rewrite (map_nth (contrib_spec ref F)). now rewrite seq_nth. }
  rewrite !E in M; auto.
Qed.

(* ========================================================================================== *)
(* 9. statements about operator() itself (ranks = rank definition of C13) *)
Local Close Scope Z_scope.

Lemma rank_list_facts d S : same_dim d S ->
  length (rank_list S) = length S /\ forall i, i < length (rank_list S) -> 1 <= nth i (rank_list S) 0.
Proof.
  intros SD. pose proof (rank_list_is_rank d S SD) as RA.
  assert (L : length (rank_list S) = length S) by apply RA. split; auto.
  intros i Hi. apply (rank_fronts_consistent S _ RA i). lia.
Qed.

Theorem indicator_selection_count lcs d S mu :
  valid_oracle lcs -> same_dim d S -> 1 <= mu <= length S ->
  let sel := o_sel (snd (indicator_selection lcs S mu)) in
  count_true sel = mu /\ length sel = length S.
Proof.
  intros V SD Hmu. destruct (rank_list_facts d S SD) as [L R1]. cbv zeta.
  unfold indicator_selection. cbn [snd]. rewrite <- L.
  apply selection_count; auto. lia.
Qed.

Theorem indicator_selection_rank_monotone lcs d S mu :
  valid_oracle lcs -> same_dim d S -> 1 <= mu <= length S ->
  let r := fst (indicator_selection lcs S mu) in
  let sel := o_sel (snd (indicator_selection lcs S mu)) in
  is_rank_assignment S r /\
  forall i j, i < length S -> j < length S ->
    nth i sel false = true -> nth j sel false = false -> nth i r 0 <= nth j r 0.
Proof.
  intros V SD Hmu. destruct (rank_list_facts d S SD) as [L R1]. cbv zeta.
  unfold indicator_selection. cbn [fst snd]. split; [now apply (rank_list_is_rank d)|].
  rewrite <- L. apply selection_rank_monotone; auto. lia.
Qed.

Theorem steady_state_hv_lc d ref P o :
  same_dim d (P ++ [o]) -> 1 <= length P ->
  (hv_spec ref P <= hv_spec ref (ss_step (hv_lc ref) P o))%Z /\
  length (ss_step (hv_lc ref) P o) = length P.
Proof. apply steady_state_step. apply hv_lc_least. Qed.

(* satisfiability of the hypotheses / a worked population: 2 objectives, ranks 1 1 1 2 1 3 1,
   mu = 5: front 3 and front 2 go, nothing is asked of the indicator beyond K = 0;
   mu = 4: one member of front 1 is removed by the exact hypervolume oracle *)
Example selection_example :
  let S := [[1; 5]; [2; 3]; [2; 3]; [4; 4]; [3; 1]; [5; 5]; [1; 5]]%Z in
  same_dim 2 S /\
  fst (indicator_selection (least_contributors (hv_lc [6; 6]%Z)) S 5) = [1; 1; 1; 2; 1; 3; 1] /\
  o_sel (snd (indicator_selection (least_contributors (hv_lc [6; 6]%Z)) S 5)) =
    [true; true; true; false; true; false; true] /\
  o_K (snd (indicator_selection (least_contributors (hv_lc [6; 6]%Z)) S 4)) = 1 /\
  count_true (o_sel (snd (indicator_selection (least_contributors (hv_lc [6; 6]%Z)) S 4))) = 4.
Proof.
  cbv zeta. split.
  - intros p Hp. simpl in Hp. repeat (destruct Hp as [<-|Hp]; [reflexivity|]). destruct Hp.
  - vm_compute. repeat split; reflexivity.
Qed.

Example steady_state_example :
  ss_step (hv_lc [6; 6]%Z) [[1; 5]; [3; 3]; [5; 1]]%Z [2; 2]%Z = [[1; 5]; [2; 2]; [5; 1]]%Z /\
  hv_spec [6; 6]%Z [[1; 5]; [3; 3]; [5; 1]]%Z = 13%Z /\
  hv_spec [6; 6]%Z [[1; 5]; [2; 2]; [5; 1]]%Z = 18%Z.
Proof. vm_compute. repeat split; reflexivity. Qed.
