(* C02 — instantiation of the arithmetic record with Qc (canonical rationals, Leibniz equality); definitions only.
   The square root is supplied by the caller (the OCaml driver passes an exact rational square root that is
   defined on perfect squares; the theorems require exactness only on the pivots actually met). *)
From Coq Require Import QArith Qcanon Qcabs.
From SharkV Require Import C02Model.

Definition qc_eqb (x y : Qc) : bool := if Qc_eq_dec x y then true else false.
Definition qc_leb (x y : Qc) : bool := if Qclt_le_dec y x then false else true.
Definition qc_ltb (x y : Qc) : bool := if Qclt_le_dec x y then true else false.
Definition qc_ops (sq : Qc -> Qc) : ops Qc :=
  mkOps Qc (Q2Qc 0) (Q2Qc 1) Qcplus Qcmult Qcminus Qcopp Qcdiv Qcinv qc_eqb qc_leb qc_ltb sq.
Definition qc_make (num : Z) (den : positive) : Qc := Q2Qc (Qmake num den).
Definition qc_num (x : Qc) : Z := Qnum (this x).
Definition qc_den (x : Qc) : positive := Qden (this x).
(* std::abs for the pivot search of getrf (C02BlkModel.v) *)
Definition qc_abs (x : Qc) : Qc := Qcabs x.
