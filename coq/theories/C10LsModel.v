(* C10 — second part of the executable model (definitions only): the two remaining line searches of
   src/Algorithms/GradientDescent/LineSearch.cpp (wolfecubic, dlinmin), LineSearch::operator() dispatching on the
   line-search type, AbstractLineSearchOptimizer::init/step for all three types, and BFGS.cpp (initModel,
   computeSearchDirection).

   What is modelled is the STATE HANDLING: which (step length, value, gradient) triples are kept, which one is
   written back to point / value / gradient, when nothing is written.  The numerical choice of trial step lengths
   (cubic interpolation with its sqrt, the "sufficient progress" correction, Brent's parabolic steps, the golden
   section bracketing of dlinmin, the rounding of t *= 10) is an ORACLE: arbitrary functions / lists of rationals.
   The proofs hold for every oracle; the correspondence check (tools/c10.py) feeds the step lengths at which the
   real code evaluated the objective (read back from a hooked objective) and compares everything else. *)
From Coq Require Import List QArith Qreduction Qabs Bool Arith.
From SharkV Require Import C10Model.
Import ListNotations.
Open Scope Q_scope.

(* the doubles 0.9, 1e-9 (wolfecubic: c2, tol) and 1e-20 (BFGS reset threshold) as exact rationals *)
Definition wc_c2 : Q := 8106479329266893 # 9007199254740992.
Definition wc_tol : Q := 4835703278458517 # 4835703278458516698824704.
Definition wc_max_iter : nat := 25.
Definition dl_itmax : nat := 100.
Definition bfgs_eps : Q := 6646139978924579 # 664613997892457936451903530140172288.

(* point + t * d.  In IEEE arithmetic p + 0*d = p for finite d; the reduced-rational arithmetic of the model would
   re-normalise the entries of p (Qred), so the step length 0 is treated explicitly. *)
Definition ray (point d : vec) (t : Q) : vec :=
  if Qeq_bool t 0 then point else vadd point (vscale t d).

(* one evaluated trial: step length, value and gradient at point + t*d *)
Definition entry : Type := (Q * Q * vec)%type.
Definition e_t (e : entry) : Q := fst (fst e).
Definition e_f (e : entry) : Q := snd (fst e).
Definition e_g (e : entry) : vec := snd e.

(* oracle of one line-search call *)
Record ls_oracle : Type := mkOracle {
  o_wexp : nat -> Q -> Q;      (* wolfecubic bracketing: iteration, exact 10*t  |->  the step length used (rounding) *)
  o_wzoom : nat -> Q;          (* wolfecubic zoom: iteration |-> trial step length (interpolation + correction) *)
  o_dx0 : Q;                   (* dlinmin: the middle point bx of the bracket found by the golden-section phase *)
  o_dus : list Q }.            (* dlinmin: the trial step lengths u of the Brent iterations, in order *)

Section Objective.
  Variable f : vec -> Q.
  Variable grad : vec -> vec.
  Variable feasible : vec -> bool.

  Definition eval3 (point d : vec) (t : Q) : entry :=
    let x := ray point d t in (t, f x, grad x).

  (* ---------------- wolfecubic ---------------- *)
  Inductive wc_bracket : Type :=
  | WB_pair (e0 e1 : entry) (iter : nat)     (* bracket[0], bracket[1] set; value of iter at the break *)
  | WB_single (e0 : entry) (iter : nat)      (* strong Wolfe point found while bracketing: only bracket[0] is set *)
  | WB_exhausted (last : entry).             (* maxIter expansions passed all three tests: [last] = (t_prev, f_prev, g_prev),
                                                the last TESTED point (the 26th evaluation is never tested) *)

  (* while(iter++ < maxIter): [k] is the value of iter inside the body (1, 2, ...), [prev] = (t_prev, f_prev, g_prev),
     [new] = (t, f_new, g_new) *)
  Fixpoint wc_bracketing (fuel k : nat) (ex : nat -> Q -> Q) (point d : vec) (value gtd : Q)
           (prev new : entry) : wc_bracket :=
    match fuel with
    | O => WB_exhausted prev
    | S fuel' =>
      let t := e_t new in
      let gtdn := dot (e_g new) d in
      if qltb (qadd value (qmul (qmul c1 t) gtd)) (e_f new) || (Nat.ltb 1 k && Qle_bool (e_f prev) (e_f new))
      then WB_pair prev new k
      else if Qle_bool (Qabs gtdn) (qmul (- wc_c2) gtd) then WB_single new k
      else if Qle_bool 0 gtdn then WB_pair prev new k
      else wc_bracketing fuel' (S k) ex point d value gtd new (eval3 point d (ex k (qmul t 10)))
    end.

  (* body of the zoom loop after the evaluation of the trial [new]: new (bracket[0], bracket[1], done) *)
  Definition wc_update (d : vec) (value gtd : Q) (e0 e1 new : entry) : entry * entry * bool :=
    let lo1 := qltb (e_f e1) (e_f e0) in                 (* lo = bracketf[1] < bracketf[0] ? 1 : 0 *)
    let elo := if lo1 then e1 else e0 in
    let ehi := if lo1 then e0 else e1 in
    let gtdn := dot (e_g new) d in
    let '(elo', ehi', done) :=
      if qltb (qadd value (qmul (qmul c1 (e_t new)) gtd)) (e_f new) || qltb (e_f elo) (e_f new)
      then (elo, new, false)
      else if Qle_bool (Qabs gtdn) (qmul (- wc_c2) gtd) then (new, ehi, true)
      else if Qle_bool 0 (qmul gtdn (qsub (e_t ehi) (e_t elo))) then (new, elo, false)
      else (new, ehi, false) in
    if lo1 then (ehi', elo', done) else (elo', ehi', done).

  (* while (!done && iter++ < maxIter): returns bracket[0], bracket[1] and the final value of iter *)
  Fixpoint wc_zoom (fuel iter : nat) (zo : nat -> Q) (point d : vec) (value gtd : Q) (e0 e1 : entry)
    : entry * entry * nat :=
    match fuel with
    | O => (e0, e1, S iter)
    | S fuel' =>
      if Nat.ltb iter wc_max_iter then
        let it := S iter in
        let '(e0', e1', done) := wc_update d value gtd e0 e1 (eval3 point d (zo it)) in
        if done then (e0', e1', it)
        else if qltb (qmul (Qabs (qsub (e_t e0') (e_t e1'))) (sumabs d)) wc_tol then (e0', e1', it)
        else wc_zoom fuel' it zo point d value gtd e0' e1'
      else (e0, e1, S iter)
    end.

  Definition wc_write (point d : vec) (e : entry) : vec * Q * vec := (ray point d (e_t e), e_f e, e_g e).

  (* None: the C++ reads a variable that was never assigned (undefined behaviour).
     As coded since the repair 1272c59f: when all maxIter expansions succeed, bracket[0] = bracket[1] = the last tested
     point, done = single = true; iter is maxIter + 1 then, so the point is written exactly when value > f_prev. *)
  Definition wolfecubic (o : ls_oracle) (point d : vec) (value : Q) (g : vec) (t0 : Q) : option (vec * Q * vec) :=
    let gtd := dot g d in
    match wc_bracketing wc_max_iter 1 (o_wexp o) point d value gtd (0, value, g) (eval3 point d t0) with
    | WB_exhausted e =>
      if qltb (e_f e) value then Some (wc_write point d e) else Some (point, value, g)
    | WB_single e0 iter =>
      if Nat.ltb iter wc_max_iter || qltb (e_f e0) value then Some (wc_write point d e0)
      else None                                            (* value > bracketf[1] reads the unassigned bracketf[1] *)
    | WB_pair e0 e1 iter =>
      let '(b0, b1, it) := wc_zoom wc_max_iter iter (o_wzoom o) point d value gtd e0 e1 in
      if Nat.ltb it wc_max_iter || qltb (e_f b0) value || qltb (e_f b1) value
      then Some (if qltb (e_f b0) (e_f b1) then wc_write point d b0 else wc_write point d b1)
      else Some (point, value, g)
    end.

  (* wolfecubic BEFORE the repair 1272c59f (not executed by the driver; kept for the regression example): after
     maxIter successful expansions bracket, bracketf and bracketg were read without ever having been assigned *)
  Definition old_wolfecubic (o : ls_oracle) (point d : vec) (value : Q) (g : vec) (t0 : Q) : option (vec * Q * vec) :=
    match wc_bracketing wc_max_iter 1 (o_wexp o) point d value (dot g d) (0, value, g) (eval3 point d t0) with
    | WB_exhausted _ => None
    | _ => wolfecubic o point d value g t0
    end.

  (* ---------------- dlinmin ---------------- *)
  (* the Brent iterations: x is replaced by the trial u exactly when fu <= fx *)
  Fixpoint dl_brent (point d : vec) (x fx : Q) (us : list Q) : Q * Q :=
    match us with
    | [] => (x, fx)
    | u :: r =>
      let fu := f (ray point d u) in
      if Qle_bool fu fx then dl_brent point d u fu r else dl_brent point d x fx r
    end.

  (* value is overwritten by fp = f(p) (re-evaluated) when no better point was found *)
  Definition dlinmin (o : ls_oracle) (point d : vec) : vec * Q :=
    let fp := f point in
    let x0 := o_dx0 o in
    let '(x, fx) := dl_brent point d x0 (f (ray point d x0)) (firstn dl_itmax (o_dus o)) in
    if qltb fx fp then (ray point d x, fx) else (point, fp).

  (* ---------------- LineSearch::operator() ---------------- *)
  (* 0 Dlinmin (followed by evalDerivative at the new point), 1 WolfeCubic, 2 Backtracking; any other value of the
     enum (it is read from an archive as an int) falls through the switch: nothing happens *)
  Definition linesearch (ty : nat) (o : ls_oracle) (point d : vec) (value : Q) (g : vec) (t0 : Q)
    : option (vec * Q * vec) :=
    match ty with
    | 0%nat => let '(p', v') := dlinmin o point d in Some (p', v', grad p')
    | 1%nat => wolfecubic o point d value g t0
    | 2%nat => Some (backtracking f grad point d value g t0)
    | _ => Some (point, value, g)
    end.

  (* ---------------- AbstractLineSearchOptimizer, all line-search types ---------------- *)
  Section LineSearchOptimizer.
    Variable M : Type.
    Variable init_model : nat -> M.
    Variable compute_dir : ls_state M -> M * vec.

    (* init(): a constrained objective forces the backtracking search *)
    Definition ls_init_o (constrained : bool) (lstype : nat) (x0 : vec) : ls_state M :=
      ls_init f grad feasible M init_model (if constrained then 2%nat else lstype) x0.

    Definition ls_step_o (o : ls_oracle) (s : ls_state M) : option (ls_state M) :=
      match linesearch (ls_type s) o (pt s) (sdir s) (val s) (der s) (step_len s) with
      | None => None
      | Some (p', v', g') =>
        let s1 := {| ls_min := ls_min s; ls_max := ls_max s; ls_type := ls_type s;
                     step_len := 1; dim := dim s; pt := p'; val := v'; der := g'; sdir := sdir s;
                     last_der := der s; last_pt := pt s; last_val := val s; extra := extra s |} in
        let '(m', d') := compute_dir s1 in
        Some {| ls_min := ls_min s1; ls_max := ls_max s1; ls_type := ls_type s1;
                step_len := step_len s1; dim := dim s1; pt := pt s1; val := val s1; der := der s1; sdir := d';
                last_der := last_der s1; last_pt := last_pt s1; last_val := last_val s1; extra := m' |}
      end.

    (* n steps; step number k (counted from [k0]) uses the oracle [orcs k] *)
    Fixpoint ls_run_o (orcs : nat -> ls_oracle) (k0 n : nat) (s : ls_state M) : option (ls_state M) :=
      match n with
      | O => Some s
      | S n' => match ls_step_o (orcs k0) s with
                | None => None
                | Some s' => ls_run_o orcs (S k0) n' s'
                end
      end.
  End LineSearchOptimizer.
End Objective.

(* ---------------- BFGS.cpp ---------------- *)
Definition mat : Type := list vec.
Fixpoint identity (n : nat) : mat :=
  match n with
  | O => []
  | S k => (1 :: zeros k) :: map (cons 0) (identity k)
  end.
Definition outer (u v : vec) : mat := map (fun a => vscale a v) u.
Fixpoint madd (A B : mat) : mat :=
  match A, B with r :: A', q :: B' => vadd r q :: madd A' B' | _, _ => [] end.
Fixpoint msub (A B : mat) : mat :=
  match A, B with r :: A', q :: B' => vsub r q :: msub A' B' | _, _ => [] end.
Definition mscale (t : Q) (A : mat) : mat := map (vscale t) A.

Definition bfgs_init_model (n : nat) : mat := identity n.

(* m_hessian is the approximation of the INVERSE Hessian *)
Definition bfgs_update (H : mat) (gamma delta : vec) (d : Q) : mat :=
  let Hg := mv H gamma in
  let scale := Qred ((Qred (dot gamma Hg / d) + 1) / d) in
  madd H (msub (mscale scale (outer delta delta))
               (mscale (Qred (/ d)) (madd (outer Hg delta) (outer delta Hg)))).

Definition bfgs_dir (s : ls_state mat) : mat * vec :=
  let gamma := vsub (der s) (last_der s) in
  let delta := vsub (pt s) (last_pt s) in
  let d := dot gamma delta in
  let H' := if qltb d bfgs_eps then identity (dim s) else bfgs_update (extra s) gamma delta d in
  (H', vneg (mv H' (der s))).

(* BFGS::write appends m_hessian *)
Definition bfgs_save_extra (H : mat) : list field := map FV H.
Fixpoint bfgs_restore_extra (fs : list field) : option mat :=
  match fs with
  | [] => Some []
  | FV r :: fs' => match bfgs_restore_extra fs' with Some H => Some (r :: H) | None => None end
  | _ => None
  end.
