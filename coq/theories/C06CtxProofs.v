(* C06 — proofs about the calling-context model C06Ctx.v.  Axiom-free (lists, Q). *)
From Coq Require Import List Arith QArith Permutation Lia.
From SharkV Require Import ListAux C03Model C06Model C06Proofs C06Ctx.
Import ListNotations.

Lemma map_nth_seq {X} (l : list X) dflt : map (fun i => nth i l dflt) (seq 0 (length l)) = l.
Proof.
  induction l as [|x l IH]; [reflexivity|]. cbn [length seq map nth]. f_equal.
  rewrite <- seq_shift, map_map. exact IH.
Qed.

Section CtxProofs.
Context {E : Type}.
Variable bq : list E -> vec.

(* the shared sum does not look at the thread ids *)
Lemma shared_merge_vsum (ev : list (nat * vec)) : shared_merge ev = vsum (map snd ev).
Proof.
  unfold shared_merge, vsum. generalize (@nil Q). induction ev as [|e ev IH]; intros acc; [reflexivity|].
  cbn [fold_left map]. apply IH.
Qed.

Lemma ctx_events_snd a order ranges (d : @data E) :
  map snd (ctx_events bq a order ranges d) = map (fun i => nth i (partials bq ranges d) []) order.
Proof. unfold ctx_events. rewrite map_map. reflexivity. Qed.

(* every range result arrives exactly once: the arrived partial sums are a permutation of the partial sums *)
Lemma ctx_arrived_perm a order ranges (d : @data E) :
  Permutation order (seq 0 (length ranges)) ->
  Permutation (map snd (ctx_events bq a order ranges d)) (partials bq ranges d).
Proof.
  intros Hp. rewrite ctx_events_snd.
  rewrite (Permutation_map (fun i => nth i (partials bq ranges d) []) Hp).
  replace (length ranges) with (length (partials bq ranges d)) by (unfold partials; apply map_length).
  rewrite map_nth_seq. apply Permutation_refl.
Qed.

Hypothesis bq_additive : forall b, veq (bq b) (vsum (map (fun e => bq [e]) b)).

(* as coded: for EVERY assignment of ranges to threads and every arrival order the result is the mean per-element loss *)
Theorem ctx_is_mean_loss threads (d : @data E) (a : nat -> nat) order :
  (1 <= threads)%nat -> Permutation order (seq 0 (length (thread_ranges threads (length d)))) ->
  veq (errfn_ctx bq a order threads d) (mean_loss bq (elems d)).
Proof.
  intros HT Hp. unfold errfn_ctx. rewrite shared_merge_vsum.
  apply (error_any_schedule bq bq_additive threads d _ HT).
  apply ctx_arrived_perm; assumption.
Qed.

(* ... hence independent of the assignment (and of the arrival order) *)
Corollary ctx_assignment_irrelevant threads (d : @data E) (a a' : nat -> nat) order order' :
  (1 <= threads)%nat ->
  Permutation order (seq 0 (length (thread_ranges threads (length d)))) ->
  Permutation order' (seq 0 (length (thread_ranges threads (length d)))) ->
  veq (errfn_ctx bq a order threads d) (errfn_ctx bq a' order' threads d).
Proof.
  intros HT H1 H2. rewrite (ctx_is_mean_loss threads d a order HT H1), (ctx_is_mean_loss threads d a' order' HT H2). reflexivity.
Qed.

(* the nested call (enclosing team of k threads, all ranges on thread 0 in order) is literally the top-level computation with k
   threads, and equals the result for every other thread count and batching of the same elements *)
Lemma errfn_nested_eq threads (d : @data E) : errfn_nested bq threads d = errfn bq threads d.
Proof.
  unfold errfn_nested, errfn_ctx, errfn, finish, nested_order. rewrite shared_merge_vsum, ctx_events_snd.
  replace (length (thread_ranges threads (length d))) with (length (partials bq (thread_ranges threads (length d)) d))
    by (unfold partials; apply map_length).
  rewrite map_nth_seq. reflexivity.
Qed.

Corollary nested_call_invariant k t (d1 d2 : @data E) :
  (1 <= k)%nat -> (1 <= t)%nat -> elems d1 = elems d2 ->
  veq (errfn_nested bq k d1) (errfn bq t d2).
Proof. intros Hk Ht He. rewrite errfn_nested_eq. apply (batching_invariant bq bq_additive); assumption. Qed.
End CtxProofs.

(* ---- the per-thread-slot variant is NOT independent of the assignment ---- *)
(* two batches of one element each, contribution of a batch = [sum of its elements]: with every range on its own thread the slots
   hold 1 and 2 (result (1+2)/2), with both ranges on thread 0 (the nested call) the second overwrites the first (result 2/2) *)
Definition ctx_w_bq (b : list Q) : vec := [qsum b].
Definition ctx_w_data : @data Q := [[1]; [2]].

Lemma ctx_w_qsum_singletons (b : list Q) : qsum b == qsum (map (fun x => qsum [x]) b).
Proof.
  induction b as [|x b IH]; [reflexivity|].
  change (x + qsum b == (x + 0) + qsum (map (fun x => qsum [x]) b)). rewrite <- IH. ring.
Qed.
Lemma ctx_w_qsum_zeros (b : list Q) : 0 == qsum (map (fun _ => 0) b).
Proof.
  induction b as [|x b IH]; [reflexivity|].
  change (0 == 0 + qsum (map (fun _ => 0) b)). rewrite <- IH. ring.
Qed.
Lemma ctx_w_additive : forall b, veq (ctx_w_bq b) (vsum (map (fun e => ctx_w_bq [e]) b)).
Proof.
  intros b k. rewrite nth_vsum, map_map. unfold ctx_w_bq.
  destruct k as [|k].
  - cbn [nth]. apply ctx_w_qsum_singletons.
  - replace (nth (S k) [qsum b] 0) with 0 by (destruct k; reflexivity).
    rewrite (map_ext (fun x => nth (S k) [qsum [x]] 0) (fun _ => 0)) by (intros x; destruct k; reflexivity).
    apply ctx_w_qsum_zeros.
Qed.

Theorem slot_variant_refuted :
  exists (bq : list Q -> vec) (d : @data Q) (threads : nat) (a a' : nat -> nat) (order : list nat),
    (forall b, veq (bq b) (vsum (map (fun e => bq [e]) b))) /\ (1 <= threads)%nat /\
    Permutation order (seq 0 (length (thread_ranges threads (length d)))) /\
    veq (errfn_slots bq a order threads d) (mean_loss bq (elems d)) /\
    ~ veq (errfn_slots bq a' order threads d) (mean_loss bq (elems d)) /\
    ~ veq (errfn_slots bq a order threads d) (errfn_slots bq a' order threads d) /\
    veq (errfn_ctx bq a order threads d) (errfn_ctx bq a' order threads d).
Proof.
  exists ctx_w_bq, ctx_w_data, 2%nat, (fun i => i), (fun _ => O), [0; 1]%nat.
  split; [exact ctx_w_additive|]. split; [lia|]. split; [vm_compute; apply Permutation_refl|].
  split; [|split; [|split]].
  - intros [|[|k]]; vm_compute; reflexivity.
  - intros H. specialize (H 0%nat). vm_compute in H. discriminate H.
  - intros H. specialize (H 0%nat). vm_compute in H. discriminate H.
  - intros [|[|k]]; vm_compute; reflexivity.
Qed.

(* the slot variant is right exactly in the situation the repository tests exercise: every range on its own thread *)
Example slot_variant_toplevel_ok :
  veq (errfn_slots ctx_w_bq (fun i => i) [1; 0]%nat 2 ctx_w_data) (mean_loss ctx_w_bq (elems ctx_w_data)).
Proof. intros [|[|k]]; vm_compute; reflexivity. Qed.

(* ---- why the repository's tests cannot see the slot variant: it is right when every range runs on its own thread ---- *)
Lemma upd_at_length {X} (a b : list X) x v : upd (length a) v (a ++ x :: b) = a ++ v :: b.
Proof. induction a as [|y a IH]; [reflexivity|]. cbn [length app upd]. f_equal. exact IH. Qed.

Lemma firstn_S_nth {X} (l : list X) n dflt : (n < length l)%nat -> firstn (S n) l = firstn n l ++ [nth n l dflt].
Proof.
  revert n; induction l as [|x l IH]; intros n Hn; [cbn in Hn; lia|].
  destruct n as [|n]; [reflexivity|]. cbn [firstn nth app]. f_equal. apply IH. cbn in Hn. lia.
Qed.

Lemma slots_fill (parts : list vec) T n :
  (n <= length parts)%nat -> (n <= T)%nat ->
  fold_left (fun slots e => upd (fst e) (snd e) slots) (map (fun i => (i, nth i parts [])) (seq 0 n)) (repeat [] T)
  = firstn n parts ++ repeat [] (T - n).
Proof.
  induction n as [|n IH]; intros Hn HT.
  - cbn. rewrite Nat.sub_0_r. reflexivity.
  - rewrite seq_S, map_app, fold_left_app, IH by lia. cbn [map fold_left fst snd plus].
    replace (T - n)%nat with (S (T - S n)) by lia. cbn [repeat].
    replace n with (length (firstn n parts)) at 1 by (apply firstn_length_le; lia).
    rewrite upd_at_length, (firstn_S_nth parts n []) by lia. rewrite <- app_assoc. reflexivity.
Qed.

Lemma qsum_repeat_nil k m : (qsum (map (fun v : vec => nth k v 0) (repeat [] m)) == 0)%Q.
Proof.
  induction m as [|m IH]; [reflexivity|].
  cbn [repeat map]. unfold qsum in *. cbn [fold_right]. rewrite IH, nth_nil_Q. reflexivity.
Qed.
Lemma vsum_repeat_nil m : veq (vsum (repeat [] m)) [].
Proof. intros k. rewrite nth_vsum, nth_nil_Q. apply qsum_repeat_nil. Qed.

Section SlotOk.
Context {E : Type}.
Variable bq : list E -> vec.
(* every range on its own thread, a team of at least as many threads as ranges (the call from serial code): the slot variant is right *)
Theorem slots_toplevel_ok threads (d : @data E) :
  veq (errfn_slots bq (fun i => i) (nested_order threads d) threads d) (errfn bq threads d).
Proof.
  unfold errfn_slots, errfn, finish, slot_merge, ctx_events, nested_order.
  set (rs := thread_ranges threads (length d)).
  assert (Hl : length (partials bq rs d) = length rs) by (unfold partials; apply map_length).
  assert (HT : (length rs <= threads)%nat).
  { unfold rs, thread_ranges. rewrite map_length, seq_length. apply Nat.le_min_l. }
  rewrite <- Hl. rewrite slots_fill by lia. rewrite firstn_all.
  apply vdiv_proper; [|reflexivity].
  rewrite vsum_app, vsum_repeat_nil. intros k. rewrite nth_vadd, nth_nil_Q. ring.
Qed.
End SlotOk.
