(* C13 — HypervolumeCalculatorMDHOY.h as coded (after /repo commit 589fd5bd: bool flag instead of the sentinel
   bound == -1.0, candidate counters reset per search iteration): executable model (definitions only).

   A point / cuboid is modelled as the pair (first m-1 objectives, last objective) [hpt]; a region is the pair of
   vectors regionLow, regionUp restricted to the first m-1 objectives (entry m-1 of the two C++ vectors is never read
   as long as the split dimension stays below m-1, which is part of the correctness theorem: the model's search for
   a split bound returns [None] = node [NStuck] where the code would index objective m-1 or beyond).

   operator():  empty -> 0; keep the points strictly below the reference point in every objective; empty -> 0;
                std::sort by the last objective; m_sqrtNoPoints = floor(sqrt(points.size())) (size of the UNFILTERED
                set); regLow = component-wise minimum; stream(regLow, refPoint, set, 0, refPoint.back()).
   stream:      one call = [stream_node]:
                (1) the while loop = "first index whose point covers regionLow" (covers: cuboid[i] > regionLow[i] -> 0):
                    the loop leaves at the first covering point (cover changes, or it does not change and then
                    coverIndexOld == coverIndex breaks), cover := its last objective, result += measure * (coverOld - cover);
                (2) coverIndex -= number of points before coverIndex whose last objective == cover; 0 -> return;
                (3) piles[i] = isPile (unique i with cuboid[i] > regionLow[i]; -1 if two; cuboid.size() if none);
                (4) all piles: sweep over the groups of equal last objective, trellis[pile] = min, result +=
                    computeTrellis * (next - current), computeTrellis = sum over the non-empty subsets of the m-1
                    dimensions (binary digits of i = 1 .. 2^(m-1)-1, sign by the parity of the number of ones);
                (5) otherwise: search a split bound from dimension [split] upwards (containsBoundary = 1: boundaries,
                    = 0: noBoundaries; median of the boundaries if any, else median of the noBoundaries if more than
                    m_sqrtNoPoints, else split++), child regions regionUpC / regionLowC, child point sets filtered by
                    partCovers (cuboid[i] >= regionUp[i] -> 0), recursion with the same cover and split.
   getMedian:   length 1 -> bounds[0]; length 2 -> bounds[1]; else sort, odd -> v[len/2], even -> (v[len/2-1] + v[len/2]) / 2.

   The median of an even number (>= 4) of coordinates is the mean of two coordinates: a half-integer for integer
   objectives.  Split bounds are medians of POINT coordinates only, so all numbers the code handles on integer inputs
   are multiples of 1/2.  The model runs on the DOUBLED integers ([hoy] = [hoy_top] on 2*ref, 2*points, divided by 2^m
   at the end): every operation of the code is homogeneous (comparisons are scale invariant, differences and the
   median scale by 2, the measure of a region by 2^(m-1), the result by 2^m), and on doubled inputs `/ 2` is exact.
   The order std::sort leaves equal last objectives in is the parameter [arr]; the extracted instance is the stable
   insertion sort.  The recursion is structural on [fuel]; the entry point supplies n * m + 1 (theorem: enough). *)
From Coq Require Import List ZArith Lia Bool Arith.
From SharkV Require Import ListAux C13Model C13Wfg.
Import ListNotations.
Local Open Scope Z_scope.

Notation hpt := (list Z * Z)%type (only parsing).

Fixpoint all2 (r : Z -> Z -> bool) (a b : list Z) : bool :=
  match a, b with
  | x :: a', y :: b' => r x y && all2 r a' b'
  | _, _ => true
  end.

(* covers: some cuboid[i] > regionLow[i] -> 0 *)
Definition covers (c low : list Z) : bool := all2 Z.leb c low.
(* partCovers: some cuboid[i] >= regionUp[i] -> 0 *)
Definition part_covers (c up : list Z) : bool := all2 Z.ltb c up.

Definition open_at (low c : list Z) (j : nat) : bool := nth j low 0 <? nth j c 0.
(* the dimensions i < m-1 with cuboid[i] > regionLow[i] *)
Definition open_dims (low c : list Z) : list nat := filter (open_at low c) (seq 0 (length c)).

(* isPile: None = -1 *)
Definition is_pile (low c : list Z) : option nat :=
  match open_dims low c with
  | [] => Some (S (length c))          (* cuboid.size() *)
  | [j] => Some j
  | _ => None
  end.

(* containsBoundary *)
Definition contains_boundary (c low : list Z) (s : nat) : Z :=
  if open_at low c s then (if existsb (open_at low c) (seq 0 s) then 1 else 0) else -1.

(* getMeasure = product of regionUp[i] - regionLow[i] = box_vol up low *)
Definition get_measure (low up : list Z) : Z := box_vol up low.

(* computeTrellis *)
Fixpoint all_bits (d : nat) : list (list bool) :=          (* binary digits (least significant first) of 0 .. 2^d-1 *)
  match d with
  | O => [[]]
  | S d' => flat_map (fun r => [false :: r; true :: r]) (all_bits d')
  end.
Fixpoint summand (bs : list bool) (low up tr : list Z) : Z :=
  match bs, low, up, tr with
  | b :: bs', l :: low', u :: up', t :: tr' => (if b then u - t else u - l) * summand bs' low' up' tr'
  | _, _, _, _ => 1
  end.
Definition ones (bs : list bool) : nat := length (filter (fun b => b) bs).
Definition compute_trellis (low up tr : list Z) : Z :=
  fold_left (fun res bs => if Nat.even (ones bs) then res - summand bs low up tr else res + summand bs low up tr)
            (tl (all_bits (length low))) 0.

(* getMedian *)
Definition median (l : list Z) : Z :=
  match l with
  | [a] => a
  | [_; b] => b
  | _ => let v := sort_z l in let n := length l in
         if Nat.odd n then nth (n / 2) v 0 else (nth (n / 2 - 1) v 0 + nth (n / 2) v 0) / 2
  end.

(* (1) first covering point: its index and last objective *)
Fixpoint first_cover (low : list Z) (pts : list hpt) (i : nat) : option (nat * Z) :=
  match pts with
  | [] => None
  | p :: t => if covers (fst p) low then Some (i, snd p) else first_cover low t (S i)
  end.

Definition count_last (z : Z) (pts : list hpt) : nat := length (filter (fun p => snd p =? z) pts).

(* (4) the sweep over the piles; [pts] = (pile dimension, point) *)
Definition trellis_upd (tr : list Z) (jp : nat * hpt) : list Z :=
  let j := fst jp in let x := nth j (fst (snd jp)) 0 in
  if x <? nth j tr 0 then upd j x tr else tr.

Fixpoint pile_sweep (low up tr : list Z) (pts : list (nat * hpt)) (cover acc : Z) : Z :=
  match pts with
  | [] => acc
  | jp :: t =>
    let tr' := trellis_upd tr jp in
    let cur := snd (snd jp) in
    match t with
    | [] => acc + compute_trellis low up tr' * (cover - cur)
    | jq :: _ =>
      let nxt := snd (snd jq) in
      if nxt =? cur then pile_sweep low up tr' t cover acc
      else let acc' := acc + compute_trellis low up tr' * (nxt - cur) in
           if nxt =? cover then acc' else pile_sweep low up tr' t cover acc'
    end
  end.

Fixpoint pile_list (low : list Z) (pts : list hpt) : option (list (nat * hpt)) :=
  match pts with
  | [] => Some []
  | p :: t => match is_pile low (fst p) with
              | None => None
              | Some j => match pile_list low t with None => None | Some l => Some ((j, p) :: l) end
              end
  end.

(* (5) the search for the split bound; n = number of dimensions left to try *)
Definition coords_with (low : list Z) (P : list hpt) (s : nat) (v : Z) : list Z :=
  map (fun p => nth s (fst p) 0) (filter (fun p => contains_boundary (fst p) low s =? v) P).

Fixpoint find_bound (n : nat) (sq : nat) (low : list Z) (P : list hpt) (s : nat) : option (nat * Z) :=
  match n with
  | O => None
  | S n' =>
    match coords_with low P s 1 with
    | (_ :: _) as B => Some (s, median B)
    | [] => let N := coords_with low P s 0 in
            if (sq <? length N)%nat then Some (s, median N) else find_bound n' sq low P (S s)
    end
  end.

(* what one call of stream does *)
Inductive node :=
| NLeaf (res : Z)
| NSplit (res : Z) (s : nat) (bound : Z) (pu pl : list hpt) (cover : Z)
| NStuck (res : Z).

(* steps (1), (2): new cover, number of points that stay, volume of the slab that is covered completely *)
Definition cover_step (low up : list Z) (pts : list hpt) (cover : Z) : Z * nat * Z :=
  let meas := get_measure low up in
  let '(cover', ci, res) :=
    match first_cover low pts 0 with
    | Some (i, z) => (z, i, meas * (cover - z))
    | None => (cover, length pts, 0)
    end in
  (cover', (ci - count_last cover' (firstn ci pts))%nat, res).

Definition stream_node (sq : nat) (low up : list Z) (pts : list hpt) (split : nat) (cover : Z) : node :=
  let '(cover', k, res) := cover_step low up pts cover in
  match k with
  | O => NLeaf res
  | _ =>
    let P := firstn k pts in
    match pile_list low P with
    | Some pl => NLeaf (pile_sweep low up up pl cover' res)
    | None =>
      match find_bound (length low - split) sq low P split with
      | Some (s, b) =>
        NSplit res s b (filter (fun p => part_covers (fst p) (upd s b up)) P)
                       (filter (fun p => part_covers (fst p) up) P) cover'
      | None => NStuck res
      end
    end
  end.

Fixpoint stream (fuel : nat) (sq : nat) (low up : list Z) (pts : list hpt) (split : nat) (cover : Z) : Z :=
  match fuel with
  | O => 0
  | S f =>
    match stream_node sq low up pts split cover with
    | NLeaf r => r
    | NStuck r => r
    | NSplit r s b pu pl cv =>
      r + (match pu with [] => 0 | _ => stream f sq low (upd s b up) pu s cv end)
        + (match pl with [] => 0 | _ => stream f sq (upd s b low) up pl s cv end)
    end
  end.

(* the recursion tree as the code exposes it: sizes of pointsChildUp, pointsChildLow of every splitting call in the
   order in which the two vectors are destroyed (post-order; Up before Low) *)
Fixpoint stream_trace (fuel : nat) (sq : nat) (low up : list Z) (pts : list hpt) (split : nat) (cover : Z) : list nat :=
  match fuel with
  | O => []
  | S f =>
    match stream_node sq low up pts split cover with
    | NLeaf _ => []
    | NStuck _ => []
    | NSplit r s b pu pl cv =>
      (match pu with [] => [] | _ => stream_trace f sq low (upd s b up) pu s cv end)
      ++ (match pl with [] => [] | _ => stream_trace f sq (upd s b low) up pl s cv end)
      ++ [length pu; length pl]
    end
  end.

(* the split bounds in call order (pre-order) *)
Fixpoint stream_bounds (fuel : nat) (sq : nat) (low up : list Z) (pts : list hpt) (split : nat) (cover : Z) : list (nat * Z) :=
  match fuel with
  | O => []
  | S f =>
    match stream_node sq low up pts split cover with
    | NLeaf _ => []
    | NStuck _ => []
    | NSplit r s b pu pl cv =>
      (s, b) :: (match pu with [] => [] | _ => stream_bounds f sq low (upd s b up) pu s cv end)
      ++ (match pl with [] => [] | _ => stream_bounds f sq (upd s b low) up pl s cv end)
    end
  end.

(* ------------------------------------------------------------------------------------------ *)
(* operator() *)
Definition to_hpt (p : point) : hpt := (removelast p, last p 0).
Definition strictly_inside (ref p : point) : bool := all2 Z.ltb p ref.
Fixpoint pmin (p q : point) : point :=
  match p, q with
  | x :: p', y :: q' => Z.min x y :: pmin p' q'
  | _, _ => []
  end.

Definition stream_fuel (n m : nat) : nat := S (n * m).

Section Hoy.
Variable arr : list hpt -> list hpt.

Definition hoy_top (ref : point) (S : list point) : Z :=
  match S with
  | [] => 0
  | _ =>
    match filter (strictly_inside ref) S with
    | [] => 0
    | p0 :: rest =>
      let set := p0 :: rest in
      let regLow := fold_left pmin rest p0 in
      stream (stream_fuel (length set) (length ref)) (Nat.sqrt (length S))
             (removelast regLow) (removelast ref) (arr (map to_hpt set)) 0 (last ref 0)
    end
  end.
End Hoy.

(* stable insertion sort by the last objective (comparator x.back() < y.back()) *)
Fixpoint insert_last (p : hpt) (l : list hpt) : list hpt :=
  match l with
  | [] => [p]
  | q :: t => if snd p <=? snd q then p :: l else q :: insert_last p t
  end.
Definition sort_last (l : list hpt) : list hpt := fold_right insert_last [] l.

Definition dbl (p : point) : point := map (Z.mul 2) p.

Definition hoy (ref : point) (S : list point) : Z :=
  hoy_top sort_last (dbl ref) (map dbl S) / 2 ^ Z.of_nat (length ref).

(* direct call of stream on doubled data (tie of the recursion: value, tree shape, split bounds) *)
Definition hoy_stream (sq : nat) (low up : list Z) (pts : list point) (split : nat) (cover : Z) : Z :=
  stream (stream_fuel (length pts) (S (length low))) sq low up (map to_hpt pts) split cover.
Definition hoy_stream_trace (sq : nat) (low up : list Z) (pts : list point) (split : nat) (cover : Z) : list nat :=
  stream_trace (stream_fuel (length pts) (S (length low))) sq low up (map to_hpt pts) split cover.
Definition hoy_stream_bounds (sq : nat) (low up : list Z) (pts : list point) (split : nat) (cover : Z) : list (nat * Z) :=
  stream_bounds (stream_fuel (length pts) (S (length low))) sq low up (map to_hpt pts) split cover.
