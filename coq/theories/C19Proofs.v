(* C19 — proofs about the importer model: totality / well-formedness of every importer on every byte
   string (the post-parse stage carries the content: the grammar functions are total by construction). *)
From Coq Require Import List Arith ZArith NArith Bool Lia.
From SharkV Require Import ListAux C03Model C03Proofs C19Model.
Import ListNotations.

Ltac triv_empty :=
  unfold wf_batches, wf_batches0, wf_dense_dim, wf_sparse_dim, wf_labels, ds_elems; cbn;
  repeat split; intros; try contradiction; auto.

(* ---------- batching ---------- *)
Lemma in_chunk_sizes {A} szs (l : list A) b :
  C03Model.sum szs <= length l -> In b (chunk szs l) -> In (length b) szs.
Proof.
  intros H Hb. rewrite <- (chunk_sizes szs l H). unfold sizes. apply in_map. exact Hb.
Qed.

Lemma batch_opt_spec {A} (rows : list A) m bs :
  batch_opt rows m = Some bs -> concat bs = rows /\ wf_batches m bs.
Proof.
  unfold batch_opt. destruct (opt_sizes (length rows) m) as [sz|] eqn:E; [|discriminate].
  intros [= <-]. destruct (opt_sizes_spec _ _ _ E) as (S1 & S2 & _).
  split. { apply (chunk_elems_all sz rows S1). }
  intros b Hb. apply S2. apply (in_chunk_sizes sz rows); [lia|exact Hb].
Qed.

Lemma batch_opt_none {A} (rows : list A) m : batch_opt rows m = None -> m = 0.
Proof.
  unfold batch_opt, opt_sizes. destruct (Nat.eqb_spec m 0); auto.
  destruct (length rows =? 0); discriminate.
Qed.

(* ---------- dense readers ---------- *)
Lemma same_len_spec {A} d (rows : list (list A)) : same_len d rows = true -> forall r, In r rows -> length r = d.
Proof.
  unfold same_len. rewrite forallb_forall. intros H r Hr. apply Nat.eqb_eq. auto.
Qed.

Theorem post_data_total rows m :
  1 <= m ->
  match post_data rows m with
  | Ok d => map snd (ds_elems d) = rows /\ wf_batches m (ds_batches d) /\ wf_dense_dim d
  | Exc => True
  | Fault => False
  end.
Proof.
  intros Hm. unfold post_data. destruct rows as [|r0 rest]; [triv_empty|].
  set (rows := r0 :: rest) in *.
  destruct (batch_opt _ m) as [bs|] eqn:E.
  2:{ apply batch_opt_none in E. lia. }
  destruct (same_len _ rows) eqn:SL; [|exact I].
  destruct (batch_opt_spec _ _ _ E) as (C & W).
  unfold wf_dense_dim, ds_elems; cbn [ds_batches ds_dim]. rewrite C. split; [|split; [exact W|]].
  - rewrite map_map. cbn [snd]. apply map_id.
  - intros l v Hin. apply in_map_iff in Hin. destruct Hin as (r & [= <- <-] & Hr).
    f_equal. apply (same_len_spec _ _ SL). exact Hr.
Qed.

Lemma split_reg_lengths first nout r d :
  length r = d -> nout < d ->
  length (fst (split_reg first nout r)) = nout /\ length (snd (split_reg first nout r)) = d - nout.
Proof.
  intros L H. unfold split_reg. destruct first; cbn [fst snd];
    rewrite ?firstn_length, ?skipn_length; lia.
Qed.

Theorem post_reg_total first nout rows m :
  1 <= m ->
  match post_reg first nout rows m with
  | Ok d => ds_elems d = map (split_reg first nout) rows /\ wf_batches m (ds_batches d) /\
            (forall l v, In (l, v) (ds_elems d) -> length l = nout /\ Z.of_nat (length v) = ds_dim d)
  | Exc => True
  | Fault => False
  end.
Proof.
  intros Hm. unfold post_reg. destruct rows as [|r0 rest]; [triv_empty|].
  set (rows := r0 :: rest) in *.
  destruct (Nat.leb_spec (length r0) nout) as [|Hlt]; [exact I|].
  destruct (batch_opt _ m) as [bs|] eqn:E.
  2:{ apply batch_opt_none in E. lia. }
  destruct (same_len _ rows) eqn:SL; [|exact I].
  destruct (batch_opt_spec _ _ _ E) as (C & W).
  unfold ds_elems; cbn [ds_batches ds_dim]. rewrite C. split; [reflexivity|split; [exact W|]].
  intros l v Hin. apply in_map_iff in Hin. destruct Hin as (r & Er & Hr).
  pose proof (split_reg_lengths first nout r _ (same_len_spec _ _ SL r Hr) Hlt) as (L1 & L2).
  rewrite Er in L1, L2. cbn in L1, L2. split; [exact L1|]. f_equal. exact L2.
Qed.

(* ---------- labels ---------- *)
Lemma fold_max_ge_init ls a : (a <= fold_left Z.max ls a)%Z.
Proof. revert a; induction ls as [|x ls IH]; intros a; cbn; [lia|]. specialize (IH (Z.max a x)). lia. Qed.

Lemma fold_max_ge ls a l : In l ls -> (l <= fold_left Z.max ls a)%Z.
Proof.
  revert a; induction ls as [|x ls IH]; intros a Hin; [contradiction|]. destruct Hin as [->|H]; cbn.
  - pose proof (fold_max_ge_init ls (Z.max a l)). lia.
  - apply IH. exact H.
Qed.

Lemma min_label_le_init ls a :
  (fold_left (fun m l => if (l =? -1)%Z then m else Z.min m l) ls a <= a)%Z.
Proof.
  revert a; induction ls as [|x ls IH]; intros a; cbn; [lia|].
  destruct (x =? -1)%Z; [apply IH|]. specialize (IH (Z.min a x)). lia.
Qed.

Lemma min_label_le ls a l : In l ls -> l <> (-1)%Z ->
  (fold_left (fun m l => if (l =? -1)%Z then m else Z.min m l) ls a <= l)%Z.
Proof.
  revert a; induction ls as [|x ls IH]; intros a Hin Hl; [contradiction|]. destruct Hin as [->|H]; cbn.
  - destruct (Z.eqb_spec l (-1)); [contradiction|].
    pose proof (min_label_le_init ls (Z.min a l)). lia.
  - apply IH; assumption.
Qed.

Theorem norm_labels_wf ls : labels_ok ls = true -> wf_labels (norm_labels ls).
Proof.
  intros Hok l' Hin. unfold labels_ok in Hok. rewrite forallb_forall in Hok.
  split.
  - unfold norm_labels in Hin. apply in_map_iff in Hin. destruct Hin as (l & <- & Hl).
    specialize (Hok l Hl). apply Z.leb_le in Hok. unfold norm_label.
    destruct (has_minus1 ls) eqn:B.
    + destruct (Z.eq_dec l (-1)) as [->|]; [cbn; lia|].
      assert (0 <= l - 1 \/ l - 1 = -1)%Z as [H|H] by lia.
      * pose proof (Z.quot_pos (l - 1) 2 H ltac:(lia)). lia.
      * rewrite H. cbn. lia.
    + assert (l <> (-1)%Z).
      { intros ->. unfold has_minus1 in B. apply Bool.not_true_iff_false in B. apply B.
        apply existsb_exists. exists (-1)%Z. split; auto. }
      pose proof (min_label_le ls 2147483647%Z l Hl H). unfold min_label. lia.
  - unfold class_count. pose proof (fold_max_ge (norm_labels ls) 0%Z l' Hin). lia.
Qed.

Lemma combine_map_fst {A B} (a : list A) (b : list B) : length a = length b -> map fst (combine a b) = a.
Proof. revert b; induction a as [|x a IH]; intros [|y b] H; cbn in *; try lia; auto. f_equal. apply IH. lia. Qed.
Lemma combine_map_snd {A B} (a : list A) (b : list B) : length a = length b -> map snd (combine a b) = b.
Proof. revert b; induction a as [|x a IH]; intros [|y b] H; cbn in *; try lia; auto. f_equal. apply IH. lia. Qed.

Theorem post_cls_total rows m :
  1 <= m ->
  match post_cls rows m with
  | Ok d => map snd (ds_elems d) = map snd rows /\ wf_batches m (ds_batches d) /\ wf_dense_dim d /\
            wf_labels (map fst (ds_elems d))
  | Exc => True
  | Fault => False
  end.
Proof.
  intros Hm. unfold post_cls. destruct rows as [|r0 rest]; [triv_empty|].
  set (rows := r0 :: rest) in *.
  destruct (labels_ok (map fst rows)) eqn:LO; cbn [negb]; [|exact I].
  destruct (batch_opt _ m) as [bs|] eqn:E.
  2:{ apply batch_opt_none in E. lia. }
  destruct (same_len _ (map snd rows)) eqn:SL; [|exact I].
  destruct (batch_opt_spec _ _ _ E) as (C & W).
  assert (LEN : length (norm_labels (map fst rows)) = length (map snd rows)).
  { unfold norm_labels. rewrite !map_length. reflexivity. }
  unfold wf_dense_dim, ds_elems; cbn [ds_batches ds_dim]. rewrite C.
  split; [apply combine_map_snd; exact LEN|]. split; [exact W|]. split.
  - intros l v Hin. apply in_combine_r in Hin. f_equal. apply (same_len_spec _ _ SL). exact Hin.
  - rewrite combine_map_fst by exact LEN. apply norm_labels_wf. exact LO.
Qed.

Theorem post_scalar_total {T} (vals : list T) m :
  1 <= m ->
  match post_scalar vals m with
  | Ok d => map snd (ds_elems d) = vals /\ wf_batches m (ds_batches d)
  | Exc => True
  | Fault => False
  end.
Proof.
  intros Hm. unfold post_scalar. destruct vals as [|v0 rest]; [triv_empty|].
  set (vals := v0 :: rest) in *.
  destruct (batch_opt _ m) as [bs|] eqn:E.
  2:{ apply batch_opt_none in E. lia. }
  destruct (batch_opt_spec _ _ _ E) as (C & W).
  unfold ds_elems; cbn [ds_batches]. rewrite C. split; [|exact W].
  rewrite map_map. cbn [snd]. apply map_id.
Qed.

(* ---------- importer entry points ---------- *)
Theorem csv_data_import_total sep cm m s :
  1 <= m ->
  match csv_import_data sep cm m s with
  | Ok d => exists rows, read_values cm sep s = Some rows /\ map snd (ds_elems d) = rows /\
                         wf_batches m (ds_batches d) /\ wf_dense_dim d
  | Exc => True
  | Fault => False
  end.
Proof.
  intros Hm. unfold csv_import_data, lift. destruct (read_values cm sep s) as [rows|]; [|exact I].
  pose proof (post_data_total rows m Hm) as H. destruct (post_data rows m); auto.
  exists rows. tauto.
Qed.

Theorem csv_reg_import_total first nout sep cm m s :
  1 <= m ->
  match csv_import_reg first nout sep cm m s with
  | Ok d => exists rows, read_values cm sep s = Some rows /\ ds_elems d = map (split_reg first nout) rows /\
                         wf_batches m (ds_batches d) /\
                         (forall l v, In (l, v) (ds_elems d) -> length l = nout /\ Z.of_nat (length v) = ds_dim d)
  | Exc => True
  | Fault => False
  end.
Proof.
  intros Hm. unfold csv_import_reg, lift. destruct (read_values cm sep s) as [rows|]; [|exact I].
  pose proof (post_reg_total first nout rows m Hm) as H. destruct (post_reg first nout rows m); auto.
  exists rows. tauto.
Qed.

Theorem csv_cls_import_total first sep cm m s :
  1 <= m ->
  match csv_import_cls first sep cm m s with
  | Ok d => exists rows, read_points cm sep first s = Some rows /\ map snd (ds_elems d) = map snd rows /\
                         wf_batches m (ds_batches d) /\ wf_dense_dim d /\ wf_labels (map fst (ds_elems d))
  | Exc => True
  | Fault => False
  end.
Proof.
  intros Hm. unfold csv_import_cls, lift. destruct (read_points cm sep first s) as [rows|]; [|exact I].
  pose proof (post_cls_total rows m Hm) as H. destruct (post_cls rows m); auto.
  exists rows. tauto.
Qed.

Theorem csv_scalar_import_total {T} (lexT : list byte -> option (T * list byte)) cm m s :
  1 <= m ->
  match lift (read_scalars cm lexT s) (fun v => post_scalar v m) with
  | Ok d => exists vals, read_scalars cm lexT s = Some vals /\ map snd (ds_elems d) = vals /\ wf_batches m (ds_batches d)
  | Exc => True
  | Fault => False
  end.
Proof.
  intros Hm. unfold lift. destruct (read_scalars cm lexT s) as [vals|]; [|exact I].
  pose proof (post_scalar_total vals m Hm) as H. destruct (post_scalar vals m); auto.
  exists vals. tauto.
Qed.

(* maximumBatchSize = 0 is outside the domain: the model reaches Fault (integer division by zero) *)
Lemma csv_max_batch_zero_faults : csv_import_data 44%N 35%N 0 [49%N; 10%N] = Fault.
Proof. vm_compute. reflexivity. Qed.

(* ---------- LibSVM reader ---------- *)
Lemma incr_from_gt lo is : increasing_from lo is = true -> forall j, In j is -> (lo < j)%Z.
Proof.
  revert lo; induction is as [|i r IH]; intros lo H j Hj; [contradiction|].
  cbn in H. apply andb_true_iff in H. destruct H as (H1 & H2). apply Z.ltb_lt in H1.
  destruct Hj as [->|Hj]; [exact H1|]. specialize (IH i H2 j Hj). lia.
Qed.

Lemma incr_shift lo lo' delta is :
  increasing_from lo is = true -> (forall i, In i is -> (lo' < i - delta)%Z) ->
  increasing_from lo' (map (fun i => (i - delta)%Z) is) = true.
Proof.
  revert lo lo'; induction is as [|i r IH]; intros lo lo' H Hb; [reflexivity|].
  cbn in H. apply andb_true_iff in H. destruct H as (H1 & H2).
  cbn. apply andb_true_iff. split.
  - apply Z.ltb_lt. apply Hb. left. reflexivity.
  - apply (IH i). exact H2. intros j Hj. pose proof (incr_from_gt i r H2 j Hj). lia.
Qed.

Lemma last_index_cons p ps : ps <> [] -> last_index (p :: ps) = last_index ps.
Proof.
  intros H. unfold last_index. cbn [rev]. destruct (rev ps) as [|q t] eqn:E.
  - exfalso. apply H. rewrite <- (rev_involutive ps), E. reflexivity.
  - reflexivity.
Qed.

Lemma sorted_le_last lo ps : increasing_from lo (map fst ps) = true ->
  forall j, In j (map fst ps) -> (j <= last_index ps)%Z.
Proof.
  revert lo; induction ps as [|p ps IH]; intros lo H j Hj; [contradiction|].
  cbn in H. apply andb_true_iff in H. destruct H as (H1 & H2).
  destruct ps as [|q ps'].
  - destruct Hj as [<-|[]]. unfold last_index. cbn. destruct p. cbn. lia.
  - rewrite last_index_cons by discriminate.
    destruct Hj as [<-|Hj].
    + pose proof (incr_from_gt _ _ H2 (fst q) ltac:(left; reflexivity)).
      specialize (IH (fst p) H2 (fst q) ltac:(left; reflexivity)). lia.
    + apply (IH (fst p) H2 j Hj).
Qed.

Definition dim_step (m : Z) (ps : list (Z * num)) : Z := match ps with [] => m | _ => Z.max m (last_index ps) end.

Lemma fold_dim_ge_init pts a : (a <= fold_left dim_step pts a)%Z.
Proof.
  revert a; induction pts as [|ps pts IH]; intros a; cbn; [lia|].
  specialize (IH (dim_step a ps)). unfold dim_step in *. destruct ps; lia.
Qed.

Lemma fold_dim_ge pts a ps : In ps pts -> ps <> [] -> (last_index ps <= fold_left dim_step pts a)%Z.
Proof.
  revert a; induction pts as [|qs pts IH]; intros a Hin Hne; [contradiction|]. destruct Hin as [->|Hin]; cbn.
  - pose proof (fold_dim_ge_init pts (dim_step a ps)). unfold dim_step in *. destruct ps; [contradiction|]. lia.
  - apply IH; assumption.
Qed.

Lemma svm_dims_spec hi pts mx hz :
  svm_dims_coded hi pts = (mx, hz) ->
  (forall ps, In ps pts -> ps <> [] -> (last_index ps <= mx)%Z) /\
  (hz = false -> forall ps, In ps pts -> first_is_zero ps = false).
Proof.
  unfold svm_dims_coded. fold dim_step. intros [= <- <-]. split.
  - intros ps Hin Hne. pose proof (fold_dim_ge pts 0%Z ps Hin Hne). lia.
  - intros H ps Hin. destruct (first_is_zero ps) eqn:E; auto.
    assert (existsb first_is_zero pts = true) by (apply existsb_exists; exists ps; auto). congruence.
Qed.

(* a record with strictly increasing indices is written inside an element of the inferred dimension *)
Lemma sorted_positions hi pts mx hz ps :
  svm_dims_coded hi pts = (mx, hz) -> In ps pts -> sorted_indices ps = true ->
  let delta := if hz then 0%Z else 1%Z in
  let dim := (mx + (if hz then 1 else 0))%Z in
  increasing_from (-1) (map fst (shift delta ps)) = true /\
  (forall i x, In (i, x) (shift delta ps) -> (0 <= i < dim)%Z).
Proof.
  intros D Hin S delta dim. destruct (svm_dims_spec _ _ _ _ D) as (Hmx & Hz).
  unfold sorted_indices in S.
  assert (Hlow : forall j, In j (map fst ps) -> (delta <= j)%Z).
  { intros j Hj. pose proof (incr_from_gt _ _ S j Hj) as G. subst delta. destruct hz; [lia|].
    specialize (Hz eq_refl ps Hin). destruct ps as [|[i0 x0] r]; [contradiction|].
    cbn in Hz. apply Z.eqb_neq in Hz. cbn in S. apply andb_true_iff in S. destruct S as (S1 & S2).
    apply Z.ltb_lt in S1. destruct Hj as [<-|Hj]; [cbn; lia|].
    pose proof (incr_from_gt _ _ S2 j Hj). cbn in *. lia. }
  assert (Hhigh : forall j, In j (map fst ps) -> (j <= mx)%Z).
  { intros j Hj. pose proof (sorted_le_last _ _ S j Hj).
    assert (ps <> []) by (intros ->; contradiction). specialize (Hmx ps Hin H0). lia. }
  split.
  - unfold shift. rewrite map_map. cbn [fst].
    rewrite <- (map_map fst (fun i => (i - delta)%Z)).
    apply (incr_shift (-1)); [exact S|]. intros i Hi. specialize (Hlow i Hi). lia.
  - intros i x Hi. unfold shift in Hi. apply in_map_iff in Hi. destruct Hi as ([j y] & [= <- <-] & Hj).
    assert (In j (map fst ps)) by (apply in_map_iff; exists (j, y); auto).
    specialize (Hlow j H). specialize (Hhigh j H). subst dim delta. cbn [fst]. destruct hz; lia.
Qed.

Lemma positions_ok_of_wf compressed dim delta ps :
  increasing_from (-1) (map fst (shift delta ps)) = true ->
  (forall i x, In (i, x) (shift delta ps) -> (0 <= i < dim)%Z) ->
  positions_ok compressed dim delta ps = true.
Proof.
  intros I B. unfold positions_ok. apply andb_true_iff. split.
  - apply forallb_forall. intros i Hi. apply in_map_iff in Hi. destruct Hi as ([j y] & <- & Hj).
    specialize (B (j - delta)%Z y). cbn [fst].
    assert (In ((j - delta)%Z, y) (shift delta ps)) by (unfold shift; apply in_map_iff; exists (j, y); auto).
    specialize (B H). apply andb_true_iff. split; [apply Z.leb_le|apply Z.ltb_lt]; lia.
  - apply orb_true_iff. right. unfold shift in I. rewrite map_map in I. cbn [fst] in I. exact I.
Qed.

Lemma sum_repeat b k : C03Model.sum (repeat b k) = k * b.
Proof. induction k; [reflexivity|]. cbn [repeat]. unfold C03Model.sum in *. cbn [fold_right]. rewrite IHk. reflexivity. Qed.

Lemma init_sizes_spec n b : 1 <= n ->
  C03Model.sum (init_sizes n b) = n /\ forall s, In s (init_sizes n b) -> 1 <= s /\ (b = 0 \/ s <= b).
Proof.
  intros Hn. unfold init_sizes. destruct (Nat.eqb_spec b 0) as [->|Hb]; cbn [orb].
  { cbn. split; [lia|]. intros s [<-|[]]. lia. }
  destruct (Nat.ltb_spec n b) as [Hlt|Hge].
  { cbn. split; [lia|]. intros s [<-|[]]. lia. }
  pose proof (Nat.div_mod n b Hb) as DM. pose proof (Nat.mod_upper_bound n b Hb) as MU.
  set (q := n / b) in *. set (r := n mod b) in *.
  assert (Hq : 1 <= q). { destruct q; [|lia]. nia. }
  destruct (Nat.eqb_spec r 0) as [Hr|Hr].
  - replace (q + 0 - 1) with (q - 1) by lia. split.
    + rewrite sum_app, sum_repeat. cbn. nia.
    + intros s Hs. apply in_app_or in Hs. destruct Hs as [Hs|[<-|[]]].
      * apply repeat_spec in Hs. subst s. lia.
      * assert ((q - 1) * b = n - b) by nia. lia.
  - replace (q + 1 - 1) with q by lia. split.
    + rewrite sum_app, sum_repeat. cbn. nia.
    + intros s Hs. apply in_app_or in Hs. destruct Hs as [Hs|[<-|[]]].
      * apply repeat_spec in Hs. subst s. lia.
      * assert (n - q * b = r) by nia. lia.
Qed.

Lemma svm_build_total {L} compressed hi bsz (labels : list L) pts on_empty :
  length labels = length pts -> pts <> [] ->
  forallb sorted_indices pts = true ->
  match svm_build compressed hi bsz labels pts on_empty with
  | Ok d => map fst (ds_elems d) = labels /\ length (ds_elems d) = length pts /\
            wf_batches0 bsz (ds_batches d) /\ wf_sparse_dim d
  | Exc => True
  | Fault => False
  end.
Proof.
  intros LEN NE SO. unfold svm_build. destruct (svm_dims_coded hi pts) as [mx hz] eqn:D.
  destruct (negb (hi =? 0)%Z && (hi <? mx)%Z); [exact I|].
  destruct pts as [|p0 pts']; [contradiction|]. set (pts := p0 :: pts') in *.
  rewrite forallb_forall in SO.
  assert (PO : forallb (positions_ok compressed (mx + (if hz then 1 else 0)) (if hz then 0%Z else 1%Z)) pts = true).
  { apply forallb_forall. intros ps Hps. destruct (sorted_positions hi pts mx hz ps D Hps (SO ps Hps)) as (A & B).
    apply positions_ok_of_wf; assumption. }
  rewrite PO.
  set (delta := if hz then 0%Z else 1%Z) in *. set (dim := (mx + (if hz then 1 else 0))%Z) in *.
  set (els := combine labels (map (shift delta) pts)).
  assert (LE : length els = length pts).
  { unfold els. rewrite combine_length, map_length. lia. }
  destruct (init_sizes_spec (length pts) bsz ltac:(cbn; lia)) as (S1 & S2).
  assert (CE : concat (chunk (init_sizes (length pts) bsz) els) = els).
  { apply (chunk_elems_all _ els). lia. }
  unfold ds_elems, wf_sparse_dim, ds_elems; cbn [ds_batches ds_dim]. rewrite CE.
  split; [apply combine_map_fst; rewrite map_length; exact LEN|]. split; [exact LE|]. split.
  - intros b Hb. apply S2. apply (in_chunk_sizes _ els); [lia|exact Hb].
  - intros l v Hin. apply in_combine_r in Hin. apply in_map_iff in Hin. destruct Hin as (ps & <- & Hps).
    apply (sorted_positions hi pts mx hz ps D Hps (SO ps Hps)).
Qed.

Lemma svm_labels_spec recs ls : svm_labels recs = Some ls -> length ls = length recs /\ labels_ok ls = true.
Proof.
  unfold svm_labels. intros SL.
  match type of SL with (if ?c then _ else _) = _ => destruct c eqn:F end; [|discriminate]. injection SL as <-.
  rewrite !map_length. split; [reflexivity|]. unfold labels_ok. rewrite forallb_forall in *.
  intros l Hl. apply in_map_iff in Hl. destruct Hl as (o & <- & Ho). specialize (F o Ho). destruct o; [exact F|discriminate].
Qed.

Theorem post_svm_cls_total compressed hi bsz recs :
  match post_svm_cls compressed hi bsz recs with
  | Ok d => length (ds_elems d) = length recs /\ wf_batches0 bsz (ds_batches d) /\ wf_sparse_dim d /\
            wf_labels (map fst (ds_elems d))
  | Exc => True
  | Fault => False
  end.
Proof.
  unfold post_svm_cls. destruct (forallb sorted_indices (map snd recs)) eqn:SO; cbn [negb]; [|exact I].
  destruct recs as [|r0 recs']; [triv_empty|]. set (recs := r0 :: recs') in *.
  unfold post_svm_cls_coded. destruct (svm_labels recs) as [ls|] eqn:SL; [|exact I].
  pose proof (svm_labels_spec recs ls SL) as LL.
  destruct LL as (LL & LO).
  pose proof (svm_build_total compressed hi bsz (norm_labels ls) (map snd recs) Fault) as H.
  specialize (H ltac:(unfold norm_labels; rewrite !map_length; exact LL) ltac:(discriminate) SO).
  destruct (svm_build _ _ _ _ _ _); auto.
  destruct H as (H1 & H2 & H3 & H4). rewrite map_length in H2.
  split; [exact H2|]. split; [exact H3|]. split; [exact H4|].
  rewrite H1. apply norm_labels_wf. exact LO.
Qed.

Theorem post_svm_reg_total compressed hi bsz recs :
  match post_svm_reg compressed hi bsz recs with
  | Ok d => map fst (ds_elems d) = map fst recs /\ length (ds_elems d) = length recs /\
            wf_batches0 bsz (ds_batches d) /\ wf_sparse_dim d
  | Exc => True
  | Fault => False
  end.
Proof.
  unfold post_svm_reg. destruct (forallb sorted_indices (map snd recs)) eqn:SO; cbn [negb]; [|exact I].
  destruct recs as [|r0 recs']; [triv_empty|]. set (recs := r0 :: recs') in *.
  unfold post_svm_reg_coded.
  pose proof (svm_build_total compressed hi bsz (map fst recs) (map snd recs)
                (Ok (mkDs [[]] (fst (svm_dims_coded hi []))))) as H.
  specialize (H ltac:(rewrite !map_length; reflexivity) ltac:(discriminate) SO).
  destruct (svm_build _ _ _ _ _ _); auto.
  destruct H as (H1 & H2 & H3 & H4). rewrite map_length in H2.
  split; [exact H1|]. split; [exact H2|]. split; [exact H3|exact H4].
Qed.

Theorem svm_cls_import_total compressed hi bsz s :
  match svm_import_cls compressed hi bsz s with
  | Ok d => exists recs, read_svm s = Some recs /\ length (ds_elems d) = length recs /\
                         wf_batches0 bsz (ds_batches d) /\ wf_sparse_dim d /\ wf_labels (map fst (ds_elems d))
  | Exc => True
  | Fault => False
  end.
Proof.
  unfold svm_import_cls, lift. destruct (read_svm s) as [recs|]; [|exact I].
  pose proof (post_svm_cls_total compressed hi bsz recs) as H.
  destruct (post_svm_cls compressed hi bsz recs); auto. exists recs. tauto.
Qed.

Theorem svm_reg_import_total compressed hi bsz s :
  match svm_import_reg compressed hi bsz s with
  | Ok d => exists recs, read_svm s = Some recs /\ map fst (ds_elems d) = map fst recs /\
                         length (ds_elems d) = length recs /\ wf_batches0 bsz (ds_batches d) /\ wf_sparse_dim d
  | Exc => True
  | Fault => False
  end.
Proof.
  unfold svm_import_reg, lift. destruct (read_svm s) as [recs|]; [|exact I].
  pose proof (post_svm_reg_total compressed hi bsz recs) as H.
  destruct (post_svm_reg compressed hi bsz recs); auto. exists recs. tauto.
Qed.

(* the importer as coded (pinned tree) reaches Fault: machine-checked statements of findings F10 / F11 *)
Definition bytes_of (l : list nat) : list byte := map N.of_nat l.
(* "1 5:1 2:1\n" : unsorted indices, dimension inferred from the last index *)
Lemma f10_unsorted_faults :
  svm_import_cls_coded false 0 256 (bytes_of [49;32;53;58;49;32;50;58;49;10]) = Fault /\
  svm_import_cls false 0 256 (bytes_of [49;32;53;58;49;32;50;58;49;10]) = Exc.
Proof. vm_compute. split; reflexivity. Qed.
(* "1 3:1 0:2\n" : zero index that is not the first one *)
Lemma f10_zero_not_first_faults :
  svm_import_reg_coded false 0 256 (bytes_of [49;32;51;58;49;32;48;58;50;10]) = Fault /\
  svm_import_reg_coded true 0 256 (bytes_of [49;32;51;58;49;32;48;58;50;10]) = Fault.
Proof. vm_compute. split; reflexivity. Qed.
(* empty input, classification: numberOfClasses dereferences end() of an empty batch *)
Lemma f11_empty_faults :
  svm_import_cls_coded false 0 256 [] = Fault /\ svm_import_cls false 0 256 [] = Ok (mkDs [] 0).
Proof. vm_compute. split; reflexivity. Qed.
