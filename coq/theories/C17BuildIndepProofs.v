(* C17 — the tree built by the construction model does not depend on what std::nth_element does:
   any two oracles with the std::nth_element post-condition give the same cuts and the same index
   set in every node.  Axiom-free. *)
From Coq Require Import List ZArith Bool Arith Lia Permutation.
From SharkV Require Import C17Model C17Proofs C17Build C17BuildProofs.
Import ListNotations.
Open Scope Z_scope.

(* ---- minima / maxima do not depend on the order ---- *)
Lemma fold_min_perm {A} (f : A -> Z) a l a' l' : Permutation (a :: l) (a' :: l') ->
  fold_left (fun acc i => let v := f i in if v <? acc then v else acc) l (f a) =
  fold_left (fun acc i => let v := f i in if v <? acc then v else acc) l' (f a').
Proof.
  intros P.
  destruct (fold_min_le f l (f a)) as [A1 A2]. destruct (fold_min_le f l' (f a')) as [B1 B2].
  pose proof (fold_min_in f l (f a)) as A3. pose proof (fold_min_in f l' (f a')) as B3.
  cbv zeta in *.
  set (m1 := fold_left _ l (f a)) in *. set (m2 := fold_left _ l' (f a')) in *.
  assert (LA : forall x, In x (a :: l) -> m1 <= f x) by (intros x [<-|Hx]; auto).
  assert (LB : forall x, In x (a' :: l') -> m2 <= f x) by (intros x [<-|Hx]; auto).
  assert (IA : exists x, In x (a :: l) /\ m1 = f x).
  { destruct A3 as [E|(x & Hx & E)]; [exists a | exists x]; simpl; auto. }
  assert (IB : exists x, In x (a' :: l') /\ m2 = f x).
  { destruct B3 as [E|(x & Hx & E)]; [exists a' | exists x]; simpl; auto. }
  destruct IA as (x1 & Hx1 & E1). destruct IB as (x2 & Hx2 & E2).
  pose proof (LB x1 (Permutation_in _ P Hx1)). pose proof (LA x2 (Permutation_in _ (Permutation_sym P) Hx2)).
  lia.
Qed.

Lemma fold_max_perm {A} (f : A -> Z) a l a' l' : Permutation (a :: l) (a' :: l') ->
  fold_left (fun acc i => let v := f i in if acc <? v then v else acc) l (f a) =
  fold_left (fun acc i => let v := f i in if acc <? v then v else acc) l' (f a').
Proof.
  intros P.
  destruct (fold_max_ge f l (f a)) as [A1 A2]. destruct (fold_max_ge f l' (f a')) as [B1 B2].
  pose proof (fold_max_in f l (f a)) as A3. pose proof (fold_max_in f l' (f a')) as B3.
  cbv zeta in *.
  set (m1 := fold_left _ l (f a)) in *. set (m2 := fold_left _ l' (f a')) in *.
  assert (LA : forall x, In x (a :: l) -> f x <= m1) by (intros x [<-|Hx]; auto).
  assert (LB : forall x, In x (a' :: l') -> f x <= m2) by (intros x [<-|Hx]; auto).
  assert (IA : exists x, In x (a :: l) /\ m1 = f x).
  { destruct A3 as [E|(x & Hx & E)]; [exists a | exists x]; simpl; auto. }
  assert (IB : exists x, In x (a' :: l') /\ m2 = f x).
  { destruct B3 as [E|(x & Hx & E)]; [exists a' | exists x]; simpl; auto. }
  destruct IA as (x1 & Hx1 & E1). destruct IB as (x2 & Hx2 & E2).
  pose proof (LB x1 (Permutation_in _ P Hx1)). pose proof (LA x2 (Permutation_in _ (Permutation_sym P) Hx2)).
  lia.
Qed.

Lemma maxkey_perm (l l' : list kv) : Permutation l l' -> maxkey l = maxkey l'.
Proof.
  intros P. destruct l as [|e t], l' as [|e' t'].
  - reflexivity.
  - apply Permutation_nil in P. discriminate.
  - apply Permutation_sym, Permutation_nil in P. discriminate.
  - unfold maxkey. apply (fold_max_perm (@fst Z nat) e t e' t' P).
Qed.

Lemma minkey_perm (l l' : list kv) : Permutation l l' -> minkey l = minkey l'.
Proof.
  intros P. destruct l as [|e t], l' as [|e' t'].
  - reflexivity.
  - apply Permutation_nil in P. discriminate.
  - apply Permutation_sym, Permutation_nil in P. discriminate.
  - unfold minkey. apply (fold_min_perm (@fst Z nat) e t e' t' P).
Qed.

Lemma extent_perm data first rest first' rest' d : Permutation (first :: rest) (first' :: rest') ->
  extent data first rest d = extent data first' rest' d.
Proof.
  intros P. unfold extent, hi_of, lo_of. f_equal.
  - apply (fold_max_perm (fun i => coord (pt data i) d) first rest first' rest' P).
  - apply (fold_min_perm (fun i => coord (pt data i) d) first rest first' rest' P).
Qed.

Lemma scan_dims_ext ext1 ext2 ds : (forall d, ext1 d = ext2 d) ->
  forall cd ex, scan_dims ext1 ds cd ex = scan_dims ext2 ds cd ex.
Proof.
  intros E. induction ds as [|d ds IH]; simpl; intros cd ex; [reflexivity|].
  rewrite (E d). destruct (ex <? ext2 d); apply IH.
Qed.

Lemma cutting_dim_perm data dim e1 e2 : uniform dim data -> Permutation e1 e2 ->
  (forall i, In i e1 -> (i < length data)%nat) ->
  cutting_dim data e1 = cutting_dim data e2 /\ (e1 <> [] -> dim_of data e1 = dim /\ dim_of data e2 = dim).
Proof.
  intros U P Hidx. destruct e1 as [|f1 r1], e2 as [|f2 r2].
  - split; [reflexivity | congruence].
  - apply Permutation_nil in P. discriminate.
  - apply Permutation_sym, Permutation_nil in P. discriminate.
  - assert (L1 : length (pt data f1) = dim) by (apply uniform_length; auto; apply Hidx; left; auto).
    assert (L2 : length (pt data f2) = dim).
    { apply uniform_length; auto. apply Hidx. eapply Permutation_in; [apply Permutation_sym; exact P | left; auto]. }
    split; [|intros _; unfold dim_of; simpl; auto].
    unfold cutting_dim. rewrite L1, L2.
    rewrite (scan_dims_ext (extent data f1 r1) (extent data f2 r2)); [|intros d; apply extent_perm; auto].
    rewrite (extent_perm data f1 r1 f2 r2 0%nat P). reflexivity.
Qed.

(* ---- filters and permutations ---- *)
Lemma filter_Permutation {A} (f : A -> bool) (l l' : list A) :
  Permutation l l' -> Permutation (filter f l) (filter f l').
Proof.
  induction 1; simpl; auto.
  - destruct (f x); auto.
  - destruct (f x), (f y); auto. constructor.
  - etransitivity; eauto.
Qed.

Lemma filter_all {A} (f : A -> bool) (l : list A) : (forall x, In x l -> f x = true) -> filter f l = l.
Proof.
  induction l as [|x l IH]; simpl; intros H; [reflexivity|].
  rewrite (H x (or_introl eq_refl)). f_equal. apply IH. auto.
Qed.

Lemma filter_none {A} (f : A -> bool) (l : list A) : (forall x, In x l -> f x = false) -> filter f l = [].
Proof.
  induction l as [|x l IH]; simpl; intros H; [reflexivity|].
  rewrite (H x (or_introl eq_refl)). apply IH. auto.
Qed.

Lemma filter_len_le {A} (f : A -> bool) (l : list A) : (length (filter f l) <= length l)%nat.
Proof. induction l as [|x l IH]; simpl; [lia|]. destruct (f x); simpl; lia. Qed.

(* ---- the key at the median position is determined by the multiset of keys ---- *)
Lemma median_key_le (r1 r2 : list kv) mp e1 e2 :
  Permutation r1 r2 -> median_prop mp r1 -> median_prop mp r2 ->
  nth_error r1 mp = Some e1 -> nth_error r2 mp = Some e2 -> fst e2 <= fst e1.
Proof.
  intros P M1 M2 E1 E2.
  destruct (Z.le_gt_cases (fst e2) (fst e1)) as [H|H]; [auto|exfalso].
  (* fst e1 < fst e2: count the keys below fst e2 *)
  set (p := fun e : kv => fst e <? fst e2).
  assert (C : length (filter p r1) = length (filter p r2)).
  { apply Permutation_length. apply filter_Permutation. auto. }
  destruct (M1 e1 E1) as [F1 _]. destruct (M2 e2 E2) as [_ B2].
  rewrite Forall_forall in F1, B2.
  assert (Hmp1 : (mp < length r1)%nat) by (apply nth_error_Some; congruence).
  assert (Hmp2 : (mp < length r2)%nat) by (apply nth_error_Some; congruence).
  (* r2: nothing behind position mp is below fst e2 *)
  assert (C2 : (length (filter p r2) <= mp)%nat).
  { rewrite <- (firstn_skipn mp r2), filter_app.
    rewrite (filter_none p (skipn mp r2)).
    - rewrite app_nil_r. etransitivity; [apply filter_len_le|]. rewrite firstn_length. lia.
    - intros x Hx. unfold p. apply Z.ltb_ge. apply B2; auto. }
  (* r1: the first mp+1 elements are all below fst e2 *)
  assert (C1 : (S mp <= length (filter p r1))%nat).
  { rewrite <- (firstn_skipn mp r1), filter_app, app_length.
    rewrite (filter_all p (firstn mp r1)).
    - rewrite firstn_length_le by lia.
      rewrite (skipn_nth_error r1 mp e1 E1). simpl.
      assert (p e1 = true) by (unfold p; apply Z.ltb_lt; auto). rewrite H0. simpl. lia.
    - intros x Hx. unfold p. apply Z.ltb_lt. specialize (F1 x Hx). cbv beta in F1. lia. }
  lia.
Qed.

Lemma median_key_unique (r1 r2 : list kv) mp e1 e2 :
  Permutation r1 r2 -> median_prop mp r1 -> median_prop mp r2 ->
  nth_error r1 mp = Some e1 -> nth_error r2 mp = Some e2 -> fst e1 = fst e2.
Proof.
  intros P M1 M2 E1 E2.
  pose proof (median_key_le r1 r2 mp e1 e2 P M1 M2 E1 E2).
  pose proof (median_key_le r2 r1 mp e2 e1 (Permutation_sym P) M2 M1 E2 E1). lia.
Qed.

(* ---- partitionEqually in terms of the three key classes of the whole range ---- *)
Definition pe_char (r : list kv) (m : Z) : list kv * list kv :=
  let A := filter (fun e => fst e <? m) r in
  let B := filter (fun e => fst e =? m) r in
  let C := filter (fun e => m <? fst e) r in
  if (length A =? 0)%nat then (A ++ B, C)
  else if (length C <=? length A)%nat then (A, B ++ C) else (A ++ B, C).

Lemma partition_equally_char oracle range e0 :
  nth_error (oracle range) (median_pos (length range)) = Some e0 ->
  median_prop (median_pos (length range)) (oracle range) ->
  partition_equally oracle range = pe_char (oracle range) (fst e0).
Proof.
  intros En M. unfold partition_equally, pe_char. cbv zeta.
  set (r := oracle range) in *. set (mp := median_pos (length range)) in *.
  rewrite (nth_error_nth r mp (0, 0%nat) En). set (m := fst e0).
  destruct (M e0 En) as [Hf Hb]. rewrite Forall_forall in Hf, Hb. fold m in Hf, Hb.
  assert (HA : filter (fun e : kv => fst e <? m) (firstn mp r) = filter (fun e : kv => fst e <? m) r).
  { rewrite <- (firstn_skipn mp r) at 2. rewrite filter_app.
    rewrite (filter_none _ (skipn mp r)); [rewrite app_nil_r; reflexivity|].
    intros x Hx. apply Z.ltb_ge. apply Hb; auto. }
  assert (HC : filter (fun e : kv => negb (fst e =? m)) (skipn mp r) = filter (fun e : kv => m <? fst e) r).
  { rewrite <- (firstn_skipn mp r) at 2. rewrite filter_app.
    rewrite (filter_none _ (firstn mp r)).
    - simpl. apply filter_ext_in. intros x Hx. specialize (Hb x Hx). cbv beta in Hb.
      destruct (Z.eqb_spec (fst x) m); destruct (Z.ltb_spec m (fst x)); simpl; auto; lia.
    - intros x Hx. apply Z.ltb_ge. apply Hf; auto. }
  assert (HB : filter (fun e : kv => negb (fst e <? m)) (firstn mp r) ++ filter (fun e : kv => fst e =? m) (skipn mp r)
               = filter (fun e : kv => fst e =? m) r).
  { rewrite <- (firstn_skipn mp r) at 3. rewrite filter_app. f_equal.
    apply filter_ext_in. intros x Hx. specialize (Hf x Hx). cbv beta in Hf.
    destruct (Z.eqb_spec (fst x) m); destruct (Z.ltb_spec (fst x) m); simpl; auto; lia. }
  unfold kv in *. rewrite HA, HC, <- HB.
  match goal with |- context [if ?c then _ else _] => destruct c end; [reflexivity|].
  match goal with |- context [if ?c then _ else _] => destruct c end; [|reflexivity].
  rewrite <- app_assoc. reflexivity.
Qed.

Lemma pe_char_perm r1 r2 m L1 R1 L2 R2 : Permutation r1 r2 ->
  pe_char r1 m = (L1, R1) -> pe_char r2 m = (L2, R2) -> Permutation L1 L2 /\ Permutation R1 R2.
Proof.
  intros P. unfold pe_char. cbv zeta.
  pose proof (filter_Permutation (fun e : kv => fst e <? m) r1 r2 P) as PA.
  pose proof (filter_Permutation (fun e : kv => fst e =? m) r1 r2 P) as PB.
  pose proof (filter_Permutation (fun e : kv => m <? fst e) r1 r2 P) as PC.
  unfold kv in *. rewrite (Permutation_length PA), (Permutation_length PC).
  match goal with |- context [if ?c then _ else _] => destruct c end.
  - intros E1 E2; inversion E1; inversion E2; subst. split; [apply Permutation_app; auto | auto].
  - match goal with |- context [if ?c then _ else _] => destruct c end;
      intros E1 E2; inversion E1; inversion E2; subst.
    + split; [auto | apply Permutation_app; auto].
    + split; [apply Permutation_app; auto | auto].
Qed.

Lemma split_list_indep o1 o2 range1 range2 thr1 L1 R1 thr2 L2 R2 :
  oracle_ok o1 -> oracle_ok o2 -> Permutation range1 range2 -> (2 <= length range1)%nat ->
  (exists x y, In x range1 /\ In y range1 /\ fst x < fst y) ->
  split_list o1 range1 = (thr1, L1, R1) -> split_list o2 range2 = (thr2, L2, R2) ->
  thr1 = thr2 /\ Permutation L1 L2 /\ Permutation R1 R2.
Proof.
  intros O1 O2 P Hn Hxy E1 E2.
  assert (Hlen : length range2 = length range1) by (symmetry; apply Permutation_length; auto).
  assert (Hxy2 : exists x y, In x range2 /\ In y range2 /\ fst x < fst y).
  { destruct Hxy as (x & y & Hx & Hy & H). exists x, y.
    split; [eapply Permutation_in; eauto|]. split; [eapply Permutation_in; eauto | auto]. }
  assert (Hn2 : (2 <= length range2)%nat) by lia.
  unfold split_list in E1, E2.
  destruct (partition_equally o1 range1) as [A1 B1] eqn:EP1.
  destruct (partition_equally o2 range2) as [A2 B2] eqn:EP2.
  destruct (partition_equally_spec o1 range1 A1 B1 (O1 range1) Hn Hxy EP1) as (_ & NB1 & _ & _).
  destruct (partition_equally_spec o2 range2 A2 B2 (O2 range2) Hn2 Hxy2 EP2) as (_ & NB2 & _ & _).
  destruct (O1 range1) as [P1 M1]. destruct (O2 range2) as [P2 M2]. unfold kv in *.
  set (mp := median_pos (length range1)) in *. rewrite Hlen in M2. fold mp in M2.
  assert (Hmp1 : (mp < length (o1 range1))%nat).
  { rewrite <- (Permutation_length P1). apply median_pos_lt; auto. }
  assert (Hmp2 : (mp < length (o2 range2))%nat).
  { rewrite <- (Permutation_length P2), Hlen. apply median_pos_lt; auto. }
  destruct (nth_error (o1 range1) mp) as [e1|] eqn:En1; [|apply nth_error_None in En1; lia].
  destruct (nth_error (o2 range2) mp) as [e2|] eqn:En2; [|apply nth_error_None in En2; lia].
  assert (PR : Permutation (o1 range1) (o2 range2)).
  { rewrite <- P1, <- P2. auto. }
  pose proof (median_key_unique _ _ mp e1 e2 PR M1 M2 En1 En2) as Hm.
  rewrite (partition_equally_char o1 range1 e1 En1 M1) in EP1.
  assert (En2' : nth_error (o2 range2) (median_pos (length range2)) = Some e2) by (rewrite Hlen; auto).
  assert (M2' : median_prop (median_pos (length range2)) (o2 range2)) by (rewrite Hlen; auto).
  rewrite (partition_equally_char o2 range2 e2 En2' M2') in EP2. rewrite <- Hm in EP2.
  destruct (pe_char_perm _ _ _ _ _ _ _ PR EP1 EP2) as [PA PB].
  destruct B1 as [|y1 B1']; [congruence|]. destruct B2 as [|y2 B2']; [congruence|].
  inversion E1; inversion E2; subst.
  split; [|auto].
  change (fold_left (fun (acc : Z) (x : Z * nat) => if fst x <? acc then fst x else acc) B1' (fst y1))
    with (minkey (y1 :: B1')).
  change (fold_left (fun (acc : Z) (x : Z * nat) => if fst x <? acc then fst x else acc) B2' (fst y2))
    with (minkey (y2 :: B2')).
  rewrite (maxkey_perm _ _ PA), (minkey_perm _ _ PB). reflexivity.
Qed.

(* ---- buildTree ---- *)
Lemma tree_equiv_leaf e1 e2 : Permutation e1 e2 -> tree_equiv (Leaf e1) (Leaf e2).
Proof. auto. Qed.

Lemma build_indep data dim o1 o2 : uniform dim data -> oracle_ok o1 -> oracle_ok o2 ->
  forall fuel e1 e2, Permutation e1 e2 -> (length e1 <= fuel)%nat ->
    (forall i, In i e1 -> (i < length data)%nat) ->
    tree_equiv (build fuel data o1 e1) (build fuel data o2 e2).
Proof.
  intros U O1 O2. induction fuel as [|f IH]; intros e1 e2 P Hlen Hidx.
  - simpl. auto.
  - cbn [build]. rewrite <- (Permutation_length P).
    destruct (Nat.leb_spec (length e1) 1) as [H1|H1]; [simpl; auto|].
    destruct (cutting_dim_perm data dim e1 e2 U P Hidx) as [Hcd Hdim].
    destruct e1 as [|f1 r1]; [simpl in H1; lia|].
    destruct e2 as [|f2 r2]; [apply Permutation_sym, Permutation_nil in P; discriminate|].
    destruct Hdim as [Hd1 Hd2]; [discriminate|].
    rewrite <- Hcd, Hd1, Hd2.
    destruct (Nat.eqb_spec (cutting_dim data (f1 :: r1)) dim) as [Hd|Hd]; [simpl; auto|].
    set (cd := cutting_dim data (f1 :: r1)) in *.
    set (range1 := map (fun i => (coord (pt data i) cd, i)) (f1 :: r1)).
    set (range2 := map (fun i => (coord (pt data i) cd, i)) (f2 :: r2)).
    destruct (split_list o1 range1) as [[thr1 L1] R1] eqn:ES1.
    destruct (split_list o2 range2) as [[thr2 L2] R2] eqn:ES2.
    assert (PR : Permutation range1 range2) by (unfold range1, range2; apply Permutation_map; auto).
    assert (Hd' : cutting_dim data (f1 :: r1) <> dim_of data (f1 :: r1)) by (fold cd; rewrite Hd1; auto).
    assert (Hxy : exists x y, In x range1 /\ In y range1 /\ fst x < fst y).
    { unfold dim_of in Hd'. cbn [hd] in Hd'.
      destruct (cutting_dim_proper data f1 r1 Hd') as (i & j & Hi & Hj & Hlt). fold cd in Hlt.
      exists (coord (pt data i) cd, i), (coord (pt data j) cd, j).
      split; [unfold range1; apply in_map_iff; eauto|]. split; [unfold range1; apply in_map_iff; eauto | auto]. }
    assert (Hn2 : (2 <= length range1)%nat) by (unfold range1; rewrite map_length; lia).
    destruct (split_list_indep o1 o2 range1 range2 thr1 L1 R1 thr2 L2 R2 O1 O2 PR Hn2 Hxy ES1 ES2) as (Ht & PL & PRR).
    destruct (split_children_shorter data o1 f1 r1 thr1 L1 R1 O1 H1 Hd' ES1) as [SL SR].
    destruct (split_list_spec o1 range1 thr1 L1 R1 (O1 range1) Hn2 Hxy ES1) as (_ & _ & C & _).
    assert (Hin : forall e, In e (L1 ++ R1) -> In (snd e) (f1 :: r1)).
    { intros e He. eapply Permutation_in in He; [|apply Permutation_sym; exact C].
      unfold range1 in He. apply in_map_iff in He. destruct He as (i & <- & Hi). simpl. auto. }
    cbn [tree_equiv]. split; [reflexivity|]. split; [auto|]. split.
    + apply IH; [apply Permutation_map; auto | cbn [length] in *; lia |].
      intros i Hi. apply in_map_iff in Hi. destruct Hi as (e & <- & He). apply Hidx, Hin, in_or_app; auto.
    + apply IH; [apply Permutation_map; auto | cbn [length] in *; lia |].
      intros i Hi. apply in_map_iff in Hi. destruct Hi as (e & <- & He). apply Hidx, Hin, in_or_app; auto.
Qed.

(* the tree does not depend on the behaviour of std::nth_element (nor on the order of the input) *)
Theorem kd_build_oracle_independent data dim o1 o2 :
  uniform dim data -> oracle_ok o1 -> oracle_ok o2 ->
  tree_equiv (kd_build data o1) (kd_build data o2).
Proof.
  intros U O1 O2. unfold kd_build. apply (build_indep data dim o1 o2 U O1 O2); auto.
  - rewrite seq_length. lia.
  - intros i Hi. apply in_seq in Hi. lia.
Qed.
