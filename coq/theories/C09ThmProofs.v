(* C09 — memory-bound clauses at the CachedMatrix level in the composed setting, and the composed theorems
   instantiated for CachedMatrix<RegularizedKernelMatrix>, PrecomputedMatrix<DifferenceKernelMatrix>,
   CachedMatrix<GaussianKernelMatrix>. *)
From Coq Require Import List Arith ZArith Lia Bool Permutation.
From SharkV Require Import ListAux C09Derived C09Comp C09CompProofs C09More C09InstProofs C09MoreProofs.
Import ListNotations.

Lemma remove_nat_app k l1 l2 : remove_nat k (l1 ++ l2) = remove_nat k l1 ++ remove_nat k l2.
Proof. induction l1 as [|h t IH]; simpl; auto. destruct (h =? k); simpl; rewrite IH; auto. Qed.

Lemma remove_nat_notin k l : ~ In k l -> remove_nat k l = l.
Proof.
  induction l as [|h t IH]; simpl; auto. intros H.
  destruct (Nat.eqb_spec h k); [exfalso; apply H; auto|]. rewrite IH; auto.
Qed.

Lemma remove_nat_length_nodup k l : NoDup l -> In k l -> S (length (remove_nat k l)) = length l.
Proof.
  induction 1 as [|h t Hn Hd IH]; simpl; [tauto|]. intros [->|Hin].
  - rewrite Nat.eqb_refl. rewrite remove_nat_notin by exact Hn. reflexivity.
  - destruct (Nat.eqb_spec h k) as [->|]; [contradiction|]. simpl. rewrite IH by exact Hin. reflexivity.
Qed.

Section Memory.
Context {Vt Bt : Type} {MO : MatOps Vt Bt}.
Variable ok : Bt -> Prop.
Hypothesis FA : flip_aware ok.
Local Notation st := (gst Vt Bt).

(* the lines at or beyond the restricted index range sit at the eviction end of the LRU list *)
Definition range_last (m : nat) (l : list nat) : Prop :=
  exists front tail, l = front ++ tail /\ (forall x, In x front -> x < m) /\ (forall x, In x tail -> m <= x).

Lemma mark_lru (s : st) k : Inv ok s -> k < gsize s ->
  glru (gmark_for_deletion k s) = if glinelen s k =? 0 then glru s else remove_nat k (glru s) ++ [k].
Proof. intros _ _. unfold gmark_for_deletion. destruct (glinelen s k =? 0); reflexivity. Qed.

Lemma marks_range m : forall (todo : list nat) (s : st),
  Inv ok s -> NoDup todo -> (forall k, In k todo -> m <= k /\ k < gsize s) ->
  (exists front tail, glru s = front ++ tail /\ (forall x, In x front -> x < m \/ In x todo) /\ (forall x, In x tail -> m <= x)) ->
  let s' := fold_left (fun s k => gmark_for_deletion k s) todo s in
  range_last m (glru s') /\ length (glru s') = length (glru s).
Proof.
  induction todo as [|h t IH]; intros s I ND HT (front & tail & E & HF & HTl); simpl.
  - split; [|reflexivity]. exists front, tail. split; [exact E|]. split; [|exact HTl].
    intros x Hx. destruct (HF x Hx) as [?|[]]; auto.
  - inversion ND as [|? ? Hnh NDt]; subst.
    destruct (HT h (or_introl eq_refl)) as [Hmh Hhn].
    pose proof (mark_inv ok s h I Hhn) as I1.
    destruct (mark_perm h s) as (P1 & _ & E1 & _).
    assert (SZ : gsize (gmark_for_deletion h s) = gsize s) by (unfold gsize; rewrite P1; reflexivity).
    assert (LL : length (glru (gmark_for_deletion h s)) = length (glru s)).
    { rewrite mark_lru by auto. destruct (Nat.eqb_spec (glinelen s h) 0) as [Z|NZ]; [reflexivity|].
      rewrite app_length. simpl. rewrite Nat.add_1_r. apply remove_nat_length_nodup; [apply (I_nd ok s I)|].
      apply (I_lru ok s I). auto. }
    destruct (IH (gmark_for_deletion h s) I1 NDt) as [R L].
    + intros k Hk. rewrite SZ. apply HT. right. exact Hk.
    + rewrite mark_lru by auto. destruct (Nat.eqb_spec (glinelen s h) 0) as [Z|NZ].
      * exists front, tail. split; [exact E|]. split; [|exact HTl].
        intros x Hx. destruct (HF x Hx) as [?|[<-|?]]; auto.
        exfalso. assert (In h (glru s)) as Hin by (rewrite E; apply in_or_app; auto).
        apply (I_lru ok s I) in Hin. tauto.
      * exists (remove_nat h front), (remove_nat h tail ++ [h]).
        split; [rewrite E, remove_nat_app, app_assoc; reflexivity|]. split.
        -- intros x Hx. apply In_remove_nat in Hx. destruct Hx as [Hx Hne].
           destruct (HF x Hx) as [?|[<-|?]]; auto. congruence.
        -- intros x Hx. apply in_app_or in Hx. destruct Hx as [Hx|[<-|[]]]; auto.
           apply In_remove_nat in Hx. apply HTl. tauto.
    + split; [exact R|]. rewrite L. exact LL.
Qed.

(* setMaxCachedIndex(m): nothing is freed or moved between lines (the memory accounting is unchanged);
   only the eviction order changes: the lines outside the new range go first *)
Theorem set_max_accounting m s : Inv ok s -> m <= gsize s ->
  let s' := gcm_set_max_cached_index m s in
  gents s' = gents s /\ gcsize s' = gcsize s /\ gcmax s' = gcmax s /\
  length (glru s') = length (glru s) /\ range_last m (glru s').
Proof.
  intros I Hm. destruct (set_max_inv ok m s I) as (_ & _ & C1 & E1 & S1). cbv zeta.
  split; [exact E1|]. split; [exact S1|]. split; [exact C1|].
  unfold gcm_set_max_cached_index.
  destruct (marks_range m (seq m (gsize s - m)) s I) as [R L].
  - apply seq_NoDup.
  - intros k Hk. apply in_seq in Hk. lia.
  - exists (glru s), []. split; [rewrite app_nil_r; reflexivity|]. split; [|intros x []].
    intros x Hx. apply (I_lru ok s I) in Hx. destruct Hx as [Hx _].
    destruct (Nat.lt_ge_cases x m); [left; assumption|right; apply in_seq; lia].
  - split; [exact L|exact R].
Qed.

(* clear(): nothing is held afterwards *)
Theorem clear_accounting s : Inv ok s ->
  let s' := glru_clear s in
  gcsize s' = 0 /\ gcm_cached_lines s' = 0 /\ gcmax s' = gcmax s /\ forall k, glinelen s' k = 0.
Proof.
  intros I. cbv zeta. destruct (clear_inv ok s I) as (I1 & _ & C1).
  pose proof (clear_empties ok s I) as Z. destruct (csize0_empty ok _ I1 Z) as [L0 LL].
  split; [exact Z|]. split; [unfold gcm_cached_lines; rewrite L0; reflexivity|]. split; [exact C1|exact LL].
Qed.

(* flipColumnsAndRows(i,j): the accounting is unchanged, the line lengths travel with the variables *)
Theorem flip_accounting i j s : Inv ok s -> i < gsize s -> j < gsize s ->
  let s' := gcm_flip i j s in
  gcsize s' = gcsize s /\ gcmax s' = gcmax s /\ gcm_cached_lines s' = gcm_cached_lines s /\
  forall k, glinelen s' k = glinelen s (tr i j k).
Proof.
  intros I Hi Hj. destruct (cm_flip_inv ok FA i j s I Hi Hj) as (_ & _ & C1 & _ & S1 & L1 & LL). cbv zeta.
  split; [exact S1|]. split; [exact C1|]. split; [exact L1|exact LL].
Qed.
End Memory.

(* ---------------- CachedMatrix<RegularizedKernelMatrix> ---------------- *)
Lemma perm_nth_inj p n a c : Permutation p (seq 0 n) -> a < n -> c < n -> nth a p 0 = nth c p 0 -> a = c.
Proof.
  intros PP Ha Hc E.
  assert (ND : NoDup p) by (eapply Permutation_NoDup; [apply Permutation_sym; exact PP|apply seq_NoDup]).
  assert (L : length p = n) by (rewrite (Permutation_length PP); apply seq_length).
  rewrite (NoDup_nth p 0) in ND. apply (ND a c); [rewrite L; exact Ha|rewrite L; exact Hc|exact E].
Qed.

(* original index of the variable now at position k *)
Definition orig (p : list nat) (k : nat) : nat := nth k p 0.

Section CachedReg.
Variable k0 : nat -> nat -> Z.
Variables (n : nat) (d0 : list Z) (l0 : list nat).
Hypothesis Hd : length d0 = n.
Local Notation b0 := (dinit n d0 l0).
Local Existing Instance reg_ops.

Lemma reg_b0_ok : reg_okP b0.
Proof. unfold reg_okP, dinit. simpl. rewrite seq_length. exact Hd. Qed.

Lemma reg_b0_size : bsize (MatOps := reg_ops k0) b0 = n.
Proof. simpl. unfold dm_size, dinit. simpl. apply seq_length. Qed.

Lemma reg_b0_entry a c : a < n -> c < n ->
  bentry (MatOps := reg_ops k0) b0 a c = (k0 a c + (if (a =? c)%nat then nth a d0 0 else 0))%Z.
Proof.
  intros Ha Hc. simpl. unfold e_reg. rewrite (e_kernel_init k0 n d0 l0) by assumption.
  reflexivity.
Qed.

(* every cell the cache holds after ANY history, and every cell a row request returns, is the kernel value of
   the two ORIGINAL examples now at (k,c), plus the ORIGINAL diagonal modifier of that example on the diagonal *)
Theorem cached_regularized_sound mx ops :
  let s := grun (M := reg_ops k0) (ginit (M := reg_ops k0) b0 mx) ops in let p := cperm n ops in
  gcsize s <= mx /\ gcsize s = tot (gents s) /\ Permutation p (seq 0 n) /\
  (forall k c, c < glinelen s k ->
     nth c (gline s k) 0%Z = (k0 (orig p k) (orig p c) + (if (k =? c)%nat then nth (orig p k) d0 0 else 0))%Z) /\
  (forall k a e, gwf_op (M := reg_ops k0) s (GRow k a e) = true ->
     let s' := gstep (M := reg_ops k0) s (GRow k a e) in
     forall c, c < e ->
     nth c (gline s' k) 0%Z = (k0 (orig p k) (orig p c) + (if (k =? c)%nat then nth (orig p k) d0 0 else 0))%Z).
Proof.
  intros s p. unfold orig.
  pose proof (composed_cache_sound (MO := reg_ops k0) reg_okP (reg_flip_aware k0) b0 reg_b0_ok mx ops) as H.
  cbv zeta in H. rewrite reg_b0_size in H. fold s p in H.
  destruct H as (Hcap & Hmx & Hsz & _ & _ & Hll & PP & Hval & _ & _).
  assert (PL : length p = n) by (rewrite (Permutation_length PP); apply seq_length).
  assert (RNG : forall a, a < n -> nth a p 0 < n).
  { intros a Ha. assert (In (nth a p 0) (seq 0 n)) as Hin by (eapply Permutation_in; [exact PP|apply nth_In; lia]).
    apply in_seq in Hin. lia. }
  assert (ENT : forall k c, k < n -> c < n ->
     bentry (MatOps := reg_ops k0) b0 (orig p k) (orig p c) =
     (k0 (orig p k) (orig p c) + (if (k =? c)%nat then nth (orig p k) d0 0 else 0))%Z).
  { intros k c Hk Hc. rewrite reg_b0_entry by (apply RNG; assumption). f_equal.
    destruct (Nat.eqb_spec k c) as [->|Hne]; [rewrite Nat.eqb_refl; reflexivity|].
    destruct (Nat.eqb_spec (orig p k) (orig p c)) as [E|]; [|reflexivity].
    exfalso. apply Hne. eapply perm_nth_inj; eauto. }
  split; [lia|]. split; [exact Hsz|]. split; [exact PP|]. split.
  - intros k c Hc. rewrite Hval by exact Hc. apply ENT.
    + destruct (Nat.lt_ge_cases k n) as [?|Hge]; auto. exfalso.
      destruct (composed_inv (MO := reg_ops k0) reg_okP (reg_flip_aware k0) b0 reg_b0_ok mx ops) as [I SZ _ _ _].
      fold s in I, SZ. rewrite reg_b0_size in SZ.
      destruct (cell_in_range reg_okP s k c I Hc) as [Hk _]. lia.
    + pose proof (Hll k). lia.
  - intros k a e W c Hc. set (s' := gstep (M := reg_ops k0) s (GRow k a e)).
    pose proof (composed_row (MO := reg_ops k0) reg_okP (reg_flip_aware k0) b0 reg_b0_ok mx ops k a e) as R.
    cbv zeta in R. rewrite reg_b0_size in R. fold s p in R. specialize (R W). destruct R as (_ & _ & R).
    fold s' in R. rewrite R by exact Hc. wf_split W.
    assert (SZ : gsize (M := reg_ops k0) s = n).
    { destruct (composed_inv (MO := reg_ops k0) reg_okP (reg_flip_aware k0) b0 reg_b0_ok mx ops) as [_ SZ _ _ _].
      fold s in SZ. rewrite reg_b0_size in SZ. exact SZ. }
    unfold gsize in SZ. simpl in SZ. apply ENT; lia.
Qed.
End CachedReg.

(* ---------------- PrecomputedMatrix<DifferenceKernelMatrix>, linear kernel ---------------- *)
Section PreDiff.
Variable dim : nat.
Variable bs : list (list (list Z)).
Variable pairs : list (nat * nat).
Hypothesis OK : pairs_ok (length (concat bs)) pairs.
Local Notation m := (length pairs).
Local Notation ops := (dk_ops (list Z) [] (lin dim)).
Local Notation b0 := (dk_init (list Z) bs pairs).

Theorem precomputed_difference_sound fl :
  let tab := pm_flips (M := ops) fl (pm_init (M := ops) b0) in let p := flips_perm m fl in
  Permutation p (seq 0 m) /\ pm_max_cache_size tab = m * m /\
  forall a c, a < m -> c < m ->
    pm_entry (M := ops) tab a c = zsum dim (fun t => (dfeat bs pairs (orig p a) t * dfeat bs pairs (orig p c) t)%Z).
Proof.
  intros tab p. unfold orig.
  pose proof (pm_sound (MO := ops) b0 (dk_mat_ok _ [] (lin dim) b0) fl) as H.
  pose proof (pm_accounting (MO := ops) b0 (dk_mat_ok _ [] (lin dim) b0) fl) as A.
  cbv zeta in H, A. simpl bsize in H, A. rewrite dk_init_size in H, A. fold tab p in H, A.
  destruct H as (_ & PP & E). destruct A as (A1 & _).
  split; [exact PP|]. split; [exact A1|].
  intros a c Ha Hc. rewrite E by assumption. simpl bentry.
  assert (RNG : forall x, x < m -> nth x p 0 < m).
  { intros x Hx. assert (L : length p = m) by (rewrite (Permutation_length PP); apply seq_length).
    assert (In (nth x p 0) (seq 0 m)) as Hin by (eapply Permutation_in; [exact PP|apply nth_In; lia]).
    apply in_seq in Hin. lia. }
  apply dk_linear_gram; auto.
Qed.
End PreDiff.

(* ---------------- CachedMatrix<GaussianKernelMatrix> ---------------- *)
Section CachedGauss.
Variable V : Type.
Variable ex : Z -> V.
Variable vd : V.
Variable dim : nat.
Variable pts : list (list Z).
Local Notation n := (length pts).
Local Notation ops := (gk_ops V ex vd dim).
Local Notation b0 := (gk_init dim pts).

Lemma gk_b0_size : bsize (MatOps := ops) b0 = n.
Proof. reflexivity. Qed.

Theorem cached_gaussian_sound mx hist :
  let s := grun (M := ops) (ginit (M := ops) b0 mx) hist in let p := cperm n hist in
  gcsize s <= mx /\ Permutation p (seq 0 n) /\
  forall k c, c < glinelen s k ->
    nth c (gline s k) vd =
    ex (zsum dim (fun t => ((nth t (nth (orig p k) pts []) 0 - nth t (nth (orig p c) pts []) 0) *
                            (nth t (nth (orig p k) pts []) 0 - nth t (nth (orig p c) pts []) 0))%Z)).
Proof.
  intros s p. unfold orig.
  pose proof (composed_cache_sound (MO := ops) (gk_okP) (gk_flip_aware V ex vd dim) b0 (gk_init_ok dim pts) mx hist) as H.
  cbv zeta in H. rewrite gk_b0_size in H. fold s p in H.
  destruct H as (Hcap & Hmx & _ & _ & _ & Hll & PP & Hval & _ & _).
  split; [lia|]. split; [exact PP|]. intros k c Hc.
  assert (PL : length p = n) by (rewrite (Permutation_length PP); apply seq_length).
  assert (RNG : forall a, a < n -> nth a p 0 < n).
  { intros a Ha. assert (In (nth a p 0) (seq 0 n)) as Hin by (eapply Permutation_in; [exact PP|apply nth_In; lia]).
    apply in_seq in Hin. lia. }
  destruct (composed_inv (MO := ops) gk_okP (gk_flip_aware V ex vd dim) b0 (gk_init_ok dim pts) mx hist) as [I SZ _ _ _].
  fold s in I, SZ. destruct (cell_in_range gk_okP s k c I Hc) as [Hk Hcn]. rewrite SZ, gk_b0_size in Hk, Hcn.
  change (nth c (gline s k) vd) with (nth c (gline s k) (gv (MatOps := ops))).
  rewrite Hval by exact Hc. simpl bentry. apply gk_init_entry; apply RNG; assumption.
Qed.
End CachedGauss.
