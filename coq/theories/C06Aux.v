(* C06 — second proof file: instantiation of the generic error-function theorems of C06Proofs.v with the
   loss table and the linear model of C06Model.v, the chain rule through weightedParameterDerivative,
   the mini-batch path and the regularizers.  Axiom-free (lists, nat, Q). *)
From Coq Require Import List Arith ZArith QArith Qabs Bool Lia Lra Lqa Permutation Setoid Morphisms.
From SharkV Require Import ListAux C03Model C03Proofs C06Model C06Proofs.
Import ListNotations.
Open Scope Q_scope.

(* ------------------------------------------------------------------------------------------ *)
(* coordinate-wise Qeq of lists of equal length *)
Definition veql (a b : vec) : Prop := Forall2 Qeq a b.

Lemma veql_refl a : veql a a.
Proof. induction a; constructor; [reflexivity | assumption]. Qed.

Lemma veql_veq a b : veql a b -> veq a b.
Proof.
  induction 1 as [|x y a b Hxy _ IH]; intros k; [reflexivity|].
  destruct k; simpl; [exact Hxy | apply IH].
Qed.

Lemma veql_length a b : veql a b -> length a = length b.
Proof. induction 1; simpl; congruence. Qed.

Lemma veql_app a a' b b' : veql a a' -> veql b b' -> veql (a ++ b) (a' ++ b').
Proof. intros H1 H2. apply Forall2_app; assumption. Qed.

(* ------------------------------------------------------------------------------------------ *)
(* the loss table: value additive over the batch elements, one gradient row per element *)
Lemma loss_additive k dim b : loss_eval k dim b == qsum (map (fun e => loss_eval k dim [e]) b).
Proof.
  destruct k; cbn [loss_eval]; unfold vlabs, clabs.
  - rewrite sq_additive, map_map. reflexivity.
  - rewrite sqc_additive, map_map. reflexivity.
  - rewrite hinge_additive, map_map. reflexivity.
  - rewrite sqhinge_additive, map_map. reflexivity.
  - rewrite eps_additive, map_map. reflexivity.
  - rewrite sqeps_additive, map_map. reflexivity.
  - rewrite huber_additive, map_map. reflexivity.
Qed.

Lemma loss_value_additive k dim b :
  fst (loss_evald k dim b) == qsum (map (fun e => fst (loss_evald k dim [e])) b).
Proof.
  rewrite loss_paths, loss_additive. apply qsum_map_ext. intros e. symmetry. apply loss_paths.
Qed.

Lemma loss_grad_map k dim b :
  snd (loss_evald k dim b) = map (fun e => nth 0 (snd (loss_evald k dim [e])) []) b.
Proof.
  destruct k; cbn [loss_evald]; unfold sq_evald, sqc_evald, hinge_evald, sqhinge_evald, eps_evald, sqeps_evald,
    huber_evald, vlabs, clabs; try destruct (dim =? 1)%nat; cbn [snd fst map nth]; rewrite map_map; reflexivity.
Qed.

(* ------------------------------------------------------------------------------------------ *)
(* the linear model inside ErrorFunctionImpl::evalDerivative(start,end,derivative) *)
Lemma combine_map2 {X Y Z} (f : X -> Y) (g : X -> Z) (b : list X) :
  combine (map f b) (map g b) = map (fun e => (f e, g e)) b.
Proof. induction b as [|x b IH]; simpl; [reflexivity| rewrite IH; reflexivity]. Qed.

Lemma lin_wpd_single x g : lin_wpd [(x, g)] = lin_wpd1 x g.
Proof. reflexivity. Qed.

Lemma lin_bq_elem k m e :
  lin_bq k m [e] =
  fst (loss_evald k (length (lb m)) (lin_preds m [e]))
  :: lin_wpd1 (fst e) (nth 0 (snd (loss_evald k (length (lb m)) (lin_preds m [e]))) []).
Proof.
  unfold lin_bq. rewrite (loss_grad_map k (length (lb m)) (lin_preds m [e])).
  unfold lin_preds. cbn [map combine]. rewrite lin_wpd_single. reflexivity.
Qed.

Theorem lin_bq_additive k m b : veq (lin_bq k m b) (vsum (map (fun e => lin_bq k m [e]) b)).
Proof.
  intros [|j]; rewrite nth_vsum, map_map.
  - unfold lin_bq at 1. cbn [nth]. rewrite loss_value_additive. unfold lin_preds at 1. rewrite map_map.
    apply qsum_map_ext. intros e. rewrite lin_bq_elem. cbn [nth]. reflexivity.
  - unfold lin_bq at 1. cbn [nth]. rewrite loss_grad_map. unfold lin_preds at 1. rewrite map_map.
    rewrite (combine_map2 fst). unfold lin_wpd. rewrite map_map, nth_vsum, map_map.
    apply qsum_map_ext. intros e. rewrite lin_bq_elem. cbn [nth fst snd]. reflexivity.
Qed.

Theorem lin_bq_eval_additive k m b : veq (lin_bq_eval k m b) (vsum (map (fun e => lin_bq_eval k m [e]) b)).
Proof.
  intros [|j]; rewrite nth_vsum, map_map; unfold lin_bq_eval; cbn [nth].
  - rewrite loss_additive. unfold lin_preds at 1. rewrite map_map. reflexivity.
  - destruct j; (induction b as [|e b IH]; simpl; [reflexivity| rewrite <- IH; ring]).
Qed.

(* value path and derivative path of one batch agree on the value *)
Lemma lin_bq_value k m b : nth 0 (lin_bq k m b) 0 == nth 0 (lin_bq_eval k m b) 0.
Proof. unfold lin_bq, lin_bq_eval. cbn [nth]. apply loss_paths. Qed.

(* ------------------------------------------------------------------------------------------ *)
(* mini-batch path: the batch's own mean *)
Lemma nth_skipn_hd {X} (l : list X) i d : (i < length l)%nat -> firstn 1 (skipn i l) = [nth i l d].
Proof.
  revert i; induction l as [|x l IH]; intros [|i] H; simpl in *; try lia; [reflexivity|].
  apply IH. lia.
Qed.

Theorem minibatch_is_batch_mean {E} (bq : list E -> vec)
  (bq_additive : forall b, veq (bq b) (vsum (map (fun e => bq [e]) b))) i (d : @data E) :
  (i < length d)%nat -> veq (minibatch bq i d) (mean_loss bq (nth i d [])).
Proof.
  intros Hi. unfold minibatch, mean_loss, range_q.
  replace (i + 1 - i)%nat with 1%nat by lia. rewrite (nth_skipn_hd d i [] Hi). cbn [map].
  intros k. rewrite !nth_vdiv. rewrite (vsum_cons (bq (nth i d [])) [] k), nth_vadd.
  rewrite (bq_additive (nth i d []) k). unfold vsum at 2. cbn [fold_left]. rewrite nth_nil_Q.
  setoid_replace (nth k (vsum (map (fun e : E => bq [e]) (nth i d []))) 0 + 0)
    with (nth k (vsum (map (fun e : E => bq [e]) (nth i d []))) 0) by ring.
  reflexivity.
Qed.

(* ------------------------------------------------------------------------------------------ *)
(* errfn commutes with projecting the elements (dropping the weights) *)
Lemma errfn_map {E F} (g : E -> F) (f : list F -> vec) threads (d : @data E) :
  errfn (fun b => f (map g b)) threads d = errfn f threads (map (map g) d).
Proof.
  unfold errfn, partials, range_q, finish, nelems, elems. rewrite map_length.
  rewrite <- concat_map, map_length. f_equal. f_equal. apply map_ext. intros [s e]. cbn [fst snd].
  rewrite skipn_map, firstn_map, map_map. reflexivity.
Qed.

(* weighted error function with the linear model: the hypotheses of equal_weights_eq_unweighted hold *)
Lemma vscale_vscale_veql c' c a x : c' == c -> veql (vscale (c' * a) x) (vscale c (vscale a x)).
Proof.
  intros Hc. unfold vscale. induction x as [|y x IH]; simpl; constructor; [|exact IH].
  rewrite Hc. ring.
Qed.

Lemma vscale_app c a b : vscale c (a ++ b) = vscale c a ++ vscale c b.
Proof. unfold vscale. apply map_app. Qed.

Lemma lin_wpd1_hom c' c x g : c' == c -> veql (lin_wpd1 x (vscale c' g)) (vscale c (lin_wpd1 x g)).
Proof.
  intros Hc. unfold lin_wpd1. rewrite vscale_app. apply veql_app.
  - induction g as [|a g IH]; cbn [vscale map concat]; [constructor|].
    fold (vscale c' g). fold (vscale c (vscale a x ++ concat (map (fun gj : Q => vscale gj x) g))).
    rewrite vscale_app. apply veql_app; [apply vscale_vscale_veql; exact Hc | exact IH].
  - unfold vscale. induction g as [|a g IH]; simpl; constructor; [rewrite Hc; reflexivity | exact IH].
Qed.

Section WeightedLinear.
Variables (k : lossk) (m : linmodel) (c : Q).
Hypothesis c_nonzero : ~ c == 0.

Definition wl_bq (b : list welem) : vec := lin_bq k m (map fst b).

Lemma wl_wpd_sum xg : veq (lin_wwpd xg) (vsum (map (fun p => lin_wwpd [p]) xg)).
Proof. unfold lin_wwpd, lin_wpd. rewrite map_map. cbn [map]. reflexivity. Qed.

Lemma wl_wpd_hom (e : welem) c' g : c' == c -> veq (lin_wwpd [(e, vscale c' g)]) (vscale c (lin_wwpd [(e, g)])).
Proof.
  intros Hc. unfold lin_wwpd. cbn [map fst snd]. rewrite !lin_wpd_single. apply veql_veq, lin_wpd1_hom, Hc.
Qed.

Lemma wl_bq_additive b : veq (wl_bq b) (vsum (map (fun e => wl_bq [e]) b)).
Proof. unfold wl_bq. rewrite (lin_bq_additive k m (map fst b)), map_map. reflexivity. Qed.

Lemma wl_bq_elem e : veq (wl_bq [e]) (fst (lin_eloss k m e) :: lin_wwpd [(e, snd (lin_eloss k m e))]).
Proof.
  unfold wl_bq. cbn [map]. rewrite lin_bq_elem. unfold lin_eloss, lin_wwpd. cbn [map fst snd].
  rewrite lin_wpd_single. reflexivity.
Qed.

(* WeightedErrorFunctionImpl::evalDerivative with all weights equal to c <> 0, batch results merged in any
   arrival order  =  ErrorFunctionImpl::evalDerivative on the same data without the weights, any thread count *)
Theorem lin_equal_weights threads (d : @data welem) arrived :
  (forall e, In e (elems d) -> snd e == c) -> (1 <= threads)%nat -> (0 < nelems d)%nat ->
  Permutation arrived (map (wbatch (lin_eloss k m) lin_wwpd snd) d) ->
  veq (werrfn snd arrived d) (ef_evald k m threads (map (map fst) d)).
Proof.
  intros Hw HT Hn Hp. unfold ef_evald. rewrite <- (errfn_map fst (lin_bq k m)).
  (* the generic theorem wants all weights equal on the whole type: use the weight function
     "c outside the data set", which coincides with snd on the data *)
  set (w' := fun e : welem => c).
  assert (Hb : forall b, incl b (elems d) -> veq (wbatch (lin_eloss k m) lin_wwpd snd b) (wbatch (lin_eloss k m) lin_wwpd w' b)).
  { intros b Hin. unfold wbatch. rewrite !map_map. cbn [fst snd].
    rewrite !combine_map_self.
    apply veq_cons.
    - induction b as [|e b IH]; cbn [map qsum fold_right]; [reflexivity|].
      rewrite IH by (intros x Hx; apply Hin; right; exact Hx).
      rewrite (Hw e) by (apply Hin; left; reflexivity). reflexivity.
    - rewrite (wl_wpd_sum _), (wl_wpd_sum (map _ b)), !map_map.
      induction b as [|e b IH]; [reflexivity|]. cbn [map]. rewrite !vsum_cons.
      rewrite IH by (intros x Hx; apply Hin; right; exact Hx).
      assert (He : snd e == c) by (apply Hw, Hin; left; reflexivity).
      rewrite (wl_wpd_hom e (snd e) _ He), (wl_wpd_hom e (w' e) _ (Qeq_refl c)). reflexivity. }
  assert (Hd : forall l : list (list welem), incl (concat l) (elems d) ->
               veq (vsum (map (wbatch (lin_eloss k m) lin_wwpd snd) l)) (vsum (map (wbatch (lin_eloss k m) lin_wwpd w') l))).
  { induction l as [|b l IH]; intros Hin; [reflexivity|]. cbn [map]. rewrite !vsum_cons.
    rewrite IH by (intros x Hx; apply Hin; cbn [concat]; apply in_or_app; right; exact Hx).
    rewrite Hb by (intros x Hx; apply Hin; cbn [concat]; apply in_or_app; left; exact Hx). reflexivity. }
  assert (Hs : sum_weights snd d == sum_weights w' d).
  { unfold sum_weights. assert (G : forall l : list (list welem), incl (concat l) (elems d) ->
      qsum (map (fun b => qsum (map snd b)) l) == qsum (map (fun b => qsum (map w' b)) l)).
    { induction l as [|b l IH]; intros Hin; [reflexivity|]. cbn [map qsum fold_right].
      rewrite IH by (intros x Hx; apply Hin; cbn [concat]; apply in_or_app; right; exact Hx).
      assert (Hq : qsum (map snd b) == qsum (map w' b)).
      { assert (Hin' : incl b (elems d)) by (intros x Hx; apply Hin; cbn [concat]; apply in_or_app; left; exact Hx).
        clear IH Hin. induction b as [|e b IHb]; [reflexivity|]. cbn [map qsum fold_right].
        rewrite IHb by (intros x Hx; apply Hin'; right; exact Hx).
        rewrite (Hw e) by (apply Hin'; left; reflexivity). reflexivity. }
      rewrite Hq. reflexivity. }
    apply G. unfold elems. apply incl_refl. }
  transitivity (werrfn w' (map (wbatch (lin_eloss k m) lin_wwpd w') d) d).
  - unfold werrfn. rewrite (merge_order_irrelevant _ _ Hp), (Hd d (incl_refl _)), Hs. reflexivity.
  - apply (equal_weights_eq_unweighted (lin_eloss k m) lin_wwpd w' wl_bq c c_nonzero
             (fun e => Qeq_refl c) wl_wpd_sum wl_wpd_hom wl_bq_additive wl_bq_elem threads d _ HT Hn).
    apply Permutation_refl.
Qed.
End WeightedLinear.

(* ------------------------------------------------------------------------------------------ *)
(* chain rule through LinearModel::weightedParameterDerivative.
   Parameter vector = rows of the matrix, then the offset (LinearModel::parameterVector). *)
Definition lin_params (m : linmodel) : vec := concat (lW m) ++ lb m.
(* m + t * dm *)
Definition madd (t : Q) (dm m : linmodel) : linmodel :=
  {| lW := map2 (vaxpy t) (lW dm) (lW m); lb := vaxpy t (lb dm) (lb m) |}.
Definition lin_wf (nin nout : nat) (m : linmodel) : Prop :=
  length (lW m) = nout /\ length (lb m) = nout /\ forall row, In row (lW m) -> length row = nin.

(* sum over all parameter coordinates of gradient_j * direction_j *)
Definition pdot (g p : vec) : Q := qsum (map (fun j => nth j g 0 * nth j p 0) (seq 0 (length p))).

Lemma qsum_map_add {X} (f g : X -> Q) l : qsum (map (fun x => f x + g x) l) == qsum (map f l) + qsum (map g l).
Proof. induction l as [|x l IH]; simpl; [ring| rewrite IH; ring]. Qed.

Global Instance pdot_proper : Proper (veq ==> eq ==> Qeq) pdot.
Proof. intros a b H p q <-. unfold pdot. apply qsum_map_ext. intros j. rewrite (H j). reflexivity. Qed.

Lemma pdot_vadd a b p : pdot (vadd a b) p == pdot a p + pdot b p.
Proof.
  unfold pdot. rewrite <- qsum_map_add. apply qsum_map_ext. intros j. rewrite nth_vadd. ring.
Qed.

Lemma pdot_nil p : pdot [] p == 0.
Proof.
  unfold pdot. induction (seq 0 (length p)) as [|j l IH]; cbn [map qsum fold_right]; [reflexivity|].
  fold (qsum (map (fun j0 : nat => nth j0 [] 0 * nth j0 p 0) l)). rewrite IH, nth_nil_Q. ring.
Qed.

Lemma pdot_vsum l p : pdot (vsum l) p == qsum (map (fun v => pdot v p) l).
Proof.
  induction l as [|v l IH]; cbn [map qsum fold_right].
  - apply pdot_nil.
  - rewrite (vsum_cons v l), pdot_vadd, IH. reflexivity.
Qed.

Lemma pdot_vdiv v n p : pdot (vdiv v n) p == pdot v p / n.
Proof.
  unfold pdot, Qdiv. rewrite Qmult_comm, <- qsum_scale, map_map. apply qsum_map_ext. intros j.
  rewrite nth_vdiv. unfold Qdiv. ring.
Qed.

Lemma nth_tl (v : vec) j : nth j (tl v) 0 = nth (S j) v 0.
Proof. destruct v; [destruct j; reflexivity | reflexivity]. Qed.

Lemma veq_tl a b : veq a b -> veq (tl a) (tl b).
Proof. intros H j. rewrite !nth_tl. apply H. Qed.

Lemma pdot_dot : forall g p, length g = length p -> pdot g p == dot g p.
Proof.
  unfold pdot. induction g as [|x g IH]; intros [|y p] H; simpl in *; try discriminate; [reflexivity|].
  rewrite <- seq_shift, map_map. rewrite <- (IH p) by lia. reflexivity.
Qed.

Lemma dot_app : forall a c b d, length a = length c -> dot (a ++ b) (c ++ d) == dot a c + dot b d.
Proof.
  induction a as [|x a IH]; intros [|y c] b d H; simpl in *; try discriminate; [ring|].
  rewrite IH by lia. ring.
Qed.

Lemma dot_vscale_l c : forall x y, dot (vscale c x) y == c * dot x y.
Proof.
  unfold vscale. induction x as [|a x IH]; intros [|b y]; simpl; try ring. rewrite IH. ring.
Qed.

Lemma dot_comm : forall x y, dot x y == dot y x.
Proof. induction x as [|a x IH]; intros [|b y]; simpl; try reflexivity. rewrite IH. ring. Qed.

Lemma vscale_length c x : length (vscale c x) = length x.
Proof. apply map_length. Qed.

(* adjoint identity: <weightedParameterDerivative(x, g), dtheta> = <g, d(prediction)/dtheta [dtheta]> *)
Lemma lin_adjoint_aux x : forall g W b,
  length W = length g -> length b = length g -> (forall row, In row W -> length row = length x) ->
  dot (concat (map (fun gj => vscale gj x) g)) (concat W) + dot g b
  == dot g (map2 (fun row bj => dot row x + bj) W b)
  /\ length (concat (map (fun gj => vscale gj x) g)) = length (concat W).
Proof.
  induction g as [|a g IH]; intros [|row W] [|bj b] HW Hb Hr; simpl in *; try discriminate.
  - split; [ring | reflexivity].
  - destruct (IH W b) as [E L]; [lia | lia | intros r Hin; apply Hr; right; exact Hin |].
    assert (Hrow : length row = length x) by (apply Hr; left; reflexivity).
    split.
    + rewrite dot_app by (rewrite vscale_length; symmetry; exact Hrow).
      rewrite dot_vscale_l, <- E, (dot_comm row x). ring.
    + rewrite !app_length, vscale_length, L, Hrow. reflexivity.
Qed.

Theorem lin_adjoint nin nout dm x g :
  lin_wf nin nout dm -> length x = nin -> length g = nout ->
  dot (lin_wpd1 x g) (lin_params dm) == dot g (lin_eval dm x)
  /\ length (lin_wpd1 x g) = length (lin_params dm).
Proof.
  intros (HW & Hb & Hr) Hx Hg. unfold lin_wpd1, lin_params, lin_eval.
  unfold vec in *.
  destruct (lin_adjoint_aux x g (lW dm) (lb dm)) as [E L]; [lia | lia | intros r Hin; rewrite Hx; apply Hr; exact Hin |].
  split.
  - rewrite dot_app by exact L. exact E.
  - rewrite !app_length. f_equal; [exact L | lia].
Qed.

(* the model is affine in its parameters *)
Lemma dot_vaxpy t : forall r' r x, length r' = length r -> dot (vaxpy t r' r) x == dot r x + t * dot r' x.
Proof.
  induction r' as [|a r' IH]; intros [|b r] [|y x] H; simpl in *; try discriminate; try ring.
  rewrite IH by lia. ring.
Qed.

Lemma vaxpy_length t : forall v p, length v = length p -> length (vaxpy t v p) = length p.
Proof. induction v as [|a v IH]; intros [|b p] H; simpl in *; try discriminate; [reflexivity|]. rewrite IH by lia. reflexivity. Qed.

Lemma lin_eval_affine_aux t x : forall W' W b' b,
  length W' = length W -> length b' = length b -> length b = length W ->
  (forall i, length (nth i W' []) = length (nth i W [])) ->
  veql (map2 (fun row bj => dot row x + bj) (map2 (vaxpy t) W' W) (vaxpy t b' b))
       (vaxpy t (map2 (fun row bj => dot row x + bj) W' b') (map2 (fun row bj => dot row x + bj) W b)).
Proof.
  induction W' as [|r' W' IH]; intros [|r W] [|c' b'] [|c b] H1 H2 H3 Hr; simpl in *; try discriminate; try constructor.
  - rewrite dot_vaxpy by (apply (Hr 0%nat)). ring.
  - apply IH; try lia. intros i. apply (Hr (S i)).
Qed.

Lemma nth_length_all {X} (l : list (list X)) n i : (forall r, In r l -> length r = n) -> (i < length l)%nat -> length (nth i l []) = n.
Proof. intros H Hi. apply H, nth_In, Hi. Qed.

Theorem lin_eval_affine nin nout t dm m x :
  lin_wf nin nout m -> lin_wf nin nout dm ->
  veql (lin_eval (madd t dm m) x) (vaxpy t (lin_eval dm x) (lin_eval m x)).
Proof.
  intros (HW & Hb & Hr) (HW' & Hb' & Hr'). unfold lin_eval, madd. cbn [lW lb].
  unfold vec in *. apply lin_eval_affine_aux; [lia | lia | lia |]. intros i.
  destruct (Nat.lt_ge_cases i nout) as [Hi|Hi].
  - rewrite (nth_length_all (lW dm) nin i Hr') by lia. rewrite (nth_length_all (lW m) nin i Hr) by lia. reflexivity.
  - rewrite !nth_overflow by lia. reflexivity.
Qed.

Lemma madd_wf nin nout t dm m : lin_wf nin nout m -> lin_wf nin nout dm -> lin_wf nin nout (madd t dm m).
Proof.
  intros (HW & Hb & Hr) (HW' & Hb' & Hr'). unfold lin_wf, madd. cbn [lW lb].
  assert (L : forall (A B : list vec), length A = length B -> length (map2 (vaxpy t) A B) = length B).
  { induction A as [|a A IH]; intros [|b B] H; simpl in *; try discriminate; [reflexivity|]. rewrite IH by lia. reflexivity. }
  split; [rewrite L; lia|]. split; [rewrite vaxpy_length; lia|].
  assert (G : forall (A B : list vec), (forall r, In r A -> length r = nin) -> (forall r, In r B -> length r = nin) ->
              forall r, In r (map2 (vaxpy t) A B) -> length r = nin).
  { induction A as [|a A IH]; intros [|b B] HA HB r Hin; simpl in *; try contradiction.
    destruct Hin as [<-|Hin].
    - rewrite vaxpy_length; [apply HB; left; reflexivity|]. rewrite (HA a), (HB b); auto.
    - apply (IH B); auto. }
  apply G; assumption.
Qed.

(* the generic chain-rule theorem for the whole error function: if on every element the loss has the
   first-order expansion  L(p(theta + t dtheta)) - L(p(theta)) == t * (<g, dp> + t * r e)  with g the row
   returned by the loss's evalDerivative, then the vector returned by ErrorFunction::evalDerivative is
   the derivative of ErrorFunction::eval along dtheta with remainder mean(r) -- for every thread
   count and every batching. *)
Section ChainRule.
Variables (k : lossk) (nin nout : nat) (m dm : linmodel) (t : Q) (r : elem -> Q).
Hypothesis wf_m : lin_wf nin nout m.
Hypothesis wf_dm : lin_wf nin nout dm.

Definition elem_expansion (e : elem) : Prop :=
  let p := lin_eval m (fst e) in
  let g := nth 0 (snd (loss_evald k nout [(snd e, p)])) [] in
  length (fst e) = nin /\ length g = nout /\
  loss_eval k nout [(snd e, lin_eval (madd t dm m) (fst e))] - loss_eval k nout [(snd e, p)]
  == t * (dot g (lin_eval dm (fst e)) + t * r e).

Lemma mean_value_coord (bq : list elem -> vec) l :
  nth 0 (mean_loss bq l) 0 == qsum (map (fun e => nth 0 (bq [e]) 0) l) / Qn (length l).
Proof. unfold mean_loss. rewrite nth_vdiv, nth_vsum, map_map. reflexivity. Qed.

Lemma qsum_map_sub {X} (f g : X -> Q) l : qsum (map (fun x => f x - g x) l) == qsum (map f l) - qsum (map g l).
Proof. induction l as [|x l IH]; simpl; [ring| rewrite IH; ring]. Qed.

Lemma qsum_map_ext_in {X} (f g : X -> Q) l : (forall x, In x l -> f x == g x) -> qsum (map f l) == qsum (map g l).
Proof.
  intros H. induction l as [|x l IH]; simpl; [reflexivity|].
  rewrite IH by (intros y Hy; apply H; right; exact Hy). rewrite (H x) by (left; reflexivity). reflexivity.
Qed.

Lemma qsum_lin {X} (p q : X -> Q) l :
  qsum (map (fun e => t * (p e + t * q e)) l) == t * (qsum (map p l) + t * qsum (map q l)).
Proof. induction l as [|x l IH]; simpl; [ring| rewrite IH; ring]. Qed.

Theorem error_grad_is_param_grad threads (d : @data elem) :
  (1 <= threads)%nat -> (forall e, In e (elems d) -> elem_expansion e) ->
  nth 0 (ef_eval k (madd t dm m) threads d) 0 - nth 0 (ef_eval k m threads d) 0
  == t * (pdot (tl (ef_evald k m threads d)) (lin_params dm) + t * (qsum (map r (elems d)) / Qn (nelems d))).
Proof.
  intros HT Hex. unfold ef_eval, ef_evald.
  pose proof (madd_wf nin nout t dm m wf_m wf_dm) as wf_m'.
  assert (Lm : length (lb m) = nout) by apply wf_m.
  assert (Lm' : length (lb (madd t dm m)) = nout) by apply wf_m'.
  rewrite (error_is_mean_loss _ (lin_bq_eval_additive k (madd t dm m)) threads d HT 0%nat).
  rewrite (error_is_mean_loss _ (lin_bq_eval_additive k m) threads d HT 0%nat).
  rewrite (veq_tl _ _ (error_is_mean_loss _ (lin_bq_additive k m) threads d HT)).
  rewrite !mean_value_coord. unfold mean_loss. fold (nelems d).
  assert (T : veq (tl (vdiv (vsum (map (fun e => lin_bq k m [e]) (elems d))) (Qn (nelems d))))
                  (vdiv (vsum (map (fun e => tl (lin_bq k m [e])) (elems d))) (Qn (nelems d)))).
  { intros j. rewrite nth_tl, !nth_vdiv, !nth_vsum, !map_map.
    rewrite (qsum_map_ext (fun x => nth (S j) (lin_bq k m [x]) 0) (fun x => nth j (tl (lin_bq k m [x])) 0)); [reflexivity|].
    intros x. rewrite nth_tl. reflexivity. }
  rewrite T, pdot_vdiv, pdot_vsum, map_map.
  set (A := qsum (map (fun e : elem => nth 0 (lin_bq_eval k (madd t dm m) [e]) 0) (elems d))).
  set (B := qsum (map (fun e : elem => nth 0 (lin_bq_eval k m [e]) 0) (elems d))).
  set (G := qsum (map (fun x : elem => pdot (tl (lin_bq k m [x])) (lin_params dm)) (elems d))).
  set (R := qsum (map r (elems d))).
  assert (H : A - B == t * (G + t * R)).
  { subst A B G R. rewrite <- qsum_map_sub, <- qsum_lin. apply qsum_map_ext_in.
    intros e Hin. destruct (Hex e Hin) as (Hx & Hg & He).
    unfold lin_bq_eval. cbn [nth]. unfold lin_preds. cbn [map]. rewrite Lm, Lm'.
    rewrite He. rewrite lin_bq_elem. cbn [tl]. unfold lin_preds. cbn [map]. rewrite Lm.
    destruct (lin_adjoint nin nout dm (fst e) _ wf_dm Hx Hg) as [A L].
    rewrite pdot_dot by exact L. rewrite A. reflexivity. }
  setoid_replace (A / Qn (nelems d) - B / Qn (nelems d)) with ((A - B) / Qn (nelems d)) by (unfold Qdiv; ring).
  rewrite H. unfold Qdiv. ring.
Qed.
End ChainRule.

(* ------------------------------------------------------------------------------------------ *)
(* SquaredLoss + linear model: the expansion holds on every element, hence the vector returned by
   ErrorFunction::evalDerivative is the exact parameter gradient of ErrorFunction::eval (remainder
   = mean of 1/2 |dprediction|^2), for all data, batchings, thread counts, directions and steps *)
Lemma sqdiff_veql l : forall p p', veql p p' -> sqdiff l p == sqdiff l p'.
Proof.
  induction l as [|a l IH]; intros p p' H; destruct H as [|x y p p' Hxy H]; simpl; try reflexivity.
  rewrite (IH p p' H), Hxy. reflexivity.
Qed.

Lemma map2_length {X Y Z} (f : X -> Y -> Z) : forall a b, length a = length b -> length (map2 f a b) = length a.
Proof. induction a as [|x a IH]; intros [|y b] H; simpl in *; try discriminate; [reflexivity|]. rewrite IH by lia. reflexivity. Qed.

Lemma lin_eval_length nin nout m x : lin_wf nin nout m -> length (lin_eval m x) = nout.
Proof. intros (HW & Hb & _). unfold lin_eval. unfold vec in *. rewrite map2_length; lia. Qed.

Lemma vsub_length : forall a b, length a = length b -> length (vsub a b) = length a.
Proof. induction a as [|x a IH]; intros [|y b] H; simpl in *; try discriminate; [reflexivity|]. rewrite IH by lia. reflexivity. Qed.

Theorem sq_elem_expansion nin nout m dm t (e : elem) :
  lin_wf nin nout m -> lin_wf nin nout dm -> length (fst e) = nin -> length (snd (snd e)) = nout ->
  elem_expansion LSq nin nout m dm t (fun e => (1#2) * normsq (lin_eval dm (fst e))) e.
Proof.
  intros Hm Hdm Hx Hl. unfold elem_expansion. cbn [loss_evald loss_eval vlabs map fst snd].
  pose proof (lin_eval_length nin nout m (fst e) Hm) as Lp.
  pose proof (lin_eval_length nin nout dm (fst e) Hdm) as Lv.
  split; [exact Hx|]. split.
  - unfold sq_evald. cbn [snd map nth fst]. rewrite vsub_length; lia.
  - unfold sq_eval, sq_evald. cbn [map fst snd nth qsum fold_right].
    rewrite (sqdiff_veql _ _ _ (lin_eval_affine nin nout t dm m (fst e) Hm Hdm)).
    rewrite sqdiff_step by lia. ring.
Qed.

Definition sq_shapes (nin nout : nat) (d : @data elem) : Prop :=
  forall e, In e (elems d) -> length (fst e) = nin /\ length (snd (snd e)) = nout.

Theorem sq_error_gradient nin nout m dm t threads (d : @data elem) :
  lin_wf nin nout m -> lin_wf nin nout dm -> sq_shapes nin nout d -> (1 <= threads)%nat ->
  nth 0 (ef_eval LSq (madd t dm m) threads d) 0 - nth 0 (ef_eval LSq m threads d) 0
  == t * (pdot (tl (ef_evald LSq m threads d)) (lin_params dm)
          + t * (qsum (map (fun e => (1#2) * normsq (lin_eval dm (fst e))) (elems d)) / Qn (nelems d))).
Proof.
  intros Hm Hdm Hs HT. apply (error_grad_is_param_grad LSq nin nout m dm t _ Hm Hdm threads d HT).
  intros e Hin. destruct (Hs e Hin). apply sq_elem_expansion; assumption.
Qed.

(* ------------------------------------------------------------------------------------------ *)
(* Regularizers and ErrorFunction::setRegularizer *)
Theorem add_reg_terms lam rv rg r :
  nth 0 (add_reg lam rv rg r) 0 == nth 0 r 0 + lam * rv /\
  forall j, nth (S j) (add_reg lam rv rg r) 0 == nth (S j) r 0 + lam * nth j rg 0.
Proof.
  unfold add_reg. split; [|intros j]; rewrite nth_vadd, nth_vscale; cbn [nth]; reflexivity.
Qed.

Theorem add_reg_eval_term lam rv r : nth 0 (add_reg_eval lam rv r) 0 == nth 0 r 0 + lam * rv.
Proof. unfold add_reg_eval. rewrite nth_vadd. cbn [nth]. reflexivity. Qed.

(* TwoNormRegularizer: value 1/2 sum m_i x_i^2, gradient m_i x_i: exact second-order expansion *)
Definition msq (x mask : vec) : Q := qsum (map2 (fun xi mi => mi * (xi * xi)) x mask).

Lemma msq_step t : forall x v mask, length v = length x -> length mask = length x ->
  msq (vaxpy t v x) mask == msq x mask + t * (2 * dot (map2 (fun xi mi => mi * xi) x mask) v + t * msq v mask).
Proof.
  unfold msq. induction x as [|a x IH]; intros [|b v] [|c mask] Hv Hm; simpl in *; try discriminate; try ring.
  rewrite IH by lia. ring.
Qed.

Theorem two_norm_gradient mask x v t :
  length v = length x -> (mask = [] \/ length mask = length x) ->
  two_eval mask (vaxpy t v x) - two_eval mask x
  == t * (dot (two_grad mask x) v + t * (match mask with [] => (1#2) * normsq v | _ => (1#2) * msq v mask end)).
Proof.
  intros Hv [->|Hm].
  - cbn [two_eval two_grad]. rewrite normsq_step by exact Hv. ring.
  - destruct mask as [|c mask]; [cbn [two_eval two_grad]; rewrite normsq_step by exact Hv; ring|].
    cbn [two_eval two_grad]. fold (msq (vaxpy t v x) (c :: mask)). fold (msq x (c :: mask)).
    rewrite msq_step by assumption. ring.
Qed.

(* OneNormRegularizer: value sum |x_i m_i|, gradient sign(x_i) m_i with sign(0) = 0 (boost::math::sign).
   Exact on every step that does not move a coordinate across 0; a coordinate at 0 must stay there
   (there the returned 0 is the subgradient convention, not a derivative).  Mask entries >= 0. *)
Fixpoint same_side (t : Q) (x v : vec) : Prop :=
  match x, v with
  | xi :: x', vi :: v' =>
      ((0 < xi /\ 0 < xi + t * vi) \/ (xi < 0 /\ xi + t * vi < 0) \/ (xi == 0 /\ t * vi == 0)) /\ same_side t x' v'
  | _, _ => True
  end.
Fixpoint nonneg (m : vec) : Prop := match m with [] => True | a :: m' => 0 <= a /\ nonneg m' end.

Lemma qsign_pos x : 0 < x -> qsign x = 1.
Proof. intros H. unfold qsign. destruct (Qlt_le_dec 0 x); [reflexivity | exfalso; lra]. Qed.
Lemma qsign_neg x : x < 0 -> qsign x = - (1).
Proof. intros H. unfold qsign. destruct (Qlt_le_dec 0 x); [exfalso; lra|]. destruct (Qlt_le_dec x 0); [reflexivity | exfalso; lra]. Qed.
Lemma qsign_zero x : x == 0 -> qsign x = 0.
Proof. intros H. unfold qsign. destruct (Qlt_le_dec 0 x); [exfalso; lra|]. destruct (Qlt_le_dec x 0); [exfalso; lra | reflexivity]. Qed.

Lemma abs_step t xi vi :
  (0 < xi /\ 0 < xi + t * vi) \/ (xi < 0 /\ xi + t * vi < 0) \/ (xi == 0 /\ t * vi == 0) ->
  Qabs (xi + t * vi) - Qabs xi == t * (qsign xi * vi).
Proof.
  intros [[H1 H2]|[[H1 H2]|[H1 H2]]].
  - rewrite (qsign_pos _ H1), !Qabs_pos by lra. ring.
  - rewrite (qsign_neg _ H1), !Qabs_neg by lra. ring.
  - rewrite (qsign_zero _ H1). assert (E : xi + t * vi == 0) by lra. rewrite E, H1. simpl. ring.
Qed.

Lemma qsum_cons x l : qsum (x :: l) = x + qsum l.
Proof. reflexivity. Qed.

Theorem one_norm_gradient_nomask t : forall x v, length v = length x -> same_side t x v ->
  one_eval [] (vaxpy t v x) - one_eval [] x == t * dot (one_grad [] x) v.
Proof.
  cbn [one_eval one_grad]. induction x as [|a x IH]; intros [|b v] Hv Hs;
    cbn [vaxpy map dot length same_side] in *; rewrite ?qsum_cons; try discriminate; try ring.
  destruct Hs as [Ha Hs]. pose proof (abs_step t a b Ha) as E. pose proof (IH v ltac:(lia) Hs) as E2.
  transitivity ((Qabs (a + t * b) - Qabs a) + (qsum (map Qabs (vaxpy t v x)) - qsum (map Qabs x))); [ring | rewrite E, E2; ring].
Qed.

Theorem one_norm_gradient_mask t : forall mask x v, mask <> [] -> length v = length x -> length mask = length x ->
  nonneg mask -> same_side t x v ->
  one_eval mask (vaxpy t v x) - one_eval mask x == t * dot (one_grad mask x) v.
Proof.
  intros mask x v Hne. assert (G : forall x v mask, length v = length x -> length mask = length x -> nonneg mask -> same_side t x v ->
    qsum (map2 (fun xi mi => Qabs (xi * mi)) (vaxpy t v x) mask) - qsum (map2 (fun xi mi => Qabs (xi * mi)) x mask)
    == t * dot (map2 (fun xi mi => qsign xi * mi) x mask) v).
  { clear. induction x as [|a x IH]; intros [|b v] [|c mask] Hv Hm Hn Hs;
      cbn [vaxpy map2 dot length same_side nonneg] in *; rewrite ?qsum_cons; try discriminate; try ring.
    destruct Hs as [Ha Hs]. destruct Hn as [Hc Hn].
    pose proof (abs_step t a b Ha) as E. pose proof (IH v mask ltac:(lia) ltac:(lia) Hn Hs) as E2.
    rewrite !Qabs_Qmult, (Qabs_pos c Hc).
    setoid_replace (Qabs (a + t * b) * c + qsum (map2 (fun xi mi : Q => Qabs (xi * mi)) (vaxpy t v x) mask) -
                    (Qabs a * c + qsum (map2 (fun xi mi : Q => Qabs (xi * mi)) x mask)))
      with ((Qabs (a + t * b) - Qabs a) * c + (qsum (map2 (fun xi mi : Q => Qabs (xi * mi)) (vaxpy t v x) mask) -
                    qsum (map2 (fun xi mi : Q => Qabs (xi * mi)) x mask))) by ring.
    rewrite E, E2. ring. }
  intros Hv Hm Hn Hs. destruct mask as [|c mask]; [contradiction|]. cbn [one_eval one_grad]. apply G; assumption.
Qed.

(* the convention at 0 *)
Lemma one_norm_sign_at_zero : one_grad [] [0; 3; -(2)] = [0; 1; -(1)].
Proof. reflexivity. Qed.

(* ------------------------------------------------------------------------------------------ *)
(* statements assembled for Properties_C06.v *)
Theorem thread_ranges_tile threads batches : (1 <= threads)%nat ->
  chain 0 (thread_ranges threads batches) batches /\
  flat_ranges (thread_ranges threads batches) = seq 0 batches /\
  length (thread_ranges threads batches) = Nat.min threads batches.
Proof.
  intros HT. pose proof (thread_ranges_chain threads batches HT) as Hc. split; [exact Hc|]. split.
  - rewrite (chain_flat _ _ _ Hc), Nat.sub_0_r. reflexivity.
  - apply thread_ranges_length.
Qed.

(* ErrorFunction with the loss table and the linear model: value path and derivative path, any
   arrival order of the thread results *)
Theorem ef_any_schedule k m threads (d : @data elem) arrived arrived_eval :
  (1 <= threads)%nat ->
  Permutation arrived (partials (lin_bq k m) (thread_ranges threads (length d)) d) ->
  Permutation arrived_eval (partials (lin_bq_eval k m) (thread_ranges threads (length d)) d) ->
  veq (finish arrived (nelems d)) (mean_loss (lin_bq k m) (elems d)) /\
  veq (finish arrived_eval (nelems d)) (mean_loss (lin_bq_eval k m) (elems d)).
Proof.
  intros HT H1 H2. split.
  - apply (error_any_schedule _ (lin_bq_additive k m) threads d arrived HT H1).
  - apply (error_any_schedule _ (lin_bq_eval_additive k m) threads d arrived_eval HT H2).
Qed.

Theorem ef_paths_agree k m threads (d : @data elem) : (1 <= threads)%nat ->
  nth 0 (ef_evald k m threads d) 0 == nth 0 (ef_eval k m threads d) 0.
Proof.
  intros HT. unfold ef_evald, ef_eval.
  rewrite (error_is_mean_loss _ (lin_bq_additive k m) threads d HT 0%nat).
  rewrite (error_is_mean_loss _ (lin_bq_eval_additive k m) threads d HT 0%nat).
  unfold mean_loss. rewrite !nth_vdiv, !nth_vsum, !map_map.
  rewrite (qsum_map_ext _ _ (elems d) (fun e => lin_bq_value k m [e])). reflexivity.
Qed.

Theorem ef_batching_invariant k m t1 t2 (l : list elem) s1 s2 :
  (1 <= t1)%nat -> (1 <= t2)%nat -> C03Model.sum s1 = length l -> C03Model.sum s2 = length l ->
  veq (ef_evald k m t1 (chunk s1 l)) (ef_evald k m t2 (chunk s2 l)) /\
  veq (ef_eval k m t1 (chunk s1 l)) (ef_eval k m t2 (chunk s2 l)).
Proof.
  intros. split.
  - apply (batching_invariant_chunk _ (lin_bq_additive k m)); assumption.
  - apply (batching_invariant_chunk _ (lin_bq_eval_additive k m)); assumption.
Qed.

(* AbstractLoss::eval(Data,Data) on a dataset of (label, prediction) pairs *)
Theorem loss_data_mean k dim (d : @data (lab * vec)) arrived :
  Permutation arrived (map (fun b => [loss_eval k dim b]) d) ->
  veq (finish arrived (nelems d)) (mean_loss (fun b => [loss_eval k dim b]) (elems d)).
Proof.
  apply data_mean_is_mean_loss. intros b [|j]; rewrite nth_vsum, map_map; cbn [nth].
  - apply loss_additive.
  - destruct j; (induction b as [|e b IH]; simpl; [reflexivity| rewrite <- IH; ring]).
Qed.

(* weighted: value path = value coordinate of the derivative path *)
Theorem wef_paths_agree k m (d : @data welem) : nth 0 (wef_evald k m d) 0 == nth 0 (wef_eval k m d) 0.
Proof.
  unfold wef_evald, wef_eval, werrfn_seq, werrfn_eval_seq, werrfn. rewrite !nth_vdiv, !nth_vsum, !map_map.
  rewrite (qsum_map_ext (fun x => nth 0 (wbatch (lin_eloss k m) lin_wwpd snd x) 0)
                        (fun x => nth 0 (wbatch_eval (lin_eloss k m) snd x) 0)); [reflexivity|].
  intros b. unfold wbatch, wbatch_eval. cbn [nth]. rewrite map_map. reflexivity.
Qed.

(* loss table: batch value = sum of the single-element values (both paths), one gradient row per element
   equal to the single-element gradient *)
Theorem loss_batch_is_sum k dim b :
  loss_eval k dim b == qsum (map (fun e => loss_eval k dim [e]) b) /\
  fst (loss_evald k dim b) == qsum (map (fun e => fst (loss_evald k dim [e])) b) /\
  snd (loss_evald k dim b) = map (fun e => nth 0 (snd (loss_evald k dim [e])) []) b.
Proof. split; [apply loss_additive|]. split; [apply loss_value_additive | apply loss_grad_map]. Qed.

Theorem discrete_losses_batch_is_sum :
  (forall b, abs_eval b == qsum (map (fun e => abs_eval [e]) b)) /\
  (forall b, zo_eval b == qsum (map (fun e => zo_eval [e]) b)) /\
  (forall thr b, zov_eval thr b == qsum (map (fun e => zov_eval thr [e]) b)) /\
  (forall cost b, disc_eval cost b == qsum (map (fun e => disc_eval cost [e]) b)) /\
  (forall b, zo_eval b == Qn (length (filter (fun e => negb (snd e =? fst e)%nat) b))).
Proof.
  split; [exact abs_additive|]. split; [exact zo_additive|]. split; [exact zov_additive|].
  split; [exact disc_additive | exact zo_counts].
Qed.

(* ------------------------------------------------------------------------------------------ *)
(* HingeLoss with several outputs: the gradient row built by the update loop is the derivative of the value *)
Definition hinge_mc_step (c : nat) (p : vec) (g : vec) (o : nat) : vec :=
  if Qlt_le_dec 0 (hinge_mc_s c p o) then let g1 := upd o (1#2) g in upd c (nth c g1 0 - (1#2)) g1 else g.
Definition hinge_mc_coef (c : nat) (p v : vec) (o : nat) : Q :=
  if Qlt_le_dec 0 (hinge_mc_s c p o) then (1#2) * (nth o v 0 - nth c v 0) else 0.

Lemma hinge_mc_fold_dot c p dim v : (c < dim)%nat -> length v = dim ->
  forall os g, NoDup os -> (forall o, In o os -> (o < dim)%nat /\ o <> c /\ nth o g 0 = 0) -> length g = dim ->
  dot (fold_left (hinge_mc_step c p) os g) v == dot g v + qsum (map (hinge_mc_coef c p v) os).
Proof.
  intros Hc Hv. induction os as [|o os IH]; intros g Hnd Hos Hg; cbn [fold_left map]; rewrite ?qsum_cons.
  - simpl. ring.
  - inversion Hnd as [|? ? Hnotin Hnd']; subst.
    destruct (Hos o (or_introl eq_refl)) as (Ho & Hoc & Hz).
    unfold hinge_mc_step at 2, hinge_mc_coef at 1. destruct (Qlt_le_dec 0 (hinge_mc_s c p o)).
    + cbv zeta. rewrite IH.
      * rewrite dot_upd by (rewrite ?upd_length; lia). rewrite dot_upd by lia. rewrite Hz. ring.
      * exact Hnd'.
      * intros o' Hin. destruct (Hos o' (or_intror Hin)) as (A & B & C). split; [exact A|]. split; [exact B|].
        rewrite nth_upd_neq by (intro E; apply B; symmetry; exact E).
        rewrite nth_upd_neq by (intro E; subst; contradiction). exact C.
      * rewrite !upd_length. exact Hg.
    + rewrite IH; [ring | exact Hnd' | | exact Hg].
      intros o' Hin. apply Hos. right. exact Hin.
Qed.

Lemma others_spec c dim : NoDup (others c dim) /\ forall o, In o (others c dim) -> (o < dim)%nat /\ o <> c.
Proof.
  unfold others. split.
  - apply NoDup_filter, seq_NoDup.
  - intros o Hin. apply filter_In in Hin as [Hs Hb]. apply in_seq in Hs. split; [lia|].
    intros ->. rewrite Nat.eqb_refl in Hb. discriminate.
Qed.

Lemma nth_repeat0 n o : nth o (repeat 0 n) 0 = 0.
Proof. revert o; induction n as [|n IH]; intros [|o]; simpl; auto. Qed.

Lemma dot_repeat0 : forall n v, dot (repeat 0 n) v == 0.
Proof. induction n as [|n IH]; intros [|y v]; simpl; try reflexivity. rewrite IH. ring. Qed.

Lemma hinge_mc_grad_dot c p dim v : (c < dim)%nat -> length v = dim ->
  dot (hinge_mc_grad c p dim) v == qsum (map (hinge_mc_coef c p v) (others c dim)).
Proof.
  intros Hc Hv. unfold hinge_mc_grad. fold (hinge_mc_step c p).
  destruct (others_spec c dim) as [Hnd Hin].
  rewrite (hinge_mc_fold_dot c p dim v Hc Hv (others c dim) (repeat 0 dim) Hnd).
  - rewrite dot_repeat0. ring.
  - intros o Ho. destruct (Hin o Ho). split; [assumption|]. split; [assumption | apply nth_repeat0].
  - apply repeat_length.
Qed.

Definition hinge_mc_same_side (c : nat) (p v : vec) (t : Q) (o : nat) : Prop :=
  let a := 2 - nth c p 0 + nth o p 0 in
  let a' := 2 - (nth c p 0 + t * nth c v 0) + (nth o p 0 + t * nth o v 0) in
  (0 < a /\ 0 < a') \/ (a < 0 /\ a' < 0).

Theorem hinge_mc_gradient c p v t dim : (dim =? 1)%nat = false -> (c < dim)%nat -> length p = dim -> length v = dim ->
  (forall o, In o (others c dim) -> hinge_mc_same_side c p v t o) ->
  hinge_eval dim [(c, vaxpy t v p)] - hinge_eval dim [(c, p)]
  == t * dot (nth 0 (snd (hinge_evald dim [(c, p)])) []) v.
Proof.
  intros Hd Hc Hp Hv Hs. unfold hinge_eval, hinge_evald. rewrite Hd. cbn [map fst snd nth].
  rewrite (hinge_mc_grad_dot c p dim v Hc Hv). rewrite !qsum_cons. cbn [qsum fold_right].
  assert (E : qsum (map (hinge_mc_s c (vaxpy t v p)) (others c dim)) - qsum (map (hinge_mc_s c p) (others c dim))
              == 2 * (t * qsum (map (hinge_mc_coef c p v) (others c dim)))).
  { rewrite <- qsum_map_sub, <- !qsum_scale, !map_map. apply qsum_map_ext_in. intros o Ho.
    specialize (Hs o Ho). unfold hinge_mc_same_side in Hs. cbv zeta in Hs.
    unfold hinge_mc_coef, hinge_mc_s.
    rewrite !nth_vaxpy by congruence.
    set (pc := nth c p 0) in *. set (po := nth o p 0) in *. set (tc := t * nth c v 0) in *. set (to := t * nth o v 0) in *.
    unfold Qmax0.
    destruct (Qlt_le_dec 0 (2 - (pc + tc) + (po + to))), (Qlt_le_dec 0 (2 - pc + po));
      try (destruct (Qlt_le_dec 0 (2 - pc + po)); [|exfalso; lra]);
      try (destruct (Qlt_le_dec 0 0); [exfalso; lra|]);
      subst tc to; try (exfalso; lra); try ring.
    all: try (destruct (Qlt_le_dec 0 0); try ring; exfalso; lra). }
  setoid_replace ((qsum (map (hinge_mc_s c (vaxpy t v p)) (others c dim)) + 0) / 2 - (qsum (map (hinge_mc_s c p) (others c dim)) + 0) / 2)
    with ((qsum (map (hinge_mc_s c (vaxpy t v p)) (others c dim)) - qsum (map (hinge_mc_s c p) (others c dim))) / 2) by (unfold Qdiv; ring).
  rewrite E. field.
Qed.

(* SquaredHingeLoss with several outputs *)
Lemma Qmax0_pos x : 0 < x -> Qmax0 x == x.
Proof. intros H. unfold Qmax0. destruct (Qlt_le_dec 0 x); [reflexivity | exfalso; lra]. Qed.
Lemma Qmax0_nonpos x : x <= 0 -> Qmax0 x == 0.
Proof. intros H. unfold Qmax0. destruct (Qlt_le_dec 0 x); [exfalso; lra | reflexivity]. Qed.

Definition sqhinge_mc_step (c : nat) (p : vec) (g : vec) (o : nat) : vec :=
  let s := hinge_mc_s c p o in
  if Qlt_le_dec 0 s then let g1 := upd o (s * (1#4)) g in upd c (nth c g1 0 - s * (1#4)) g1 else g.
Definition sqhinge_mc_coef (c : nat) (p v : vec) (o : nat) : Q :=
  if Qlt_le_dec 0 (hinge_mc_s c p o) then hinge_mc_s c p o * (1#4) * (nth o v 0 - nth c v 0) else 0.
Definition sqhinge_mc_rem (c : nat) (p v : vec) (o : nat) : Q :=
  if Qlt_le_dec 0 (hinge_mc_s c p o) then (1#8) * ((nth o v 0 - nth c v 0) * (nth o v 0 - nth c v 0)) else 0.

Lemma sqhinge_mc_fold_dot c p dim v : (c < dim)%nat -> length v = dim ->
  forall os g, NoDup os -> (forall o, In o os -> (o < dim)%nat /\ o <> c /\ nth o g 0 = 0) -> length g = dim ->
  dot (fold_left (sqhinge_mc_step c p) os g) v == dot g v + qsum (map (sqhinge_mc_coef c p v) os).
Proof.
  intros Hc Hv. induction os as [|o os IH]; intros g Hnd Hos Hg; cbn [fold_left map]; rewrite ?qsum_cons.
  - simpl. ring.
  - inversion Hnd as [|? ? Hnotin Hnd']; subst.
    destruct (Hos o (or_introl eq_refl)) as (Ho & Hoc & Hz).
    unfold sqhinge_mc_step at 2, sqhinge_mc_coef at 1. cbv zeta. destruct (Qlt_le_dec 0 (hinge_mc_s c p o)).
    + rewrite IH.
      * rewrite dot_upd by (rewrite ?upd_length; lia). rewrite dot_upd by lia. rewrite Hz. ring.
      * exact Hnd'.
      * intros o' Hin. destruct (Hos o' (or_intror Hin)) as (A & B & C). split; [exact A|]. split; [exact B|].
        rewrite nth_upd_neq by (intro E; apply B; symmetry; exact E).
        rewrite nth_upd_neq by (intro E; subst; contradiction). exact C.
      * rewrite !upd_length. exact Hg.
    + rewrite IH; [ring | exact Hnd' | | exact Hg].
      intros o' Hin. apply Hos. right. exact Hin.
Qed.

Lemma sqhinge_mc_grad_dot c p dim v : (c < dim)%nat -> length v = dim ->
  dot (sqhinge_mc_grad c p dim) v == qsum (map (sqhinge_mc_coef c p v) (others c dim)).
Proof.
  intros Hc Hv. unfold sqhinge_mc_grad. fold (sqhinge_mc_step c p).
  destruct (others_spec c dim) as [Hnd Hin].
  rewrite (sqhinge_mc_fold_dot c p dim v Hc Hv (others c dim) (repeat 0 dim) Hnd).
  - rewrite dot_repeat0. ring.
  - intros o Ho. destruct (Hin o Ho). split; [assumption|]. split; [assumption | apply nth_repeat0].
  - apply repeat_length.
Qed.

Theorem sqhinge_mc_gradient c p v t dim : (dim =? 1)%nat = false -> (c < dim)%nat -> length p = dim -> length v = dim ->
  (forall o, In o (others c dim) -> hinge_mc_same_side c p v t o) ->
  sqhinge_eval dim [(c, vaxpy t v p)] - sqhinge_eval dim [(c, p)]
  == t * (dot (nth 0 (snd (sqhinge_evald dim [(c, p)])) []) v + t * qsum (map (sqhinge_mc_rem c p v) (others c dim))).
Proof.
  intros Hd Hc Hp Hv Hs. unfold sqhinge_eval, sqhinge_evald. rewrite Hd. cbn [map fst snd nth].
  rewrite (sqhinge_mc_grad_dot c p dim v Hc Hv). rewrite !qsum_cons. cbn [qsum fold_right].
  assert (E : qsum (map (fun o => sqr (hinge_mc_s c (vaxpy t v p) o)) (others c dim)) - qsum (map (fun o => sqr (hinge_mc_s c p o)) (others c dim))
              == 8 * (t * (qsum (map (sqhinge_mc_coef c p v) (others c dim)) + t * qsum (map (sqhinge_mc_rem c p v) (others c dim))))).
  { rewrite <- qsum_map_sub. rewrite <- (qsum_lin t). rewrite <- qsum_scale, map_map. apply qsum_map_ext_in. intros o Ho.
    specialize (Hs o Ho). unfold hinge_mc_same_side in Hs. cbv zeta in Hs.
    unfold sqhinge_mc_coef, sqhinge_mc_rem, hinge_mc_s, sqr.
    rewrite !nth_vaxpy by congruence.
    set (pc := nth c p 0) in *. set (po := nth o p 0) in *. set (vc := nth c v 0) in *. set (vo := nth o v 0) in *.
    destruct Hs as [[H1 H2]|[H1 H2]].
    - destruct (Qlt_le_dec 0 (Qmax0 (2 - pc + po))) as [q|q]; [|rewrite (Qmax0_pos _ H1) in q; exfalso; lra].
      rewrite (Qmax0_pos _ H1), (Qmax0_pos _ H2). ring.
    - destruct (Qlt_le_dec 0 (Qmax0 (2 - pc + po))) as [q|q]; [rewrite Qmax0_nonpos in q by lra; exfalso; lra|].
      rewrite (Qmax0_nonpos (2 - pc + po)), (Qmax0_nonpos (2 - (pc + t * vc) + (po + t * vo))) by lra. ring. }
  setoid_replace ((qsum (map (fun o => sqr (hinge_mc_s c (vaxpy t v p) o)) (others c dim)) + 0) / 4 / 2
                  - (qsum (map (fun o => sqr (hinge_mc_s c p o)) (others c dim)) + 0) / 4 / 2)
    with ((qsum (map (fun o => sqr (hinge_mc_s c (vaxpy t v p) o)) (others c dim)) - qsum (map (fun o => sqr (hinge_mc_s c p o)) (others c dim))) / 8) by (unfold Qdiv; field).
  rewrite E. field.
Qed.
