(* C17 — executable model of the projection trees LCTree (LCTree.h) and KHCTree (KHCTree.h) as seen by
   the nearest-neighbour query: BinaryTree::distanceFromPlane / isLeft (BinaryTree.h), the virtual
   funct() of the two classes, LCTree/KHCTree::squaredDistanceLowerBound (the same code in both
   classes), and the trace tree IterativeNNQuery builds from them (TreeNearestNeighbors.h: TraceNode /
   TraceLeaf constructors, leaf distance in the tree's metric after repair 3259cc98).
   Definitions only; proofs are in C17ProjProofs.v.  The search itself is C17Gen.v.

   Arithmetic: a record of field operations (C17Field.fops): Qc in the proofs' examples and in the
   correspondence run (exact), any ordered field in the theorems. *)
From Coq Require Import List Bool Arith.
From SharkV Require Import C17Model C17Field C17Gen.
Import ListNotations.

Section Proj.
Variable A : Type.
Variable F : fops A.
Notation "0" := (o0 F) : OF_scope.
Notation "1" := (o1 F) : OF_scope.
Infix "+" := (oadd F) : OF_scope.
Infix "*" := (omul F) : OF_scope.
Infix "-" := (osub F) : OF_scope.
Infix "/" := (odiv F) : OF_scope.
Notation "- x" := (oopp F x) : OF_scope.
Local Open Scope OF_scope.

Definition apoint := list A.
Definition ptA (data : list apoint) (i : nat) : apoint := nth i data [].

(* ---------------------------------------------------------------------------------------- *)
(* BinaryTree<InputT> with the node data N of a subclass: funct (virtual) and m_threshold *)
Section Tree.
Variable N : Type.
Variable funct : N -> apoint -> A.     (* virtual double funct(point) *)
Variable thr : N -> A.                  (* m_threshold *)

Inductive ptree :=
| PLeaf (idx : list nat)
| PNode (nd : N) (l r : ptree).

(* a cell: the path to the root, nearest ancestor first; true iff the node below is the RIGHT child *)
Definition ppstep := (N * bool)%type.

(* BinaryTree::distanceFromPlane *)
Definition dfp (nd : N) (x : apoint) : A := funct nd x - thr nd.
(* BinaryTree::isLeft *)
Definition is_left (nd : N) (x : apoint) : bool := oltb F (funct nd x) (thr nd).

(* LCTree / KHCTree::squaredDistanceLowerBound:
     dist = 0; for every ancestor p (walking up): v = p->distanceFromPlane(reference);
     if (t == p->mp_right) v = -v;  if (v > dist) dist = v;   return dist * dist *)
Definition plb_step (q : apoint) (dist : A) (s : ppstep) : A :=
  let '(nd, isr) := s in
  let v := dfp nd q in
  let v := if isr then - v else v in
  if oltb F dist v then v else dist.
Definition plb_dist (path : list ppstep) (q : apoint) : A := fold_left (plb_step q) path 0.
Definition plb (path : list ppstep) (q : apoint) : A := let d := plb_dist path q in d * d.

(* trace tree (C17Gen.gtt) of one query; pdist i = squared distance of data point i to the
   reference point in the tree's metric (TraceLeaf constructor: that of index(0)) *)
Fixpoint mk_ptrace (pdist : nat -> A) (q : apoint) (path : list ppstep) (t : ptree) : gtt A :=
  match t with
  | PLeaf idx => GLeaf false (plb path q) (pdist (hd 0%nat idx)) idx
  | PNode nd l r =>
      GNode NONE (plb path q) (is_left nd q)
            (mk_ptrace pdist q ((nd, false) :: path) l)
            (mk_ptrace pdist q ((nd, true) :: path) r)
  end.

(* TreeNearestNeighbors::getNeighbors for one pattern: k calls of IterativeNNQuery::next() *)
Definition pquery (pdist : nat -> A) (t : ptree) (q : apoint) (k : nat) : list (A * nat) :=
  gresults A (oleb F) k (ginit A (oleb F) (mk_ptrace pdist q [] t)).
Definition pquery_trace (pdist : nat -> A) (t : ptree) (q : apoint) (k : nat) :=
  grun A (oleb F) k (ginit A (oleb F) (mk_ptrace pdist q [] t)).

Fixpoint pindices (t : ptree) : list nat :=
  match t with PLeaf idx => idx | PNode _ l r => pindices l ++ pindices r end.

(* the bound of every node of the tree for one query, pre-order (observable: TraceNode::m_squaredDistance) *)
Fixpoint pbounds (q : apoint) (path : list ppstep) (t : ptree) : list A :=
  match t with
  | PLeaf _ => [plb path q]
  | PNode nd l r => plb path q :: pbounds q ((nd, false) :: path) l ++ pbounds q ((nd, true) :: path) r
  end.

Fixpoint alist_eqb (a b : apoint) : bool :=
  match a, b with
  | [], [] => true
  | x :: a', y :: b' => oleb F x y && oleb F y x && alist_eqb a' b'
  | _, _ => false
  end.

(* executable well-formedness check of a tree against the data: left points funct <= threshold <= right
   points, every leaf holds copies of one point *)
Fixpoint pwf_treeb (data : list apoint) (t : ptree) : bool :=
  match t with
  | PLeaf idx =>
      match idx with
      | [] => false
      | i :: rest => forallb (fun j => alist_eqb (ptA data j) (ptA data i)) rest
      end
  | PNode nd l r =>
      forallb (fun i => oleb F (funct nd (ptA data i)) (thr nd)) (pindices l) &&
      forallb (fun i => oleb F (thr nd) (funct nd (ptA data i))) (pindices r) &&
      pwf_treeb data l && pwf_treeb data r
  end.

Fixpoint pnodes_forallb (f : N -> bool) (t : ptree) : bool :=
  match t with PLeaf _ => true | PNode nd l r => f nd && pnodes_forallb f l && pnodes_forallb f r end.

End Tree.

(* ---------------------------------------------------------------------------------------- *)
(* LCTree<RealVector>: node data = m_normal, m_threshold; funct = inner_prod(m_normal, reference);
   metric = distanceSqr *)
Record lcnode := mkLc { lc_normal : apoint; lc_thr : A }.
Definition lc_funct (nd : lcnode) (x : apoint) : A := dot F (lc_normal nd) x.
Definition lc_pdist (data : list apoint) (q : apoint) (i : nat) : A := edist2 F (ptA data i) q.
(* norm_sqr(m_normal) <= 1 : the projection does not stretch *)
Definition lc_unitb (nd : lcnode) : bool := oleb F (dot F (lc_normal nd) (lc_normal nd)) 1.

Definition lc_query (data : list apoint) (t : ptree lcnode) (q : apoint) (k : nat) :=
  pquery lcnode lc_funct lc_thr (lc_pdist data q) t q k.
Definition lc_query_trace (data : list apoint) (t : ptree lcnode) (q : apoint) (k : nat) :=
  pquery_trace lcnode lc_funct lc_thr (lc_pdist data q) t q k.

(* ---------------------------------------------------------------------------------------- *)
(* KHCTree<Container>: node data = mep_positive, mep_negative (iterators into the data: indices),
   m_normalInvNorm, m_threshold; kernel k.
     funct: result = k(positive, reference); result -= k(negative, reference); result *= m_normalInvNorm
     metric: AbstractKernelFunction::featureDistanceSqr = k11 - 2.0*k12 + k22 *)
Record khcnode := mkKhc { kh_pos : nat; kh_neg : nat; kh_inv : A; kh_thr : A }.

Section Kernel.
Variable k : apoint -> apoint -> A.
Definition kd2 (x y : apoint) : A := k x x - two F * k x y + k y y.
Definition khc_funct (data : list apoint) (nd : khcnode) (x : apoint) : A :=
  (k (ptA data (kh_pos nd)) x - k (ptA data (kh_neg nd)) x) * kh_inv nd.
Definition khc_pdist (data : list apoint) (q : apoint) (i : nat) : A := kd2 (ptA data i) q.
(* m_normalInvNorm^2 * featureDistanceSqr(positive, negative) <= 1 *)
Definition khc_unitb (data : list apoint) (nd : khcnode) : bool :=
  oleb F (kh_inv nd * kh_inv nd * kd2 (ptA data (kh_pos nd)) (ptA data (kh_neg nd))) 1.

Definition khc_nodeb (data : list apoint) (nd : khcnode) : bool :=
  (kh_pos nd <? length data)%nat && (kh_neg nd <? length data)%nat && khc_unitb data nd.

Definition khc_query (data : list apoint) (t : ptree khcnode) (q : apoint) (k : nat) :=
  pquery khcnode (khc_funct data) kh_thr (khc_pdist data q) t q k.
Definition khc_query_trace (data : list apoint) (t : ptree khcnode) (q : apoint) (k : nat) :=
  pquery_trace khcnode (khc_funct data) kh_thr (khc_pdist data q) t q k.
End Kernel.

(* LinearKernel::eval = inner_prod;  PolynomialKernel(degree 2, offset c)::eval = (inner_prod + c)^2 *)
Definition lin_k (x y : apoint) : A := dot F x y.
Definition poly2_k (c : A) (x y : apoint) : A := (dot F x y + c) * (dot F x y + c).

End Proj.

Arguments PLeaf {N}. Arguments PNode {N}.
