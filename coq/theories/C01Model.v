(* C01 — remora linear-algebra expressions: deep embedding, shapes, element-wise denotation
   (= the documented meaning of docs/sphinx_pages/rest_sources/quickref/remora.rst) and the
   interpreter of the assignment forms.  Definitions only; proofs are in C01Proofs.v.

   Carrier: Z (exact integers; the C++ side runs `long` and `double` holding small integers, so the
   documented value is unique and comparison is exact).

   The constructors mirror the C++ expression classes of detail/{vector,matrix}_expression_classes.hpp
   (vector_scalar_multiply, vector_addition, vector_unary, vector_binary, matrix_vector_prod with its
   alpha, matrix_row_transform, scalar_vector, unit_vector, vector_concat; matrix_scalar_multiply,
   matrix_addition, vector_repeater with orientation, scalar_matrix, diagonal_matrix, matrix_unary,
   matrix_binary, outer_product, matrix_matrix_prod with alpha, matrix_concat) plus the *surface*
   proxies subrange/row/column/diag/trans/rows/columns applied to arbitrary expressions (in C++ these
   are function calls that run the rewrite table of detail/expression_optimizers.hpp; the table is
   modelled in C01Opt.v as functions from this AST to itself). *)
From Coq Require Import ZArith List Bool Arith Lia.
Import ListNotations.
Open Scope Z_scope.

(* ---------- functors (detail/functional.hpp, the part that is exact over integers) ---------- *)
Inductive ufun :=
| FId | FAbs | FSqr
| FMulScalar (c : Z)                  (* multiply_scalar: x -> x * c *)
| FCompose (f g : ufun).              (* compose<F,G>: x -> g (f x) *)

Inductive bfun :=
| BMul | BMin | BMax
| BCompose (f : bfun) (g : ufun).     (* compose<F,G>: (x,y) -> g (f x y) *)

Fixpoint uapp (f : ufun) (x : Z) : Z :=
  match f with
  | FId => x | FAbs => Z.abs x | FSqr => x * x
  | FMulScalar c => x * c
  | FCompose f g => uapp g (uapp f x)
  end.

Fixpoint bapp (f : bfun) (x y : Z) : Z :=
  match f with
  | BMul => x * y | BMin => Z.min x y | BMax => Z.max x y
  | BCompose f g => uapp g (bapp f x y)
  end.

Inductive fkind := KSum | KMax | KMin.   (* fold functor of matrix_row_transform *)

(* ---------- expressions ---------- *)
Inductive vexp :=
| VVar (x : nat) (n : nat)                       (* dense vector container x of size n *)
| VRange (e : vexp) (a b : nat)                  (* subrange(e,a,b) *)
| VRow (m : mexp) (i : nat)                      (* row(m,i) *)
| VCol (m : mexp) (j : nat)                      (* column(m,j) *)
| VDiag (m : mexp)                               (* diag(m) *)
| VConst (n : nat) (c : Z)                       (* scalar_vector(n,c) *)
| VUnit (n : nat) (idx : Z) (c : Z)              (* unit_vector(n,idx,c): c at idx, 0 elsewhere *)
| VScale (c : Z) (e : vexp)                      (* c * e *)
| VAdd (e1 e2 : vexp)
| VMinus (e1 e2 : vexp)                          (* e1 - e2  (C++: e1 + (-1)*e2 through the optimizer) *)
| VUn (f : ufun) (e : vexp)
| VBin (g : bfun) (e1 e2 : vexp)
| VMv (alpha : Z) (m : mexp) (e : vexp)          (* alpha * prod(m,e) *)
| VFold (k : fkind) (g : ufun) (m : mexp)        (* g (fold_k of each row of m): sum(as_rows(m)) ... *)
| VConcat (e1 e2 : vexp)                         (* e1 | e2 *)
with mexp :=
| MVar (A : nat) (r c : nat)                     (* dense matrix container, r x c (orientation is a C++ type detail) *)
| MTrans (m : mexp)
| MRange (m : mexp) (a b c d : nat)              (* subrange(m,a,b,c,d): rows a..b-1, columns c..d-1 *)
| MRows (m : mexp) (a b : nat)
| MCols (m : mexp) (a b : nat)
| MConst (r c : nat) (t : Z)                     (* scalar_matrix *)
| MDiagM (e : vexp)                              (* diagonal_matrix / to_diagonal; identity = MDiagM (VConst n 1) *)
| MScale (c : Z) (m : mexp)
| MAdd (m1 m2 : mexp)
| MMinus (m1 m2 : mexp)
| MUn (f : ufun) (m : mexp)
| MBin (g : bfun) (m1 m2 : mexp)
| MOuter (e1 e2 : vexp)                          (* outer_prod *)
| MProd (alpha : Z) (m1 m2 : mexp)               (* alpha * prod(m1,m2) *)
| MRepeat (colmajor : bool) (e : vexp) (k : nat) (* vector_repeater: row_major: k rows equal to e; column_major: k columns *)
| MConcat (rt : bool) (m1 m2 : mexp)          (* m1 | m2  (right = true)   m1 & m2 (right = false) *)
| MTri (upper unit : bool) (m : mexp).        (* to_triangular(m, lower|upper|unit_lower|unit_upper): the named triangle
                                                 of the stored (square) matrix, unit diagonal for the unit tags;
                                                 triangular_prod<T>(A,v) = prod(to_triangular(A,T), v) = VMv 1 (MTri ..) v *)

Scheme vexp_mind := Induction for vexp Sort Prop
with mexp_mind := Induction for mexp Sort Prop.
Combined Scheme vmexp_ind from vexp_mind, mexp_mind.

(* ---------- shapes ---------- *)
Fixpoint vsize (e : vexp) : nat :=
  match e with
  | VVar _ n => n
  | VRange _ a b => (b - a)%nat
  | VRow m _ => mcols m
  | VCol m _ => mrows m
  | VDiag m => Nat.min (mrows m) (mcols m)
  | VConst n _ => n
  | VUnit n _ _ => n
  | VScale _ e => vsize e
  | VAdd e1 _ => vsize e1
  | VMinus e1 _ => vsize e1
  | VUn _ e => vsize e
  | VBin _ e1 _ => vsize e1
  | VMv _ m _ => mrows m
  | VFold _ _ m => mrows m
  | VConcat e1 e2 => (vsize e1 + vsize e2)%nat
  end
with mrows (m : mexp) : nat :=
  match m with
  | MVar _ r _ => r
  | MTrans m => mcols m
  | MRange _ a b _ _ => (b - a)%nat
  | MRows _ a b => (b - a)%nat
  | MCols m _ _ => mrows m
  | MConst r _ _ => r
  | MDiagM e => vsize e
  | MScale _ m => mrows m
  | MAdd m1 _ => mrows m1
  | MMinus m1 _ => mrows m1
  | MUn _ m => mrows m
  | MBin _ m1 _ => mrows m1
  | MOuter e1 _ => vsize e1
  | MProd _ m1 _ => mrows m1
  | MRepeat cm e k => if cm then vsize e else k
  | MConcat rt m1 m2 => if rt then mrows m1 else (mrows m1 + mrows m2)%nat
  | MTri _ _ m => mrows m
  end
with mcols (m : mexp) : nat :=
  match m with
  | MVar _ _ c => c
  | MTrans m => mrows m
  | MRange _ _ _ c d => (d - c)%nat
  | MRows m _ _ => mcols m
  | MCols _ a b => (b - a)%nat
  | MConst _ c _ => c
  | MDiagM e => vsize e
  | MScale _ m => mcols m
  | MAdd m1 _ => mcols m1
  | MMinus m1 _ => mcols m1
  | MUn _ m => mcols m
  | MBin _ m1 _ => mcols m1
  | MOuter _ e2 => vsize e2
  | MProd _ _ m2 => mcols m2
  | MRepeat cm e k => if cm then k else vsize e
  | MConcat rt m1 m2 => if rt then (mcols m1 + mcols m2)%nat else mcols m1
  | MTri _ _ m => mcols m
  end.

Definition fold_ok (k : fkind) (n : nat) : bool :=
  match k with KSum => true | _ => (0 <? n)%nat end.

(* well-formedness = the shape checks the C++ performs with REMORA_SIZE_CHECK (debug mode only) *)
Fixpoint vwf (e : vexp) : bool :=
  match e with
  | VVar _ _ => true
  | VRange e a b => vwf e && (a <=? b)%nat && (b <=? vsize e)%nat
  | VRow m i => mwf m && (i <? mrows m)%nat
  | VCol m j => mwf m && (j <? mcols m)%nat
  | VDiag m => mwf m
  | VConst _ _ => true
  | VUnit _ _ _ => true
  | VScale _ e => vwf e
  | VAdd e1 e2 => vwf e1 && vwf e2 && (vsize e1 =? vsize e2)%nat
  | VMinus e1 e2 => vwf e1 && vwf e2 && (vsize e1 =? vsize e2)%nat
  | VUn _ e => vwf e
  | VBin _ e1 e2 => vwf e1 && vwf e2 && (vsize e1 =? vsize e2)%nat
  | VMv _ m e => mwf m && vwf e && (mcols m =? vsize e)%nat
  | VFold k _ m => mwf m && fold_ok k (mcols m)
  | VConcat e1 e2 => vwf e1 && vwf e2
  end
with mwf (m : mexp) : bool :=
  match m with
  | MVar _ _ _ => true
  | MTrans m => mwf m
  | MRange m a b c d => mwf m && (a <=? b)%nat && (b <=? mrows m)%nat && (c <=? d)%nat && (d <=? mcols m)%nat
  | MRows m a b => mwf m && (a <=? b)%nat && (b <=? mrows m)%nat
  | MCols m a b => mwf m && (a <=? b)%nat && (b <=? mcols m)%nat
  | MConst _ _ _ => true
  | MDiagM e => vwf e
  | MScale _ m => mwf m
  | MAdd m1 m2 => mwf m1 && mwf m2 && (mrows m1 =? mrows m2)%nat && (mcols m1 =? mcols m2)%nat
  | MMinus m1 m2 => mwf m1 && mwf m2 && (mrows m1 =? mrows m2)%nat && (mcols m1 =? mcols m2)%nat
  | MUn _ m => mwf m
  | MBin _ m1 m2 => mwf m1 && mwf m2 && (mrows m1 =? mrows m2)%nat && (mcols m1 =? mcols m2)%nat
  | MOuter e1 e2 => vwf e1 && vwf e2
  | MProd _ m1 m2 => mwf m1 && mwf m2 && (mcols m1 =? mrows m2)%nat
  | MRepeat _ e _ => vwf e
  | MConcat rt m1 m2 =>
      mwf m1 && mwf m2 && (if rt then (mrows m1 =? mrows m2)%nat else (mcols m1 =? mcols m2)%nat)
  | MTri _ _ m => mwf m && (mrows m =? mcols m)%nat
  end.

(* ---------- finite sums / maxima over nat-indexed functions ---------- *)
Fixpoint sumn (n : nat) (f : nat -> Z) : Z :=
  match n with O => 0 | S k => sumn k f + f k end.

Fixpoint maxn (n : nat) (f : nat -> Z) : Z :=     (* only meaningful for n > 0 *)
  match n with
  | O => 0
  | S k => match k with O => f O | _ => Z.max (maxn k f) (f k) end
  end.

Fixpoint minn (n : nat) (f : nat -> Z) : Z :=
  match n with
  | O => 0
  | S k => match k with O => f O | _ => Z.min (minn k f) (f k) end
  end.

Definition foldk (k : fkind) (n : nat) (f : nat -> Z) : Z :=
  match k with KSum => sumn n f | KMax => maxn n f | KMin => minn n f end.

(* ---------- store ---------- *)
Record env := mkEnv { ev : nat -> nat -> Z;  em : nat -> nat -> nat -> Z }.

(* ---------- reductions ---------- *)
Inductive sexp :=
| RSum (e : vexp) | RMax (e : vexp) | RMin (e : vexp)
| RNorm1 (e : vexp) | RNormSqr (e : vexp) | RNormInf (e : vexp)
| RInner (e1 e2 : vexp)
| RTrace (m : mexp) | RMSum (m : mexp) | RMMax (m : mexp) | RMMin (m : mexp)
| RMNorm1 (m : mexp) | RMNormInf (m : mexp).

(* ---------- denotation: the documented element-wise meaning ---------- *)
Section Den.
Variable s : env.

Fixpoint vden (e : vexp) (i : nat) : Z :=
  match e with
  | VVar x _ => ev s x i
  | VRange e a _ => vden e (a + i)%nat
  | VRow m k => mden m k i
  | VCol m k => mden m i k
  | VDiag m => mden m i i
  | VConst _ c => c
  | VUnit _ idx c => if Z.of_nat i =? idx then c else 0
  | VScale c e => c * vden e i
  | VAdd e1 e2 => vden e1 i + vden e2 i
  | VMinus e1 e2 => vden e1 i - vden e2 i
  | VUn f e => uapp f (vden e i)
  | VBin g e1 e2 => bapp g (vden e1 i) (vden e2 i)
  | VMv alpha m e => alpha * sumn (mcols m) (fun k => mden m i k * vden e k)
  | VFold k g m => uapp g (foldk k (mcols m) (fun j => mden m i j))
  | VConcat e1 e2 => if (i <? vsize e1)%nat then vden e1 i else vden e2 (i - vsize e1)%nat
  end
with mden (m : mexp) (i j : nat) : Z :=
  match m with
  | MVar A _ _ => em s A i j
  | MTrans m => mden m j i
  | MRange m a _ c _ => mden m (a + i)%nat (c + j)%nat
  | MRows m a _ => mden m (a + i)%nat j
  | MCols m a _ => mden m i (a + j)%nat
  | MConst _ _ t => t
  | MDiagM e => if (i =? j)%nat then vden e i else 0
  | MScale c m => c * mden m i j
  | MAdd m1 m2 => mden m1 i j + mden m2 i j
  | MMinus m1 m2 => mden m1 i j - mden m2 i j
  | MUn f m => uapp f (mden m i j)
  | MBin g m1 m2 => bapp g (mden m1 i j) (mden m2 i j)
  | MOuter e1 e2 => vden e1 i * vden e2 j
  | MProd alpha m1 m2 => alpha * sumn (mcols m1) (fun k => mden m1 i k * mden m2 k j)
  | MRepeat cm e _ => if cm then vden e i else vden e j
  | MConcat rt m1 m2 =>
      if rt then (if (j <? mcols m1)%nat then mden m1 i j else mden m2 i (j - mcols m1)%nat)
      else (if (i <? mrows m1)%nat then mden m1 i j else mden m2 (i - mrows m1)%nat j)
  | MTri upper unit m =>
      if (i =? j)%nat then (if unit then 1 else mden m i j)
      else if (if upper then (i <? j)%nat else (j <? i)%nat) then mden m i j else 0
  end.

Definition seval (r : sexp) : Z :=
  match r with
  | RSum e => sumn (vsize e) (vden e)
  | RMax e => maxn (vsize e) (vden e)
  | RMin e => minn (vsize e) (vden e)
  | RNorm1 e => sumn (vsize e) (fun i => Z.abs (vden e i))
  | RNormSqr e => sumn (vsize e) (fun i => vden e i * vden e i)
  | RNormInf e => maxn (vsize e) (fun i => Z.abs (vden e i))
  | RInner e1 e2 => sumn (vsize e1) (fun i => vden e1 i * vden e2 i)
  | RTrace m => sumn (mrows m) (fun i => mden m i i)
  | RMSum m => sumn (mrows m) (fun i => sumn (mcols m) (fun j => mden m i j))
  | RMMax m => maxn (mrows m) (fun i => maxn (mcols m) (fun j => mden m i j))
  | RMMin m => minn (mrows m) (fun i => minn (mcols m) (fun j => mden m i j))
  | RMNorm1 m => maxn (mcols m) (fun j => sumn (mrows m) (fun i => Z.abs (mden m i j)))
  | RMNormInf m => maxn (mrows m) (fun i => sumn (mcols m) (fun j => Z.abs (mden m i j)))
  end.
End Den.

Definition swf (r : sexp) : bool :=
  match r with
  | RSum e | RNorm1 e | RNormSqr e => vwf e
  | RMax e | RMin e | RNormInf e => vwf e && (0 <? vsize e)%nat
  | RInner e1 e2 => vwf e1 && vwf e2 && (vsize e1 =? vsize e2)%nat
  | RTrace m => mwf m && (mrows m =? mcols m)%nat
  | RMSum m => mwf m
  | RMMax m | RMMin m | RMNorm1 m | RMNormInf m => mwf m && (0 <? mrows m)%nat && (0 <? mcols m)%nat
  end.

(* ---------- lvalues: containers and proxy chains over containers ---------- *)
Inductive addr := AV (x i : nat) | AM (A i j : nat).

Definition addr_eqb (a b : addr) : bool :=
  match a, b with
  | AV x i, AV y j => (x =? y)%nat && (i =? j)%nat
  | AM A i j, AM B k l => (A =? B)%nat && (i =? k)%nat && (j =? l)%nat
  | _, _ => false
  end.

Definition rd (s : env) (a : addr) : Z :=
  match a with AV x i => ev s x i | AM A i j => em s A i j end.

Definition wr (s : env) (a : addr) (v : Z) : env :=
  match a with
  | AV x i => mkEnv (fun y k => if (y =? x)%nat && (k =? i)%nat then v else ev s y k) (em s)
  | AM A i j => mkEnv (ev s) (fun B k l => if (B =? A)%nat && (k =? i)%nat && (l =? j)%nat then v else em s B k l)
  end.

Fixpoint vlval (e : vexp) : bool :=
  match e with
  | VVar _ _ => true
  | VRange e _ _ => vlval e
  | VRow m _ | VCol m _ | VDiag m => mlval m
  | _ => false
  end
with mlval (m : mexp) : bool :=
  match m with
  | MVar _ _ _ => true
  | MTrans m | MRange m _ _ _ _ | MRows m _ _ | MCols m _ _ => mlval m
  | _ => false
  end.

Definition dummy_addr := AV 0 0.

Fixpoint vaddr (e : vexp) (i : nat) : addr :=
  match e with
  | VVar x _ => AV x i
  | VRange e a _ => vaddr e (a + i)%nat
  | VRow m k => maddr m k i
  | VCol m k => maddr m i k
  | VDiag m => maddr m i i
  | _ => dummy_addr
  end
with maddr (m : mexp) (i j : nat) : addr :=
  match m with
  | MVar A _ _ => AM A i j
  | MTrans m => maddr m j i
  | MRange m a _ c _ => maddr m (a + i)%nat (c + j)%nat
  | MRows m a _ => maddr m (a + i)%nat j
  | MCols m a _ => maddr m i (a + j)%nat
  | _ => dummy_addr
  end.

(* does the container of address a occur in the expression?  (name-level read set) *)
Definition same_container (a : addr) (isvec : bool) (x : nat) : bool :=
  match a with AV y _ => isvec && (x =? y)%nat | AM B _ _ => negb isvec && (x =? B)%nat end.

Fixpoint vuses (a : addr) (e : vexp) : bool :=
  match e with
  | VVar x _ => same_container a true x
  | VRange e _ _ | VScale _ e | VUn _ e => vuses a e
  | VRow m _ | VCol m _ | VDiag m | VFold _ _ m => muses a m
  | VConst _ _ | VUnit _ _ _ => false
  | VAdd e1 e2 | VMinus e1 e2 | VBin _ e1 e2 | VConcat e1 e2 => vuses a e1 || vuses a e2
  | VMv _ m e => muses a m || vuses a e
  end
with muses (a : addr) (m : mexp) : bool :=
  match m with
  | MVar A _ _ => same_container a false A
  | MTrans m | MRange m _ _ _ _ | MRows m _ _ | MCols m _ _ | MScale _ m | MUn _ m | MTri _ _ m => muses a m
  | MConst _ _ _ => false
  | MDiagM e | MRepeat _ e _ => vuses a e
  | MAdd m1 m2 | MMinus m1 m2 | MBin _ m1 m2 | MProd _ m1 m2 | MConcat _ m1 m2 => muses a m1 || muses a m2
  | MOuter e1 e2 => vuses a e1 || vuses a e2
  end.

(* ---------- statements ---------- *)
Inductive aop := OpSet | OpAdd | OpSub | OpMul | OpDiv.

Definition combine_op (o : aop) (old new : Z) : Z :=
  match o with
  | OpSet => new | OpAdd => old + new | OpSub => old - new | OpMul => old * new
  | OpDiv => Z.quot old new          (* C++ integer division truncates; only generated for `long` *)
  end.

Inductive stmt :=
| SAssignV (noalias : bool) (o : aop) (t : vexp) (e : vexp)   (* [noalias(]t[)] o= e *)
| SAssignM (noalias : bool) (o : aop) (t : mexp) (e : mexp)
| SScalarV (o : aop) (t : vexp) (c : Z)                       (* t o= c   (o <> OpSet) *)
| SScalarM (o : aop) (t : mexp) (c : Z)
| SSetV (x i : nat) (c : Z)                                   (* x(i) = c *)
| SSetM (A i j : nat) (c : Z)
| SReduce (r : sexp).                                         (* value observed, store unchanged *)

(* generic cell-list assignment.  cells: the target's cells in iteration order; rhs: one value
   function per cell. *)
Definition write_all (s : env) (cv : list (addr * Z)) : env :=
  fold_left (fun s p => wr s (fst p) (snd p)) cv s.

(* plain forms: the right-hand side is evaluated completely in the PRE-state (the C++ builds
   `temporary(e)` first), then combined into the target cell by cell *)
Definition exec_plain (o : aop) (cells : list addr) (rhs : list (env -> Z)) (s : env) : env :=
  write_all s (map (fun p => (fst p, combine_op o (rd s (fst p)) (snd p s))) (combine cells rhs)).

(* noalias forms: no temporary; every cell is computed from the CURRENT store and written at once *)
Definition exec_inplace (o : aop) (cells : list addr) (rhs : list (env -> Z)) (s : env) : env :=
  fold_left (fun s p => wr s (fst p) (combine_op o (rd s (fst p)) (snd p s))) (combine cells rhs) s.

Definition vcells (t : vexp) : list addr := map (vaddr t) (seq 0 (vsize t)).
Definition vrhs (t : vexp) (e : vexp) : list (env -> Z) :=
  map (fun i s => vden s e i) (seq 0 (vsize t)).

Definition pairs (r c : nat) : list (nat * nat) := list_prod (seq 0 r) (seq 0 c).
Definition mcells (t : mexp) : list addr :=
  map (fun p => maddr t (fst p) (snd p)) (pairs (mrows t) (mcols t)).
Definition mrhs (t : mexp) (e : mexp) : list (env -> Z) :=
  map (fun p s => mden s e (fst p) (snd p)) (pairs (mrows t) (mcols t)).

Definition exec (s : env) (st : stmt) : env :=
  match st with
  | SAssignV na o t e => (if na then exec_inplace else exec_plain) o (vcells t) (vrhs t e) s
  | SAssignM na o t e => (if na then exec_inplace else exec_plain) o (mcells t) (mrhs t e) s
  | SScalarV o t c => exec_plain o (vcells t) (vrhs t (VConst (vsize t) c)) s
  | SScalarM o t c => exec_plain o (mcells t) (mrhs t (MConst (mrows t) (mcols t) c)) s
  | SSetV x i c => wr s (AV x i) c
  | SSetM A i j c => wr s (AM A i j) c
  | SReduce _ => s
  end.

Definition run (s : env) (p : list stmt) : env := fold_left exec p s.

(* static check of one statement: shapes agree, target is a proxy chain over a container, and for the
   noalias forms the target's container does not occur on the right-hand side *)
Definition stmt_ok (st : stmt) : bool :=
  match st with
  | SAssignV na o t e =>
      vlval t && vwf t && vwf e && (vsize e =? vsize t)%nat && (negb na || negb (vuses (vaddr t 0) e))
  | SAssignM na o t e =>
      mlval t && mwf t && mwf e && (mrows e =? mrows t)%nat && (mcols e =? mcols t)%nat
      && (negb na || negb (muses (maddr t 0 0) e))
  | SScalarV o t c => vlval t && vwf t
  | SScalarM o t c => mlval t && mwf t
  | SSetV _ _ _ | SSetM _ _ _ _ => true
  | SReduce r => swf r
  end.

Definition empty_env : env := mkEnv (fun _ _ => 0) (fun _ _ _ => 0).
