(* C16 — exact-arithmetic (Q) instantiation of the state model C16State.v, the big matrix Q of the dual problem
   as the solver forms it from m_M and the kernel matrix, the dual objective, and the invariants of the
   gradient / variable table / example table.  Definitions and small lemmas only. *)
From Coq Require Import QArith Qminmax Lqa Arith Bool List Lia.
From SharkV Require Import C08Model C08Defs C08Aux C08Proofs C16Model C16State C16Proofs C16ProofsMc.
Import ListNotations.
Open Scope Q_scope.

Notation qmst := (mst Q).

Section Defs.
Variable P ncl n : nat.                  (* m_cardP, m_classes, m_numExamples *)
Variable C : Q.
Variable Mrow : nat -> list (nat * Q).
Variable Mdef : nat -> Q.
Variable K0 : nat -> nat -> Q.

Definition nv : nat := P * n.

(* M(y_v, p_v, y_w, p_w) = m_M(classes * (|P| * y_v + p_v) + y_w, p_w) *)
Definition Mfour (yv pv yw pw : nat) : Q := Mq Mrow Mdef (ncl * (P * yv + pv) + yw) pw.

(* entry (v, w) of the big matrix, v the variable that moves (its row of m_M, its kernel row), w the one whose
   gradient is updated: exactly what updateSMO computes for Qvw and what gradientUpdate subtracts *)
Definition Qe (s : qmst) (v w : nat) : Q :=
  Mfour (ey s (vex s v)) (vp s v) (ey s (vex s w)) (vp s w) * K0 (eorig s (vex s v)) (eorig s (vex s w)).

(* sum_w Q(w,f) alpha_w *)
Definition Qalpha (s : qmst) (f : nat) : Q := sumn nv (fun w => Qe s w f * malpha s w).

(* the dual objective  lin.alpha - 1/2 alpha^T Q alpha *)
Definition mobj (s : qmst) : Q := objf nv (Qe s) (mlin s) (malpha s).

(* rows of m_M: filled in increasing column order (QpSparseArray::add), columns < |P| *)
Definition Mwf : Prop :=
  forall r, sorted_from Q 0 (Mrow r) /\ forall ix v, In (ix, v) (Mrow r) -> (ix < P)%nat.
(* symmetry of M as a matrix over (y,p) pairs and of the kernel matrix; non-negative diagonal *)
Definition Msym : Prop := forall yv pv yw pw, Mfour yv pv yw pw == Mfour yw pw yv pv.
Definition K0sym : Prop := forall a b, K0 a b == K0 b a.
Definition Qdiag_nonneg : Prop := (forall y p, 0 <= Mfour y p y p) /\ (forall a, 0 <= K0 a a).

(* ---------------- variable table / example table ---------------- *)
Record Inv_tab (s : qmst) : Prop := mk_inv_tab {
  it_av : (actvar s <= nv)%nat;
  it_ae : (actex s <= n)%nat;
  (* example e lists variable evar e p at class position p, and the variable says the same *)
  it_var : forall e p, (e < n)%nat -> (p < P)%nat ->
           (evar s e p < nv)%nat /\ vex s (evar s e p) = e /\ vp s (evar s e p) = p;
  (* variable v: its example lists it at position p and in slot index *)
  it_v : forall v, (v < nv)%nat ->
         (vex s v < n)%nat /\ (vp s v < P)%nat /\ (vidx s v < P)%nat /\
         evar s (vex s v) (vp s v) = v /\ eavar s (vex s v) (vidx s v) = v;
  it_avar : forall e b, (e < n)%nat -> (b < P)%nat ->
            (eavar s e b < nv)%nat /\ vex s (eavar s e b) = e /\ vidx s (eavar s e b) = b;
  (* the first `active` slots of avar are exactly the active variables of the example *)
  it_act : forall e b, (e < n)%nat -> (b < P)%nat -> ((b < eact s e)%nat <-> (eavar s e b < actvar s)%nat);
  it_actle : forall e, (e < n)%nat -> (eact s e <= P)%nat;
  (* an active variable belongs to an active example *)
  it_actex : forall v, (v < actvar s)%nat -> (vex s v < actex s)%nat;
  (* the example table is a permutation of the data set *)
  it_orig : forall e, (e < n)%nat -> (eorig s e < n)%nat;
  it_orig_inj : forall a b, (a < n)%nat -> (b < n)%nat -> eorig s a = eorig s b -> a = b
}.

(* per-variable / per-example data travel with the variable / example: position v holds the data of the
   variable (data-set example eorig (vex v), class position vp v) *)
Definition Inv_data (y0 : nat -> nat) (lin0 : nat -> nat -> Q) (s : qmst) : Prop :=
  (forall e, (e < n)%nat -> ey s e = y0 (eorig s e) /\ ediag s e == K0 (eorig s e) (eorig s e)) /\
  (forall v, (v < nv)%nat -> mlin s v == lin0 (eorig s (vex s v)) (vp s v) /\ vdiag s v == Qe s v v).

(* alpha / gradient / varsum as functions of the DATA SET index and the class position *)
Definition pos_of (s : qmst) (i : nat) : nat :=
  (fix go (m : nat) : nat := match m with O => O | S k => if (eorig s k =? i)%nat then k else go k end) n.
Definition oalpha (s : qmst) (i p : nat) : Q := malpha s (evar s (pos_of s i) p).
Definition ograd (s : qmst) (i p : nat) : Q := mgrad s (evar s (pos_of s i) p).
Definition ovsum (s : qmst) (i : nat) : Q := evsum s (pos_of s i).
Definition oactive (s : qmst) (i p : nat) : bool := (evar s (pos_of s i) p <? actvar s)%nat.

(* ---------------- gradient ---------------- *)
Definition Inv_grad (s : qmst) : Prop :=
  forall f, (f < actvar s)%nat -> mgrad s f == mlin s f - Qalpha s f.
Definition Inv_grad_all (s : qmst) : Prop :=
  forall f, (f < nv)%nat -> mgrad s f == mlin s f - Qalpha s f.

(* ---------------- constraints ---------------- *)
Definition Inv_boxc (s : qmst) : Prop := forall v, (v < nv)%nat -> 0 <= malpha s v /\ malpha s v <= C.
(* simplex class: the per-example invariant of C16ProofsMc (alpha >= 0, 0 <= varsum <= C, |sum - varsum| within
   the snapping slack) on the view through m_examples[e].var *)
Definition Inv_simplex (s : qmst) : Prop :=
  forall e, (e < n)%nat -> ExInv P C (valpha s (malpha s) e) (evsum s e).

(* Q instances of the operations *)
Definition box_smoQ := box_smo qops P ncl C Mrow Mdef K0.
Definition simplex_smoQ := simplex_smo qops qlowest qtiny P ncl C Mrow Mdef K0.
Definition grad_updateQ := grad_update qops ncl Mrow Mdef K0.
Definition unshrinkQ := unshrink qops P ncl n Mrow Mdef K0.
Definition box_shrinkQ := box_shrink qops P ncl n C Mrow Mdef K0.
Definition simplex_shrinkQ := simplex_shrink qops P ncl n C Mrow Mdef K0.
Definition add_delta_linearQ := add_delta_linear qops P n.
Definition init_stateQ := init_state qops P ncl n Mrow Mdef K0.
Definition mstepQ := mstep qops qlowest qtiny P ncl n C Mrow Mdef K0.
Definition mrunQ := mrun qops qlowest qtiny P ncl n C Mrow Mdef K0.

End Defs.
