(* C02 — the blocked Cholesky recursion of C02BlkModel.v (potrf_rec) computes what the unblocked left-looking kernel
   (potrf_lower of C02Model.v) computes: both satisfy the same column recurrence, which determines the factor. *)
From Coq Require Import List Arith Bool Lia Field.
From SharkV Require Import C02Model C02Proofs C02BlkModel C02LUProofs.
Import ListNotations.

Section CholBlk.
Variable A : Type.
Variable F : ops A.
Notation "0" := (fzero F) : F_scope.
Notation "1" := (fone F) : F_scope.
Infix "+" := (fadd F) : F_scope.
Infix "*" := (fmul F) : F_scope.
Infix "-" := (fsub F) : F_scope.
Infix "/" := (fdiv F) : F_scope.
Notation "- x" := (fopp F x) : F_scope.

Hypothesis Fth : field_theory (fzero F) (fone F) (fadd F) (fmul F) (fsub F) (fopp F) (fdiv F) (finv F) (@eq A).
Hypothesis feqb_spec : forall x y, feqb F x y = true <-> x = y.
Add Field FfieldCB : Fth.
Local Open Scope F_scope.

Notation vec := (vec A).
Notation mat := (mat A).
Notation sumr := (sumr A F).
Notation memo2_eq := (memo2_eq A F).
Notation sumr_ext := (sumr_ext A F).
Notation sumr_split := (sumr_split A F Fth).

(* the column recurrence on the window [s,e), columns s .. s+k-1:
   X = matrix before (its window already carries the updates of the columns before s), Y = matrix after *)
Definition chol_part (s e k : nat) (X Y : mat) : Prop :=
  (forall j, (s <= j < s + k)%nat ->
     fleb F (X j j - sumr s j (fun t => Y j t * Y j t)) 0 = false /\
     Y j j = fsqrt F (X j j - sumr s j (fun t => Y j t * Y j t))) /\
  (forall j i, (s <= j < s + k)%nat -> (j < i < e)%nat ->
     Y i j = (X i j - sumr s j (fun t => Y i t * Y j t)) / Y j j) /\
  (forall i c, ~ ((s <= c < s + k)%nat /\ (c <= i < e)%nat) -> Y i c = X i c).

(* ---------- the unblocked kernel on a window satisfies the recurrence ---------- *)
Lemma potrf_w_spec : forall n s e k (X Y : mat), (s + k <= e)%nat ->
  potrf_w A F n s e k X = POk A Y -> chol_part s e k X Y.
Proof.
  intros n s e k X. induction k; intros Y Hk H; cbn [potrf_w] in H.
  - inversion H; subst. unfold chol_part. repeat split; intros; try lia; reflexivity.
  - destruct (potrf_w A F n s e k X) as [Y0| |] eqn:E; try discriminate.
    specialize (IHk Y0 ltac:(lia) eq_refl). destruct IHk as [I1 [I2 I3]].
    set (j := (s + k)%nat) in *. unfold potrf_w_col in H.
    set (p := Y0 j j - sumr s j (fun t => Y0 j t * Y0 j t)) in *.
    destruct (fleb F p 0) eqn:Ep; [discriminate|].
    set (d := fsqrt F p) in *. inversion H; subst Y; clear H.
    match goal with |- chol_part _ _ _ _ (memo2 A F n ?f) => set (g := f) end.
    assert (G : forall i c, memo2 A F n g i c = g i c) by (intros; apply memo2_eq).
    set (Y := memo2 A F n g) in *. clearbody Y.
    assert (Ycol : forall i, (j < i < e)%nat -> Y i j = (Y0 i j - sumr s j (fun t => Y0 i t * Y0 j t)) / d).
    { intros i Hi. rewrite G. unfold g. bdall; try lia; reflexivity. }
    assert (Yjj : Y j j = d) by (rewrite G; unfold g; bdall; try lia; reflexivity).
    assert (Yoth : forall i c, (c <> j \/ i < j \/ e <= i)%nat -> Y i c = Y0 i c).
    { intros i c Hc. rewrite G. unfold g. bdall; try lia; reflexivity. }
    assert (Y0j : forall i, Y0 i j = X i j) by (intros; apply I3; unfold j; lia).
    clear G. clearbody g.
    unfold chol_part. replace (s + S k)%nat with (S j) by (unfold j; lia).
    split; [|split].
    + intros j' Hj'. destruct (Nat.eq_dec j' j) as [->|N].
      * assert (E1 : X j j - sumr s j (fun t => Y j t * Y j t) = p).
        { unfold p. rewrite Y0j. f_equal. apply sumr_ext. intros t Ht. rewrite (Yoth j t) by lia. reflexivity. }
        rewrite E1. split; [exact Ep|exact Yjj].
      * destruct (I1 j' ltac:(unfold j in *; lia)) as [P1 P2].
        assert (E1 : sumr s j' (fun t => Y j' t * Y j' t) = sumr s j' (fun t => Y0 j' t * Y0 j' t)).
        { apply sumr_ext. intros t Ht. rewrite (Yoth j' t) by lia. reflexivity. }
        rewrite E1. rewrite (Yoth j' j') by lia. split; assumption.
    + intros j' i Hj' Hi. destruct (Nat.eq_dec j' j) as [->|N].
      * rewrite Ycol by lia. rewrite Yjj. rewrite Y0j. f_equal. f_equal. apply sumr_ext. intros t Ht.
        rewrite (Yoth i t) by lia. rewrite (Yoth j t) by lia. reflexivity.
      * rewrite (Yoth i j') by lia. rewrite (Yoth j' j') by lia. rewrite (I2 j' i) by (unfold j in *; lia).
        f_equal. f_equal. apply sumr_ext. intros t Ht. rewrite (Yoth i t) by lia. rewrite (Yoth j' t) by lia. reflexivity.
    + intros i c Hic. destruct (Nat.eq_dec c j) as [->|N].
      * rewrite Yoth by lia. apply Y0j.
      * rewrite Yoth by lia. apply I3. unfold j in *; lia.
Qed.

(* ---------- the recurrence determines the run of the unblocked kernel ---------- *)
Lemma chol_part_run : forall n s e (X Y : mat) k, (s + k <= e)%nat -> chol_part s e (e - s) X Y ->
  exists Yk, potrf_w A F n s e k X = POk A Yk /\
    forall i c, Yk i c = if Nat.leb s c && Nat.ltb c (s + k) && Nat.leb c i && Nat.ltb i e then Y i c else X i c.
Proof.
  intros n s e X Y k Hk [C1 [C2 C3]]. induction k.
  - exists X. split; [reflexivity|]. intros i c. bdall; try lia; reflexivity.
  - destruct (IHk ltac:(lia)) as [Yk [E Ag]]. clear IHk.
    cbn [potrf_w]. rewrite E. set (j := (s + k)%nat) in *. unfold potrf_w_col.
    assert (Ylow : forall i t, (s <= t < j)%nat -> (t <= i < e)%nat -> Yk i t = Y i t).
    { intros i t Ht Hi. rewrite Ag. bdall; try lia; reflexivity. }
    assert (Ycj : forall i, Yk i j = X i j).
    { intros i. rewrite Ag. bdall; try lia; reflexivity. }
    destruct (C1 j ltac:(unfold j; lia)) as [P1 P2].
    assert (Ep : Yk j j - sumr s j (fun t => Yk j t * Yk j t) = X j j - sumr s j (fun t => Y j t * Y j t)).
    { rewrite Ycj. f_equal. apply sumr_ext. intros t Ht. rewrite Ylow by (unfold j in *; lia). reflexivity. }
    rewrite Ep. rewrite P1. eexists. split; [reflexivity|].
    intros i c. rewrite memo2_eq. rewrite <- P2.
    destruct (Nat.eq_dec c j) as [->|N].
    + destruct (Nat.le_gt_cases j i) as [Hji|Hji]; [destruct (Nat.lt_ge_cases i e) as [Hie|Hie]|].
      * destruct (Nat.eq_dec i j) as [->|Ni].
        -- bdall; try lia; reflexivity.
        -- replace (Nat.eqb j j && Nat.leb j i && Nat.ltb i e) with true by (bdall; try lia; reflexivity).
           replace (Nat.eqb i j) with false by (bdall; try lia; reflexivity).
           replace (Nat.leb s j && Nat.ltb j (s + S k) && Nat.leb j i && Nat.ltb i e) with true by (unfold j; bdall; try lia; reflexivity).
           rewrite (C2 j i) by (unfold j in *; lia). rewrite Ycj. f_equal. f_equal. apply sumr_ext. intros t Ht.
           rewrite !Ylow by (unfold j in *; lia). reflexivity.
      * replace (Nat.eqb j j && Nat.leb j i && Nat.ltb i e) with false by (bdall; try lia; reflexivity).
        replace (Nat.leb s j && Nat.ltb j (s + S k) && Nat.leb j i && Nat.ltb i e) with false by (bdall; try lia; reflexivity).
        apply Ycj.
      * replace (Nat.eqb j j && Nat.leb j i && Nat.ltb i e) with false by (bdall; try lia; reflexivity).
        replace (Nat.leb s j && Nat.ltb j (s + S k) && Nat.leb j i && Nat.ltb i e) with false by (bdall; try lia; reflexivity).
        apply Ycj.
    + replace (Nat.eqb c j && Nat.leb j i && Nat.ltb i e) with false by (bdall; try lia; reflexivity).
      rewrite Ag. unfold j in *. bdall; try lia; reflexivity.
Qed.

Lemma chol_part_unblocked : forall n s e (X Y : mat), (s <= e)%nat -> chol_part s e (e - s) X Y ->
  exists Y', potrf_w A F n s e (e - s) X = POk A Y' /\ forall i c, Y' i c = Y i c.
Proof.
  intros n s e X Y He C. destruct (chol_part_run n s e X Y (e - s) ltac:(lia) C) as [Yk [E Ag]].
  exists Yk. split; [exact E|]. intros i c. rewrite Ag. destruct C as [_ [_ C3]].
  destruct (Nat.leb s c && Nat.ltb c (s + (e - s)) && Nat.leb c i && Nat.ltb i e) eqn:B; [reflexivity|].
  symmetry. apply C3. intros [H1 H2]. revert B. bdall; try lia; discriminate.
Qed.

(* ---------- trsm reports a zero diagonal, so a successful run had none ---------- *)
Lemma trsv_rec_lower_diag : forall bs fuel (T : mat) n s len b x, (0 < bs)%nat ->
  trsv_rec A F bs fuel false false T n s len b = Some x -> forall i, (s <= i < s + len)%nat -> T i i <> 0.
Proof.
  intros bs fuel T n. induction fuel; intros s len b x Hb H; cbn [trsv_rec] in H.
  - destruct (Nat.leb len bs); [|discriminate].
    apply (fwd_row_inv A F Fth feqb_spec) in H. destruct H as [_ [_ H]]. apply H. reflexivity.
  - destruct (Nat.leb len bs).
    { apply (fwd_row_inv A F Fth feqb_spec) in H. destruct H as [_ [_ H]]. apply H. reflexivity. }
    pose proof (split_le bs len Hb) as Hsp.
    set (split := ((len + bs - 1) / bs / 2 * bs)%nat) in *. clearbody split.
    destruct (trsv_rec A F bs fuel false false T n s split b) as [x1|] eqn:E1; [|discriminate].
    intros i Hi. destruct (Nat.lt_ge_cases i (s + split)).
    + eapply IHfuel; [exact Hb|exact E1|lia].
    + eapply IHfuel; [exact Hb|exact H|lia].
Qed.

(* ---------- the blocked recursion satisfies the recurrence ---------- *)
Lemma potrf_rec_spec : forall bs tbs fuel n s len (X Y : mat), (0 < bs)%nat -> (0 < tbs)%nat ->
  potrf_rec A F bs tbs fuel n s len X = BOk A Y -> chol_part s (s + len) len X Y.
Proof.
  intros bs tbs fuel n. induction fuel; intros s len X Y Hb Htb H; cbn [potrf_rec] in H.
  - destruct (Nat.leb len bs); [|discriminate].
    destruct (potrf_w A F n s (s + len) len X) as [L| |] eqn:E; try discriminate. inversion H; subst.
    eapply potrf_w_spec; [|exact E]; lia.
  - destruct (Nat.leb len bs).
    { destruct (potrf_w A F n s (s + len) len X) as [L| |] eqn:E; try discriminate. inversion H; subst.
      eapply potrf_w_spec; [|exact E]; lia. }
    pose proof (split_le bs len Hb) as Hsp.
    set (split := ((len + bs - 1) / bs / 2 * bs)%nat) in *. clearbody split.
    set (m := (s + split)%nat) in *. set (e := (s + len)%nat) in *.
    destruct (potrf_rec A F bs tbs fuel n s split X) as [L1| |] eqn:E1; try discriminate.
    apply IHfuel in E1; [|exact Hb|exact Htb]. fold m in E1. destruct E1 as [A1 [A2 A3]].
    match type of H with match map_opt ?f ?l with _ => _ end = _ => destruct (map_opt f l) as [Xs|] eqn:EX; [|discriminate] end.
    apply (map_opt_nth _ _ _ _ _ O (fun _ => 0)) in EX. destruct EX as [_ EX]. rewrite seq_length in EX.
    assert (HX : forall i, (m <= i < e)%nat ->
              win_lower A F false L1 s split (fun j => L1 i j) (nth (i - m) Xs (fun _ => 0)) /\
              forall j, (s <= j < m)%nat -> L1 j j <> 0).
    { intros i Hi. specialize (EX (i - m)%nat ltac:(lia)). rewrite seq_nth in EX by lia.
      replace (m + (i - m))%nat with i in EX by lia. split.
      - eapply (trsv_rec_lower A F Fth feqb_spec); [exact Htb|exact EX].
      - intros j Hj. eapply trsv_rec_lower_diag; [exact Htb|exact EX|unfold m in *; lia]. }
    clear EX.
    match type of H with potrf_rec A F bs tbs fuel n m (len - split) (memo2 A F n ?f3) = _ => set (g3 := f3) in * end.
    match (eval unfold g3 in g3) with context [memo2 A F n ?f2] => set (g2 := f2) in * end.
    assert (G2 : forall i c, memo2 A F n g2 i c = g2 i c) by (intros; apply memo2_eq).
    set (L2 := memo2 A F n g2) in *. clearbody L2.
    assert (G3 : forall i c, memo2 A F n g3 i c = g3 i c) by (intros; apply memo2_eq).
    set (L3 := memo2 A F n g3) in *. clearbody L3.
    apply IHfuel in H; [|exact Hb|exact Htb].
    replace (m + (len - split))%nat with e in H by (unfold m, e; lia).
    destruct H as [B1 [B2 B3]].
    assert (L2a : forall i c, (m <= i < e)%nat -> (s <= c < m)%nat -> L2 i c = nth (i - m) Xs (fun _ => 0) c).
    { intros i c Hi Hc. rewrite G2. unfold g2. bdall; try lia; reflexivity. }
    assert (L2b : forall i c, ~ ((m <= i < e)%nat /\ (s <= c < m)%nat) -> L2 i c = L1 i c).
    { intros i c Hc. rewrite G2. unfold g2. bdall; try lia; reflexivity. }
    assert (L3a : forall i c, (m <= c)%nat -> (c <= i < e)%nat -> L3 i c = L2 i c + - (1) * sumr s m (fun t => L2 i t * L2 c t)).
    { intros i c Hc Hi. rewrite G3. unfold g3. bdall; try lia; reflexivity. }
    assert (L3b : forall i c, ~ ((m <= c)%nat /\ (c <= i < e)%nat) -> L3 i c = L2 i c).
    { intros i c Hc. rewrite G3. unfold g3. bdall; try lia; reflexivity. }
    clear G2 G3. clearbody g2 g3.
    (* blocks of the result *)
    assert (K1 : forall i c, (c < m)%nat -> Y i c = L2 i c).
    { intros i c Hc. rewrite B3 by lia. apply L3b. lia. }
    assert (K11 : forall i c, (c < m)%nat -> ~ (m <= i < e)%nat -> Y i c = L1 i c).
    { intros i c Hc Hi. rewrite K1 by lia. apply L2b. lia. }
    assert (K21 : forall i c, (m <= i < e)%nat -> (s <= c < m)%nat -> Y i c = nth (i - m) Xs (fun _ => 0) c).
    { intros i c Hi Hc. rewrite K1 by lia. apply L2a; lia. }
    assert (X21 : forall i j, (m <= i < e)%nat -> (s <= j < m)%nat ->
              Y i j = (X i j - sumr s j (fun t => Y i t * Y j t)) / Y j j).
    { intros i j Hi Hj. destruct (HX i Hi) as [[W _] D]. specialize (W j ltac:(unfold m in *; lia)). cbn beta in W.
      unfold dg in W. specialize (D j Hj).
      rewrite (A3 i j) in W by lia.
      rewrite (K11 j j) by lia. rewrite (K21 i j) by lia.
      assert (E : sumr s j (fun t => Y i t * Y j t) = sumr s j (fun t => L1 j t * nth (i - m) Xs (fun _ => 0) t)).
      { apply sumr_ext. intros t Ht. rewrite (K21 i t) by lia. rewrite (K11 j t) by lia. ring. }
      rewrite E. rewrite <- W. field. exact D. }
    assert (Upd : forall i c, (m <= c)%nat -> (c <= i < e)%nat ->
              L3 i c = X i c + - (1) * sumr s m (fun t => Y i t * Y c t)).
    { intros i c Hc Hi. rewrite L3a by lia. rewrite (L2b i c) by lia. rewrite (A3 i c) by lia.
      f_equal. f_equal. apply sumr_ext. intros t Ht. rewrite (K1 i t) by lia. rewrite (K1 c t) by lia. reflexivity. }
    unfold chol_part. fold e.
    split; [|split].
    + intros j Hj. destruct (Nat.lt_ge_cases j m) as [Hjm|Hjm].
      * destruct (A1 j ltac:(unfold m in *; lia)) as [P1 P2].
        assert (E : sumr s j (fun t => Y j t * Y j t) = sumr s j (fun t => L1 j t * L1 j t)).
        { apply sumr_ext. intros t Ht. rewrite (K11 j t) by lia. reflexivity. }
        rewrite E. rewrite (K11 j j) by lia. split; assumption.
      * destruct (B1 j ltac:(unfold m, e in *; lia)) as [P1 P2].
        assert (E : X j j - sumr s j (fun t => Y j t * Y j t) = L3 j j - sumr m j (fun t => Y j t * Y j t)).
        { rewrite Upd by lia. rewrite (sumr_split s m j) by (unfold m; lia). ring. }
        rewrite E. split; assumption.
    + intros j i Hj Hi. destruct (Nat.lt_ge_cases j m) as [Hjm|Hjm].
      * destruct (Nat.lt_ge_cases i m) as [Him|Him]; [|apply X21; lia].
        rewrite (K11 i j) by lia. rewrite (K11 j j) by lia. rewrite (A2 j i) by (unfold m in *; lia).
        f_equal. f_equal. apply sumr_ext. intros t Ht. rewrite (K11 i t) by lia. rewrite (K11 j t) by lia. reflexivity.
      * rewrite (B2 j i) by (unfold m, e in *; lia). rewrite Upd by lia.
        f_equal. rewrite (sumr_split s m j) by (unfold m; lia). ring.
    + intros i c Hic.
      destruct (Nat.lt_ge_cases c m) as [Hcm|Hcm].
      * rewrite K1 by lia. rewrite L2b by (unfold m, e in *; lia). apply A3. unfold m, e in *; lia.
      * rewrite B3 by (unfold m, e in *; lia). rewrite L3b by (unfold m, e in *; lia).
        rewrite L2b by lia. apply A3. lia.
Qed.

(* ---------- blocked = unblocked ---------- *)
Lemma potrf_w_full : forall n k (M : mat), potrf_w A F n 0 n k M = potrf_lower A F n k M.
Proof. intros n k M. induction k; cbn [potrf_w potrf_lower Nat.add]; [reflexivity|]. rewrite IHk. reflexivity. Qed.

Theorem potrf_rec_unblocked : forall bs tbs fuel n (M L : mat), (0 < bs)%nat -> (0 < tbs)%nat ->
  potrf_rec A F bs tbs fuel n 0 n M = BOk A L ->
  exists L', potrf_lower A F n n M = POk A L' /\ forall i c, L' i c = L i c.
Proof.
  intros bs tbs fuel n M L Hb Htb H. apply potrf_rec_spec in H; [|exact Hb|exact Htb]. cbn [Nat.add] in H.
  destruct (chol_part_unblocked n 0 n M L ltac:(lia)) as [L' [E Ag]].
  { rewrite Nat.sub_0_r. exact H. }
  rewrite Nat.sub_0_r in E. rewrite potrf_w_full in E. exists L'. split; assumption.
Qed.

(* hence L L^T = A (lower triangle), non-zero diagonal, upper triangle untouched *)
Hypothesis fleb_00 : fleb F 0 0 = true.
Theorem potrf_rec_correct : forall bs tbs fuel n (M L : mat), (0 < bs)%nat -> (0 < tbs)%nat ->
  sqrt_exact_lower A F n n M -> potrf_rec A F bs tbs fuel n 0 n M = BOk A L ->
  (forall i c, (c <= i < n)%nat -> sumr 0 (S c) (fun t => L i t * L c t) = M i c) /\
  (forall c, (c < n)%nat -> L c c <> 0) /\
  (forall i c, (i < c)%nat -> L i c = M i c).
Proof.
  intros bs tbs fuel n M L Hb Htb Hsq H.
  destruct (potrf_rec_unblocked bs tbs fuel n M L Hb Htb H) as [L' [E Ag]].
  destruct (potrf_lower_correct A F Fth fleb_00 n M L' Hsq E) as [C1 [C2 C3]].
  split; [|split].
  - intros i c Hic. rewrite <- (C1 i c Hic). apply sumr_ext. intros t Ht. rewrite !Ag. reflexivity.
  - intros c Hc. rewrite <- Ag. apply C2. exact Hc.
  - intros i c Hic. rewrite <- Ag. apply C3. exact Hic.
Qed.

End CholBlk.
