(* C01, stage C — the rewrite table of /repo/include/shark/LinAlg/BLAS/detail/expression_optimizers.hpp
   as Gallina functions from the AST of C01Model.v to itself.  Definitions only; soundness proofs are
   in C01OptProofs.v.

   One match arm per C++ specialisation.  Every arm is preceded by a marker
        ( * ARM <optimizer> <pattern> * )
   where <pattern> is the template-argument list of the C++ partial specialisation with all white space
   removed and every template parameter of the specialisation replaced by `_`
   (e.g. `vector_repeater<V, row_major>` -> `vector_repeater<_,row_major>`, `M,vector_scalar_multiply<V>`
   -> `_,vector_scalar_multiply<_>`); a primary template that has a body gets the pattern `default`.
   tools/c01_rules.py scrapes the header with the same canonicalisation and compares the two sets.  It also translates
   the BODY of every specialisation (typedefs + create) and runs it next to the functions of this file (extracted,
   fx = true) on instances of every rule: the two must build the same term, so an arm must mirror its C++ body
   literally (index expressions, repetition counts, orientation of the result, argument order).
   Within one function the arms are in source order, except that (Coq matches are first-match) the
   primary template (`default`) is the last arm and, in opt_mvprod/opt_mmprod, the most specialised
   pattern <matrix_scalar_multiply,*_scalar_multiply> comes before the two it refines.

   Parameters of the whole table (Section variables):
   * `fx : bool`.  Several specialisations are WRONG in the C++ (markers DEFECT-IN-CXX below; confirmed with
     compiled probes where the rule compiles):  the rules that take a product apart
     (vector_range<matrix_vector_prod>, matrix_transpose/row/range/rows<matrix_matrix_prod>) rebuild it with
     alpha = 1 and so DROP the alpha of the product (subrange(2*prod(A,x),0,2) == subrange(prod(A,x),0,2));
     matrix_rows<vector_repeater<V,column_major>> builds a row_major repeater (the transposed matrix);
     matrix_range<diagonal_matrix> is only right for a==c, b==d (guarded by a debug-only REMORA_RANGE_CHECK);
     vector_range<matrix_row_transform> cuts columns instead of rows (and does not compile).
     fx = false: the table exactly as coded.  fx = true: the repaired rule (alpha re-applied through the
     scalar-multiply optimizer, orientation kept, guarded range, rows instead of columns).  Soundness is
     proved for fx = true; for fx = false C01OptProofs.v contains concrete counterexamples.
   * `s : env`.  Some rules evaluate an element / inner product eagerly when the expression is built
     (`m.expression()(i)`, `inner_prod(m.rhs(),v)`) and store the VALUE in a scalar_vector / unit_vector /
     vector_scalar_multiply.  The AST has only literal scalars, so the table takes the store in which the
     expression is built and puts the value there (`VConst k (vden s e i)`).

   Default (unspecialised) case of the six proxy optimizers (containers, dense proxies; cpu/dense.hpp,
   proxy_expressions.hpp): the proxy is just formed = the surface constructor is kept.  VMinus/MMinus are
   surface-only constructors (the C++ builds e1 + (-1)*e2), they fall into the default case as well.
   Fuel: the C++ recursion is template instantiation; when the fuel runs out the un-optimised surface
   constructor is returned.

   BROKEN-IN-CXX marks specialisations that do not compile when instantiated; they are modelled as documented.
   Not expressible / not modelled: solve/inverse optimizers (solve.hpp).
   Ambiguity: matrix_vector_prod_optimizer<X, vector_scalar_multiply<V>> for X in {matrix_matrix_prod,
   matrix_addition, outer_product, vector_repeater, diagonal_matrix} matched two partial specialisations
   neither of which is more specialised; six specialisations were added to the C++ that resolve it in favour of
   <M,vector_scalar_multiply<V>>, as the model always did.
   STATUS after the `fix:` commits of /repo recorded in /verif/known_findings.json (property C01): every
   DEFECT-IN-CXX / BROKEN-IN-CXX marker below describes the code BEFORE the repair, the repaired code is the
   fx = true table, with ONE exception that is still as coded: matrix_range_optimizer<diagonal_matrix>
   (known finding C01-RANGEDIAG). *)
From Coq Require Import ZArith List Bool Arith Lia.
From SharkV Require Import C01Model.
Open Scope Z_scope.

(* values computed eagerly by some create() bodies *)
Definition inner_at (s : env) (e1 e2 : vexp) : Z :=      (* inner_prod(e1,e2) *)
  sumn (vsize e1) (fun k => vden s e1 k * vden s e2 k).
Definition sum_at (s : env) (e : vexp) : Z :=            (* sum(e) *)
  sumn (vsize e) (vden s e).

Section Opt.
Variable fx : bool.
Variable s : env.

(* ---------------- Matrix Unary ---------------- *)
Definition opt_munary (m : mexp) (g : ufun) : mexp :=
  match m with
  (* ARM matrix_unary_optimizer matrix_unary<_,_>,_ *)
  | MUn g1 m1 => MUn (FCompose g1 g) m1
  (* ARM matrix_unary_optimizer matrix_binary<_,_,_>,_ *)
  | MBin g1 m1 m2 => MBin (BCompose g1 g) m1 m2
  (* ARM matrix_unary_optimizer default *)
  | _ => MUn g m
  end.

(* ---------------- Vector Unary ---------------- *)
Definition opt_vunary (e : vexp) (g : ufun) : vexp :=
  match e with
  (* ARM vector_unary_optimizer vector_unary<_,_>,_ *)
  | VUn g1 e1 => VUn (FCompose g1 g) e1
  (* ARM vector_unary_optimizer vector_binary<_,_,_>,_ *)
  | VBin g1 e1 e2 => VBin (BCompose g1 g) e1 e2
  (* ARM vector_unary_optimizer matrix_row_transform<_,_,_>,_ *)
  | VFold k g1 m => VFold k (FCompose g1 g) m
  (* ARM vector_unary_optimizer default *)
  | _ => VUn g e
  end.

Fixpoint opt_vrange (fuel : nat) (e : vexp) (a b : nat) {struct fuel} : vexp :=
  match fuel with
  | O => VRange e a b
  | S f =>
    match e with
    (* ARM vector_range_optimizer matrix_vector_prod<_,_> *)
    (* DEFECT-IN-CXX: m.alpha() is dropped (the product is rebuilt by matrix_vector_prod_optimizer with alpha 1) *)
    | VMv alpha m v =>
        let r := opt_mvprod f (opt_mrange f m a b 0 (mcols m)) v in
        if fx then opt_vscale f alpha r else r
    (* ARM vector_range_optimizer matrix_row_transform<_,_,_> *)
    (* BROKEN-IN-CXX: calls m.expression(), the member is matrix() *)
    (* DEFECT-IN-CXX: code and comment cut COLUMNS start..end of the matrix; the elements of the fold are indexed by rows *)
    | VFold k g m =>
        if fx then VFold k g (opt_mrows f m a b)      (* repaired C++: matrix_rows_optimizer::create(m.matrix(), start, end) *)
        else VFold k g (opt_mrange f m 0 (mrows m) a b)
    (* ARM vector_range_optimizer vector_scalar_multiply<_> *)
    | VScale c e1 => VScale c (opt_vrange f e1 a b)
    (* ARM vector_range_optimizer scalar_vector<_,_> *)
    | VConst _ c => VConst (b - a) c
    (* ARM vector_range_optimizer unit_vector<_,_> *)
    (* as repaired (finding optimizer:subrange(unit_vector):index-before-start): a nonzero outside [start,end) is mapped to
       index == size, i.e. the range has no nonzero element; before the repair the index was index() - start in size_t *)
    | VUnit _ idx c =>
        VUnit (b - a) (if (Z.of_nat a <=? idx) && (idx <? Z.of_nat b) then idx - Z.of_nat a else Z.of_nat (b - a)) c
    (* ARM vector_range_optimizer vector_unary<_,_> *)
    | VUn g e1 => VUn g (opt_vrange f e1 a b)
    (* ARM vector_range_optimizer vector_addition<_,_> *)
    | VAdd e1 e2 => VAdd (opt_vrange f e1 a b) (opt_vrange f e2 a b)
    (* ARM vector_range_optimizer vector_binary<_,_,_> *)
    | VBin g e1 e2 => VBin g (opt_vrange f e1 a b) (opt_vrange f e2 a b)
    (* default: proxy_expressions.hpp / cpu/dense.hpp *)
    | _ => VRange e a b
    end
  end

with opt_mtrans (fuel : nat) (m : mexp) {struct fuel} : mexp :=
  match fuel with
  | O => MTrans m
  | S f =>
    match m with
    (* ARM matrix_transpose_optimizer matrix_scalar_multiply<_> *)
    | MScale c m1 => MScale c (opt_mtrans f m1)
    (* ARM matrix_transpose_optimizer matrix_addition<_,_> *)
    | MAdd m1 m2 => MAdd (opt_mtrans f m1) (opt_mtrans f m2)
    (* ARM matrix_transpose_optimizer vector_repeater<_,_> *)
    | MRepeat cm e k => MRepeat (negb cm) e k
    (* ARM matrix_transpose_optimizer scalar_matrix<_,_,_> *)
    | MConst r c t => MConst c r t
    (* ARM matrix_transpose_optimizer matrix_unary<_,_> *)
    | MUn g m1 => MUn g (opt_mtrans f m1)
    (* ARM matrix_transpose_optimizer matrix_binary<_,_,_> *)
    | MBin g m1 m2 => MBin g (opt_mtrans f m1) (opt_mtrans f m2)
    (* ARM matrix_transpose_optimizer outer_product<_,_> *)
    | MOuter e1 e2 => MOuter e2 e1
    (* ARM matrix_transpose_optimizer matrix_matrix_prod<_,_> *)
    (* DEFECT-IN-CXX: m.alpha() is dropped *)
    | MProd alpha m1 m2 =>
        let r := opt_mmprod f (opt_mtrans f m2) (opt_mtrans f m1) in
        if fx then opt_mscale f alpha r else r
    (* ARM matrix_transpose_optimizer diagonal_matrix<_> *)
    | MDiagM e => MDiagM e
    (* ARM matrix_transpose_optimizer matrix_concat<_,_,_> *)
    | MConcat rt m1 m2 => MConcat (negb rt) (opt_mtrans f m1) (opt_mtrans f m2)
    (* default *)
    | _ => MTrans m
    end
  end

with opt_mrow (fuel : nat) (m : mexp) (i : nat) {struct fuel} : vexp :=
  match fuel with
  | O => VRow m i
  | S f =>
    match m with
    (* ARM matrix_row_optimizer matrix_scalar_multiply<_> *)
    | MScale c m1 => VScale c (opt_mrow f m1 i)
    (* ARM matrix_row_optimizer matrix_addition<_,_> *)
    | MAdd m1 m2 => VAdd (opt_mrow f m1 i) (opt_mrow f m2 i)
    (* ARM matrix_row_optimizer scalar_matrix<_,_,_> *)
    | MConst _ c t => VConst c t
    (* ARM matrix_row_optimizer vector_repeater<_,row_major> *)
    | MRepeat false e _ => e
    (* ARM matrix_row_optimizer vector_repeater<_,column_major> *)
    (* eager: scalar_vector(num_repetitions, m.expression()(i)) *)
    | MRepeat true e k => VConst k (vden s e i)
    (* ARM matrix_row_optimizer matrix_unary<_,_> *)
    | MUn g m1 => VUn g (opt_mrow f m1 i)
    (* ARM matrix_row_optimizer matrix_binary<_,_,_> *)
    | MBin g m1 m2 => VBin g (opt_mrow f m1 i) (opt_mrow f m2 i)
    (* ARM matrix_row_optimizer outer_product<_,_> *)
    (* eager: vector_scalar_multiply(m.rhs(), m.lhs()(i)) *)
    | MOuter e1 e2 => VScale (vden s e1 i) e2
    (* ARM matrix_row_optimizer matrix_matrix_prod<_,_> *)
    (* DEFECT-IN-CXX: m.alpha() is dropped *)
    | MProd alpha m1 m2 =>
        let r := opt_mvprod f (opt_mtrans f m2) (opt_mrow f m1 i) in
        if fx then opt_vscale f alpha r else r
    (* ARM matrix_row_optimizer diagonal_matrix<_> *)
    (* eager: unit_vector(m.size2(), i, m.expression()(i)) *)
    | MDiagM e => VUnit (vsize e) (Z.of_nat i) (vden s e i)
    (* default *)
    | _ => VRow m i
    end
  end

with opt_mdiag (fuel : nat) (m : mexp) {struct fuel} : vexp :=
  match fuel with
  | O => VDiag m
  | S f =>
    match m with
    (* ARM matrix_diagonal_optimizer matrix_scalar_multiply<_> *)
    | MScale c m1 => VScale c (opt_mdiag f m1)
    (* ARM matrix_diagonal_optimizer matrix_addition<_,_> *)
    | MAdd m1 m2 => VAdd (opt_mdiag f m1) (opt_mdiag f m2)
    (* ARM matrix_diagonal_optimizer scalar_matrix<_,_,_> *)
    (* BROKEN-IN-CXX: m().size() - scalar_matrix has no nullary operator(); documented: constant vector *)
    | MConst r c t => VConst (Nat.min r c) t
    (* ARM matrix_diagonal_optimizer vector_repeater<_,_> *)
    | MRepeat cm e k => opt_vrange f e 0 (Nat.min (mrows (MRepeat cm e k)) (mcols (MRepeat cm e k)))
    (* ARM matrix_diagonal_optimizer matrix_unary<_,_> *)
    | MUn g m1 => VUn g (opt_mdiag f m1)
    (* ARM matrix_diagonal_optimizer matrix_binary<_,_,_> *)
    | MBin g m1 m2 => VBin g (opt_mdiag f m1) (opt_mdiag f m2)
    (* ARM matrix_diagonal_optimizer outer_product<_,_> *)
    | MOuter e1 e2 =>
        let sz := Nat.min (vsize e1) (vsize e2) in
        VBin BMul (opt_vrange f e1 0 sz) (opt_vrange f e2 0 sz)
    (* ARM matrix_diagonal_optimizer diagonal_matrix<_> *)
    | MDiagM e => e
    (* default *)
    | _ => VDiag m
    end
  end

with opt_mrange (fuel : nat) (m : mexp) (a b c d : nat) {struct fuel} : mexp :=
  match fuel with
  | O => MRange m a b c d
  | S f =>
    match m with
    (* ARM matrix_range_optimizer matrix_scalar_multiply<_> *)
    | MScale t m1 => MScale t (opt_mrange f m1 a b c d)
    (* ARM matrix_range_optimizer matrix_addition<_,_> *)
    | MAdd m1 m2 => MAdd (opt_mrange f m1 a b c d) (opt_mrange f m2 a b c d)
    (* ARM matrix_range_optimizer scalar_matrix<_,_,_> *)
    | MConst _ _ t => MConst (b - a) (d - c) t
    (* ARM matrix_range_optimizer vector_repeater<_,_> *)
    (* Orientation::index_m / index_M (detail/structure.hpp): row_major index_M(i,j)=i, index_m(i,j)=j;
       column_major index_M(i,j)=j, index_m(i,j)=i *)
    | MRepeat cm e _ =>
        if cm then MRepeat true (opt_vrange f e a b) (d - c)
        else MRepeat false (opt_vrange f e c d) (b - a)
    (* ARM matrix_range_optimizer matrix_unary<_,_> *)
    | MUn g m1 => MUn g (opt_mrange f m1 a b c d)
    (* ARM matrix_range_optimizer matrix_binary<_,_,_> *)
    | MBin g m1 m2 => MBin g (opt_mrange f m1 a b c d) (opt_mrange f m2 a b c d)
    (* ARM matrix_range_optimizer outer_product<_,_> *)
    | MOuter e1 e2 => MOuter (opt_vrange f e1 a b) (opt_vrange f e2 c d)
    (* ARM matrix_range_optimizer matrix_matrix_prod<_,_> *)
    (* DEFECT-IN-CXX: m.alpha() is dropped *)
    | MProd alpha m1 m2 =>
        let r := opt_mmprod f (opt_mrange f m1 a b 0 (mcols m1)) (opt_mrange f m2 0 (mrows m2) c d) in
        if fx then opt_mscale f alpha r else r
    (* ARM matrix_range_optimizer diagonal_matrix<_> *)
    (* DEFECT-IN-CXX: only meaningful for a = c, b = d; the two REMORA_RANGE_CHECKs vanish under NDEBUG and the
       rule then returns a (min b d - max a c)-square diagonal matrix (observed: 1x1 for subrange(D,0,2,1,3)).
       fx: the rule is applied only when its precondition holds *)
    | MDiagM e =>
        let r := MDiagM (opt_vrange f e (Nat.max a c) (Nat.min b d)) in
        if fx then (if (a =? c)%nat && (b =? d)%nat then r else MRange m a b c d) else r
    (* default *)
    | _ => MRange m a b c d
    end
  end

with opt_mrows (fuel : nat) (m : mexp) (a b : nat) {struct fuel} : mexp :=
  match fuel with
  | O => MRows m a b
  | S f =>
    match m with
    (* ARM matrix_rows_optimizer matrix_scalar_multiply<_> *)
    | MScale t m1 => MScale t (opt_mrows f m1 a b)
    (* ARM matrix_rows_optimizer matrix_addition<_,_> *)
    | MAdd m1 m2 => MAdd (opt_mrows f m1 a b) (opt_mrows f m2 a b)
    (* ARM matrix_rows_optimizer scalar_matrix<_,_,_> *)
    | MConst _ c t => MConst (b - a) c t
    (* ARM matrix_rows_optimizer vector_repeater<_,column_major> *)
    (* DEFECT-IN-CXX: result type is vector_repeater<..., row_major>: the transposed matrix
       (observed: rows(trans(repeat(x,2)),0,2) = [[1,2],[1,2]] instead of [[1,1],[2,2]]) *)
    | MRepeat true e k => MRepeat fx (opt_vrange f e a b) k
    (* ARM matrix_rows_optimizer vector_repeater<_,row_major> *)
    | MRepeat false e _ => MRepeat false e (b - a)
    (* ARM matrix_rows_optimizer matrix_unary<_,_> *)
    | MUn g m1 => MUn g (opt_mrows f m1 a b)
    (* ARM matrix_rows_optimizer matrix_binary<_,_,_> *)
    | MBin g m1 m2 => MBin g (opt_mrows f m1 a b) (opt_mrows f m2 a b)
    (* ARM matrix_rows_optimizer outer_product<_,_> *)
    | MOuter e1 e2 => MOuter (opt_vrange f e1 a b) e2
    (* ARM matrix_rows_optimizer matrix_matrix_prod<_,_> *)
    (* BROKEN-IN-CXX: left_opt is matrix_range_optimizer (5-argument create) but is called with 3 arguments *)
    (* DEFECT-IN-CXX: m.alpha() is dropped *)
    | MProd alpha m1 m2 =>
        let r := opt_mmprod f (opt_mrows f m1 a b) m2 in
        if fx then opt_mscale f alpha r else r
    (* default *)
    | _ => MRows m a b
    end
  end

with opt_vscale (fuel : nat) (c : Z) (e : vexp) {struct fuel} : vexp :=
  match fuel with
  | O => VScale c e
  | S f =>
    match e with
    (* ARM vector_scalar_multiply_optimizer vector_scalar_multiply<_> *)
    | VScale c1 e1 => VScale (c * c1) e1
    (* ARM vector_scalar_multiply_optimizer vector_addition<_,_> *)
    | VAdd e1 e2 => VAdd (opt_vscale f c e1) (opt_vscale f c e2)
    (* ARM vector_scalar_multiply_optimizer vector_unary<_,_> *)
    | VUn _ _ => opt_vunary e (FMulScalar c)
    (* ARM vector_scalar_multiply_optimizer vector_binary<_,_,_> *)
    | VBin _ _ _ => opt_vunary e (FMulScalar c)
    (* ARM vector_scalar_multiply_optimizer matrix_vector_prod<_,_> *)
    | VMv alpha m v => VMv (c * alpha) m v
    (* ARM vector_scalar_multiply_optimizer vector_concat<_,_> *)
    | VConcat e1 e2 => VConcat (opt_vscale f c e1) (opt_vscale f c e2)
    (* ARM vector_scalar_multiply_optimizer default *)
    | _ => VScale c e
    end
  end

with opt_mscale (fuel : nat) (c : Z) (m : mexp) {struct fuel} : mexp :=
  match fuel with
  | O => MScale c m
  | S f =>
    match m with
    (* ARM matrix_scalar_multiply_optimizer matrix_scalar_multiply<_> *)
    | MScale c1 m1 => MScale (c * c1) m1
    (* ARM matrix_scalar_multiply_optimizer matrix_addition<_,_> *)
    | MAdd m1 m2 => MAdd (opt_mscale f c m1) (opt_mscale f c m2)
    (* ARM matrix_scalar_multiply_optimizer vector_repeater<_,_> *)
    | MRepeat cm e k => MRepeat cm (opt_vscale f c e) k
    (* ARM matrix_scalar_multiply_optimizer matrix_unary<_,_> *)
    | MUn _ _ => opt_munary m (FMulScalar c)
    (* ARM matrix_scalar_multiply_optimizer matrix_binary<_,_,_> *)
    | MBin _ _ _ => opt_munary m (FMulScalar c)
    (* ARM matrix_scalar_multiply_optimizer outer_product<_,_> *)
    | MOuter e1 e2 => MOuter (opt_vscale f c e1) e2
    (* ARM matrix_scalar_multiply_optimizer matrix_matrix_prod<_,_> *)
    | MProd alpha m1 m2 => MProd (c * alpha) m1 m2
    (* ARM matrix_scalar_multiply_optimizer matrix_concat<_,_,_> *)
    | MConcat rt m1 m2 => MConcat rt (opt_mscale f c m1) (opt_mscale f c m2)
    (* ARM matrix_scalar_multiply_optimizer default *)
    | _ => MScale c m
    end
  end

with opt_mvprod (fuel : nat) (m : mexp) (v : vexp) {struct fuel} : vexp :=
  match fuel with
  | O => VMv 1 m v
  | S f =>
    match m, v with
    (* ARM matrix_vector_prod_optimizer matrix_scalar_multiply<_>,vector_scalar_multiply<_> *)
    | MScale c1 m1, VScale c2 v1 => opt_vscale f (c2 * c1) (opt_mvprod f m1 v1)
    (* ARM matrix_vector_prod_optimizer matrix_scalar_multiply<_>,_ *)
    | MScale c1 m1, _ => opt_vscale f c1 (opt_mvprod f m1 v)
    (* ARM matrix_vector_prod_optimizer _,vector_scalar_multiply<_> *)
    (* the following six specialisations were added to the C++ (fix commits 2559fbc0, bdcc2ef1) to resolve the
       ambiguity between <X,V> and <M,vector_scalar_multiply<V>>; each is  alpha * (X-rule applied to the unscaled
       vector), i.e. exactly this arm followed by the X arm of the recursive call: *)
    (* ARM matrix_vector_prod_optimizer matrix_matrix_prod<_,_>,vector_scalar_multiply<_> *)
    (* ARM matrix_vector_prod_optimizer matrix_addition<_,_>,vector_scalar_multiply<_> *)
    (* ARM matrix_vector_prod_optimizer outer_product<_,_>,vector_scalar_multiply<_> *)
    (* ARM matrix_vector_prod_optimizer vector_repeater<_,row_major>,vector_scalar_multiply<_> *)
    (* ARM matrix_vector_prod_optimizer vector_repeater<_,column_major>,vector_scalar_multiply<_> *)
    (* ARM matrix_vector_prod_optimizer diagonal_matrix<_>,vector_scalar_multiply<_> *)
    | _, VScale c2 v1 => opt_vscale f c2 (opt_mvprod f m v1)
    (* ARM matrix_vector_prod_optimizer matrix_matrix_prod<_,_>,_ *)
    | MProd alpha m1 m2, _ => opt_vscale f alpha (opt_mvprod f m1 (opt_mvprod f m2 v))
    (* ARM matrix_vector_prod_optimizer matrix_addition<_,_>,_ *)
    | MAdd m1 m2, _ => VAdd (opt_mvprod f m1 v) (opt_mvprod f m2 v)
    (* ARM matrix_vector_prod_optimizer outer_product<_,_>,_ *)
    (* eager: alpha = inner_prod(m.rhs(),v); vector_scalar_multiply(m.lhs(), alpha) *)
    | MOuter e1 e2, _ => VScale (inner_at s e2 v) e1
    (* ARM matrix_vector_prod_optimizer vector_repeater<_,row_major>,_ *)
    (* BROKEN-IN-CXX: scalar_vector constructor arguments swapped: type(alpha, m.num_repetitions()) *)
    | MRepeat false e k, _ => VConst k (inner_at s e v)
    (* ARM matrix_vector_prod_optimizer vector_repeater<_,column_major>,_ *)
    (* BROKEN-IN-CXX: create takes vector_repeater<V1,row_major> and calls sum(m.expression(),v); meant: sum(v) * m.expression() *)
    | MRepeat true e _, _ => VScale (sum_at s v) e
    (* ARM matrix_vector_prod_optimizer diagonal_matrix<_>,_ *)
    | MDiagM e, _ => VBin BMul e v
    (* ARM matrix_vector_prod_optimizer default *)
    | _, _ => VMv 1 m v
    end
  end

with opt_mmprod (fuel : nat) (m1 m2 : mexp) {struct fuel} : mexp :=
  match fuel with
  | O => MProd 1 m1 m2
  | S f =>
    match m1, m2 with
    (* ARM matrix_matrix_prod_optimizer matrix_scalar_multiply<_>,matrix_scalar_multiply<_> *)
    (* BROKEN-IN-CXX: opt = matrix_scalar_multiply<...> has no ::type / ::create (meant: matrix_scalar_multiply_optimizer) *)
    | MScale c1 a1, MScale c2 a2 => opt_mscale f (c1 * c2) (opt_mmprod f a1 a2)
    (* ARM matrix_matrix_prod_optimizer matrix_scalar_multiply<_>,_ *)
    (* BROKEN-IN-CXX: as above *)
    | MScale c1 a1, _ => opt_mscale f c1 (opt_mmprod f a1 m2)
    (* ARM matrix_matrix_prod_optimizer _,matrix_scalar_multiply<_> *)
    (* BROKEN-IN-CXX: as above *)
    | _, MScale c2 a2 => opt_mscale f c2 (opt_mmprod f m1 a2)
    (* ARM matrix_matrix_prod_optimizer default *)
    | _, _ => MProd 1 m1 m2
    end
  end.

(* ---------------- Vector-Set Fold ---------------- *)
(* fold over the vectors of as_rows(m) (row_major set) / as_columns(m) (column_major set) *)
Definition opt_fold_set (fuel : nat) (colmajor : bool) (k : fkind) (g : ufun) (m : mexp) : vexp :=
  match colmajor with
  (* ARM fold_vector_set_optimizer vector_set<_,row_major>,_,_ *)
  | false => VFold k g m
  (* ARM fold_vector_set_optimizer vector_set<_,column_major>,_,_ *)
  | true => VFold k g (opt_mtrans fuel m)
  end.

End Opt.
