(* C05 — theorems about ALL kernel expressions (C05Expr.kexp, den, bden):
     any ordered field, no axioms:
       den_sym        every expression denotes a symmetric kernel
       bden_ok        the batch path of every expression is the matrix of single evaluations (on edom e: the points
                      where every NormalizedKernel inside has a non-zero normaliser)
       gramrep_expr   admissible expressions without exponentials and with non-zero weight sums have a finite
                      non-negative feature map (hence are positive semi-definite)
     the real numbers (expA = exp; axioms of Reals only):
       limrep_expr / psd_expr   EVERY admissible expression is positive semi-definite
       limrep_pset              PointSetKernel over any such base kernel
   adm n e: the parameters are in their admissible range for inputs of dimension n: polynomial offsets, Gaussian / ARD
   gammas, scaling factors and weights >= 0, sub-ranges inside [0,n).  *)
From Coq Require Import List Arith Bool Lia Reals Lra.
From SharkV Require Import C03Model C05Model C05Proofs C05Expr C05PointSetProofs C05GaussReal.
Import ListNotations.

(* ------------------------------------------------------------------ induction over expressions *)
Section Ind.
Variable A : Type.
Notation kexp := (kexp A).
Lemma kexp_ind2 (P : kexp -> Prop) :
  P (ELin A) -> (forall d c, P (EPoly A d c)) -> (forall d, P (EMono A d)) -> (forall g, P (ERbf A g)) -> (forall gs, P (EArd A gs)) ->
  (forall e, P e -> P (ENorm A e)) -> (forall f e, P e -> P (EScaled A f e)) ->
  (forall ws es, Forall P es -> P (EWsum A ws es)) -> (forall es, Forall P es -> P (EProd A es)) ->
  (forall a b e, P e -> P (ESub A a b e)) -> (forall W b e, P e -> P (EModel A W b e)) -> forall e, P e.
Proof.
  intros Hl Hp Hm Hr Ha Hn Hs Hw Hpr Hsu Hmo. fix IH 1. intros [ |d c|d|g|gs|e|f e|ws es|es|a b e|W b e].
  - exact Hl.
  - apply Hp.
  - apply Hm.
  - apply Hr.
  - apply Ha.
  - apply Hn, IH.
  - apply Hs, IH.
  - apply Hw. exact ((fix go (l : list kexp) : Forall P l :=
                        match l with [] => Forall_nil _ | x :: r => Forall_cons _ (IH x) (go r) end) es).
  - apply Hpr. exact ((fix go (l : list kexp) : Forall P l :=
                         match l with [] => Forall_nil _ | x :: r => Forall_cons _ (IH x) (go r) end) es).
  - apply Hsu, IH.
  - apply Hmo, IH.
Qed.
End Ind.

(* ------------------------------------------------------------------ any ordered field *)
Section Generic.
Variable A : Type.
Variables (zero one : A) (add mul sub div : A -> A -> A) (opp inv : A -> A) (le : A -> A -> Prop).
Variables (sqrtA expA : A -> A).
Hypothesis OF : OrdField zero one add mul sub div opp inv le.
Notation vec := (list A).
Notation kexp := (kexp A).
Notation den := (den A zero one add mul sub div opp sqrtA expA).
Notation bden := (bden A zero one add mul sub div opp sqrtA expA).
Notation GRep := (GramRepOn A zero add mul le).
Notation dim := (dimP A).
Notation linmapA := (linmap A zero add mul).

Fixpoint alle (Q : kexp -> Prop) (l : list kexp) : Prop :=
  match l with [] => True | e :: r => Q e /\ alle Q r end.
Lemma alle_Forall Q l : alle Q l <-> Forall Q l.
Proof. induction l; simpl; split; intros H; auto; [destruct H; constructor; tauto|inversion H; tauto]. Qed.

(* admissible parameters for inputs of dimension n *)
Fixpoint adm (n : nat) (e : kexp) : Prop :=
  match e with
  | ELin _ | EMono _ _ => True
  | EPoly _ _ c => le zero c
  | ERbf _ g => le zero g
  | EArd _ gs => Forall (le zero) gs
  | ENorm _ e' => adm n e'
  | EScaled _ f e' => le zero f /\ adm n e'
  | EWsum _ ws es => Forall (le zero) ws /\ (fix all (l : list kexp) : Prop := match l with [] => True | x :: r => adm n x /\ all r end) es
  | EProd _ es => (fix all (l : list kexp) : Prop := match l with [] => True | x :: r => adm n x /\ all r end) es
  | ESub _ a b e' => (a <= b)%nat /\ (b <= n)%nat /\ adm (b - a) e'
  | EModel _ W b e' => adm (Nat.min (length W) (length b)) e'
  end.
Lemma adm_all n es :
  (fix all (l : list kexp) : Prop := match l with [] => True | x :: r => adm n x /\ all r end) es <-> Forall (adm n) es.
Proof. induction es; simpl; split; intros H; auto; [destruct H; constructor; tauto|inversion H; tauto]. Qed.

(* no exponential inside, every weighted sum has a non-zero weight sum *)
Fixpoint algebraic (e : kexp) : Prop :=
  match e with
  | ELin _ | EMono _ _ | EPoly _ _ _ => True
  | ERbf _ _ | EArd _ _ => False
  | ENorm _ e' | EScaled _ _ e' | ESub _ _ _ e' | EModel _ _ _ e' => algebraic e'
  | EWsum _ ws es => lsum A zero add (map fst (combine ws es)) <> zero /\
                     (fix all (l : list kexp) : Prop := match l with [] => True | x :: r => algebraic x /\ all r end) es
  | EProd _ es => (fix all (l : list kexp) : Prop := match l with [] => True | x :: r => algebraic x /\ all r end) es
  end.
Lemma alg_all es :
  (fix all (l : list kexp) : Prop := match l with [] => True | x :: r => algebraic x /\ all r end) es <-> Forall algebraic es.
Proof. induction es; simpl; split; intros H; auto; [destruct H; constructor; tauto|inversion H; tauto]. Qed.

(* points on which the batch path of NormalizedKernel divides by a non-zero normaliser *)
Fixpoint edom (e : kexp) : vec -> Prop :=
  match e with
  | ENorm _ e' => fun x => edom e' x /\ sqrtA (den e' x x) <> zero
  | EScaled _ _ e' => edom e'
  | EWsum _ _ es | EProd _ es => fun x => (fix all (l : list kexp) : Prop := match l with [] => True | e' :: r => edom e' x /\ all r end) es
  | ESub _ a b e' => fun x => edom e' (subvec A a b x)
  | EModel _ W b e' => fun x => edom e' (linmapA W b x)
  | _ => fun _ => True
  end.
Lemma edom_all es x :
  (fix all (l : list kexp) : Prop := match l with [] => True | e' :: r => edom e' x /\ all r end) es <-> Forall (fun e' => edom e' x) es.
Proof. induction es; simpl; split; intros H; auto; [destruct H; constructor; tauto|inversion H; tauto]. Qed.

Lemma zipw_length_min (f : A -> A -> A) u : forall v, length (zipw A f u v) = Nat.min (length u) (length v).
Proof. induction u; destruct v; simpl; auto. Qed.
Lemma linmap_length W b x : length (linmapA W b x) = Nat.min (length W) (length b).
Proof. unfold C05Model.linmap. rewrite zipw_length_min, map_length. reflexivity. Qed.

(* ---- symmetry ---- *)
Theorem den_sym : forall e x z, den e x z = den e z x.
Proof.
  induction e using kexp_ind2; intros x z; cbn [C05Expr.den].
  - apply (sym_lin A zero one add mul sub div opp inv le OF).
  - apply (sym_poly A zero one add mul sub div opp inv le OF).
  - apply (sym_mono A zero one add mul sub div opp inv le OF).
  - apply (sym_gauss A zero one add mul sub div opp inv le expA OF).
  - apply (sym_ard A zero one add mul sub div opp inv le expA OF).
  - apply (sym_norm A zero one add mul sub div opp inv le sqrtA OF). exact IHe.
  - apply (sym_scaled A mul). exact IHe.
  - apply (sym_wsum A zero add mul div). revert ws. induction H; intros [|w ws]; simpl; constructor; auto.
  - apply (sym_prod A one mul). induction H; simpl; constructor; auto.
  - apply (sym_pull A). exact IHe.
  - apply (sym_pull A). exact IHe.
Qed.

(* ---- batch = matrix of single evaluations ---- *)
Notation BOK := (BatchOKOn A).
Theorem bden_ok : forall e, BOK vec (edom e) (den e) (bden e).
Proof.
  induction e using kexp_ind2; cbn [C05Expr.den C05Expr.bden edom].
  - apply (batch_lin A zero add mul).
  - apply (batch_poly A zero one add mul sub div opp inv le OF).
  - apply (batch_mono A zero one add mul sub div opp inv le OF).
  - apply (batch_gauss A zero add mul sub opp expA).
  - apply (batch_ard A zero add mul sub opp expA).
  - apply (batch_norm A zero one add mul sub div opp inv le sqrtA expA OF). exact IHe.
  - apply (batch_scaled A zero one add mul sub div opp inv le OF). exact IHe.
  - apply (batch_weaken A vec (fun x => Forall (fun e0 => edom e0 x) es)).
    { intros x Hx. apply edom_all. exact Hx. }
    apply (batch_wsum A zero add mul div).
    assert (G : forall es', Forall (fun e => BOK vec (edom e) (den e) (bden e)) es' ->
                (forall e' x, In e' es' -> Forall (fun e0 => edom e0 x) es -> edom e' x) ->
                forall ws', Forall2 (wpair_ok A vec (fun x => Forall (fun e0 => edom e0 x) es))
                                    (combine ws' (map den es')) (combine ws' (map bden es'))).
    { induction 1 as [|e' r He' _ IH]; intros I [|w ws']; simpl; constructor.
      - split; [reflexivity|]. simpl. apply (batch_weaken A vec (edom e')); auto. intros x Hx. apply (I e' x); simpl; auto.
      - apply IH. intros e0 x Hin. apply I. simpl; auto. }
    apply G; auto. intros e' x Hin Hall. rewrite Forall_forall in Hall. auto.
  - apply (batch_weaken A vec (fun x => Forall (fun e0 => edom e0 x) es)).
    { intros x Hx. apply edom_all. exact Hx. }
    apply (batch_prod A one mul).
    assert (G : forall es', Forall (fun e => BOK vec (edom e) (den e) (bden e)) es' ->
                (forall e' x, In e' es' -> Forall (fun e0 => edom e0 x) es -> edom e' x) ->
                Forall2 (BOK vec (fun x => Forall (fun e0 => edom e0 x) es)) (map den es') (map bden es')).
    { induction 1 as [|e' r He' _ IH]; intros I; simpl; constructor.
      - apply (batch_weaken A vec (edom e')); auto. intros x Hx. apply (I e' x); simpl; auto.
      - apply IH. intros e0 x Hin. apply I. simpl; auto. }
    apply G; auto. intros e' x Hin Hall. rewrite Forall_forall in Hall. auto.
  - apply (batch_pull A). exact IHe.
  - apply (batch_pull A). exact IHe.
Qed.

(* ---- finite feature maps for the expressions without exponentials ---- *)
Theorem gramrep_expr : forall e n, adm n e -> algebraic e -> GRep vec (dim n) (den e).
Proof.
  induction e using kexp_ind2; intros n Ha Hg; cbn [C05Expr.den]; cbn [adm algebraic] in Ha, Hg; try contradiction.
  - apply (gramrep_lin A zero one add mul sub div opp inv le OF).
  - apply (gramrep_poly A zero one add mul sub div opp inv le OF). exact Ha.
  - apply (gramrep_mono A zero one add mul sub div opp inv le OF).
  - apply (gramrep_norm A zero one add mul sub div opp inv le sqrtA OF). auto.
  - apply (gramrep_scaled A zero one add mul sub div opp inv le OF); tauto || (apply IHe; tauto).
  - destruct Ha as [Hw Ha]. destruct Hg as [Nz Hg]. apply adm_all in Ha. apply alg_all in Hg.
    apply (gramrep_wsum A zero one add mul sub div opp inv le OF).
    + clear Nz. revert ws Hw. induction H as [|e' r He' _ IH]; intros [|w ws] Hw; simpl; constructor.
      * inversion Hw; inversion Ha; inversion Hg; subst. simpl. split; auto.
      * inversion Hw; inversion Ha; inversion Hg; subst. apply IH; auto.
    + unfold C05Model.wsum_den.
      assert (Q : forall ws0 : vec, map (@fst A (vec -> vec -> A)) (combine ws0 (map den es)) = map (@fst A kexp) (combine ws0 es)).
      { clear. induction es; intros [|w ws0]; simpl; auto. f_equal. apply IHes. }
      rewrite Q. exact Nz.
  - apply adm_all in Ha. apply alg_all in Hg.
    apply (gramrep_prod A zero one add mul sub div opp inv le OF).
    induction H as [|e' r He' _ IH]; simpl; constructor; inversion Ha; inversion Hg; subst; auto.
  - destruct Ha as (Hab & Hbn & Ha). apply (gramrep_sub A zero add mul le); auto.
  - apply (gramrep_weaken A zero add mul le vec (fun x => dim (Nat.min (length W) (length b)) (linmapA W b x))).
    + intros x _. apply linmap_length.
    + apply (gramrep_pull A zero add mul le). auto.
Qed.

End Generic.

(* ------------------------------------------------------------------ the real numbers *)
Section Real.
Local Open Scope R_scope.
Variable sqrtA : R -> R.     (* the normaliser of NormalizedKernel may be any function: no law of sqrt is used *)
Notation Rden := (den R 0 1 Rplus Rmult Rminus Rdiv Ropp sqrtA exp).
Notation Radm := (adm R 0 Rle).

Lemma ofnat_INR n : ofnat R 0 1 Rplus n = INR n.
Proof. induction n; [reflexivity|]. rewrite S_INR. cbn [ofnat]. rewrite IHn. ring. Qed.

Theorem limrep_expr : forall e n, Radm n e -> LimRepOn Rvec (Rdim n) (Rden e).
Proof.
  induction e using kexp_ind2; intros n Ha; cbn [C05Expr.den]; cbn [adm] in Ha.
  - apply limrep_of_gramrep. apply (gramrep_lin R 0 1 Rplus Rmult Rminus Rdiv Ropp Rinv Rle OFR).
  - apply limrep_of_gramrep. apply (gramrep_poly R 0 1 Rplus Rmult Rminus Rdiv Ropp Rinv Rle OFR). exact Ha.
  - apply limrep_of_gramrep. apply (gramrep_mono R 0 1 Rplus Rmult Rminus Rdiv Ropp Rinv Rle OFR).
  - apply limrep_gauss. exact Ha.
  - apply limrep_ard. exact Ha.
  - apply limrep_norm. auto.
  - apply limrep_scaled; [tauto|apply IHe; tauto].
  - destruct Ha as [Hw Ha]. apply (adm_all R 0 Rle sqrtA exp) in Ha. apply limrep_wsum.
    revert ws Hw. induction H as [|e' r He' _ IH]; intros [|w ws] Hw; simpl; constructor.
    + inversion Hw; inversion Ha; subst. simpl. split; auto.
    + inversion Hw; inversion Ha; subst. apply IH; auto.
  - apply (adm_all R 0 Rle sqrtA exp) in Ha. apply limrep_prod.
    induction H as [|e' r He' _ IH]; simpl; constructor; inversion Ha; subst; auto.
  - destruct Ha as (Hab & Hbn & Ha). apply limrep_sub; auto.
  - apply (limrep_weaken Rvec (fun x => Rdim (Nat.min (length W) (length b)) (linmap R 0 Rplus Rmult W b x))).
    + intros x _. apply linmap_length.
    + apply limrep_pull. auto.
Qed.

Theorem psd_expr e n : Radm n e -> RPSD Rvec (Rdim n) (Rden e).
Proof. intros. apply limrep_psd, limrep_expr; auto. Qed.

(* PointSetKernel over a base kernel that is a limit of feature-map kernels, on non-empty sets of points of P *)
Definition RPSetDom (P : Rvec -> Prop) (S : list Rvec) : Prop := Forall P S /\ S <> [].

Theorem limrep_pset (P : Rvec -> Prop) (k : Rvec -> Rvec -> R) :
  LimRepOn Rvec P k -> LimRepOn (list Rvec) (RPSetDom P) (k_pset R 0 1 Rplus Rmult Rdiv k).
Proof.
  intros (a & Ga & Ca). exists (fun N => k_pset R 0 1 Rplus Rmult Rdiv (a N)). split.
  - intros N. apply (gramrep_weaken R 0 Rplus Rmult Rle (list Rvec) (PSetDom R 0 1 Rplus Rvec P)).
    + intros S [HS NS]. split; auto. rewrite ofnat_INR. destruct S; [congruence|]. apply not_0_INR. simpl. discriminate.
    + apply (gramrep_pset R 0 1 Rplus Rmult Rminus Rdiv Ropp Rinv Rle OFR). auto.
  - intros S T [HS _] [HT _]. unfold C05Model.k_pset, Rdiv. rewrite Forall_forall in HS, HT.
    apply (CV_mult (fun N => Rlsum (map (fun x => Rlsum (map (fun z => a N x z) T)) S)) (fun _ => / (ofnat R 0 1 Rplus (length S) * ofnat R 0 1 Rplus (length T)))).
    + apply (lsum_map_cv (fun N x => Rlsum (map (fun z => a N x z) T)) (fun x => Rlsum (map (fun z => k x z) T))).
      intros x Hx. apply (lsum_map_cv (fun N z => a N x z) (fun z => k x z)). intros z Hz. auto.
    + apply cv_const.
Qed.

Theorem psd_pset_expr e n : Radm n e ->
  RPSD (list Rvec) (RPSetDom (Rdim n)) (k_pset R 0 1 Rplus Rmult Rdiv (Rden e)).
Proof. intros. apply limrep_psd, limrep_pset, limrep_expr; auto. Qed.

End Real.

From Coq Require Import QArith Qcanon.
Example expr_hyps_example :
  adm R 0%R Rle 2 (ENorm R (EWsum R [1%R; 2%R] [ERbf R (/ 2)%R; EProd R [EArd R [1%R; 2%R]; EPoly R 2 1%R; ESub R 0 1 (ERbf R 1%R)]])) /\
  algebraic Qc (Q2Qc 0) Qcplus (EWsum Qc [1%Qc; 1%Qc] [ELin Qc; EScaled Qc 1%Qc (EMono Qc 2)]) /\
  RPSetDom (dimP R 2) [[1%R; 2%R]].
Proof.
  split; [|split].
  - cbn [adm]. repeat split; repeat constructor; try lra; try lia.
  - cbn [algebraic]. repeat split. intro H. discriminate H.
  - split; [repeat constructor|discriminate].
Qed.
