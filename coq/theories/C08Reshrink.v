(* C08 — the composite at the heart of BoxBasedShrinkingStrategy::shrink(): when the accuracy on the active set
   falls below 10*epsilon (and the problem has not been un-shrunk before) the method

       unshrink();
       getMaxKKTViolations(largestUp, smallestDown, dimensions());     // recompute over ALL variables
       for (a = active; a > 0; --a) if (testShrinkVariable(a-1, largestUp, smallestDown)) { flip; --active; }

   un-shrinks and immediately re-shrinks.  Definitions only (C08Model.shrink takes exactly this branch when
   [reshrink_due] holds: C08ReshrinkProofs.shrink_is_reshrink).  [reshrink_stale] is the same composite WITHOUT the
   recomputation of the bounds (seeded change C08-5): the shrink test of all variables then runs with the extrema of
   the old active subset. *)
From Coq Require Import Arith Bool List.
From SharkV Require Import C08Model.
Import ListNotations.

Section Reshrink.
Variable A : Type.
Variable O : ops A.
Variable n : nat.
Variable K0 : nat -> nat -> A.

(* if (!m_isUnshrinked && (largestUp - smallestDown < 10.0 * epsilon)), bounds over the active set *)
Definition reshrink_due (eps : A) (s : st A) : bool :=
  negb (unshr s) &&
  o_ltb O (o_sub O (largest_up O s (active s)) (smallest_down O s (active s))) (o_mul O (o_ten O) eps).

Definition reshrink (kind : bool) (s : st A) : st A :=
  let u := unshrink O n K0 s in
  shrink_loop O kind (largest_up O u n) (smallest_down O u n) (active u) u.

Definition reshrink_stale (kind : bool) (s : st A) : st A :=
  let u := unshrink O n K0 s in
  shrink_loop O kind (largest_up O s (active s)) (smallest_down O s (active s)) (active u) u.

End Reshrink.

Arguments reshrink_due {A}. Arguments reshrink {A}. Arguments reshrink_stale {A}.
