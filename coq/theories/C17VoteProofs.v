(* C17 — proofs about the model of NearestNeighborModel's prediction (C17Vote.v), over any ordered field:
     A. the prediction (class scores, decision, regression mean) depends only on the MULTISET of (distance, label)
        pairs of the neighbours: it is invariant under every rearrangement of the neighbour list;
     B. two search back-ends that both return k nearest neighbours return the same index set whenever there is no tie at
        the k-th distance (strict gap between reported and not reported points), hence the same prediction;
     C. with a tie at the k-th distance the prediction can differ although both back-ends return the same distances:
        witness.
   Axiom-free. *)
From Coq Require Import List Bool Arith Lia Permutation Field QArith Qcanon.
From SharkV Require Import C17Field C17Vote.
Import ListNotations.

Lemma fold_left_perm {X Y} (g : X -> Y -> X) :
  (forall a x y, g (g a x) y = g (g a y) x) ->
  forall l l', Permutation l l' -> forall a, fold_left g l a = fold_left g l' a.
Proof.
  intros C l l' P. induction P; intros a; simpl; auto.
  - rewrite C. auto.
  - rewrite IHP1. auto.
Qed.

Section VP.
Variable A : Type.
Variable F : fops A.
Hypothesis L : olaws F.
Variables tiny huge : A.
Notation "0" := (o0 F) : OF_scope.
Notation "1" := (o1 F) : OF_scope.
Infix "+" := (oadd F) : OF_scope.
Infix "*" := (omul F) : OF_scope.
Infix "-" := (osub F) : OF_scope.
Infix "/" := (odiv F) : OF_scope.
Notation "a <= b" := (oleb F a b = true) : OF_scope.
Notation "a < b" := (oleb F b a = false) : OF_scope.
Local Open Scope OF_scope.
Add Field VPfield : (ol_field F L).

Notation nn_weight := (nn_weight A F tiny huge).
Notation nn_wsum := (nn_wsum A F tiny huge).
Notation nn_hist := (nn_hist A F tiny huge).
Notation nn_scores := (nn_scores A F tiny huge).
Notation nn_classify := (nn_classify A F tiny huge).
Notation nn_regress := (nn_regress A F tiny huge).

(* ======================================================================================== *)
(* A. rearrangements                                                                         *)
Lemma nn_wsum_perm u {Lb} (l l' : list (A * Lb)) : Permutation l l' -> nn_wsum u l = nn_wsum u l'.
Proof. intros P. unfold C17Vote.nn_wsum. apply fold_left_perm; auto. intros a x y. ring. Qed.

Lemma hist_add_comm h : forall l1 w1 l2 w2,
  hist_add A F (hist_add A F h l1 w1) l2 w2 = hist_add A F (hist_add A F h l2 w2) l1 w1.
Proof.
  induction h as [|x h IH]; intros [|l1] w1 [|l2] w2; simpl; auto.
  - f_equal. ring.
  - f_equal. apply IH.
Qed.

Lemma nn_hist_perm u nc l l' : Permutation l l' -> nn_hist u nc l = nn_hist u nc l'.
Proof. intros P. unfold C17Vote.nn_hist. apply fold_left_perm; auto. intros a x y. apply hist_add_comm. Qed.

Theorem nn_scores_perm u nc l l' : Permutation l l' -> nn_scores u nc l = nn_scores u nc l'.
Proof. intros P. unfold C17Vote.nn_scores. rewrite (nn_wsum_perm u l l' P), (nn_hist_perm u nc l l' P). reflexivity. Qed.

Theorem nn_classify_perm u nc l l' : Permutation l l' -> nn_classify u nc l = nn_classify u nc l'.
Proof. intros P. unfold C17Vote.nn_classify. rewrite (nn_scores_perm u nc l l' P). reflexivity. Qed.

Lemma vadd_w_comm acc : forall w1 x1 w2 x2,
  vadd_w A F (vadd_w A F acc w1 x1) w2 x2 = vadd_w A F (vadd_w A F acc w2 x2) w1 x1.
Proof.
  induction acc as [|a acc IH]; intros w1 [|y1 x1] w2 [|y2 x2]; simpl; auto.
  f_equal; [ring | apply IH].
Qed.

Theorem nn_regress_perm u dl l l' : Permutation l l' -> nn_regress u dl l = nn_regress u dl l'.
Proof.
  intros P. unfold C17Vote.nn_regress. rewrite (nn_wsum_perm u l l' P). f_equal.
  apply fold_left_perm; auto. intros a x y. apply vadd_w_comm.
Qed.

(* ======================================================================================== *)
(* B. two back-ends without a tie at the k-th distance                                        *)
(* S is a set of k nearest neighbours of the data set 0..n-1 for the distances dd *)
Definition KNear (dd : nat -> A) (n : nat) (S : list nat) : Prop :=
  NoDup S /\ (forall i, In i S -> (i < n)%nat) /\
  forall i j, In i S -> (j < n)%nat -> ~ In j S -> dd i <= dd j.
(* no tie at the boundary: every reported point is strictly nearer than every point not reported *)
Definition StrictGap (dd : nat -> A) (n : nat) (S : list nat) : Prop :=
  forall i j, In i S -> (j < n)%nat -> ~ In j S -> dd i < dd j.

Lemma not_incl_witness (l1 l2 : list nat) : ~ incl l1 l2 -> exists y, In y l1 /\ ~ In y l2.
Proof.
  induction l1 as [|x l1 IH]; intros H.
  - exfalso. apply H. intros y [].
  - destruct (in_dec Nat.eq_dec x l2) as [Hx|Hx].
    + destruct IH as (y & Hy & Hn).
      { intros Hi. apply H. intros y [<-|Hy]; auto. }
      exists y. split; [right|]; auto.
    + exists x. split; [left|]; auto.
Qed.

Theorem knear_unique dd n S1 S2 :
  KNear dd n S1 -> KNear dd n S2 -> length S1 = length S2 -> StrictGap dd n S1 -> Permutation S1 S2.
Proof.
  intros (N1 & B1 & K1) (N2 & B2 & K2) Hl G.
  assert (I21 : incl S2 S1).
  { intros x Hx. destruct (in_dec Nat.eq_dec x S1) as [H|H]; [auto|]. exfalso.
    assert (Hn : ~ incl S1 S2).
    { intros Hi. apply H. apply (NoDup_length_incl N1 (l' := S2)); [lia | auto | auto]. }
    destruct (not_incl_witness S1 S2 Hn) as (y & Hy1 & Hy2).
    pose proof (G y x Hy1 (B2 x Hx) H) as Hlt.
    pose proof (K2 x y Hx (B1 y Hy1) Hy2) as Hle. rewrite Hle in Hlt. discriminate. }
  assert (I12 : incl S1 S2) by (apply (NoDup_length_incl N2 (l' := S1)); [lia | auto]).
  apply NoDup_Permutation; auto. intros x. split; auto.
Qed.

(* hence the model predicts the same from both neighbour lists (labels lab, reported distances dd) *)
Theorem backends_agree_classify dd (lab : nat -> nat) n S1 S2 u nc :
  KNear dd n S1 -> KNear dd n S2 -> length S1 = length S2 -> StrictGap dd n S1 ->
  nn_classify u nc (map (fun i => (dd i, lab i)) S1) = nn_classify u nc (map (fun i => (dd i, lab i)) S2) /\
  nn_scores u nc (map (fun i => (dd i, lab i)) S1) = nn_scores u nc (map (fun i => (dd i, lab i)) S2).
Proof.
  intros H1 H2 Hl G. pose proof (knear_unique dd n S1 S2 H1 H2 Hl G) as P.
  split; [apply nn_classify_perm | apply nn_scores_perm]; apply Permutation_map; auto.
Qed.

Theorem backends_agree_regress dd (lab : nat -> list A) n S1 S2 u dl :
  KNear dd n S1 -> KNear dd n S2 -> length S1 = length S2 -> StrictGap dd n S1 ->
  nn_regress u dl (map (fun i => (dd i, lab i)) S1) = nn_regress u dl (map (fun i => (dd i, lab i)) S2).
Proof.
  intros H1 H2 Hl G. pose proof (knear_unique dd n S1 S2 H1 H2 Hl G) as P.
  apply nn_regress_perm. apply Permutation_map; auto.
Qed.

(* the statements of Properties_C17.v *)
Theorem vote_rearrangement_invariant (u : bool) :
  (forall (nc : nat) (l l' : list (A * nat)), Permutation l l' ->
     nn_scores u nc l = nn_scores u nc l' /\ nn_classify u nc l = nn_classify u nc l') /\
  (forall (dl : nat) (l l' : list (A * list A)), Permutation l l' -> nn_regress u dl l = nn_regress u dl l').
Proof.
  split.
  - intros nc l l' P. split; [apply nn_scores_perm | apply nn_classify_perm]; auto.
  - intros dl l l' P. apply nn_regress_perm; auto.
Qed.

Theorem backends_agree dd n S1 S2 (u : bool) :
  KNear dd n S1 -> KNear dd n S2 -> length S1 = length S2 -> StrictGap dd n S1 ->
  (forall (lab : nat -> nat) (nc : nat),
     nn_classify u nc (map (fun i => (dd i, lab i)) S1) = nn_classify u nc (map (fun i => (dd i, lab i)) S2) /\
     nn_scores u nc (map (fun i => (dd i, lab i)) S1) = nn_scores u nc (map (fun i => (dd i, lab i)) S2)) /\
  (forall (lab : nat -> list A) (dl : nat),
     nn_regress u dl (map (fun i => (dd i, lab i)) S1) = nn_regress u dl (map (fun i => (dd i, lab i)) S2)).
Proof.
  intros H1 H2 Hl G. split.
  - intros lab nc. apply (backends_agree_classify dd lab n); auto.
  - intros lab dl. apply (backends_agree_regress dd lab n); auto.
Qed.

End VP.

(* ======================================================================================== *)
(* C. a tie at the k-th distance: same distances, different predictions                       *)
Definition vF : fops Qc := qc_fops (fun x => x).
Definition q1 : Qc := Q2Qc 1.

(* two points at distance 1 from the query with labels 0 and 1 (e.g. the points -1 and +1, query 0), k = 1:
   {0} and {1} are both sets of one nearest neighbour; the reported distance lists are equal; the vote differs *)
Example backend_tie_witness :
  let dd := fun _ : nat => q1 in
  let lab := fun i : nat => i in
  let rlab := fun i : nat => [Q2Qc (inject_Z (Z.of_nat i))] in
  KNear Qc vF dd 2 [0%nat] /\ KNear Qc vF dd 2 [1%nat] /\
  map dd [0%nat] = map dd [1%nat] /\
  nn_classify Qc vF (Q2Qc 0) (Q2Qc 0) true 2 (map (fun i => (dd i, lab i)) [0%nat]) = 0%nat /\
  nn_classify Qc vF (Q2Qc 0) (Q2Qc 0) true 2 (map (fun i => (dd i, lab i)) [1%nat]) = 1%nat /\
  map (@this) (nn_regress Qc vF (Q2Qc 0) (Q2Qc 0) true 1 (map (fun i => (dd i, rlab i)) [0%nat])) = [0#1]%Q /\
  map (@this) (nn_regress Qc vF (Q2Qc 0) (Q2Qc 0) true 1 (map (fun i => (dd i, rlab i)) [1%nat])) = [1#1]%Q.
Proof.
  cbv zeta. split; [|split].
  - split; [repeat constructor; intros []|]. split; [intros i [<-|[]]; lia|]. intros; vm_compute; reflexivity.
  - split; [repeat constructor; intros []|]. split; [intros i [<-|[]]; lia|]. intros; vm_compute; reflexivity.
  - repeat split; vm_compute; reflexivity.
Qed.

(* the hypotheses of part B are satisfiable, and the weights as coded: distances 0 (zero-distance rule), 2 and 4 *)
Example vote_example :
  let tiny := Q2Qc (1 # 1000) in let huge := Q2Qc 1000 in
  let nb := [(Q2Qc 2, 1%nat); (Q2Qc 4, 0%nat); (Q2Qc 4, 1%nat)] in
  map (@this) (nn_scores Qc vF tiny huge true 3 nb) = [1#3; 2#3; 0#1]%Q /\
  nn_classify Qc vF tiny huge true 3 nb = 1%nat /\
  map (@this) (nn_scores Qc vF tiny huge false 3 nb) = [1#4; 3#4; 0#1]%Q /\
  map (@this) (nn_scores Qc vF tiny huge false 3 ((Q2Qc 0, 2%nat) :: nb)) = [1#4004; 3#4004; 1000#1001]%Q /\
  nn_classify Qc vF tiny huge false 3 ((Q2Qc 0, 2%nat) :: nb) = 2%nat /\
  nn_classify Qc vF tiny huge true 2 [(Q2Qc 1, 0%nat); (Q2Qc 1, 1%nat)] = 0%nat /\
  nn_classify Qc vF tiny huge true 1 [(Q2Qc 1, 0%nat)] = 1%nat.
Proof. cbv zeta. repeat split; vm_compute; reflexivity. Qed.
