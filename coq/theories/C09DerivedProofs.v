From Coq Require Import List Arith ZArith Lia Bool Permutation FinFun.
From SharkV Require Import ListAux C03Proofs C09Derived.
Import ListNotations.

Lemma swapl_map {A B} (f : A -> B) (da : A) (db : B) i j l :
  i < length l -> j < length l -> f da = db -> swapl db i j (map f l) = map f (swapl da i j l).
Proof.
  intros Hi Hj Hd. apply nth_ext with (d := db) (d' := db).
  - rewrite swapl_length, !map_length, swapl_length. auto.
  - intros n _. rewrite nth_swapl by (rewrite map_length; auto).
    rewrite <- Hd. rewrite !map_nth. rewrite nth_swapl by auto. reflexivity.
Qed.

Lemma swapl_dflt_irrel {A} (d1 d2 : A) i j l :
  i < length l -> j < length l -> swapl d1 i j l = swapl d2 i j l.
Proof.
  intros Hi Hj. unfold swapl. rewrite (nth_indep l d1 d2 Hi), (nth_indep l d1 d2 Hj). reflexivity.
Qed.

Lemma swapl_map' {A B} (f : A -> B) (da : A) (db : B) i j l :
  i < length l -> j < length l -> swapl db i j (map f l) = map f (swapl da i j l).
Proof.
  intros Hi Hj. rewrite (swapl_dflt_irrel db (f da)) by (rewrite map_length; auto).
  apply swapl_map; auto.
Qed.

Lemma swapl_perm {A} (d : A) i j l : i < length l -> j < length l -> Permutation (swapl d i j l) l.
Proof.
  intros Hi Hj.
  assert (swapl d i j l = map (fun k => nth k l d) (map (tr i j) (seq 0 (length l)))) as ->.
  { apply nth_ext with (d := d) (d' := d).
    - rewrite swapl_length, !map_length, seq_length. auto.
    - intros n Hn. rewrite swapl_length in Hn. rewrite nth_swapl by auto.
      rewrite map_map. symmetry.
      set (f := fun x => nth (tr i j x) l d).
      rewrite nth_indep with (d' := f 0) by (rewrite map_length, seq_length; auto).
      rewrite map_nth with (f := f) (d := 0).
      rewrite seq_nth by auto. reflexivity. }
  rewrite <- (map_nth_seq l d) at 2.
  apply Permutation_map. apply NoDup_Permutation_bis.
  - apply Injective_map_NoDup; [intros a b; apply tr_inj|apply seq_NoDup].
  - rewrite map_length. auto.
  - intros x Hx. apply in_map_iff in Hx. destruct Hx as (y & <- & Hy). apply in_seq in Hy.
    apply in_seq. pose proof (tr_lt i j y (length l) Hi Hj). lia.
Qed.

Section Derived.
Variable k0 : nat -> nat -> Z.

Definition valid_flips (n : nat) (fl : list (nat * nat)) : Prop :=
  forall ij, In ij fl -> fst ij < n /\ snd ij < n.

Record DInv (n : nat) (d0 : list Z) (l0 : list nat) (s : dm) : Prop := {
  D_len  : length (pos s) = n;
  D_perm : Permutation (pos s) (seq 0 n);
  D_dmod : dmod s = map (fun a => nth a d0 0%Z) (pos s);
  D_labs : labs s = map (fun a => nth a l0 0) (pos s)
}.

Lemma dinit_inv n d0 l0 : length d0 = n -> length l0 = n -> DInv n d0 l0 (dinit n d0 l0).
Proof.
  intros H1 H2. constructor; simpl.
  - apply seq_length.
  - apply Permutation_refl.
  - rewrite <- H1. symmetry. apply map_nth_seq.
  - rewrite <- H2. symmetry. apply map_nth_seq.
Qed.

Lemma dflip_inv n d0 l0 s i j : DInv n d0 l0 s -> i < n -> j < n -> DInv n d0 l0 (dflip i j s).
Proof.
  intros [L P D B] Hi Hj. constructor; simpl.
  - rewrite swapl_length. exact L.
  - eapply perm_trans; [apply swapl_perm; lia|exact P].
  - rewrite D. apply swapl_map'; lia.
  - rewrite B. apply swapl_map'; lia.
Qed.

Theorem dflips_inv n d0 l0 fl :
  length d0 = n -> length l0 = n -> valid_flips n fl -> DInv n d0 l0 (dflips fl (dinit n d0 l0)).
Proof.
  intros H1 H2 V. unfold dflips.
  assert (forall s, DInv n d0 l0 s -> DInv n d0 l0 (fold_left (fun s ij => dflip (fst ij) (snd ij) s) fl s)) as G.
  { induction fl as [|[i j] fl IH]; intros s I; simpl; auto.
    apply IH.
    - intros ij Hij. apply V. right. exact Hij.
    - apply dflip_inv; auto; apply (V (i, j)); left; reflexivity. }
  apply G. apply dinit_inv; auto.
Qed.

(* entries of the regularised / modified matrices in terms of ORIGINAL examples and attributes *)
Theorem e_reg_spec n d0 l0 fl i j :
  length d0 = n -> length l0 = n -> valid_flips n fl -> i < n -> j < n ->
  let s := dflips fl (dinit n d0 l0) in
  e_reg k0 s i j = (k0 (p s i) (p s j) + (if Nat.eqb i j then nth (p s i) d0 0 else 0))%Z.
Proof.
  intros H1 H2 V Hi Hj s. destruct (dflips_inv n d0 l0 fl H1 H2 V) as [L P D B]. fold s in L, P, D, B.
  unfold e_reg, e_kernel. f_equal. destruct (i =? j); auto. rewrite D.
  rewrite nth_indep with (d' := nth 0 d0 0%Z) by (rewrite map_length; lia).
  rewrite map_nth with (f := fun a => nth a d0 0%Z). reflexivity.
Qed.

Theorem e_mod_spec n d0 l0 fl eq ne i j :
  length d0 = n -> length l0 = n -> valid_flips n fl -> i < n -> j < n ->
  let s := dflips fl (dinit n d0 l0) in
  e_mod k0 eq ne s i j =
  ((if Nat.eqb (nth (p s i) l0 0%nat) (nth (p s j) l0 0%nat) then eq else ne) * k0 (p s i) (p s j))%Z.
Proof.
  intros H1 H2 V Hi Hj s. destruct (dflips_inv n d0 l0 fl H1 H2 V) as [L P D B]. fold s in L, P, D, B.
  unfold e_mod, e_kernel. rewrite B.
  rewrite !nth_indep with (d' := nth 0 l0 0) (n := i) by (rewrite map_length; lia).
  rewrite !nth_indep with (d' := nth 0 l0 0) (n := j) by (rewrite map_length; lia).
  rewrite !map_nth with (f := fun a => nth a l0 0). reflexivity.
Qed.

Theorem e_ex_spec n d0 l0 fl i j :
  length d0 = n -> length l0 = n -> valid_flips n fl -> i < n -> j < n ->
  let s := dflips fl (dinit n d0 l0) in
  e_ex k0 s i j = (k0 (p s i) (p s j) * 2 ^ (4 - Z.of_nat (nth (p s i) l0 0%nat) - Z.of_nat (nth (p s j) l0 0%nat)))%Z.
Proof.
  intros H1 H2 V Hi Hj s. destruct (dflips_inv n d0 l0 fl H1 H2 V) as [L P D B]. fold s in L, P, D, B.
  unfold e_ex, e_kernel. rewrite B.
  rewrite !nth_indep with (d' := nth 0 l0 0) (n := i) by (rewrite map_length; lia).
  rewrite !nth_indep with (d' := nth 0 l0 0) (n := j) by (rewrite map_length; lia).
  rewrite !map_nth with (f := fun a => nth a l0 0). reflexivity.
Qed.

(* PrecomputedMatrix: swapping rows and columns of the stored matrix = re-indexing by the flipped order *)
Lemma m_flip_spec n (m : mat) i j a b :
  length m = n -> (forall r, r < n -> length (nth r m []) = n) -> i < n -> j < n -> a < n -> b < n ->
  m_entry (m_flip i j m) a b = m_entry m (tr i j a) (tr i j b).
Proof.
  intros L R Hi Hj Ha Hb. unfold m_entry, m_flip.
  assert (La : a < length (map (swapl 0%Z i j) (swapl [] i j m))) by (rewrite map_length, swapl_length, L; exact Ha).
  rewrite (nth_indep _ [] (swapl 0%Z i j []) La).
  rewrite map_nth. rewrite (nth_swapl [] i j m a) by (rewrite L; assumption).
  assert (Lr : length (nth (tr i j a) m []) = n) by (apply R; apply tr_lt; assumption).
  rewrite nth_swapl by (rewrite Lr; assumption). reflexivity.
Qed.

End Derived.
