(* C04 — Conv2DModel, part 2: the coded derivatives are the adjoints of the (bilinear) convolution.
   Any commutative ring, axiom-free.  Model: C04Conv.v; kernel views: C04ConvProofs.v. *)
From Coq Require Import List Arith Bool Lia Ring PeanoNat ArithRing.
From SharkV Require Import C04Model C04Conv C04Aux C04Proofs C04SumProofs C04ConvProofs.
Import ListNotations.

Ltac bs_under n tac :=
  lazymatch n with
  | O => tac
  | S ?k => apply bsum_ext; intros ? ?; cbv beta; bs_under k tac
  end.

Section ConvDeriv.
Variable A : Type.
Variables (zero one : A) (add mul sub : A -> A -> A) (opp : A -> A).
Hypothesis Rth : ring_theory zero one add mul sub opp eq.
Add Ring AringD : Rth.

Infix "+" := add : CA_scope.
Infix "*" := mul : CA_scope.
Local Open Scope CA_scope.
Notation getA := (get zero).
Notation bsumA := (bsum zero add).
Notation dotA := (dot zero add mul).
Notation kernelA := (conv2d_kernel zero add mul).
Notation PadA := (Pad A zero).
Notation bsum_zeropR := (bsum_zero' A zero one add mul sub opp Rth).
Notation bsum_zeroR := (bsum_zero A zero one add mul sub opp Rth).
Notation bsum_addR := (bsum_add A zero one add mul sub opp Rth).
Notation bsum_mul_lR := (bsum_mul_l A zero one add mul sub opp Rth).
Notation bsum_mul_rR := (bsum_mul_r A zero one add mul sub opp Rth).
Notation bsum_swapR := (bsum_swap A zero one add mul sub opp Rth).
Notation bsum_prodR := (bsum_prod A zero one add mul sub opp Rth).
Notation bsum_revR := (bsum_rev A zero one add mul sub opp Rth).
Notation bsum_truncR := (bsum_trunc A zero one add mul sub opp Rth).
Notation bsum_indR := (bsum_ind A zero one add mul sub opp Rth).
Notation bsum_ifR := (bsum_if A zero one add mul sub opp Rth).
Notation dot_tab_lR := (dot_tab_l A zero one add mul sub opp Rth).
Notation dot_getR := (dot_get A zero one add mul sub opp Rth).
Notation fr_bsumR := (fr_bsum A zero one add mul sub opp Rth).
Notation kernel_specR := (kernel_spec A zero one add mul sub opp Rth).

Ltac sw k := etransitivity; [ bs_under k ltac:(apply bsum_swapR) | ]; cbv beta.

(* ---------------- re-indexing one axis of a convolution ----------------
   triples (i, i1, a) with  i < n (output), i1 < k (filter), a < m (input), a + s = i + i1  are enumerated
   from the output side (forward convolution, s leading padding) and from the input side (convolution with the
   flipped filter, padded to k' >= k taps, s' = k - 1 - s leading padding) *)
Lemma conv_axis n k m s s' k' (G : nat -> nat -> nat -> A) :
  (s + s' + 1 = k)%nat -> k <= k' ->
  bsumA n (fun i => bsumA k (fun i1 =>
     if (s <=? i + i1) && (i + i1 <? m + s) then G i i1 (i + i1 - s)%nat else zero)) =
  bsumA m (fun a => bsumA k' (fun i1' =>
     if (s' <=? a + i1') && (a + i1' <? n + s')
     then (if i1' <? k then G (a + i1' - s')%nat (k - 1 - i1')%nat a else zero) else zero)).
Proof.
  intros Es Hk.
  transitivity (bsumA n (fun i => bsumA k (fun i1 => bsumA m (fun a => if (a + s =? i + i1)%nat then G i i1 a else zero)))).
  { apply bsum_ext; intros i Hi. apply bsum_ext; intros i1 Hi1. symmetry. apply (bsum_indR m s (i + i1)%nat (G i i1)). }
  transitivity (bsumA m (fun a => bsumA k (fun i1 => bsumA n (fun i => if (a + s =? i + i1)%nat then G i i1 a else zero)))).
  { sw 1. sw 0. sw 1. reflexivity. }
  apply bsum_ext; intros a Ha.
  rewrite (bsum_truncR k k') by (auto; intros i1' L1 L2; replace (i1' <? k) with false by (symmetry; apply Nat.ltb_ge; auto); destruct (_ && _); reflexivity).
  rewrite (bsum_revR k (fun i1' => if (s' <=? a + i1') && (a + i1' <? n + s')
     then (if i1' <? k then G (a + i1' - s')%nat (k - 1 - i1')%nat a else zero) else zero)).
  apply bsum_ext; intros i1 Hi1. cbv beta.
  replace (k - 1 - i1 <? k) with true by (symmetry; apply Nat.ltb_lt; lia).
  replace (k - 1 - (k - 1 - i1))%nat with i1 by lia.
  rewrite <- (bsum_indR n s' (a + (k - 1 - i1))%nat (fun i => G i i1 a)).
  apply bsum_ext. intros i Hi.
  replace (i + s' =? a + (k - 1 - i1))%nat with (a + s =? i + i1)%nat; auto.
  destruct (a + s =? i + i1)%nat eqn:E1; symmetry.
  - apply Nat.eqb_eq in E1. apply Nat.eqb_eq. lia.
  - apply Nat.eqb_neq in E1. apply Nat.eqb_neq. lia.
Qed.

(* ---------------- forward convolution vs. convolution with the flipped filters, as sums ---------------- *)
Section Axes.
Variables (C F H W fh fw oh ow s1 s2 bph bpw s1' s2' : nat).
Hypothesis (E1 : (s1 + s1' + 1 = fh)%nat) (E2 : (s2 + s2' + 1 = fw)%nat) (L1 : fh <= bph) (L2 : fw <= bpw).
Variables D x w : list A.

(* <D, conv(x, w)> : output pixel (i, j), filter f, filter position (i1, j1), channel c *)
Definition Tfwd : A :=
  bsumA oh (fun i => bsumA ow (fun j => bsumA F (fun f => bsumA fh (fun i1 => bsumA fw (fun j1 => bsumA C (fun c =>
    getA D ((i * ow + j) * F + f)%nat *
    (PadA H W C s1 s2 x (i + i1)%nat (j + j1)%nat c * getA w (f * (fw * fh * C) + ((i1 * fw + j1) * C + c))%nat))))))).

(* <conv(D, flipped w), x> : input pixel (a, b), channel c, position (i1', j1') in the (enlarged) flipped filter, filter f *)
Definition Tbwd : A :=
  bsumA H (fun a => bsumA W (fun b => bsumA C (fun c =>
    bsumA bph (fun i1' => bsumA bpw (fun j1' => bsumA F (fun f =>
      PadA oh ow F s1' s2' D (a + i1')%nat (b + j1')%nat f *
      (if (i1' <? fh) && (j1' <? fw)
       then getA w (f * (fw * fh * C) + (((fh - 1 - i1') * fw + (fw - 1 - j1')) * C + c))%nat else zero)))) *
    getA x ((a * W + b) * C + c)%nat))).

Definition G2 (i i1 a j j1 b : nat) : A :=
  bsumA F (fun f => bsumA C (fun c =>
    getA D ((i * ow + j) * F + f)%nat * (getA x ((a * W + b) * C + c)%nat * getA w (f * (fw * fh * C) + ((i1 * fw + j1) * C + c))%nat))).

Definition Gcol (i i1 a : nat) : A :=
  bsumA ow (fun j => bsumA fw (fun j1 =>
    if (s2 <=? j + j1) && (j + j1 <? W + s2) then G2 i i1 a j j1 (j + j1 - s2)%nat else zero)).

Lemma Tfwd_rows :
  Tfwd = bsumA oh (fun i => bsumA fh (fun i1 =>
           if (s1 <=? i + i1) && (i + i1 <? H + s1) then Gcol i i1 (i + i1 - s1)%nat else zero)).
Proof.
  unfold Tfwd. sw 2. sw 1. sw 3.
  apply bsum_ext; intros i Hi. apply bsum_ext; intros i1 Hi1. unfold Pad.
  destruct ((s1 <=? i + i1) && (i + i1 <? H + s1)).
  - unfold Gcol. apply bsum_ext; intros j Hj. apply bsum_ext; intros j1 Hj1.
    destruct ((s2 <=? j + j1) && (j + j1 <? W + s2)).
    + reflexivity.
    + apply bsum_zeropR. intros f _. apply bsum_zeropR. intros c _. ring.
  - apply bsum_zeropR. intros j _. apply bsum_zeropR. intros j1 _. apply bsum_zeropR. intros f _. apply bsum_zeropR. intros c _. ring.
Qed.

Definition Gcol' (i i1 a : nat) : A :=
  bsumA W (fun b => bsumA bpw (fun j1' =>
    if (s2' <=? b + j1') && (b + j1' <? ow + s2')
    then (if j1' <? fw then G2 i i1 a (b + j1' - s2')%nat (fw - 1 - j1')%nat b else zero) else zero)).

Lemma Gcol_flip i i1 a : Gcol i i1 a = Gcol' i i1 a.
Proof. unfold Gcol, Gcol'. apply (conv_axis ow fw W s2 s2' bpw (fun j j1 b => G2 i i1 a j j1 b)); auto. Qed.

Lemma Tbwd_rows :
  Tbwd = bsumA H (fun a => bsumA bph (fun i1' =>
           if (s1' <=? a + i1') && (a + i1' <? oh + s1')
           then (if i1' <? fh then Gcol' (a + i1' - s1')%nat (fh - 1 - i1')%nat a else zero) else zero)).
Proof.
  unfold Tbwd.
  (* push x inside *)
  etransitivity.
  { apply bsum_ext; intros a Ha. apply bsum_ext; intros b Hb. apply bsum_ext; intros c Hc.
    rewrite bsum_mul_rR. apply bsum_ext; intros i1' Hi1. rewrite bsum_mul_rR. apply bsum_ext; intros j1' Hj1.
    rewrite bsum_mul_rR. reflexivity. }
  cbv beta. sw 2. sw 1. sw 3. sw 4.
  apply bsum_ext; intros a Ha. apply bsum_ext; intros i1' Hi1. unfold Pad.
  destruct ((s1' <=? a + i1') && (a + i1' <? oh + s1')).
  - destruct (i1' <? fh) eqn:Ei; cbn [andb].
    + unfold Gcol'. apply bsum_ext; intros b Hb. apply bsum_ext; intros j1' Hj1.
      destruct ((s2' <=? b + j1') && (b + j1' <? ow + s2')).
      * destruct (j1' <? fw).
        -- unfold G2. apply bsum_ext; intros f Hf. apply bsum_ext; intros c Hc. ring.
        -- apply bsum_zeropR. intros f _. apply bsum_zeropR. intros c _. ring.
      * apply bsum_zeropR. intros f _. apply bsum_zeropR. intros c _. ring.
    + apply bsum_zeropR. intros b _. apply bsum_zeropR. intros j1' _. apply bsum_zeropR. intros f _. apply bsum_zeropR. intros c _.
      destruct ((s2' <=? b + j1') && (b + j1' <? ow + s2')); ring.
  - apply bsum_zeropR. intros b _. apply bsum_zeropR. intros j1' _. apply bsum_zeropR. intros f _. apply bsum_zeropR. intros c _. ring.
Qed.

Theorem fwd_bwd : Tfwd = Tbwd.
Proof.
  rewrite Tfwd_rows, Tbwd_rows.
  rewrite (conv_axis oh fh H s1 s1' bph Gcol) by auto.
  apply bsum_ext; intros a Ha. apply bsum_ext; intros i1' Hi1.
  destruct ((s1' <=? a + i1') && (a + i1' <? oh + s1')); auto.
  destruct (i1' <? fh); auto. apply Gcol_flip.
Qed.

End Axes.

(* ---------------- geometry of the backprop convolution ---------------- *)
Definition bpad_h (g : cgeo) : nat := if gpad g then (bp_h g - 1)%nat else ((bp_h g - 1) * 2)%nat.
Definition bpad_w (g : cgeo) : nat := if gpad g then (bp_w g - 1)%nat else ((bp_w g - 1) * 2)%nat.

Lemma half_facts (fh : nat) (e : bool) : 1 <= fh -> Nat.even fh = e ->
  ((fh - 1) / 2 + (fh + (if e then 1 else 0) - 1) / 2 + 1 = fh)%nat.
Proof.
  intros L E. destruct e.
  - apply Nat.even_spec in E. destruct E as [k ->].
    pose proof (Nat.div_mod (2 * k - 1) 2). pose proof (Nat.mod_upper_bound (2 * k - 1) 2).
    pose proof (Nat.div_mod (2 * k + 1 - 1) 2). pose proof (Nat.mod_upper_bound (2 * k + 1 - 1) 2). lia.
  - assert (O : Nat.odd fh = true) by (rewrite <- Nat.negb_even, E; reflexivity).
    apply Nat.odd_spec in O. destruct O as [k ->].
    pose proof (Nat.div_mod (2 * k + 1 - 1) 2). pose proof (Nat.mod_upper_bound (2 * k + 1 - 1) 2).
    pose proof (Nat.div_mod (2 * k + 1 + 0 - 1) 2). pose proof (Nat.mod_upper_bound (2 * k + 1 + 0 - 1) 2). lia.
Qed.

Lemma geo_bp_h g : geo_ok g ->
  (out_h g + 1 + bpad_h g - bp_h g = gH g)%nat /\ (pad_h g / 2 + bpad_h g / 2 + 1 = gfh g)%nat /\ gfh g <= bp_h g.
Proof.
  intros (A1 & A2 & A3 & A4 & A5). unfold bpad_h, bp_h, out_h, pad_h. destruct (gpad g); cbn [andb].
  - pose proof (half_facts (gfh g) (Nat.even (gfh g)) A1 eq_refl) as HF.
    destruct (Nat.even (gfh g)); repeat split; try lia; try exact HF.
  - destruct A5 as [B1 B2]; auto. rewrite Nat.add_0_r. rewrite Nat.div_mul by lia. change (0 / 2)%nat with 0%nat. repeat split; lia.
Qed.

Lemma geo_bp_w g : geo_ok g ->
  (out_w g + 1 + bpad_w g - bp_w g = gW g)%nat /\ (pad_w g / 2 + bpad_w g / 2 + 1 = gfw g)%nat /\ gfw g <= bp_w g.
Proof.
  intros (A1 & A2 & A3 & A4 & A5). unfold bpad_w, bp_w, out_w, pad_w. destruct (gpad g); cbn [andb].
  - pose proof (half_facts (gfw g) (Nat.even (gfw g)) A2 eq_refl) as HF.
    destruct (Nat.even (gfw g)); repeat split; try lia; try exact HF.
  - destruct A5 as [B1 B2]; auto. rewrite Nat.add_0_r. rewrite Nat.div_mul by lia. change (0 / 2)%nat with 0%nat. repeat split; lia.
Qed.

(* updateBackpropFilters: entry (c, i', j', f) of the backprop filters *)
Lemma bp_view g (w : list A) c i' j' f :
  c < gC g -> i' < bp_h g -> j' < bp_w g -> f < gF g ->
  getA (bp_filters zero g w) (c * (bp_w g * bp_h g * gF g) + ((i' * bp_w g + j') * gF g + f))%nat =
  if (i' <? gfh g) && (j' <? gfw g)
  then getA w (f * (gfw g * gfh g * gC g) + (((gfh g - 1 - i') * gfw g + (gfw g - 1 - j')) * gC g + c))%nat else zero.
Proof.
  intros Hc Hi Hj Hf. unfold bp_filters.
  set (bpsize := (gF g * bp_w g * bp_h g)%nat).
  replace (bp_w g * bp_h g * gF g)%nat with bpsize by (unfold bpsize; ring).
  set (r := ((i' * bp_w g + j') * gF g + f)%nat).
  assert (Hr : r < bpsize).
  { unfold r, bpsize. replace (gF g * bp_w g * bp_h g)%nat with (bp_h g * bp_w g * gF g)%nat by ring.
    apply lt_prod_l; auto. apply lt_prod_l; auto. }
  rewrite get_tab by (apply lt_prod_l; auto).
  rewrite (dm_div c bpsize r Hr), (dm_mod c bpsize r Hr). unfold r.
  rewrite (dm_div _ (gF g) f Hf), (dm_mod _ (gF g) f Hf), (dm_div i' (bp_w g) j' Hj), (dm_mod i' (bp_w g) j' Hj).
  destruct (i' <? gfh g) eqn:Ei; cbn [andb]; auto.
  destruct (j' <? gfw g) eqn:Ej; auto.
  apply Nat.ltb_lt in Ei. apply Nat.ltb_lt in Ej. f_equal.
  replace (gfh g - i' - 1)%nat with (gfh g - 1 - i')%nat by lia.
  replace ((gfh g - 1 - i') * gfw g + gfw g - j' - 1)%nat with ((gfh g - 1 - i') * gfw g + (gfw g - 1 - j'))%nat
    by (generalize ((gfh g - 1 - i') * gfw g)%nat; intros; lia).
  ring.
Qed.

(* weightedInputDerivative (after delta): row r is the adjoint of x |-> conv(x, w), tested against any x *)
Theorem input_adjoint g (w : list A) Ds x r :
  geo_ok g -> r < length Ds ->
  dotA (nth r (conv_wid_d zero add mul g (bp_filters zero g w) Ds) []) x =
  Tfwd (gC g) (gF g) (gH g) (gW g) (gfh g) (gfw g) (out_h g) (out_w g) (pad_h g / 2) (pad_w g / 2) (nth r Ds []) x w.
Proof.
  intros G Hr. pose proof G as (A1 & A2 & A3 & A4 & A5).
  destruct (geo_bp_h g G) as (EH & Es1 & Lh). destruct (geo_bp_w g G) as (EW & Es2 & Lw).
  rewrite (fwd_bwd (gC g) (gF g) (gH g) (gW g) (gfh g) (gfw g) (out_h g) (out_w g) (pad_h g / 2) (pad_w g / 2)
                   (bp_h g) (bp_w g) (bpad_h g / 2) (bpad_w g / 2) Es1 Es2 Lh Lw).
  unfold conv_wid_d. fold (bpad_h g) (bpad_w g).
  set (K := kernelA (gF g) (gC g) (out_h g) (out_w g) (bp_h g) (bp_w g) (bpad_h g) (bpad_w g) Ds (bp_filters zero g w)).
  assert (LK : length (nth r K []) = (gH g * gW g * gC g)%nat).
  { unfold K. rewrite (rows_nth _ _ r (kernel_rows A zero add mul _ _ _ _ _ _ _ _ _ _)) by (rewrite kernel_length; auto).
    rewrite EH, EW. reflexivity. }
  rewrite dot_getR, LK. rewrite bsum_prodR. rewrite bsum_prodR. unfold Tbwd.
  apply bsum_ext; intros a Ha. apply bsum_ext; intros b Hb. apply bsum_ext; intros c Hc. f_equal.
  pose proof (kernel_specR (gF g) (gC g) (out_h g) (out_w g) (bp_h g) (bp_w g) (bpad_h g) (bpad_w g) Ds (bp_filters zero g w) r
                (a * gW g + b)%nat c) as KS.
  cbv zeta in KS. rewrite EH, EW in KS. fold K in KS.
  rewrite KS by (auto; apply lt_prod_l; auto). clear KS.
  rewrite bsum_prodR. apply bsum_ext; intros i1' Hi1. apply bsum_ext; intros j1' Hj1.
  rewrite (dm_div a (gW g) b Hb), (dm_mod a (gW g) b Hb), (dm_div i1' (bp_w g) j1' Hj1), (dm_mod i1' (bp_w g) j1' Hj1).
  apply bsum_ext; intros f Hf. f_equal. apply bp_view; auto.
Qed.

(* ---------------- image::reorder for the two format pairs Conv2DModel uses ---------------- *)
Lemma perm_NHWC_CHWN : map (fun d => index_of d (digits 1234)) (digits 4231) = [3; 1; 2; 0]%nat.
Proof. vm_compute. reflexivity. Qed.
Lemma perm_CHWN_NHWC : map (fun d => index_of d (digits 4231)) (digits 1234) = [3; 1; 2; 0]%nat.
Proof. vm_compute. reflexivity. Qed.
Lemma fmt_neq1 : (1234 =? 4231) = false. Proof. vm_compute. reflexivity. Qed.
Lemma fmt_neq2 : (4231 =? 1234) = false. Proof. vm_compute. reflexivity. Qed.

Definition fmt_pair (oi oo : nat) : Prop := (oi = fmt_NHWC /\ oo = fmt_CHWN) \/ (oi = fmt_CHWN /\ oo = fmt_NHWC).

Lemma reorder_length (v : list A) d0 d1 d2 d3 oi oo :
  fmt_pair oi oo -> length (reorder zero v [d0; d1; d2; d3] oi oo) = (d3 * d1 * d2 * d0)%nat.
Proof.
  intros [[-> ->]|[-> ->]]; unfold reorder, fmt_NHWC, fmt_CHWN; cbv zeta.
  - rewrite fmt_neq1, perm_NHWC_CHWN. rewrite tab_length. reflexivity.
  - rewrite fmt_neq2, perm_CHWN_NHWC. rewrite tab_length. reflexivity.
Qed.

(* the outermost dimension becomes the innermost and vice versa *)
Lemma reorder_get (v : list A) d0 d1 d2 d3 oi oo a0 a1 a2 a3 :
  fmt_pair oi oo -> a0 < d0 -> a1 < d1 -> a2 < d2 -> a3 < d3 ->
  getA (reorder zero v [d0; d1; d2; d3] oi oo) (((a3 * d1 + a1) * d2 + a2) * d0 + a0)%nat =
  getA v (((a0 * d1 + a1) * d2 + a2) * d3 + a3)%nat.
Proof.
  intros FP H0 H1 H2 H3.
  assert (E : reorder zero v [d0; d1; d2; d3] oi oo =
              tab (d3 * d1 * d2 * d0) (fun e =>
                getA v (1 * (e / (d0 * d2 * d1)) + d2 * (d3 * 1) * ((e / (d0 * d2)) mod d1) + d3 * 1 * ((e / d0) mod d2) +
                        d1 * (d2 * (d3 * 1)) * (e mod d0))%nat)).
  { destruct FP as [[-> ->]|[-> ->]]; unfold reorder, fmt_NHWC, fmt_CHWN; cbv zeta.
    - rewrite fmt_neq1, perm_NHWC_CHWN. reflexivity.
    - rewrite fmt_neq2, perm_CHWN_NHWC. reflexivity. }
  rewrite E. clear E.
  set (e1 := ((a3 * d1 + a1) * d2 + a2)%nat).
  assert (B1 : e1 < (d3 * d1 * d2)%nat) by (unfold e1; apply lt_prod_l; auto; apply lt_prod_l; auto).
  rewrite get_tab by (apply lt_prod_l; auto).
  rewrite (dm_mod e1 d0 a0 H0).
  assert (N02 : (d0 * d2)%nat <> 0%nat) by (apply Nat.neq_mul_0; lia).
  rewrite <- (Nat.div_div _ (d0 * d2) d1) by (auto; lia). rewrite <- !(Nat.div_div _ d0 d2) by lia.
  rewrite (dm_div e1 d0 a0 H0). unfold e1.
  rewrite (dm_div _ d2 a2 H2), (dm_mod _ d2 a2 H2), (dm_div a3 d1 a1 H1), (dm_mod a3 d1 a1 H1).
  f_equal. ring.
Qed.

(* ---------------- <D, row r of conv(imgs, w)> as a sum ---------------- *)
Notation conv_linA g X w := (kernelA (gC g) (gF g) (gH g) (gW g) (gfh g) (gfw g) (pad_h g) (pad_w g) X w).
Notation TfwdG g := (Tfwd (gC g) (gF g) (gH g) (gW g) (gfh g) (gfw g) (out_h g) (out_w g) (pad_h g / 2) (pad_w g / 2)).

Lemma lin_rows g X w : geo_ok g -> rows (conv_nout g) (conv_linA g X w).
Proof. intros G. unfold conv_nout. rewrite <- (geo_oh g G), <- (geo_ow g G). apply kernel_rows. Qed.

Theorem forward_sum g (X : list (list A)) (w D : list A) r :
  geo_ok g -> r < length X -> length D = conv_nout g ->
  dotA D (nth r (conv_linA g X w) []) = TfwdG g D (nth r X []) w.
Proof.
  intros G Hr LD. pose proof G as (A1 & A2 & A3 & A4 & A5).
  rewrite dot_getR, LD. unfold conv_nout, Tfwd. rewrite bsum_prodR, bsum_prodR.
  apply bsum_ext; intros i Hi. apply bsum_ext; intros j Hj. apply bsum_ext; intros f Hf.
  pose proof (kernel_specR (gC g) (gF g) (gH g) (gW g) (gfh g) (gfw g) (pad_h g) (pad_w g) X w r (i * out_w g + j)%nat f) as KS.
  cbv zeta in KS. rewrite (geo_oh g G), (geo_ow g G) in KS.
  rewrite KS by (auto; apply lt_prod_l; auto). clear KS.
  rewrite bsum_prodR. rewrite bsum_mul_lR. apply bsum_ext; intros i1 Hi1. rewrite bsum_mul_lR. apply bsum_ext; intros j1 Hj1.
  rewrite bsum_mul_lR. apply bsum_ext; intros c Hc.
  rewrite (dm_div i (out_w g) j Hj), (dm_mod i (out_w g) j Hj), (dm_div i1 (gfw g) j1 Hj1), (dm_mod i1 (gfw g) j1 Hj1).
  reflexivity.
Qed.

(* ---------------- weightedParameterDerivative (after delta) ---------------- *)
Definition ograd (g : cgeo) (n : nat) (Ds : list (list A)) : list A :=
  tab (gF g) (fun f => bsumA (n * conv_nout g / gF g) (fun r => getA (concat Ds) (r * gF g + f)%nat)).
Definition inputs_CHWN (g : cgeo) (X : list (list A)) : list (list A) :=
  chunk (conv_nin g / gC g * length X) (gC g) (reorder zero (concat X) [length X; gH g; gW g; gC g] fmt_NHWC fmt_CHWN).
Definition delta_CHWN (g : cgeo) (n : nat) (Ds : list (list A)) : list A :=
  reorder zero (concat Ds) [n; out_h g; out_w g; gF g] fmt_NHWC fmt_CHWN.
Definition wgrad (g : cgeo) (X Ds : list (list A)) : list A :=
  reorder zero (concat (kernelA (length X) (gF g) (gH g) (gW g) (out_h g) (out_w g) (pad_h g) (pad_w g)
                                (inputs_CHWN g X) (delta_CHWN g (length X) Ds)))
          [gC g; gfh g; gfw g; gF g] fmt_CHWN fmt_NHWC.

Lemma wpd_d_split g X Ds : conv_wpd_d zero add mul g X Ds = wgrad g X Ds ++ ograd g (length X) Ds.
Proof. reflexivity. Qed.

Lemma fp1 : fmt_pair fmt_NHWC fmt_CHWN. Proof. left; auto. Qed.
Lemma fp2 : fmt_pair fmt_CHWN fmt_NHWC. Proof. right; auto. Qed.

Lemma wgrad_length g X Ds : length (wgrad g X Ds) = conv_nflt g.
Proof. unfold wgrad. rewrite (reorder_length _ _ _ _ _ _ _ fp2). unfold conv_nflt. ring. Qed.

(* pixel (a', b') of the padded image number c of inputs_CHWN, channel b  =  pixel (a', b') of the padded image b, channel c *)
Lemma pad_CHWN g X s1 s2 a' b' b c :
  1 <= gC g -> rows (conv_nin g) X -> c < gC g -> b < length X ->
  PadA (gH g) (gW g) (length X) s1 s2 (nth c (inputs_CHWN g X) []) a' b' b =
  PadA (gH g) (gW g) (gC g) s1 s2 (nth b X []) a' b' c.
Proof.
  intros A3 RX Hc Hb. unfold Pad.
  destruct ((s1 <=? a') && (a' <? gH g + s1)) eqn:Er; auto.
  destruct ((s2 <=? b') && (b' <? gW g + s2)) eqn:Ec; auto.
  apply andb_true_iff in Er. destruct Er as [Er1 Er2]. apply Nat.leb_le in Er1. apply Nat.ltb_lt in Er2.
  apply andb_true_iff in Ec. destruct Ec as [Ec1 Ec2]. apply Nat.leb_le in Ec1. apply Nat.ltb_lt in Ec2.
  set (a := (a' - s1)%nat). set (b2 := (b' - s2)%nat).
  assert (Ha : a < gH g) by (unfold a; lia). assert (Hb2 : b2 < gW g) by (unfold b2; lia).
  unfold inputs_CHWN. rewrite get_chunk by auto.
  assert (EN : (conv_nin g / gC g = gH g * gW g)%nat) by (unfold conv_nin; apply Nat.div_mul; lia).
  rewrite EN.
  replace ((a * gW g + b2) * length X + b <? gH g * gW g * length X) with true
    by (symmetry; apply Nat.ltb_lt; apply lt_prod_l; auto; apply lt_prod_l; auto).
  replace (c * (gH g * gW g * length X) + ((a * gW g + b2) * length X + b))%nat
    with (((c * gH g + a) * gW g + b2) * length X + b)%nat by ring.
  rewrite (reorder_get _ _ _ _ _ _ _ _ _ _ _ fp1) by auto.
  replace (((b * gH g + a) * gW g + b2) * gC g + c)%nat with (b * conv_nin g + ((a * gW g + b2) * gC g + c))%nat
    by (unfold conv_nin; ring).
  apply get_concat; auto. unfold conv_nin. apply lt_prod_l; auto. apply lt_prod_l; auto.
Qed.

Lemma geo_fh g : geo_ok g -> (gH g + 1 + pad_h g - out_h g = gfh g)%nat /\ (gW g + 1 + pad_w g - out_w g = gfw g)%nat.
Proof.
  intros (A1 & A2 & A3 & A4 & A5). unfold pad_h, pad_w, out_h, out_w. destruct (gpad g); [lia|].
  destruct A5; auto. lia.
Qed.

Theorem wgrad_adjoint g X Ds dw :
  geo_ok g -> rows (conv_nin g) X -> rows (conv_nout g) Ds -> length Ds = length X ->
  dotA (wgrad g X Ds) dw = bsumA (length X) (fun r => TfwdG g (nth r Ds []) (nth r X []) dw).
Proof.
  intros G RX RD LD. pose proof G as (A1 & A2 & A3 & A4 & A5). destruct (geo_fh g G) as [Efh Efw].
  set (n := length X) in *.
  rewrite dot_getR, wgrad_length. unfold conv_nflt.
  replace (gfh g * gfw g * gF g * gC g)%nat with (gF g * gfh g * gfw g * gC g)%nat by ring.
  rewrite bsum_prodR, bsum_prodR, bsum_prodR.
  (* the summand, entry by entry *)
  transitivity (bsumA (gF g) (fun f => bsumA (gfh g) (fun i1 => bsumA (gfw g) (fun j1 => bsumA (gC g) (fun c =>
                  bsumA (out_h g) (fun i => bsumA (out_w g) (fun j => bsumA n (fun b =>
                    getA (nth b Ds []) ((i * out_w g + j) * gF g + f)%nat *
                    (PadA (gH g) (gW g) (gC g) (pad_h g / 2) (pad_w g / 2) (nth b X []) (i + i1)%nat (j + j1)%nat c *
                     getA dw (f * (gfw g * gfh g * gC g) + ((i1 * gfw g + j1) * gC g + c))%nat))))))))).
  { apply bsum_ext; intros f Hf. apply bsum_ext; intros i1 Hi1. apply bsum_ext; intros j1 Hj1. apply bsum_ext; intros c Hc.
    unfold wgrad. fold n.
    rewrite (reorder_get _ _ _ _ _ _ _ _ _ _ _ fp2) by auto.
    set (K := kernelA n (gF g) (gH g) (gW g) (out_h g) (out_w g) (pad_h g) (pad_w g) (inputs_CHWN g X) (delta_CHWN g n Ds)).
    assert (RK : rows (gfh g * gfw g * gF g) K).
    { pose proof (kernel_rows A zero add mul n (gF g) (gH g) (gW g) (out_h g) (out_w g) (pad_h g) (pad_w g) (inputs_CHWN g X) (delta_CHWN g n Ds)) as R.
      rewrite Efh, Efw in R. exact R. }
    replace (((c * gfh g + i1) * gfw g + j1) * gF g + f)%nat with (c * (gfh g * gfw g * gF g) + ((i1 * gfw g + j1) * gF g + f))%nat by ring.
    rewrite (get_concat A zero _ K c _ RK) by (apply lt_prod_l; auto; apply lt_prod_l; auto).
    pose proof (kernel_specR n (gF g) (gH g) (gW g) (out_h g) (out_w g) (pad_h g) (pad_w g) (inputs_CHWN g X) (delta_CHWN g n Ds) c
                  (i1 * gfw g + j1)%nat f) as KS.
    cbv zeta in KS. rewrite Efh, Efw in KS. fold K in KS.
    rewrite KS; [|unfold inputs_CHWN; rewrite chunk_length; auto|apply lt_prod_l; auto|auto]. clear KS.
    rewrite bsum_prodR. rewrite bsum_mul_rR. apply bsum_ext; intros i Hi. rewrite bsum_mul_rR. apply bsum_ext; intros j Hj.
    rewrite bsum_mul_rR. apply bsum_ext; intros b Hb.
    rewrite (dm_div i1 (gfw g) j1 Hj1), (dm_mod i1 (gfw g) j1 Hj1), (dm_div i (out_w g) j Hj), (dm_mod i (out_w g) j Hj).
    rewrite (pad_CHWN g X _ _ _ _ b c A3 RX Hc Hb).
    unfold delta_CHWN.
    replace (f * (out_w g * out_h g * n) + ((i * out_w g + j) * n + b))%nat with (((f * out_h g + i) * out_w g + j) * n + b)%nat by ring.
    rewrite (reorder_get _ _ _ _ _ _ _ _ _ _ _ fp1) by auto.
    replace (((b * out_h g + i) * out_w g + j) * gF g + f)%nat with (b * conv_nout g + ((i * out_w g + j) * gF g + f))%nat
      by (unfold conv_nout; ring).
    rewrite (get_concat A zero (conv_nout g) Ds b _ RD) by (unfold conv_nout; apply lt_prod_l; auto; apply lt_prod_l; auto).
    rewrite (Nat.add_comm i1 i), (Nat.add_comm j1 j).
    replace (((f * gfh g + i1) * gfw g + j1) * gC g + c)%nat with (f * (gfw g * gfh g * gC g) + ((i1 * gfw g + j1) * gC g + c))%nat by ring.
    ring. }
  (* (f, i1, j1, c, i, j, b) -> (b, i, j, f, i1, j1, c) *)
  sw 5. sw 4. sw 3. sw 2. sw 1. sw 0.
  sw 4. sw 3. sw 2. sw 1.
  sw 5. sw 4. sw 3. sw 2.
  reflexivity.
Qed.

Theorem ograd_adjoint g (X Ds : list (list A)) db :
  geo_ok g -> rows (conv_nout g) Ds -> length Ds = length X ->
  dotA (ograd g (length X) Ds) db =
  bsumA (length X) (fun r => bsumA (conv_nout g) (fun o => getA (nth r Ds []) o * getA db (o mod gF g))).
Proof.
  intros G RD LD. pose proof G as (A1 & A2 & A3 & A4 & A5). set (n := length X) in *.
  unfold ograd. rewrite dot_tab_lR.
  assert (EN : (n * conv_nout g / gF g = n * (out_h g * out_w g))%nat).
  { unfold conv_nout. rewrite !Nat.mul_assoc. apply Nat.div_mul. lia. }
  rewrite EN.
  transitivity (bsumA (gF g) (fun f => bsumA n (fun r => bsumA (out_h g * out_w g) (fun p =>
                  getA (nth r Ds []) (p * gF g + f)%nat * getA db f)))).
  { apply bsum_ext; intros f Hf. rewrite bsum_prodR, bsum_mul_rR. apply bsum_ext; intros r Hr.
    rewrite bsum_mul_rR. apply bsum_ext; intros p Hp. f_equal.
    replace ((r * (out_h g * out_w g) + p) * gF g + f)%nat with (r * conv_nout g + (p * gF g + f))%nat by (unfold conv_nout; ring).
    apply get_concat; auto. unfold conv_nout. apply lt_prod_l; auto. }
  sw 0. apply bsum_ext; intros r Hr. sw 0. unfold conv_nout. rewrite (bsum_prodR (out_h g * out_w g)%nat (gF g)).
  apply bsum_ext; intros p Hp. apply bsum_ext; intros f Hf. rewrite (dm_mod p (gF g) f Hf). reflexivity.
Qed.

End ConvDeriv.
