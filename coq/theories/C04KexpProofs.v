(* C04 — KernelExpansion (model C04Kexp.v): batch = single, parameter round trip and count, the value does not depend on how the
   basis is cut into batches, and the expansion is linear in its parameter vector (exact identity; KernelExpansion advertises no
   derivative, so there is no coded gradient to compare with).  Any kernel function, any commutative ring, axiom-free. *)
From Coq Require Import List Arith Bool Lia Ring PeanoNat.
From SharkV Require Import C04Model C04Conv C04Kexp C04Aux C04Proofs C04SumProofs C04ConvProofs C04ConvThmProofs C04ConvDualProofs C04MiscProofs.
Import ListNotations.

Lemma map_nth_seq {B E} (F : B -> E) (P : list B) (d : B) : map (fun p => F (nth p P d)) (seq 0 (length P)) = map F P.
Proof.
  assert (H : forall s, map (fun p => F (nth (p - s) P d)) (seq s (length P)) = map F P).
  { induction P as [|x P IH]; intros s; simpl; auto. rewrite Nat.sub_diag. f_equal.
    rewrite <- (IH (S s)). apply map_ext_in. intros p Hp. apply in_seq in Hp.
    replace (p - s) with (S (p - S s)) by lia. reflexivity. }
  rewrite <- (H 0). apply map_ext. intros p. rewrite Nat.sub_0_r. reflexivity.
Qed.

Lemma rows_firstn {B} n k (M : list (list B)) : rows n M -> rows n (firstn k M).
Proof. revert k; induction M as [|r M IH]; intros [|k] R; simpl; try (constructor; fail). constructor; [exact (Forall_inv R)|apply IH; exact (Forall_inv_tail R)]. Qed.
Lemma rows_skipn {B} n k (M : list (list B)) : rows n M -> rows n (skipn k M).
Proof. revert k; induction M as [|r M IH]; intros [|k] R; simpl; auto. apply IH. exact (Forall_inv_tail R). Qed.

Section KexpProofs.
Variable A : Type.
Variables (zero one : A) (add mul sub : A -> A -> A) (opp : A -> A).
Hypothesis Rth : ring_theory zero one add mul sub opp eq.
Add Ring AringX : Rth.
Variable X : Type.
Variable k : X -> X -> A.

Infix "+" := add : CA_scope.
Infix "*" := mul : CA_scope.
Local Open Scope CA_scope.
Notation getA := (get zero).
Notation bsumA := (bsum zero add).
Notation dotA := (dot zero add mul).
Notation frA := (fr A zero add mul).
Notation vaddA := (vadd add).
Notation vscaleA := (vscale mul).
Notation vmA := (vm zero add mul).
Notation zerosA := (zeros zero).
Notation ke_eval_batchA := (ke_eval_batch zero add mul k).
Notation ke_evalA := (ke_eval zero add mul k).
Notation get_vaddR := (get_vadd A zero one add mul sub opp Rth).
Notation get_vscaleR := (get_vscale A zero one add mul sub opp Rth).

Lemma madd_map_gen {B} (h g : B -> list A) (l : list B) : madd add (map h l) (map g l) = map (fun x => vaddA (h x) (g x)) l.
Proof. induction l as [|x l IH]; simpl; auto. rewrite IH. reflexivity. Qed.

(* the offset row the output starts from *)
Definition ke_b0 (m : kexp A X) : list A := match ke_b m with [] => zerosA (ke_nout m) | b => b end.
(* one pattern: the loop over the basis batches *)
Definition ke_step (m : kexp A X) (x : X) (st : list A * nat) (batch : list X) : list A * nat :=
  (vaddA (fst st) (vmA (ke_nout m) (map (fun bx => k bx x) batch) (firstn (length batch) (skipn (snd st) (ke_alpha m)))),
   (snd st + length batch)%nat).
Definition ke_row (m : kexp A X) (x : X) : list A := fst (fold_left (ke_step m x) (ke_basis m) (ke_b0 m, 0)).

(* ---------------- batch = single ---------------- *)
Lemma ke_batch_is_map (m : kexp A X) (P : list X) : ke_eval_batchA m P = map (ke_row m) P.
Proof.
  unfold ke_eval_batch, ke_row. fold (ke_b0 m).
  destruct P as [|x0 P0].
  { cbn [map length seq]. generalize 0 as start. induction (ke_basis m) as [|b l IH]; intros start; cbn [fold_left]; auto. }
  set (P := x0 :: P0).
  assert (G : forall basis (h : X -> list A) start,
            fst (fold_left (fun (st : list (list A) * nat) batch =>
                    let (out, start) := st in
                    (madd add out (map (fun p => vmA (ke_nout m) (map (fun Kj => nth p Kj zero) (map (fun bx => map (fun x => k bx x) P) batch))
                                                     (firstn (length batch) (skipn start (ke_alpha m)))) (seq 0 (length P))),
                     (start + length batch)%nat)) basis (map h P, start)) =
            map (fun x => fst (fold_left (ke_step m x) basis (h x, start))) P).
  { induction basis as [|batch basis IH]; intros h start; cbn [fold_left].
    - reflexivity.
    - assert (E : map (fun p => vmA (ke_nout m) (map (fun Kj => nth p Kj zero) (map (fun bx => map (fun x => k bx x) P) batch))
                                   (firstn (length batch) (skipn start (ke_alpha m)))) (seq 0 (length P)) =
                  map (fun x => vmA (ke_nout m) (map (fun bx => k bx x) batch) (firstn (length batch) (skipn start (ke_alpha m)))) P).
      { rewrite <- (map_nth_seq (fun x => vmA (ke_nout m) (map (fun bx => k bx x) batch) (firstn (length batch) (skipn start (ke_alpha m)))) P x0).
        apply map_ext_in. intros p Hp. apply in_seq in Hp. f_equal. rewrite map_map. apply map_ext. intros bx.
        apply (nth_map_in (fun x => k bx x) P p zero x0). lia. }
      rewrite E. rewrite madd_map_gen.
      rewrite (IH (fun x => vaddA (h x) (vmA (ke_nout m) (map (fun bx => k bx x) batch) (firstn (length batch) (skipn start (ke_alpha m))))) (start + length batch)%nat).
      reflexivity. }
  exact (G (ke_basis m) (fun _ => ke_b0 m) 0).
Qed.

Theorem ke_batch_eq_single (m : kexp A X) (P P' : list X) r r' (d : X) :
  r < length P -> r' < length P' -> nth r P d = nth r' P' d ->
  nth r (ke_eval_batchA m P) [] = ke_evalA m (nth r P d) /\
  nth r (ke_eval_batchA m P) [] = nth r' (ke_eval_batchA m P') [].
Proof.
  intros H1 H2 E. unfold ke_eval. rewrite !ke_batch_is_map.
  rewrite (nth_map_in _ P r [] d) by auto. rewrite (nth_map_in _ P' r' [] d) by auto. rewrite E. simpl. auto.
Qed.

(* ---------------- parameter vector ---------------- *)
Definition ke_wf (m : kexp A X) : Prop := ke_b m = [] \/ length (ke_b m) = ke_nout m.

Theorem ke_param_roundtrip (m : kexp A X) (theta : list A) :
  length theta = ke_nparams m ->
  ke_params (ke_set m theta) = theta /\ length (ke_params (ke_set m theta)) = ke_nparams m /\
  ke_nparams (ke_set m theta) = ke_nparams m /\ ke_basis (ke_set m theta) = ke_basis m /\
  length (ke_alpha (ke_set m theta)) = ke_nb m.
Proof.
  intros L. unfold ke_nparams in L.
  assert (E : ke_params (ke_set m theta) = theta).
  { unfold ke_params, ke_set; cbn [ke_alpha ke_b].
    rewrite (chunk_concat A (ke_nout m) (ke_nb m)), (Nat.mul_comm (ke_nout m)).
    rewrite (firstn_all2 (n := ke_nb m * ke_nout m)) by (rewrite firstn_length; lia).
    destruct (ke_b m) as [|b0 b] eqn:Eb.
    - rewrite app_nil_r. apply firstn_all2. simpl in L. lia.
    - rewrite (firstn_all2 (n := length (b0 :: b))) by (rewrite skipn_length; lia). apply firstn_skipn. }
  rewrite E. repeat split; auto.
  - unfold ke_nparams, ke_set, ke_nb; cbn [ke_basis ke_nout ke_b]. f_equal.
    unfold ke_nb in L. destruct (ke_b m) eqn:Eb; auto. rewrite firstn_length, skipn_length. lia.
  - unfold ke_set; cbn [ke_alpha]. apply chunk_length.
Qed.

(* ---------------- the value, entry by entry: offset + sum over ALL basis elements ---------------- *)
Lemma vadd_len (u v : list A) : length u = length v -> length (vaddA u v) = length u.
Proof. apply (vadd_length A add). Qed.

Lemma get_tab_zeros n o : getA (zerosA n) o = zero.
Proof. unfold get, zeros. revert o; induction n; intros [|o]; simpl; auto. Qed.

Lemma get_vm n (d : list A) (W : list (list A)) o :
  rows n W -> o < n -> getA (vmA n d W) o = dotA d (map (fun w => getA w o) W).
Proof.
  intros R Ho. revert d; induction W as [|w W IH]; intros [|c d]; simpl.
  - apply get_tab_zeros.
  - apply get_tab_zeros.
  - apply get_tab_zeros.
  - rewrite get_vaddR.
    + rewrite get_vscaleR, IH; auto. exact (Forall_inv_tail R).
    + unfold vscale. rewrite map_length, (vm_length A zero add mul) by exact (Forall_inv_tail R). exact (Forall_inv R).
Qed.

Lemma ke_fold_get (m : kexp A X) x : rows (ke_nout m) (ke_alpha m) ->
  forall basis acc start o,
    length acc = ke_nout m -> o < ke_nout m -> length (skipn start (ke_alpha m)) = length (concat basis) ->
    length (fst (fold_left (ke_step m x) basis (acc, start))) = ke_nout m /\
    getA (fst (fold_left (ke_step m x) basis (acc, start))) o =
    getA acc o + dotA (map (fun bx => k bx x) (concat basis)) (map (fun w => getA w o) (skipn start (ke_alpha m))).
Proof.
  intros RA. induction basis as [|batch basis IH]; intros acc start o La Ho Ls; cbn [fold_left concat].
  - split; auto. simpl. ring.
  - set (R := skipn start (ke_alpha m)) in *.
    assert (RR : rows (ke_nout m) R) by (unfold R; apply rows_skipn; auto).
    assert (RF : rows (ke_nout m) (firstn (length batch) R)) by (apply rows_firstn; auto).
    set (u := vmA (ke_nout m) (map (fun bx => k bx x) batch) (firstn (length batch) R)).
    assert (Lu : length u = ke_nout m) by (apply (vm_length A zero add mul); auto).
    change (ke_step m x (acc, start) batch) with (vaddA acc u, (start + length batch)%nat).
    cbn [concat] in Ls. rewrite app_length in Ls.
    destruct (IH (vaddA acc u) (start + length batch)%nat o) as [L1 G1]; auto.
    + rewrite vadd_len; lia.
    + rewrite skipn_add. fold R. rewrite skipn_length. lia.
    + split; auto. rewrite G1. rewrite get_vaddR by lia. unfold u. rewrite get_vm by auto.
      rewrite skipn_add. fold R.
      rewrite map_app. rewrite <- (firstn_skipn (length batch) R) at 3. rewrite map_app.
      rewrite (dot_app A zero one add mul sub opp Rth) by (rewrite !map_length, firstn_length; lia).
      ring.
Qed.

Lemma ke_b0_len (m : kexp A X) : ke_wf m -> length (ke_b0 m) = ke_nout m.
Proof. intros WF. unfold ke_b0. destruct WF as [E|E]; [rewrite E; unfold zeros; apply repeat_length|]. destruct (ke_b m); [unfold zeros; apply repeat_length|exact E]. Qed.

Lemma ke_row_len (m : kexp A X) x : ke_wf m -> rows (ke_nout m) (ke_alpha m) -> length (ke_row m x) = ke_nout m.
Proof.
  intros WF RA. unfold ke_row. generalize (ke_b0_len m WF). generalize (ke_b0 m) as acc. generalize 0 as start.
  induction (ke_basis m) as [|batch basis IH]; intros start acc La; cbn [fold_left]; auto.
  apply IH. unfold ke_step; cbn [fst]. rewrite vadd_len; auto.
  rewrite (vm_length A zero add mul); auto. apply rows_firstn, rows_skipn; auto.
Qed.

Theorem ke_row_get (m : kexp A X) x o :
  ke_wf m -> rows (ke_nout m) (ke_alpha m) -> length (ke_alpha m) = ke_nb m -> o < ke_nout m ->
  length (ke_row m x) = ke_nout m /\
  getA (ke_row m x) o = getA (ke_b0 m) o + dotA (map (fun bx => k bx x) (concat (ke_basis m))) (map (fun w => getA w o) (ke_alpha m)).
Proof.
  intros WF RA LA Ho. unfold ke_row.
  assert (Lb : length (ke_b0 m) = ke_nout m) by (apply ke_b0_len; auto).
  apply (ke_fold_get m x RA (ke_basis m) (ke_b0 m) 0 o Lb Ho). simpl. exact LA.
Qed.

(* the value does not depend on how the basis is cut into batches *)
Theorem ke_blocks (m m' : kexp A X) x :
  ke_wf m -> rows (ke_nout m) (ke_alpha m) -> length (ke_alpha m) = ke_nb m ->
  concat (ke_basis m') = concat (ke_basis m) -> ke_nout m' = ke_nout m -> ke_alpha m' = ke_alpha m -> ke_b m' = ke_b m ->
  ke_row m' x = ke_row m x.
Proof.
  intros WF RA LA EB EN EA Eb.
  assert (WF' : ke_wf m') by (unfold ke_wf; rewrite Eb, EN; exact WF).
  assert (RA' : rows (ke_nout m') (ke_alpha m')) by (rewrite EN, EA; exact RA).
  assert (LA' : length (ke_alpha m') = ke_nb m') by (unfold ke_nb; rewrite EA, EB; exact LA).
  assert (L1 : length (ke_row m' x) = ke_nout m') by (apply ke_row_len; auto).
  assert (L2 : length (ke_row m x) = ke_nout m) by (apply ke_row_len; auto).
  apply nth_ext with (d := zero) (d' := zero); [lia|].
  intros o Ho.
  destruct (ke_row_get m' x o WF' RA' LA') as [_ G1]; [lia|].
  destruct (ke_row_get m x o WF RA LA) as [_ G2]; [lia|].
  change (getA (ke_row m' x) o = getA (ke_row m x) o). rewrite G1, G2. unfold ke_b0. rewrite EB, EA, Eb, EN. reflexivity.
Qed.

Theorem ke_blocks_batch (m m' : kexp A X) (P : list X) :
  ke_wf m -> rows (ke_nout m) (ke_alpha m) -> length (ke_alpha m) = ke_nb m ->
  concat (ke_basis m') = concat (ke_basis m) -> ke_nout m' = ke_nout m -> ke_alpha m' = ke_alpha m -> ke_b m' = ke_b m ->
  ke_eval_batchA m' P = ke_eval_batchA m P.
Proof. intros. rewrite !ke_batch_is_map. apply map_ext. intros x. apply ke_blocks; auto. Qed.

(* ---------------- linear in the parameter vector ---------------- *)
Lemma ke_set_get (m : kexp A X) (theta : list A) x o :
  ke_wf m -> length theta = ke_nparams m -> o < ke_nout m ->
  let n := (ke_nb m * ke_nout m)%nat in
  getA (ke_row (ke_set m theta) x) o =
  (match ke_b m with [] => zero | _ => getA theta (n + o)%nat end) +
  bsumA (ke_nb m) (fun j => getA (map (fun bx => k bx x) (concat (ke_basis m))) j * getA theta (j * ke_nout m + o)%nat).
Proof.
  intros WF L Ho n. unfold ke_nparams in L. fold n in L.
  set (m' := ke_set m theta).
  assert (WF' : ke_wf m').
  { unfold ke_wf, m', ke_set; cbn [ke_b ke_nout]. destruct WF as [E|E]; [left; rewrite E; reflexivity|].
    destruct (ke_b m) eqn:Eb; [left; reflexivity|right]. rewrite firstn_length, skipn_length. rewrite <- Eb in *. lia. }
  assert (RA' : rows (ke_nout m') (ke_alpha m')).
  { unfold m', ke_set; cbn [ke_alpha ke_nout]. apply chunk_rows. rewrite firstn_length. fold n. rewrite (Nat.mul_comm (ke_nout m)). fold n. lia. }
  assert (LA' : length (ke_alpha m') = ke_nb m') by (unfold m', ke_set, ke_nb; cbn [ke_alpha ke_basis]; apply chunk_length).
  destruct (ke_row_get m' x o WF' RA' LA' Ho) as [_ G]. rewrite G. f_equal.
  - unfold ke_b0, m', ke_set; cbn [ke_b ke_nout]. destruct (ke_b m) as [|b0 b] eqn:Eb.
    + apply get_tab_zeros.
    + destruct WF as [E|E]; [rewrite Eb in E; discriminate|rewrite Eb in E].
      assert (LF : length (firstn (length (b0 :: b)) (skipn n theta)) = length (b0 :: b)) by (rewrite firstn_length, skipn_length; lia).
      assert (GF : getA (firstn (length (b0 :: b)) (skipn n theta)) o = getA theta (n + o)%nat).
      { rewrite get_firstn, get_skipn. replace (o <? length (b0 :: b)) with true by (symmetry; apply Nat.ltb_lt; lia). reflexivity. }
      fold n. destruct (firstn (length (b0 :: b)) (skipn n theta)); [simpl in LF; discriminate|exact GF].
  - rewrite (dot_get A zero one add mul sub opp Rth), map_length.
    change (ke_basis m') with (ke_basis m). fold (ke_nb m).
    apply bsum_ext; intros j Hj. f_equal.
    rewrite (get_map (@nil A) zero (fun w => getA w o)) by (apply get_nil).
    change (getA (nth j (chunk (ke_nout m) (ke_nb m) (firstn n theta)) []) o = getA theta (j * ke_nout m + o)%nat).
    rewrite get_chunk by auto. replace (o <? ke_nout m) with true by (symmetry; apply Nat.ltb_lt; auto).
    rewrite get_firstn. replace (j * ke_nout m + o <? n)%nat with true by (symmetry; apply Nat.ltb_lt; unfold n; apply lt_prod_l; auto).
    reflexivity.
Qed.

Theorem ke_linear (m : kexp A X) (theta dtheta : list A) (P : list X) (C : list (list A)) t :
  ke_wf m -> length theta = ke_nparams m -> length dtheta = ke_nparams m -> rows (ke_nout m) C -> length C = length P ->
  frA C (ke_eval_batchA (ke_set m (vaddA theta (vscaleA t dtheta))) P) =
  frA C (ke_eval_batchA (ke_set m theta) P) + t * frA C (ke_eval_batchA (ke_set m dtheta) P).
Proof.
  intros WF Lt Ld RC LC. rewrite !ke_batch_is_map.
  assert (Lv : length (vaddA theta (vscaleA t dtheta)) = ke_nparams m).
  { rewrite vadd_len; auto. unfold vscale. rewrite map_length. lia. }
  revert C RC LC. induction P as [|x P IH]; intros [|c C] RC LC; simpl in *; try discriminate; try ring.
  rewrite (IH C (Forall_inv_tail RC)) by lia.
  assert (Lc : length c = ke_nout m) by exact (Forall_inv RC).
  assert (E : dotA c (ke_row (ke_set m (vaddA theta (vscaleA t dtheta))) x) =
              dotA c (ke_row (ke_set m theta) x) + t * dotA c (ke_row (ke_set m dtheta) x)).
  { rewrite !(dot_get A zero one add mul sub opp Rth), Lc.
    rewrite (bsum_mul_l A zero one add mul sub opp Rth), <- (bsum_add A zero one add mul sub opp Rth).
    apply bsum_ext; intros o Ho.
    rewrite !ke_set_get by auto. cbv zeta.
    assert (S3 : forall a b c' d e f : A, a = b + t * c' -> d = e + t * f -> getA c o * (a + d) = getA c o * (b + e) + t * (getA c o * (c' + f)))
      by (intros a b c' d e f -> ->; ring).
    apply S3.
    - destruct (ke_b m); [ring|]. rewrite get_vaddR by (unfold vscale; rewrite map_length; lia). rewrite get_vscaleR. reflexivity.
    - rewrite (bsum_mul_l A zero one add mul sub opp Rth), <- (bsum_add A zero one add mul sub opp Rth).
      apply bsum_ext; intros j Hj.
      rewrite get_vaddR by (unfold vscale; rewrite map_length; lia). rewrite get_vscaleR. ring. }
  rewrite E. ring.
Qed.

End KexpProofs.

(* the kernels of the exact runs are the kernels of the C05 model (same recursive definitions, proved equal here so that the
   two properties talk about the same functions) *)
Require SharkV.C05Model.
Lemma kx_lin_is_C05 (A : Type) (zero : A) (add mul : A -> A -> A) (x z : list A) :
  kx_lin zero add mul x z = C05Model.k_lin A zero add mul x z.
Proof. unfold kx_lin, C05Model.k_lin. revert z; induction x as [|a x IH]; intros [|b z]; simpl; auto; rewrite IH; reflexivity. Qed.
Lemma kx_poly_is_C05 (A : Type) (zero one : A) (add mul : A -> A -> A) (d : nat) (c : A) (x z : list A) :
  kx_poly zero one add mul d c x z = C05Model.k_poly A zero one add mul d c x z.
Proof.
  unfold kx_poly, C05Model.k_poly. fold (kx_lin zero add mul x z). rewrite kx_lin_is_C05. unfold C05Model.k_lin.
  generalize (add (C05Model.dot A zero add mul x z) c). intros b. induction d; simpl; auto; rewrite IHd; reflexivity.
Qed.

