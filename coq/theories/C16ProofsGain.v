(* C16 — the working-set gains maximumGainQuadratic2D / maximumGainQuadratic2DOnLine
   (Impl/AnalyticProblems.h) are the closed-form optima under their floors: the value returned is
   twice the largest objective gain of an unconstrained step (the factor 2 is common to all
   candidates of a selection, so the arg max is the same). *)
From Coq Require Import QArith Qminmax Lqa Arith Bool List Lia.
From SharkV Require Import C08Model C08Defs C08ProofsBox C16Model C16Proofs.
Import ListNotations. Open Scope Q_scope.

Definition qmicro : Q := 1 # 1000000.

Lemma sq_div_nonneg : forall x d : Q, 0 < d -> 0 <= (x * x) / d.
Proof.
  intros x d Hd. unfold Qdiv. apply Qmult_le_0_compat; [apply Qsq_nonneg|].
  apply Qinv_le_0_compat. lra.
Qed.

(* ---- on the line (1,-1) *)
Definition line_floor (Qii Qjj Qij : Q) : Q := maxA qops (Qii + Qjj - 2 * Qij) qthr.

Lemma line_floor_pos : forall Qii Qjj Qij, qthr <= line_floor Qii Qjj Qij.
Proof.
  intros. unfold line_floor, maxA. cbn [o_ltb qops].
  qcase (Qii + Qjj - 2 * Qij) qthr; lra.
Qed.

Theorem max_gain_line_opt : forall Qii Qjj Qij gi gj,
  let g := gi - gj in
  let Qf := line_floor Qii Qjj Qij in
  (g <= 0 -> max_gain_line qops Qii Qjj Qij gi gj == 0) /\
  (0 < g ->
     max_gain_line qops Qii Qjj Qij gi gj == 2 * gain1 g Qf (g / Qf) /\
     forall t, 2 * gain1 g Qf t <= max_gain_line qops Qii Qjj Qij gi gj).
Proof.
  intros Qii Qjj Qij gi gj g Qf.
  pose proof (line_floor_pos Qii Qjj Qij) as FP. fold Qf in FP. pose proof qthr_pos as TP.
  unfold max_gain_line. cbn [o_ltb o_zero o_sub o_add o_mul o_div o_two o_thr qops].
  fold g. change (maxA qops (Qii + Qjj - 2 * Qij) qthr) with Qf.
  split; intros Hg.
  - qcase 0 g; cbn [negb]; [lra|reflexivity].
  - qcase 0 g; cbn [negb]; [|lra].
    split.
    + unfold gain1. field. lra.
    + intros t.
      assert (EQ : g * g / Qf - 2 * gain1 g Qf t == ((g - Qf * t) * (g - Qf * t)) / Qf)
        by (unfold gain1; field; lra).
      pose proof (sq_div_nonneg (g - Qf * t) Qf ltac:(lra)). lra.
Qed.

(* ---- unconstrained 2-D gain, full-rank branch *)
Theorem max_gain_2d_opt : forall Qii Qjj Qij gi gj,
  let det := Qii * Qjj - Qij * Qij in
  0 < Qii -> 0 <= Qjj -> qthr * (Qii * Qjj) < det ->
  let mui := (Qjj * gi - Qij * gj) / det in
  let muj := (Qii * gj - Qij * gi) / det in
  max_gain_2d qops qmicro Qii Qjj Qij gi gj == 2 * gain2 qops gi gj Qii Qij Qjj mui muj /\
  forall x y, 2 * gain2 qops gi gj Qii Qij Qjj x y <= max_gain_2d qops qmicro Qii Qjj Qij gi gj.
Proof.
  intros Qii Qjj Qij gi gj det Hii Hjj Hd mui muj. pose proof qthr_pos as TP.
  assert (Dp : 0 < det).
  { assert (0 <= qthr * (Qii * Qjj)).
    { apply Qmult_le_0_compat; [lra|]. apply Qmult_le_0_compat; lra. } lra. }
  unfold max_gain_2d. cbn [o_ltb o_zero o_sub o_add o_mul o_div o_two o_thr qops].
  fold det.
  qcase (qthr * (Qii * Qjj)) det; cbn [negb]; cbv iota; [|lra].
  set (N := gj * gj * Qii - 2 * gj * gi * Qij + gi * gi * Qjj).
  split.
  - rewrite gain2_q. unfold mui, muj, N, det. field. unfold det in Dp. lra.
  - intros x y. rewrite gain2_q.
    set (G := x * gi + y * gj - (1 # 2) * (Qii * x * x + 2 * Qij * x * y + Qjj * y * y)).
    set (a := det * x - (Qjj * gi - Qij * gj)).
    set (b := det * y - (Qii * gj - Qij * gi)).
    assert (ID : Qii * det * (N - det * (2 * G)) == (Qii * a + Qij * b) * (Qii * a + Qij * b) + det * (b * b))
      by (unfold N, G, a, b, det; ring).
    assert (R : 0 <= N - det * (2 * G)).
    { pose proof (Qsq_nonneg (Qii * a + Qij * b)). pose proof (Qsq_nonneg b).
      assert (0 <= det * (b * b)) by (apply Qmult_le_0_compat; lra).
      assert (PP : 0 < Qii * det) by (apply Qmult_lt_0_compat; lra).
      destruct (Qlt_le_dec (N - det * (2 * G)) 0) as [Hn|]; [exfalso|assumption].
      assert (0 < (Qii * det) * (- (N - det * (2 * G)))) by (apply Qmult_lt_0_compat; lra).
      lra. }
    apply Qle_shift_div_l; [exact Dp|]. lra.
Qed.

(* rank-deficient branch: both diagonal entries are raised by 1e-6 before the same formula is used *)
Theorem max_gain_2d_regularised : forall Qii Qjj Qij gi gj,
  Qii * Qjj - Qij * Qij <= qthr * (Qii * Qjj) ->
  max_gain_2d qops qmicro Qii Qjj Qij gi gj ==
  (gj * gj * (Qii + qmicro) - 2 * gj * gi * Qij + gi * gi * (Qjj + qmicro)) /
  ((Qii + qmicro) * (Qjj + qmicro) - Qij * Qij).
Proof.
  intros Qii Qjj Qij gi gj H.
  unfold max_gain_2d. cbn [o_ltb o_zero o_sub o_add o_mul o_div o_two o_thr qops].
  qcase (qthr * (Qii * Qjj)) (Qii * Qjj - Qij * Qij); cbn [negb]; cbv iota; [lra|reflexivity].
Qed.

Example max_gain_2d_opt_sat : 0 < 2 /\ 0 <= 2 /\ qthr * (2 * 2) < 2 * 2 - 1 * 1.
Proof. repeat split; qdec. Qed.
