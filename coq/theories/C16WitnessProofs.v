(* C16 — a concrete instance showing that the hypotheses of the state-model theorems are satisfiable
   (2 examples, |P| = 1, dense rows of M with default 1, identity kernel matrix), and small witnesses. *)
From Coq Require Import QArith Qminmax Lqa Arith Bool List Lia.
From SharkV Require Import C08Model C08Defs C08Aux C08Proofs C16Model C16State C16Proofs C16ProofsMc C16StateDefs
  C16InitProofs C16ShrinkProofs C16HistProofs C16Linear C16LinearProofs C16Bias C16BiasProofs.
Import ListNotations.
Open Scope Q_scope.

Definition wMrow : nat -> list (nat * Q) := fun _ => [].
Definition wMdef : nat -> Q := fun _ => 1.
Definition wK0 : nat -> nat -> Q := fun a b => if (a =? b)%nat then 1 else 0.
Definition wy0 : nat -> nat := fun _ => 0%nat.
Definition wlin0 : nat -> nat -> Q := fun _ _ => 1.
Definition ws0 : qmst := init_stateQ 1 2 2 wMrow wMdef wK0 wy0 wlin0.

Lemma w_Mwf : Mwf 1 wMrow.
Proof. intros r. split; [exact I | intros ix v []]. Qed.
Lemma w_Msym : Msym 1 2 wMrow wMdef.
Proof. intros yv pv yw pw. reflexivity. Qed.
Lemma w_K0sym : K0sym wK0.
Proof. intros a b. unfold wK0. rewrite (Nat.eqb_sym b a). reflexivity. Qed.
Lemma w_Qdiag : Qdiag_nonneg 1 2 wMrow wMdef wK0.
Proof. split; [intros y p; unfold Mfour, Mq, wMrow, wMdef; cbn; lra | intros a; unfold wK0; rewrite Nat.eqb_refl; lra]. Qed.

Lemma w_hyps :
  Mwf 1 wMrow /\ Msym 1 2 wMrow wMdef /\ K0sym wK0 /\ Qdiag_nonneg 1 2 wMrow wMdef wK0 /\ 0 < 1 /\
  Inv_tab 1 2 ws0 /\ Inv_data 1 2 2 wMrow wMdef wK0 wy0 wlin0 ws0 /\ Inv_grad 1 2 2 wMrow wMdef wK0 ws0 /\
  Inv_boxc 1 2 1 ws0 /\ Inv_simplex 1 2 1 ws0 /\ (0 < actvar ws0)%nat /\ (1 < actvar ws0)%nat.
Proof.
  split; [exact w_Mwf|]. split; [exact w_Msym|]. split; [exact w_K0sym|]. split; [exact w_Qdiag|].
  split; [reflexivity|].
  split; [apply init_tab; lia|]. split; [apply init_data|].
  split; [intros f Hf; apply init_grad; unfold nv; cbn in Hf |- *; lia|].
  split; [apply init_boxc; lra|]. split; [apply init_simplex; reflexivity|].
  cbn. lia.
Qed.

Lemma w_hist_hyps :
  Inv_hist 1 2 2 1 wMrow wMdef wK0 wy0 false ws0 /\ Inv_hist 1 2 2 1 wMrow wMdef wK0 wy0 true ws0 /\
  wf_mrun 1 2 2 1 wMrow wMdef wK0 false true ws0 [MSmo 0%nat 1%nat; MShrink (1 # 10); MUnshrink] /\
  Forall no_addlin [MSmo 0%nat 1%nat; MShrink (1 # 10); @MUnshrink Q].
Proof.
  destruct w_hyps as (_ & _ & _ & _ & _ & A1 & A2 & A3 & A4 & A5 & _).
  split; [exists wlin0; split; [exact A1|]; split; [exact A2|]; split; [exact A3 | exact A4]|].
  split; [exists wlin0; split; [exact A1|]; split; [exact A2|]; split; [exact A3 | exact A5]|].
  split; [|repeat constructor].
  cbn [wf_mrun wf_mop]. split; [cbn; lia|]. split; [exact I|]. split; [exact I | exact I].
Qed.

Lemma w_linear_hyps : BoxOK 1 (fun _ => 0) /\ SimOK 3 1 (fun _ => 0) /\ box_kind LWW /\
  Wbook 3 LWW 1 2 (fun _ => 0%nat) (fun _ _ => 1) (fun _ _ => 0) (fun _ _ => 0) /\
  BLinv 1 2 1 (fun _ => 1) (fun _ _ => 1) (fun _ => 0, fun _ => 0).
Proof.
  split; [intros c; lra|]. split; [split; [intros; lra | split; vm_compute; discriminate]|]. split; [left; reflexivity|].
  split.
  - intros c d Hc Hd. cbn [sumn]. rewrite wstep_zero. ring.
  - split; [intros i; cbn [fst]; lra | intros d Hd; cbn [fst snd sumn]; ring].
Qed.

Lemma w_bias_hyps :
  Inv_all 1 2 2 1 wMrow wMdef wK0 wy0 (lin_of 1 (fun _ => [(0%nat, 1)]) wy0 wlin0 (fun _ => 0)) false ws0 /\
  wf_brun 1 2 2 1 wMrow wMdef wK0 (fun _ => [(0%nat, 1)]) wy0 false true (ws0, fun _ => 0) [BStep (fun _ => 1 # 4); BSolve [MSmo 0%nat 1%nat]].
Proof.
  destruct w_hyps as (_ & _ & _ & _ & _ & A1 & A2 & A3 & A4 & _). split.
  - apply (Inv_all_lin_ext 1 2 2 1 wMrow wMdef wK0 wy0 wlin0).
    + intros i p. unfold lin_of. cbn [Lsum]. ring.
    + split; [exact A1|]. split; [exact A2|]. split; [exact A3 | exact A4].
  - cbn [wf_brun]. split; [exact I|]. split; [|exact I]. split; [|repeat constructor].
    cbn [wf_mrun wf_mop bstep fst]. split; [|exact I]. cbn. lia.
Qed.
