(* C16 — executable model of the WORKING-SET SELECTION of Shark's multi-class decomposition problems, as coded, on
   top of the state model C16State.v:
     QpMcBoxDecomp::selectWorkingSet (as repaired by 54c331a5: maximumGainQuadratic2D(di, df, qif, gi, gf)), checkKKT;
     QpMcSimplexDecomp::getSimplexMVP (with the indices), selectWorkingSet, maxGainBox (as repaired by c9be7fe4: gain 0
     and the pair (i,i) for a first variable that cannot move; the code before the repair is kept as old_max_gain_box),
     maxGainSimplex;
   and of the decomposition loop QpSolver::solve (select, unshrink + checkKKT + shrink at the accuracy test,
   updateSMO, the shrink counter) with fuel = stop.maxIterations.  Definitions only.
   The sparse rows of m_M are read by the merge scan C16Model.sa_scan (proved equal to operator() for sorted rows). *)
From Coq Require Import Arith Bool List.
From SharkV Require Import C08Model C16Model C16State.
Import ListNotations.

Section Select.
Variable A : Type.
Variable O : ops A.
Variable lowest tiny micro : A.       (* -DBL_MAX, 1e-14, 1e-6 *)
Variable P ncl n : nat.
Variable C : A.
Variable Mrow : nat -> list (nat * A).
Variable Mdef : nat -> A.
Variable K0 : nat -> nat -> A.
Local Notation zero := (o_zero O).
Local Notation add := (o_add O).
Local Notation sub := (o_sub O).
Local Notation mul := (o_mul O).
Local Notation div := (o_div O).
Local Notation ltb := (o_ltb O).
Local Notation eqb := (o_eqb O).
Local Notation big := (o_big O).

(* the values row(r)(0..P-1) as the merge scan of the code reads them *)
Definition mscan (r : nat) : list A := sa_scan (Mrow r) (Mdef r) 0 P.

(* ---------------- QpMcBoxDecomp ---------------- *)

(* first order selection: (maxViolation, i) *)
Fixpoint bsel_first (s : mst A) (m : nat) (i0 : nat) : A * nat :=
  match m with
  | 0 => (zero, i0)
  | S a =>
    let r := bsel_first s a i0 in
    let aa := malpha s a in let ga := mgrad s a in
    if ltb (fst r) ga && ltb aa C then (ga, a)
    else if ltb (fst r) (sub zero ga) && ltb zero aa then (sub zero ga, a)
    else r
  end.

(* checkKKT of the box class *)
Fixpoint box_kkt (s : mst A) (m : nat) : A :=
  match m with
  | 0 => zero
  | S v =>
    let r := box_kkt s v in
    let a := malpha s v in let g := mgrad s v in
    let r1 := if ltb a C then maxA O r g else r in
    if ltb zero a then maxA O r1 (sub zero g) else r1
  end.

(* "a step is possible at all": !(!(af > 0 && gf < 0) && !(af < C && gf > 0)) *)
Definition box_can_move (s : mst A) (f : nat) : bool :=
  (ltb zero (malpha s f) && ltb (mgrad s f) zero) || (ltb (malpha s f) C && ltb zero (mgrad s f)).

(* second order selection, inner loop over pf < m of example a: state (j, bestgain) *)
Fixpoint bsel_inner (s : mst A) (i : nat) (di gi ka : A) (vals : list A) (a : nat) (m : nat) (st : nat * A) : nat * A :=
  match m with
  | 0 => st
  | S pf =>
    let st1 := bsel_inner s i di gi ka vals a pf st in
    let f := evar s a pf in
    let qif := mul (nth pf vals zero) ka in
    if (actvar s <=? f) || (f =? i) then st1
    else if negb (box_can_move s f) then st1
    else
      let gain := max_gain_2d O micro di (vdiag s f) qif gi (mgrad s f) in
      if ltb (snd st1) gain then (f, gain) else st1
  end.

Fixpoint bsel_outer (s : mst A) (i : nat) (ii pi yi : nat) (di gi : A) (m : nat) (st : nat * A) : nat * A :=
  match m with
  | 0 => st
  | S a =>
    let st1 := bsel_outer s i ii pi yi di gi a st in
    bsel_inner s i di gi (kpos K0 s ii a) (mscan (ncl * (yi * P + pi) + ey s a)) a P st1
  end.

(* selectWorkingSet(i, j): (maxViolation, (i, j)) *)
Definition box_select (s : mst A) (i0 j0 : nat) : A * (nat * nat) :=
  let r := bsel_first s (actvar s) i0 in
  let i := snd r in
  if eqb (fst r) zero then (fst r, (i, j0))
  else
    let ii := vex s i in
    let di := vdiag s i in let gi := mgrad s i in
    let st := bsel_outer s i ii (vp s i) (ey s ii) di gi (actex s) (i, div (mul gi gi) di) in
    (fst r, (i, fst st)).

(* ---------------- QpMcSimplexDecomp ---------------- *)

(* getSimplexMVP: ((up, maxUp), (down, minDown)) *)
Fixpoint mvp_full (s : mst A) (e m : nat) : (A * nat) * (A * nat) :=
  match m with
  | 0 => ((sub zero big, eavar s e 0), (big, eavar s e 0))
  | S b =>
    let r := mvp_full s e b in
    let v := eavar s e b in
    let a := malpha s v in let g := mgrad s v in
    let up := if ltb (fst (fst r)) g then (g, v) else fst r in
    let dn := if ltb zero a && ltb g (fst (snd r)) then (g, v) else snd r in
    (up, dn)
  end.

Record sfirst := mksfirst { sf_mg : A; sf_i : nat; sf_msg : A; sf_mse : nat }.

(* first order loop of selectWorkingSet *)
Fixpoint ssel_first (s : mst A) (m : nat) : sfirst :=
  match m with
  | 0 => mksfirst zero 0 zero 0
  | S e =>
    let r := ssel_first s e in
    let canGrow := ltb (evsum s e) C in
    let mv := mvp_full s e (eact s e) in
    let up := fst (fst mv) in let down := fst (snd mv) in
    let r1 := if negb canGrow && ltb (sf_msg r) (sub up down)
              then mksfirst (sf_mg r) (sf_i r) (sub up down) e else r in
    let r2 := if canGrow && ltb (sf_mg r1) up
              then mksfirst up (snd (fst mv)) (sf_msg r1) (sf_mse r1) else r1 in
    if ltb (sf_mg r2) (sub zero down)
    then mksfirst (sub zero down) (snd (snd mv)) (sf_msg r2) (sf_mse r2) else r2
  end.

(* maxGainBox: candidate test of the inner loop *)
Definition sbox_skip (s : mst A) (canGrow : bool) (j : nat) : bool :=
  (actvar s <=? j) || (eqb (malpha s j) zero && negb (ltb zero (mgrad s j))) || (negb canGrow && negb (ltb (mgrad s j) zero)).

Fixpoint sbox_inner (s : mst A) (Qii gi ka : A) (vals : list A) (a : nat) (canGrow : bool) (m : nat) (st : nat * A) : nat * A :=
  match m with
  | 0 => st
  | S p =>
    let st1 := sbox_inner s Qii gi ka vals a canGrow p st in
    let j := evar s a p in
    let Qij := mul (nth p vals zero) ka in
    if sbox_skip s canGrow j then st1
    else
      let gain := max_gain_2d O micro Qii (vdiag s j) Qij gi (mgrad s j) in
      if ltb (snd st1) gain then (j, gain) else st1
  end.

Fixpoint sbox_outer (s : mst A) (e pi yi : nat) (Qii gi : A) (m : nat) (st : nat * A) : nat * A :=
  match m with
  | 0 => st
  | S a =>
    let st1 := sbox_outer s e pi yi Qii gi a st in
    if a =? e then st1
    else sbox_inner s Qii gi (kpos K0 s e a) (mscan (ncl * (yi * P + pi) + ey s a)) a
                    (negb (eqb (evsum s a) C)) P st1
  end.

(* the first variable cannot make a step: at the simplex bound with positive gradient, or zero with gradient <= 0 *)
Definition sbox_stuck (s : mst A) (i : nat) : bool :=
  (eqb (evsum s (vex s i)) C && ltb zero (mgrad s i)) || (eqb (malpha s i) zero && negb (ltb zero (mgrad s i))).

(* maxGainBox(i): ((i, bestj), bestGain), as repaired by c9be7fe4 *)
Definition max_gain_box (s : mst A) (i : nat) : (nat * nat) * A :=
  let e := vex s i in
  let Qii := vdiag s i in let gi := mgrad s i in
  if sbox_stuck s i then ((i, i), zero)
  else
    let st := sbox_outer s e (vp s i) (ey s e) Qii gi (actex s) (i, div (mul gi gi) Qii) in
    ((i, fst st), snd st).

(* before c9be7fe4: no early return *)
Definition old_max_gain_box (s : mst A) (i : nat) : (nat * nat) * A :=
  let e := vex s i in
  let Qii := vdiag s i in let gi := mgrad s i in
  let st := sbox_outer s e (vp s i) (ey s e) Qii gi (actex s) (i, div (mul gi gi) Qii) in
  ((i, fst st), snd st).

(* maxGainSimplex(e) *)
Definition ssim_pair_gain (s : mst A) (canGrow : bool) (i j : nat) (Qij : A) : A :=
  let gi := mgrad s i in let gj := mgrad s j in
  let ai := malpha s i in let aj := malpha s j in
  let Qii := vdiag s i in let Qjj := vdiag s j in
  if negb canGrow && ltb zero gi && ltb zero gj then
    let gainUp := if ltb zero aj && ltb zero (sub gi gj) then max_gain_line O Qii Qjj Qij gi gj else zero in
    let gainDown := if ltb zero ai && ltb zero (sub gj gi) then max_gain_line O Qjj Qii Qij gj gi else zero in
    maxA O gainUp gainDown
  else if negb (negb (ltb zero gi) && eqb ai zero) && negb (negb (ltb zero gj) && eqb aj zero)
  then max_gain_2d O micro Qii Qjj Qij gi gj
  else zero.

Fixpoint ssim_inner (s : mst A) (e : nat) (canGrow : bool) (i : nat) (Qee : A) (vals : list A) (m : nat)
    (st : (nat * nat) * A) : (nat * nat) * A :=
  match m with
  | 0 => st
  | S p2 =>
    let st1 := ssim_inner s e canGrow i Qee vals p2 st in
    let j := evar s e p2 in
    let Qij := mul (nth p2 vals zero) Qee in
    if (actvar s <=? j) || (j <=? i) then st1
    else
      let gain := ssim_pair_gain s canGrow i j Qij in
      if ltb (snd st1) gain then ((i, j), gain) else st1
  end.

Fixpoint ssim_outer (s : mst A) (e : nat) (canGrow : bool) (m : nat) (st : (nat * nat) * A) : (nat * nat) * A :=
  match m with
  | 0 => st
  | S p1 =>
    let st1 := ssim_outer s e canGrow p1 st in
    let i := eavar s e p1 in
    let gi := mgrad s i in
    let st2 := if (ltb gi zero && ltb zero (malpha s i)) || (ltb zero gi && canGrow)
               then (let gain := div (mul gi gi) (vdiag s i) in if ltb (snd st1) gain then ((i, i), gain) else st1)
               else st1 in
    let y := ey s e in
    ssim_inner s e canGrow i (ediag s e) (mscan (ncl * (y * P + vp s i) + y)) P st2
  end.

Definition max_gain_simplex (s : mst A) (e : nat) : (nat * nat) * A :=
  ssim_outer s e (ltb (evsum s e) C) (eact s e) ((0, 0), sub zero big).

(* selectWorkingSet(i, j), parametrised by the maxGainBox in use: (violation, (i, j)) *)
Definition simplex_select_with (mgb : mst A -> nat -> (nat * nat) * A) (s : mst A) : A * (nat * nat) :=
  let r := ssel_first s (actex s) in
  let i := sf_i r in
  let b0 := mgb s i in
  let si := max_gain_simplex s (vex s i) in
  let b1 := if ltb (snd b0) (snd si) then si else b0 in
  let b2 := if ltb zero (sf_msg r)
            then (let sb := max_gain_simplex s (sf_mse r) in if ltb (snd b1) (snd sb) then sb else b1)
            else b1 in
  (maxA O (sf_mg r) (sf_msg r), fst b2).

Definition simplex_select := simplex_select_with max_gain_box.
Definition old_simplex_select := simplex_select_with old_max_gain_box.

(* ---------------- QpSolver::solve ---------------- *)

Definition sel (simplex : bool) (s : mst A) (i0 j0 : nat) : A * (nat * nat) :=
  if simplex then simplex_select s else box_select s i0 j0.
Definition kkt (simplex : bool) (s : mst A) : A :=
  if simplex then skkt O C s (actex s) else box_kkt s (actvar s).

(* shrinkCounter: an unsigned long long; "shrinkCounter--" at 0 wraps around and is never 0 again in practice *)
Inductive scnt := Cnt (c : nat) | Wrapped.
Definition cnt_dec (c : scnt) : scnt := match c with Cnt 0 => Wrapped | Cnt (S k) => Cnt k | Wrapped => Wrapped end.

Inductive exitk := XMaxIter | XAccuracy.
Record solve_res := mksr { sr_state : mst A; sr_exit : exitk; sr_iter : nat }.

Definition mshrink (simplex shrinking : bool) (eps : A) (s : mst A) : mst A :=
  if simplex then simplex_shrink O P ncl n C Mrow Mdef K0 shrinking eps s
  else box_shrink O P ncl n C Mrow Mdef K0 shrinking eps s.
Definition msmo (simplex : bool) (s : mst A) (i j : nat) : mst A :=
  if simplex then simplex_smo O lowest tiny P ncl C Mrow Mdef K0 s i j else box_smo O P ncl C Mrow Mdef K0 s i j.

(* fuel = stop.maxIterations - iter *)
Fixpoint mc_solve_steps (simplex shrinking : bool) (eps : A) (fuel : nat) (it : nat) (c : scnt) (s : mst A) : solve_res :=
  match fuel with
  | 0 => mksr s XMaxIter it                                   (* iter == stop.maxIterations *)
  | S f =>
    let r := sel simplex s 0 0 in
    let go := fun (s1 : mst A) (ij : nat * nat) =>
      let s2 := msmo simplex s1 (fst ij) (snd ij) in
      (* if (shrinkCounter == 0 && shrink(eps)) shrinkCounter = max(1000, dimensions()) *)
      let doit := match c with Cnt 0 => true | _ => false end in
      let s3 := if doit then mshrink simplex shrinking eps s2 else s2 in
      let c1 := if doit && shrinking then Cnt (Nat.max 1000 (P * n)) else c in
      mc_solve_steps simplex shrinking eps f (S it) (cnt_dec c1) s3 in
    if ltb (fst r) eps then
      let s1 := unshrink O P ncl n Mrow Mdef K0 s in
      if ltb (kkt simplex s1) eps then mksr s1 XAccuracy it
      else
        let s2 := mshrink simplex shrinking eps s1 in
        go s2 (snd (sel simplex s2 (fst (snd r)) (snd (snd r))))
    else go s (snd r)
  end.

End Select.

Arguments mscan {A}. Arguments bsel_first {A}. Arguments box_kkt {A}. Arguments box_can_move {A}. Arguments bsel_inner {A}.
Arguments bsel_outer {A}. Arguments box_select {A}. Arguments mvp_full {A}. Arguments mksfirst {A}. Arguments sf_mg {A}.
Arguments sf_i {A}. Arguments sf_msg {A}. Arguments sf_mse {A}. Arguments ssel_first {A}. Arguments sbox_skip {A}.
Arguments sbox_inner {A}. Arguments sbox_outer {A}. Arguments sbox_stuck {A}. Arguments max_gain_box {A}.
Arguments old_max_gain_box {A}. Arguments ssim_pair_gain {A}. Arguments ssim_inner {A}. Arguments ssim_outer {A}.
Arguments max_gain_simplex {A}. Arguments simplex_select_with {A}. Arguments simplex_select {A}.
Arguments old_simplex_select {A}. Arguments sel {A}. Arguments kkt {A}. Arguments mshrink {A}. Arguments msmo {A}.
Arguments mksr {A}. Arguments sr_state {A}. Arguments sr_exit {A}. Arguments sr_iter {A}. Arguments mc_solve_steps {A}.
