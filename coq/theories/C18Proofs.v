(* C18 — proofs about the archive codec and the read/write field sequences of C18Model.v. *)
From Coq Require Import List Arith Bool ZArith String Lia.
From SharkV Require Import C18Model.
Import ListNotations.
Open Scope string_scope.
Open Scope list_scope.

(* ------------------------------------------------------------------------------------------ *)
(* codec *)

Lemma decode_n_flat (d : decoder) (enc : value -> list token) (l : list value) rest :
  (forall v, In v l -> forall r, d (enc v ++ r) = Some (v, r)) ->
  decode_n d (length l) (flat_map enc l ++ rest) = Some (l, rest).
Proof.
  induction l as [|v l IH]; intros H; cbn [length flat_map decode_n app].
  - reflexivity.
  - rewrite <- app_assoc. rewrite (H v (or_introl eq_refl)).
    rewrite IH; [reflexivity|]. intros w Hw. apply H. right. exact Hw.
Qed.

Lemma forallb_In {A} (p : A -> bool) l : forallb p l = true -> forall x, In x l -> p x = true.
Proof. intros H x Hx. rewrite forallb_forall in H. auto. Qed.

Theorem codec_roundtrip : forall k v rest,
  has_kind k v = true -> decode k (encode k v ++ rest) = Some (v, rest).
Proof.
  induction k; intros v rest H; destruct v; cbn [has_kind] in H; try discriminate H;
    cbn [encode decode app].
  - reflexivity.
  - reflexivity.
  - reflexivity.
  - reflexivity.
  - reflexivity.
  - reflexivity.
  - rewrite H. reflexivity.
  - (* KVec *)
    rewrite decode_n_flat; [reflexivity|].
    intros w Hw r. apply IHk. eapply forallb_In; eauto.
  - (* KFix *)
    apply andb_prop in H. destruct H as [Hn Hl]. apply Nat.eqb_eq in Hn. subst n.
    rewrite decode_n_flat; [reflexivity|].
    intros w Hw r'. apply IHk. eapply forallb_In; eauto.
  - (* KMat *)
    apply andb_prop in H. destruct H as [Hn Hl]. apply Nat.eqb_eq in Hn. rewrite <- Hn.
    rewrite decode_n_flat; [reflexivity|].
    intros w Hw r'. apply IHk. eapply forallb_In; eauto.
  - (* KPair *)
    apply andb_prop in H. destruct H as [Ha Hb].
    rewrite <- app_assoc. rewrite IHk1 by exact Ha. rewrite IHk2 by exact Hb. reflexivity.
  - reflexivity.
  - rewrite IHk by exact H. reflexivity.
Qed.

(* per kind, as listed in the property design *)
Corollary nat_roundtrip n rest : decode KNat (encode KNat (VNat n) ++ rest) = Some (VNat n, rest).
Proof. reflexivity. Qed.
Corollary int_roundtrip z rest : decode KInt (encode KInt (VInt z) ++ rest) = Some (VInt z, rest).
Proof. reflexivity. Qed.
Corollary double_roundtrip m e rest : decode KDbl (encode KDbl (VDbl m e) ++ rest) = Some (VDbl m e, rest).
Proof. reflexivity. Qed.
Corollary string_roundtrip s rest : decode KStr (encode KStr (VStr s) ++ rest) = Some (VStr s, rest).
Proof. reflexivity. Qed.
Corollary bool_roundtrip b rest : decode KBool (encode KBool (VBool b) ++ rest) = Some (VBool b, rest).
Proof. reflexivity. Qed.
Corollary vector_roundtrip k l rest :
  forallb (has_kind k) l = true ->
  decode (KVec k) (encode (KVec k) (VList l) ++ rest) = Some (VList l, rest).
Proof. intros. apply codec_roundtrip. exact H. Qed.
Corollary matrix_roundtrip k r c l rest :
  length l = r * c -> forallb (has_kind k) l = true ->
  decode (KMat k) (encode (KMat k) (VMat r c l) ++ rest) = Some (VMat r c l, rest).
Proof. intros. apply codec_roundtrip. cbn [has_kind]. rewrite H, Nat.eqb_refl. exact H0. Qed.
Corollary shape_roundtrip dims n rest :
  let v := VPair (VList (map VNat dims)) (VPair (VNat n) VUnit) in
  decode KShape (encode KShape v ++ rest) = Some (v, rest).
Proof.
  intros v. apply codec_roundtrip. unfold v, KShape, KObj. cbn [fold_right has_kind].
  rewrite andb_true_r. induction dims; cbn; auto.
Qed.
Corollary object_roundtrip ks v rest :
  has_kind (KObj ks) v = true -> decode (KObj ks) (encode (KObj ks) v ++ rest) = Some (v, rest).
Proof. apply codec_roundtrip. Qed.
Corollary optional_roundtrip k v rest :
  has_kind (KOpt k) v = true -> decode (KOpt k) (encode (KOpt k) v ++ rest) = Some (v, rest).
Proof. apply codec_roundtrip. Qed.

(* ------------------------------------------------------------------------------------------ *)
(* sequences of kinds *)

Theorem vals_roundtrip : forall ks vs rest,
  typed_vals ks vs = true -> read_vals ks (write_vals ks vs ++ rest) = Some (vs, rest).
Proof.
  induction ks as [|k ks IH]; intros vs rest H; destruct vs as [|v vs]; cbn [typed_vals] in H;
    try discriminate H; cbn [write_vals read_vals app].
  - reflexivity.
  - apply andb_prop in H. destruct H as [Hk Hr].
    rewrite <- app_assoc. rewrite codec_roundtrip by exact Hk. rewrite IH by exact Hr. reflexivity.
Qed.

(* the statement of the design: if the read sequence equals the write sequence ... *)
Theorem seq_roundtrip : forall rk wk vs rest,
  rk = wk -> typed_vals wk vs = true -> read_vals rk (write_vals wk vs ++ rest) = Some (vs, rest).
Proof. intros; subst. apply vals_roundtrip; assumption. Qed.

(* ------------------------------------------------------------------------------------------ *)
(* objects as member maps *)

Lemma lookup_update_eq n v o : lookup n (update n v o) = v.
Proof. unfold update. cbn [lookup]. rewrite String.eqb_refl. reflexivity. Qed.

Lemma lookup_update_neq n m v o : n <> m -> lookup n (update m v o) = lookup n o.
Proof. intros H. unfold update. cbn [lookup]. apply String.eqb_neq in H. rewrite H. reflexivity. Qed.

(* what read leaves behind, without talking about tokens *)
Definition restore (fs : list field) (x o : obj) : obj :=
  fold_left (fun o f => update (fname f) (lookup (fname f) x) o) fs o.

Lemma read_write_obj : forall fs x o rest,
  typed_obj fs x = true ->
  read_obj fs o (write_obj fs x ++ rest) = Some (restore fs x o, rest).
Proof.
  induction fs as [|f fs IH]; intros x o rest H.
  - reflexivity.
  - unfold typed_obj in H. cbn [forallb] in H. apply andb_prop in H. destruct H as [Hf Hr].
    unfold write_obj. cbn [flat_map read_obj]. rewrite <- app_assoc.
    rewrite codec_roundtrip by exact Hf. fold (write_obj fs x).
    rewrite IH by exact Hr. reflexivity.
Qed.

Lemma restore_lookup_in : forall fs x o n,
  In n (map fname fs) -> lookup n (restore fs x o) = lookup n x.
Proof.
  induction fs as [|f fs IH] using rev_ind; intros x o n H.
  - destruct H.
  - unfold restore. rewrite fold_left_app. cbn [fold_left]. fold (restore fs x o).
    destruct (String.eqb n (fname f)) eqn:E.
    + apply String.eqb_eq in E. subst. apply lookup_update_eq.
    + apply String.eqb_neq in E. rewrite lookup_update_neq by exact E.
      apply IH. rewrite map_app in H. apply in_app_or in H. destruct H as [H|[H|[]]]; auto.
      congruence.
Qed.

Lemma restore_lookup_out : forall fs x o n,
  ~ In n (map fname fs) -> lookup n (restore fs x o) = lookup n o.
Proof.
  induction fs as [|f fs IH]; intros x o n H.
  - reflexivity.
  - cbn [restore fold_left]. fold (restore fs x (update (fname f) (lookup (fname f) x) o)).
    rewrite IH. 2:{ intros C. apply H. right. exact C. }
    apply lookup_update_neq. intros C. apply H. left. symmetry. exact C.
Qed.

Lemma read_obj_untouched : forall fs o ts o' r n,
  read_obj fs o ts = Some (o', r) -> ~ In n (map fname fs) -> lookup n o' = lookup n o.
Proof.
  induction fs as [|f fs IH]; intros o ts o' r n H Hn; cbn [read_obj] in H.
  - inversion H. reflexivity.
  - destruct (decode (fkind f) ts) as [[v ts']|]; [|discriminate].
    rewrite (IH _ _ _ _ n H). 2:{ intros C. apply Hn. right. exact C. }
    apply lookup_update_neq. intros C. apply Hn. left. symmetry. exact C.
Qed.

Lemma mem_In s l : mem s l = true <-> In s l.
Proof.
  unfold mem. rewrite existsb_exists. split.
  - intros [x [Hx E]]. apply String.eqb_eq in E. subst. exact Hx.
  - intros H. exists s. split; [exact H|apply String.eqb_refl].
Qed.

(* Every streamed field is restored and nothing else is touched. *)
Theorem obj_roundtrip : forall rf wf x fresh rest,
  rf = wf -> typed_obj wf x = true ->
  exists x', read_obj rf fresh (write_obj wf x ++ rest) = Some (x', rest) /\
             (forall f, In f wf -> lookup (fname f) x' = lookup (fname f) x) /\
             (forall n, ~ In n (map fname wf) -> lookup n x' = lookup n fresh).
Proof.
  intros rf wf x fresh rest E T. subst rf. exists (restore wf x fresh). split; [|split].
  - apply read_write_obj. exact T.
  - intros f Hf. apply restore_lookup_in. apply in_map. exact Hf.
  - intros n Hn. apply restore_lookup_out. exact Hn.
Qed.

(* The class-level statement the generated obligations rw_X and cover_X feed:
   if read streams the same fields as write, and every data member is either the root of a streamed
   field or transient, then after the round trip every streamed field of every object has its
   original value, no tokens are left over or consumed from what follows, and every non-transient
   member is the root of a restored field. *)
Theorem class_roundtrip : forall members transient rf wf,
  rf = wf -> covers members wf transient = true ->
  forall x fresh rest, typed_obj wf x = true ->
  exists x', read_obj rf fresh (write_obj wf x ++ rest) = Some (x', rest) /\
             (forall f, In f wf -> lookup (fname f) x' = lookup (fname f) x) /\
             (forall m, In m members -> ~ In m transient ->
                        exists f, In f wf /\ froot f = m /\ lookup (fname f) x' = lookup (fname f) x).
Proof.
  intros members transient rf wf E C x fresh rest T.
  destruct (obj_roundtrip rf wf x fresh rest E T) as [x' [R [A B]]].
  exists x'. split; [exact R|]. split; [exact A|].
  intros m Hm Ht. unfold covers in C. rewrite forallb_forall in C. specialize (C m Hm).
  apply orb_prop in C. destruct C as [C|C].
  - apply mem_In in C. apply in_map_iff in C. destruct C as [f [Ef Hf]].
    exists f. split; [exact Hf|]. split; [exact Ef|]. apply A. exact Hf.
  - apply mem_In in C. contradiction.
Qed.

(* ------------------------------------------------------------------------------------------ *)
(* witnesses *)

Lemma forallb_repeat {A} (p : A -> bool) a n : p a = true -> forallb p (repeat a n) = true.
Proof. intros H. induction n; cbn; [reflexivity|]. rewrite H, IHn. reflexivity. Qed.

Lemma wit0_kind : forall k, has_kind k (wit0 k) = true.
Proof.
  induction k; cbn [wit0 has_kind]; try reflexivity.
  - apply String.eqb_refl.
  - rewrite repeat_length, Nat.eqb_refl. cbn [andb]. apply forallb_repeat. exact IHk.
  - rewrite IHk1, IHk2. reflexivity.
Qed.

Lemma wit1_kind : forall k, has_kind k (wit1 k) = true.
Proof.
  induction k; cbn [wit1 has_kind]; try reflexivity.
  - apply String.eqb_refl.
  - cbn [forallb]. rewrite wit0_kind. reflexivity.
  - rewrite repeat_length, Nat.eqb_refl. cbn [andb]. apply forallb_repeat. exact IHk.
  - cbn [length forallb Nat.mul Nat.add Nat.eqb]. rewrite wit0_kind. reflexivity.
  - rewrite IHk1, IHk2. reflexivity.
  - apply wit0_kind.
Qed.

Lemma wit_differ : forall k, informative k = true -> wit0 k <> wit1 k.
Proof.
  induction k; cbn [informative wit0 wit1]; intros H; try discriminate H; try (intros C; discriminate C).
  - apply andb_prop in H. destruct H as [Hn Hk]. apply negb_true_iff in Hn. apply Nat.eqb_neq in Hn.
    destruct n as [|n]; [congruence|]. cbn [repeat]. intros C. inversion C. apply (IHk Hk). assumption.
  - apply orb_prop in H. intros C. inversion C. destruct H as [H|H]; [apply (IHk1 H)|apply (IHk2 H)]; assumption.
Qed.

Lemma value_eq_dec : forall a b : value, {a = b} + {a <> b}.
Proof.
  fix IH 1. intros a b.
  assert (L : forall l l' : list value, {l = l'} + {l <> l'}).
  { intros l l'. apply list_eq_dec. exact IH. }
  destruct a, b; try (right; discriminate); try (left; reflexivity).
  - destruct (Nat.eq_dec n n0); [left; congruence|right; congruence].
  - destruct (Z.eq_dec z z0); [left; congruence|right; congruence].
  - destruct (Z.eq_dec m m0); [|right; congruence]. destruct (Z.eq_dec e e0); [left; congruence|right; congruence].
  - destruct (string_dec s s0); [left; congruence|right; congruence].
  - destruct (bool_dec b b0); [left; congruence|right; congruence].
  - destruct (string_dec tag tag0); [|right; congruence].
    destruct (Z.eq_dec payload payload0); [left; congruence|right; congruence].
  - destruct (L l l0); [left; congruence|right; congruence].
  - destruct (Nat.eq_dec r r0); [|right; congruence]. destruct (Nat.eq_dec c c0); [|right; congruence].
    destruct (L l l0); [left; congruence|right; congruence].
  - destruct (IH a1 b1); [|right; congruence]. destruct (IH a2 b2); [left; congruence|right; congruence].
  - destruct (IH a b); [left; congruence|right; congruence].
Defined.

(* a well-kinded value different from a given one *)
Definition other (k : kind) (v : value) : value :=
  if value_eq_dec v (wit0 k) then wit1 k else wit0 k.

Lemma other_kind k v : has_kind k (other k v) = true.
Proof. unfold other. destruct (value_eq_dec v (wit0 k)); [apply wit1_kind|apply wit0_kind]. Qed.

Lemma other_differs k v : informative k = true -> other k v <> v.
Proof.
  intros H. unfold other. destruct (value_eq_dec v (wit0 k)) as [E|E].
  - subst v. intros C. apply (wit_differ k H). symmetry. exact C.
  - intros C. apply E. symmetry. exact C.
Qed.

Lemma typed_obj_update : forall fs x n v,
  typed_obj fs x = true -> ~ In n (map fname fs) -> typed_obj fs (update n v x) = true.
Proof.
  induction fs as [|f fs IH]; intros x n v T Hn; [reflexivity|].
  unfold typed_obj in *. cbn [forallb] in *. apply andb_prop in T. destruct T as [Tf Tr].
  rewrite lookup_update_neq. 2:{ intros C. apply Hn. left. exact C. }
  rewrite Tf. cbn [andb]. apply IH; [exact Tr|]. intros C. apply Hn. right. exact C.
Qed.

Lemma typed_obj_app fs gs x : typed_obj (fs ++ gs) x = typed_obj fs x && typed_obj gs x.
Proof. unfold typed_obj. apply forallb_app. Qed.

(* ------------------------------------------------------------------------------------------ *)
(* mismatch diagnostics *)

(* A field dropped from read (anywhere: trailing when w2 = [], middle otherwise, leading when
   w1 = []): for every fresh object there is a well-typed object of the class whose round trip either
   fails to parse or, if it parses, returns an object whose dropped member still has the fresh
   object's value and not the written one.  (The layout is assumed inhabited: typed_obj ... x0.) *)
Theorem seq_mismatch_dropped_field : forall w1 f w2 fresh x0,
  ~ In (fname f) (map fname (w1 ++ w2)) ->
  informative (fkind f) = true ->
  typed_obj (w1 ++ f :: w2) x0 = true ->
  exists x, typed_obj (w1 ++ f :: w2) x = true /\
    forall rest x' rest',
      read_obj (w1 ++ w2) fresh (write_obj (w1 ++ f :: w2) x ++ rest) = Some (x', rest') ->
      lookup (fname f) x' <> lookup (fname f) x.
Proof.
  intros w1 f w2 fresh x0 Hn Hi T0.
  set (v := other (fkind f) (lookup (fname f) fresh)).
  exists (update (fname f) v x0). split.
  - rewrite typed_obj_app in *. apply andb_prop in T0. destruct T0 as [T1 T2].
    unfold typed_obj in T2. cbn [forallb] in T2. apply andb_prop in T2. destruct T2 as [_ T2].
    rewrite map_app in Hn.
    rewrite typed_obj_update; [|exact T1|intros C; apply Hn; apply in_or_app; left; exact C].
    unfold typed_obj at 1. cbn [forallb andb]. rewrite lookup_update_eq.
    unfold v. rewrite other_kind. cbn [andb].
    apply typed_obj_update; [exact T2|]. intros C. apply Hn. apply in_or_app. right. exact C.
  - intros rest x' rest' R.
    rewrite (read_obj_untouched _ _ _ _ _ (fname f) R Hn).
    rewrite lookup_update_eq. unfold v. intros C. symmetry in C. revert C. apply other_differs. exact Hi.
Qed.

(* Two adjacent fields of the same kind written in one order and read in the other: the round trip
   parses without any error, consumes exactly the written tokens, and silently exchanges the two
   members. *)
Theorem seq_mismatch_swapped_fields : forall w1 f g w2 fresh x0,
  fkind f = fkind g -> fname f <> fname g ->
  ~ In (fname f) (map fname (w1 ++ w2)) -> ~ In (fname g) (map fname (w1 ++ w2)) ->
  informative (fkind f) = true ->
  typed_obj (w1 ++ f :: g :: w2) x0 = true ->
  exists x, typed_obj (w1 ++ f :: g :: w2) x = true /\
    forall rest, exists x',
      read_obj (w1 ++ g :: f :: w2) fresh (write_obj (w1 ++ f :: g :: w2) x ++ rest) = Some (x', rest) /\
      lookup (fname f) x' = lookup (fname g) x /\ lookup (fname g) x' = lookup (fname f) x /\
      lookup (fname f) x' <> lookup (fname f) x.
Proof.
  intros w1 f g w2 fresh x0 Ek Hfg Hf Hg Hi T0.
  rewrite map_app in Hf, Hg.
  assert (Hf1 : ~ In (fname f) (map fname w1)) by (intros C; apply Hf; apply in_or_app; auto).
  assert (Hf2 : ~ In (fname f) (map fname w2)) by (intros C; apply Hf; apply in_or_app; auto).
  assert (Hg1 : ~ In (fname g) (map fname w1)) by (intros C; apply Hg; apply in_or_app; auto).
  assert (Hg2 : ~ In (fname g) (map fname w2)) by (intros C; apply Hg; apply in_or_app; auto).
  set (x := update (fname f) (wit0 (fkind f)) (update (fname g) (wit1 (fkind f)) x0)).
  assert (Lf : lookup (fname f) x = wit0 (fkind f)) by (unfold x; apply lookup_update_eq).
  assert (Lg : lookup (fname g) x = wit1 (fkind f)).
  { unfold x. rewrite lookup_update_neq by (intros C; apply Hfg; symmetry; exact C). apply lookup_update_eq. }
  rewrite typed_obj_app in T0. apply andb_prop in T0. destruct T0 as [T1 T2].
  unfold typed_obj in T2. cbn [forallb] in T2.
  apply andb_prop in T2. destruct T2 as [_ T2]. apply andb_prop in T2. destruct T2 as [_ T2].
  fold (typed_obj w2 x0) in T2.
  assert (X1 : typed_obj w1 x = true).
  { unfold x. apply typed_obj_update; [|exact Hf1]. apply typed_obj_update; [exact T1|exact Hg1]. }
  assert (X2 : typed_obj w2 x = true).
  { unfold x. apply typed_obj_update; [|exact Hf2]. apply typed_obj_update; [exact T2|exact Hg2]. }
  exists x. split.
  - rewrite typed_obj_app. rewrite X1. cbn [andb]. unfold typed_obj. cbn [forallb].
    rewrite Lf, Lg, <- Ek at 1. rewrite wit0_kind. rewrite Ek at 1. rewrite <- Ek. rewrite wit1_kind.
    cbn [andb]. exact X2.
  - intros rest.
    (* run read over the three segments *)
    set (o1 := restore w1 x fresh).
    set (o2 := update (fname f) (wit1 (fkind f)) (update (fname g) (wit0 (fkind f)) o1)).
    exists (restore w2 x o2).
    assert (R : read_obj (w1 ++ g :: f :: w2) fresh (write_obj (w1 ++ f :: g :: w2) x ++ rest)
                = Some (restore w2 x o2, rest)).
    { unfold write_obj. rewrite flat_map_app. cbn [flat_map]. fold (write_obj w1 x). fold (write_obj w2 x).
      rewrite Lf, Lg. rewrite <- !app_assoc.
      (* generic: read over an append *)
      assert (RA : forall fs gs o ts o' r, read_obj fs o ts = Some (o', r) ->
                   read_obj (fs ++ gs) o ts = read_obj gs o' r).
      { induction fs as [|h fs IH]; intros gs o ts o' r H; cbn [read_obj app] in *.
        - inversion H. reflexivity.
        - destruct (decode (fkind h) ts) as [[v ts']|]; [|discriminate]. eapply IH. exact H. }
      rewrite (RA w1 _ fresh _ o1 _ (read_write_obj w1 x fresh _ X1)).
      cbn [read_obj]. rewrite <- Ek. rewrite codec_roundtrip by apply wit0_kind.
      rewrite codec_roundtrip by apply wit1_kind.
      fold o2. apply read_write_obj. exact X2. }
    split; [exact R|].
    assert (A : lookup (fname f) (restore w2 x o2) = wit1 (fkind f)).
    { rewrite restore_lookup_out by exact Hf2. unfold o2. apply lookup_update_eq. }
    assert (B : lookup (fname g) (restore w2 x o2) = wit0 (fkind f)).
    { rewrite restore_lookup_out by exact Hg2. unfold o2.
      rewrite lookup_update_neq by (intros C; apply Hfg; symmetry; exact C). apply lookup_update_eq. }
    rewrite A, B, Lf, Lg. repeat split; try reflexivity.
    intros C. apply (wit_differ (fkind f) Hi). symmetry. exact C.
Qed.

(* decode never invents tokens *)
Lemma decode_n_shorter (d : decoder) :
  (forall ts v r, d ts = Some (v, r) -> length r <= length ts) ->
  forall n ts l r, decode_n d n ts = Some (l, r) -> length r <= length ts.
Proof.
  intros Hd. induction n; intros ts l r H; cbn [decode_n] in H.
  - inversion H. lia.
  - destruct (d ts) as [[v ts']|] eqn:E; [|discriminate].
    destruct (decode_n d n ts') as [[l' r']|] eqn:E'; [|discriminate]. inversion H; subst.
    apply Hd in E. apply IHn in E'. lia.
Qed.

Lemma decode_shorter : forall k ts v r, decode k ts = Some (v, r) -> length r <= length ts.
Proof.
  induction k; intros ts v r H; cbn [decode] in H.
  - inversion H. lia.
  - destruct ts as [|[] ?]; inversion H; cbn; lia.
  - destruct ts as [|[] ?]; inversion H; cbn; lia.
  - destruct ts as [|[] ?]; inversion H; cbn; lia.
  - destruct ts as [|[] ?]; inversion H; cbn; lia.
  - destruct ts as [|[] ?]; inversion H; cbn; lia.
  - destruct ts as [|[] ?]; try discriminate H. destruct (String.eqb tag tag0); inversion H; cbn; lia.
  - destruct ts as [|[] ?]; try discriminate H.
    destruct (decode_n (decode k) n ts) as [[l r']|] eqn:E; [|discriminate]. inversion H; subst.
    apply (decode_n_shorter _ IHk) in E. cbn. lia.
  - destruct (decode_n (decode k) n ts) as [[l r']|] eqn:E; [|discriminate]. inversion H; subst.
    apply (decode_n_shorter _ IHk) in E. lia.
  - destruct ts as [|[] ?]; try discriminate H. destruct ts as [|[] ?]; try discriminate H.
    destruct (decode_n (decode k) (n * n0) ts) as [[l r']|] eqn:E; [|discriminate]. inversion H; subst.
    apply (decode_n_shorter _ IHk) in E. cbn. lia.
  - destruct (decode k1 ts) as [[x r1]|] eqn:E1; [|discriminate].
    destruct (decode k2 r1) as [[y r2]|] eqn:E2; [|discriminate]. inversion H; subst.
    apply IHk1 in E1. apply IHk2 in E2. lia.
  - destruct ts as [|[] ?]; try discriminate H. destruct b.
    + destruct (decode k ts) as [[x r']|] eqn:E; [|discriminate]. inversion H; subst. apply IHk in E. cbn. lia.
    + inversion H; subst. cbn. lia.
Qed.

(* a kind whose decoder needs at least one token *)
Fixpoint consuming (k : kind) : bool :=
  match k with
  | KUnit => false
  | KFix n k' => negb (Nat.eqb n 0) && consuming k'
  | KPair a b => consuming a || consuming b
  | _ => true
  end.

Lemma decode_nil : forall k, consuming k = true -> decode k [] = None.
Proof.
  induction k; cbn [consuming decode]; intros H; try discriminate H; try reflexivity.
  - apply andb_prop in H. destruct H as [Hn Hk]. apply negb_true_iff in Hn. apply Nat.eqb_neq in Hn.
    destruct n; [congruence|]. cbn [decode_n]. rewrite IHk by exact Hk. reflexivity.
  - destruct (decode k1 []) as [[x r]|] eqn:E1; [|reflexivity].
    apply orb_prop in H. destruct H as [H|H].
    + specialize (IHk1 H). discriminate IHk1.
    + apply decode_shorter in E1. destruct r; [|cbn in E1; lia]. rewrite IHk2 by exact H. reflexivity.
Qed.

Lemma read_obj_app : forall fs gs o ts o' r,
  read_obj fs o ts = Some (o', r) -> read_obj (fs ++ gs) o ts = read_obj gs o' r.
Proof.
  induction fs as [|h fs IH]; intros gs o ts o' r H; cbn [read_obj app] in *.
  - inversion H. reflexivity.
  - destruct (decode (fkind h) ts) as [[v ts']|]; [|discriminate]. eapply IH. exact H.
Qed.

(* A field that read streams after everything write produced (a trailing field dropped from
   write): reading back a complete archive of any object runs off its end. *)
Theorem seq_mismatch_extra_trailing_read : forall wf f x fresh,
  consuming (fkind f) = true -> typed_obj wf x = true ->
  read_obj (wf ++ [f]) fresh (write_obj wf x) = None.
Proof.
  intros wf f x fresh Hc T.
  pose proof (read_write_obj wf x fresh [] T) as R. rewrite app_nil_r in R.
  rewrite (read_obj_app _ _ _ _ _ _ R). cbn [read_obj]. rewrite decode_nil by exact Hc. reflexivity.
Qed.

(* the boolean diagnostics agree with equality of the lists *)
Lemma kind_eqb_refl : forall k, kind_eqb k k = true.
Proof.
  induction k; cbn; try reflexivity; try apply String.eqb_refl; try assumption.
  - rewrite Nat.eqb_refl. exact IHk.
  - rewrite IHk1. exact IHk2.
Qed.

Lemma field_eqb_refl f : field_eqb f f = true.
Proof. unfold field_eqb. rewrite !String.eqb_refl, kind_eqb_refl. reflexivity. Qed.

Lemma first_diff_same : forall fs i, first_diff fs fs i = None.
Proof. induction fs; intros i; cbn [first_diff]; [reflexivity|]. rewrite field_eqb_refl. apply IHfs. Qed.

Corollary first_diff_sound rf wf i n : first_diff rf wf i = Some n -> rf <> wf.
Proof. intros H E. subst. rewrite first_diff_same in H. discriminate. Qed.

(* the hypotheses of the mismatch theorems are satisfiable: LinearModel's field list with m_offset
   dropped from read *)
Example dropped_example :
  let fm := F "m_matrix" "m_matrix" (KMat KDbl) "" in
  let fo := F "m_offset" "m_offset" (KVec KDbl) "" in
  let fi := F "m_inputShape" "m_inputShape" KShape "" in
  exists x, typed_obj ([fm] ++ fo :: [fi]) x = true /\
    forall rest x' rest',
      read_obj ([fm] ++ [fi]) [] (write_obj ([fm] ++ fo :: [fi]) x ++ rest) = Some (x', rest') ->
      lookup "m_offset" x' <> lookup "m_offset" x.
Proof.
  intros fm fo fi.
  apply (seq_mismatch_dropped_field [fm] fo [fi] []
           [("m_matrix", wit0 (KMat KDbl)); ("m_offset", wit0 (KVec KDbl)); ("m_inputShape", wit0 KShape)]).
  - subst fm fo fi. cbn. intros [C|[C|[]]]; discriminate C.
  - reflexivity.
  - reflexivity.
Qed.
