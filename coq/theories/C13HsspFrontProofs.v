(* C13 — HypervolumeSubsetSelection2D, second part: createFront, chain volume = hv_spec, and the optimality theorem.
   Axiom-free (lists, nat, Z). *)
From Coq Require Import List ZArith Lia Bool Arith Permutation Sorted.
From SharkV Require Import ListAux C13Model C13Proofs C13WfgProofs C13Sweep3d C13Sweep3dProofs
  C13Hssp C13HsspEnvProofs C13HsspProofs.
Import ListNotations.
Local Open Scope Z_scope.

(* ---------------------------------------------------------------------------------------- *)
(* generic facts on StronglySorted *)
Lemma SS_app {A} (R : A -> A -> Prop) l1 l2 :
  StronglySorted R (l1 ++ l2) <->
  StronglySorted R l1 /\ StronglySorted R l2 /\ forall a b, In a l1 -> In b l2 -> R a b.
Proof.
  induction l1 as [|x l1 IH]; cbn [app].
  - split; [intros H; split; [constructor|split; auto; intros a b []]|tauto].
  - split.
    + intros H. apply StronglySorted_inv in H. destruct H as [H1 H2]. apply IH in H1.
      destruct H1 as [HA [HB HX]]. rewrite Forall_forall in H2. split; [|split; auto].
      * constructor; auto. apply Forall_forall. intros y Hy. apply H2. apply in_or_app; auto.
      * intros a b [<-|Ha] Hb; [apply H2; apply in_or_app; auto|auto].
    + intros [HA [HB HX]]. apply StronglySorted_inv in HA. destruct HA as [HA1 HA2].
      rewrite Forall_forall in HA2. constructor.
      * apply IH. split; auto. split; auto. intros a b Ha Hb. apply HX; auto. now right.
      * apply Forall_forall. intros y Hy. apply in_app_or in Hy. destruct Hy; auto. apply HX; auto. now left.
Qed.

Lemma SS_rev {A} (R : A -> A -> Prop) l : StronglySorted R l -> StronglySorted (fun a b => R b a) (rev l).
Proof.
  induction 1 as [|x l HS IH HF]; cbn [rev]; [constructor|].
  apply SS_app. split; auto. split; [repeat constructor|].
  rewrite Forall_forall in HF. intros a b Ha [<-|[]]. apply HF. now apply in_rev.
Qed.

Lemma SS_map {A B} (f : A -> B) (R : B -> B -> Prop) l :
  StronglySorted (fun a b => R (f a) (f b)) l -> StronglySorted R (map f l).
Proof.
  induction 1 as [|x l HS IH HF]; cbn [map]; constructor; auto.
  rewrite Forall_forall in *. intros y Hy. apply in_map_iff in Hy. destruct Hy as [z [<- Hz]]. auto.
Qed.

Lemma SS_impl {A} (R R' : A -> A -> Prop) l :
  StronglySorted R l -> (forall a b, In a l -> In b l -> R a b -> R' a b) -> StronglySorted R' l.
Proof.
  induction 1 as [|x l HS IH HF]; intros H; constructor.
  - apply IH. intros a b Ha Hb. apply H; now right.
  - rewrite Forall_forall in *. intros y Hy. apply H; [now left|now right|auto].
Qed.

Lemma SS_filter {A} (R : A -> A -> Prop) f l : StronglySorted R l -> StronglySorted R (filter f l).
Proof.
  induction 1 as [|x l HS IH HF]; cbn [filter]; [constructor|].
  destruct (f x); auto. constructor; auto. rewrite Forall_forall in *. intros y Hy. apply filter_In in Hy. apply HF, Hy.
Qed.

Lemma SS_seq a n : StronglySorted lt (seq a n).
Proof.
  revert a; induction n as [|n IH]; intros a; cbn [seq]; constructor; auto.
  apply Forall_forall. intros y Hy. apply in_seq in Hy. lia.
Qed.

Lemma SS_nth {A} (R : A -> A -> Prop) l d : StronglySorted R l ->
  forall i j, (i < j < length l)%nat -> R (nth i l d) (nth j l d).
Proof.
  induction 1 as [|x l HS IH HF]; intros i j Hij; [cbn in Hij; lia|].
  destruct j as [|j]; [lia|]. destruct i as [|i]; cbn [nth].
  - rewrite Forall_forall in HF. apply HF, nth_In. cbn in Hij. lia.
  - apply IH. cbn in Hij. lia.
Qed.

(* ---------------------------------------------------------------------------------------- *)
(* weak staircases: the closed form G of C13Sweep3dProofs is their area as well *)
Definition wstairR (a b : Z * Z) : Prop := fst a <= fst b /\ snd b <= snd a.

Lemma G_area_w lo r0 : forall A t, StronglySorted wstairR A ->
  (forall e, In e A -> lo <= fst e <= r0 /\ lo <= snd e <= t) ->
  area_below lo r0 A t = G r0 t A.
Proof.
  induction A as [|[x y] A IH]; intros t HS HB; [apply area_below_nil|].
  apply StronglySorted_inv in HS. destruct HS as [HS HR]. rewrite Forall_forall in HR.
  destruct (HB (x, y) (or_introl eq_refl)) as [Hx Hy]. cbn [fst snd] in Hx, Hy.
  rewrite area_cons_le; auto.
  2:{ intros q Hq. destruct (HR q Hq) as [H1 _]. cbn in H1. lia. }
  rewrite (IH y HS).
  2:{ intros e He. destruct (HB e (or_intror He)) as [H1 H2]. destruct (HR e He) as [_ H3]. cbn in H3. lia. }
  cbn [G fst snd]. rewrite (G_shift r0 t y A). ring.
Qed.

(* ---------------------------------------------------------------------------------------- *)
(* the volume of a chain of front points is hv_spec of the points *)
Section Chain.
Variables (F : list fpt) (r0 r1 : Z).
Let n := length F.
Hypothesis Hx : forall i j, (i <= j < n)%nat -> X F i <= X F j.
Hypothesis Hy : forall i j, (i < j < n)%nat -> Y F j < Y F i.
Hypothesis Hneg : forall i, (i < n)%nat -> X F i <= 0 /\ Y F i <= 0.

Definition pairP (q : nat) : Z * Z := (X F q + r0, Y F q + r1).
Definition pointP (q : nat) : point := [X F q + r0; Y F q + r1].

Lemma G_chain : forall r kx, r <> [] ->
  G kx r1 (map pairP (rev r)) = lvolR F r + (kx - r0 - X F (hd 0%nat r)) * (- Y F (hd 0%nat r)).
Proof.
  induction r as [|b r IH]; intros kx Hne; [congruence|].
  destruct r as [|a t].
  - cbn. ring.
  - cbn [rev] in *. rewrite map_app, G_app. cbn [map G next_key pairP fst snd hd].
    rewrite IH by discriminate. cbn [hd].
    change (lvolR F (b :: a :: t)) with (Y F a * (X F a - X F b) + lvolR F (a :: t)). ring.
Qed.

Lemma chain_hv r : wchain F r -> r <> [] -> hv_spec [r0; r1] (map pointP (rev r)) = total F r.
Proof.
  intros [HS HB] Hne. set (S' := map pointP (rev r)).
  assert (L2 : len2 S') by (apply Forall_forall; intros p Hp; apply in_map_iff in Hp; destruct Hp as [q [<- _]]; reflexivity).
  unfold hv_spec. cbn [rev app]. rewrite hv_box_2d by auto.
  assert (EP : map to_pair S' = map pairP (rev r)) by (unfold S'; rewrite map_map; reflexivity).
  rewrite EP.
  pose proof (min_coord_lower_bound [r0; r1] S') as LB. set (lo := min_coord [r0; r1] S') in *.
  assert (Bq : forall q, In q r -> (q < n)%nat) by exact HB.
  rewrite (G_area_w lo r0).
  - rewrite G_chain by auto. destruct r as [|b t]; [congruence|]. cbn [hd total]. ring.
  - apply SS_map. apply SS_rev in HS.
    eapply SS_impl; [exact HS|]. intros a b Ha Hb Hab. cbn beta in Hab. apply in_rev in Ha, Hb.
    unfold wstairR, pairP. cbn [fst snd].
    pose proof (Hx a b ltac:(split; [lia|now apply Bq])).
    destruct (Nat.eq_dec a b) as [->|Hne']; [lia|]. pose proof (Hy a b ltac:(split; [lia|now apply Bq])). lia.
  - intros e He. apply in_map_iff in He. destruct He as [q [<- Hq]]. apply in_rev in Hq.
    destruct (Hneg q (Bq q Hq)). unfold pairP. cbn [fst snd].
    assert (In (pointP q) S') as Hin by (unfold S'; apply in_map, in_rev; now rewrite rev_involutive).
    pose proof (LB _ Hin (X F q + r0) ltac:(cbn; auto)). pose proof (LB _ Hin (Y F q + r1) ltac:(cbn; auto)). lia.
Qed.
End Chain.

(* ---------------------------------------------------------------------------------------- *)
(* hv_spec depends on the set of points only, and is monotone under covering *)
Lemma hv_spec_set_ext ref A B : (forall p, In p A <-> In p B) -> hv_spec ref A = hv_spec ref B.
Proof.
  intros H. symmetry. apply hv_spec_cover_eq.
  - intros q Hq. now apply H.
  - intros q Hq. exists q. split; [now apply H|apply leq_all_refl].
Qed.

Lemma hv_spec_cover_le ref S S' :
  (forall q, In q S -> exists p, In p S' /\ leq_all p q) -> hv_spec ref S <= hv_spec ref S'.
Proof.
  intros H. set (lo := Z.min (min_coord ref S) (min_coord ref S')).
  rewrite (hv_spec_any_lo ref S lo), (hv_spec_any_lo ref S' lo).
  - apply hv_box_cover_le. intros q Hq. apply in_map_iff in Hq. destruct Hq as [q' [<- Hq']].
    destruct (H q' Hq') as [p [Hp Hle]]. exists (rev p). split; [now apply in_map|now apply leq_all_rev].
  - eapply lower_bound_weaken; [apply (min_coord_lower_bound ref)|]. unfold lo; lia.
  - eapply lower_bound_weaken; [apply (min_coord_lower_bound ref)|]. unfold lo; lia.
Qed.

(* ---------------------------------------------------------------------------------------- *)
(* createFront *)
Definition sorted_px (l : list fpt) : Prop := StronglySorted (fun a b => px a <= px b) l.
Definition arr_ok (arr : list fpt -> list fpt) : Prop :=
  forall l, Permutation (arr l) l /\ sorted_px (arr l).
Definition chainR (a b : fpt) : Prop := px a <= px b /\ py b < py a.

Lemma uniq_incl : forall l last e, In e (uniq last l) -> In e l.
Proof.
  induction l as [|y l IH]; intros last e H; cbn [uniq] in H; [destruct H|].
  destruct (py last <=? py y); [right; eapply IH; eauto|]. destruct H as [<-|H]; [now left|right; eapply IH; eauto].
Qed.

Lemma uniq_chain : forall l last, sorted_px (last :: l) -> StronglySorted chainR (last :: uniq last l).
Proof.
  induction l as [|y l IH]; intros last HS; cbn [uniq]; [repeat constructor|].
  apply StronglySorted_inv in HS. destruct HS as [HS HF]. rewrite Forall_forall in HF.
  pose proof HS as HS0. apply StronglySorted_inv in HS. destruct HS as [HSl HFy]. rewrite Forall_forall in HFy.
  destruct (Z.leb_spec (py last) (py y)).
  - apply IH. constructor; auto. apply Forall_forall. intros e He. apply HF. now right.
  - specialize (IH y HS0). constructor; auto. apply Forall_forall. intros e [<-|He].
    + split; [apply HF; now left|lia].
    + apply StronglySorted_inv in IH. destruct IH as [_ IHF]. rewrite Forall_forall in IHF.
      destruct (IHF e He) as [H1 H2]. split; [|lia]. pose proof (HF y (or_introl eq_refl)). lia.
Qed.

Lemma uniq_cover : forall l last, sorted_px (last :: l) ->
  forall e, In e (last :: l) -> exists k, In k (last :: uniq last l) /\ px k <= px e /\ py k <= py e.
Proof.
  induction l as [|y l IH]; intros last HS e He; cbn [uniq].
  - destruct He as [<-|[]]. exists last. split; [now left|lia].
  - apply StronglySorted_inv in HS. destruct HS as [HS HF]. rewrite Forall_forall in HF.
    pose proof HS as HS0. apply StronglySorted_inv in HS. destruct HS as [HSl HFy].
    destruct (Z.leb_spec (py last) (py y)).
    + assert (HS1 : sorted_px (last :: l)).
      { constructor; auto. apply Forall_forall. intros a Ha. apply HF. now right. }
      destruct He as [<-|[<-|He]].
      * exists last. split; [now left|lia].
      * exists last. split; [now left|]. split; [apply HF; now left|lia].
      * apply (IH last HS1). now right.
    + destruct He as [<-|He].
      * exists last. split; [now left|lia].
      * destruct (IH y HS0 e He) as [k [Hk Hle]]. exists k. split; [now right|auto].
Qed.

Lemma in_shifted r0 r1 S e : In e (shifted r0 r1 S) <->
  exists i, (i < length S)%nat /\ e = (fst (to_pair (nth i S [])) - r0, snd (to_pair (nth i S [])) - r1, i).
Proof.
  unfold shifted. rewrite in_map_iff. split.
  - intros [[p i] [E Hin]]. apply (in_combine_nth S [] 0%nat) in Hin; [|now rewrite seq_length].
    destruct Hin as [j [Hj [Hp Hi]]]. rewrite seq_nth in Hi by auto. cbn in Hi. subst i p.
    exists j. split; auto. cbn [fst snd] in E. destruct (to_pair (nth j S [])). cbn. auto.
  - intros [i [Hi ->]]. exists (nth i S [], i). split; [cbn [fst snd]; destruct (to_pair (nth i S [])); reflexivity|].
    apply (in_combine_nth S [] 0%nat); [now rewrite seq_length|]. exists i. split; auto. split; auto.
    rewrite seq_nth by auto. reflexivity.
Qed.

Record front_ok (r0 r1 : Z) (S : list point) (F : list fpt) : Prop := {
  fo_x : forall i j, (i <= j < length F)%nat -> X F i <= X F j;
  fo_y : forall i j, (i < j < length F)%nat -> Y F j < Y F i;
  fo_neg : forall i, (i < length F)%nat -> X F i <= 0 /\ Y F i <= 0;
  fo_pt : forall q, (q < length F)%nat ->
            (pidx (nth q F dfp) < length S)%nat /\ nth (pidx (nth q F dfp)) S [] = [X F q + r0; Y F q + r1];
  fo_cov : forall p, In p S -> exists q, (q < length F)%nat /\ leq_all [X F q + r0; Y F q + r1] p }.

Lemma create_front_ok arr r0 r1 S : arr_ok arr -> below_ref [r0; r1] S ->
  front_ok r0 r1 S (create_front arr r0 r1 S).
Proof.
  intros HA HB. destruct (HA (shifted r0 r1 S)) as [HP HS]. unfold create_front.
  assert (L2 : forall p, In p S -> exists x y, p = [x; y] /\ x <= r0 /\ y <= r1).
  { intros p Hp. specialize (HB p Hp). inversion HB as [|x a t1 t2 Hx Ht]; subst.
    inversion Ht as [|y b t3 t4 Hy Ht']; subst. inversion Ht'; subst. eauto. }
  assert (MEM : forall e, In e (arr (shifted r0 r1 S)) ->
     (pidx e < length S)%nat /\ nth (pidx e) S [] = [px e + r0; py e + r1] /\ px e <= 0 /\ py e <= 0).
  { intros e He. apply (Permutation_in _ HP) in He. apply in_shifted in He. destruct He as [i [Hi ->]].
    destruct (L2 (nth i S []) (nth_In _ _ Hi)) as [x [y [E [Hx Hy]]]].
    unfold pidx, px, py. cbn [fst snd]. rewrite E. cbn [to_pair fst snd]. split; auto. split; [f_equal; [lia|f_equal; lia]|lia]. }
  destruct (arr (shifted r0 r1 S)) as [|x l] eqn:EA.
  - (* empty front: the set is empty *)
    assert (S = []) as ->.
    { destruct S as [|p S]; auto. exfalso.
      assert (In (fst (to_pair p) - r0, snd (to_pair p) - r1, 0%nat) (shifted r0 r1 (p :: S))) as Hin
        by (apply in_shifted; exists 0%nat; cbn; split; [lia|auto]).
      apply (Permutation_in _ (Permutation_sym HP)) in Hin. destruct Hin. }
    constructor; cbn [length]; try (intros; lia). intros p [].
  - pose proof (uniq_chain l x HS) as HC. pose proof (uniq_cover l x HS) as HV.
    set (K := x :: uniq x l) in *.
    assert (KM : forall e, In e K -> In e (x :: l)) by (intros e [<-|He]; [now left|right; eapply uniq_incl; eauto]).
    constructor.
    + intros i j Hij. destruct (Nat.eq_dec i j) as [->|Hne]; [lia|].
      destruct (SS_nth chainR K dfp HC i j ltac:(lia)) as [H _]. exact H.
    + intros i j Hij. destruct (SS_nth chainR K dfp HC i j Hij) as [_ H]. exact H.
    + intros i Hi. destruct (MEM (nth i K dfp) (KM _ (nth_In _ _ Hi))) as [_ [_ H]]. exact H.
    + intros q Hq. destruct (MEM (nth q K dfp) (KM _ (nth_In _ _ Hq))) as [H1 [H2 _]]. split; auto.
    + intros p Hp. destruct (In_nth S p [] Hp) as [i [Hi Ei]].
      destruct (L2 p Hp) as [xp [yp [E [Hxp Hyp]]]].
      assert (In (xp - r0, yp - r1, i) (x :: l)) as Hin.
      { apply (Permutation_in _ (Permutation_sym HP)). apply in_shifted. exists i. split; auto.
        rewrite Ei, E. reflexivity. }
      destruct (HV _ Hin) as [k [Hk [H1 H2]]]. destruct (In_nth K k dfp Hk) as [q [Hq Eq]].
      exists q. split; auto. unfold X, Y. rewrite Eq, E. unfold px, py in *. cbn [fst snd] in *.
      repeat constructor; lia.
Qed.

(* ---------------------------------------------------------------------------------------- *)
(* selection vectors *)
Definition count_true (sel : list bool) : nat := length (filter (fun b => b) sel).

Lemma count_true_map {A} (f : A -> bool) l : count_true (map f l) = length (filter f l).
Proof.
  unfold count_true. induction l as [|a l IH]; cbn [map filter]; auto. destruct (f a); cbn [length]; auto.
Qed.

Lemma existsb_eqb i l : existsb (Nat.eqb i) l = true <-> In i l.
Proof.
  rewrite existsb_exists. split.
  - intros [x [Hx E]]. apply Nat.eqb_eq in E. now subst.
  - intros H. exists i. split; auto. apply Nat.eqb_refl.
Qed.

Lemma mem_count_le idxs m : (length (filter (fun i => existsb (Nat.eqb i) idxs) (seq 0 m)) <= length idxs)%nat.
Proof.
  apply NoDup_incl_length.
  - apply NoDup_filter, seq_NoDup.
  - intros i Hi. apply filter_In in Hi. now apply existsb_eqb.
Qed.

Lemma nth_map_seq {B} (f : nat -> B) d m i : (i < m)%nat -> nth i (map f (seq 0 m)) d = f i.
Proof.
  intros Hi. rewrite (nth_indep _ d (f 0%nat)) by (now rewrite map_length, seq_length).
  rewrite map_nth, seq_nth by auto. reflexivity.
Qed.

Lemma In_pick idxs (S : list point) p :
  In p (pick (map (fun i => existsb (Nat.eqb i) idxs) (seq 0 (length S))) S) <->
  exists i, (i < length S)%nat /\ In i idxs /\ nth i S [] = p.
Proof.
  set (f := fun i => existsb (Nat.eqb i) idxs).
  unfold pick. rewrite in_map_iff. split.
  - intros [[b q] [E Hin]]. cbn in E. subst q. apply filter_In in Hin. destruct Hin as [Hin Hb]. cbn in Hb. subst b.
    apply (in_combine_nth _ false []) in Hin; [|now rewrite map_length, seq_length].
    destruct Hin as [i [Hi [Hs Hp]]]. rewrite map_length, seq_length in Hi.
    rewrite nth_map_seq in Hs by auto. exists i. split; auto. split; auto. now apply existsb_eqb.
  - intros [i [Hi [Hin <-]]]. exists (true, nth i S []). split; auto. apply filter_In. split; auto.
    apply (in_combine_nth _ false []); [now rewrite map_length, seq_length|].
    exists i. rewrite map_length, seq_length. split; auto. split; auto.
    rewrite nth_map_seq by auto. now apply existsb_eqb.
Qed.

(* ---------------------------------------------------------------------------------------- *)
(* the theorem *)
Theorem hssp2d_gen_optimal env arr ref S k sel :
  env_ok env -> arr_ok arr -> length ref = 2%nat -> below_ref ref S ->
  hssp2d_gen env arr ref S k = Some sel ->
  length sel = length S /\ (count_true sel <= k)%nat /\ (forall p, In p (pick sel S) -> In p S) /\
  forall T, incl T S -> (length T <= k)%nat -> hv_spec ref T <= hv_spec ref (pick sel S).
Proof.
  intros HE HA Hl HB Hres. destruct ref as [|r0 [|r1 [|? ?]]]; try discriminate. clear Hl.
  unfold hssp2d_gen in Hres. set (F := create_front arr r0 r1 S) in *.
  destruct ((k =? 0)%nat || (length F <? k)%nat) eqn:EK; [discriminate|].
  apply orb_false_elim in EK. destruct EK as [K0 KF]. apply Nat.eqb_neq in K0. apply Nat.ltb_ge in KF.
  injection Hres as <-.
  destruct (create_front_ok arr r0 r1 S HA HB) as [FX FY FN FP FC]. fold F in FX, FY, FN, FP, FC.
  destruct (hyp_ssp_spec F FX FY FN env HE k ltac:(lia) ltac:(lia)) as [i [r [Hh [HW [Hlen [Hpos Hopt]]]]]].
  rewrite Hh. set (pos := i :: r) in *.
  set (idxs := map (fun q => pidx (nth q F (0, 0, 0%nat))) pos).
  assert (Bq : forall q, In q pos -> (q < length F)%nat) by apply HW.
  assert (IL : length idxs = k) by (unfold idxs; now rewrite map_length).
  (* the picked points are the points of the chain *)
  assert (PS : forall p, In p (pick (map (fun i => existsb (Nat.eqb i) idxs) (seq 0 (length S))) S) <->
                         In p (map (pointP F r0 r1) (rev pos))).
  { intros p. rewrite In_pick. rewrite in_map_iff. split.
    - intros [j [Hj [Hin <-]]]. unfold idxs in Hin. apply in_map_iff in Hin. destruct Hin as [q [<- Hq]].
      exists q. split; [|now apply in_rev in Hq || (apply in_rev; now rewrite rev_involutive)].
      destruct (FP q (Bq q Hq)) as [_ E]. unfold pointP. symmetry. exact E.
    - intros [q [<- Hq]]. apply in_rev in Hq. destruct (FP q (Bq q Hq)) as [H1 E].
      exists (pidx (nth q F dfp)). split; auto. split; [|exact E].
      unfold idxs. apply in_map_iff. exists q. split; auto. }
  assert (HV : hv_spec [r0; r1] (pick (map (fun i => existsb (Nat.eqb i) idxs) (seq 0 (length S))) S) = total F pos).
  { rewrite (hv_spec_set_ext _ _ _ PS). apply chain_hv; auto. discriminate. }
  split; [now rewrite map_length, seq_length|]. split; [|split].
  - rewrite count_true_map. etransitivity; [apply mem_count_le|lia].
  - intros p Hp. apply In_pick in Hp. destruct Hp as [j [Hj [_ <-]]]. now apply nth_In.
  - intros T HT HTl. rewrite HV.
    destruct T as [|t0 T0]; [rewrite hv_spec_nil; exact Hpos|]. set (T := t0 :: T0) in *.
    (* one front position per point of T *)
    set (test := fun (t : point) (q : nat) => (X F q + r0 <=? nth 0 t 0) && (Y F q + r1 <=? nth 1 t 0)).
    set (P := flat_map (fun t => match find (test t) (seq 0 (length F)) with Some q => [q] | None => [] end) T).
    set (c := filter (fun q => existsb (Nat.eqb q) P) (seq 0 (length F))).
    assert (PL : (length P <= length T)%nat).
    { unfold P. clear. induction T as [|t T IH]; cbn [flat_map length]; auto. rewrite app_length.
      destruct (find _ _); cbn [length]; lia. }
    assert (CL : (length c <= length P)%nat).
    { apply NoDup_incl_length; [apply NoDup_filter, seq_NoDup|]. intros q Hq. apply filter_In in Hq. now apply existsb_eqb. }
    assert (CV : forall t, In t T -> exists q, In q c /\ leq_all (pointP F r0 r1 q) t).
    { intros t Ht. destruct (FC t (HT t Ht)) as [q [Hq Hle]].
      assert (L2 : exists x y, t = [x; y]).
      { specialize (HB t (HT t Ht)). inversion HB as [|x a t1 t2 Hx Ht1]; subst.
        inversion Ht1 as [|y b t3 t4 Hy Ht']; subst. inversion Ht'; subst. eauto. }
      destruct L2 as [x [y ->]].
      destruct (find (test [x; y]) (seq 0 (length F))) as [q'|] eqn:EF.
      - destruct (find_some _ _ EF) as [Hq' Ht']. exists q'. split.
        + apply filter_In. split; auto. apply existsb_eqb. unfold P. apply in_flat_map. exists [x; y]. split; auto.
          rewrite EF. now left.
        + unfold test in Ht'. cbn [nth] in Ht'. apply andb_prop in Ht'. destruct Ht' as [H1 H2].
          apply Z.leb_le in H1, H2. unfold pointP. repeat constructor; auto.
      - exfalso. assert (In q (seq 0 (length F))) as Hin by (apply in_seq; lia).
        pose proof (find_none _ _ EF q Hin) as Hf.
        unfold test in Hf. cbn [nth] in Hf. inversion Hle as [|a b l1 l2 Ha Hl]; subst. inversion Hl as [|a' b' l3 l4 Hb _]; subst.
        apply Z.leb_le in Ha, Hb. rewrite Ha, Hb in Hf. discriminate. }
    assert (CB : forall q, In q c -> (q < length F)%nat) by (intros q Hq; apply filter_In in Hq; destruct Hq as [Hq _]; apply in_seq in Hq; lia).
    assert (CS : StronglySorted (fun b a => (a < b)%nat) (rev c)) by (apply SS_rev, SS_filter, SS_seq).
    destruct (rev c) as [|j c'] eqn:ER.
    { exfalso. destruct (CV t0 (or_introl eq_refl)) as [q [Hq _]]. apply in_rev in Hq. rewrite ER in Hq. destruct Hq. }
    assert (RB : forall q, In q (j :: c') -> (q < length F)%nat) by (intros q Hq; apply CB, in_rev; now rewrite ER).
    assert (RL : (length (j :: c') <= k)%nat) by (rewrite <- ER, rev_length; lia).
    specialize (Hopt c' j (conj CS RB) RL).
    assert (WC : wchain F (j :: c')).
    { split; auto. eapply SS_impl; [exact CS|]. cbn beta. intros a b _ _ Hab. lia. }
    rewrite <- (chain_hv F r0 r1 FX FY FN (j :: c') WC) in Hopt by discriminate.
    etransitivity; [|exact Hopt]. apply hv_spec_cover_le. intros t Ht.
    destruct (CV t Ht) as [q [Hq Hle]]. exists (pointP F r0 r1 q). split; auto.
    apply in_map. rewrite <- ER, rev_involutive. exact Hq.
Qed.

(* ---------------------------------------------------------------------------------------- *)
(* the extracted arrangement: libstdc++'s insertion sort with the comparator of the code *)
Lemma tw_dw {A} (f : A -> bool) l : take_while f l ++ drop_while f l = l.
Proof. induction l as [|a l IH]; cbn; auto. destruct (f a); cbn; [now rewrite IH|reflexivity]. Qed.

Lemma tw_all {A} (f : A -> bool) l e : In e (take_while f l) -> f e = true.
Proof.
  induction l as [|a l IH]; cbn; [tauto|]. destruct (f a) eqn:E; [|intros []]. intros [<-|H]; auto.
Qed.

Lemma dw_head {A} (f : A -> bool) l : match drop_while f l with h :: _ => f h = false | [] => True end.
Proof. induction l as [|a l IH]; cbn; auto. destruct (f a) eqn:E; auto. Qed.

Lemma lin_insert_perm {A} (lt : A -> A -> bool) v pre : Permutation (lin_insert lt v pre) (v :: pre).
Proof.
  unfold lin_insert. destruct pre as [|first pre']; [reflexivity|]. destruct (lt v first); [reflexivity|].
  set (pre := first :: pre') in *. cbv zeta. symmetry. etransitivity; [|apply Permutation_middle].
  apply perm_skip. rewrite <- rev_app_distr, tw_dw, rev_involutive. reflexivity.
Qed.

Lemma isort_perm_gen {A} (lt : A -> A -> bool) : forall l acc,
  Permutation (fold_left (fun pre v => lin_insert lt v pre) l acc) (acc ++ l).
Proof.
  induction l as [|v l IH]; intros acc; cbn [fold_left]; [now rewrite app_nil_r|].
  etransitivity; [apply IH|]. etransitivity; [apply Permutation_app_tail, lin_insert_perm|].
  cbn [app]. apply Permutation_middle.
Qed.

Lemma isort_perm {A} (lt : A -> A -> bool) l : Permutation (isort lt l) l.
Proof. apply (isort_perm_gen lt l []). Qed.

Lemma fp_lt_true v e : fp_lt v e = true -> px v <= px e.
Proof.
  unfold fp_lt. destruct (Z.ltb_spec (px v) (px e)); [lia|]. destruct (Z.ltb_spec (px e) (px v)); [discriminate|lia].
Qed.
Lemma fp_lt_false v e : fp_lt v e = false -> px e <= px v.
Proof. unfold fp_lt. destruct (Z.ltb_spec (px v) (px e)); [discriminate|lia]. Qed.

Lemma lin_insert_sorted v pre : sorted_px pre -> sorted_px (lin_insert fp_lt v pre).
Proof.
  intros HS. unfold lin_insert. destruct pre as [|first pre']; [repeat constructor|].
  destruct (fp_lt v first) eqn:E1.
  - constructor; auto. apply Forall_forall. intros e [<-|He]; [now apply fp_lt_true|].
    apply StronglySorted_inv in HS. destruct HS as [_ HF]. rewrite Forall_forall in HF.
    apply fp_lt_true in E1. specialize (HF e He). cbn beta in HF. lia.
  - set (pre := first :: pre') in *. cbv zeta.
    set (tw := take_while (fp_lt v) (rev pre)). set (dw := drop_while (fp_lt v) (rev pre)).
    assert (EP : pre = rev dw ++ rev tw) by (rewrite <- rev_app_distr; unfold tw, dw; now rewrite tw_dw, rev_involutive).
    rewrite EP in HS. apply SS_app in HS. destruct HS as [HSd [HSt HX]].
    assert (TW : forall e, In e (rev tw) -> px v <= px e).
    { intros e He. apply in_rev in He. apply fp_lt_true. eapply tw_all; eauto. }
    assert (DW : forall e, In e (rev dw) -> px e <= px v).
    { intros e He. pose proof (dw_head (fp_lt v) (rev pre)) as HH. fold dw in HH.
      destruct dw as [|h dw']; [destruct He|]. apply fp_lt_false in HH.
      cbn [rev] in He, HSd. apply in_app_or in He. destruct He as [He|[<-|[]]]; [|lia].
      apply SS_app in HSd. destruct HSd as [_ [_ HXd]]. specialize (HXd e h He (or_introl eq_refl)). cbn beta in HXd. lia. }
    apply SS_app. split; auto. split.
    + constructor; auto. apply Forall_forall. exact TW.
    + intros a b Ha [<-|Hb]; [now apply DW|now apply HX].
Qed.

Lemma isort_sorted_gen : forall l acc, sorted_px acc ->
  sorted_px (fold_left (fun pre v => lin_insert fp_lt v pre) l acc).
Proof.
  induction l as [|v l IH]; intros acc HS; cbn [fold_left]; auto. apply IH. now apply lin_insert_sorted.
Qed.

Theorem isort_arr_ok : arr_ok (isort fp_lt).
Proof. intros l. split; [apply isort_perm|]. apply isort_sorted_gen. constructor. Qed.

(* the model as extracted *)
Theorem hssp2d_optimal ref S k sel :
  length ref = 2%nat -> below_ref ref S -> hssp2d ref S k = Some sel ->
  length sel = length S /\ (count_true sel <= k)%nat /\ (forall p, In p (pick sel S) -> In p S) /\
  forall T, incl T S -> (length T <= k)%nat -> hv_spec ref T <= hv_spec ref (pick sel S).
Proof. apply hssp2d_gen_optimal; [exact envelope_ok|exact isort_arr_ok]. Qed.

(* the selection attains the maximum over the k-subsets (as defined by best_subset_hv) from above *)
Lemma sublists_k_incl {A} : forall (l : list A) k T, In T (sublists_k k l) -> incl T l /\ length T = k.
Proof.
  induction l as [|x l IHl]; intros [|k] T H; cbn [sublists_k] in H.
  - destruct H as [<-|[]]. split; [intros a []|reflexivity].
  - destruct H.
  - destruct H as [<-|[]]. split; [intros a []|reflexivity].
  - apply in_app_or in H. destruct H as [H|H].
    + apply in_map_iff in H. destruct H as [T' [<- HT']]. destruct (IHl k T' HT') as [H1 H2].
      split; [intros a [<-|Ha]; [now left|right; now apply H1]|cbn; lia].
    + destruct (IHl (S k) T H) as [H1 H2]. split; auto. intros a Ha. right. now apply H1.
Qed.

Lemma fold_max_le (l : list Z) V : (forall v, In v l -> v <= V) -> 0 <= V -> fold_right Z.max 0 l <= V.
Proof.
  induction l as [|a l IH]; intros H H0; cbn [fold_right]; auto.
  pose proof (H a (or_introl eq_refl)). specialize (IH (fun v Hv => H v (or_intror Hv)) H0). lia.
Qed.

Corollary hssp2d_bounds_best_subset ref S k sel :
  length ref = 2%nat -> below_ref ref S -> hssp2d ref S k = Some sel ->
  best_subset_hv k ref S <= hv_spec ref (pick sel S).
Proof.
  intros Hl HB Hs. destruct (hssp2d_optimal ref S k sel Hl HB Hs) as [_ [_ [_ H]]].
  unfold best_subset_hv. apply fold_max_le.
  - intros v Hv. apply in_map_iff in Hv. destruct Hv as [T [<- HT]].
    destruct (sublists_k_incl S k T HT) as [H1 H2]. apply H; auto. lia.
  - specialize (H [] ltac:(intros a []) ltac:(cbn; lia)). now rewrite hv_spec_nil in H.
Qed.

(* ... and from below: the selected points extend to a k-sublist of the set *)
Lemma sublists_k_0 {A} (l : list A) : sublists_k 0 l = [[]].
Proof. destruct l; reflexivity. Qed.

Lemma pick_cons {A} b sel (x : A) S : pick (b :: sel) (x :: S) = if b then x :: pick sel S else pick sel S.
Proof. unfold pick. cbn. destruct b; reflexivity. Qed.

Lemma pick_in_sublists {A} : forall (S : list A) sel, length sel = length S ->
  In (pick sel S) (sublists_k (count_true sel) S).
Proof.
  induction S as [|x S IH]; intros [|b sel] Hl; try discriminate; [now left|].
  injection Hl as Hl. rewrite pick_cons. specialize (IH sel Hl). destruct b.
  - change (count_true (true :: sel)) with (Datatypes.S (count_true sel)). cbn [sublists_k].
    apply in_or_app. left. now apply in_map.
  - change (count_true (false :: sel)) with (count_true sel).
    destruct (count_true sel) as [|m].
    + rewrite sublists_k_0 in *. exact IH.
    + cbn [sublists_k]. apply in_or_app. now right.
Qed.

Lemma sublists_k_extend {A} : forall (S : list A) m k U, In U (sublists_k m S) -> (m <= k <= length S)%nat ->
  exists T, In T (sublists_k k S) /\ incl U T.
Proof.
  induction S as [|x S IH]; intros m k U HU Hk.
  - cbn in Hk. assert (m = k) as -> by lia. exists U. split; auto. apply incl_refl.
  - destruct (Nat.eq_dec m k) as [->|Hne]; [exists U; split; auto; apply incl_refl|].
    destruct k as [|k']; [lia|]. cbn [length] in Hk.
    assert (Cases : (exists U', U = x :: U' /\ exists m', m = Datatypes.S m' /\ In U' (sublists_k m' S)) \/ In U (sublists_k m S)).
    { destruct m as [|m']; [right; rewrite sublists_k_0 in *; exact HU|].
      cbn [sublists_k] in HU. apply in_app_or in HU. destruct HU as [HU|HU]; [left|now right].
      apply in_map_iff in HU. destruct HU as [U' [<- HU']]. eauto. }
    destruct Cases as [[U' [-> [m' [-> HU']]]]|HU'].
    + destruct (IH m' k' U' HU' ltac:(lia)) as [T' [HT' Hin]]. exists (x :: T'). split.
      * cbn [sublists_k]. apply in_or_app. left. now apply in_map.
      * intros a [<-|Ha]; [now left|right; now apply Hin].
    + destruct (IH m k' U HU' ltac:(lia)) as [T' [HT' Hin]]. exists (x :: T'). split.
      * cbn [sublists_k]. apply in_or_app. left. now apply in_map.
      * intros a Ha. right. now apply Hin.
Qed.

Lemma fold_max_ge (l : list Z) v : In v l -> v <= fold_right Z.max 0 l.
Proof.
  induction l as [|a l IH]; intros H; [destruct H|]. cbn [fold_right]. destruct H as [->|H]; [lia|]. specialize (IH H). lia.
Qed.

Lemma uniq_length : forall l last, (length (uniq last l) <= length l)%nat.
Proof.
  induction l as [|y l IH]; intros last; cbn [uniq length]; auto.
  destruct (py last <=? py y); [specialize (IH last); lia|specialize (IH y); cbn [length]; lia].
Qed.

Lemma create_front_length arr r0 r1 S : arr_ok arr -> (length (create_front arr r0 r1 S) <= length S)%nat.
Proof.
  intros HA. destruct (HA (shifted r0 r1 S)) as [HP _]. unfold create_front.
  apply Permutation_length in HP. unfold shifted in HP at 2. rewrite map_length, combine_length, seq_length in HP.
  destruct (arr (shifted r0 r1 S)) as [|x l]; cbn [length] in *; [lia|]. pose proof (uniq_length l x). lia.
Qed.

Theorem hssp2d_is_best_subset ref S k sel :
  length ref = 2%nat -> below_ref ref S -> hssp2d ref S k = Some sel ->
  hv_spec ref (pick sel S) = best_subset_hv k ref S.
Proof.
  intros Hl HB Hs. apply Z.le_antisymm; [|eapply hssp2d_bounds_best_subset; eauto].
  destruct (hssp2d_optimal ref S k sel Hl HB Hs) as [H1 [H2 _]].
  assert (Hk : (k <= length S)%nat).
  { unfold hssp2d, hssp2d_gen in Hs. destruct ref as [|r0 [|r1 [|? ?]]]; try discriminate.
    destruct ((k =? 0)%nat || (length (create_front (isort fp_lt) r0 r1 S) <? k)%nat) eqn:EK; [discriminate|].
    apply orb_false_elim in EK. destruct EK as [_ KF]. apply Nat.ltb_ge in KF.
    pose proof (create_front_length (isort fp_lt) r0 r1 S isort_arr_ok). lia. }
  destruct (sublists_k_extend S (count_true sel) k (pick sel S) (pick_in_sublists S sel H1) ltac:(lia)) as [T [HT Hin]].
  etransitivity; [|apply fold_max_ge, in_map, HT].
  apply hv_spec_cover_le. intros q Hq. exists q. split; [now apply Hin|apply leq_all_refl].
Qed.

Example hssp2d_example :
  below_ref [8; 8] [[1; 6]; [2; 4]; [2; 5]; [3; 4]; [5; 1]; [2; 4]; [4; 2]; [1; 7]] /\
  hssp2d [8; 8] [[1; 6]; [2; 4]; [2; 5]; [3; 4]; [5; 1]; [2; 4]; [4; 2]; [1; 7]] 3 =
    Some [false; true; false; false; true; false; true; false] /\
  hv_spec [8; 8] (pick [false; true; false; false; true; false; true; false]
                       [[1; 6]; [2; 4]; [2; 5]; [3; 4]; [5; 1]; [2; 4]; [4; 2]; [1; 7]]) = 35 /\
  best_subset_hv 3 [8; 8] [[1; 6]; [2; 4]; [2; 5]; [3; 4]; [5; 1]; [2; 4]; [4; 2]; [1; 7]] = 35.
Proof.
  split; [|split; [|split]]; try (vm_compute; reflexivity).
  intros p Hp. cbn in Hp. unfold leq_all.
  repeat (destruct Hp as [<-|Hp]; [repeat constructor; lia|]). destruct Hp.
Qed.
