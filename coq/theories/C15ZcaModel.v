(* C15 — NormalizeComponentsZCA::train AS CODED (include/shark/Algorithms/Trainers/NormalizeComponentsZCA.h, after the repair
   2b5526e7): executable model over Q, definitions only.  The symmetric eigen-decomposition is the ORACLE [eig] of C15PcaModel.v
   (contract eig_contract), std::sqrt the parameter [sq], epsm = std::numeric_limits<double>::epsilon().
     SHARK_RUNTIME_CHECK(numberOfElements >= dc + 1)  -> exception (None);
     meanvar(input, mean, covariance); eigen(covariance);
     threshold = dc * eps * max(eigen.D())      (max = fold of std::max over all entries);
     scaling(i) = D(i) > threshold ? 1 / sqrt(D(i)) : 0;
     ZCAMatrix = Q diag(scaling) Q^T;  ZCAMatrix *= sqrt(targetVariance);  offset = -ZCAMatrix mean.
   GHOST: the values the square root is taken of (the eigenvalues above the threshold, then the target variance). *)
From Coq Require Import List Arith Bool QArith.
From SharkV Require Import ListAux C03Model C15Model C15PcaModel.
Import ListNotations.
Open Scope Q_scope.

(* max over the entries 0 .. n *)
Fixpoint vmaxq (v : vecq) (n : nat) : Q :=
  match n with O => v O | S n' => let m := vmaxq v n' in if qltb m (v n) then v n else m end.

Section Zca.
Variable sq : Q -> Q.
Variable eig : nat -> matq -> matq * vecq.
Variable epsm : Q.

Definition zca_threshold (d : nat) (Dv : vecq) : Q := inject_Z (Z.of_nat d) * epsm * vmaxq Dv (Nat.pred d).
Definition zca_scaling (d : nat) (Dv : vecq) : vecq :=
  let thr := zca_threshold d Dv in memoq d (fun i => if qltb thr (Dv i) then 1 / sq (Dv i) else 0).
Definition zca_met (d : nat) (tv : Q) (Dv : vecq) : list Q :=
  map Dv (filter (fun i => qltb (zca_threshold d Dv) (Dv i)) (seq 0 d)) ++ [tv].
(* (matrix, offset, ghost) *)
Definition zca_train (d : nat) (tv : Q) (D : @data (list Q)) : option (matq * vecq * list Q) :=
  if (nelems D <? S d)%nat then None
  else
    match eig d (pca_cov d D) with
    | (U, Dv) =>
      let sc := zca_scaling d Dv in
      let r := sq tv in
      let W := memo2q d d (fun a j => Qred (sumn d (fun i => U a i * sc i * U j i) * r)) in
      Some (W, memoq d (fun a => - sumn d (fun j => W a j * mean (feat j) D)), zca_met d tv Dv)
    end.
End Zca.
