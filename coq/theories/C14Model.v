(* C14 — multi-objective optimisers: executable model (definitions only).

   Mechanism side (as coded in /repo):
     * IndicatorBasedSelection<Indicator>::operator()(population, mu)
         (Operators/Selection/IndicatorBasedSelection.h): non-dominated sort gives ranks, every
         individual starts selected, whole fronts are DEselected from the highest rank downwards
         while the rest still has >= mu members, then ONE call
         indicator.leastContributors(front, archive, popSize - mu) returns indices into the first
         front that does not fit; those are deselected.
     * HypervolumeIndicator / AdditiveEpsilonIndicator / CrowdingDistance ::leastContributors:
         K times "index = leastContributor(points, archive); erase it" with the activeIndices
         bookkeeping (least_contributors below, over an abstract single-point oracle).
     * PenalizingEvaluator::operator() with a BoxConstraintHandler (closest feasible = clamp).
     * SMSEMOA / SteadyStateMOCMA ::updatePopulation: push the offspring, select mu, overwrite the
       first unselected parent with the offspring if the offspring was selected.
   Points are objective vectors over Z (C13Model.point); the indicator is a Section variable. *)
From Coq Require Import List ZArith Lia Bool Arith.
From SharkV Require Import ListAux C13Model.
Import ListNotations.

(* indices (ascending, as the code pushes them) of the individuals of rank k *)
Definition front_idx (r : list nat) (k : nat) : list nat :=
  filter (fun i => nth i r 0 =? k) (seq 0 (length r)).

(* front[i].selected() = false for every listed index *)
Definition unset_all (l : list nat) (s : list bool) : list bool :=
  fold_left (fun s i => upd i false s) l s.

Definition count_true (s : list bool) : nat := length (filter (fun b => b) s).

Definition pts (S : list point) (idx : list nat) : list point := map (fun i => nth i S []) idx.

(* while(popSize - fronts[rank].size() >= mu){ deselect front; popSize -= size; --rank; } *)
Fixpoint drop_loop (r : list nat) (mu rank popSize : nat) (sel : list bool) : nat * nat * list bool :=
  match rank with
  | 0 => (0, popSize, sel)
  | Datatypes.S rk' =>
    let f := front_idx r rank in
    if mu <=? popSize - length f
    then drop_loop r mu rk' (popSize - length f) (unset_all f sel)
    else (rank, popSize, sel)
  end.

Record sel_out := {
  o_sel : list bool;        (* selected() flags, population order *)
  o_rank : nat;             (* rank of the front handed to the indicator *)
  o_front : list nat;       (* population indices of that front *)
  o_archive : list nat;     (* population indices of the fronts 1..rank-1 *)
  o_K : nat;                (* number of individuals the indicator must name *)
  o_removed : list nat      (* population indices deselected through the indicator *)
}.

Section Selection.
  (* indicator.leastContributors(front, archive, K): indices into front *)
  Variable leastContributors : list point -> list point -> nat -> list nat.

  Definition select_with_ranks (r : list nat) (S : list point) (mu : nat) : sel_out :=
    let n := length r in
    let '(rk, ps, s1) := drop_loop r mu (list_max r) n (repeat true n) in
    let F := front_idx r rk in
    let A := flat_map (front_idx r) (seq 1 (rk - 1)) in
    let K := ps - mu in
    let d := leastContributors (pts S F) (pts S A) K in
    let removed := map (fun lc => nth lc F 0) d in
    {| o_sel := unset_all removed s1; o_rank := rk; o_front := F; o_archive := A; o_K := K;
       o_removed := removed |}.

  (* operator(): ranks by the rank definition of C13 (rank_list; the C++ sorting algorithms are
     compared against it by the C13 check and again by the C14 check) *)
  Definition indicator_selection (S : list point) (mu : nat) : list nat * sel_out :=
    let r := rank_list S in (r, select_with_ranks r S mu).
End Selection.

(* ------------------------------------------------------------------------------------------ *)
(* leastContributors of the three one-at-a-time indicators, over the single-point oracle
   leastContributor(points, archive) *)
Section OneAtATime.
  Variable leastContributor : list point -> list point -> nat.

  Fixpoint lc_iter (K : nat) (points : list point) (active : list nat) (A : list point) : list nat :=
    match K with
    | 0 => []
    | Datatypes.S K' =>
      let index := leastContributor points A in
      nth index active 0 :: lc_iter K' (remove_nth index points) (remove_nth index active) A
    end.

  Definition least_contributors (F A : list point) (K : nat) : list nat :=
    lc_iter K F (seq 0 (length F)) A.
End OneAtATime.

(* ------------------------------------------------------------------------------------------ *)
(* steady-state update (SMSEMOA::updatePopulation, IndicatorBasedSteadyStateMOCMA::updatePopulation) *)
Fixpoint replace_first_unselected (sel : list bool) (P : list point) (o : point) : list point :=
  match sel, P with
  | b :: sel', p :: P' => if b then p :: replace_first_unselected sel' P' o else o :: P'
  | _, _ => P
  end.

(* the individuals whose flag is set *)
Fixpoint keep (sel : list bool) (Q : list point) : list point :=
  match sel, Q with
  | b :: sel', q :: Q' => if b then q :: keep sel' Q' else keep sel' Q'
  | _, _ => []
  end.

Section SteadyState.
  Variable leastContributor : list point -> list point -> nat.

  Definition ss_flags (P : list point) (o : point) : list bool :=
    o_sel (snd (indicator_selection (least_contributors leastContributor) (P ++ [o]) (length P))).

  Definition ss_step (P : list point) (o : point) : list point :=
    let sel := ss_flags P o in
    if nth (length P) sel false
    then replace_first_unselected (firstn (length P) sel) P o
    else P.
End SteadyState.

(* ------------------------------------------------------------------------------------------ *)
(* spec-level HypervolumeIndicator::leastContributor with setReference(ref): first index of minimal
   exact contribution hv(F) - hv(F \ i) (C13Model.contrib_spec) *)
Fixpoint argmin (l : list Z) : nat :=
  match l with
  | [] => 0
  | v :: t => match t with
              | [] => 0
              | _ => let k := argmin t in if (v <=? nth k t 0)%Z then 0 else Datatypes.S k
              end
  end.

Definition hv_lc (ref : point) (F A : list point) : nat := argmin (contribs_spec ref F).

(* ------------------------------------------------------------------------------------------ *)
(* PenalizingEvaluator with a box constraint handler, exact arithmetic.
   t = s if feasible else closestFeasible(s);  unpenalized = (sum of m evaluations of f at t)/m;
   penalized = unpenalized + alpha*|t - s|^2 in every component. *)
Local Open Scope Z_scope.

Definition clampz (lo hi x : Z) : Z := Z.max lo (Z.min x hi).

Fixpoint box_feasible (lo hi s : list Z) : bool :=
  match lo, hi, s with
  | l :: lo', h :: hi', x :: s' => (l <=? x) && (x <=? h) && box_feasible lo' hi' s'
  | _, _, _ => true
  end.

Fixpoint box_closest (lo hi s : list Z) : list Z :=
  match lo, hi, s with
  | l :: lo', h :: hi', x :: s' => clampz l h x :: box_closest lo' hi' s'
  | _, _, _ => s
  end.

Fixpoint norm_sqr_diff (t s : list Z) : Z :=
  match t, s with
  | a :: t', b :: s' => (a - b) * (a - b) + norm_sqr_diff t' s'
  | _, _ => 0
  end.

Fixpoint vadd (a b : list Z) : list Z :=
  match a, b with x :: a', y :: b' => (x + y) :: vadd a' b' | _, _ => a end.

Section Penalize.
  Variable f : list Z -> list Z.            (* deterministic objective *)
  Variable feasible : list Z -> bool.       (* f.isFeasible *)
  Variable closest : list Z -> list Z.      (* f.closestFeasible *)
  Variable alpha : Z.                       (* m_penaltyFactor *)
  Variable m : nat.                         (* m_numEvaluations - 1 further evaluations *)

  Definition repaired (s : list Z) : list Z := if feasible s then s else closest s.

  Definition penalized_eval (s : list Z) : list Z * list Z :=
    let t := repaired s in
    let sum := Nat.iter m (fun acc => vadd acc (f t)) (f t) in
    let unp := map (fun v => v / Z.of_nat (Datatypes.S m)) sum in
    let pen := map (fun v => v + alpha * norm_sqr_diff t s) unp in
    (unp, pen).
End Penalize.
