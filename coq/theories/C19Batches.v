(* C19 — batch structure of the imported datasets.  Every CSV importer cuts the records into batches with
   detail::optimalBatchSizes(numberOfRecords, maximumBatchSize) (model: C03Model.opt_sizes, theorems of C03 reused):
   the list of batch sizes IS opt_sizes n m, so the batches are balanced (sizes differ by at most one), none is empty
   or larger than requested, and there are ceil(n/m) of them.  The LibSVM importers build LabeledData(numPoints,
   blueprint, batchSize), whose sizes are full batches followed by the remainder (init_sizes) — NOT optimalBatchSizes. *)
From Coq Require Import List Arith ZArith NArith Bool Lia.
From SharkV Require Import ListAux C03Model C03Proofs C19Model C19Proofs C19RoundTrip C19RoundTrip2 C19SvmRoundTrip.
Import ListNotations.

Definition opt_batched {A} (m : nat) (bs : list (list A)) : Prop :=
  opt_sizes (length (concat bs)) m = Some (map (@length A) bs).

Lemma opt_sizes_count n m l : opt_sizes n m = Some l -> length l = if n =? 0 then 0 else ceil_div n m.
Proof.
  unfold opt_sizes. destruct (m =? 0); [discriminate|]. destruct (n =? 0); [intros [= <-]; reflexivity|].
  intros [= <-]. rewrite map_length, seq_length. reflexivity.
Qed.

Theorem opt_batched_props {A} m (bs : list (list A)) : opt_batched m bs ->
  (forall b, In b bs -> 1 <= length b <= m) /\
  (forall b b', In b bs -> In b' bs -> length b <= length b' + 1) /\
  length bs = (if length (concat bs) =? 0 then 0 else ceil_div (length (concat bs)) m).
Proof.
  unfold opt_batched. intros H. destruct (opt_sizes_spec _ _ _ H) as (_ & R & Bal & _).
  split; [|split].
  - intros b Hb. apply R. apply in_map. exact Hb.
  - intros b b' Hb Hb'. apply Bal; apply in_map; assumption.
  - rewrite <- (opt_sizes_count _ _ _ H), map_length. reflexivity.
Qed.

Lemma batch_opt_batched {A} (rows : list A) m bs : batch_opt rows m = Some bs -> opt_batched m bs.
Proof.
  intros E. destruct (batch_opt_spec _ _ _ E) as (C & _). destruct (batch_opt_sizes _ _ _ E) as (OS & _).
  unfold opt_batched. rewrite C. exact OS.
Qed.

Lemma opt_batched_nil {A} m : 1 <= m -> @opt_batched A m [].
Proof. intros Hm. unfold opt_batched, opt_sizes. cbn. destruct (Nat.eqb_spec m 0); [lia|reflexivity]. Qed.

Theorem post_data_batches rows m d : 1 <= m -> post_data rows m = Ok d -> opt_batched m (ds_batches d).
Proof.
  intros Hm. unfold post_data. destruct rows as [|r0 rest]; [intros [= <-]; apply opt_batched_nil; exact Hm|].
  destruct (batch_opt _ m) as [bs|] eqn:E; [|discriminate]. destruct (same_len _ _); [|discriminate].
  intros [= <-]. apply (batch_opt_batched _ _ _ E).
Qed.

Theorem post_reg_batches first nout rows m d : 1 <= m -> post_reg first nout rows m = Ok d -> opt_batched m (ds_batches d).
Proof.
  intros Hm. unfold post_reg. destruct rows as [|r0 rest]; [intros [= <-]; apply opt_batched_nil; exact Hm|].
  destruct (_ <=? nout); [discriminate|].
  destruct (batch_opt _ m) as [bs|] eqn:E; [|discriminate]. destruct (same_len _ _); [|discriminate].
  intros [= <-]. apply (batch_opt_batched _ _ _ E).
Qed.

Theorem post_cls_batches rows m d : 1 <= m -> post_cls rows m = Ok d -> opt_batched m (ds_batches d).
Proof.
  intros Hm. unfold post_cls. destruct rows as [|r0 rest]; [intros [= <-]; apply opt_batched_nil; exact Hm|].
  destruct (negb _); [discriminate|].
  destruct (batch_opt _ m) as [bs|] eqn:E; [|discriminate]. destruct (same_len _ _); [|discriminate].
  intros [= <-]. apply (batch_opt_batched _ _ _ E).
Qed.

Theorem post_scalar_batches {T} (vals : list T) m d : 1 <= m -> post_scalar vals m = Ok d -> opt_batched m (ds_batches d).
Proof.
  intros Hm. unfold post_scalar. destruct vals as [|v0 rest]; [intros [= <-]; apply opt_batched_nil; exact Hm|].
  destruct (batch_opt _ m) as [bs|] eqn:E; [|discriminate].
  intros [= <-]. apply (batch_opt_batched _ _ _ E).
Qed.

(* every CSV importer overload, every byte string *)
Theorem csv_import_batches sep cm m s : 1 <= m ->
  (forall d, csv_import_data sep cm m s = Ok d -> opt_batched m (ds_batches d)) /\
  (forall first nout d, csv_import_reg first nout sep cm m s = Ok d -> opt_batched m (ds_batches d)) /\
  (forall first d, csv_import_cls first sep cm m s = Ok d -> opt_batched m (ds_batches d)) /\
  (forall (T : Type) (lexT : list byte -> option (T * list byte)) d,
     lift (read_scalars cm lexT s) (fun v => post_scalar v m) = Ok d -> opt_batched m (ds_batches d)).
Proof.
  intros Hm. split; [|split; [|split]].
  - intros d. unfold csv_import_data, lift. destruct (read_values cm sep s); [|discriminate]. apply post_data_batches; exact Hm.
  - intros first nout d. unfold csv_import_reg, lift. destruct (read_values cm sep s); [|discriminate]. apply post_reg_batches; exact Hm.
  - intros first d. unfold csv_import_cls, lift. destruct (read_points cm sep first s); [|discriminate]. apply post_cls_batches; exact Hm.
  - intros T lexT d. unfold lift. destruct (read_scalars cm lexT s); [|discriminate]. apply post_scalar_batches; exact Hm.
Qed.

(* LibSVM importers: batchSize b, then the remainder; b = 0 means one batch *)
Definition init_batched {A} (b : nat) (bs : list (list A)) : Prop :=
  match concat bs with [] => bs = [] | _ => map (@length A) bs = init_sizes (length (concat bs)) b end.

Lemma svm_build_batches {L} compressed hi bsz (labels : list L) pts on_empty d :
  length labels = length pts -> pts <> [] -> svm_build compressed hi bsz labels pts on_empty = Ok d -> init_batched bsz (ds_batches d).
Proof.
  intros LEN NE. unfold svm_build. destruct (svm_dims_coded hi pts) as [mx hz].
  destruct (_ && _); [discriminate|]. destruct pts as [|p0 pts']; [contradiction|]. set (pts := p0 :: pts') in *.
  destruct (forallb _ pts); [|discriminate]. intros [= <-]. cbn [ds_batches].
  set (els := combine labels _).
  assert (LE : length els = length pts).
  { unfold els, pts in *. rewrite combine_length. cbn [length] in *. rewrite map_length. lia. }
  change (S (length pts')) with (length pts).
  destruct (init_sizes_chunk (length pts) bsz els LE ltac:(cbn; lia)) as (A & B).
  unfold init_batched. rewrite B. destruct els as [|e0 er] eqn:EE; [cbn in LE; lia|]. rewrite <- EE in *. rewrite A, LE. reflexivity.
Qed.

Theorem svm_import_batches compressed hi bsz s :
  (forall d, svm_import_cls compressed hi bsz s = Ok d -> init_batched bsz (ds_batches d)) /\
  (forall d, svm_import_reg compressed hi bsz s = Ok d -> init_batched bsz (ds_batches d)).
Proof.
  split; intros d.
  - unfold svm_import_cls, lift. destruct (read_svm s) as [recs|]; [|discriminate]. unfold post_svm_cls.
    destruct (negb _); [discriminate|]. destruct recs as [|r0 rr]; [intros [= <-]; reflexivity|].
    unfold post_svm_cls_coded. destruct (svm_labels (r0 :: rr)) as [ls|] eqn:SL; [|discriminate].
    destruct (svm_labels_spec _ _ SL) as (LL & _).
    apply svm_build_batches; [unfold norm_labels; rewrite !map_length; exact LL|discriminate].
  - unfold svm_import_reg, lift. destruct (read_svm s) as [recs|]; [|discriminate]. unfold post_svm_reg.
    destruct (negb _); [discriminate|]. destruct recs as [|r0 rr]; [intros [= <-]; reflexivity|].
    unfold post_svm_reg_coded. apply svm_build_batches; [rewrite !map_length; reflexivity|discriminate].
Qed.

(* the two partitions differ: 7 records, batch size 3 *)
Lemma partitions_differ : opt_sizes 7 3 = Some [3; 2; 2] /\ init_sizes 7 3 = [3; 3; 1].
Proof. split; reflexivity. Qed.
