(* C19 — executable model of Shark's text importers and exporters (src/Data/Csv.cpp, include/shark/Data/Csv.h,
   src/Data/SparseData.cpp, include/shark/Data/SparseData.h).  Definitions only.

   Input is a byte string (list of N, 0..255).  The Boost.Spirit grammars of the importers are transcribed
   as recursive-descent functions with Spirit's operational semantics (ordered choice, greedy kleene
   without backtracking, pre-skip before every primitive, post-skip of phrase_parse); every loop runs on
   fuel (length of the input + 1), so every function is total.  Numbers stay *tokens* (sign / integer
   digits / fraction digits / exponent): the conversion of a token to a double (Spirit) and of a double to
   a token (operator<< with precision 10) is outside the model and is compared by the correspondence check.
   Only class labels and feature indices, on which the importers compute, are interpreted (Z).

   The post-parse stage (equal-dimension check, label normalisation, zero-based detection, dimension
   inference, batching) is transcribed as coded.  Behaviour the C++ standard leaves undefined (division by
   zero in optimalBatchSizes for maximumBatchSize = 0, writes outside an element, dereferencing end() of an
   empty range) is the third outcome [Fault]. *)
From Coq Require Import List Arith ZArith NArith Bool Lia.
From SharkV Require Import ListAux C03Model.
Import ListNotations.

Definition byte := N.

Inductive outcome (A : Type) : Type :=
| Ok (a : A)     (* the importer returns a dataset *)
| Exc            (* shark::Exception (SHARK_RUNTIME_CHECK) *)
| Fault.         (* undefined behaviour in the C++ code: crash / out-of-bounds access *)
Arguments Ok {A} a.
Arguments Exc {A}.
Arguments Fault {A}.

(* ------------------------------------------------------------------------------------------------ *)
(* characters *)
Local Open Scope N_scope.

Definition is_digit (c : byte) : bool := (48 <=? c) && (c <=? 57).
Definition is_space (c : byte) : bool := ((9 <=? c) && (c <=? 13)) || (c =? 32).   (* std::isspace, "C" locale *)
Definition is_eolc (c : byte) : bool := (c =? 10) || (c =? 13).

(* qi::eol  =  "\r\n" | "\r" | "\n" *)
Definition eol (s : list byte) : option (list byte) :=
  match s with
  | c :: r =>
    if c =? 13 then
      match r with
      | c2 :: r2 => if c2 =? 10 then Some r2 else Some r
      | [] => Some r
      end
    else if c =? 10 then Some r else None
  | [] => None
  end.

(* skippers.  CSV vector readers: (space - eol) | (comment >> *(char_ - eol) >> (eol | eoi));
   CSV scalar readers: space | (comment ...), i.e. line ends are blank too ([eolblank] = true). *)
Inductive smode := SNormal | SComment | SAfterCR.

Fixpoint skipc (eolblank : bool) (cm : byte) (m : smode) (s : list byte) : list byte :=
  match s with
  | [] => []
  | c :: r =>
    let normal :=
      if is_space c && (eolblank || negb (is_eolc c)) then skipc eolblank cm SNormal r
      else if c =? cm then skipc eolblank cm SComment r
      else s in
    match m with
    | SNormal => normal
    | SComment =>
      if c =? 10 then skipc eolblank cm SNormal r
      else if c =? 13 then skipc eolblank cm SAfterCR r
      else skipc eolblank cm SComment r
    | SAfterCR => if c =? 10 then skipc eolblank cm SNormal r else normal
    end
  end.

(* skipper of the LibSVM line grammar: space *)
Fixpoint skips (s : list byte) : list byte :=
  match s with
  | c :: r => if is_space c then skips r else s
  | [] => []
  end.

(* ------------------------------------------------------------------------------------------------ *)
(* numeric tokens *)

Inductive num : Type :=
| NDec (sign : option bool) (ip : list byte) (dot : bool) (fp : list byte) (ex : option (option bool * list byte))
        (* [sign] Some true = '-', Some false = '+';  ip / fp digit characters;  ex = exponent sign and digits *)
| NNan (sign : option bool)
| NInf (sign : option bool)
| NMissing.   (* '?' or an empty field: quiet NaN *)

Fixpoint span_digits (s : list byte) : list byte * list byte :=
  match s with
  | c :: r => if is_digit c then let (d, t) := span_digits r in (c :: d, t) else ([], s)
  | [] => ([], [])
  end.

Definition lex_sign (s : list byte) : option bool * list byte :=
  match s with
  | c :: r => if c =? 45 then (Some true, r) else if c =? 43 then (Some false, r) else (None, s)
  | [] => (None, s)
  end.

Definition digits_val (ds : list byte) : Z :=
  fold_left (fun a c => (10 * a + (Z.of_N c - 48))%Z) ds 0%Z.

Definition signed (sg : option bool) (v : Z) : Z :=
  match sg with Some true => (- v)%Z | _ => v end.

Definition in_int32 (z : Z) : bool := ((-2147483648 <=? z) && (z <=? 2147483647))%Z.
Definition in_uint32 (z : Z) : bool := ((0 <=? z) && (z <=? 4294967295))%Z.

(* case-insensitive literal (detail::string_parse(lower, upper, ..)) *)
Fixpoint match_ci (lc uc : list byte) (s : list byte) : option (list byte) :=
  match lc, uc with
  | l :: lc', u :: uc' =>
    match s with
    | c :: r => if (c =? l) || (c =? u) then match_ci lc' uc' r else None
    | [] => None
    end
  | _, _ => Some s
  end.

Fixpoint after_paren (s : list byte) : option (list byte) :=
  match s with
  | c :: r => if c =? 41 then Some r else after_paren r
  | [] => None
  end.

(* real_policies::parse_nan: "nan" optionally followed by "(...)" *)
Definition lex_nan (s : list byte) : option (list byte) :=
  match match_ci [110; 97; 110] [78; 65; 78] s with
  | Some r =>
    match r with
    | c :: r' => if c =? 40 then after_paren r' else Some r
    | [] => Some r
    end
  | None => None
  end.

(* real_policies::parse_inf: "inf" optionally followed by "inity" *)
Definition lex_inf (s : list byte) : option (list byte) :=
  match match_ci [105; 110; 102] [73; 78; 70] s with
  | Some r =>
    match match_ci [105; 110; 105; 116; 121] [73; 78; 73; 84; 89] r with
    | Some r' => Some r'
    | None => Some r
    end
  | None => None
  end.

(* exponent: (e|E) [sign] digits+, the value must fit an int; otherwise the exponent is not part of the token *)
Definition lex_exp (s : list byte) : option (option bool * list byte) * list byte :=
  match s with
  | c :: r =>
    if (c =? 101) || (c =? 69) then
      let (sg, r1) := lex_sign r in
      let (ds, r2) := span_digits r1 in
      match ds with
      | [] => (None, s)
      | _ => if in_int32 (signed sg (digits_val ds)) then (Some (sg, ds), r2) else (None, s)
      end
    else (None, s)
  | [] => (None, s)
  end.

(* qi::double_ (real_policies<double>: leading and trailing dot allowed, dot not required) *)
Definition lex_double (s : list byte) : option (num * list byte) :=
  let (sg, s1) := lex_sign s in
  let (ip, s2) := span_digits s1 in
  match ip with
  | [] =>
    match lex_nan s2 with
    | Some r => Some (NNan sg, r)
    | None =>
      match lex_inf s2 with
      | Some r => Some (NInf sg, r)
      | None =>
        match s2 with
        | c :: r =>
          if c =? 46 then
            let (fp, s3) := span_digits r in
            match fp with
            | [] => None
            | _ => let (ex, s4) := lex_exp s3 in Some (NDec sg [] true fp ex, s4)
            end
          else None
        | [] => None
        end
      end
    end
  | _ =>
    match s2 with
    | c :: r =>
      if c =? 46 then
        let (fp, s3) := span_digits r in
        let (ex, s4) := lex_exp s3 in Some (NDec sg ip true fp ex, s4)
      else
        let (ex, s4) := lex_exp s2 in Some (NDec sg ip false [] ex, s4)
    | [] => Some (NDec sg ip false [] None, [])
    end
  end.

(* qi::int_ *)
Definition lex_int (s : list byte) : option (Z * list byte) :=
  let (sg, s1) := lex_sign s in
  let (ds, s2) := span_digits s1 in
  match ds with
  | [] => None
  | _ => let z := signed sg (digits_val ds) in if in_int32 z then Some (z, s2) else None
  end.

(* qi::uint_ *)
Definition lex_uint (s : list byte) : option (Z * list byte) :=
  let (ds, s2) := span_digits s in
  match ds with
  | [] => None
  | _ => let z := digits_val ds in if in_uint32 z then Some (z, s2) else None
  end.

Fixpoint drop_zeros (s : list byte) : list byte :=
  match s with
  | c :: r => if c =? 48 then drop_zeros r else s
  | [] => []
  end.

(* lexeme[int_ >> -(lit('.') >> *lit('0'))]  (after the pre-skip) *)
Definition lex_label (s : list byte) : option (Z * list byte) :=
  match lex_int s with
  | Some (z, r) =>
    match r with
    | c :: r' => if c =? 46 then Some (z, drop_zeros r') else Some (z, r)
    | [] => Some (z, r)
    end
  | None => None
  end.

(* ------------------------------------------------------------------------------------------------ *)
(* the CSV grammars of Csv.cpp *)
Section CsvGrammar.
Variable cm : byte.     (* comment character *)
Variable sep : byte.    (* separator (only used by the *_sep readers) *)

Definition sk := skipc false cm SNormal.
Definition eol_sk (s : list byte) : option (list byte) := eol (sk s).

Fixpoint eols (fuel : nat) (s : list byte) : list byte :=      (* *eol *)
  match fuel with
  | O => s
  | S f => match eol_sk s with Some r => eols f r | None => s end
  end.

Definition is_q (c : byte) : bool := c =? 63.

(* double_ | ('?' >> attr(qnan)) *)
Definition cell_ws (s : list byte) : option (num * list byte) :=
  let s' := sk s in
  match lex_double s' with
  | Some r => Some r
  | None => match s' with c :: r => if is_q c then Some (NMissing, r) else None | [] => None end
  end.

Fixpoint cells_ws (fuel : nat) (s : list byte) : list num * list byte :=     (* *cell *)
  match fuel with
  | O => ([], s)
  | S f =>
    match cell_ws s with
    | Some (v, r) => let (vs, t) := cells_ws f r in (v :: vs, t)
    | None => ([], s)
    end
  end.

(* +(double_ | '?') *)
Definition row_ws (s : list byte) : option (list num * list byte) :=
  match cell_ws s with
  | Some (v, r) => let (vs, t) := cells_ws (S (length r)) r in Some (v :: vs, t)
  | None => None
  end.

(* double_ | ((lit('?') | &lit(sep)) >> attr(qnan)) *)
Definition cell_sep (s : list byte) : option (num * list byte) :=
  let s' := sk s in
  match lex_double s' with
  | Some r => Some r
  | None =>
    match s' with
    | c :: r => if is_q c then Some (NMissing, r) else if c =? sep then Some (NMissing, s') else None
    | [] => None
    end
  end.

Fixpoint cells_sep (fuel : nat) (s : list byte) : list num * list byte :=   (* *(sep >> cell), restoring on failure *)
  match fuel with
  | O => ([], s)
  | S f =>
    match sk s with
    | c :: r =>
      if c =? sep then
        match cell_sep r with
        | Some (v, t) => let (vs, u) := cells_sep f t in (v :: vs, u)
        | None => ([], s)
        end
      else ([], s)
    | [] => ([], s)
    end
  end.

(* cell % sep *)
Definition row_sep (s : list byte) : option (list num * list byte) :=
  match cell_sep s with
  | Some (v, r) => let (vs, t) := cells_sep (S (length r)) r in Some (v :: vs, t)
  | None => None
  end.

(* generic  (row % eol) >> *eol, then post-skip and "first == last" *)
Section Rows.
Context {R : Type}.
Variable row : list byte -> option (R * list byte).

Fixpoint rows_list (fuel : nat) (s : list byte) : list R * list byte :=
  match fuel with
  | O => ([], s)
  | S f =>
    match eol_sk s with
    | None => ([], s)
    | Some s1 =>
      match row s1 with
      | None => ([], s)
      | Some (r, s2) => let (rs, t) := rows_list f s2 in (r :: rs, t)
      end
    end
  end.

Definition file_list (s : list byte) : option (list R) :=
  let fuel := S (length s) in
  match row s with
  | None => None
  | Some (r, s1) =>
    let (rs, t) := rows_list fuel s1 in
    match sk (eols fuel t) with
    | [] => Some (r :: rs)
    | _ => None
    end
  end.

(* label-last readers: do { phrase_parse(record) } while (r && first != last) *)
Fixpoint recs (rec : list byte -> option (R * list byte)) (fuel : nat) (s : list byte) : option (list R) :=
  match fuel with
  | O => None
  | S f =>
    match rec s with
    | None => None
    | Some (r, t) =>
      match t with
      | [] => Some [r]
      | _ => match recs rec f t with Some rs => Some (r :: rs) | None => None end
      end
    end
  end.
End Rows.

(* importCSVReaderSingleValues *)
Definition ws_mode : bool := is_space sep || (sep =? 0).

Definition read_values (s : list byte) : option (list (list num)) :=
  if ws_mode then file_list row_ws s else file_list row_sep s.

(* import_csv_reader_points, FIRST_COLUMN, whitespace:  lexeme[label] >> *(double_ | '?') *)
Definition row_first_ws (s : list byte) : option ((Z * list num) * list byte) :=
  match lex_label (sk s) with
  | Some (z, r) => let (vs, t) := cells_ws (S (length r)) r in Some ((z, vs), t)
  | None => None
  end.

(* sep >> (double_ | (-lit('?') >> attr(qnan))) *)
Definition cell_opt (s : list byte) : num * list byte :=
  let s' := sk s in
  match lex_double s' with
  | Some r => r
  | None => match s' with c :: r => if is_q c then (NMissing, r) else (NMissing, s') | [] => (NMissing, s') end
  end.

Fixpoint cells_first_sep (fuel : nat) (s : list byte) : list num * list byte :=
  match fuel with
  | O => ([], s)
  | S f =>
    match sk s with
    | c :: r =>
      if c =? sep then
        let (v, t) := cell_opt r in
        let (vs, u) := cells_first_sep f t in (v :: vs, u)
      else ([], s)
    | [] => ([], s)
    end
  end.

Definition row_first_sep (s : list byte) : option ((Z * list num) * list byte) :=
  match lex_label (sk s) with
  | Some (z, r) => let (vs, t) := cells_first_sep (S (length r)) r in Some ((z, vs), t)
  | None => None
  end.

(* LAST_COLUMN, whitespace: *((double_ >> !(eol|eoi)) | '?') >> lexeme[label] >> ( *eol | eoi ), post-skip *)
Definition at_line_end (s : list byte) : bool :=
  match sk s with
  | [] => true
  | s' => match eol s' with Some _ => true | None => false end
  end.

Definition cell_last_ws (s : list byte) : option (num * list byte) :=
  let s' := sk s in
  match lex_double s' with
  | Some (v, r) => if at_line_end r then None else Some (v, r)
  | None => match s' with c :: r => if is_q c then Some (NMissing, r) else None | [] => None end
  end.

Fixpoint cells_last_ws (fuel : nat) (s : list byte) : list num * list byte :=
  match fuel with
  | O => ([], s)
  | S f =>
    match cell_last_ws s with
    | Some (v, r) => let (vs, t) := cells_last_ws f r in (v :: vs, t)
    | None => ([], s)
    end
  end.

Definition rec_last_ws (s : list byte) : option ((Z * list num) * list byte) :=
  let (vs, t) := cells_last_ws (S (length s)) s in
  match lex_label (sk t) with
  | Some (z, r) => Some ((z, vs), sk (eols (S (length r)) r))
  | None => None
  end.

(* LAST_COLUMN, separator: *((double_ | -'?') >> sep) >> lexeme[label] >> ( *eol | eoi ), post-skip *)
Definition cell_last_sep (s : list byte) : option (num * list byte) :=
  let (v, r) := cell_opt s in
  match sk r with
  | c :: r' => if c =? sep then Some (v, r') else None
  | [] => None
  end.

Fixpoint cells_last_sep (fuel : nat) (s : list byte) : list num * list byte :=
  match fuel with
  | O => ([], s)
  | S f =>
    match cell_last_sep s with
    | Some (v, r) => let (vs, t) := cells_last_sep f r in (v :: vs, t)
    | None => ([], s)
    end
  end.

Definition rec_last_sep (s : list byte) : option ((Z * list num) * list byte) :=
  let (vs, t) := cells_last_sep (S (length s)) s in
  match lex_label (sk t) with
  | Some (z, r) => Some ((z, vs), sk (eols (S (length r)) r))
  | None => None
  end.

(* import_csv_reader_points *)
Definition read_points (first : bool) (s : list byte) : option (list (Z * list num)) :=
  match ws_mode, first with
  | true, true => file_list row_first_ws s
  | false, true => file_list row_first_sep s
  | true, false => recs rec_last_ws (S (length s)) s
  | false, false => recs rec_last_sep (S (length s)) s
  end.

(* importCSVReaderSingleValue<T>:  *auto_  with skipper  space | comment *)
Definition sk1 := skipc true cm SNormal.

Section Scalars.
Context {T : Type}.
Variable lexT : list byte -> option (T * list byte).
Fixpoint scalars (fuel : nat) (s : list byte) : list T * list byte :=
  match fuel with
  | O => ([], s)
  | S f =>
    match lexT (sk1 s) with
    | Some (v, r) => let (vs, t) := scalars f r in (v :: vs, t)
    | None => ([], s)
    end
  end.
Definition read_scalars (s : list byte) : option (list T) :=
  let (vs, t) := scalars (S (length s)) s in
  match sk1 t with [] => Some vs | _ => None end.
End Scalars.

End CsvGrammar.

(* ------------------------------------------------------------------------------------------------ *)
(* the LibSVM reader of SparseData.cpp: getline, skip empty lines, double_ >> *(uint_ >> ':' >> double_) *)

Fixpoint split_lines (cur : list byte) (s : list byte) : list (list byte) :=   (* std::getline on '\n' *)
  match s with
  | [] => match cur with [] => [] | _ => [rev cur] end
  | c :: r => if c =? 10 then rev cur :: split_lines [] r else split_lines (c :: cur) r
  end.

Definition svm_pair (s : list byte) : option ((Z * num) * list byte) :=
  match lex_uint (skips s) with
  | Some (i, r1) =>
    match skips r1 with
    | c :: r2 =>
      if c =? 58 then
        match lex_double (skips r2) with
        | Some (v, r3) => Some ((i, v), r3)
        | None => None
        end
      else None
    | [] => None
    end
  | None => None
  end.

Fixpoint svm_pairs (fuel : nat) (s : list byte) : list (Z * num) * list byte :=
  match fuel with
  | O => ([], s)
  | S f =>
    match svm_pair s with
    | Some (p, r) => let (ps, t) := svm_pairs f r in (p :: ps, t)
    | None => ([], s)
    end
  end.

Definition svm_line (s : list byte) : option (num * list (Z * num)) :=
  match lex_double (skips s) with
  | Some (l, r) =>
    let (ps, t) := svm_pairs (S (length r)) r in
    match skips t with [] => Some (l, ps) | _ => None end
  | None => None
  end.

Fixpoint svm_lines (ls : list (list byte)) : option (list (num * list (Z * num))) :=
  match ls with
  | [] => Some []
  | l :: r =>
    match l with
    | [] => svm_lines r                       (* if (line.empty()) continue; *)
    | _ =>
      match svm_line l with
      | Some p => match svm_lines r with Some ps => Some (p :: ps) | None => None end
      | None => None
      end
    end
  end.

Definition read_svm (s : list byte) : option (list (num * list (Z * num))) := svm_lines (split_lines [] s).

Local Close Scope N_scope.

(* ------------------------------------------------------------------------------------------------ *)
(* datasets and the post-parse stage *)

(* a dataset: batches of records (label, input); [dim] the reported input dimension; for unsigned labels
   the class count is numberOfClasses = 1 + maximal label *)
Record dataset (L V : Type) : Type := mkDs {
  ds_batches : list (list (L * V));
  ds_dim : Z
}.
Arguments mkDs {L V}.
Arguments ds_batches {L V}.
Arguments ds_dim {L V}.

Definition ds_elems {L V} (d : dataset L V) : list (L * V) := concat (ds_batches d).

(* cut into batches with detail::optimalBatchSizes; None = division by zero *)
Definition batch_opt {A} (rows : list A) (m : nat) : option (list (list A)) :=
  match opt_sizes (length rows) m with
  | Some sz => Some (chunk sz rows)
  | None => None
  end.

Definition same_len {A} (d : nat) (rows : list (list A)) : bool := forallb (fun r => length r =? d) rows.

(* csvStringToData(Data<RealVector|FloatVector>&, ...) *)
Definition post_data (rows : list (list num)) (m : nat) : outcome (dataset unit (list num)) :=
  match rows with
  | [] => Ok (mkDs [] 0)
  | r0 :: _ =>
    let d := length r0 in
    match batch_opt (map (fun r => (tt, r)) rows) m with
    | None => Fault
    | Some bs => if same_len d rows then Ok (mkDs bs (Z.of_nat d)) else Exc
    end
  end.

(* csvStringToData(LabeledData<Vector, Vector>&, lp, numberOfOutputs, ...) *)
Definition split_reg (first : bool) (nout : nat) (r : list num) : list num * list num :=
  if first then (firstn nout r, skipn nout r) else (skipn (length r - nout) r, firstn (length r - nout) r).

Definition post_reg (first : bool) (nout : nat) (rows : list (list num)) (m : nat)
  : outcome (dataset (list num) (list num)) :=
  match rows with
  | [] => Ok (mkDs [] 0)
  | r0 :: _ =>
    let d := length r0 in
    if d <=? nout then Exc
    else
      match batch_opt (map (split_reg first nout) rows) m with
      | None => Fault
      | Some bs => if same_len d rows then Ok (mkDs bs (Z.of_nat (d - nout))) else Exc
      end
  end.

(* label conformity and normalisation, shared by the CSV and LibSVM classification readers *)
Definition min_label (ls : list Z) : Z :=          (* minPositiveLabel, starting at INT_MAX *)
  fold_left (fun m l => if (l =? -1)%Z then m else Z.min m l) ls 2147483647%Z.
Definition has_minus1 (ls : list Z) : bool := existsb (fun l => (l =? -1)%Z) ls.
Definition norm_label (binary : bool) (mn : Z) (l : Z) : Z :=
  if binary then (1 + Z.quot (l - 1) 2)%Z else (l - mn)%Z.
Definition labels_ok (ls : list Z) : bool := forallb (fun l => (-1 <=? l)%Z) ls.
Definition norm_labels (ls : list Z) : list Z :=
  map (norm_label (has_minus1 ls) (min_label ls)) ls.

Definition class_count (ls : list Z) : Z := (1 + fold_left Z.max ls 0)%Z.   (* numberOfClasses *)

(* csvStringToData(LabeledData<Vector, unsigned int>&, lp, ...) *)
Definition post_cls (rows : list (Z * list num)) (m : nat) : outcome (dataset Z (list num)) :=
  match rows with
  | [] => Ok (mkDs [] 0)
  | r0 :: _ =>
    let ls := map fst rows in
    if negb (labels_ok ls) then Exc
    else
      let d := length (snd r0) in
      match batch_opt (combine (norm_labels ls) (map snd rows)) m with
      | None => Fault
      | Some bs => if same_len d (map snd rows) then Ok (mkDs bs (Z.of_nat d)) else Exc
      end
  end.

(* csvStringToDataImpl (scalar element types) *)
Definition post_scalar {T} (vals : list T) (m : nat) : outcome (dataset unit T) :=
  match vals with
  | [] => Ok (mkDs [] 0)
  | _ => match batch_opt (map (fun v => (tt, v)) vals) m with Some bs => Ok (mkDs bs 0) | None => Fault end
  end.

Definition is_ws_or_zero (sep : byte) : bool := is_space sep || (sep =? 0)%N.

Definition lift {A B} (o : option A) (k : A -> outcome B) : outcome B :=
  match o with Some a => k a | None => Exc end.

(* the importer entry points *)
Definition csv_import_data (sep cm : byte) (m : nat) (s : list byte) :=
  lift (read_values cm sep s) (fun rows => post_data rows m).
Definition csv_import_reg (first : bool) (nout : nat) (sep cm : byte) (m : nat) (s : list byte) :=
  lift (read_values cm sep s) (fun rows => post_reg first nout rows m).
Definition csv_import_cls (first : bool) (sep cm : byte) (m : nat) (s : list byte) :=
  lift (read_points cm sep first s) (fun rows => post_cls rows m).
Definition csv_import_ints (cm : byte) (m : nat) (s : list byte) :=
  lift (read_scalars cm lex_int s) (fun v => post_scalar v m).
Definition csv_import_uints (cm : byte) (m : nat) (s : list byte) :=
  lift (read_scalars cm lex_uint s) (fun v => post_scalar v m).
Definition csv_import_reals (cm : byte) (m : nat) (s : list byte) :=
  lift (read_scalars cm lex_double s) (fun v => post_scalar v m).

(* ------------------------------------------------------------------------------------------------ *)
(* LibSVM post-parse stage *)

(* the class label is static_cast<int>(double) and must convert back to the same double: the token has to
   denote an integer of int range.  Exact decimal reading of the token (no double rounding). *)
Fixpoint strip_lead0 (ds : list byte) : list byte :=       (* drop leading '0' characters *)
  match ds with
  | c :: r => if (c =? 48)%N then strip_lead0 r else ds
  | [] => []
  end.

Definition num_int32 (v : num) : option Z :=
  match v with
  | NDec sg ip _ fp ex =>
    let e := match ex with Some (es, ed) => signed es (digits_val ed) | None => 0%Z end in
    (* mantissa digits without trailing zeros; value = mant * 10^(e - #fp + #stripped) *)
    let all := ip ++ fp in
    let mrev := strip_lead0 (rev all) in
    let stripped := (length all - length mrev)%nat in
    let mant := digits_val (rev mrev) in
    let e' := (e - Z.of_nat (length fp) + Z.of_nat stripped)%Z in
    if (mant =? 0)%Z then Some 0%Z
    else if (e' <? 0)%Z then None
    else if (10 <? Z.of_nat (length (strip_lead0 (rev mrev))) + e')%Z then None
    else
      let z := signed sg (mant * 10 ^ e')%Z in
      if in_int32 z then Some z else None
  | _ => None
  end.

(* batch sizes of SharedContainer::initializeBatches(numElements, element, batchSize) *)
Definition init_sizes (n b : nat) : list nat :=
  if (b =? 0) || (n <? b) then [n]
  else
    let nb := n / b + (if n mod b =? 0 then 0 else 1) in
    repeat b (nb - 1) ++ [n - (nb - 1) * b].

Definition last_index (ps : list (Z * num)) : Z := match rev ps with (i, _) :: _ => i | [] => 0%Z end.
Definition first_is_zero (ps : list (Z * num)) : bool := match ps with (i, _) :: _ => (i =? 0)%Z | [] => false end.

(* positions written by copySparsePoints: index - delta.  Dense elements accept any order (operator()),
   compressed rows are appended to (set_element at major_end), so positions must increase strictly. *)
Fixpoint increasing_from (lo : Z) (is : list Z) : bool :=
  match is with
  | i :: r => (lo <? i)%Z && increasing_from i r
  | [] => true
  end.

Definition positions_ok (compressed : bool) (dim : Z) (delta : Z) (ps : list (Z * num)) : bool :=
  let pos := map (fun p => (fst p - delta)%Z) ps in
  forallb (fun i => (0 <=? i)%Z && (i <? dim)%Z) pos && (negb compressed || increasing_from (-1) pos).

(* an input element: dimension and (position, value) entries in file order *)
Definition sparse := list (Z * num).

Definition svm_dims_coded (hi : Z) (pts : list (list (Z * num))) : Z * bool :=
  let mx := Z.max (fold_left (fun m ps => match ps with [] => m | _ => Z.max m (last_index ps) end) pts 0%Z) hi in
  (mx, existsb first_is_zero pts).

Definition shift (delta : Z) (ps : list (Z * num)) : sparse := map (fun p => ((fst p - delta)%Z, snd p)) ps.

Section Svm.
Variable compressed : bool.
Variable hi : Z.          (* highestIndex argument *)
Variable bsz : nat.       (* batchSize argument *)

(* common tail: given labels (already converted) build the dataset as coded *)
Definition svm_build {L} (labels : list L) (pts : list (list (Z * num))) (on_empty : outcome (dataset L sparse))
  : outcome (dataset L sparse) :=
  let '(mx, hz) := svm_dims_coded hi pts in
  if negb (hi =? 0)%Z && (hi <? mx)%Z then Exc
  else
    let delta := if hz then 0%Z else 1%Z in
    let dim := (mx + (if hz then 1 else 0))%Z in
    match pts with
    | [] => on_empty
    | _ =>
      if forallb (positions_ok compressed dim delta) pts
      then Ok (mkDs (chunk (init_sizes (length pts) bsz) (combine labels (map (shift delta) pts))) dim)
      else Fault
    end.

(* libsvm_importer_classification, as coded *)
Definition svm_labels (recs : list (num * list (Z * num))) : option (list Z) :=
  let ls := map (fun r => num_int32 (fst r)) recs in
  if forallb (fun o => match o with Some l => (-1 <=? l)%Z | None => false end) ls
  then Some (map (fun o => match o with Some l => l | None => 0%Z end) ls) else None.

Definition post_svm_cls_coded (recs : list (num * list (Z * num))) : outcome (dataset Z sparse) :=
  match svm_labels recs with
  | None => Exc
  | Some ls => svm_build (norm_labels ls) (map snd recs) Fault   (* numberOfClasses on one empty batch: *max_element(end,end) *)
  end.

Definition post_svm_reg_coded (recs : list (num * list (Z * num))) : outcome (dataset num sparse) :=
  svm_build (map fst recs) (map snd recs) (Ok (mkDs [[]] (fst (svm_dims_coded hi [])))).

(* proposed repair: records with non-increasing feature indices are rejected with the library exception
   (then the last index is the largest and a zero index can only be the first one); no record -> empty dataset *)
Definition sorted_indices (ps : list (Z * num)) : bool := increasing_from (-1) (map fst ps).

Definition post_svm_cls (recs : list (num * list (Z * num))) : outcome (dataset Z sparse) :=
  if negb (forallb sorted_indices (map snd recs)) then Exc
  else match recs with
       | [] => Ok (mkDs [] 0)
       | _ => post_svm_cls_coded recs
       end.

Definition post_svm_reg (recs : list (num * list (Z * num))) : outcome (dataset num sparse) :=
  if negb (forallb sorted_indices (map snd recs)) then Exc
  else match recs with
       | [] => Ok (mkDs [] 0)
       | _ => post_svm_reg_coded recs
       end.

Definition svm_import_cls (s : list byte) := lift (read_svm s) post_svm_cls.
Definition svm_import_reg (s : list byte) := lift (read_svm s) post_svm_reg.
Definition svm_import_cls_coded (s : list byte) := lift (read_svm s) post_svm_cls_coded.
Definition svm_import_reg_coded (s : list byte) := lift (read_svm s) post_svm_reg_coded.
End Svm.

(* ------------------------------------------------------------------------------------------------ *)
(* exporters (Csv.h detail::exportCSV / exportCSV_labeled) as printers of tokens *)

Definition print_sign (sg : option bool) : list byte :=
  match sg with Some true => [45%N] | Some false => [43%N] | None => [] end.

Definition print_num (v : num) : list byte :=
  match v with
  | NDec sg ip dot fp ex =>
    print_sign sg ++ ip ++ (if dot then 46%N :: fp else []) ++
    match ex with Some (es, ed) => 101%N :: print_sign es ++ ed | None => [] end
  | NNan sg => print_sign sg ++ [110; 97; 110]%N
  | NInf sg => print_sign sg ++ [105; 110; 102]%N
  | NMissing => [63%N]
  end.

Fixpoint join (sep : byte) (toks : list (list byte)) : list byte :=
  match toks with
  | [] => []
  | [t] => t
  | t :: r => t ++ sep :: join sep r
  end.

Definition line (sep : byte) (toks : list (list byte)) : list byte := join sep toks ++ [10%N].

(* decimal digits of a natural number (operator<< of an unsigned label) *)
Fixpoint uint_bytes (u : Decimal.uint) : list byte :=
  match u with
  | Decimal.Nil => []
  | Decimal.D0 r => 48%N :: uint_bytes r | Decimal.D1 r => 49%N :: uint_bytes r
  | Decimal.D2 r => 50%N :: uint_bytes r | Decimal.D3 r => 51%N :: uint_bytes r
  | Decimal.D4 r => 52%N :: uint_bytes r | Decimal.D5 r => 53%N :: uint_bytes r
  | Decimal.D6 r => 54%N :: uint_bytes r | Decimal.D7 r => 55%N :: uint_bytes r
  | Decimal.D8 r => 56%N :: uint_bytes r | Decimal.D9 r => 57%N :: uint_bytes r
  end.
Definition print_nat (n : N) : list byte := uint_bytes (N.to_uint n).

Definition export_data (sep : byte) (rows : list (list num)) : list byte :=
  concat (map (fun r => line sep (map print_num r)) rows).

Definition export_cls (first : bool) (sep : byte) (rows : list (N * list num)) : list byte :=
  concat (map (fun r => line sep (if first then print_nat (fst r) :: map print_num (snd r)
                                  else map print_num (snd r) ++ [print_nat (fst r)])) rows).

Definition export_reg (first : bool) (sep : byte) (rows : list (list num * list num)) : list byte :=
  concat (map (fun r => line sep (map print_num (if first then fst r ++ snd r else snd r ++ fst r))) rows).

(* exportSparseData (SparseData.h): one line per element, "label" then " index:value" for every STORED entry
   (a dense vector stores every component, zeros included; a compressed vector its non-zeros), indices one-based.
   Classification: the label is printed as 2*label-1 when the dataset has exactly two classes (oneMinusOne),
   else as label+1, followed by one blank; regression: the single label component.  Values are tokens
   (operator<< with the default precision 6 is outside the model). *)
Definition print_int (z : Z) : list byte :=
  match z with Zneg p => 45%N :: print_nat (Npos p) | _ => print_nat (Z.to_N z) end.

Definition svm_entries (ps : list (N * num)) : list byte :=
  concat (map (fun p => 32%N :: print_nat (fst p + 1) ++ 58%N :: print_num (snd p)) ps).

Definition n_classes (ls : list N) : N := (1 + fold_left N.max ls 0)%N.       (* numberOfClasses *)

Definition svm_out_label (binary : bool) (l : N) : Z :=
  if binary then (2 * Z.of_N l - 1)%Z else (Z.of_N l + 1)%Z.

Definition svm_cls_line (binary : bool) (r : N * list (N * num)) : list byte :=
  print_int (svm_out_label binary (fst r)) ++ 32%N :: svm_entries (snd r).
Definition svm_reg_line (r : num * list (N * num)) : list byte := print_num (fst r) ++ svm_entries (snd r).

Definition export_svm_cls (rows : list (N * list (N * num))) : list byte :=
  let binary := (n_classes (map fst rows) =? 2)%N in
  concat (map (fun r => svm_cls_line binary r ++ [10%N]) rows).

Definition export_svm_reg (rows : list (num * list (N * num))) : list byte :=
  concat (map (fun r => svm_reg_line r ++ [10%N]) rows).

(* ------------------------------------------------------------------------------------------------ *)
(* well-formedness predicates of the property *)

Definition wf_batches {A} (m : nat) (bs : list (list A)) : Prop :=        (* no empty batch, none larger than requested *)
  forall b, In b bs -> 1 <= length b <= m.
Definition wf_batches0 {A} (m : nat) (bs : list (list A)) : Prop :=       (* batchSize = 0 means unlimited *)
  forall b, In b bs -> 1 <= length b /\ (m = 0 \/ length b <= m).
Definition wf_labels (ls : list Z) : Prop :=                              (* labels within the class count, no wrap-around *)
  forall l, In l ls -> (0 <= l < class_count ls)%Z.
Definition wf_dense_dim {L} (d : dataset L (list num)) : Prop :=          (* all records of the reported dimension *)
  forall l v, In (l, v) (ds_elems d) -> Z.of_nat (length v) = ds_dim d.
Definition wf_sparse_dim {L} (d : dataset L sparse) : Prop :=             (* stored positions inside the element, increasing *)
  forall l v, In (l, v) (ds_elems d) ->
    increasing_from (-1) (map fst v) = true /\ forall i x, In (i, x) v -> (0 <= i < ds_dim d)%Z.
