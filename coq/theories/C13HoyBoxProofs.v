(* C13 — HOY: sums over the unit cells of a box with per-dimension bounds, the indicator of the dominated cells,
   and the bridge to hv_box / hv_spec.  Axiom-free.

     bsum lo up f          = sum of f over the cells c with lo_j <= c_j < up_j (head = innermost sum, so that the
                             last objective is the outermost one, as in hv_spec)
     ind pts z c           = 1 if some point (q, w) of pts has q <= c component-wise and w <= z, else 0
     vol lo up zlo cover P = sum_{z in [zlo, cover)} bsum lo up (ind P z)     (measure of the dominated part of
                             the region [lo, up) x [zlo, cover))
   hv_spec ref S = vol (lo, .., lo) (first m-1 of ref) lo (last of ref) (S as pairs) for every lo below all coordinates. *)
From Coq Require Import List ZArith Lia Bool Arith Permutation.
From SharkV Require Import ListAux C13Model C13Proofs C13Wfg C13WfgProofs C13Hoy.
Import ListNotations.
Local Open Scope Z_scope.

Fixpoint bsum (lo up : list Z) (f : list Z -> Z) : Z :=
  match lo, up with
  | l :: lo', u :: up' => bsum lo' up' (fun c => zsum l u (fun z => f (z :: c)))
  | _, _ => f []
  end.

Fixpoint inbox (lo up c : list Z) : Prop :=
  match lo, up with
  | l :: lo', u :: up' => match c with x :: c' => l <= x < u /\ inbox lo' up' c' | [] => False end
  | _, _ => c = []
  end.

Lemma bsum_ext lo : forall up f g, (forall c, inbox lo up c -> f c = g c) -> bsum lo up f = bsum lo up g.
Proof.
  induction lo as [|l lo IH]; intros up f g H.
  - cbn. apply H. reflexivity.
  - destruct up as [|u up]; cbn [bsum].
    + apply H. reflexivity.
    + apply IH. intros c Hc. apply zsum_ext. intros z Hz. apply H. cbn. split; auto.
Qed.

Lemma bsum_plus lo : forall up f g, bsum lo up (fun c => f c + g c) = bsum lo up f + bsum lo up g.
Proof.
  induction lo as [|l lo IH]; intros up f g; [reflexivity|].
  destruct up as [|u up]; cbn [bsum]; [reflexivity|].
  rewrite <- (IH up (fun c => zsum l u (fun z => f (z :: c))) (fun c => zsum l u (fun z => g (z :: c)))).
  apply bsum_ext. intros c _. apply zsum_plus.
Qed.

Lemma bsum_0 lo : forall up, bsum lo up (fun _ => 0) = 0.
Proof.
  induction lo as [|l lo IH]; intros up; [reflexivity|]. destruct up as [|u up]; cbn [bsum]; [reflexivity|].
  rewrite <- (IH up). apply bsum_ext. intros c _. apply zsum_zero. auto.
Qed.

Lemma bsum_zero lo up f : (forall c, inbox lo up c -> f c = 0) -> bsum lo up f = 0.
Proof. intros H. rewrite (bsum_ext lo up f (fun _ => 0) H). apply bsum_0. Qed.

Lemma bsum_const lo up : Forall2 Z.le lo up -> forall k, bsum lo up (fun _ => k) = k * lprod (edges up lo).
Proof.
  induction 1 as [|l u lo up Hl H IH]; intros k.
  - cbn. lia.
  - cbn [bsum]. rewrite (bsum_ext lo up _ (fun _ => k * (u - l))).
    2:{ intros c _. apply zsum_const. exact Hl. }
    rewrite IH. unfold edges. cbn [combine map lprod fst snd]. lia.
Qed.

Lemma inbox_length lo : forall up c, length lo = length up -> inbox lo up c -> length c = length lo.
Proof.
  induction lo as [|l lo IH]; intros [|u up] c HL H; try discriminate.
  - cbn in H. now subst.
  - destruct c as [|x c]; [destruct H|]. destruct H as [_ H]. cbn. f_equal. apply IH with up; auto.
Qed.

Lemma inbox_nth lo : forall up c, length lo = length up ->
  (inbox lo up c <-> length c = length lo /\ forall j, (j < length lo)%nat -> nth j lo 0 <= nth j c 0 < nth j up 0).
Proof.
  induction lo as [|l lo IH]; intros [|u up] c HL; try discriminate.
  - cbn. split.
    + intros ->. split; auto. intros; lia.
    + intros [H _]. destruct c; [auto|discriminate].
  - injection HL as HL. destruct c as [|x c].
    + cbn. split; [tauto|]. intros [H _]. discriminate.
    + cbn [inbox length]. rewrite (IH up c HL). split.
      * intros [Hx [Hlen Hn]]. split; [lia|]. intros [|j] Hj; cbn [nth]; [lia|]. apply Hn. lia.
      * intros [Hlen Hn]. split; [apply (Hn 0%nat); lia|]. split; [lia|].
        intros j Hj. apply (Hn (S j)). lia.
Qed.

(* the box is cut in two along dimension s *)
Lemma bsum_split s : forall lo up f b, length lo = length up -> (s < length lo)%nat ->
  nth s lo 0 <= b <= nth s up 0 ->
  bsum lo up f = bsum lo (upd s b up) f + bsum (upd s b lo) up f.
Proof.
  induction s as [|s IH]; intros [|l lo] [|u up] f b HL Hs Hb; try discriminate; cbn [length] in Hs; try lia.
  - cbn [upd bsum nth] in *. rewrite <- bsum_plus. apply bsum_ext. intros c _. apply zsum_split. lia.
  - cbn [upd bsum nth] in *. apply IH; auto; lia.
Qed.

(* lowering the lower corner over cells on which f vanishes *)
Lemma bsum_lower lo' : forall lo up f, Forall2 Z.le lo' lo -> Forall2 Z.le lo up ->
  (forall c, inbox lo' up c -> ~ inbox lo up c -> f c = 0) ->
  bsum lo' up f = bsum lo up f.
Proof.
  induction lo' as [|l' lo' IH]; intros lo up f H1 H2 Hf.
  - inversion H1; subst. reflexivity.
  - inversion H1 as [|? l ? lo0 Hl H1']; subst. inversion H2 as [|? u ? up0 Hu H2']; subst.
    cbn [bsum].
    rewrite (bsum_ext lo' up0 _ (fun c => zsum l u (fun z => f (z :: c)))).
    + apply IH; auto. intros c Hc Hn. apply zsum_zero. intros z Hz. apply Hf.
      * cbn. split; [lia|auto].
      * cbn. intros [_ Hc']. auto.
    + intros c Hc. rewrite (zsum_split l' l u) by lia.
      rewrite (zsum_zero l' l); [lia|]. intros z Hz. apply Hf.
      * cbn. split; [lia|auto].
      * cbn. intros [Hz' _]. lia.
Qed.

(* cells below a corner t: the indicator sums to the volume of [lo, t) *)
Lemma zsum_ind_lt l t u k : l <= t <= u -> zsum l u (fun z => if z <? t then k else 0) = k * (t - l).
Proof.
  intros H. rewrite (zsum_split l t u) by lia.
  rewrite (zsum_ext l t _ (fun _ => k)).
  2:{ intros z Hz. destruct (Z.ltb_spec z t); [reflexivity|lia]. }
  rewrite zsum_const by lia.
  rewrite (zsum_zero t u); [lia|]. intros z Hz. destruct (Z.ltb_spec z t); [lia|reflexivity].
Qed.

Lemma bsum_corner lo : forall t up k, Forall2 Z.le lo t -> Forall2 Z.le t up ->
  bsum lo up (fun c => if all2 Z.ltb c t then k else 0) = k * lprod (edges t lo).
Proof.
  induction lo as [|l lo IH]; intros t up k H1 H2.
  - inversion H1; subst. cbn. lia.
  - inversion H1 as [|? t0 ? t' Hl H1']; subst. inversion H2 as [|? u ? up' Hu H2']; subst.
    cbn [bsum].
    rewrite (bsum_ext lo up' _ (fun c => if all2 Z.ltb c t' then k * (t0 - l) else 0)).
    + rewrite IH by auto. unfold edges. cbn [combine map lprod fst snd]. lia.
    + intros c _. cbn [all2]. destruct (all2 Z.ltb c t').
      * rewrite (zsum_ext l u _ (fun z => if z <? t0 then k else 0)).
        -- apply zsum_ind_lt. lia.
        -- intros z _. rewrite andb_true_r. reflexivity.
      * apply zsum_zero. intros z _. rewrite andb_false_r. reflexivity.
Qed.

(* the outermost sum is the last dimension *)
Lemma bsum_snoc lo1 : forall up1 l u f, length lo1 = length up1 ->
  bsum (lo1 ++ [l]) (up1 ++ [u]) f = zsum l u (fun z => bsum lo1 up1 (fun c => f (c ++ [z]))).
Proof.
  induction lo1 as [|a lo1 IH]; intros [|b up1] l u f HL; try discriminate.
  - reflexivity.
  - injection HL as HL. cbn [app bsum]. rewrite IH by auto. reflexivity.
Qed.

(* ---------------------------------------------------------------------------------------- *)
(* the indicator of the dominated cells *)
Definition dom1 (c : list Z) (z : Z) (p : hpt) : bool := all2 Z.leb (fst p) c && (snd p <=? z).
Definition ind (pts : list hpt) (z : Z) (c : list Z) : Z := if existsb (dom1 c z) pts then 1 else 0.
Definition vol (lo up : list Z) (zlo cover : Z) (pts : list hpt) : Z :=
  zsum zlo cover (fun z => bsum lo up (ind pts z)).

Lemma all2_nth r : forall a b, length a = length b ->
  (all2 r a b = true <-> forall j, (j < length a)%nat -> r (nth j a 0) (nth j b 0) = true).
Proof.
  induction a as [|x a IH]; intros [|y b] HL; try discriminate.
  - cbn. split; auto. intros; lia.
  - injection HL as HL. cbn [all2 length]. rewrite andb_true_iff, (IH b HL). split.
    + intros [Hx Hn] [|j] Hj; cbn [nth]; auto. apply Hn. lia.
    + intros Hn. split; [apply (Hn 0%nat); lia|]. intros j Hj. apply (Hn (S j)). lia.
Qed.

Lemma ind_ext pts pts' z c :
  (existsb (dom1 c z) pts = existsb (dom1 c z) pts') -> ind pts z c = ind pts' z c.
Proof. unfold ind. intros ->. reflexivity. Qed.

Lemma ind_nil z c : ind [] z c = 0.
Proof. reflexivity. Qed.

Lemma vol_nil lo up zlo cover : vol lo up zlo cover [] = 0.
Proof. unfold vol. apply zsum_zero. intros z _. apply bsum_zero. intros; apply ind_nil. Qed.

Lemma existsb_ext_in {A B} (f : A -> bool) (g : B -> bool) l l' :
  (forall x, In x l -> f x = true -> exists y, In y l' /\ g y = true) ->
  (forall y, In y l' -> g y = true -> exists x, In x l /\ f x = true) ->
  existsb f l = existsb g l'.
Proof.
  intros H1 H2. destruct (existsb f l) eqn:E1; destruct (existsb g l') eqn:E2; auto.
  - apply existsb_exists in E1. destruct E1 as [x [Hx Hf]]. destruct (H1 x Hx Hf) as [y [Hy Hg]].
    assert (existsb g l' = true) by (apply existsb_exists; eauto). congruence.
  - apply existsb_exists in E2. destruct E2 as [y [Hy Hg]]. destruct (H2 y Hy Hg) as [x [Hx Hf]].
    assert (existsb f l = true) by (apply existsb_exists; eauto). congruence.
Qed.

(* vol only looks at the points that dominate some cell of the region *)
Lemma vol_ext lo up zlo cover pts pts' :
  (forall z c, zlo <= z < cover -> inbox lo up c -> existsb (dom1 c z) pts = existsb (dom1 c z) pts') ->
  vol lo up zlo cover pts = vol lo up zlo cover pts'.
Proof.
  intros H. unfold vol. apply zsum_ext. intros z Hz. apply bsum_ext. intros c Hc. apply ind_ext. auto.
Qed.

(* ---------------------------------------------------------------------------------------- *)
(* bridge to hv_box *)
Lemma ite_eq (a b : bool) : a = b -> (if a then 1 else 0) = (if b then 1 else 0).
Proof. intros ->. reflexivity. Qed.

Lemma repeat_snoc {A} (x : A) n : repeat x (S n) = repeat x n ++ [x].
Proof. induction n as [|n IH]; [reflexivity|]. cbn [repeat app] in *. f_equal. exact IH. Qed.

Lemma existsb_slice (g : list Z -> bool) z S :
  existsb g (slice z S) = existsb (fun q => match q with x :: t => (x <=? z) && g t | [] => false end) S.
Proof.
  induction S as [|q S IH]; [reflexivity|]. rewrite slice_cons, existsb_app, IH. cbn [existsb].
  destruct q as [|x t]; [reflexivity|]. destruct (x <=? z); cbn [existsb andb orb]; [now rewrite orb_false_r|reflexivity].
Qed.

Lemma hv_box_bsum lo : forall ref' S',
  (forall q, In q S' -> length q = length ref') ->
  hv_box lo ref' S' =
  bsum (repeat lo (length ref')) (rev ref') (fun c => if existsb (fun q => all2 Z.leb q (rev c)) S' then 1 else 0).
Proof.
  induction ref' as [|r t IH]; intros S' HL.
  - cbn. destruct S' as [|q S']; [reflexivity|]. cbn. destruct q; reflexivity.
  - cbn [hv_box length rev]. rewrite repeat_snoc, bsum_snoc by (now rewrite repeat_length, rev_length).
    apply zsum_ext. intros z _. rewrite IH.
    2:{ intros q Hq. apply slice_In in Hq. destruct Hq as [x [Hq _]]. apply HL in Hq. cbn in Hq. lia. }
    apply bsum_ext. intros c _. rewrite existsb_slice. rewrite rev_app_distr. cbn [rev app].
    apply ite_eq. apply existsb_ext_in.
    + intros q Hq Hg. exists q. split; auto. destruct q as [|x u]; [discriminate|]. exact Hg.
    + intros q Hq Hg. exists q. split; auto. destruct q as [|x u]; [|exact Hg].
      apply HL in Hq. discriminate.
Qed.

Lemma all2_rev r : forall a b, length a = length b -> all2 r (rev a) (rev b) = all2 r a b.
Proof.
  intros a b HL. apply eq_true_iff_eq. rewrite !all2_nth by (rewrite ?rev_length; auto).
  rewrite rev_length. split; intros H j Hj.
  - specialize (H (length a - S j)%nat ltac:(lia)).
    rewrite !rev_nth in H by lia. replace (length b) with (length a) in H by auto.
    replace (length a - S (length a - S j))%nat with j in H by lia. exact H.
  - rewrite !rev_nth by lia. replace (length b) with (length a) by auto. apply H. lia.
Qed.

Lemma to_hpt_snoc q x : to_hpt (q ++ [x]) = (q, x).
Proof. unfold to_hpt. rewrite removelast_last, last_last. reflexivity. Qed.

Lemma snoc_cases (p : list Z) : p <> [] -> p = removelast p ++ [last p 0].
Proof. apply app_removelast_last. Qed.

(* hv_spec as the measure of the dominated part of [lo, ref) *)
Theorem hv_spec_vol ref T lo : ref <> [] -> (forall p, In p T -> length p = length ref) -> lower_bound lo T ->
  hv_spec ref T = vol (repeat lo (length ref - 1)) (removelast ref) lo (last ref 0) (map to_hpt T).
Proof.
  intros Hne HL LB. rewrite (hv_spec_any_lo ref T lo LB).
  rewrite (snoc_cases ref Hne) at 1. set (u := removelast ref). set (rl := last ref 0).
  assert (Hlen : length ref = S (length u)).
  { rewrite (snoc_cases ref Hne). fold u. rewrite app_length. cbn. lia. }
  rewrite rev_app_distr. cbn [rev app hv_box]. unfold vol.
  apply zsum_ext. intros z _.
  rewrite hv_box_bsum.
  2:{ intros q Hq. apply slice_In in Hq. destruct Hq as [x [Hq _]]. apply in_map_iff in Hq.
      destruct Hq as [p [E Hp]]. apply HL in Hp. apply (f_equal (@length Z)) in E.
      rewrite rev_length in E. cbn in E. rewrite rev_length. lia. }
  rewrite rev_length, rev_involutive. replace (length ref - 1)%nat with (length u) by lia.
  apply bsum_ext. intros c Hc. unfold ind. apply ite_eq.
  assert (Lc : length c = length u).
  { apply inbox_length in Hc; [now rewrite repeat_length in Hc|now rewrite repeat_length]. }
  rewrite existsb_slice. apply existsb_ext_in.
  - intros q Hq Hg. apply in_map_iff in Hq. destruct Hq as [p [<- Hp]].
    exists (to_hpt p). split; [now apply in_map|].
    assert (Hp0 : p <> []) by (intros ->; apply HL in Hp; cbn in Hp; lia).
    rewrite (snoc_cases p Hp0) in Hg |- *. rewrite to_hpt_snoc. rewrite rev_app_distr in Hg. cbn [rev app] in Hg.
    unfold dom1. cbn [fst snd]. apply andb_true_iff in Hg. destruct Hg as [Hz Hg].
    rewrite Hz, andb_true_r. rewrite all2_rev in Hg; auto.
    apply HL in Hp. rewrite (snoc_cases p Hp0), app_length in Hp. cbn in Hp. lia.
  - intros y Hy Hg. apply in_map_iff in Hy. destruct Hy as [p [<- Hp]].
    exists (rev p). split; [now apply in_map|].
    assert (Hp0 : p <> []) by (intros ->; apply HL in Hp; cbn in Hp; lia).
    rewrite (snoc_cases p Hp0) in Hg |- *. rewrite to_hpt_snoc in Hg. rewrite rev_app_distr. cbn [rev app].
    unfold dom1 in Hg. cbn [fst snd] in Hg. apply andb_true_iff in Hg. destruct Hg as [Hg Hz].
    rewrite Hz. cbn [andb]. rewrite all2_rev; auto.
    apply HL in Hp. rewrite (snoc_cases p Hp0), app_length in Hp. cbn in Hp. lia.
Qed.
