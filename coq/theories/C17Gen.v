(* C17 — shark::IterativeNNQuery (TreeNearestNeighbors.h) over ANY space-partitioning BinaryTree:
   the executable model of C17Model.v with the squared distances / cell bounds taken from an arbitrary
   carrier A with a decidable order `leb` (instead of Z), so that it runs on LC-trees and kernel (KHC)
   trees whose bounds are not integers.  Definitions only; proofs are in C17GenProofs.v.

   The trace tree carries, per node, the value of tree->squaredDistanceLowerBound(reference) and
   tree->isLeft(reference), per leaf the squared distance of index(0) in the tree's metric; all are
   pure functions of the tree node and the reference point, so they are materialised up front
   (see C17Proj.mk_ptrace for projection trees).  The search itself (enqueue, insertIntoQueue, the
   "enqueue more points" loop, squaredRadius, next) is the code of C17Model.v, literally, with the
   comparisons of the carrier. *)
From Coq Require Import List Bool Arith.
From SharkV Require Import C17Model.
Import ListNotations.

Section Gen.
Variable A : Type.
Variable leb : A -> A -> bool.                       (* a <= b *)
Definition ltb (a b : A) : bool := negb (leb b a).  (* a < b *)
Definition amin (a b : A) : A := if leb a b then a else b.   (* std::min *)

Inductive gtt :=
| GLeaf (queued : bool) (lb pd : A) (idx : list nat)      (* pd = squared distance of index(0) *)
| GNode (st : status) (lb : A) (gl : bool) (l r : gtt).   (* gl = tree->isLeft(reference) *)

Definition gstatus (t : gtt) : status :=
  match t with
  | GLeaf qd _ _ _ => if qd then COMPLETE else NONE
  | GNode st _ _ _ _ => st
  end.

Definition gcompleted (c c' : gtt) : bool :=
  negb (is_complete (gstatus c)) && is_complete (gstatus c').

(* candidate queue: leaves ordered by squared point distance (ties: the C++ compares node
   addresses; the model inserts behind equal keys) *)
Definition gqelem := (A * list nat)%type.
Fixpoint gqinsert (e : gqelem) (q : list gqelem) : list gqelem :=
  match q with
  | [] => [e]
  | h :: t => if ltb (fst e) (fst h) then e :: q else h :: gqinsert e t
  end.

(* !m_queue.empty() && tn->m_squaredDistance >= head.m_squaredPtDistance *)
Definition gpruned (q : list gqelem) (lb : A) : bool :=
  match q with
  | [] => false
  | (pd, _) :: _ => leb pd lb
  end.

(* IterativeNNQuery::enqueue(tn) including the status updates of insertIntoQueue inside tn *)
Fixpoint genqueue (t : gtt) (q : list gqelem) : gtt * list gqelem :=
  match t with
  | GLeaf qd lb pd idx =>
      if qd then (t, q) else if gpruned q lb then (t, q)
      else (GLeaf true lb pd idx, gqinsert (pd, idx) q)
  | GNode st lb gl l r =>
      if is_complete st then (t, q) else if gpruned q lb then (t, q)
      else
        let a := if gl then l else r in
        let b := if gl then r else l in
        let '(a', q1) := genqueue a q in
        let st1 := arrive st (gcompleted a a') (gstatus b) in
        let '(b', q2) := genqueue b q1 in
        let st2 := arrive st1 (gcompleted b b') (gstatus a') in
        (GNode st2 lb gl (if gl then a' else b') (if gl then b' else a'), q2)
  end.

(* TraceNode::squaredRadius; None = 1e100 *)
Definition gomin (a b : option A) : option A :=
  match a, b with
  | Some x, Some y => Some (amin x y)
  | Some x, None => Some x
  | None, y => y
  end.
Fixpoint gsqradius (t : gtt) : option A :=
  match t with
  | GLeaf qd lb _ _ => if qd then None else Some lb
  | GNode st lb _ l r =>
      match st with
      | NONE => Some lb
      | PARTIAL => gomin (gsqradius l) (gsqradius r)
      | COMPLETE => None
      end
  end.

(* constructor: descend to the leaf covering the reference point and queue it *)
Fixpoint ginit_tr (t : gtt) : gtt * list gqelem * nat :=
  match t with
  | GLeaf _ lb pd idx => (GLeaf true lb pd idx, [(pd, idx)], O)
  | GNode st lb gl l r =>
      if gl then
        let '(l', q, dep) := ginit_tr l in
        (GNode (arrive st (gcompleted l l') (gstatus r)) lb gl l' r, q, S dep)
      else
        let '(r', q, dep) := ginit_tr r in
        (GNode (arrive st (gcompleted r r') (gstatus l)) lb gl l r', q, S dep)
  end.

(* "enqueue more points" (see C17Model.phase) *)
Fixpoint gphase (dep hc : nat) (t : gtt) (q : list gqelem) : gtt * list gqelem * nat :=
  match hc with
  | O => (t, q, dep)
  | S hc' =>
      let '(t1, q1, hb) :=
        match t with
        | GLeaf _ _ _ _ => (t, q, S dep)
        | GNode st lb gl l r =>
            if gl then
              let '(l', q', hb) := gphase (S dep) hc' l q in
              (GNode (arrive st (gcompleted l l') (gstatus r)) lb gl l' r, q', hb)
            else
              let '(r', q', hb) := gphase (S dep) hc' r q in
              (GNode (arrive st (gcompleted r r') (gstatus l)) lb gl l r', q', hb)
        end in
      let '(t2, q2) := genqueue t1 q1 in
      (t2, q2, if is_complete (gstatus t2) then dep else hb)
  end.

Record gstate := mkgstate {
  gtr : gtt;              (* mp_trace *)
  gqueue : list gqelem;   (* m_queue *)
  gnidx : nat;            (* m_nextIndex *)
  gnnb : nat;             (* m_neighbors *)
  ghcnt : nat;            (* mep_head as a count, see C17Model.phase *)
  grad : option A         (* m_squaredRadius *)
}.

Definition ginit (t : gtt) : gstate :=
  let '(t', q, dep) := ginit_tr t in
  mkgstate t' q 0 0 dep (gsqradius t').

(* m_queue.empty() || head.m_squaredPtDistance > m_squaredRadius *)
Definition gneed_more (q : list gqelem) (r : option A) : bool :=
  match q with
  | [] => true
  | (pd, _) :: _ => match r with Some rv => ltb rv pd | None => false end
  end.

Definition gnext_cont (s : gstate) (qu : list gqelem) : option ((A * nat) * gstate) :=
  let '(t', q', h', r') :=
    if gneed_more qu (grad s) then
      let '(t', q', h') := gphase 0 (ghcnt s) (gtr s) qu in (t', q', h', gsqradius t')
    else (gtr s, qu, ghcnt s, grad s) in
  match q' with
  | (pd, i :: _) :: _ => Some ((pd, i), mkgstate t' q' 1 (S (gnnb s)) h' r')
  | _ => None
  end.

(* IterativeNNQuery::next() *)
Definition gnext (s : gstate) : option ((A * nat) * gstate) :=
  if (0 <? gnnb s)%nat then
    match gqueue s with
    | [] => None
    | (pd, idx) :: rest =>
        match nth_error idx (gnidx s) with
        | Some i => Some ((pd, i), mkgstate (gtr s) (gqueue s) (S (gnidx s)) (gnnb s) (ghcnt s) (grad s))
        | None => gnext_cont s rest
        end
    end
  else gnext_cont s (gqueue s).

(* k calls of next(); each result with the observable queue size and radius after the call *)
Fixpoint grun (k : nat) (s : gstate) : list (A * nat * nat * option A) :=
  match k with
  | O => []
  | S k' =>
      match gnext s with
      | None => []
      | Some ((d, i), s') => (d, i, length (gqueue s'), grad s') :: grun k' s'
      end
  end.

Fixpoint gresults (k : nat) (s : gstate) : list (A * nat) :=
  match k with
  | O => []
  | S k' => match gnext s with None => [] | Some (r, s') => r :: gresults k' s' end
  end.

End Gen.

Arguments GLeaf {A}. Arguments GNode {A}.
