(* C15 — Closed-form trainers produce the exact solution of their stated problem.
   Only statements + `exact`; proofs live in C15Proofs.v / C15ProofsLin.v (helpers in C15Aux.v), the
   executable model (exact rationals Q, no axioms) in C15Model.v.

   PROVED here, for all datasets / batch partitions / sizes / dimensions (unbounded):
     * mean, variance, covariance accumulated over the batches (Statistics.inl) equal the statistics of the
       concatenated element list, hence do not depend on the batch partition; the same for the assembled
       regression system (X^T X + lambda I | X^T L)                                   [C15_meanvar_*, C15_lr_system_*]
     * NormalizeComponentsUnitVariance: output mean 0 and variance 1 (with and without zeroMean), constant
       features are sent to 0 (variance 0 <=> constant)                               [C15_unit_variance_*]
     * NormalizeComponentsUnitInterval (model ui_params = what the property asks for): all outputs in [0,1],
       0 and 1 are attained for a non-constant feature, a constant feature goes to 1/2 (this is what the C++
       computes since the repair d1f9a025).  REGRESSION WITNESS: the parameters as coded BEFORE that repair
       (ui_params_coded, not the current code) agree for non-constant features and sent a constant c to 1/2 - c
       (finding F17)                                                                   [C15_unit_interval_*, C15_F17_*]
     * LinearRegression: beta solves the assembled system  <=>  the gradient of the regularised squared error
       vanishes at beta; and then (lambda >= 0) beta is a global minimiser             [C15_linreg_*]
     * weighted statistics (weighted mean / variance / covariance, LDA priors, class means, covariance) are
       invariant under multiplication of all weights by c <> 0                        [C15_weighted_*, C15_lda_weight_*]
     * for ANY linear model W x + b: mean and covariance of the outputs on the training data are
       W mean + b and W C W^T                                                          [C15_lin_mean, C15_lin_cov]
   PROVED CONDITIONALLY (`_partial`: statements about ANY matrices satisfying the contract of the eigen-decomposition / solver; the
   contract is evaluated on every returned result by the check; the extension round below connects them to the code as written):
     * whitening / ZCA / whitened PCA: if W C W^T = tv I (which follows from orthonormal eigenpairs,
       C15_whitening_contract_from_eigen) the outputs have mean 0 and covariance tv I  [C15_whitening_identity_partial]
     * ZCA on rank-deficient data (repair 2b5526e7: only the k directions with positive variance are rescaled):
       output mean 0 and covariance tv * P with P = V_k V_k^T symmetric and idempotent (the orthogonal projector
       onto the span of these directions), and P C = C when the other eigenvalues vanish (P projects onto the range
       of the covariance); for k = d this is the whitening identity      [C15_zca_rank_deficient_projector_partial,
                                                                          C15_zca_projector_fixes_range_partial]
     * PCA: for orthonormal directions the encoder-decoder pair is idempotent, reproduces the codes and its
       residual is orthogonal to every direction (= orthogonal projection); the variance of a code is its
       eigenvalue                                                                      [C15_pca_*]
     * LDA: with z_c C = m_c the linear score z_c.x - m_c.z_c/2 equals the Gaussian exponent
       -(x-m_c)^T C^-1 (x-m_c)/2 up to a class-independent term                        [C15_lda_rule_partial]
   EXTENSION ROUND (models that follow the code statement by statement, run next to the C++ on every check):
     * PCA::setData AS CODED, both branches, encoder()/decoder() incl. whitening and the m-components cut (C15PcaModel.v; the symmetric
       eigen-decomposition is an explicit ORACLE with the contract eig_contract = orthogonal Q (Q^T Q = I and Q Q^T = I), S q_i = D_i q_i,
       D non-increasing).  IF the oracle fulfils the contract on the matrix it is handed (covariance, resp. X0 X0^T / n in the
       small-sample branch n < d), the square root is exact on the values met and (small-sample branch) the eigenvalues not above the
       rounding threshold d*eps*max(D(0),0) are exactly 0, THEN the returned columns are orthonormal, are eigenvectors of the COVARIANCE
       matrix, the returned eigenvalues are the oracle's (same non-zero eigenvalues; the completed directions of the repair 3057e109 have
       eigenvalue 0) and are non-increasing   [C15_pca_setdata_correct, C15_pca_small_sample_correct];
       the pair built by encoder(m)/decoder(m) is the orthogonal projection (the C15_pca_* statements for the matrices/offsets as coded);
       with whitening: identity on the codes kept, projection onto the directions kept, whitened codes have mean 0 / variance 1
                                                   [C15_pca_coded_projection, C15_pca_coded_whitening, C15_pca_whitened_code_variance]
     * LinearRegression::train AS CODED incl. the solver step (C15SolveModel.v; the solver is the imported, proved C02 model of
       solve(.,.,symm_semi_pos_def): pstrf, potrf of L^T L, substitutions): the RETURNED weights have vanishing gradient of the
       regularised squared error for every lambda >= 0, singular X^T X included (least-squares solution)
                                                                                    [C15_linreg_train_zero_gradient]
     * LDA::train AS CODED, both overloads (class means, priors, one-pass pooled covariance, solve, bias): every returned row z_c solves
       the normal equations C (C z_c - m_c) = 0; bias part = -<m_c,z_c>/2; for a regular C: C z_c = m_c = z_c C and the score is the
       exponent of the estimated Gaussian (C15_lda_rule_partial with its hypothesis discharged); a class without examples raises the
       exception (model: None)                     [C15_lda_train_rule, C15_lda_train_weighted_rule, C15_lda_cov_symmetric]
     * NormalizeComponentsZCA::train AS CODED (C15ZcaModel.v, same oracle device): under the oracle's contract on the covariance matrix,
       exact roots and "eigenvalues not above the threshold d*eps*max(D) are 0": output mean 0, output covariance tv * P with P the
       projector onto the k directions of positive variance, P = I for full rank                     [C15_zca_train_correct]
       HYPOTHESIS THAT REMAINS for LinearRegression / LDA: semi_exact = the pivoted Cholesky factorisation run by the solver's constructor
       is exact: square root exact on the pivots met, ZERO Schur complement at the stop (the rank found is the exact rank), potrf of
       L^T L succeeds with exact roots.  Satisfiable: linreg_train_hyp_satisfiable (a singular system), lda_train_hyp_satisfiable.
   ONLY COMPARED / MONITORED by tools/c15.py (not proved): floating-point rounding; that the eigen-decomposition fulfils its contract
   (evaluated on every run on the values the real decomposition returned, which are also handed to the extracted model as the oracle's
   answer) and that the solver's factorisation is exact (semi_exact; the extracted LinearRegression / LDA models incl. the C02 solver
   model are run exactly over Qc where every root met is rational - generated designs X = H T^T - and in double arithmetic otherwise);
   NormalizeComponentsWhitening as coded (symm_pos_semi_definite_solver::compute_inverse_factor is not modelled; contract form above only);
   FisherLDA; exceptions on inputs outside the preconditions;
   the block-wise filling of X0 X0^T over the pairs of batches (index book-keeping; several partitions are run).
   OPEN FINDINGS reported by the check under stable keys (see known_findings.json): FisherLDA::train:criterion
   (symmetric eigen-decomposition of the non-symmetric Sw^-1 Sb), LDA::train(weighted):solve:singular (one-pass
   covariance: cancellation noise taken for a pivot when the pooled covariance is singular and lambda = 0 - this is exactly a run
   where semi_exact fails in floating point: the Schur complement at the stop is rounding noise, not zero).
   FULL-STRENGTH statements not proved: "PCA::setData returns orthonormal eigenvectors with non-increasing eigenvalues for every
   dataset" needs a verified eigen-solver (the oracle); "LDA / LinearRegression return the least-squares solution for every dataset"
   needs, beyond C02, that pstrf stops exactly at the rank in exact arithmetic for every positive semi-definite matrix (semi_exact). *)
From Coq Require Import List Arith Bool QArith Lia Lqa.
From SharkV Require Import ListAux C03Model C15Model C15Aux C15Proofs C15ProofsLin C15ProofsZca.
From SharkV Require Import C15PcaModel C15PcaProofs C15PcaExample C15ZcaModel C15ZcaCodedProofs.
Import ListNotations.
Open Scope Q_scope.

(* ---- results do not depend on how the data is batched ---- *)
Theorem C15_meanvar_batch_invariant : forall (X : Type) (f g : X -> Q) (d : @data X),
  mean f d == lmean f (elems d) /\ var f d == lvar f (elems d) /\ cov f g d == lcov f g (elems d).
Proof. exact @meanvar_batch_invariant. Qed.
Print Assumptions C15_meanvar_batch_invariant.

Theorem C15_meanvar_partition_independent : forall (X : Type) (f g : X -> Q) (d1 d2 : @data X),
  elems d1 = elems d2 -> mean f d1 == mean f d2 /\ var f d1 == var f d2 /\ cov f g d1 == cov f g d2.
Proof. exact @meanvar_partition_independent. Qed.
Print Assumptions C15_meanvar_partition_independent.

Theorem C15_lr_system_partition_independent : forall d lam (D1 D2 : @data sample) j k c,
  elems D1 = elems D2 -> lr_A d lam D1 j k == lr_A d lam D2 j k /\ lr_T d D1 j c == lr_T d D2 j c.
Proof. exact lr_system_partition_independent. Qed.
Print Assumptions C15_lr_system_partition_independent.

(* two different partitions of the same four points *)
Example partition_hyp_satisfiable :
  @elems Q [[1; 2]; [3; 4]] = @elems Q [[1]; [2; 3; 4]] /\ mean (fun x => x) [[1; 2]; [3; 4]] == 5 # 2.
Proof. split; reflexivity. Qed.

(* ---- NormalizeComponentsUnitVariance ---- *)
Theorem C15_unit_variance_correct : forall (X : Type) (f : X -> Q) (d : @data X) (s : Q),
  ~ count d == 0 -> s * s == var f d -> ~ s == 0 ->
  let p := uv_params s (mean f d) in
  mean (fun x => affine p (f x)) d == 0 /\ var (fun x => affine p (f x)) d == 1 /\
  var (fun x => fst p * f x) d == 1.
Proof. exact @unit_variance_correct. Qed.
Print Assumptions C15_unit_variance_correct.

Theorem C15_unit_variance_constant : forall (X : Type) (f : X -> Q) (d : @data X), ~ count d == 0 ->
  (var f d == 0 <-> forall x, In x (elems d) -> f x == mean f d) /\
  (forall s m x, s == 0 -> affine (uv_params s m) x == 0).
Proof. intros X f d H. split; [exact (var_zero_iff_constant f d H) | exact unit_variance_constant]. Qed.
Print Assumptions C15_unit_variance_constant.

(* the feature 1,3 | 1,3 has mean 2 and variance 1 = 1*1 *)
Example unit_variance_hyp_satisfiable :
  let d := [[1; 3]; [1; 3]] in ~ count d == 0 /\ 1 * 1 == var (fun x : Q => x) d /\ ~ 1 == 0.
Proof. cbv zeta. split; [|split]; [vm_compute; discriminate | vm_compute; reflexivity | vm_compute; discriminate]. Qed.

(* ---- NormalizeComponentsUnitInterval ---- *)
Theorem C15_unit_interval_correct : forall (X : Type) (f : X -> Q) (x0 : X) (l : list X),
  let mn := fmin f x0 l in let mx := fmax f x0 l in let p := ui_params mn mx in
  (forall x, In x (x0 :: l) -> 0 <= affine p (f x) /\ affine p (f x) <= 1) /\
  (~ mn == mx -> (exists x, In x (x0 :: l) /\ affine p (f x) == 0) /\
                 (exists x, In x (x0 :: l) /\ affine p (f x) == 1)) /\
  (mn == mx -> forall x, In x (x0 :: l) -> affine p (f x) == 1 # 2).
Proof. exact @unit_interval_correct. Qed.
Print Assumptions C15_unit_interval_correct.

(* REGRESSION WITNESS (describes the code BEFORE the repair d1f9a025, not the current tree): the parameters as they
   were coded: identical for non-constant features, 1/2 - c for a constant c (finding F17) *)
Theorem C15_F17_coded_unit_interval : forall mn mx c : Q,
  (~ mn == mx -> ui_params_coded mn mx = ui_params mn mx) /\
  affine (ui_params_coded c c) c == (1 # 2) - c.
Proof. intros mn mx c. split; [exact (ui_coded_agrees mn mx) | exact (ui_coded_constant_output c)]. Qed.
Print Assumptions C15_F17_coded_unit_interval.

(* ---- LinearRegression ---- *)
Theorem C15_linreg_normal_eq_zero_grad : forall d lam (D : @data sample) c beta,
  lr_solves d lam D c beta <-> (forall j, (j <= d)%nat -> lr_grad d lam D c beta j == 0).
Proof. exact linreg_normal_eq_zero_grad. Qed.
Print Assumptions C15_linreg_normal_eq_zero_grad.

Theorem C15_linreg_minimizer : forall d lam (D : @data sample) c beta, 0 <= lam -> lr_solves d lam D c beta ->
  forall beta', lr_err d lam D c beta <= lr_err d lam D c beta'.
Proof. exact linreg_minimizer. Qed.
Print Assumptions C15_linreg_minimizer.

(* points (0 -> 1), (1 -> 3): y = 2 x + 1 solves the system for lambda = 0 *)
Example linreg_hyp_satisfiable :
  lr_solves 1 0 [[([0], [1]); ([1], [3])]] 0 (fun k => match k with O => 2 | _ => 1 end).
Proof. intros j Hj. destruct j as [|[|j]]; [vm_compute; reflexivity | vm_compute; reflexivity | lia]. Qed.

(* ---- weights: multiplying all weights by a constant changes nothing ---- *)
Theorem C15_weighted_scale_invariant : forall (X : Type) (c : Q) (w f g : X -> Q) (l : list X), ~ c == 0 ->
  wmean (fun x => c * w x) f l == wmean w f l /\ wvar (fun x => c * w x) f l == wvar w f l /\
  wcov (fun x => c * w x) f g l == wcov w f g l.
Proof. exact @weighted_stats_scale_invariant. Qed.
Print Assumptions C15_weighted_scale_invariant.

Theorem C15_lda_weight_scale_invariant : forall (c : Q) (l : list wsample) K lam j k cl, ~ c == 0 ->
  let l' := map (fun p => (fst p, c * snd p)) l in
  lda_prior cl l' == lda_prior cl l /\ lda_mean cl j l' == lda_mean cl j l /\
  lda_cov K lam j k l' == lda_cov K lam j k l.
Proof. exact lda_weight_scale_invariant. Qed.
Print Assumptions C15_lda_weight_scale_invariant.

(* ---- linear models on the training data ---- *)
Theorem C15_lin_mean : forall d W b a (D : @data (list Q)), ~ count D == 0 ->
  mean (lin d W b a) D == sumn d (fun j => W a j * mean (feat j) D) + b a.
Proof. exact lin_mean. Qed.
Print Assumptions C15_lin_mean.

Theorem C15_lin_cov : forall d W b a c (D : @data (list Q)), ~ count D == 0 ->
  cov (lin d W b a) (lin d W b c) D == wcw d W D a c.
Proof. exact lin_cov. Qed.
Print Assumptions C15_lin_cov.

(* FULL statement (not proved): for every dataset the trained whitening model has output covariance tv * I on the
   range of the covariance.  Proved: the same, given the contract W C W^T = tv I of the decomposition. *)
Theorem C15_whitening_identity_partial : forall d k W tv (D : @data (list Q)), ~ count D == 0 ->
  (forall a c, (a < k)%nat -> (c < k)%nat -> wcw d W D a c == tv * delta a c) ->
  forall a c, (a < k)%nat -> (c < k)%nat ->
    mean (lin d W (center_off d W D) a) D == 0 /\
    cov (lin d W (center_off d W D) a) (lin d W (center_off d W D) c) D == tv * delta a c.
Proof. exact whitening_identity_partial. Qed.
Print Assumptions C15_whitening_identity_partial.

Theorem C15_whitening_contract_from_eigen : forall d k V ev s r tv (D : @data (list Q)),
  (forall i j, (i < k)%nat -> (j < d)%nat -> eig_residual d V ev D i j == 0) ->
  (forall i l, (i < k)%nat -> (l < k)%nat -> gram d V i l == delta i l) ->
  (forall i, (i < k)%nat -> s i * s i == ev i /\ ~ s i == 0) -> r * r == tv ->
  forall a c, (a < k)%nat -> (c < k)%nat -> wcw d (fun a j => r / s a * V j a) D a c == tv * delta a c.
Proof. exact whitening_contract_from_eigen. Qed.
Print Assumptions C15_whitening_contract_from_eigen.

(* the data (1,0),(-1,0),(0,2),(0,-2) has covariance diag(1/2, 2); W = diag(2,1)/sqrt 2 is not rational, but
   for target variance 2 the matrix W = diag(2, 1) satisfies the contract *)
Example whitening_hyp_satisfiable :
  let D := [[[1; 0]; [-1; 0]]; [[0; 2]; [0; -2]]] in
  let W := fun a j : nat => if (a =? j)%nat then (if (a =? 0)%nat then 2 else 1) else 0 in
  ~ count D == 0 /\ forall a c, (a < 2)%nat -> (c < 2)%nat -> wcw 2 W D a c == 2 * delta a c.
Proof.
  cbv zeta. split; [vm_compute; discriminate|].
  intros a c Ha Hc. destruct a as [|[|a]]; destruct c as [|[|c]]; try lia; vm_compute; reflexivity.
Qed.

(* ---- ZCA on rank-deficient data ---- *)
(* FULL statement (not proved): for every dataset NormalizeComponentsZCA returns a model whose output covariance is
   tv times the orthogonal projector onto the range of the covariance.  Proved: the same, given orthonormal
   eigenpairs (v_i, ev_i), i < k, of the covariance with ev_i = s_i^2 <> 0 (contract of the eigen-decomposition),
   for the matrix W = sqrt(tv) sum_{i<k} (1/s_i) v_i v_i^T the trainer assembles. *)
Theorem C15_zca_rank_deficient_projector_partial : forall d k V ev s r tv (D : @data (list Q)), ~ count D == 0 ->
  (forall i j, (i < k)%nat -> (j < d)%nat -> eig_residual d V ev D i j == 0) ->
  (forall i l, (i < k)%nat -> (l < k)%nat -> gram d V i l == delta i l) ->
  (forall i, (i < k)%nat -> s i * s i == ev i /\ ~ s i == 0) -> r * r == tv ->
  let W := zca_mat k V s r in
  forall a c,
    mean (lin d W (center_off d W D) a) D == 0 /\
    cov (lin d W (center_off d W D) a) (lin d W (center_off d W D) c) D == tv * proj k V a c /\
    proj k V a c == proj k V c a /\
    sumn d (fun j => proj k V a j * proj k V j c) == proj k V a c.
Proof. exact zca_rank_deficient_projector. Qed.
Print Assumptions C15_zca_rank_deficient_projector_partial.

(* ... and P is the projector onto the RANGE of the covariance when the remaining eigenvalues are zero *)
Theorem C15_zca_projector_fixes_range_partial : forall d k V ev (C : nat -> nat -> Q) a l,
  (forall i l, (i < k)%nat -> (l < k)%nat -> gram d V i l == delta i l) ->
  (forall j l, C j l == sumn k (fun i => V j i * (ev i * V l i))) ->
  sumn d (fun j => proj k V a j * C j l) == C a l.
Proof. exact proj_fixes_range. Qed.
Print Assumptions C15_zca_projector_fixes_range_partial.

(* the points (1,0), (-1,0): covariance diag(1,0), one direction e_0 with variance 1 *)
Example zca_hyp_satisfiable :
  let D := [[[1; 0]; [-1; 0]]] in let V := fun j i : nat => if (j =? 0)%nat then 1 else 0 in
  ~ count D == 0 /\ (forall j, (j < 2)%nat -> eig_residual 2 V (fun _ => 1) D 0 j == 0) /\ gram 2 V 0 0 == delta 0 0.
Proof.
  cbv zeta. split; [vm_compute; discriminate|]. split; [|vm_compute; reflexivity].
  intros j Hj. destruct j as [|[|j]]; [vm_compute; reflexivity | vm_compute; reflexivity | lia].
Qed.

(* ---- PCA ---- *)
(* FULL statement (not proved): PCA::setData returns orthonormal directions with non-increasing variances for every
   dataset.  Proved: for orthonormal directions the encoder/decoder pair is the orthogonal projection. *)
Theorem C15_pca_projection_partial : forall d m V mu,
  (forall i k, (i < m)%nat -> (k < m)%nat -> gram d V i k == delta i k) ->
  forall x,
   (forall i, (i < m)%nat -> pca_enc d V mu i (pca_proj d m V mu x) == pca_enc d V mu i x) /\
   (forall j, pca_proj d m V mu (pca_proj d m V mu x) j == pca_proj d m V mu x j) /\
   (forall i, (i < m)%nat -> sumn d (fun j => V j i * (x j - pca_proj d m V mu x j)) == 0).
Proof. exact pca_projection_partial. Qed.
Print Assumptions C15_pca_projection_partial.

Theorem C15_pca_enc_dec_partial : forall d m V mu,
  (forall i k, (i < m)%nat -> (k < m)%nat -> gram d V i k == delta i k) ->
  forall z i, (i < m)%nat -> pca_enc d V mu i (fun j => pca_dec m V mu j z) == z i.
Proof. exact pca_enc_dec. Qed.
Print Assumptions C15_pca_enc_dec_partial.

Theorem C15_pca_variance_is_eigenvalue_partial : forall d V ev i (D : @data (list Q)), ~ count D == 0 ->
  (forall j, (j < d)%nat -> eig_residual d V ev D i j == 0) -> gram d V i i == 1 ->
  var (lin d (fun a j => V j a) (center_off d (fun a j => V j a) D) i) D == ev i.
Proof. exact pca_variance_is_eigenvalue. Qed.
Print Assumptions C15_pca_variance_is_eigenvalue_partial.

(* the direction (3/5, 4/5) is a unit vector *)
Example pca_hyp_satisfiable :
  let V := fun j i : nat => match j with O => 3 # 5 | S O => 4 # 5 | _ => 0 end in
  forall i k, (i < 1)%nat -> (k < 1)%nat -> gram 2 V i k == delta i k.
Proof. cbv zeta. intros i k Hi Hk. assert (i = O) by lia. assert (k = O) by lia. subst. vm_compute. reflexivity. Qed.

(* ---- LDA ---- *)
(* FULL statement (not proved): LDA::train returns z_c = C^+ m_c and bias -m_c.z_c/2 + log prior for every dataset.
   Proved: with the solver contract z C = m the linear score is the Gaussian log-density exponent up to the
   class-independent term x.C^-1 x / 2 (y stands for C^-1 x). *)
Theorem C15_lda_rule_partial : forall d (C : nat -> nat -> Q) (m z x y : nat -> Q),
  (forall j k, C j k == C k j) ->
  (forall k, (k < d)%nat -> lda_residual d C m z k == 0) ->
  (forall k, (k < d)%nat -> sumn d (fun j => C k j * y j) == x k) ->
  - (1 # 2) * sumn d (fun k => (x k - m k) * (y k - z k))
  == sumn d (fun k => z k * x k) + lda_bias_part d m z - (1 # 2) * sumn d (fun k => x k * y k).
Proof. exact lda_rule_partial. Qed.
Print Assumptions C15_lda_rule_partial.

(* C = diag(2), m = 4, z = 2 *)
Example lda_hyp_satisfiable :
  forall k, (k < 1)%nat -> lda_residual 1 (fun _ _ => 2) (fun _ => 4) (fun _ => 2) k == 0.
Proof. intros k Hk. vm_compute. reflexivity. Qed.

(* ================= extension: PCA::setData / encoder / decoder AS CODED (C15PcaModel.v / C15PcaProofs.v) ================= *)
(* The eigen-decomposition is an oracle [eig]; its contract [eig_contract] (orthogonal Q - both products -, eigen-equation,
   non-increasing order) on the matrix it is handed is the hypothesis.  nv = number of columns of m_eigenvectors (n < d: n, else d),
   pca_oracle_matrix = the matrix of the branch taken (X0 X0^T / n resp. the covariance).  For the small-sample branch two more
   hypotheses: sqrt exact on the values met (ghost list) and "eigenvalues not above the rounding threshold d*eps*max(D(0),0) are
   exactly 0" (the code replaces them by 0).  Conclusion: orthonormal columns, eigenpairs of the COVARIANCE matrix, eigenvalues =
   the oracle's (hence the same non-zero eigenvalues), non-increasing. *)
Theorem C15_pca_setdata_correct : forall sq eig epsm d (D : @data (list Q)),
  let nv := pca_ncols d D in
  let M := pca_oracle_matrix d D in
  let Dv := snd (eig nv M) in
  (0 < nelems D)%nat -> 0 <= epsm ->
  eig_contract nv M (fst (eig nv M)) Dv ->
  ((nelems D < d)%nat -> forall i, (i < nv)%nat -> Dv i <= ss_threshold epsm d (Dv O) -> Dv i == 0) ->
  match pca_setdata sq eig epsm d D with
  | (V, ev, met) =>
    Forall (fun v => sq v * sq v == v) met ->
    (forall i k, (i < nv)%nat -> (k < nv)%nat -> gram d V i k == delta i k) /\
    (forall i j, (i < nv)%nat -> (j < d)%nat -> eig_residual d V ev D i j == 0) /\
    (forall k, (k < nv)%nat -> ev k == Dv k) /\
    (forall k, (S k < nv)%nat -> ev (S k) <= ev k)
  end.
Proof. exact pca_setdata_correct. Qed.
Print Assumptions C15_pca_setdata_correct.

(* the small-sample branch alone (any n <= d) *)
Theorem C15_pca_small_sample_correct : forall sq eig epsm d (D : @data (list Q)),
  let l := nelems D in
  let M := ss_gram d l (count D) (cen d D) in
  let U := fst (eig l M) in
  let Dv := snd (eig l M) in
  (0 < l)%nat -> (l <= d)%nat -> 0 <= epsm ->
  eig_contract l M U Dv ->
  (forall i, (i < l)%nat -> Dv i <= ss_threshold epsm d (Dv O) -> Dv i == 0) ->
  match pca_small sq eig epsm d D with
  | (V, ev, met) =>
    Forall (fun v => sq v * sq v == v) met ->
    (forall i k, (i < l)%nat -> (k < l)%nat -> gram d V i k == delta i k) /\
    (forall i j, (i < l)%nat -> (j < d)%nat -> eig_residual d V ev D i j == 0) /\
    (forall k, (k < l)%nat -> ev k == Dv k) /\
    (forall k, (S k < l)%nat -> ev (S k) <= ev k)
  end.
Proof. exact pca_small_correct. Qed.
Print Assumptions C15_pca_small_sample_correct.

(* 4 points in 5 dimensions, oracle = the rational Hadamard basis, square roots met 16, 4, 4, 1: all hypotheses hold and the
   run returns the unit vectors e0..e3 (the last one by the completion of the basis) *)
Example pca_small_sample_hyp_satisfiable :
  let l := nelems ex_pca_data in
  let M := ss_gram 5 l (count ex_pca_data) (cen 5 ex_pca_data) in
  (0 < l)%nat /\ (l <= 5)%nat /\ 0 <= ex_pca_epsm /\
  eig_contract l M (fst (ex_pca_eig l M)) (snd (ex_pca_eig l M)) /\
  (forall i, (i < l)%nat -> snd (ex_pca_eig l M) i <= ss_threshold ex_pca_epsm 5 (snd (ex_pca_eig l M) O) -> snd (ex_pca_eig l M) i == 0) /\
  match pca_small ex_pca_sq ex_pca_eig ex_pca_epsm 5 ex_pca_data with
  | (V, ev, met) => Forall (fun v => ex_pca_sq v * ex_pca_sq v == v) met /\
                    forall j k, (j < 5)%nat -> (k < 4)%nat -> V j k == delta j k
  end.
Proof. exact ex_pca_hypotheses. Qed.

(* encoder(m) / decoder(m) as coded, no whitening: the orthogonal projection onto the first m directions (the existing
   C15_pca_* statements transferred to the matrices and offsets the code builds: A = V_m^T, offset = -A mean; V_m, mean) *)
Theorem C15_pca_coded_projection : forall sq cut d m V ev mu,
  (forall i k, (i < m)%nat -> (k < m)%nat -> gram d V i k == delta i k) ->
  let E := pca_encoder sq cut false d V ev mu in
  let Dc := pca_decoder sq cut false V ev mu in
  let P := fun x j => apply_dec m Dc j (fun a => apply_enc d E a x) in
  (forall z a, (a < m)%nat -> apply_enc d E a (fun j => apply_dec m Dc j z) == z a) /\
  (forall x j, P (P x) j == P x j) /\
  (forall x a, (a < m)%nat -> sumn d (fun j => V j a * (x j - P x j)) == 0).
Proof. exact pca_coded_projection. Qed.
Print Assumptions C15_pca_coded_projection.

(* with whitening (rows/columns with D(a) <= 1e-15 D(0) cleared, the others divided / multiplied by sqrt(D(a)), square root
   exact on the eigenvalues met): encoder after decoder is the identity on the codes kept, decoder after encoder the orthogonal
   projection onto the directions kept, and the whitened code has mean 0 and variance 1 on the training data *)
Theorem C15_pca_coded_whitening : forall sq cut d m V ev mu,
  (forall i k, (i < m)%nat -> (k < m)%nat -> gram d V i k == delta i k) ->
  Forall (fun v => sq v * sq v == v) (pca_wh_met cut m ev) -> 0 <= cut -> 0 <= ev O ->
  let E := pca_encoder sq cut true d V ev mu in
  let Dc := pca_decoder sq cut true V ev mu in
  (forall z a, (a < m)%nat -> apply_enc d E a (fun j => apply_dec m Dc j z) == if negb (pca_cleared cut ev a) then z a else 0) /\
  (forall x j, apply_dec m Dc j (fun a => apply_enc d E a x)
               == sumn m (fun a => if negb (pca_cleared cut ev a) then V j a * pca_enc d V mu a x else 0) + mu j).
Proof. intros sq cut d m V ev mu HG Hsq Hc He. split; [exact (wh_enc_dec sq cut d m V ev mu HG Hsq Hc He)|exact (wh_dec_enc sq cut d m V ev mu Hsq Hc He)]. Qed.
Print Assumptions C15_pca_coded_whitening.

Theorem C15_pca_whitened_code_variance : forall sq cut d m V ev a (D : @data (list Q)), ~ count D == 0 -> (a < m)%nat ->
  Forall (fun v => sq v * sq v == v) (pca_wh_met cut m ev) -> 0 <= cut -> 0 <= ev O ->
  pca_cleared cut ev a = false ->
  (forall j, (j < d)%nat -> eig_residual d V ev D a j == 0) -> gram d V a a == 1 ->
  let E := pca_encoder sq cut true d V ev (pca_mean d D) in
  mean (lin d (fst E) (snd E) a) D == 0 /\ var (lin d (fst E) (snd E) a) D == 1.
Proof. exact wh_code_variance. Qed.
Print Assumptions C15_pca_whitened_code_variance.

(* ================= extension: NormalizeComponentsZCA::train AS CODED (C15ZcaModel.v / C15ZcaCodedProofs.v) ================= *)
(* same oracle device: IF the eigen-decomposition fulfils eig_contract on the covariance matrix, sqrt is exact on the values met
   (eigenvalues above the threshold, target variance) and the eigenvalues not above the rounding threshold d*eps*max(D) are exactly 0,
   THEN with k = number of eigenvalues above the threshold (a prefix, the order comes from the contract) the trained model sends the
   training data to mean 0 and covariance tv * P, P = U_k U_k^T symmetric idempotent (the projector onto the directions of positive
   variance), P = I for k = d.  (C15_zca_rank_deficient_projector_partial with its hypotheses discharged from the code + contract.) *)
Theorem C15_zca_train_correct : forall sq eig epsm d tv (D : @data (list Q)),
  let U := fst (eig d (pca_cov d D)) in
  let Dv := snd (eig d (pca_cov d D)) in
  let thr := zca_threshold epsm d Dv in
  let k := nact Dv thr d in
  (d < nelems D)%nat -> (0 < d)%nat -> 0 <= epsm ->
  eig_contract d (pca_cov d D) U Dv ->
  (forall i, (i < d)%nat -> Dv i <= thr -> Dv i == 0) ->
  Forall (fun v => sq v * sq v == v) (zca_met epsm d tv Dv) ->
  forall W off met, zca_train sq eig epsm d tv D = Some (W, off, met) ->
  (k <= d)%nat /\ (forall i, (i < k)%nat -> thr < Dv i) /\ (forall i, (k <= i < d)%nat -> Dv i == 0) /\
  forall a c,
    mean (lin d W off a) D == 0 /\
    cov (lin d W off a) (lin d W off c) D == tv * proj k U a c /\
    proj k U a c == proj k U c a /\
    sumn d (fun j => proj k U a j * proj k U j c) == proj k U a c /\
    (k = d -> (a < d)%nat -> (c < d)%nat -> proj k U a c == delta a c).
Proof. exact zca_train_correct. Qed.
Print Assumptions C15_zca_train_correct.

(* the four points (+-2, +-1): covariance diag(4,1), oracle (identity, (4,1)), target variance 1: all hypotheses hold *)
Example zca_train_hyp_satisfiable :
  let Dv := snd (ex_zca_eig 2 (pca_cov 2 ex_zca_data)) in
  (2 < nelems ex_zca_data)%nat /\ 0 <= (1 # 4503599627370496) /\
  eig_contract 2 (pca_cov 2 ex_zca_data) (fst (ex_zca_eig 2 (pca_cov 2 ex_zca_data))) Dv /\
  (forall i, (i < 2)%nat -> Dv i <= zca_threshold (1 # 4503599627370496) 2 Dv -> Dv i == 0) /\
  Forall (fun v => ex_zca_sq v * ex_zca_sq v == v) (zca_met (1 # 4503599627370496) 2 1 Dv) /\
  exists W off met, zca_train ex_zca_sq ex_zca_eig (1 # 4503599627370496) 2 1 ex_zca_data = Some (W, off, met).
Proof. exact ex_zca_hypotheses. Qed.

From Coq Require Import Qcanon.
From SharkV Require Import C02Model C02Proofs C02BlkModel C02LUProofs C02Q C02QProofs C02PstrfModel C02PstrfProofs C02PstrfQProofs C02SemiModel C02SemiProofs.
From SharkV Require Import C15SolveModel C15SolveProofs C15SolveQProofs C15SolveExample.
(* ================= extension: LinearRegression::train and LDA::train AS CODED, solver step included
   (C15SolveModel.v over the arithmetic record of C02, theorems over Qc; C15SolveProofs.v / C15SolveQProofs.v) ================= *)
(* The solver is not an oracle: solve(M, B, symm_semi_pos_def(), side) is the C02 model (pstrf, potrf of L^T L, substitutions) and the
   imported theorem C02_semi_solve_rowmajor is used.  The hypothesis that REMAINS is [semi_exact n epsm M]: on the matrix M the
   constructor of symm_pos_semi_definite_solver runs exactly, i.e. (with (r, L, P, piv) = pstrf_full 20 n epsm M)
     0 <= the stopping threshold,  sqrt exact on the pivots met (sq_ok piv),
     ZERO SCHUR COMPLEMENT at the stop: M(P i, P j) = sum_{u<r} L i u * L j u for r <= i, j < n   (the rank found is the exact rank),
     for 0 < r < n: potrf of L^T L succeeds and its square roots are exact.
   Scalars: Qc (canonical rationals), std::sqrt = the parameter sq. *)
Theorem C15_semi_solve_all_correct : forall sq n epsm (M : mat Qc) rhs xs, (forall i j, M i j = M j i) ->
  semi_exact Qc (qc_ops sq) qc_abs n epsm M ->
  semi_solve_all Qc (qc_ops sq) qc_abs n epsm M rhs = Some xs -> Forall2 (semi_sol Qc (qc_ops sq) n M) rhs xs.
Proof. intros sq. exact (semi_solve_all_correct Qc (qc_ops sq) qc_abs (qc_field sq) (qc_eqb_spec sq) (qc_leb_00 sq)). Qed.
Print Assumptions C15_semi_solve_all_correct.

(* LinearRegression::train: the RETURNED weights (row c of the matrix | offset c) have vanishing gradient of the regularised squared
   error, for every lambda >= 0 - for lambda = 0 and singular X^T X they are a least-squares solution (lrc_halfgrad = gradient / 2) *)
Theorem C15_linreg_train_zero_gradient : forall sq d o lam epsm D betas, fleb (qc_ops sq) (fzero (qc_ops sq)) lam = true ->
  semi_exact Qc (qc_ops sq) qc_abs (S d) epsm (lrc_A Qc (qc_ops sq) d lam D) ->
  lrc_train Qc (qc_ops sq) qc_abs d o lam epsm D = Some betas ->
  length betas = o /\
  forall c j, (c < o)%nat -> (j <= d)%nat ->
    lrc_halfgrad Qc (qc_ops sq) d lam D c (nth c betas (fun _ => fzero (qc_ops sq))) j = fzero (qc_ops sq).
Proof. exact lrc_train_grad_zero_Q. Qed.
Print Assumptions C15_linreg_train_zero_gradient.

(* one point (1,1,1) -> 4 in three dimensions, lambda = 0: the 4 x 4 system is the all-ones matrix of rank 1 (singular), the
   factorisation is exact (pivot 1, L^T L = 4) and train returns *)
Example linreg_train_hyp_satisfiable :
  fleb ps_F (fzero ps_F) (q_ 0) = true /\ semi_exact Qc ps_F qc_abs 4 ps_epsm (lrc_A Qc ps_F 3 (q_ 0) ex_lr_D) /\
  exists betas, lrc_train Qc ps_F qc_abs 3 1 (q_ 0) ps_epsm ex_lr_D = Some betas.
Proof. exact ex_lr_hypotheses. Qed.

(* LDA::train (unweighted / weighted): class means and pooled covariance as coded (one pass), and for every class c the returned row
   z_c: least-squares normal equations C (C z_c - m_c) = 0; bias part -0.5 <m_c, z_c>; for a REGULAR covariance C z_c = m_c
   (= z_c C, C is symmetric) and the linear score is the exponent of the estimated Gaussian up to the class-independent term
   (= C15_lda_rule_partial with its hypothesis discharged); see lda_rule_ok in C15SolveQProofs.v *)
Theorem C15_lda_train_rule : forall sq half d K lam epsm D res,
  semi_exact Qc (qc_ops sq) qc_abs d epsm (ldac_cov Qc (qc_ops sq) d K lam D) ->
  ldac_train Qc (qc_ops sq) qc_abs half d K lam epsm D = Some res ->
  (forall c, (c < K)%nat -> ldac_num Qc c D <> O) /\
  lda_rule_ok sq half d K (map (fun c => ldac_mean Qc (qc_ops sq) d c D) (seq 0 K)) (ldac_cov Qc (qc_ops sq) d K lam D) res.
Proof. exact ldac_train_rule_Q. Qed.
Print Assumptions C15_lda_train_rule.

Theorem C15_lda_train_weighted_rule : forall sq half d K lam epsm D res,
  semi_exact Qc (qc_ops sq) qc_abs d epsm (ldaw_cov Qc (qc_ops sq) d K lam D) ->
  ldaw_train Qc (qc_ops sq) qc_abs half d K lam epsm D = Some res ->
  (forall c, (c < K)%nat -> ldaw_cw Qc (qc_ops sq) c D <> fzero (qc_ops sq)) /\
  lda_rule_ok sq half d K (map (fun c => ldaw_mean Qc (qc_ops sq) d c D) (seq 0 K)) (ldaw_cov Qc (qc_ops sq) d K lam D) res.
Proof. exact ldaw_train_rule_Q. Qed.
Print Assumptions C15_lda_train_weighted_rule.

(* the pooled covariance as coded is symmetric (hypothesis of the solver theorem, proved) *)
Theorem C15_lda_cov_symmetric : forall sq d K lam,
  (forall D j k, ldac_cov Qc (qc_ops sq) d K lam D j k = ldac_cov Qc (qc_ops sq) d K lam D k j) /\
  (forall D j k, ldaw_cov Qc (qc_ops sq) d K lam D j k = ldaw_cov Qc (qc_ops sq) d K lam D k j).
Proof. intros sq d K lam. split; intros D j k; [exact (ldac_cov_sym Qc (qc_ops sq) (qc_field sq) d K lam D j k)|exact (ldaw_cov_sym Qc (qc_ops sq) (qc_field sq) d K lam D j k)]. Qed.
Print Assumptions C15_lda_cov_symmetric.

(* classes {-1, 1} and {3, 5} in one dimension, weights 1: pooled covariance 1 (regular), sqrt exact on the weights, train returns *)
Example lda_train_hyp_satisfiable :
  semi_exact Qc ps_F qc_abs 1 ps_epsm (ldaw_cov Qc ps_F 1 2 (q_ 0) ex_lda_D) /\
  sq_ok Qc ps_F (ldaw_met Qc ex_lda_D) /\
  (exists res, ldaw_train Qc ps_F qc_abs (qc_make 1 2) 1 2 (q_ 0) ps_epsm ex_lda_D = Some res) /\
  ex_lda_C 0%nat 0%nat = q_ 1 /\ fadd ps_F (qc_make 1 2) (qc_make 1 2) = fone ps_F.
Proof. exact ex_lda_hypotheses. Qed.
