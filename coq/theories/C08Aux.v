(* C08 — finite sums over Q (sumn from C08Defs): extensionality, linearity, delta extraction,
   truncation, monotonicity, invariance under a transposition of the index. *)
From Coq Require Import QArith Qminmax Lqa Arith Bool List Lia.
From SharkV Require Import C08Model C08Defs.
Open Scope Q_scope.

Lemma sumn_ext m f g : (forall a, (a < m)%nat -> f a == g a) -> sumn m f == sumn m g.
Proof.
  induction m; intros H; simpl; [reflexivity|].
  rewrite IHm by (intros; apply H; lia). rewrite (H m) by lia. reflexivity.
Qed.

Lemma sumn_0 m f : (forall a, (a < m)%nat -> f a == 0) -> sumn m f == 0.
Proof.
  induction m; intros H; simpl; [reflexivity|].
  rewrite IHm by (intros; apply H; lia). rewrite (H m) by lia. lra.
Qed.

Lemma sumn_add m f g : sumn m (fun a => f a + g a) == sumn m f + sumn m g.
Proof. induction m; simpl; [lra|]. rewrite IHm. lra. Qed.

Lemma sumn_sub m f g : sumn m (fun a => f a - g a) == sumn m f - sumn m g.
Proof. induction m; simpl; [lra|]. rewrite IHm. lra. Qed.

Lemma sumn_scal m c f : sumn m (fun a => c * f a) == c * sumn m f.
Proof. induction m; simpl; [lra|]. rewrite IHm. lra. Qed.

Lemma sumn_scal_r m c f : sumn m (fun a => f a * c) == sumn m f * c.
Proof. induction m; simpl; [lra|]. rewrite IHm. lra. Qed.

Lemma sumn_le m f g : (forall a, (a < m)%nat -> f a <= g a) -> sumn m f <= sumn m g.
Proof.
  induction m; intros H; simpl; [lra|].
  assert (sumn m f <= sumn m g) by (apply IHm; intros; apply H; lia).
  assert (f m <= g m) by (apply H; lia). lra.
Qed.

(* delta extraction: sum_a [a = i] * f a = f i *)
Definition delta (i a : nat) : Q := if (a =? i)%nat then 1 else 0.

Lemma sumn_delta m i f : (i < m)%nat -> sumn m (fun a => delta i a * f a) == f i.
Proof.
  induction m; intros H; [lia|]. simpl.
  destruct (Nat.eq_dec i m) as [->|N].
  - rewrite sumn_0. + unfold delta. rewrite Nat.eqb_refl. lra.
    + intros a Ha. unfold delta. destruct (Nat.eqb_spec a m); [lia|lra].
  - rewrite IHm by lia. unfold delta. destruct (Nat.eqb_spec m i); [lia|lra].
Qed.

Lemma sumn_delta_out m i f : (m <= i)%nat -> sumn m (fun a => delta i a * f a) == 0.
Proof.
  intros H. apply sumn_0. intros a Ha. unfold delta. destruct (Nat.eqb_spec a i); [lia|lra].
Qed.

(* truncation: terms beyond k vanish *)
Lemma sumn_trunc k m f : (k <= m)%nat -> (forall a, (k <= a < m)%nat -> f a == 0) -> sumn m f == sumn k f.
Proof.
  induction m; intros Hk H.
  - assert (k = 0)%nat by lia. subst. reflexivity.
  - destruct (Nat.eq_dec k (S m)) as [->|N]; [reflexivity|].
    simpl. rewrite IHm by (try lia; intros; apply H; lia). rewrite (H m) by lia. lra.
Qed.

(* a function changed at one / two points *)
Lemma updf_delta (f : nat -> Q) i v a : updf f i v a == f a + delta i a * (v - f i).
Proof.
  unfold updf, delta. destruct (Nat.eqb_spec a i); [subst; lra|lra].
Qed.

(* transposition of indices *)
Definition sw (i j a : nat) : nat := if (a =? i)%nat then j else if (a =? j)%nat then i else a.

Lemma swapf_sw {B} (f : nat -> B) i j a : swapf f i j a = f (sw i j a).
Proof. unfold swapf, sw. destruct (a =? i)%nat; auto. destruct (a =? j)%nat; auto. Qed.

Lemma sw_lt i j a m : (i < m)%nat -> (j < m)%nat -> (a < m)%nat -> (sw i j a < m)%nat.
Proof. unfold sw. intros. destruct (a =? i)%nat; auto. destruct (a =? j)%nat; auto. Qed.

Lemma sw_invol i j a : sw i j (sw i j a) = a.
Proof.
  unfold sw. destruct (Nat.eqb_spec a i).
  - subst. destruct (Nat.eqb_spec j i); [congruence|]. rewrite Nat.eqb_refl. reflexivity.
  - destruct (Nat.eqb_spec a j).
    + subst. rewrite Nat.eqb_refl. reflexivity.
    + destruct (Nat.eqb_spec a i); [contradiction|]. destruct (Nat.eqb_spec a j); [contradiction|]. reflexivity.
Qed.

Lemma sw_inj i j a b : sw i j a = sw i j b -> a = b.
Proof. intros H. rewrite <- (sw_invol i j a), <- (sw_invol i j b). congruence. Qed.

Lemma sw_delta (f : nat -> Q) i j a :
  f (sw i j a) == f a + delta i a * (f j - f i) + delta j a * (f i - f j).
Proof.
  unfold sw, delta. destruct (Nat.eqb_spec a i); destruct (Nat.eqb_spec a j); subst; lra.
Qed.

Lemma sumn_sw m i j f : (i < m)%nat -> (j < m)%nat -> sumn m (fun a => f (sw i j a)) == sumn m f.
Proof.
  intros Hi Hj.
  rewrite (sumn_ext m _ (fun a => f a + delta i a * (f j - f i) + delta j a * (f i - f j)))
    by (intros; apply sw_delta).
  rewrite !sumn_add.
  rewrite (sumn_delta m i (fun _ => f j - f i)) by assumption.
  rewrite (sumn_delta m j (fun _ => f i - f j)) by assumption. lra.
Qed.
