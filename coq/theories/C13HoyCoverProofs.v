(* C13 — HOY, steps (1)-(2) of stream: the slab [cover', cover) above the first covering point is covered completely,
   below it only the points with a smaller last objective matter.  Axiom-free. *)
From Coq Require Import List ZArith Lia Bool Arith Permutation Sorted.
From SharkV Require Import ListAux C13Model C13Proofs C13Wfg C13WfgProofs C13Hoy C13HoyBoxProofs.
Import ListNotations.
Local Open Scope Z_scope.

Definition by_last (p q : hpt) : Prop := snd p <= snd q.

Lemma SS_app_inv {A} (R : A -> A -> Prop) (l1 l2 : list A) : StronglySorted R (l1 ++ l2) ->
  StronglySorted R l1 /\ StronglySorted R l2 /\ forall a b, In a l1 -> In b l2 -> R a b.
Proof.
  induction l1 as [|x l1 IH]; cbn [app]; intros H.
  - split; [constructor|]. split; auto. intros a b [].
  - inversion H as [|? ? HS HF]; subst. destruct (IH HS) as [H1 [H2 H3]].
    rewrite Forall_app in HF. destruct HF as [F1 F2]. split; [constructor; auto|]. split; auto.
    intros a b [<-|Ha] Hb; [|auto]. rewrite Forall_forall in F2. auto.
Qed.

Lemma SS_filter {A} (R : A -> A -> Prop) f (l : list A) : StronglySorted R l -> StronglySorted R (filter f l).
Proof.
  induction 1 as [|x l HS IH HF]; cbn [filter]; [constructor|].
  destruct (f x); auto. constructor; auto. rewrite Forall_forall in *. intros y Hy. apply filter_In in Hy. apply HF, Hy.
Qed.

Lemma SS_firstn {A} (R : A -> A -> Prop) n (l : list A) : StronglySorted R l -> StronglySorted R (firstn n l).
Proof.
  intros H. rewrite <- (firstn_skipn n l) in H. apply SS_app_inv in H. apply H.
Qed.

Lemma first_cover_None low : forall pts i, first_cover low pts i = None ->
  forall p, In p pts -> covers (fst p) low = false.
Proof.
  induction pts as [|q pts IH]; intros i H p Hp; [destruct Hp|]. cbn [first_cover] in H.
  destruct (covers (fst q) low) eqn:E; [discriminate|]. destruct Hp as [<-|Hp]; eauto.
Qed.

Lemma first_cover_Some low : forall pts i0 i z, first_cover low pts i0 = Some (i, z) ->
  exists A q B, pts = A ++ q :: B /\ i = (i0 + length A)%nat /\ z = snd q /\ covers (fst q) low = true /\
                forall p, In p A -> covers (fst p) low = false.
Proof.
  induction pts as [|q pts IH]; intros i0 i z H; [discriminate|]. cbn [first_cover] in H.
  destruct (covers (fst q) low) eqn:E.
  - injection H as <- <-. exists [], q, pts. cbn. repeat split; auto. intros p [].
  - destruct (IH _ _ _ H) as [A [q' [B [-> [-> [-> [Hc HA]]]]]]].
    exists (q :: A), q', B. cbn [app length]. repeat split; auto; [lia|]. intros p [<-|Hp]; auto.
Qed.

Lemma count_last_le z A : (count_last z A <= length A)%nat.
Proof.
  unfold count_last. induction A as [|a A IH]; cbn [filter length]; [lia|]. destruct (snd a =? z); cbn [length]; lia.
Qed.

Lemma count_last_cons z a A : count_last z (a :: A) = ((if (snd a =? z)%Z then 1 else 0) + count_last z A)%nat.
Proof. unfold count_last. cbn [filter]. destruct (snd a =? z); reflexivity. Qed.

Lemma count_last_all z A : (forall p, In p A -> snd p = z) -> count_last z A = length A.
Proof.
  induction A as [|a A IH]; intros H; [reflexivity|]. rewrite count_last_cons, IH by (intros; apply H; now right).
  rewrite (H a) by now left. rewrite Z.eqb_refl. reflexivity.
Qed.

Lemma count_last_none z A : (forall p, In p A -> snd p <> z) -> count_last z A = 0%nat.
Proof.
  induction A as [|a A IH]; intros H; [reflexivity|]. rewrite count_last_cons, IH by (intros; apply H; now right).
  destruct (Z.eqb_spec (snd a) z) as [E|NE]; [|reflexivity]. exfalso. apply (H a); auto. now left.
Qed.

Lemma filter_none {A} (f : A -> bool) l : (forall x, In x l -> f x = false) -> filter f l = [].
Proof.
  induction l as [|x l IH]; intros H; [reflexivity|]. cbn [filter]. rewrite (H x) by now left. apply IH. intros; apply H; now right.
Qed.

Lemma sorted_prefix_lt z : forall A, StronglySorted by_last A -> (forall p, In p A -> snd p <= z) ->
  firstn (length A - count_last z A) A = filter (fun p => snd p <? z) A.
Proof.
  induction A as [|a A IH]; intros HS Hle; [reflexivity|].
  inversion HS as [|? ? HS' HF]; subst. rewrite Forall_forall in HF.
  rewrite count_last_cons. cbn [filter length].
  destruct (Z.eqb_spec (snd a) z) as [E|NE].
  - assert (Hall : forall p, In p A -> snd p = z).
    { intros p Hp. specialize (HF p Hp). unfold by_last in HF. specialize (Hle p (or_intror Hp)). lia. }
    rewrite count_last_all by auto.
    match goal with |- firstn ?n _ = _ => assert (X : n = 0%nat) by lia; rewrite X; clear X end.
    destruct (Z.ltb_spec (snd a) z); [lia|]. cbn [firstn]. symmetry. apply filter_none.
    intros p Hp. rewrite (Hall p Hp). apply Z.ltb_irrefl.
  - pose proof (count_last_le z A). pose proof (Hle a (or_introl eq_refl)).
    match goal with |- firstn ?n _ = _ => assert (X : n = S (length A - count_last z A)) by lia; rewrite X; clear X end.
    destruct (Z.ltb_spec (snd a) z); [|lia]. cbn [firstn]. f_equal. apply IH; auto. intros; apply Hle; now right.
Qed.

(* ---------------------------------------------------------------------------------------- *)
Lemma all2_true_nth r a b : length a = length b -> all2 r a b = true ->
  forall j, (j < length a)%nat -> r (nth j a 0) (nth j b 0) = true.
Proof. intros HL H. apply all2_nth; auto. Qed.

(* a point that covers the lower corner dominates every cell of the region *)
Lemma covers_dominates low up c (q : hpt) : length (fst q) = length low -> length low = length up ->
  covers (fst q) low = true -> inbox low up c -> all2 Z.leb (fst q) c = true.
Proof.
  intros Lq HL Hc Hb. apply inbox_nth in Hb; auto. destruct Hb as [Lc Hn].
  apply all2_nth; [lia|]. intros j Hj.
  pose proof (all2_true_nth _ _ _ Lq Hc j Hj) as H1. apply Z.leb_le in H1. apply Z.leb_le.
  specialize (Hn j ltac:(lia)). lia.
Qed.

Section CoverStep.
Variables (low up : list Z) (pts : list hpt) (cover zlo : Z).
Hypothesis HLlow : length low = length up.
Hypothesis HLp : forall p, In p pts -> length (fst p) = length low.
Hypothesis Hsorted : StronglySorted by_last pts.
Hypothesis Hrange : forall p, In p pts -> zlo <= snd p < cover.

Lemma cover_step_spec cover' k res : cover_step low up pts cover = (cover', k, res) ->
  let P := firstn k pts in
  length P = k /\
  (forall p, In p P <-> In p pts /\ snd p < cover') /\
  (forall p, In p P -> covers (fst p) low = false) /\
  ((cover' = cover /\ res = 0) \/
   (exists q, In q pts /\ covers (fst q) low = true /\ snd q = cover' /\ res = get_measure low up * (cover - cover'))).
Proof.
  unfold cover_step. destruct (first_cover low pts 0) as [[i z]|] eqn:E.
  - intros H. injection H as <- <- <-.
    destruct (first_cover_Some _ _ _ _ _ E) as [A [q [B [Hp [Hi [Hz [Hc HA]]]]]]]. cbn [Nat.add] in Hi. subst i z.
    assert (HfA : firstn (length A) pts = A).
    { rewrite Hp. rewrite firstn_app, firstn_all, Nat.sub_diag. cbn [firstn]. apply app_nil_r. }
    rewrite HfA. pose proof Hsorted as HS0. rewrite Hp in HS0. apply SS_app_inv in HS0. destruct HS0 as [SA [SB HAB]].
    apply StronglySorted_inv in SB. destruct SB as [SB' FB]. rewrite Forall_forall in FB.
    assert (HAle : forall p, In p A -> snd p <= snd q) by (intros p Hq; apply (HAB p q); auto; now left).
    pose proof (count_last_le (snd q) A) as Hcl.
    assert (HP : firstn (length A - count_last (snd q) A) pts = filter (fun p => snd p <? snd q) A).
    { rewrite <- (sorted_prefix_lt (snd q) A SA HAle). transitivity (firstn (length A - count_last (snd q) A) (firstn (length A) pts)); [|now rewrite HfA].
      rewrite firstn_firstn. f_equal. lia. }
    cbv zeta. rewrite HP. split; [|split; [|split]].
    + rewrite <- HP. apply firstn_length_le. rewrite Hp, app_length. lia.
    + intros p. rewrite filter_In, Z.ltb_lt, Hp. split; [intros [Hin Hlt]; split; auto; apply in_or_app; now left|].
      intros [Hin Hlt]. split; auto. apply in_app_or in Hin. destruct Hin as [Hin|[<-|Hin]]; auto; [lia|].
      specialize (FB p Hin). unfold by_last in FB. lia.
    + intros p Hin. apply filter_In in Hin. apply HA, Hin.
    + right. exists q. split; [rewrite Hp; apply in_or_app; right; now left|]. auto.
  - intros H. injection H as <- <- <-. rewrite firstn_all.
    rewrite count_last_none by (intros p Hp; specialize (Hrange p Hp); lia). rewrite Nat.sub_0_r.
    cbv zeta. rewrite firstn_all. split; [reflexivity|]. split; [|split].
    + intros p. split; [intros Hp; split; auto; apply Hrange; auto|tauto].
    + apply (first_cover_None _ _ _ E).
    + left. auto.
Qed.

Hypothesis Hbox : Forall2 Z.le low up.

Lemma cover_step_vol cover' k res : cover_step low up pts cover = (cover', k, res) ->
  vol low up zlo cover pts = res + vol low up zlo cover' (firstn k pts).
Proof.
  intros E. destruct (cover_step_spec _ _ _ E) as [_ [HP [_ Hc]]]. cbv zeta in HP.
  destruct Hc as [[-> ->]|[q [Hq [Hcv [<- ->]]]]].
  - rewrite Z.add_0_l. apply vol_ext. intros z c Hz Hb. apply existsb_ext_in.
    + intros p Hp Hd. exists p. split; auto. apply HP. split; auto. apply Hrange; auto.
    + intros p Hp Hd. exists p. split; auto. apply HP, Hp.
  - pose proof (Hrange q Hq) as Rq. unfold vol. rewrite (zsum_split zlo (snd q) cover) by lia.
    rewrite Z.add_comm. f_equal.
    + rewrite (zsum_ext (snd q) cover _ (fun _ => get_measure low up)).
      * apply zsum_const. lia.
      * intros z Hz. rewrite (bsum_ext low up _ (fun _ => 1)).
        -- rewrite bsum_const by auto. unfold get_measure. rewrite box_vol_lprod. lia.
        -- intros c Hb. unfold ind.
           assert (existsb (dom1 c z) pts = true) as ->; [|reflexivity].
           apply existsb_exists. exists q. split; auto. unfold dom1.
           rewrite (covers_dominates low up c q); auto. cbn [andb]. apply Z.leb_le. lia.
    + apply zsum_ext. intros z Hz. apply bsum_ext. intros c Hb. apply ind_ext. apply existsb_ext_in.
      * intros p Hp Hd. exists p. split; auto. apply HP. split; auto.
        unfold dom1 in Hd. apply andb_true_iff in Hd. destruct Hd as [_ Hd]. apply Z.leb_le in Hd. lia.
      * intros p Hp Hd. exists p. split; auto. apply HP, Hp.
Qed.
End CoverStep.
