(* C05 — proofs about the block-wise dataset routines of KernelHelpers.h (model: C05Blocks.v).  Any ordered field, no axioms.
     gram_mixed_ok        calculateMixedKernelMatrix is entry-wise k(x_i, z_j): a function of the two element lists only
     kmpd_correct         calculateKernelMatrixParameterDerivative = weightedParameterDerivative of the whole Gram
                          matrix (sum_ij W_ij dk(x_i,x_j)/dp) for symmetric weights W and a symmetric coded gradient p;
                          hence independent of the batch partition (kmpd_partition_invariant)
   The proof of the second goes through scalars: for a direction w the number <gradient, w> is a double sum
   T i L1 j L2 = sum_{a,c} W[i+a][j+c] phi(L1[a], L2[c]) with phi(x,z) = <p x z, w>; T is additive in both lists and
   symmetric; the loop over the batch pairs j <= i with factor 2 off the diagonal builds T 0 L 0 L by adding one batch
   (one row block, its mirror image and a diagonal block) at a time. *)
From Coq Require Import List Arith Bool Field Ring Lia.
From SharkV Require Import C03Model C05Model C05Proofs C05Aux C05Blocks.
Import ListNotations.

Section BlocksProofs.
Variable A : Type.
Variables (zero one : A) (add mul sub div : A -> A -> A) (opp inv : A -> A) (le : A -> A -> Prop).
Hypothesis OF : OrdField zero one add mul sub div opp inv le.
Definition FT5 := of_field _ _ _ _ _ _ _ _ _ OF.
Add Field Fbl : FT5.

Notation lsumA := (lsum A zero add).
Notation dotA := (dot A zero add mul).
Notation vec := (list A).
Notation mat := (list (list A)).
Notation vaddA := (vadd A add).
Notation vscaleA := (vscale A mul).
Notation vsumA := (vsum A zero add).
Notation lsum_ext := (lsum_map_ext A zero add).
Notation twoA := (add one one).

Lemma skipn_cons_nth {U} (d : U) i : forall (l : list U) r t, skipn i l = r :: t -> nth i l d = r /\ skipn (S i) l = t.
Proof.
  induction i; destruct l; simpl; intros r t H; try discriminate.
  - inversion H; auto.
  - apply IHi; auto.
Qed.
Lemma skipn_nil_nth {U} (d : U) i : forall (l : list U), skipn i l = [] -> nth i l d = d /\ skipn (S i) l = [].
Proof.
  induction i; destruct l; simpl; intros H; try discriminate; auto. apply IHi; auto.
Qed.

Section OnX.
Variable X : Type.

(* ---------------------------------------------------------------- calculateMixedKernelMatrix *)
Theorem gram_mixed_ok (P : X -> Prop) k bk (d1 d2 : list (list X)) :
  BatchOKOn A X P k bk -> Forall (Forall P) d1 -> Forall (Forall P) d2 ->
  gram_mixed A X bk d1 d2 = mk A X k (concat d1) (concat d2).
Proof.
  intros H H1 H2. unfold gram_mixed. induction H1 as [|bi r Hi _ IH]; simpl; auto.
  rewrite IH, (row_block_ok A X P k bk bi d2), mk_app_rows; auto.
Qed.

Corollary gram_mixed_partition_invariant (P : X -> Prop) k bk (d1 d2 d1' d2' : list (list X)) :
  BatchOKOn A X P k bk -> Forall (Forall P) d1 -> Forall (Forall P) d2 -> Forall (Forall P) d1' -> Forall (Forall P) d2' ->
  concat d1 = concat d1' -> concat d2 = concat d2' -> gram_mixed A X bk d1 d2 = gram_mixed A X bk d1' d2'.
Proof. intros H H1 H2 H1' H2' E1 E2. rewrite !(gram_mixed_ok P k bk) by auto. rewrite E1, E2. reflexivity. Qed.

(* ---------------------------------------------------------------- scalar double sums *)
Section Scalar.
Variable phi : X -> X -> A.
Variable W : mat.

Fixpoint rowsum (r : vec) (j : nat) (x : X) (L2 : list X) : A :=
  match L2 with [] => zero | z :: L2' => add (mul (nth j r zero) (phi x z)) (rowsum r (S j) x L2') end.
Fixpoint T (i : nat) (L1 : list X) (j : nat) (L2 : list X) : A :=
  match L1 with [] => zero | x :: L1' => add (rowsum (nth i W []) j x L2) (T (S i) L1' j L2) end.
Fixpoint colsum (i : nat) (L1 : list X) (j : nat) (z : X) : A :=
  match L1 with [] => zero | x :: L1' => add (mul (nth j (nth i W []) zero) (phi x z)) (colsum (S i) L1' j z) end.

Lemma rowsum_app r x a : forall j b, rowsum r j x (a ++ b) = add (rowsum r j x a) (rowsum r (j + length a) x b).
Proof.
  induction a as [|z a IH]; intros j b; simpl.
  - rewrite Nat.add_0_r. ring.
  - rewrite IH. replace (S j + length a)%nat with (j + S (length a))%nat by lia. ring.
Qed.
Lemma rowsum_nil x L2 : forall j, rowsum [] j x L2 = zero.
Proof. induction L2; intros j; simpl; auto. rewrite IHL2. destruct j; simpl; ring. Qed.
Lemma T_app_l a : forall i b j L2, T i (a ++ b) j L2 = add (T i a j L2) (T (i + length a) b j L2).
Proof.
  induction a as [|x a IH]; intros i b j L2; simpl.
  - rewrite Nat.add_0_r. ring.
  - rewrite IH. replace (S i + length a)%nat with (i + S (length a))%nat by lia. ring.
Qed.
Lemma T_app_r L1 : forall i j a b, T i L1 j (a ++ b) = add (T i L1 j a) (T i L1 (j + length a) b).
Proof. induction L1; intros; simpl; [ring|]. rewrite IHL1, rowsum_app. ring. Qed.
Lemma T_nil_r L1 : forall i j, T i L1 j [] = zero.
Proof. induction L1; intros; simpl; auto. rewrite IHL1. ring. Qed.
Lemma T_cons_r L1 : forall i j z L2, T i L1 j (z :: L2) = add (colsum i L1 j z) (T i L1 (S j) L2).
Proof. induction L1; intros; simpl; [ring|]. rewrite IHL1. ring. Qed.
Lemma T_beyond L1 : forall i j L2, skipn i W = [] -> T i L1 j L2 = zero.
Proof.
  induction L1; intros i j L2 E; simpl; auto.
  destruct (skipn_nil_nth [] i W E) as [Hn Hs]. rewrite Hn, rowsum_nil, IHL1 by auto. ring.
Qed.

Hypothesis Wsym : forall i j, nth j (nth i W []) zero = nth i (nth j W []) zero.
Hypothesis phisym : forall x z, phi x z = phi z x.

Lemma rowsum_colsum i x L2 : forall j, rowsum (nth i W []) j x L2 = colsum j L2 i x.
Proof. induction L2 as [|z L2 IH]; intros j; simpl; auto. rewrite IH, (Wsym i j), (phisym x z). reflexivity. Qed.
Lemma T_sym L1 : forall i j L2, T i L1 j L2 = T j L2 i L1.
Proof.
  induction L1 as [|x L1 IH]; intros i j L2; simpl.
  - rewrite T_nil_r. reflexivity.
  - rewrite T_cons_r, IH, rowsum_colsum. reflexivity.
Qed.

(* the loops of calculateKernelMatrixParameterDerivative on these numbers *)
Fixpoint rowS (bi : list X) (sx : nat) (pre : list (list X)) (sy : nat) (acc : A) : A :=
  match pre with
  | [] => add acc (T sx bi sy bi)
  | bj :: r => rowS bi sx r (sy + length bj) (add acc (mul twoA (T sx bi sy bj)))
  end.
Fixpoint loopS (pre rest : list (list X)) (sx : nat) (acc : A) : A :=
  match rest with
  | [] => acc
  | bi :: rest' => loopS (pre ++ [bi]) rest' (sx + length bi) (rowS bi sx pre 0 acc)
  end.

Lemma rowS_spec bi sx pre : forall sy acc,
  rowS bi sx pre sy acc = add (add acc (mul twoA (T sx bi sy (concat pre)))) (T sx bi (sy + length (concat pre)) bi).
Proof.
  induction pre as [|bj pre IH]; intros sy acc; simpl.
  - rewrite T_nil_r, Nat.add_0_r. ring.
  - rewrite IH, T_app_r, app_length.
    replace (sy + length bj + length (concat pre))%nat with (sy + (length bj + length (concat pre)))%nat by lia. ring.
Qed.

Lemma loopS_spec rest : forall pre sx acc,
  sx = length (concat pre) -> acc = T 0 (concat pre) 0 (concat pre) ->
  loopS pre rest sx acc = T 0 (concat (pre ++ rest)) 0 (concat (pre ++ rest)).
Proof.
  induction rest as [|bi rest IH]; intros pre sx acc Hs Ha; simpl.
  - rewrite app_nil_r. auto.
  - rewrite (IH (pre ++ [bi]) (sx + length bi)%nat).
    + rewrite <- app_assoc. reflexivity.
    + rewrite concat_app, app_length. simpl. rewrite app_nil_r. lia.
    + rewrite rowS_spec, concat_app. simpl. rewrite app_nil_r.
      rewrite T_app_l, !T_app_r. simpl. subst sx acc.
      rewrite (T_sym (concat pre) 0 (length (concat pre)) bi). ring.
Qed.

(* the weighted kernel sum over a sub-matrix of W is such a double sum *)
Lemma inner_row r x L2 : forall j,
  lsumA (map (fun cz => mul (fst cz) (phi x (snd cz))) (combine (firstn (length L2) (skipn j r)) L2)) = rowsum r j x L2.
Proof.
  induction L2 as [|z L2 IH]; intros j; simpl; auto.
  destruct (skipn j r) as [|c t] eqn:E.
  - destruct (skipn_nil_nth zero j r E) as [Hn Hs]. rewrite Hn. simpl.
    specialize (IH (S j)). rewrite Hs, firstn_nil in IH. simpl in IH. rewrite <- IH. ring.
  - destruct (skipn_cons_nth zero j r c t E) as [Hn Hs]. simpl. rewrite Hn, <- (IH (S j)), Hs. reflexivity.
Qed.

Lemma wsumk_subm L1 : forall i j L2,
  wsumk A zero add mul phi (subm A W i (length L1) j (length L2)) L1 L2 = T i L1 j L2.
Proof.
  unfold wsumk, subm. induction L1 as [|x L1 IH]; intros i j L2; simpl; auto.
  destruct (skipn i W) as [|r t] eqn:E; simpl.
  - destruct (skipn_nil_nth [] i W E) as [Hn Hs]. rewrite Hn, rowsum_nil, T_beyond by auto. ring.
  - destruct (skipn_cons_nth [] i W r t E) as [Hn Hs]. rewrite Hn, inner_row. f_equal.
    rewrite <- (IH (S i) j L2), Hs. reflexivity.
Qed.
End Scalar.

(* ---------------------------------------------------------------- vectors *)
Lemma dot_zeros_r u n : dotA u (repeat zero n) = zero.
Proof. rewrite (dot_sym A zero one add mul sub div opp inv le OF). apply (dot_zeros A zero one add mul sub div opp inv le OF). Qed.

Lemma dot_ext u : forall v, length u = length v -> (forall w, length w = length u -> dotA u w = dotA v w) -> u = v.
Proof.
  induction u as [|a u IH]; destruct v as [|b v]; simpl; intros L H; try discriminate; auto. f_equal.
  - assert (Lw : length (one :: repeat zero (length u)) = S (length u)) by (simpl; rewrite repeat_length; auto).
    specialize (H _ Lw). simpl in H. rewrite !dot_zeros_r in H.
    replace a with (add (mul a one) zero) by ring. rewrite H. ring.
  - apply IH; [lia|]. intros w Lw.
    assert (Lw' : length (zero :: w) = S (length u)) by (simpl; lia).
    specialize (H _ Lw'). simpl in H.
    replace (dotA u w) with (add (mul a zero) (dotA u w)) by ring. rewrite H. ring.
Qed.

Section Vector.
Variable p : X -> X -> vec.
Variable m : nat.
Hypothesis plen : forall x z, length (p x z) = m.
(* C05Model.wpdv (there for vector inputs) for inputs of any type *)
Definition wpdvX (C : mat) (X1 X2 : list X) : vec :=
  vsumA m (map (fun xc => vsumA m (map (fun cz => vscaleA (fst cz) (p (fst xc) (snd cz))) (combine (snd xc) X2))) (combine X1 C)).
Notation wp := wpdvX.
Definition phiw (w : vec) : X -> X -> A := fun x z => dotA (p x z) w.

Lemma wpdv_length C X1 X2 : length (wp C X1 X2) = m.
Proof.
  unfold wpdvX. apply vsum_length. rewrite Forall_forall. intros v Hv. apply in_map_iff in Hv. destruct Hv as (xc & <- & _).
  apply vsum_length. rewrite Forall_forall. intros v Hv. apply in_map_iff in Hv. destruct Hv as (cz & <- & _).
  rewrite vscale_length. apply plen.
Qed.

Lemma dot_wpdv C X1 X2 w : dotA (wp C X1 X2) w = wsumk A zero add mul (phiw w) C X1 X2.
Proof.
  unfold wpdvX, wsumk. rewrite (dot_vsum A zero one add mul sub div opp inv le OF m).
  2:{ rewrite Forall_forall. intros v Hv. apply in_map_iff in Hv. destruct Hv as (xc & <- & _).
      apply vsum_length. rewrite Forall_forall. intros v Hv. apply in_map_iff in Hv. destruct Hv as (cz & <- & _).
      rewrite vscale_length. apply plen. }
  rewrite map_map. apply lsum_ext. intros xc _.
  rewrite (dot_vsum A zero one add mul sub div opp inv le OF m).
  2:{ rewrite Forall_forall. intros v Hv. apply in_map_iff in Hv. destruct Hv as (cz & <- & _).
      rewrite vscale_length. apply plen. }
  rewrite map_map. apply lsum_ext. intros cz _.
  rewrite (dot_vscale A zero one add mul sub div opp inv le OF). reflexivity.
Qed.

Variable W : mat.

Lemma kmpd_row_dot w bi sx pre : forall sy acc, length acc = m ->
  length (kmpd_row A one add mul X wp W bi sx pre sy acc) = m /\
  dotA (kmpd_row A one add mul X wp W bi sx pre sy acc) w = rowS (phiw w) W bi sx pre sy (dotA acc w).
Proof.
  induction pre as [|bj pre IH]; intros sy acc La; simpl.
  - split.
    + rewrite vadd_length; auto. rewrite wpdv_length. auto.
    + rewrite (dot_vadd A zero one add mul sub div opp inv le OF) by (rewrite wpdv_length; auto).
      rewrite dot_wpdv, wsumk_subm. reflexivity.
  - destruct (IH (sy + length bj)%nat
                 (vaddA acc (vscaleA twoA (wp (subm A W sx (length bi) sy (length bj)) bi bj)))) as [L D].
    { rewrite vadd_length; auto. rewrite vscale_length, wpdv_length. auto. }
    split; auto. rewrite D. f_equal.
    rewrite (dot_vadd A zero one add mul sub div opp inv le OF) by (rewrite vscale_length, wpdv_length; auto).
    rewrite (dot_vscale A zero one add mul sub div opp inv le OF), dot_wpdv, wsumk_subm. reflexivity.
Qed.

Lemma kmpd_loop_dot w rest : forall pre sx acc, length acc = m ->
  length (kmpd_loop A one add mul X wp W pre rest sx acc) = m /\
  dotA (kmpd_loop A one add mul X wp W pre rest sx acc) w = loopS (phiw w) W pre rest sx (dotA acc w).
Proof.
  induction rest as [|bi rest IH]; intros pre sx acc La; simpl; auto.
  destruct (kmpd_row_dot w bi sx pre 0 acc La) as [L D].
  destruct (IH (pre ++ [bi]) (sx + length bi)%nat _ L) as [L2 D2]. split; auto. rewrite D2, D. reflexivity.
Qed.

Definition square (n : nat) : Prop := length W = n /\ Forall (fun r => length r = n) W.

Lemma subm_full n : square n -> subm A W 0 n 0 n = W.
Proof.
  intros [L F]. unfold subm. simpl. rewrite <- L at 1. rewrite firstn_all.
  rewrite <- (map_id W) at 2. apply map_ext_in. intros r Hr. rewrite Forall_forall in F. rewrite <- (F r Hr). apply firstn_all.
Qed.

Hypothesis Wsym : forall i j, nth j (nth i W []) zero = nth i (nth j W []) zero.
Hypothesis psym : forall x z, p x z = p z x.

Theorem kmpd_correct (d : list (list X)) : square (length (concat d)) ->
  kmpd A zero one add mul X wp W m d = wp W (concat d) (concat d).
Proof.
  intros Sq. unfold kmpd.
  assert (L0 : length (repeat zero m) = m) by apply repeat_length.
  apply dot_ext.
  - destruct (kmpd_loop_dot [] d [] 0 (repeat zero m) L0) as [L _]. rewrite L, wpdv_length. reflexivity.
  - intros w _. destruct (kmpd_loop_dot w d [] 0 (repeat zero m) L0) as [_ D]. rewrite D.
    rewrite (loopS_spec (phiw w) W); auto.
    + simpl. rewrite dot_wpdv. rewrite <- (wsumk_subm (phiw w) W (concat d) 0 0 (concat d)). rewrite (subm_full _ Sq). reflexivity.
    + intros x z. unfold phiw. rewrite psym. reflexivity.
    + simpl. rewrite (dot_zeros A zero one add mul sub div opp inv le OF). reflexivity.
Qed.

Corollary kmpd_partition_invariant (d1 d2 : list (list X)) : square (length (concat d1)) -> concat d1 = concat d2 ->
  kmpd A zero one add mul X wp W m d1 = kmpd A zero one add mul X wp W m d2.
Proof. intros Sq E. rewrite !kmpd_correct; rewrite <- ?E; auto. Qed.

End Vector.
End OnX.

(* vector inputs: the routine of the kernel is C05Model.wpdv *)
Theorem kmpd_correct_vec (p : vec -> vec -> vec) (m : nat) (W : mat) (d : list (list vec)) :
  (forall x z, length (p x z) = m) ->
  (forall i j, nth j (nth i W []) zero = nth i (nth j W []) zero) -> (forall x z, p x z = p z x) ->
  square W (length (concat d)) ->
  kmpd A zero one add mul vec (wpdv A zero add mul m p) W m d = wpdv A zero add mul m p W (concat d) (concat d).
Proof. intros. apply (kmpd_correct vec p m); auto. Qed.

Corollary kmpd_partition_invariant_vec (p : vec -> vec -> vec) (m : nat) (W : mat) (d1 d2 : list (list vec)) :
  (forall x z, length (p x z) = m) ->
  (forall i j, nth j (nth i W []) zero = nth i (nth j W []) zero) -> (forall x z, p x z = p z x) ->
  square W (length (concat d1)) -> concat d1 = concat d2 ->
  kmpd A zero one add mul vec (wpdv A zero add mul m p) W m d1 = kmpd A zero one add mul vec (wpdv A zero add mul m p) W m d2.
Proof. intros. apply (kmpd_partition_invariant vec p m); auto. Qed.

(* the premises hold e.g. for the coded gamma-gradient of the Gaussian kernel *)
Lemma psym_gauss (expA : A -> A) g x z :
  p_one A (p_gauss A zero add mul sub opp expA g) x z = p_one A (p_gauss A zero add mul sub opp expA g) z x.
Proof.
  unfold p_one, p_gauss.
  rewrite (sym_gauss A zero one add mul sub div opp inv le expA OF g x z), (distsq_sym A zero one add mul sub div opp inv le OF x z).
  reflexivity.
Qed.
End BlocksProofs.

From Coq Require Import QArith Qcanon.
Example kmpd_hyps_example :
  let p := p_one Qc (p_gauss Qc (Q2Qc 0) Qcplus Qcmult Qcminus Qcopp (fun _ => 1%Qc) 1%Qc) in
  let W := [[1%Qc; Q2Qc 2]; [Q2Qc 2; Q2Qc 3]] in
  let d := [[[1%Qc]]; [[Q2Qc 2]]] in
  (forall x z, length (p x z) = 1%nat) /\
  (forall i j, nth j (nth i W []) (Q2Qc 0) = nth i (nth j W []) (Q2Qc 0)) /\ (forall x z, p x z = p z x) /\
  square Qc W (length (concat d)).
Proof.
  cbv zeta. split; [reflexivity|]. split; [|split].
  - intros [|[|[|i]]] [|[|[|j]]]; try reflexivity; simpl; destruct i; try destruct j; reflexivity.
  - intros x z. apply (psym_gauss Qc (Q2Qc 0) 1%Qc Qcplus Qcmult Qcminus Qcdiv Qcopp Qcinv Qcle Qc_ordfield).
  - split; [reflexivity|repeat constructor].
Qed.

