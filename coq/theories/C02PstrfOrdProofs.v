(* C02 — pivoted Cholesky, the statements that need the ORDER: the pivots met are non-increasing (max-diagonal rule), and at
   a stop with rank r < n every diagonal entry of the remaining Schur complement is <= eps.  Over the order laws listed
   in the section (they hold over Qc, see C02PstrfQProofs.v). *)
From Coq Require Import List Arith Bool Lia Field Permutation.
From SharkV Require Import C02Model C02Proofs C02BlkModel C02LUProofs C02PstrfModel C02PstrfProofs.
Import ListNotations.

Section PstrfOrd.
Variable A : Type.
Variable F : ops A.
Notation "0" := (fzero F) : F_scope.
Notation "1" := (fone F) : F_scope.
Infix "+" := (fadd F) : F_scope.
Infix "*" := (fmul F) : F_scope.
Infix "-" := (fsub F) : F_scope.
Infix "/" := (fdiv F) : F_scope.
Notation "- x" := (fopp F x) : F_scope.
Hypothesis Fth : field_theory (fzero F) (fone F) (fadd F) (fmul F) (fsub F) (fopp F) (fdiv F) (finv F) (@eq A).
Hypothesis feqb_spec : forall x y, feqb F x y = true <-> x = y.
Add Field FfieldPsO : Fth.
Local Open Scope F_scope.
Notation mat := (mat A).
Notation vec := (vec A).
Notation sumr := (sumr A F).
Notation sumr_ext := (sumr_ext A F).
Notation sumr_split := (sumr_split A F Fth).
Notation sumr_S := (sumr_S A F).
Notation sumr_empty := (sumr_empty A F).
Notation memo_eq := (memo_eq A F).
Notation memo2_eq := (memo2_eq A F).
Notation ps_inv := (ps_inv A F).
Notation ps_final := (ps_final A F).
Notation sq_ok := (sq_ok A F).

Variable eps : A.
Hypothesis eps_nonneg : fleb F 0 eps = true.

(* order laws: fltb x y is x < y, fleb x y is x <= y *)
Hypothesis lt_irrefl : forall x, fltb F x x = false.
Hypothesis lt_trans : forall x y z, fltb F y x = false -> fltb F y z = true -> fltb F z x = false.   (* x <= y < z -> x <= z *)
Hypothesis le_of_nlt : forall x y, fltb F y x = false -> fleb F x y = true.
Hypothesis le_trans : forall x y z, fleb F x y = true -> fleb F y z = true -> fleb F x z = true.
Hypothesis le_sub_sq : forall x y, fleb F (x - y * y) x = true.

(* std::max_element: no scanned entry is larger than the one returned *)
Lemma pmax_scan_max : forall (pv : vec) c k i, (c <= i <= c + k)%nat -> fltb F (pv (pmax_scan A F pv c k)) (pv i) = false.
Proof.
  intros pv c k. induction k; intros i Hi; cbn [pmax_scan].
  - replace i with c by lia. apply lt_irrefl.
  - destruct (fltb F (pv (pmax_scan A F pv c k)) (pv (c + S k)%nat)) eqn:Et.
    + destruct (Nat.eq_dec i (c + S k)) as [->|N]; [apply lt_irrefl|]. eapply lt_trans; [apply IHk; lia|exact Et].
    + destruct (Nat.eq_dec i (c + S k)) as [->|N]; [exact Et|]. apply IHk. lia.
Qed.

(* diagonal of the Schur complement after c columns *)
Definition schur (A0 M : mat) (P : pvec) (c i : nat) : A :=
  A0 (perm_of P 0 c i) (perm_of P 0 c i) - sumr 0 c (fun u => M i u * M i u).

Definition ord_inv (n c : nat) (A0 M : mat) (P : pvec) (piv : list A) : Prop :=
  (forall t, (S t < c)%nat -> fleb F (nth (S t) piv 0) (nth t piv 0) = true) /\
  (forall i, (0 < c)%nat -> (c <= i < n)%nat -> fleb F (schur A0 M P c i) (nth (c - 1) piv 0) = true).

Definition ord_final (n r : nat) (A0 L : mat) (P : pvec) (piv : list A) : Prop :=
  (forall t, (S t < r)%nat -> fleb F (nth (S t) piv 0) (nth t piv 0) = true) /\
  (forall i, (r <= i < n)%nat ->
     fleb F (A0 (perm_of P 0 n i) (perm_of P 0 n i) - sumr 0 r (fun u => L i u * L i u)) eps = true).

Lemma ord_inv_done : forall n A0 M P piv, ord_inv n n A0 M P piv -> ord_final n n A0 M P piv.
Proof. intros n A0 M P piv [H1 _]. split; [exact H1|intros; lia]. Qed.

(* ---------- one iteration ---------- *)
Lemma pstrf_step_ord : forall n k c A0 (M : mat) P pv piv, (k <= c < n)%nat ->
  ps_inv n k c A0 M P pv piv -> ord_inv n c A0 M P piv ->
  match pstrf_step A F n k c eps M P pv piv with
  | PsGo _ M' P' pv' piv' => sq_ok piv' -> ord_inv n (S c) A0 M' P' piv'
  | PsStop _ r M' P' piv' => ord_final n c A0 M' P' piv
  end.
Proof.
  intros n k c A0 M P pv piv [Hk Hc] (G & Pid & I1 & I2 & I3 & I4 & I5 & Lp & Sp) [O1 O2].
  set (pv1 := ps_pivots A F n k c M pv).
  set (p := pmax_scan A F pv1 c (n - 1 - c)).
  destruct (pstrf_step_spec A F eps n k c M P pv piv pv1 p Hc (Pid c (le_n c)) eq_refl eq_refl) as [Hp (M1 & P1 & pv2 & HM1 & HP1 & Hpv2e & Hstep)].
  assert (Hmax : forall i, (c <= i < n)%nat -> fltb F (pv1 p) (pv1 i) = false).
  { intros i Hi. unfold p. apply pmax_scan_max. lia. }
  clearbody p.
  set (tau := tr c p) in *.
  assert (Tlow : forall t, (t < c)%nat -> tau t = t) by (intros; apply tr_fix; lia).
  assert (Trng : forall i, (c <= i < n)%nat -> (c <= tau i < n)%nat) by (intros; apply tr_range; lia).
  assert (Tc : tau c = p) by (unfold tau, tr; rewrite Nat.eqb_refl; reflexivity).
  set (sg := perm_of P 0 c) in *.
  assert (Hsg : forall i, perm_of P1 0 (S c) i = sg (tau i)).
  { intros i. cbn [perm_of]. cbn [Nat.add]. rewrite (HP1 c), Nat.eqb_refl. fold tau.
    apply perm_of_ext. intros t Ht. rewrite HP1. destruct (Nat.eqb_spec t c); [lia|reflexivity]. }
  assert (Hpv1 : forall i, (c <= i < n)%nat -> pv1 i = M i i - sumr k c (fun u => M i u * M i u)).
  { intros i Hi. unfold pv1, ps_pivots. rewrite memo_eq. destruct (Nat.eqb_spec c k) as [E|E].
    - subst k. assert (E1 : Nat.leb c i = true) by (apply Nat.leb_le; lia).
      assert (E2 : Nat.ltb i n = true) by (apply Nat.ltb_lt; lia). rewrite E1, E2. cbn [andb].
      rewrite sumr_empty by lia. ring.
    - assert (E1 : Nat.leb c i = true) by (apply Nat.leb_le; lia).
      assert (E2 : Nat.ltb i n = true) by (apply Nat.ltb_lt; lia). rewrite E1, E2. cbn [andb].
      destruct I4 as [I4|[Hkc I4]]; [congruence|]. rewrite (I4 i Hi).
      destruct c as [|c']; [lia|]. replace (S c' - 1)%nat with c' by lia. rewrite (sumr_S k c') by lia. ring. }
  (* the candidate pivot values are the diagonal of the Schur complement after c columns *)
  assert (Hsch : forall i, (c <= i < n)%nat -> pv1 i = schur A0 M P c i).
  { intros i Hi. rewrite Hpv1 by exact Hi. unfold schur. fold sg. rewrite (I3 i i) by lia. fold sg.
    rewrite (sumr_split 0 k c) by lia. ring. }
  assert (Hpv2 : forall i, (c <= i < n)%nat -> pv2 i = schur A0 M P c (tau i)).
  { intros i Hi. rewrite Hpv2e. fold tau. apply Hsch. apply Trng. exact Hi. }
  assert (Hpv2' : forall i, (c <= i < n)%nat -> pv2 i = A0 (sg (tau i)) (sg (tau i)) - sumr 0 c (fun u => M1 i u * M1 i u)).
  { intros i Hi. rewrite Hpv2 by exact Hi. unfold schur. fold sg. f_equal. apply sumr_ext. intros u Hu.
    rewrite !HM1. fold tau. rewrite (Tlow u) by lia. reflexivity. }
  assert (Hmax2 : forall i, (c <= i < n)%nat -> fleb F (pv2 i) (pv2 c) = true).
  { intros i Hi. apply le_of_nlt. rewrite !Hpv2e. fold tau. rewrite Tc. apply Hmax. apply Trng. exact Hi. }
  assert (Hprev : (0 < c)%nat -> fleb F (pv2 c) (nth (c - 1) piv 0) = true).
  { intros H0. rewrite Hpv2 by lia. apply O2; [exact H0|]. apply Trng. lia. }
  rewrite Hstep. clear Hstep.
  destruct (fleb F (pv2 c) eps) eqn:Es.
  - (* stop *)
    set (Mz := memo2 A F n (ps_clear A F n c M1)).
    assert (Kz : forall i j, (j < c)%nat -> Mz i j = M1 i j).
    { intros i j H. unfold Mz. rewrite memo2_eq. unfold ps_clear. bdall; try lia; reflexivity. }
    clearbody Mz.
    assert (HP1id : forall t, (S c <= t)%nat -> P1 t = t).
    { intros t Ht. rewrite HP1. destruct (Nat.eqb_spec t c); [lia|]. apply Pid. lia. }
    split; [exact O1|]. intros i Hi.
    rewrite (perm_of_id_tail P1 (S c) n i) by (try lia; exact HP1id). rewrite Hsg.
    rewrite (sumr_ext 0 c _ (fun u => M1 i u * M1 i u)) by (intros u Hu; rewrite !Kz by lia; reflexivity).
    rewrite <- Hpv2' by exact Hi. eapply le_trans; [apply Hmax2; exact Hi|exact Es].
  - (* go on *)
    intros _. set (x := pv2 c) in *. set (d := fsqrt F x).
    set (M2 := memo2 A F n (ps_column A F n k c d M1)).
    assert (Ko : forall i j, (j < c)%nat -> i <> c -> M2 i j = M1 i j).
    { intros i j H1 H2. unfold M2. rewrite memo2_eq. unfold ps_column. destruct (Nat.eqb_spec j c); [lia|].
      destruct (Nat.eqb_spec i c); [contradiction|]. reflexivity. }
    clearbody M2.
    split.
    + intros t Ht. destruct (Nat.eq_dec (S t) c) as [E|N].
      * rewrite (app_nth2 piv [x]) by lia. rewrite Lp, E, Nat.sub_diag. cbn [nth].
        rewrite app_nth1 by lia. replace t with (c - 1)%nat by lia. apply Hprev. lia.
      * rewrite !app_nth1 by lia. apply O1. lia.
    + intros i _ Hi. replace (S c - 1)%nat with c by lia.
      rewrite (app_nth2 piv [x]) by lia. rewrite Lp, Nat.sub_diag. cbn [nth].
      unfold schur. rewrite Hsg. rewrite sumr_S by lia.
      rewrite (sumr_ext 0 c _ (fun u => M1 i u * M1 i u)) by (intros u Hu; rewrite !Ko by lia; reflexivity).
      assert (E : A0 (sg (tau i)) (sg (tau i)) - (sumr 0 c (fun u => M1 i u * M1 i u) + M2 i c * M2 i c) = pv2 i - M2 i c * M2 i c).
      { rewrite Hpv2' by lia. ring. }
      rewrite E. eapply le_trans; [apply le_sub_sq|]. apply Hmax2. lia.
Qed.

(* ---------- both invariants together through the loops ---------- *)
Definition inv2 (n k c : nat) (A0 M : mat) (P : pvec) (pv : vec) (piv : list A) : Prop :=
  ps_inv n k c A0 M P pv piv /\ ord_inv n c A0 M P piv.
Definition final2 (n r : nat) (A0 L : mat) (P : pvec) (piv : list A) : Prop :=
  ps_final n r A0 L P piv /\ ord_final n r A0 L P piv.
Notation res_piv := (res_piv A).
Notation sq_ok_prefix := (sq_ok_prefix A F).
Notation step_prefix := (step_prefix A F eps).
Notation panel_prefix := (panel_prefix A F eps).

Lemma pstrf_panel_inv2 : forall n k A0 (M : mat) P pv piv j, (k + j <= n)%nat -> inv2 n k k A0 M P pv piv ->
  match pstrf_panel A F n k eps j M P pv piv with
  | PsGo _ M' P' pv' piv' => sq_ok piv' -> inv2 n k (k + j) A0 M' P' pv' piv'
  | PsStop _ r M' P' piv' => sq_ok piv' -> final2 n r A0 M' P' piv'
  end.
Proof.
  intros n k A0 M P pv piv j. induction j; intros Hj H0.
  - cbn [pstrf_panel]. intros _. rewrite Nat.add_0_r. exact H0.
  - cbn [pstrf_panel]. specialize (IHj ltac:(lia) H0).
    destruct (pstrf_panel A F n k eps j M P pv piv) as [r M1 P1 piv1|M1 P1 pv1 piv1]; [exact IHj|].
    pose proof (fun S => pstrf_step_inv A F Fth eps eps_nonneg n k (k + j) A0 M1 P1 pv1 piv1 ltac:(lia) (proj1 (IHj S))) as St.
    pose proof (fun S => pstrf_step_ord n k (k + j) A0 M1 P1 pv1 piv1 ltac:(lia) (proj1 (IHj S)) (proj2 (IHj S))) as So.
    destruct (step_prefix n k (k + j) M1 P1 pv1 piv1) as [l Hl].
    destruct (pstrf_step A F n k (k + j) eps M1 P1 pv1 piv1) as [r M2 P2 piv2|M2 P2 pv2 piv2]; cbn [res_piv] in Hl; subst.
    + intros Hsq. pose proof (sq_ok_prefix _ _ Hsq) as Hs1. destruct (St Hs1) as [-> [E Fin]]. rewrite E. split; [exact Fin|].
      apply So. exact Hs1.
    + intros Hsq. pose proof (sq_ok_prefix _ _ Hsq) as Hs1. replace (k + S j)%nat with (S (k + j)) by lia.
      split; [apply St; assumption|apply So; assumption].
Qed.

Lemma ord_trailing_inv : forall n k e A0 (M : mat) P piv, ord_inv n e A0 M P piv -> ord_inv n e A0 (ps_trailing A F n k e M) P piv.
Proof.
  intros n k e A0 M P piv [O1 O2]. split; [exact O1|]. intros i H0 Hi. specialize (O2 i H0 Hi).
  unfold schur in *. rewrite (sumr_ext 0 e _ (fun u => M i u * M i u)); [exact O2|].
  intros u Hu. unfold ps_trailing. rewrite !memo2_eq.
  assert (E : Nat.ltb u e = true) by (apply Nat.ltb_lt; lia).
  destruct (Nat.leb_spec e u); [lia|]. rewrite !andb_false_r. reflexivity.
Qed.

Lemma pstrf_blk_inv2 : forall bs n A0 b, (0 < bs)%nat -> (b <= (n + bs - 1) / bs)%nat ->
  match pstrf_blk A F bs n eps b A0 (fun i => i) (fun _ => 0) [] with
  | PsGo _ M' P' pv' piv' => sq_ok piv' ->
      if Nat.ltb (b * bs) n then inv2 n (b * bs) (b * bs) A0 M' P' pv' piv' else final2 n n A0 M' P' piv'
  | PsStop _ r M' P' piv' => sq_ok piv' -> final2 n r A0 M' P' piv'
  end.
Proof.
  intros bs n A0 b Hbs. destruct (nblocks_facts bs n Hbs) as [Nb1 Nb2].
  assert (Oinit : forall P M, ord_inv n 0 A0 M P []) by (intros; split; intros; lia).
  induction b; intros Hb.
  - cbn [pstrf_blk]. intros _. cbn [Nat.mul]. destruct (Nat.ltb_spec 0 n).
    + split; [apply ps_inv_init; exact Fth|apply Oinit].
    + assert (n = 0)%nat by lia. subst n. split.
      * apply (ps_inv_done A F 0 0 A0 A0 (fun i => i) (fun _ => 0)). apply ps_inv_init. exact Fth.
      * apply ord_inv_done. apply Oinit.
  - cbn [pstrf_blk]. specialize (IHb ltac:(lia)).
    destruct (pstrf_blk A F bs n eps b A0 (fun i => i) (fun _ => 0) []) as [r M1 P1 piv1|M1 P1 pv1 piv1]; [exact IHb|].
    assert (Hbn : (b * bs < n)%nat) by (apply Nb2; lia).
    assert (El : Nat.ltb (b * bs) n = true) by (apply Nat.ltb_lt; exact Hbn). rewrite El in IHb.
    set (k := (b * bs)%nat) in *. set (cs := Nat.min (n - k) bs).
    pose proof (fun S => pstrf_panel_inv2 n k A0 M1 P1 pv1 piv1 cs ltac:(unfold cs; lia) (IHb S)) as Pan.
    destruct (panel_prefix n k cs M1 P1 pv1 piv1) as [l Hl].
    destruct (pstrf_panel A F n k eps cs M1 P1 pv1 piv1) as [r M2 P2 piv2|M2 P2 pv2 piv2]; cbn [res_piv] in Hl; subst piv2.
    + intros Hsq. apply Pan; [|exact Hsq]. exact (sq_ok_prefix _ _ Hsq).
    + intros Hsq. specialize (Pan (sq_ok_prefix _ _ Hsq) Hsq).
      replace (S b * bs)%nat with (k + bs)%nat by (unfold k; lia).
      destruct (Nat.ltb_spec (k + cs) n) as [Hlt|Hge].
      * assert (cs = bs) by (unfold cs in *; lia). rewrite H in *.
        assert (E2 : Nat.ltb (k + bs) n = true) by (apply Nat.ltb_lt; exact Hlt). rewrite E2.
        destruct Pan as [Pa Po]. split; [apply (ps_trailing_inv A F Fth); [lia|lia|exact Pa]|apply ord_trailing_inv; exact Po].
      * assert (k + cs = n)%nat by (unfold cs in *; lia). rewrite H in Pan.
        assert (E2 : Nat.ltb (k + bs) n = false) by (apply Nat.ltb_ge; unfold cs in *; lia). rewrite E2.
        destruct Pan as [Pa Po]. split; [eapply ps_inv_done; exact Pa|apply ord_inv_done; exact Po].
Qed.

(* ---------- pstrf<lower>(A, P): the order statements ---------- *)
Theorem pstrf_ordered : forall bs n (A0 L : mat) r P piv, (0 < bs)%nat ->
  pstrf A F bs n eps A0 = (r, L, P, piv) -> sq_ok piv ->
  (forall t, (S t < r)%nat -> fleb F (nth (S t) piv 0) (nth t piv 0) = true) /\
  (forall i, (r <= i < n)%nat ->
     fleb F (A0 (perm_of P 0 n i) (perm_of P 0 n i) - sumr 0 r (fun u => L i u * L i u)) eps = true).
Proof.
  intros bs n A0 L r P piv Hbs H Hsq. unfold pstrf in H.
  pose proof (pstrf_blk_inv2 bs n A0 ((n + bs - 1) / bs) Hbs (le_n _)) as B.
  destruct (pstrf_blk A F bs n eps ((n + bs - 1) / bs) A0 (fun i => i) (fun _ => 0) []) as [r1 M1 P1 piv1|M1 P1 pv1 piv1];
    inversion H; subst; clear H.
  - apply B. exact Hsq.
  - specialize (B Hsq). destruct (nblocks_facts bs r Hbs) as [Nb1 _].
    assert (E : Nat.ltb ((r + bs - 1) / bs * bs) r = false) by (apply Nat.ltb_ge; exact Nb1). rewrite E in B. apply B.
Qed.

End PstrfOrd.
