(* C04 — the layer kinds of C04Het.v satisfy the hypotheses of the concatenation theorems:
   k_rowwise (batch = single) and kind_ok (coded derivatives = adjoint of a tangent map) for
   PoolingLayer, ResizeLayer, NeuronLayer / LinearModel / Conv2DModel with an element-wise activation pair (phi, dphi).
   Any commutative ring, axiom-free. *)
From Coq Require Import List Arith Bool Lia Ring PeanoNat.
From SharkV Require Import C04Model C04Conv C04Pool C04Het C04Aux C04Proofs C04SumProofs C04ConvProofs C04ConvDerivProofs
  C04ConvThmProofs C04ConvDualProofs C04PoolProofs C04HetProofs.
Import ListNotations.

(* ---------------- shapes of batches built row by row ---------------- *)
Lemma rows_map {B E} n m (f : list B -> list E) (X : list (list B)) :
  (forall x, length x = n -> length (f x) = m) -> rows n X -> rows m (map f X).
Proof.
  intros H R. unfold rows in *. rewrite Forall_map. eapply Forall_impl; [|exact R]. intros x Hx. apply H; auto.
Qed.

Lemma rows_map2 {B1 B2 E} n1 n2 m (f : list B1 -> list B2 -> list E) X Y :
  (forall x y, length x = n1 -> length y = n2 -> length (f x y) = m) -> rows n1 X -> rows n2 Y -> rows m (map2 f X Y).
Proof.
  intros H. revert Y; induction X as [|x X IH]; intros [|y Y] RX RY; simpl; try constructor.
  - apply H; [exact (Forall_inv RX)|exact (Forall_inv RY)].
  - apply IH; [exact (Forall_inv_tail RX)|exact (Forall_inv_tail RY)].
Qed.

Lemma map2_length' {B1 B2 E} (f : B1 -> B2 -> E) X Y : length Y = length X -> length (map2 f X Y) = length X.
Proof. revert Y; induction X as [|x X IH]; intros [|y Y] L; simpl in *; try discriminate; auto. Qed.

Lemma map_fst_combine {B1 B2} (u : list B1) (v : list B2) : length v = length u -> map fst (combine u v) = u.
Proof. revert v; induction u as [|x u IH]; intros [|y v] L; simpl in *; try discriminate; auto. f_equal; auto. Qed.
Lemma map_snd_combine {B1 B2} (u : list B1) (v : list B2) : length v = length u -> map snd (combine u v) = v.
Proof. revert v; induction u as [|x u IH]; intros [|y v] L; simpl in *; try discriminate; auto. f_equal; auto. Qed.

Lemma mapfst_map2_combine {B} n (X dX : list (list B)) :
  rows n X -> rows n dX -> length dX = length X -> map (map fst) (map2 (@combine B B) X dX) = X.
Proof.
  revert dX; induction X as [|x X IH]; intros [|dx dX] RX RD L; simpl in *; try discriminate; auto.
  rewrite map_fst_combine by (rewrite (Forall_inv RX), (Forall_inv RD); reflexivity).
  rewrite IH; auto; [exact (Forall_inv_tail RX)|exact (Forall_inv_tail RD)].
Qed.
Lemma mapsnd_map2_combine {B} n (X dX : list (list B)) :
  rows n X -> rows n dX -> length dX = length X -> map (map snd) (map2 (@combine B B) X dX) = dX.
Proof.
  revert dX; induction X as [|x X IH]; intros [|dx dX] RX RD L; simpl in *; try discriminate; auto.
  rewrite map_snd_combine by (rewrite (Forall_inv RX), (Forall_inv RD); reflexivity).
  rewrite IH; auto; [exact (Forall_inv_tail RX)|exact (Forall_inv_tail RD)].
Qed.

Section Kinds.
Variable A : Type.
Variables (zero one : A) (add mul sub : A -> A -> A) (opp : A -> A).
Hypothesis Rth : ring_theory zero one add mul sub opp eq.
Add Ring AringK : Rth.

Infix "+" := add : CA_scope.
Infix "*" := mul : CA_scope.
Local Open Scope CA_scope.
Notation getA := (get zero).
Notation bsumA := (bsum zero add).
Notation dotA := (dot zero add mul).
Notation frA := (fr A zero add mul).
Notation kind_okA := (kind_ok A zero add mul).

(* a batch tangent / derivative given image by image *)
Lemma fr_rowwise nin nout (f : list A -> list A -> list A) (gd : list A -> list A -> list A) (X dX C : list (list A)) :
  (forall x dx c, length x = nin -> length dx = nin -> length c = nout -> dotA c (f x dx) = dotA (gd x c) dx) ->
  rows nin X -> rows nin dX -> length dX = length X -> rows nout C -> length C = length X ->
  frA C (map2 f X dX) = frA (map2 gd X C) dX.
Proof.
  intros H. revert dX C; induction X as [|x X IH]; intros [|dx dX] [|c C] RX RD LD RC LC; simpl in *; try discriminate; auto.
  rewrite H; [|exact (Forall_inv RX)|exact (Forall_inv RD)|exact (Forall_inv RC)].
  rewrite IH; auto; [exact (Forall_inv_tail RX)|exact (Forall_inv_tail RD)|exact (Forall_inv_tail RC)].
Qed.

Lemma dot_nil_l (v : list A) : dotA [] v = zero.
Proof. reflexivity. Qed.

(* ---------------- PoolingLayer ---------------- *)
Variable ltb : A -> A -> bool.
(* the selection at the coded arg max of x (the directional derivative of max pooling wherever it is differentiable) *)
Definition pool_tan (g : pgeo) : tanmap A := fun _ _ X dX =>
  map2 (fun x dx => tab (pool_nout g) (fun q => getA dx (pool_amax zero ltb g x (q / pC g) (q mod pC g) * pC g + q mod pC g)%nat)) X dX.

Lemma pool_rowwise g : k_rowwise A (pool_kind zero add ltb g).
Proof. exists (fun _ x => pool_eval_img zero ltb g x). intros p X. reflexivity. Qed.

Theorem pool_kind_ok g : kind_okA (pool_kind zero add ltb g) (pool_tan g).
Proof.
  intros p dp X dX C Lp Ldp RX RD LD RC LC. cbn [pool_kind k_np k_nin k_nout k_eval k_wpd k_wid k_wd] in *.
  assert (WL : forall x c, length (pool_wid_img zero add ltb g x c) = pool_nin g).
  { intros x c. destruct (pool_wid_adjoint A zero one add mul sub opp Rth ltb g x c (zeros zero (pool_nin g))) as [L _]; auto.
    unfold zeros. apply repeat_length. }
  repeat split.
  - unfold pool_eval_batch. apply (rows_map (pool_nin g)); auto. intros; apply tab_length.
  - unfold pool_eval_batch. apply map_length.
  - unfold pool_tan. apply (rows_map2 (pool_nin g) (pool_nin g)); auto. intros; apply tab_length.
  - unfold pool_tan. apply map2_length'; auto.
  - unfold pool_wid. apply (rows_map2 (pool_nin g) (pool_nout g)); auto.
  - unfold pool_wid. apply map2_length'; auto.
  - destruct dp; [|discriminate]. cbn [dot].
    replace (zero + frA (pool_wid zero add ltb g X C) dX) with (frA (pool_wid zero add ltb g X C) dX) by ring.
    unfold pool_tan, pool_wid. apply (fr_rowwise (pool_nin g) (pool_nout g)); auto.
    intros x dx c Lx Ldx Lc.
    destruct (pool_wid_adjoint A zero one add mul sub opp Rth ltb g x c dx Ldx) as [_ D]. rewrite D.
    rewrite (dot_comm A zero one add mul sub opp Rth), (dot_tab_l A zero one add mul sub opp Rth).
    unfold pool_nout. rewrite (bsum_prod A zero one add mul sub opp Rth (pool_oh g * pool_ow g) (pC g)).
    apply bsum_ext; intros q Hq. apply bsum_ext; intros c0 Hc0.
    rewrite (dm_div q (pC g) c0 Hc0), (dm_mod q (pC g) c0 Hc0). ring.
Qed.

(* ---------------- ResizeLayer ---------------- *)
Variables (rsub rdiv : A -> A -> A) (ropp : A -> A) (ofnat : nat -> A) (floorn : A -> nat).
Notation resize_kindA := (resize_kind zero add mul rsub rdiv ropp ofnat floorn).
Definition resize_tan (g : rgeo) : tanmap A := fun _ _ _ dX => resize_eval_batch zero add mul rsub rdiv ropp ofnat floorn g dX.

Lemma resize_rowwise g : k_rowwise A (resize_kindA g).
Proof. exists (fun _ x => resize_eval_img zero add mul rsub rdiv ropp ofnat floorn g x). intros p X. reflexivity. Qed.

Theorem resize_kind_ok g : kind_okA (resize_kindA g) (resize_tan g).
Proof.
  intros p dp X dX C Lp Ldp RX RD LD RC LC. cbn [resize_kind k_np k_nin k_nout k_eval k_wpd k_wid k_wd] in *.
  assert (WA : forall c dx, length c = resize_nout g -> length dx = resize_nin g ->
             length (resize_wid_img zero add mul rsub rdiv ropp ofnat floorn g c) = resize_nin g /\
             dotA (resize_wid_img zero add mul rsub rdiv ropp ofnat floorn g c) dx =
             dotA c (resize_eval_img zero add mul rsub rdiv ropp ofnat floorn g dx)).
  { intros c dx Lc Ldx. apply (resize_wid_adjoint A zero one add mul sub opp Rth); auto. }
  repeat split.
  - unfold resize_eval_batch. apply (rows_map (resize_nin g)); auto. intros; apply tab_length.
  - unfold resize_eval_batch. apply map_length.
  - unfold resize_tan, resize_eval_batch. apply (rows_map (resize_nin g)); auto. intros; apply tab_length.
  - unfold resize_tan, resize_eval_batch. rewrite map_length. exact LD.
  - unfold resize_wid. apply (rows_map (resize_nout g)); auto. intros c Lc.
    destruct (WA c (zeros zero (resize_nin g)) Lc) as [L _]; auto. unfold zeros; apply repeat_length.
  - unfold resize_wid. rewrite map_length. exact LC.
  - destruct dp; [|discriminate]. cbn [dot].
    replace (zero + frA (resize_wid zero add mul rsub rdiv ropp ofnat floorn g C) dX)
      with (frA (resize_wid zero add mul rsub rdiv ropp ofnat floorn g C) dX) by ring.
    unfold resize_tan, resize_eval_batch, resize_wid. clear RX LC LD Lp Ldp.
    assert (LL : length C = length dX \/ True) by (right; exact I). clear LL.
    revert C RC. induction dX as [|dx dX IH]; intros [|c C] RC; simpl; auto.
    destruct (WA c dx (Forall_inv RC) (Forall_inv RD)) as [_ D]. rewrite D.
    rewrite IH; auto; [exact (Forall_inv_tail RD)|exact (Forall_inv_tail RC)].
Qed.

(* ---------------- NeuronLayer with an element-wise activation pair ---------------- *)
Definition neu_tan (phi dphi : A -> A) : tanmap A := fun _ _ X dX =>
  map2 (fun x dx => vmul mul (map dphi (map phi x)) dx) X dX.

Lemma neu_rowwise n (a : act A) : k_rowwise A (neu_kind n a).
Proof. exists (fun _ x => aphi a x). intros p X. reflexivity. Qed.

Theorem neu_kind_ok n (phi dphi : A -> A) : kind_okA (neu_kind n (ew_act mul phi dphi)) (neu_tan phi dphi).
Proof.
  intros p dp X dX C Lp Ldp RX RD LD RC LC. cbn [neu_kind k_np k_nin k_nout k_eval k_wpd k_wid k_wd] in *.
  repeat split.
  - unfold neu_eval. apply (rows_map n); auto. intros x Lx. cbn [aphi ew_act]. rewrite map_length. auto.
  - unfold neu_eval. apply map_length.
  - unfold neu_tan. apply (rows_map2 n n); auto. intros x dx Lx Ldx.
    rewrite (vmul_length A mul) by (rewrite !map_length; lia). rewrite !map_length. auto.
  - unfold neu_tan. apply map2_length'; auto.
  - unfold neu_wid. apply (rows_map2 n n); auto. intros x c Lx Lc. cbn [amul aphi ew_act].
    rewrite (map2_vmul A mul), (vmul_length A mul) by (rewrite !map_length; lia). auto.
  - unfold neu_wid. apply map2_length'; auto.
  - destruct dp; [|discriminate]. cbn [dot].
    replace (zero + frA (neu_wid (ew_act mul phi dphi) X C) dX) with (frA (neu_wid (ew_act mul phi dphi) X C) dX) by ring.
    unfold neu_tan, neu_wid. apply (fr_rowwise n n); auto.
    intros x dx c Lx Ldx Lc. cbn [amul aphi ew_act]. rewrite (map2_vmul A mul).
    apply (dot_vmul A zero one add mul sub opp Rth).
Qed.

(* ---------------- Conv2DModel with an element-wise activation pair ---------------- *)
Notation DA := (D A).
Notation dz := (dzero A zero).
Notation da := (dadd A add).
Notation dm := (dmul A add mul).
Notation F := (map (@fst A A)).
Notation S' := (map (@snd A A)).

Definition conv_tan (g : cgeo) (phi dphi : A -> A) : tanmap A := fun p dp X dX =>
  map S' (conv_eval_batch dz da dm (conv_set dz g (ew_act dm (phiD A mul phi dphi) (fun q => q)) (combine p dp))
                          (map2 (@combine A A) X dX)).

Lemma conv_rowwise g (a : act A) : geo_ok g -> k_rowwise A (conv_kind zero add mul g a).
Proof.
  intros G. exists (fun p x => aphi a (conv_pre_row A zero add mul (conv_set zero g a p) x)). intros p X.
  cbn [conv_kind k_eval]. set (m := conv_set zero g a p).
  apply nth_ext with (d := []) (d' := []).
  - unfold conv_eval_batch. rewrite !map_length. apply pre_batch_length.
  - intros r Hr. unfold conv_eval_batch in Hr. rewrite map_length, pre_batch_length in Hr.
    rewrite (eval_batch_row A zero add mul m X r G Hr). rewrite (nth_map_in _ X r [] []) by auto. reflexivity.
Qed.

Lemma conv_eval_rows {B} (z : B) (ad ml : B -> B -> B) (m : conv B) (h : B -> B) X :
  geo_ok (cg m) -> cact m = ew_act ml h (fun q => q) \/ (exists d, cact m = ew_act ml h d) ->
  rows (conv_nout (cg m)) (conv_eval_batch z ad ml m X) /\ length (conv_eval_batch z ad ml m X) = length X.
Proof.
  intros G Ha. assert (E : aphi (cact m) = map h) by (destruct Ha as [->|[d ->]]; reflexivity).
  unfold conv_eval_batch. rewrite E. split.
  - apply (rows_map (conv_nout (cg m))); [intros; rewrite map_length; auto|]. apply pre_batch_rows. exact G.
  - rewrite map_length. apply pre_batch_length.
Qed.

Theorem conv_kind_ok g (phi dphi : A -> A) : geo_ok g -> kind_okA (conv_kind zero add mul g (ew_act mul phi dphi)) (conv_tan g phi dphi).
Proof.
  intros G p dp X dX C Lp Ldp RX RD LD RC LC. cbn [conv_kind k_np k_nin k_nout k_eval k_wpd k_wid k_wd] in *.
  set (m := conv_set zero g (ew_act mul phi dphi) p).
  set (XD := map2 (@combine A A) X dX). set (tD := combine p dp).
  assert (LtD : length tD = conv_nparams g) by (unfold tD; rewrite combine_length; lia).
  assert (LXD : length XD = length X) by (unfold XD; apply map2_length'; auto).
  assert (RXD : rows (conv_nin g) XD).
  { unfold XD. apply (rows_map2 (conv_nin g) (conv_nin g)); auto. intros x y Lx Ly. rewrite combine_length. lia. }
  assert (EF : F tD = p) by (unfold tD; apply map_fst_combine; lia).
  assert (ES : S' tD = dp) by (unfold tD; apply map_snd_combine; lia).
  assert (EXF : map F XD = X) by (unfold XD; apply (mapfst_map2_combine (conv_nin g)); auto).
  assert (EXS : map S' XD = dX) by (unfold XD; apply (mapsnd_map2_combine (conv_nin g)); auto).
  destruct (conv_eval_rows zero add mul m phi X G) as [E1 E2]; [right; exists dphi; reflexivity|].
  destruct (conv_eval_rows dz da dm (conv_set dz g (ew_act dm (phiD A mul phi dphi) (fun q => q)) tD) (phiD A mul phi dphi) XD G) as [T1 T2];
    [left; reflexivity|].
  assert (LDl : length (conv_delta zero add mul m X C) = length X).
  { unfold conv_delta. rewrite map3_length; rewrite ?map_length, ?pre_batch_length; lia. }
  destruct (geo_bp_h g G) as (EH & _ & _). destruct (geo_bp_w g G) as (EW & _ & _).
  repeat split.
  - exact E1.
  - exact E2.
  - unfold conv_tan. fold tD XD. apply (rows_map (conv_nout g)); auto. intros; rewrite map_length; auto.
  - unfold conv_tan. fold tD XD. rewrite map_length. transitivity (length XD); [exact T2|exact LXD].
  - unfold conv_wid, conv_wid_d. change (cg m) with g.
    pose proof (kernel_rows A zero add mul (gF g) (gC g) (out_h g) (out_w g) (bp_h g) (bp_w g) (bpad_h g) (bpad_w g)
                  (conv_delta zero add mul m X C) (cbp m)) as KR.
    unfold bpad_h, bpad_w in *. rewrite EH, EW in KR. exact KR.
  - unfold conv_wid, conv_wid_d. rewrite kernel_length. exact LDl.
  - unfold conv_wpd. rewrite (wpd_d_split A zero add mul), app_length, (wgrad_length A zero add mul).
    unfold ograd. rewrite tab_length. reflexivity.
  - pose proof (conv_derivative_partial A zero one add mul sub opp Rth g phi dphi tD XD C G) as CP.
    cbv zeta in CP. rewrite EF, ES, EXF, EXS in CP. unfold conv_tan. fold tD XD. apply CP; auto; try lia; try exact LtD; try (transitivity (length X); [exact LC | symmetry; exact LXD]).
Qed.

(* ---------------- LinearModel with an element-wise activation pair ---------------- *)
Lemma chunk_map {B E} (f : B -> E) n m (l : list B) : map (map f) (chunk n m l) = chunk n m (map f l).
Proof. revert l; induction m; intros l; simpl; auto. rewrite IHm, firstn_map, skipn_map. reflexivity. Qed.

Definition lin_dlayer (nin nout : nat) (off : bool) (phi dphi : A -> A) (p dp : list A) : dlayer A :=
  {| dW := chunk nin nout (combine p dp);
     db := if off then firstn nout (skipn (nin * nout) (combine p dp)) else [];
     dphi_v := phi; dphi_d := dphi |}.
Definition lin_tan (nin nout : nat) (off : bool) (phi dphi : A -> A) : tanmap A := fun p dp X dX =>
  map S' (map (lin_eval dz da dm (up A add mul (lin_dlayer nin nout off phi dphi p dp))) (map2 (@combine A A) X dX)).

Lemma lin_rowwise nin nout off (a : act A) : k_rowwise A (lin_kind zero add mul nin nout off a).
Proof.
  exists (fun p x => lin_eval zero add mul (lin_set nin nout off a p) x). intros p X.
  cbn [lin_kind k_eval]. apply (lin_batch_is_map A zero one add mul sub opp Rth).
Qed.

Theorem lin_kind_ok nin nout off (phi dphi : A -> A) :
  kind_okA (lin_kind zero add mul nin nout off (ew_act mul phi dphi)) (lin_tan nin nout off phi dphi).
Proof.
  intros p dp X dX C Lp Ldp RX RD LD RC LC. cbn [lin_kind k_np k_nin k_nout k_eval k_wpd k_wid k_wd] in *.
  set (q := lin_dlayer nin nout off phi dphi p dp).
  set (XD := map2 (@combine A A) X dX).
  assert (Lc : length (combine p dp) = lin_nparams nin nout off) by (rewrite combine_length; lia).
  assert (WF : wf_dlayer A nin nout q).
  { unfold wf_dlayer, q, lin_dlayer; cbn [dW db]. split; [apply chunk_length|]. split.
    - apply chunk_rows. unfold lin_nparams in Lc. lia.
    - destruct off; [right|left; reflexivity]. rewrite firstn_length, skipn_length. unfold lin_nparams in Lc. lia. }
  assert (EV : val A mul q = lin_set nin nout off (ew_act mul phi dphi) p).
  { unfold val, q, lin_dlayer, lin_set; cbn [dW db dphi_v dphi_d]. f_equal.
    - rewrite chunk_map, map_fst_combine by lia. reflexivity.
    - destruct off; auto. rewrite <- firstn_map, <- skipn_map, map_fst_combine by lia. reflexivity. }
  assert (ET : tan A q = dp).
  { unfold tan, q, lin_dlayer; cbn [dW db].
    rewrite chunk_map, map_snd_combine by lia.
    destruct (param_roundtrip_linear A nin nout off (ew_act mul phi dphi) dp Ldp) as [E _].
    unfold lin_params, lin_set in E; cbn [lW lb] in E. rewrite <- E at 3. f_equal.
    destruct off; auto. rewrite <- firstn_map, <- skipn_map, map_snd_combine by lia. reflexivity. }
  assert (LXD : length XD = length X) by (unfold XD; apply map2_length'; auto).
  assert (RXD : rows nin XD).
  { unfold XD. apply (rows_map2 nin nin); auto. intros x y Lx Ly. rewrite combine_length. lia. }
  assert (EXF : map F XD = X) by (unfold XD; apply (mapfst_map2_combine nin); auto).
  assert (EXS : map S' XD = dX) by (unfold XD; apply (mapsnd_map2_combine nin); auto).
  rewrite <- EV.
  repeat split.
  - rewrite (lin_batch_is_map A zero one add mul sub opp Rth). apply (rows_map nin); auto.
    intros x _. apply (lin_eval_length A zero add mul q nin nout x WF).
  - rewrite (lin_batch_is_map A zero one add mul sub opp Rth). apply map_length.
  - unfold lin_tan. fold q XD. rewrite map_map. apply (rows_map nin); auto.
    intros x _. rewrite map_length. apply (lin_evalD_length A zero add mul nin nout q x WF).
  - unfold lin_tan. fold q XD. rewrite !map_length. exact LXD.
  - unfold lin_wid. apply Forall_forall. intros y Hy. apply in_map_iff in Hy. destruct Hy as (d & <- & _).
    apply (vm_length A zero add mul). destruct WF as (_ & R & _). cbn [val lW]. apply (rows_map_F A); auto.
  - unfold lin_wid. rewrite map_length. unfold lin_delta.
    clear - LC. revert C LC. induction X as [|x X IH]; intros [|c C] LC; simpl in *; try discriminate; auto.
  - rewrite (lin_wpd_length A zero add mul nin nout q X C WF RX RC), ET. exact Ldp.
  - pose proof (layer_batch_tangent A zero one add mul sub opp Rth nin nout q XD C WF RXD RC) as LT.
    cbv zeta in LT. rewrite EXF, EXS, ET in LT. unfold lin_tan. fold q XD. exact LT.
Qed.

End Kinds.
