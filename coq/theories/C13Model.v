(* C13 — Pareto dominance, non-dominated sorting, hypervolume: executable model (definitions only).
   Points are lists of Z (objective vectors, minimisation).  Everything here is total and
   extracts with ExtrOcamlBasic.

   Spec side (documented meaning):
     dominates, is_rank_assignment / rank_list, hv_box / hv_spec (unit-slice HSO recursion on the
     dimension: number of unit cells of the box [lo,ref) dominated by the set), contrib_spec,
     best_subset_hv.
   Mechanism side (as coded in /repo):
     dominance (ParetoDominance.h), fast_nds (FastNonDominatedSort.h),
     hv2d (HypervolumeCalculator2D.h), contrib2d_ref / contrib2d_noref + k-best selection
     (HypervolumeContribution2D.h). *)
From Coq Require Import List ZArith Lia Bool Arith.
From SharkV Require Import ListAux.
Import ListNotations.

Definition point := list Z.

(* ------------------------------------------------------------------------------------------ *)
(* dominance as coded: count the coordinates where lhs<rhs and where lhs>rhs *)
Inductive domrel := Incomparable | LhsDominates | RhsDominates | Equivalent.

Fixpoint count_lt (a b : point) : nat :=
  match a, b with
  | x :: a', y :: b' => (if (x <? y)%Z then 1 else 0) + count_lt a' b'
  | _, _ => 0
  end.

Definition dominance (a b : point) : domrel :=
  let l := count_lt a b in
  let r := count_lt b a in
  if 0 <? l then (if 0 <? r then Incomparable else LhsDominates)
  else (if 0 <? r then RhsDominates else Equivalent).

Definition domb (a b : point) : bool :=
  match dominance a b with LhsDominates => true | _ => false end.

(* component-wise definition (spec) *)
Definition leq_all (a b : point) : Prop := Forall2 Z.le a b.
Inductive lt_some : point -> point -> Prop :=
| lt_here x y a b : (x < y)%Z -> lt_some (x :: a) (y :: b)
| lt_there x y a b : lt_some a b -> lt_some (x :: a) (y :: b).
Definition dominates (a b : point) : Prop := leq_all a b /\ lt_some a b.

(* ------------------------------------------------------------------------------------------ *)
(* rank definition: rank p = 1 + max rank of the points dominating p (max of nothing = 0) *)
Definition dom_idx (S : list point) (p : point) : list nat :=
  filter (fun j => domb (nth j S []) p) (seq 0 (length S)).

Definition step_ranks (S : list point) (r : list nat) : list nat :=
  map (fun p => 1 + list_max (map (fun j => nth j r 0) (dom_idx S p))) S.

Definition is_rank_assignment (S : list point) (r : list nat) : Prop :=
  length r = length S /\
  forall i, i < length S ->
    nth i r 0 = 1 + list_max (map (fun j => nth j r 0) (dom_idx S (nth i S []))).

(* executable: iterate the defining equation |S| times from the all-zero assignment *)
Definition rank_list (S : list point) : list nat :=
  Nat.iter (length S) (step_ranks S) (map (fun _ => 0) S).

(* ------------------------------------------------------------------------------------------ *)
(* fastNonDominatedSort as coded: s[i] = points dominated by i, counts of dominating points,
   front peeling with decrement; ranks written when a count reaches zero. *)
Definition dominated_by (S : list point) (i : nat) : list nat :=
  filter (fun j => negb (i =? j) && domb (nth i S []) (nth j S [])) (seq 0 (length S)).
Definition ndominating (S : list point) (i : nat) : nat :=
  length (filter (fun j => negb (i =? j) &&
     match dominance (nth i S []) (nth j S []) with RhsDominates => true | _ => false end)
     (seq 0 (length S))).

Record fstate := { f_cnt : list nat; f_rk : list nat; f_next : list nat }.

Definition dec_one (fc : nat) (st : fstate) (j : nat) : fstate :=
  let c := pred (nth j (f_cnt st) 0) in
  let cnt' := upd j c (f_cnt st) in
  if c =? 0 then {| f_cnt := cnt'; f_rk := upd j fc (f_rk st); f_next := f_next st ++ [j] |}
  else {| f_cnt := cnt'; f_rk := f_rk st; f_next := f_next st |}.

Definition process_front (S : list point) (fc : nat) (front : list nat) (st : fstate) : fstate :=
  fold_left (fun st e => fold_left (dec_one fc) (dominated_by S e) st) front st.

Fixpoint peel (fuel : nat) (S : list point) (fc : nat) (front : list nat) (cnt rk : list nat) : list nat :=
  match fuel with
  | 0 => rk
  | Datatypes.S f =>
    match front with
    | [] => rk
    | _ => let st := process_front S fc front {| f_cnt := cnt; f_rk := rk; f_next := [] |} in
           peel f S (Datatypes.S fc) (f_next st) (f_cnt st) (f_rk st)
    end
  end.

Definition fast_nds (S : list point) : list nat :=
  let n := length S in
  let cnt := map (ndominating S) (seq 0 n) in
  let front := filter (fun i => nth i cnt 0 =? 0) (seq 0 n) in
  let rk := map (fun c => if c =? 0 then 1 else 0) cnt in
  peel (Datatypes.S n) S 2 front cnt rk.

(* ------------------------------------------------------------------------------------------ *)
(* hypervolume spec: unit-slice HSO recursion.  hv_box lo ref S = number of unit cells
   c in [lo,ref)^d with some p in S, p <= c component-wise (slicing the head objective first). *)
Local Open Scope Z_scope.

Fixpoint zsum_n (n : nat) (lo : Z) (f : Z -> Z) : Z :=
  match n with O => 0 | Datatypes.S n' => f lo + zsum_n n' (lo + 1) f end.
Definition zsum (lo hi : Z) (f : Z -> Z) : Z := zsum_n (Z.to_nat (hi - lo)) lo f.

Definition slice (z : Z) (S : list point) : list point :=
  flat_map (fun p => match p with x :: t => if x <=? z then [t] else [] | [] => [] end) S.

Fixpoint hv_box (lo : Z) (ref : point) (S : list point) : Z :=
  match ref with
  | [] => match S with [] => 0 | _ => 1 end
  | r :: ref' => zsum lo r (fun z => hv_box lo ref' (slice z S))
  end.

Definition min_coord (ref : point) (S : list point) : Z :=
  fold_right (fun p m => fold_right Z.min m p) (fold_right Z.min 0 ref) S.

(* the last objective is sliced first (HSO order used by the 2-D sweep) *)
Definition hv_spec (ref : point) (S : list point) : Z :=
  hv_box (min_coord ref S) (rev ref) (map (@rev Z) S).

(* ------------------------------------------------------------------------------------------ *)
(* HypervolumeCalculator2D as coded: sort by first objective (KeyValuePair compares keys only),
   first point opens the volume, later points add a slab when they improve the second objective *)
Fixpoint insert_x (p : Z * Z) (l : list (Z * Z)) : list (Z * Z) :=
  match l with
  | [] => [p]
  | q :: t => if fst p <=? fst q then p :: l else q :: insert_x p t
  end.
Definition sort_x (l : list (Z * Z)) : list (Z * Z) := fold_right insert_x [] l.

Definition sweep_step (r0 : Z) (st : Z * Z) (p : Z * Z) : Z * Z :=
  let d := snd st - snd p in
  if 0 <? d then (fst st + (r0 - fst p) * d, snd p) else st.

Definition hv2d_sweep (r0 r1 : Z) (L : list (Z * Z)) : Z :=
  match L with
  | [] => 0
  | p0 :: L' => fst (fold_left (sweep_step r0) L' ((r0 - fst p0) * (r1 - snd p0), snd p0))
  end.

Definition to_pair (p : point) : Z * Z :=
  match p with [x; y] => (x, y) | _ => (0, 0) end.

Definition hv2d (ref : point) (S : list point) : Z :=
  match ref with
  | [r0; r1] => hv2d_sweep r0 r1 (sort_x (map to_pair S))
  | _ => 0
  end.

(* ------------------------------------------------------------------------------------------ *)
(* HypervolumeContribution2D as coded *)
Definition ipoint := ((Z * Z) * nat)%type.
Definition lex_lt (a b : ipoint) : bool :=
  let '((x, y), _) := a in let '((x', y'), _) := b in
  if x <? x' then true else if x' <? x then false else y <? y'.
Fixpoint insert_lex (p : ipoint) (l : list ipoint) : list ipoint :=
  match l with
  | [] => [p]
  | q :: t => if lex_lt q p then q :: insert_lex p t else p :: l
  end.
Definition sort_lex (l : list ipoint) : list ipoint := fold_right insert_lex [] l.

(* contribution of every element that has a successor, given the f2 of its predecessor *)
Fixpoint contribs (prev_f2 : Z) (l : list ipoint) : list (Z * nat) :=
  match l with
  | ((x, y), i) :: t =>
    match t with
    | ((x', _), _) :: _ => ((x' - x) * (prev_f2 - y), i) :: contribs y t
    | [] => []
    end
  | [] => []
  end.

Definition indexed (S : list point) : list ipoint := combine (map to_pair S) (seq 0 (length S)).

(* overloads with reference point: sentinels (0,r1) and (r0,0) around the sorted points *)
Definition contrib2d_ref (ref : point) (S : list point) : list (Z * nat) :=
  match ref with
  | [r0; r1] => contribs r1 (sort_lex (indexed S) ++ [((r0, 0), Datatypes.S (length S))])
  | _ => []
  end.
(* overloads without reference point: first and last sorted point are never candidates *)
Definition contrib2d_noref (S : list point) : list (Z * nat) :=
  match sort_lex (indexed S) with
  | ((_, y0), _) :: t => contribs y0 t
  | [] => []
  end.

Fixpoint insert_z (v : Z) (l : list Z) : list Z :=
  match l with [] => [v] | w :: t => if v <=? w then v :: l else w :: insert_z v t end.
Definition sort_z (l : list Z) : list Z := fold_right insert_z [] l.
(* k best values; the coded heap buffer has k+1 default-initialised slots (0@0), so fewer than k
   candidates leave zero padding in the result *)
Definition pad_k (k : nat) (l : list Z) : list Z := firstn k (l ++ repeat 0 k).
Definition smallest_k (k : nat) (l : list Z) : list Z := pad_k k (firstn k (sort_z l)).
Definition largest_k (k : nat) (l : list Z) : list Z := pad_k k (firstn k (rev (sort_z l))).

(* ------------------------------------------------------------------------------------------ *)
(* spec of contributions and of subset selection *)
Fixpoint remove_nth {A} (i : nat) (l : list A) : list A :=
  match l with
  | [] => []
  | x :: t => match i with O => t | Datatypes.S i' => x :: remove_nth i' t end
  end.
Definition contrib_spec (ref : point) (S : list point) (i : nat) : Z :=
  hv_spec ref S - hv_spec ref (remove_nth i S).
Definition contribs_spec (ref : point) (S : list point) : list Z :=
  map (contrib_spec ref S) (seq 0 (length S)).

Fixpoint sublists_k {A} (k : nat) (l : list A) : list (list A) :=
  match k with
  | O => [[]]
  | Datatypes.S k' =>
    match l with
    | [] => []
    | x :: t => map (cons x) (sublists_k k' t) ++ sublists_k k t
    end
  end.
Definition best_subset_hv (k : nat) (ref : point) (S : list point) : Z :=
  fold_right Z.max 0 (map (hv_spec ref) (sublists_k k S)).

(* number of distinct mutually non-dominated points (size of the front the 2-D subset selection
   works on) *)
Definition nondominated (S : list point) : list point :=
  filter (fun p => negb (existsb (fun q => domb q p) S)) S.
Fixpoint dedup (l : list point) : list point :=
  match l with
  | [] => []
  | p :: t => if existsb (fun q => if list_eq_dec Z.eq_dec p q then true else false) t
              then dedup t else p :: dedup t
  end.
Definition front_size (S : list point) : nat := length (dedup (nondominated S)).
