(* C07 — degenerate geometry: the SMO step of SvmProblem::updateSMO with the curvature as an
   explicit argument.  Definitions only.

   [smo_pair cl gi gj d ai aj Ui Lj] is the scalar core of SvmProblem::updateSMO
   (include/shark/Algorithms/QP/SvmProblems.h): numerator g_i - g_j, denominator cl(d) where
   d = K_ii + K_jj - 2 K_ij is the curvature along e_i - e_j, the clipping branches as coded.
   The treatment [cl] of the curvature is a parameter:
     clamp_coded      std::max(denominator, 1.e-12)                     (the code)
     clamp_zero_only  if(denominator == 0.0) denominator = 1.e-12       (seeded change C07-7)
     no_clamp         the denominator as it is.
   With [clamp_coded] this IS the step of the solver model C08Model.smo_new (lemma
   smo_new_is_smo_pair in C07DegenerateProofs.v, by computation), which tools/c08.py runs next to the
   real solver step by step; so no separate tie is needed for [smo_pair].

   With a float kernel cache the entries K_ii, K_jj, K_ij are rounded separately, so for nearly identical
   points d can be slightly NEGATIVE although the kernel is positive definite: d ranges over all
   values in the theorems about this function. *)
From Coq Require Import Arith Bool.
From SharkV Require Import C08Model.

Section Degenerate.
Variable A : Type.
Variable O : ops A.
Local Notation zero := (o_zero O).
Local Notation add := (o_add O).
Local Notation sub := (o_sub O).
Local Notation div := (o_div O).
Local Notation ltb := (o_ltb O).
Local Notation eqb := (o_eqb O).
Local Notation thr := (o_thr O).

Definition clamp_coded (d : A) : A := maxA O d thr.
Definition clamp_zero_only (d : A) : A := if eqb d zero then thr else d.
Definition no_clamp (d : A) : A := d.

(* new alpha_i, new alpha_j, step actually taken *)
Definition smo_pair (cl : A -> A) (gi gj d ai aj Ui Lj : A) : A * A * A :=
  let num := sub gi gj in
  let den := cl d in
  let step := div num den in
  let ri := sub Ui ai in
  let rj := sub aj Lj in
  if negb (ltb step (minA O ri rj)) then             (* step >= min(Ui-ai, aj-Lj) *)
    if ltb rj ri then (add ai rj, Lj, rj)            (* Ui-ai > aj-Lj *)
    else if ltb ri rj then (Ui, sub aj ri, ri)       (* Ui-ai < aj-Lj *)
    else (Ui, Lj, ri)
  else (add ai step, sub aj step, step).

End Degenerate.

Arguments clamp_coded {A}. Arguments clamp_zero_only {A}. Arguments no_clamp {A}. Arguments smo_pair {A}.
