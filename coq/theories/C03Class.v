(* C03/C12 — grouping positions by a key (class label, fold number) is a permutation that is stable
   inside each group: used for repartitionByClass and the round-robin dealing of
   createCVSameSizeBalanced. *)
From Coq Require Import List Arith Lia Bool Permutation.
From SharkV Require Import ListAux C03Model C03Proofs C12Model.
Import ListNotations.

Section Group.
Variable g : nat -> nat.

Definition group_by (cs : list nat) (l : list nat) : list nat :=
  flat_map (fun c => filter (fun i => g i =? c) l) cs.

Lemma group_cons_notin x l cs :
  ~ In (g x) cs -> group_by cs (x :: l) = group_by cs l.
Proof.
  unfold group_by. induction cs as [|c cs IH]; intros H; cbn [flat_map filter]; auto.
  destruct (Nat.eqb_spec (g x) c) as [E|E]; [exfalso; apply H; left; auto|].
  f_equal. apply IH. intros Hin. apply H. right. auto.
Qed.

Lemma group_cons_in x l cs :
  NoDup cs -> In (g x) cs -> Permutation (group_by cs (x :: l)) (x :: group_by cs l).
Proof.
  induction cs as [|c cs IH]; intros ND Hin; [destruct Hin|].
  inversion ND as [|? ? Hn ND']; subst.
  change (group_by (c :: cs) (x :: l)) with (filter (fun i => g i =? c) (x :: l) ++ group_by cs (x :: l)).
  change (group_by (c :: cs) l) with (filter (fun i => g i =? c) l ++ group_by cs l).
  simpl filter. destruct (Nat.eqb_spec (g x) c) as [E|E].
  - rewrite group_cons_notin by (rewrite E; auto). reflexivity.
  - destruct Hin as [Hc|Hin]; [congruence|].
    rewrite (IH ND' Hin). apply Permutation_sym, Permutation_middle.
Qed.

Theorem group_by_perm cs l :
  NoDup cs -> (forall x, In x l -> In (g x) cs) -> Permutation (group_by cs l) l.
Proof.
  intros ND. induction l as [|x l IH]; intros H.
  - unfold group_by. clear. induction cs as [|c cs IHc]; simpl; auto.
  - rewrite group_cons_in; auto; [|apply H; left; auto].
    constructor. apply IH. intros y Hy. apply H. right. auto.
Qed.

(* every group keeps the original relative order of its members and holds exactly its key *)
Theorem group_by_keys cs l : forall x, In x (group_by cs l) -> In (g x) cs /\ In x l.
Proof.
  unfold group_by. intros x Hx. apply in_flat_map in Hx. destruct Hx as (c & Hc & Hf).
  apply filter_In in Hf. destruct Hf as [Hl E]. apply Nat.eqb_eq in E. subst. auto.
Qed.

End Group.

Lemma fold_max_ge ls x : In x ls -> x <= fold_right Nat.max 0 ls.
Proof. induction ls as [|y ls IH]; simpl; [tauto|]. intros [->|H]; [lia|]. apply IH in H. lia. Qed.

(* repartitionByClass: the gather index is a permutation of all positions ... *)
Theorem class_order_perm ls : Permutation (class_order ls) (seq 0 (length ls)).
Proof.
  unfold class_order. apply (group_by_perm (fun i => nth i ls 0)); [apply seq_NoDup|].
  intros i Hi. apply in_seq in Hi. apply in_seq. split; [lia|]. simpl.
  pose proof (fold_max_ge ls (nth i ls 0) ltac:(apply nth_In; lia)). lia.
Qed.

(* ... hence repartitionByClass keeps the multiset of (input,label) pairs, and the new label sequence
   is the old one read through that permutation *)
Theorem repartition_by_class_spec {I} (dI : I) m (d d' : labeled I nat) :
  repartition_by_class dI m d = Some d' ->
  nelems (inputs d) = nelems (labels d) ->
  let idx := class_order (elems (labels d)) in
  elems (inputs d') = map (fun i => nth i (elems (inputs d)) dI) idx /\
  elems (labels d') = map (fun i => nth i (elems (labels d)) 0) idx /\
  Permutation (elems (inputs d')) (elems (inputs d)) /\
  Permutation (elems (labels d')) (elems (labels d)) /\
  sizes (inputs d') = sizes (labels d').
Proof.
  unfold repartition_by_class. intros H Hn.
  destruct (batch_partitioning _ _ _) as [[st part]|]; [|discriminate].
  destruct (repartition part (inputs d)) as [a|] eqn:Ra; [|discriminate].
  destruct (repartition part (labels d)) as [b|] eqn:Rb; [|discriminate].
  destruct (reorder dI _ a) as [a'|] eqn:Oa; [|discriminate].
  destruct (reorder 0 _ b) as [b'|] eqn:Ob; [|discriminate].
  injection H as <-. simpl.
  destruct (repartition_spec _ _ _ Ra) as [Ea Sa]. destruct (repartition_spec _ _ _ Rb) as [Eb Sb].
  destruct (reorder_spec _ _ _ _ Oa) as [Ea' Sa']. destruct (reorder_spec _ _ _ _ Ob) as [Eb' Sb'].
  rewrite Ea in Ea'. rewrite Eb in Eb'.
  split; [exact Ea'|]. split; [exact Eb'|].
  pose proof (class_order_perm (elems (labels d))) as P.
  split; [|split].
  - rewrite Ea'. rewrite (Permutation_map _ P).
    unfold nelems in Hn. rewrite <- Hn. rewrite map_nth_seq. reflexivity.
  - rewrite Eb'. rewrite (Permutation_map _ P). rewrite map_nth_seq. reflexivity.
  - congruence.
Qed.

(* createCVSameSizeBalanced: dealing the (shuffled) members round-robin is a permutation *)
Theorem dealt_order_perm s k : 0 < k -> Permutation (dealt_order s k) s.
Proof.
  intros Hk. unfold dealt_order.
  assert (flat_map (fun p => map (fun t => nth t s 0) (filter (fun t => t mod k =? p) (seq 0 (length s)))) (seq 0 k)
          = map (fun t => nth t s 0) (group_by (fun t => t mod k) (seq 0 k) (seq 0 (length s)))) as ->.
  { unfold group_by. induction (seq 0 k) as [|c cs IH]; simpl; auto. rewrite map_app, IH. reflexivity. }
  rewrite (Permutation_map _ (group_by_perm (fun t => t mod k) (seq 0 k) (seq 0 (length s)) (seq_NoDup _ _)
             ltac:(intros x _; apply in_seq; pose proof (Nat.mod_upper_bound x k); lia))).
  rewrite map_nth_seq. reflexivity.
Qed.
