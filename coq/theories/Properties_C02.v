(* C02 — linear-system solvers and matrix decompositions satisfy their defining equations.
   Only statements + `exact`; proofs live in C02Proofs.v / C02CholBlkProofs.v / C02LUProofs.v / C02LURightProofs.v /
   C02BlkTotalProofs.v / C02QProofs.v, the executable model in C02Model.v and C02BlkModel.v (blocked potrf, getrf, LU solve).

   PROVED (for every size n, over every field given as a record of operations with `field_theory`; in
   particular over Qc, the instantiation the extracted model runs with — Section variables, no axioms):
     * the four substitution loops of kernels/default/trsv.hpp (lower/upper x dot/axpy form, Unit flag), left and
       right side: the result satisfies T x = b (x T = b) EXACTLY, T = the named triangle of the stored matrix;
       a non-zero (or unit) diagonal always yields a result; a zero pivot is reported, never divided by;
     * the blocked recursion of kernels/default/trsm.hpp for every block size > 0 (column by column), left and
       right (right via the transposition the code performs);
     * the unblocked Cholesky kernels of kernels/default/potrf.hpp (left-looking lower, right-looking upper):
       success => L L^T = A (U^T U = A) on the stored triangle, non-zero diagonal (lower); the square root is
       required to be exact only on the pivots met (sqrt_exact_lower, sqrt_exact_upper), satisfiable over Q (ex_sqrt_exact);
       a reported failure names a non-positive pivot;
     * Cholesky solve = two triangular solves gives A x = b for the symmetric matrix whose lower triangle is stored;
     * inv(T) % v (solution operator applied to v) equals solve(T,v) (lower triangular case);
     * the BLOCKED Cholesky recursion potrf_recursive of kernels/default/potrf.hpp (split, trsm<upper,right>, syrk<false>,
       diagonal blocks by the left-looking kernel on a sub-range), for every size, every block size > 0 of potrf and of
       trsm: a successful run returns pointwise the factor the unblocked kernel returns on the whole matrix
       (C02_potrf_blocked_is_unblocked), hence L L^T = A, non-zero diagonal, upper triangle untouched
       (C02_potrf_blocked_correct); conversely it succeeds whenever the unblocked kernel does
       (C02_potrf_unblocked_implies_blocked), so the two fail on the same matrices;
     * the pivoted LU of kernels/default/getrf.hpp -- getrf_block (pivot search: a later row replaces the current pivot
       only if std::abs(A(i,j)) > std::abs(pivot_value), strictly; row swap inside the panel; division by the pivot;
       rank-one update), getrf_recursive (panel recursion, swap_rows of the other panel, trsm<unit_lower,left>, gemm,
       second swap_rows) and getrf, for every size and every block size > 0: on success P A = L U with L the
       unit lower and U the upper triangle of the returned matrix, every pivot-vector entry P(t) lies in [t,n), the
       row map it denotes is a permutation of 0..n-1, no pivot (diagonal of U) is zero (C02_getrf_PA_LU); getrf returns
       either that or the exception, the model's out-of-fuel result is unreachable (C02_getrf_no_exc);
       over the order/abs laws (section OrderedField; they hold over Qc, C02_Q_order_instance) additionally
       |L_ij| <= 1 (C02_getrf_multipliers_le_1), the pivot is an entry of largest absolute value of the remaining
       column and the first such (C02_pivot_rule), and the exception is thrown only at a column j whose entries in
       rows j..n-1 of the matrix left behind are all zero (C02_getrf_fail_zero_column; conversely a successful run
       has no zero pivot);
     * pivoting_lu_decomposition::solve(b,left) = swap_rows(P,b), trsv<unit_lower>, trsv<upper> returns x with
       A x = b and always returns (C02_lu_solve_correct, C02_lu_solve_total); solve(A,b,indefinite_full_rank,left) as a
       whole (C02_lu_solve_full_correct); solve(b,right) = trsv<upper,right>, trsv<unit_lower,right>,
       swap_rows_inverted(P,b) returns x with x A = b (C02_lu_solve_right_correct).
   ONLY COMPARED / MONITORED by tools/c02.py (no theorem): the value potrf returns on failure (the index is relative to
   the diagonal block that failed; compared with the model); the blocked
   potrf when the diagonal blocks use the right-looking kernel (column-major lower / row-major upper, n > 32: compared
   with the unblocked model, the factor being unique); pivoted Cholesky (pstrf) and the semi-definite least-squares
   solver; matrix right-hand sides of the LU class (the model applies the vector routine column by column / row by
   row; compared exactly); symmetric eigen-decomposition, conjugate gradient, Cholesky rank-one update, the OpenBLAS bindings, all floating-point rounding. *)
From Coq Require Import List Arith Bool Lia Field QArith Qcanon Permutation.
From SharkV Require Import C02Model C02Proofs C02Q C02QProofs C02BlkModel C02LUProofs C02CholBlkProofs C02BlkTotalProofs C02LURightProofs.
Local Close Scope Qc_scope. Local Close Scope Q_scope. Local Open Scope nat_scope.

Section AnyField.
Variable A : Type.
Variable F : ops A.
Hypothesis Fth : field_theory (fzero F) (fone F) (fadd F) (fmul F) (fsub F) (fopp F) (fdiv F) (finv F) (@eq A).
Hypothesis feqb_spec : forall x y, feqb F x y = true <-> x = y.
Hypothesis fleb_00 : fleb F (fzero F) (fzero F) = true.

Theorem C02_trsv_correct : forall upper unit o left (T : mat A) n b x,
  trsv A F upper unit o left T n b = Some x ->
  forall i, i < n -> (if left then mv A F n (tri A F upper unit T) x i else vm A F n x (tri A F upper unit T) i) = b i.
Proof. exact (trsv_correct A F Fth feqb_spec). Qed.

Theorem C02_trsv_total : forall upper unit o left (T : mat A) n b,
  diag_ok A F unit T 0 n -> exists x, trsv A F upper unit o left T n b = Some x.
Proof. exact (trsv_total A F feqb_spec). Qed.

Theorem C02_trsv_singular : forall upper o left (T : mat A) n b i,
  i < n -> T i i = fzero F -> trsv A F upper false o left T n b = None.
Proof. exact (trsv_singular A F Fth feqb_spec). Qed.

Theorem C02_trsm_left_correct : forall bs upper unit (T : mat A) n cols X, 0 < bs ->
  trsm A F bs upper unit true T n cols = Some X ->
  Forall2 (fun b x => forall i, i < n -> mv A F n (tri A F upper unit T) x i = b i) cols X.
Proof. exact (trsm_left_correct A F Fth feqb_spec). Qed.

Theorem C02_trsm_right_correct : forall bs upper unit (T : mat A) n rows X, 0 < bs ->
  trsm A F bs upper unit false T n rows = Some X ->
  Forall2 (fun b x => forall j, j < n -> vm A F n x (tri A F upper unit T) j = b j) rows X.
Proof. exact (trsm_right_correct A F Fth feqb_spec). Qed.

Theorem C02_potrf_lower_correct : forall n (M L : mat A), sqrt_exact_lower A F n n M ->
  potrf_lower A F n n M = POk A L ->
  (forall i c, c <= i < n -> sumr A F 0 (S c) (fun t => fmul F (L i t) (L c t)) = M i c) /\
  (forall c, c < n -> L c c <> fzero F) /\
  (forall i c, i < c -> L i c = M i c).
Proof. exact (potrf_lower_correct A F Fth fleb_00). Qed.

Theorem C02_potrf_upper_correct : forall n (M U : mat A), sqrt_exact_upper A F n n M ->
  potrf_upper A F n n M = POk A U ->
  (forall r c, r <= c < n -> sumr A F 0 (S r) (fun t => fmul F (U t r) (U t c)) = M r c) /\
  (forall r c, c < r -> U r c = M r c).
Proof. exact (potrf_upper_correct A F Fth feqb_spec). Qed.

Theorem C02_potrf_lower_fail : forall n k (M : mat A) j L, potrf_lower A F n k M = PFail A j L ->
  0 < j <= k /\ potrf_lower A F n (j - 1) M = POk A L /\ fleb F (pivot_lower A F (j - 1) L) (fzero F) = true.
Proof. exact (potrf_lower_fail A F). Qed.

Theorem C02_cholesky_solve_correct : forall n (M : mat A) b x, sqrt_exact_lower A F n n M ->
  chol_solve A F RowMajor M n b = Some x -> forall i, i < n -> mv A F n (symm_of_lower A M) x i = b i.
Proof. exact (cholesky_solve_correct A F Fth feqb_spec fleb_00). Qed.

Theorem C02_cholesky_solve_succeeds : forall n (M L : mat A) b, sqrt_exact_lower A F n n M ->
  potrf_lower A F n n M = POk A L -> exists x, chol_solve A F RowMajor M n b = Some x.
Proof. exact (cholesky_solve_succeeds A F Fth feqb_spec fleb_00). Qed.

(* full statement (every orientation of the factor, given any factor L with L L^T = A on the lower triangle) *)
Theorem C02_cholesky_solve_with_correct : forall o n (M L : mat A) b x,
  (forall i c, c <= i < n -> sumr A F 0 (S c) (fun t => fmul F (L i t) (L c t)) = M i c) ->
  chol_solve_with A F o L n b = Some x -> forall i, i < n -> mv A F n (symm_of_lower A M) x i = b i.
Proof. exact (cholesky_solve_with_correct A F Fth feqb_spec). Qed.

(* property text: "the explicit-inverse product form is equivalent to the solve call", for every tag.
   Proved for the lower-triangular tags only => _partial *)
Theorem C02_inv_prod_is_solve_partial : forall n unit (T : mat A) (X : nat -> vec A) v y, diag_ok A F unit T 0 n ->
  (forall k i, k < n -> i < n -> mv A F n (tri A F false unit T) (X k) i = unit_vec A F k i) ->
  (forall i, i < n -> mv A F n (tri A F false unit T) y i = v i) ->
  forall i, i < n -> sumr A F 0 n (fun k => fmul F (X k i) (v k)) = y i.
Proof. exact (inv_prod_is_solve_lower A F Fth). Qed.

(* ---- blocked Cholesky recursion (potrf_recursive, lower, diagonal blocks by the left-looking kernel) ---- *)
Theorem C02_potrf_blocked_is_unblocked : forall bs tbs fuel n (M L : mat A), 0 < bs -> 0 < tbs ->
  potrf_rec A F bs tbs fuel n 0 n M = BOk A L ->
  exists L', potrf_lower A F n n M = POk A L' /\ forall i c, L' i c = L i c.
Proof. exact (potrf_rec_unblocked A F Fth feqb_spec). Qed.

Theorem C02_potrf_blocked_correct : forall bs tbs fuel n (M L : mat A), 0 < bs -> 0 < tbs ->
  sqrt_exact_lower A F n n M -> potrf_rec A F bs tbs fuel n 0 n M = BOk A L ->
  (forall i c, c <= i < n -> sumr A F 0 (S c) (fun t => fmul F (L i t) (L c t)) = M i c) /\
  (forall c, c < n -> L c c <> fzero F) /\
  (forall i c, i < c -> L i c = M i c).
Proof. exact (potrf_rec_correct A F Fth feqb_spec fleb_00). Qed.

(* conversely (fuel = n, what the dispatcher passes): the blocked recursion succeeds whenever the unblocked kernel does *)
Theorem C02_potrf_unblocked_implies_blocked : forall bs tbs n (M L' : mat A), 0 < bs -> 0 < tbs ->
  sqrt_exact_lower A F n n M -> potrf_lower A F n n M = POk A L' ->
  exists L, potrf_rec A F bs tbs n n 0 n M = BOk A L /\ forall i c, L' i c = L i c.
Proof. exact (potrf_unblocked_rec_sq A F Fth feqb_spec fleb_00). Qed.

(* ---- pivoted LU (getrf_block / getrf_recursive / getrf), algebraic part ---- *)
Variable fabs : A -> A.

Theorem C02_getrf_PA_LU : forall bs tbs n (M0 LU : mat A) P, 0 < bs -> 0 < tbs ->
  getrf A F fabs bs tbs n M0 = LUOk A LU P ->
  (forall i c, i < n -> c < n ->
     sumr A F 0 n (fun t => fmul F (tri A F false true LU i t) (tri A F true false LU t c)) = M0 (perm_of P 0 n i) c) /\
  (forall t, t < n -> t <= P t < n) /\
  Permutation (map (perm_of P 0 n) (seq 0 n)) (seq 0 n) /\
  (forall c, c < n -> LU c c <> fzero F).
Proof. exact (getrf_PA_LU A F fabs Fth feqb_spec). Qed.

(* the model's third result (out of fuel / exception from trsm) is unreachable: getrf returns LUOk or LUFail *)
Theorem C02_getrf_no_exc : forall bs tbs n (M : mat A), 0 < bs -> 0 < tbs -> getrf A F fabs bs tbs n M <> LUExc A.
Proof. exact (getrf_no_exc A F fabs feqb_spec). Qed.

Theorem C02_lu_solve_correct : forall bs tbs n o (M0 LU : mat A) P b x, 0 < bs -> 0 < tbs ->
  getrf A F fabs bs tbs n M0 = LUOk A LU P -> lu_solve A F o LU P n b = Some x ->
  forall k, k < n -> mv A F n M0 x k = b k.
Proof. exact (lu_solve_correct_alg A F fabs Fth feqb_spec). Qed.

(* solve(b, right): trsv<upper,right>, trsv<unit_lower,right>, swap_rows_inverted(P,b) gives x A = b *)
Theorem C02_lu_solve_right_correct : forall bs tbs n o (M0 LU : mat A) P b x, 0 < bs -> 0 < tbs ->
  getrf A F fabs bs tbs n M0 = LUOk A LU P -> lu_solve_right A F o LU P n b = Some x ->
  forall c, c < n -> vm A F n x M0 c = b c.
Proof. exact (lu_solve_right_correct_alg A F fabs Fth feqb_spec). Qed.

Theorem C02_lu_solve_total : forall bs tbs n o (M0 LU : mat A) P b, 0 < bs -> 0 < tbs ->
  getrf A F fabs bs tbs n M0 = LUOk A LU P -> exists x, lu_solve A F o LU P n b = Some x.
Proof. exact (lu_solve_total_alg A F fabs Fth feqb_spec). Qed.

Theorem C02_lu_solve_full_correct : forall bs tbs n o (M0 : mat A) b x, 0 < bs -> 0 < tbs ->
  lu_solve_full A F fabs bs tbs o M0 n b = Some x -> forall k, k < n -> mv A F n M0 x k = b k.
Proof. exact (lu_solve_full_correct_alg A F fabs Fth feqb_spec). Qed.

(* ---- the pivot rule: order / absolute-value laws (fltb x y : x < y, fleb x y : x <= y, fabs : std::abs) ---- *)
Section OrderedField.
Hypothesis lt_irrefl : forall x, fltb F x x = false.
Hypothesis lt_trans : forall x y z, fltb F y x = false -> fltb F y z = true -> fltb F z x = false.
Hypothesis lt_le_trans : forall x y z, fltb F y x = false -> fltb F y z = true -> fltb F x z = true.
Hypothesis le_of_nlt : forall x y, fltb F y x = false -> fleb F x y = true.
Hypothesis le_mul_r : forall x y z, fleb F x y = true -> fltb F (fzero F) z = true -> fleb F (fmul F x z) (fmul F y z) = true.
Hypothesis abs_mul : forall x y, fabs (fmul F x y) = fmul F (fabs x) (fabs y).
Hypothesis abs_pos : forall x, x <> fzero F -> fltb F (fzero F) (fabs x) = true.
Hypothesis abs_0 : fabs (fzero F) = fzero F.

(* rows j .. j+k of column j scanned: no entry is larger in absolute value than the pivot, every earlier row is smaller *)
Theorem C02_pivot_rule : forall (M : mat A) j k pv p, pivot_scan A F fabs M j k = (pv, p) ->
  j <= p <= j + k /\ pv = M p j /\
  (forall i, j <= i <= j + k -> fltb F (fabs pv) (fabs (M i j)) = false) /\
  (forall i, j <= i < p -> fltb F (fabs (M i j)) (fabs pv) = true).
Proof.
  intros M j k pv p H. destruct (pivot_scan_loc A F fabs M j k pv p H) as [H1 H2].
  exact (conj H1 (conj H2 (conj (pivot_scan_max A F fabs lt_irrefl lt_trans M j k pv p H)
                                (pivot_scan_first A F fabs lt_irrefl lt_trans lt_le_trans M j k pv p H)))).
Qed.

Theorem C02_getrf_multipliers_le_1 : forall bs tbs n (M0 LU : mat A) P, 0 < bs -> 0 < tbs ->
  getrf A F fabs bs tbs n M0 = LUOk A LU P -> forall i c, c < i < n -> fleb F (fabs (LU i c)) (fone F) = true.
Proof.
  intros bs tbs n M0 LU P Hb Htb H.
  exact (proj2 (proj2 (proj2 (getrf_correct A F fabs Fth feqb_spec lt_irrefl lt_trans le_of_nlt le_mul_r abs_mul abs_pos bs tbs n M0 LU P Hb Htb H)))).
Qed.

Theorem C02_getrf_fail_zero_column : forall bs tbs n (M0 M' : mat A) j, 0 < bs ->
  getrf A F fabs bs tbs n M0 = LUFail A j M' -> j < n /\ forall i, j <= i < n -> M' i j = fzero F.
Proof. exact (getrf_fail_zero_column A F fabs feqb_spec lt_irrefl lt_trans abs_pos abs_0). Qed.
End OrderedField.
End AnyField.

Print Assumptions C02_trsv_correct.
Print Assumptions C02_trsv_total.
Print Assumptions C02_trsv_singular.
Print Assumptions C02_trsm_left_correct.
Print Assumptions C02_trsm_right_correct.
Print Assumptions C02_potrf_lower_correct.
Print Assumptions C02_potrf_upper_correct.
Print Assumptions C02_potrf_lower_fail.
Print Assumptions C02_cholesky_solve_correct.
Print Assumptions C02_cholesky_solve_succeeds.
Print Assumptions C02_cholesky_solve_with_correct.
Print Assumptions C02_inv_prod_is_solve_partial.
Print Assumptions C02_potrf_blocked_is_unblocked.
Print Assumptions C02_potrf_blocked_correct.
Print Assumptions C02_potrf_unblocked_implies_blocked.
Print Assumptions C02_getrf_no_exc.
Print Assumptions C02_getrf_PA_LU.
Print Assumptions C02_lu_solve_correct.
Print Assumptions C02_lu_solve_right_correct.
Print Assumptions C02_lu_solve_total.
Print Assumptions C02_lu_solve_full_correct.
Print Assumptions C02_pivot_rule.
Print Assumptions C02_getrf_multipliers_le_1.
Print Assumptions C02_getrf_fail_zero_column.

(* the rational instantiation the extracted model runs with satisfies the hypotheses of the section above *)
Theorem C02_Q_instance : forall sq,
  field_theory (fzero (qc_ops sq)) (fone (qc_ops sq)) (fadd (qc_ops sq)) (fmul (qc_ops sq))
    (fsub (qc_ops sq)) (fopp (qc_ops sq)) (fdiv (qc_ops sq)) (finv (qc_ops sq)) (@eq Qc) /\
  (forall x y, feqb (qc_ops sq) x y = true <-> x = y) /\
  fleb (qc_ops sq) (fzero (qc_ops sq)) (fzero (qc_ops sq)) = true.
Proof. intros sq. exact (conj (qc_field sq) (conj (qc_eqb_spec sq) (qc_leb_00 sq))). Qed.
Print Assumptions C02_Q_instance.

Theorem C02_Q_sqrt_hypothesis_satisfiable : sqrt_exact_lower Qc (qc_ops ex_sq) 2 2 ex_M.
Proof. exact ex_sqrt_exact. Qed.
Print Assumptions C02_Q_sqrt_hypothesis_satisfiable.

(* the order / absolute-value laws of section OrderedField hold over Qc with fabs = Qcabs *)
Theorem C02_Q_order_instance : forall sq,
  (forall x, fltb (qc_ops sq) x x = false) /\
  (forall x y z, fltb (qc_ops sq) y x = false -> fltb (qc_ops sq) y z = true -> fltb (qc_ops sq) z x = false) /\
  (forall x y z, fltb (qc_ops sq) y x = false -> fltb (qc_ops sq) y z = true -> fltb (qc_ops sq) x z = true) /\
  (forall x y, fltb (qc_ops sq) y x = false -> fleb (qc_ops sq) x y = true) /\
  (forall x y z, fleb (qc_ops sq) x y = true -> fltb (qc_ops sq) (fzero (qc_ops sq)) z = true ->
     fleb (qc_ops sq) (fmul (qc_ops sq) x z) (fmul (qc_ops sq) y z) = true) /\
  (forall x y, qc_abs (fmul (qc_ops sq) x y) = fmul (qc_ops sq) (qc_abs x) (qc_abs y)) /\
  (forall x, x <> fzero (qc_ops sq) -> fltb (qc_ops sq) (fzero (qc_ops sq)) (qc_abs x) = true) /\
  qc_abs (fzero (qc_ops sq)) = fzero (qc_ops sq).
Proof.
  intros sq. exact (conj (qc_lt_irrefl sq) (conj (qc_lt_trans sq) (conj (qc_lt_le_trans sq) (conj (qc_le_of_nlt sq)
    (conj (qc_le_mul_r sq) (conj (qc_abs_mul sq) (conj (qc_abs_pos sq) (qc_abs_0 sq)))))))).
Qed.
Print Assumptions C02_Q_order_instance.

(* the hypotheses "getrf ... = LUOk" / "LUFail" / "lu_solve_full ... = Some x" / "potrf_rec ... = BOk" are satisfiable:
   runs with block size 1 (so the recursion is exercised), with row exchanges and a tie *)
Theorem C02_Q_getrf_hypothesis_satisfiable :
  (exists LU P, getrf Qc (qc_ops ex_sq) qc_abs 1 1 3 ex_A3 = LUOk Qc LU P) /\
  (exists j M', getrf Qc (qc_ops ex_sq) qc_abs 1 1 2
     (of_rows Qc (qc_ops ex_sq) (cons (cons (qc_make 1 1) (cons (qc_make 2 1) nil)) (cons (cons (qc_make 2 1) (cons (qc_make 4 1) nil)) nil))) = LUFail Qc j M') /\
  (exists L, potrf_rec Qc (qc_ops ex_sq) 1 1 2 2 0 2 ex_M = BOk Qc L).
Proof. exact ex_blk_hypotheses_satisfiable. Qed.
Print Assumptions C02_Q_getrf_hypothesis_satisfiable.
