(* C02 — linear-system solvers and matrix decompositions satisfy their defining equations.
   Only statements + `exact`; proofs live in C02Proofs.v / C02QProofs.v, the executable model in C02Model.v.

   PROVED (for every size n, over every field given as a record of operations with `field_theory`; in
   particular over Qc, the instantiation the extracted model runs with — Section variables, no axioms):
     * the four substitution loops of kernels/default/trsv.hpp (lower/upper x dot/axpy form, Unit flag), left and
       right side: the result satisfies T x = b (x T = b) EXACTLY, T = the named triangle of the stored matrix;
       a non-zero (or unit) diagonal always yields a result; a zero pivot is reported, never divided by;
     * the blocked recursion of kernels/default/trsm.hpp for every block size > 0 (column by column), left and
       right (right via the transposition the code performs);
     * the unblocked Cholesky kernels of kernels/default/potrf.hpp (left-looking lower, right-looking upper):
       success => L L^T = A (U^T U = A) on the stored triangle, non-zero diagonal (lower); the square root is
       required to be exact only on the pivots met (sqrt_exact_lower, sqrt_exact_upper), satisfiable over Q (ex_sqrt_exact);
       a reported failure names a non-positive pivot;
     * Cholesky solve = two triangular solves gives A x = b for the symmetric matrix whose lower triangle is stored;
     * inv(T) % v (solution operator applied to v) equals solve(T,v) (lower triangular case).
   ONLY COMPARED / MONITORED by tools/c02.py (no theorem): the blocked potrf recursion (n > 32; its result is
   compared with the unblocked model, the factor being unique), column-major dispatch of potrf, pivoted Cholesky
   (pstrf) and the semi-definite least-squares solver, pivoted LU (getrf), symmetric eigen-decomposition,
   conjugate gradient, Cholesky rank-one update, the OpenBLAS bindings, all floating-point rounding. *)
From Coq Require Import List Arith Bool Lia Field QArith Qcanon.
From SharkV Require Import C02Model C02Proofs C02Q C02QProofs.
Local Close Scope Qc_scope. Local Close Scope Q_scope. Local Open Scope nat_scope.

Section AnyField.
Variable A : Type.
Variable F : ops A.
Hypothesis Fth : field_theory (fzero F) (fone F) (fadd F) (fmul F) (fsub F) (fopp F) (fdiv F) (finv F) (@eq A).
Hypothesis feqb_spec : forall x y, feqb F x y = true <-> x = y.
Hypothesis fleb_00 : fleb F (fzero F) (fzero F) = true.

Theorem C02_trsv_correct : forall upper unit o left (T : mat A) n b x,
  trsv A F upper unit o left T n b = Some x ->
  forall i, i < n -> (if left then mv A F n (tri A F upper unit T) x i else vm A F n x (tri A F upper unit T) i) = b i.
Proof. exact (trsv_correct A F Fth feqb_spec). Qed.

Theorem C02_trsv_total : forall upper unit o left (T : mat A) n b,
  diag_ok A F unit T 0 n -> exists x, trsv A F upper unit o left T n b = Some x.
Proof. exact (trsv_total A F feqb_spec). Qed.

Theorem C02_trsv_singular : forall upper o left (T : mat A) n b i,
  i < n -> T i i = fzero F -> trsv A F upper false o left T n b = None.
Proof. exact (trsv_singular A F Fth feqb_spec). Qed.

Theorem C02_trsm_left_correct : forall bs upper unit (T : mat A) n cols X, 0 < bs ->
  trsm A F bs upper unit true T n cols = Some X ->
  Forall2 (fun b x => forall i, i < n -> mv A F n (tri A F upper unit T) x i = b i) cols X.
Proof. exact (trsm_left_correct A F Fth feqb_spec). Qed.

Theorem C02_trsm_right_correct : forall bs upper unit (T : mat A) n rows X, 0 < bs ->
  trsm A F bs upper unit false T n rows = Some X ->
  Forall2 (fun b x => forall j, j < n -> vm A F n x (tri A F upper unit T) j = b j) rows X.
Proof. exact (trsm_right_correct A F Fth feqb_spec). Qed.

Theorem C02_potrf_lower_correct : forall n (M L : mat A), sqrt_exact_lower A F n n M ->
  potrf_lower A F n n M = POk A L ->
  (forall i c, c <= i < n -> sumr A F 0 (S c) (fun t => fmul F (L i t) (L c t)) = M i c) /\
  (forall c, c < n -> L c c <> fzero F) /\
  (forall i c, i < c -> L i c = M i c).
Proof. exact (potrf_lower_correct A F Fth fleb_00). Qed.

Theorem C02_potrf_upper_correct : forall n (M U : mat A), sqrt_exact_upper A F n n M ->
  potrf_upper A F n n M = POk A U ->
  (forall r c, r <= c < n -> sumr A F 0 (S r) (fun t => fmul F (U t r) (U t c)) = M r c) /\
  (forall r c, c < r -> U r c = M r c).
Proof. exact (potrf_upper_correct A F Fth feqb_spec). Qed.

Theorem C02_potrf_lower_fail : forall n k (M : mat A) j L, potrf_lower A F n k M = PFail A j L ->
  0 < j <= k /\ potrf_lower A F n (j - 1) M = POk A L /\ fleb F (pivot_lower A F (j - 1) L) (fzero F) = true.
Proof. exact (potrf_lower_fail A F). Qed.

Theorem C02_cholesky_solve_correct : forall n (M : mat A) b x, sqrt_exact_lower A F n n M ->
  chol_solve A F RowMajor M n b = Some x -> forall i, i < n -> mv A F n (symm_of_lower A M) x i = b i.
Proof. exact (cholesky_solve_correct A F Fth feqb_spec fleb_00). Qed.

Theorem C02_cholesky_solve_succeeds : forall n (M L : mat A) b, sqrt_exact_lower A F n n M ->
  potrf_lower A F n n M = POk A L -> exists x, chol_solve A F RowMajor M n b = Some x.
Proof. exact (cholesky_solve_succeeds A F Fth feqb_spec fleb_00). Qed.

(* full statement (every orientation of the factor, given any factor L with L L^T = A on the lower triangle) *)
Theorem C02_cholesky_solve_with_correct : forall o n (M L : mat A) b x,
  (forall i c, c <= i < n -> sumr A F 0 (S c) (fun t => fmul F (L i t) (L c t)) = M i c) ->
  chol_solve_with A F o L n b = Some x -> forall i, i < n -> mv A F n (symm_of_lower A M) x i = b i.
Proof. exact (cholesky_solve_with_correct A F Fth feqb_spec). Qed.

(* property text: "the explicit-inverse product form is equivalent to the solve call", for every tag.
   Proved for the lower-triangular tags only => _partial *)
Theorem C02_inv_prod_is_solve_partial : forall n unit (T : mat A) (X : nat -> vec A) v y, diag_ok A F unit T 0 n ->
  (forall k i, k < n -> i < n -> mv A F n (tri A F false unit T) (X k) i = unit_vec A F k i) ->
  (forall i, i < n -> mv A F n (tri A F false unit T) y i = v i) ->
  forall i, i < n -> sumr A F 0 n (fun k => fmul F (X k i) (v k)) = y i.
Proof. exact (inv_prod_is_solve_lower A F Fth). Qed.
End AnyField.

Print Assumptions C02_trsv_correct.
Print Assumptions C02_trsv_total.
Print Assumptions C02_trsv_singular.
Print Assumptions C02_trsm_left_correct.
Print Assumptions C02_trsm_right_correct.
Print Assumptions C02_potrf_lower_correct.
Print Assumptions C02_potrf_upper_correct.
Print Assumptions C02_potrf_lower_fail.
Print Assumptions C02_cholesky_solve_correct.
Print Assumptions C02_cholesky_solve_succeeds.
Print Assumptions C02_cholesky_solve_with_correct.
Print Assumptions C02_inv_prod_is_solve_partial.

(* the rational instantiation the extracted model runs with satisfies the hypotheses of the section above *)
Theorem C02_Q_instance : forall sq,
  field_theory (fzero (qc_ops sq)) (fone (qc_ops sq)) (fadd (qc_ops sq)) (fmul (qc_ops sq))
    (fsub (qc_ops sq)) (fopp (qc_ops sq)) (fdiv (qc_ops sq)) (finv (qc_ops sq)) (@eq Qc) /\
  (forall x y, feqb (qc_ops sq) x y = true <-> x = y) /\
  fleb (qc_ops sq) (fzero (qc_ops sq)) (fzero (qc_ops sq)) = true.
Proof. intros sq. exact (conj (qc_field sq) (conj (qc_eqb_spec sq) (qc_leb_00 sq))). Qed.
Print Assumptions C02_Q_instance.

Theorem C02_Q_sqrt_hypothesis_satisfiable : sqrt_exact_lower Qc (qc_ops ex_sq) 2 2 ex_M.
Proof. exact ex_sqrt_exact. Qed.
Print Assumptions C02_Q_sqrt_hypothesis_satisfiable.
