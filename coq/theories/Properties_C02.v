(* C02 — linear-system solvers and matrix decompositions satisfy their defining equations.
   Only statements + `exact`; proofs live in C02Proofs.v / C02CholBlkProofs.v / C02LUProofs.v / C02LURightProofs.v /
   C02BlkTotalProofs.v / C02QProofs.v, the executable model in C02Model.v and C02BlkModel.v (blocked potrf, getrf, LU solve);
   extension round: models C02PstrfModel.v, C02SemiModel.v, C02UpdModel.v, C02LUMatModel.v, C02RlModel.v, proofs
   C02PstrfProofs.v, C02PstrfOrdProofs.v, C02SemiProofs.v, C02UpdProofs.v, C02LUMatProofs.v, C02RlProofs.v, concrete runs
   over Qc (satisfiability of the hypotheses, order-law instances) in C02*QProofs.v.

   PROVED (for every size n, over every field given as a record of operations with `field_theory`; in
   particular over Qc, the instantiation the extracted model runs with — Section variables, no axioms):
     * the four substitution loops of kernels/default/trsv.hpp (lower/upper x dot/axpy form, Unit flag), left and
       right side: the result satisfies T x = b (x T = b) EXACTLY, T = the named triangle of the stored matrix;
       a non-zero (or unit) diagonal always yields a result; a zero pivot is reported, never divided by;
     * the blocked recursion of kernels/default/trsm.hpp for every block size > 0 (column by column), left and
       right (right via the transposition the code performs);
     * the unblocked Cholesky kernels of kernels/default/potrf.hpp (left-looking lower, right-looking upper):
       success => L L^T = A (U^T U = A) on the stored triangle, non-zero diagonal (lower); the square root is
       required to be exact only on the pivots met (sqrt_exact_lower, sqrt_exact_upper), satisfiable over Q (ex_sqrt_exact);
       a reported failure names a non-positive pivot;
     * Cholesky solve = two triangular solves gives A x = b for the symmetric matrix whose lower triangle is stored;
     * inv(T) % v (solution operator applied to v) equals solve(T,v) (lower triangular case);
     * the BLOCKED Cholesky recursion potrf_recursive of kernels/default/potrf.hpp (split, trsm<upper,right>, syrk<false>,
       diagonal blocks by the left-looking kernel on a sub-range), for every size, every block size > 0 of potrf and of
       trsm: a successful run returns pointwise the factor the unblocked kernel returns on the whole matrix
       (C02_potrf_blocked_is_unblocked), hence L L^T = A, non-zero diagonal, upper triangle untouched
       (C02_potrf_blocked_correct); conversely it succeeds whenever the unblocked kernel does
       (C02_potrf_unblocked_implies_blocked), so the two fail on the same matrices;
     * the pivoted LU of kernels/default/getrf.hpp -- getrf_block (pivot search: a later row replaces the current pivot
       only if std::abs(A(i,j)) > std::abs(pivot_value), strictly; row swap inside the panel; division by the pivot;
       rank-one update), getrf_recursive (panel recursion, swap_rows of the other panel, trsm<unit_lower,left>, gemm,
       second swap_rows) and getrf, for every size and every block size > 0: on success P A = L U with L the
       unit lower and U the upper triangle of the returned matrix, every pivot-vector entry P(t) lies in [t,n), the
       row map it denotes is a permutation of 0..n-1, no pivot (diagonal of U) is zero (C02_getrf_PA_LU); getrf returns
       either that or the exception, the model's out-of-fuel result is unreachable (C02_getrf_no_exc);
       over the order/abs laws (section OrderedField; they hold over Qc, C02_Q_order_instance) additionally
       |L_ij| <= 1 (C02_getrf_multipliers_le_1), the pivot is an entry of largest absolute value of the remaining
       column and the first such (C02_pivot_rule), and the exception is thrown only at a column j whose entries in
       rows j..n-1 of the matrix left behind are all zero (C02_getrf_fail_zero_column; conversely a successful run
       has no zero pivot);
     * pivoting_lu_decomposition::solve(b,left) = swap_rows(P,b), trsv<unit_lower>, trsv<upper> returns x with
       A x = b and always returns (C02_lu_solve_correct, C02_lu_solve_total); solve(A,b,indefinite_full_rank,left) as a
       whole (C02_lu_solve_full_correct); solve(b,right) = trsv<upper,right>, trsv<unit_lower,right>,
       swap_rows_inverted(P,b) returns x with x A = b (C02_lu_solve_right_correct).
     * EXTENSION (C02PstrfModel.v, C02PstrfProofs.v): the pivoted Cholesky kernels::pstrf<lower> of kernels/default/pstrf.hpp as
       repaired (stop test `pivot <= epsilon`) -- threshold, pivot values refreshed per block / updated per column,
       std::max_element (first largest), swap of rows AND columns of the whole matrix, lazy gemv update of the current
       column inside a block, clearing, and the blocked driver with the gemm update of the trailing square -- for every
       size, every block size > 0, every threshold eps >= 0, the square root exact on the pivots met (ghost list carried
       by the model's result; satisfiable over Q: C02_Q_pstrf_hypotheses_satisfiable): on return with rank r the pivot
       vector denotes a permutation, L L^T = P^T A P on all rows x the first r columns (lower part; every entry when A
       is symmetric, C02_pstrf_correct_symm), the cleared parts are zero, the diagonal is non-zero with squares = the
       pivots met, each pivot > eps (C02_pstrf_correct); over the order laws of section PstrfOrdered (they hold over Qc:
       C02_Q_order_instance, C02_Q_pstrf_order_instance) the pivots are non-increasing and at the stop every diagonal
       entry of the remaining Schur complement is <= eps (C02_pstrf_ordered).
     * EXTENSION (C02SemiModel.v, C02SemiProofs.v): symm_pos_semi_definite_solver (the symm_semi_pos_def path of solve):
       constructor (pstrf, then potrf of L^T L when the rank is not full) and solve(b) for a vector (swap_rows, rank 0 /
       full rank: two trsv / rank deficient: z = L^T b, two Cholesky solves, b = L z; swap_rows_inverted), every storage
       orientation, through the contracts of pstrf and potrf: for an exact factorisation of rank r the result satisfies
       A (A x - b) = 0 (C02_semi_solve_with_lsq), equals a solution of A x = b whenever b is in the range of A
       (C02_semi_solve_with_in_range; uses injectivity of L^T L), and the solve always returns
       (C02_semi_solve_with_total); for row-major storage the contracts are discharged by the pstrf and blocked-potrf
       theorems (C02_semi_solve_rowmajor).  "Exact factorisation" (zero Schur complement) is a hypothesis: it is what
       pstrf returns for a matrix of rank r in exact arithmetic when the stop fires at zero pivots.
     * EXTENSION (C02UpdModel.v, C02UpdProofs.v): cholesky_decomposition::update(alpha, beta, v) as coded (beta == 0 branch;
       column loop with Ljj, dj, wj, swj2, gamma, x, the `x <= 0` exception, beta_prime, the `gamma == 0` continue), over
       the abstract field with the square root exact on the values met: when it returns, L' L'^T = alpha L L^T +
       beta v v^T entry by entry (C02_chol_update_correct), the strict upper triangle is untouched
       (C02_chol_update_upper); over the order laws of section UpdateOrdered (they hold over Qc,
       C02_Q_update_order_instance) it returns for every beta >= 0 (C02_chol_update_returns).
     * EXTENSION (C02LUMatModel.v, C02LUMatProofs.v): pivoting_lu_decomposition::solve(B, left/right) with matrix right-hand
       sides through the blocked trsm (C02_lu_solve_m_correct).
     * EXTENSION (C02RlModel.v, C02RlProofs.v): the blocked potrf when the diagonal blocks are factorised by the RIGHT-LOOKING
       kernel (column-major lower / row-major upper; potrf_block(column_major,lower) = row-major upper kernel on the transposed
       window, inside potrf_recursive): success => L L^T = A (U^T U = A), pivots divided by are non-zero, other triangle
       untouched (C02_potrf_rl_blocked_correct, C02_potrf_rl_upper_row_correct); all four (triangle, storage) pairs are now
       compared through the blocked models (potrf_blocked2), incl. the return value and the matrix left behind on failure.
     * EXTENSION (C02CgModel.v, C02CgProofs.v, C02CgSpdProofs.v): the conjugate-gradient solver cg_solver::cg as coded (vector
       version with the start-vector test and the repaired return before the loop, matrix version column by column, stopping
       rule norm_inf(next_residual) < eps, iteration limit; the unbounded loop for maxit = 0 is modelled with fuel): for ANY
       matrix the maintained residual equals b - A x at every exit (C02_cg_vec_residual, C02_cg_col_residual), so whenever
       the routine returns through its stopping rule the true residual satisfies the coded threshold
       (C02_cg_*_stop_true_residual; component-wise C02_cg_vec_stop_pointwise); for definite matrices and eps > 0 no
       denominator met is zero (C02_cg_*_well_defined; over a formally real field, Qc instance C02_Q_cg_instance);
       for SYMMETRIC definite matrices the residuals of the loop are mutually orthogonal and the directions A-conjugate
       (C02_cg_orthogonal, the classical induction), more than n mutually orthogonal non-zero vectors do not exist in dimension
       n (linear dependence proved from scratch), hence with eps > 0 and maxit = 0 the routine returns through its stopping
       rule within n iterations in exact arithmetic (C02_cg_vec_terminates, C02_cg_col_terminates; C02CgConjProofs.v).
     * EXTENSION (C02SyevModel.v, C02SyevProofs.v), PARTIAL: kernels::syev is modelled as coded in full (tred2 reduction and
       accumulation, implicit QL with the 50-iteration exception, eigensort, normalisation) and compared on every run through
       the instantiation with doubles; PROVED is the Householder reduction step only: the reflector is orthogonal, produces the
       intended zero pattern, and the block update is the similarity P S P (C02_syev_reflector_orthogonal_partial,
       C02_syev_step_correct_partial, C02_syev_step_skip).  NOT proved: the composition over all rows with the accumulation
       phase (Q orthogonal, Q^T A Q tridiagonal -- checked by computation on a Qc instance, C02_Q_syev_instance), nothing about
       the QL iteration (convergence, eigenvalues).
   ONLY COMPARED / MONITORED by tools/c02.py (no theorem): the value potrf returns on failure (the index is relative to
   the diagonal block that failed; compared with the model); the semi-definite solver with MATRIX right-hand sides (trsm instead of
   trsv: the vector model is applied column by column / row by row and compared exactly) (for column-major storage the
   contract on the potrf of L^T L assumed by C02_semi_solve_with_lsq is what C02_potrf_rl_blocked_correct proves, but the two are
   not composed into one theorem); the QL phase and the global statements of the symmetric eigen-decomposition (Q D Q^T = A, Q^T Q = I: monitors at 1e-10), conjugate gradient in floating point beyond the 1e-9 comparison (no rounding-error analysis), the OpenBLAS bindings, all floating-point rounding. *)
From Coq Require Import List Arith Bool Lia Field QArith Qcanon Permutation.
From SharkV Require Import C02Model C02Proofs C02Q C02QProofs C02BlkModel C02LUProofs C02CholBlkProofs C02BlkTotalProofs C02LURightProofs.
From SharkV Require Import C02PstrfModel C02PstrfProofs C02PstrfOrdProofs C02PstrfQProofs C02SemiModel C02SemiProofs C02SemiQProofs C02UpdModel C02UpdProofs C02UpdQProofs C02LUMatModel C02LUMatProofs C02LUMatQProofs C02RlModel C02RlProofs C02RlQProofs.
From SharkV Require Import C02CgModel C02CgProofs C02CgSpdProofs C02CgConjProofs C02CgQProofs.
From SharkV Require Import C02SyevModel C02SyevProofs C02SyevQProofs.
Local Close Scope Qc_scope. Local Close Scope Q_scope. Local Open Scope nat_scope.

Section AnyField.
Variable A : Type.
Variable F : ops A.
Hypothesis Fth : field_theory (fzero F) (fone F) (fadd F) (fmul F) (fsub F) (fopp F) (fdiv F) (finv F) (@eq A).
Hypothesis feqb_spec : forall x y, feqb F x y = true <-> x = y.
Hypothesis fleb_00 : fleb F (fzero F) (fzero F) = true.

Theorem C02_trsv_correct : forall upper unit o left (T : mat A) n b x,
  trsv A F upper unit o left T n b = Some x ->
  forall i, i < n -> (if left then mv A F n (tri A F upper unit T) x i else vm A F n x (tri A F upper unit T) i) = b i.
Proof. exact (trsv_correct A F Fth feqb_spec). Qed.

Theorem C02_trsv_total : forall upper unit o left (T : mat A) n b,
  diag_ok A F unit T 0 n -> exists x, trsv A F upper unit o left T n b = Some x.
Proof. exact (trsv_total A F feqb_spec). Qed.

Theorem C02_trsv_singular : forall upper o left (T : mat A) n b i,
  i < n -> T i i = fzero F -> trsv A F upper false o left T n b = None.
Proof. exact (trsv_singular A F Fth feqb_spec). Qed.

Theorem C02_trsm_left_correct : forall bs upper unit (T : mat A) n cols X, 0 < bs ->
  trsm A F bs upper unit true T n cols = Some X ->
  Forall2 (fun b x => forall i, i < n -> mv A F n (tri A F upper unit T) x i = b i) cols X.
Proof. exact (trsm_left_correct A F Fth feqb_spec). Qed.

Theorem C02_trsm_right_correct : forall bs upper unit (T : mat A) n rows X, 0 < bs ->
  trsm A F bs upper unit false T n rows = Some X ->
  Forall2 (fun b x => forall j, j < n -> vm A F n x (tri A F upper unit T) j = b j) rows X.
Proof. exact (trsm_right_correct A F Fth feqb_spec). Qed.

Theorem C02_potrf_lower_correct : forall n (M L : mat A), sqrt_exact_lower A F n n M ->
  potrf_lower A F n n M = POk A L ->
  (forall i c, c <= i < n -> sumr A F 0 (S c) (fun t => fmul F (L i t) (L c t)) = M i c) /\
  (forall c, c < n -> L c c <> fzero F) /\
  (forall i c, i < c -> L i c = M i c).
Proof. exact (potrf_lower_correct A F Fth fleb_00). Qed.

Theorem C02_potrf_upper_correct : forall n (M U : mat A), sqrt_exact_upper A F n n M ->
  potrf_upper A F n n M = POk A U ->
  (forall r c, r <= c < n -> sumr A F 0 (S r) (fun t => fmul F (U t r) (U t c)) = M r c) /\
  (forall r c, c < r -> U r c = M r c).
Proof. exact (potrf_upper_correct A F Fth feqb_spec). Qed.

Theorem C02_potrf_lower_fail : forall n k (M : mat A) j L, potrf_lower A F n k M = PFail A j L ->
  0 < j <= k /\ potrf_lower A F n (j - 1) M = POk A L /\ fleb F (pivot_lower A F (j - 1) L) (fzero F) = true.
Proof. exact (potrf_lower_fail A F). Qed.

Theorem C02_cholesky_solve_correct : forall n (M : mat A) b x, sqrt_exact_lower A F n n M ->
  chol_solve A F RowMajor M n b = Some x -> forall i, i < n -> mv A F n (symm_of_lower A M) x i = b i.
Proof. exact (cholesky_solve_correct A F Fth feqb_spec fleb_00). Qed.

Theorem C02_cholesky_solve_succeeds : forall n (M L : mat A) b, sqrt_exact_lower A F n n M ->
  potrf_lower A F n n M = POk A L -> exists x, chol_solve A F RowMajor M n b = Some x.
Proof. exact (cholesky_solve_succeeds A F Fth feqb_spec fleb_00). Qed.

(* full statement (every orientation of the factor, given any factor L with L L^T = A on the lower triangle) *)
Theorem C02_cholesky_solve_with_correct : forall o n (M L : mat A) b x,
  (forall i c, c <= i < n -> sumr A F 0 (S c) (fun t => fmul F (L i t) (L c t)) = M i c) ->
  chol_solve_with A F o L n b = Some x -> forall i, i < n -> mv A F n (symm_of_lower A M) x i = b i.
Proof. exact (cholesky_solve_with_correct A F Fth feqb_spec). Qed.

(* property text: "the explicit-inverse product form is equivalent to the solve call", for every tag.
   Proved for the lower-triangular tags only => _partial *)
Theorem C02_inv_prod_is_solve_partial : forall n unit (T : mat A) (X : nat -> vec A) v y, diag_ok A F unit T 0 n ->
  (forall k i, k < n -> i < n -> mv A F n (tri A F false unit T) (X k) i = unit_vec A F k i) ->
  (forall i, i < n -> mv A F n (tri A F false unit T) y i = v i) ->
  forall i, i < n -> sumr A F 0 n (fun k => fmul F (X k i) (v k)) = y i.
Proof. exact (inv_prod_is_solve_lower A F Fth). Qed.

(* ---- blocked Cholesky recursion (potrf_recursive, lower, diagonal blocks by the left-looking kernel) ---- *)
Theorem C02_potrf_blocked_is_unblocked : forall bs tbs fuel n (M L : mat A), 0 < bs -> 0 < tbs ->
  potrf_rec A F bs tbs fuel n 0 n M = BOk A L ->
  exists L', potrf_lower A F n n M = POk A L' /\ forall i c, L' i c = L i c.
Proof. exact (potrf_rec_unblocked A F Fth feqb_spec). Qed.

Theorem C02_potrf_blocked_correct : forall bs tbs fuel n (M L : mat A), 0 < bs -> 0 < tbs ->
  sqrt_exact_lower A F n n M -> potrf_rec A F bs tbs fuel n 0 n M = BOk A L ->
  (forall i c, c <= i < n -> sumr A F 0 (S c) (fun t => fmul F (L i t) (L c t)) = M i c) /\
  (forall c, c < n -> L c c <> fzero F) /\
  (forall i c, i < c -> L i c = M i c).
Proof. exact (potrf_rec_correct A F Fth feqb_spec fleb_00). Qed.

(* conversely (fuel = n, what the dispatcher passes): the blocked recursion succeeds whenever the unblocked kernel does *)
Theorem C02_potrf_unblocked_implies_blocked : forall bs tbs n (M L' : mat A), 0 < bs -> 0 < tbs ->
  sqrt_exact_lower A F n n M -> potrf_lower A F n n M = POk A L' ->
  exists L, potrf_rec A F bs tbs n n 0 n M = BOk A L /\ forall i c, L' i c = L i c.
Proof. exact (potrf_unblocked_rec_sq A F Fth feqb_spec fleb_00). Qed.

(* ---- pivoted LU (getrf_block / getrf_recursive / getrf), algebraic part ---- *)
Variable fabs : A -> A.

Theorem C02_getrf_PA_LU : forall bs tbs n (M0 LU : mat A) P, 0 < bs -> 0 < tbs ->
  getrf A F fabs bs tbs n M0 = LUOk A LU P ->
  (forall i c, i < n -> c < n ->
     sumr A F 0 n (fun t => fmul F (tri A F false true LU i t) (tri A F true false LU t c)) = M0 (perm_of P 0 n i) c) /\
  (forall t, t < n -> t <= P t < n) /\
  Permutation (map (perm_of P 0 n) (seq 0 n)) (seq 0 n) /\
  (forall c, c < n -> LU c c <> fzero F).
Proof. exact (getrf_PA_LU A F fabs Fth feqb_spec). Qed.

(* the model's third result (out of fuel / exception from trsm) is unreachable: getrf returns LUOk or LUFail *)
Theorem C02_getrf_no_exc : forall bs tbs n (M : mat A), 0 < bs -> 0 < tbs -> getrf A F fabs bs tbs n M <> LUExc A.
Proof. exact (getrf_no_exc A F fabs feqb_spec). Qed.

Theorem C02_lu_solve_correct : forall bs tbs n o (M0 LU : mat A) P b x, 0 < bs -> 0 < tbs ->
  getrf A F fabs bs tbs n M0 = LUOk A LU P -> lu_solve A F o LU P n b = Some x ->
  forall k, k < n -> mv A F n M0 x k = b k.
Proof. exact (lu_solve_correct_alg A F fabs Fth feqb_spec). Qed.

(* solve(b, right): trsv<upper,right>, trsv<unit_lower,right>, swap_rows_inverted(P,b) gives x A = b *)
Theorem C02_lu_solve_right_correct : forall bs tbs n o (M0 LU : mat A) P b x, 0 < bs -> 0 < tbs ->
  getrf A F fabs bs tbs n M0 = LUOk A LU P -> lu_solve_right A F o LU P n b = Some x ->
  forall c, c < n -> vm A F n x M0 c = b c.
Proof. exact (lu_solve_right_correct_alg A F fabs Fth feqb_spec). Qed.

Theorem C02_lu_solve_total : forall bs tbs n o (M0 LU : mat A) P b, 0 < bs -> 0 < tbs ->
  getrf A F fabs bs tbs n M0 = LUOk A LU P -> exists x, lu_solve A F o LU P n b = Some x.
Proof. exact (lu_solve_total_alg A F fabs Fth feqb_spec). Qed.

Theorem C02_lu_solve_full_correct : forall bs tbs n o (M0 : mat A) b x, 0 < bs -> 0 < tbs ->
  lu_solve_full A F fabs bs tbs o M0 n b = Some x -> forall k, k < n -> mv A F n M0 x k = b k.
Proof. exact (lu_solve_full_correct_alg A F fabs Fth feqb_spec). Qed.

(* ---- the pivot rule: order / absolute-value laws (fltb x y : x < y, fleb x y : x <= y, fabs : std::abs) ---- *)
Section OrderedField.
Hypothesis lt_irrefl : forall x, fltb F x x = false.
Hypothesis lt_trans : forall x y z, fltb F y x = false -> fltb F y z = true -> fltb F z x = false.
Hypothesis lt_le_trans : forall x y z, fltb F y x = false -> fltb F y z = true -> fltb F x z = true.
Hypothesis le_of_nlt : forall x y, fltb F y x = false -> fleb F x y = true.
Hypothesis le_mul_r : forall x y z, fleb F x y = true -> fltb F (fzero F) z = true -> fleb F (fmul F x z) (fmul F y z) = true.
Hypothesis abs_mul : forall x y, fabs (fmul F x y) = fmul F (fabs x) (fabs y).
Hypothesis abs_pos : forall x, x <> fzero F -> fltb F (fzero F) (fabs x) = true.
Hypothesis abs_0 : fabs (fzero F) = fzero F.

(* rows j .. j+k of column j scanned: no entry is larger in absolute value than the pivot, every earlier row is smaller *)
Theorem C02_pivot_rule : forall (M : mat A) j k pv p, pivot_scan A F fabs M j k = (pv, p) ->
  j <= p <= j + k /\ pv = M p j /\
  (forall i, j <= i <= j + k -> fltb F (fabs pv) (fabs (M i j)) = false) /\
  (forall i, j <= i < p -> fltb F (fabs (M i j)) (fabs pv) = true).
Proof.
  intros M j k pv p H. destruct (pivot_scan_loc A F fabs M j k pv p H) as [H1 H2].
  exact (conj H1 (conj H2 (conj (pivot_scan_max A F fabs lt_irrefl lt_trans M j k pv p H)
                                (pivot_scan_first A F fabs lt_irrefl lt_trans lt_le_trans M j k pv p H)))).
Qed.

Theorem C02_getrf_multipliers_le_1 : forall bs tbs n (M0 LU : mat A) P, 0 < bs -> 0 < tbs ->
  getrf A F fabs bs tbs n M0 = LUOk A LU P -> forall i c, c < i < n -> fleb F (fabs (LU i c)) (fone F) = true.
Proof.
  intros bs tbs n M0 LU P Hb Htb H.
  exact (proj2 (proj2 (proj2 (getrf_correct A F fabs Fth feqb_spec lt_irrefl lt_trans le_of_nlt le_mul_r abs_mul abs_pos bs tbs n M0 LU P Hb Htb H)))).
Qed.

Theorem C02_getrf_fail_zero_column : forall bs tbs n (M0 M' : mat A) j, 0 < bs ->
  getrf A F fabs bs tbs n M0 = LUFail A j M' -> j < n /\ forall i, j <= i < n -> M' i j = fzero F.
Proof. exact (getrf_fail_zero_column A F fabs feqb_spec lt_irrefl lt_trans abs_pos abs_0). Qed.
End OrderedField.
End AnyField.

Print Assumptions C02_trsv_correct.
Print Assumptions C02_trsv_total.
Print Assumptions C02_trsv_singular.
Print Assumptions C02_trsm_left_correct.
Print Assumptions C02_trsm_right_correct.
Print Assumptions C02_potrf_lower_correct.
Print Assumptions C02_potrf_upper_correct.
Print Assumptions C02_potrf_lower_fail.
Print Assumptions C02_cholesky_solve_correct.
Print Assumptions C02_cholesky_solve_succeeds.
Print Assumptions C02_cholesky_solve_with_correct.
Print Assumptions C02_inv_prod_is_solve_partial.
Print Assumptions C02_potrf_blocked_is_unblocked.
Print Assumptions C02_potrf_blocked_correct.
Print Assumptions C02_potrf_unblocked_implies_blocked.
Print Assumptions C02_getrf_no_exc.
Print Assumptions C02_getrf_PA_LU.
Print Assumptions C02_lu_solve_correct.
Print Assumptions C02_lu_solve_right_correct.
Print Assumptions C02_lu_solve_total.
Print Assumptions C02_lu_solve_full_correct.
Print Assumptions C02_pivot_rule.
Print Assumptions C02_getrf_multipliers_le_1.
Print Assumptions C02_getrf_fail_zero_column.

(* the rational instantiation the extracted model runs with satisfies the hypotheses of the section above *)
Theorem C02_Q_instance : forall sq,
  field_theory (fzero (qc_ops sq)) (fone (qc_ops sq)) (fadd (qc_ops sq)) (fmul (qc_ops sq))
    (fsub (qc_ops sq)) (fopp (qc_ops sq)) (fdiv (qc_ops sq)) (finv (qc_ops sq)) (@eq Qc) /\
  (forall x y, feqb (qc_ops sq) x y = true <-> x = y) /\
  fleb (qc_ops sq) (fzero (qc_ops sq)) (fzero (qc_ops sq)) = true.
Proof. intros sq. exact (conj (qc_field sq) (conj (qc_eqb_spec sq) (qc_leb_00 sq))). Qed.
Print Assumptions C02_Q_instance.

Theorem C02_Q_sqrt_hypothesis_satisfiable : sqrt_exact_lower Qc (qc_ops ex_sq) 2 2 ex_M.
Proof. exact ex_sqrt_exact. Qed.
Print Assumptions C02_Q_sqrt_hypothesis_satisfiable.

(* the order / absolute-value laws of section OrderedField hold over Qc with fabs = Qcabs *)
Theorem C02_Q_order_instance : forall sq,
  (forall x, fltb (qc_ops sq) x x = false) /\
  (forall x y z, fltb (qc_ops sq) y x = false -> fltb (qc_ops sq) y z = true -> fltb (qc_ops sq) z x = false) /\
  (forall x y z, fltb (qc_ops sq) y x = false -> fltb (qc_ops sq) y z = true -> fltb (qc_ops sq) x z = true) /\
  (forall x y, fltb (qc_ops sq) y x = false -> fleb (qc_ops sq) x y = true) /\
  (forall x y z, fleb (qc_ops sq) x y = true -> fltb (qc_ops sq) (fzero (qc_ops sq)) z = true ->
     fleb (qc_ops sq) (fmul (qc_ops sq) x z) (fmul (qc_ops sq) y z) = true) /\
  (forall x y, qc_abs (fmul (qc_ops sq) x y) = fmul (qc_ops sq) (qc_abs x) (qc_abs y)) /\
  (forall x, x <> fzero (qc_ops sq) -> fltb (qc_ops sq) (fzero (qc_ops sq)) (qc_abs x) = true) /\
  qc_abs (fzero (qc_ops sq)) = fzero (qc_ops sq).
Proof.
  intros sq. exact (conj (qc_lt_irrefl sq) (conj (qc_lt_trans sq) (conj (qc_lt_le_trans sq) (conj (qc_le_of_nlt sq)
    (conj (qc_le_mul_r sq) (conj (qc_abs_mul sq) (conj (qc_abs_pos sq) (qc_abs_0 sq)))))))).
Qed.
Print Assumptions C02_Q_order_instance.

(* the hypotheses "getrf ... = LUOk" / "LUFail" / "lu_solve_full ... = Some x" / "potrf_rec ... = BOk" are satisfiable:
   runs with block size 1 (so the recursion is exercised), with row exchanges and a tie *)
Theorem C02_Q_getrf_hypothesis_satisfiable :
  (exists LU P, getrf Qc (qc_ops ex_sq) qc_abs 1 1 3 ex_A3 = LUOk Qc LU P) /\
  (exists j M', getrf Qc (qc_ops ex_sq) qc_abs 1 1 2
     (of_rows Qc (qc_ops ex_sq) (cons (cons (qc_make 1 1) (cons (qc_make 2 1) nil)) (cons (cons (qc_make 2 1) (cons (qc_make 4 1) nil)) nil))) = LUFail Qc j M') /\
  (exists L, potrf_rec Qc (qc_ops ex_sq) 1 1 2 2 0 2 ex_M = BOk Qc L).
Proof. exact ex_blk_hypotheses_satisfiable. Qed.
Print Assumptions C02_Q_getrf_hypothesis_satisfiable.

(* ================= extension: pivoted Cholesky  kernels::pstrf<lower>  (C02PstrfModel.v / C02PstrfProofs.v) ================= *)
Section Pstrf.
Variable A : Type.
Variable F : ops A.
Hypothesis Fth : field_theory (fzero F) (fone F) (fadd F) (fmul F) (fsub F) (fopp F) (fdiv F) (finv F) (@eq A).
Hypothesis feqb_spec : forall x y, feqb F x y = true <-> x = y.

(* On return with rank r (for every size n, every block size bs > 0, every threshold 0 <= eps; the square root exact on the
   pivots met): the pivot vector is a sequence of transpositions t <-> P(t) >= t, hence denotes a permutation s of 0..n-1;
   (L L^T)(i,t) = (P^T A P)(i,t) = A(s i, s t) for all rows i and the first r columns t <= i, the sum running over the r
   columns of L; rows t < r are zero right of the diagonal, the trailing (n-r) x (n-r) block is zero; the diagonal of the
   first r columns is non-zero, its squares are the pivots met, every one of them > eps (not <= eps). *)
Theorem C02_pstrf_correct : forall eps bs n (A0 L : mat A) r P piv, fleb F (fzero F) eps = true -> 0 < bs ->
  pstrf A F bs n eps A0 = (r, L, P, piv) -> sq_ok A F piv ->
  r <= n /\
  (forall t, t < n -> t <= P t < n) /\
  Permutation (map (perm_of P 0 n) (seq 0 n)) (seq 0 n) /\
  (forall i t, t < r -> t <= i < n ->
     sumr A F 0 r (fun u => fmul F (L i u) (L t u)) = A0 (perm_of P 0 n i) (perm_of P 0 n t)) /\
  (forall t u, t < r -> t < u < n -> L t u = fzero F) /\
  (forall i j, r <= i < n -> r <= j < n -> L i j = fzero F) /\
  (forall t, t < r -> L t t <> fzero F) /\
  length piv = r /\
  (forall t, t < r -> fmul F (L t t) (L t t) = nth t piv (fzero F) /\ fleb F (nth t piv (fzero F)) eps = false).
Proof. intros eps bs n A0 L r P piv He. exact (pstrf_spec A F Fth eps He bs n A0 L r P piv). Qed.

(* for a symmetric matrix: every entry of rows x first r columns -- in particular the leading r x r block of P^T A P is L L^T *)
Theorem C02_pstrf_correct_symm : forall eps bs n (A0 L : mat A) r P piv, fleb F (fzero F) eps = true -> 0 < bs ->
  pstrf A F bs n eps A0 = (r, L, P, piv) -> sq_ok A F piv -> (forall i j, A0 i j = A0 j i) ->
  forall i t, i < n -> t < r ->
  sumr A F 0 r (fun u => fmul F (L i u) (L t u)) = A0 (perm_of P 0 n i) (perm_of P 0 n t).
Proof. intros eps bs n A0 L r P piv He. exact (pstrf_spec_symm A F Fth eps He bs n A0 L r P piv). Qed.

(* over an ordered field (fltb x y : x < y, fleb x y : x <= y): the pivots met are non-increasing -- the max-diagonal rule --
   and at a stop with rank r every diagonal entry of the remaining Schur complement  A(s i, s i) - sum_{u<r} L(i,u)^2  is <= eps *)
Section PstrfOrdered.
Hypothesis lt_irrefl : forall x, fltb F x x = false.
Hypothesis lt_trans : forall x y z, fltb F y x = false -> fltb F y z = true -> fltb F z x = false.
Hypothesis le_of_nlt : forall x y, fltb F y x = false -> fleb F x y = true.
Hypothesis le_trans : forall x y z, fleb F x y = true -> fleb F y z = true -> fleb F x z = true.
Hypothesis le_sub_sq : forall x y, fleb F (fsub F x (fmul F y y)) x = true.
Theorem C02_pstrf_ordered : forall eps bs n (A0 L : mat A) r P piv, fleb F (fzero F) eps = true -> 0 < bs ->
  pstrf A F bs n eps A0 = (r, L, P, piv) -> sq_ok A F piv ->
  (forall t, S t < r -> fleb F (nth (S t) piv (fzero F)) (nth t piv (fzero F)) = true) /\
  (forall i, r <= i < n ->
     fleb F (fsub F (A0 (perm_of P 0 n i) (perm_of P 0 n i)) (sumr A F 0 r (fun u => fmul F (L i u) (L i u)))) eps = true).
Proof.
  intros eps bs n A0 L r P piv He.
  exact (pstrf_ordered A F Fth eps He lt_irrefl lt_trans le_of_nlt le_trans le_sub_sq bs n A0 L r P piv).
Qed.
End PstrfOrdered.
End Pstrf.
Print Assumptions C02_pstrf_correct.
Print Assumptions C02_pstrf_correct_symm.
Print Assumptions C02_pstrf_ordered.

(* the two order laws used above beyond those of C02_Q_order_instance hold over Qc *)
Theorem C02_Q_pstrf_order_instance : forall sq,
  (forall x y z, fleb (qc_ops sq) x y = true -> fleb (qc_ops sq) y z = true -> fleb (qc_ops sq) x z = true) /\
  (forall x y, fleb (qc_ops sq) (fsub (qc_ops sq) x (fmul (qc_ops sq) y y)) x = true).
Proof. intros sq. exact (conj (qc_le_trans sq) (qc_le_sub_sq sq)). Qed.
Print Assumptions C02_Q_pstrf_order_instance.

(* the hypotheses (0 <= eps for the threshold the code computes, exact square root on the pivots met) are satisfiable over Qc:
   a full-rank run with two swaps and a trailing update (block size 2, n = 3) and a rank-one run *)
Theorem C02_Q_pstrf_hypotheses_satisfiable :
  fleb ps_F (fzero ps_F) (pstrf_eps Qc ps_F qc_abs 3 ps_epsm ps_M3) = true /\
  (let '(_, _, _, piv) := pstrf_full Qc ps_F qc_abs 2 3 ps_epsm ps_M3 in sq_ok Qc ps_F piv) /\
  (let '(_, _, _, piv) := pstrf_full Qc ps_F qc_abs 2 3 ps_epsm ps_R1 in sq_ok Qc ps_F piv).
Proof. exact ex_pstrf_hypotheses_satisfiable. Qed.
Print Assumptions C02_Q_pstrf_hypotheses_satisfiable.

(* ================= extension: symm_pos_semi_definite_solver / solve(A,b,symm_semi_pos_def)  (C02SemiModel.v / C02SemiProofs.v) ================= *)
Section Semi.
Variable A : Type.
Variable F : ops A.
Hypothesis Fth : field_theory (fzero F) (fone F) (fadd F) (fmul F) (fsub F) (fopp F) (fdiv F) (finv F) (@eq A).
Hypothesis feqb_spec : forall x y, feqb F x y = true <-> x = y.
Hypothesis fleb_00 : fleb F (fzero F) (fzero F) = true.

(* solve(b) of the decomposition class, every storage orientation, given what the constructor computed THROUGH ITS CONTRACTS:
   P a pivot vector, L L^T = P^T A P exactly (rank r, zero Schur complement), rows of L zero right of the diagonal, and -- rank
   deficient case -- Lc a lower Cholesky factor of L^T L.  Then the result is a least-squares solution: A (A x - b) = 0. *)
Theorem C02_semi_solve_with_lsq : forall o n r (A0 L : mat A) P Lc b x, r <= n -> pgood P 0 n n ->
  (forall i j, i < n -> j < n -> sumr A F 0 r (fun u => fmul F (L i u) (L j u)) = A0 (perm_of P 0 n i) (perm_of P 0 n j)) ->
  (forall t u, t < r -> t < u < n -> L t u = fzero F) ->
  (0 < r < n -> chol_contract A F n r L Lc) ->
  semi_solve_with A F o n r L P Lc b = Some x ->
  forall i, i < n -> mv A F n A0 (fun k => fsub F (mv A F n A0 x k) (b k)) i = fzero F.
Proof. exact (semi_solve_with_lsq A F Fth feqb_spec). Qed.

(* ... and the exact solution when b is in the range of A (needs the non-zero diagonal of Lc) *)
Theorem C02_semi_solve_with_in_range : forall o n r (A0 L : mat A) P Lc b w x, r <= n -> pgood P 0 n n ->
  (forall i j, i < n -> j < n -> sumr A F 0 r (fun u => fmul F (L i u) (L j u)) = A0 (perm_of P 0 n i) (perm_of P 0 n j)) ->
  (forall t u, t < r -> t < u < n -> L t u = fzero F) ->
  (0 < r < n -> chol_contract A F n r L Lc /\ forall a, a < r -> Lc a a <> fzero F) ->
  (forall k, k < n -> b k = mv A F n A0 w k) ->
  semi_solve_with A F o n r L P Lc b = Some x ->
  forall i, i < n -> mv A F n A0 x i = b i.
Proof. exact (semi_solve_with_in_range A F Fth feqb_spec). Qed.

Theorem C02_semi_solve_with_total : forall o n r (L : mat A) P Lc b,
  (r = n -> forall t, t < n -> L t t <> fzero F) -> (0 < r < n -> forall a, a < r -> Lc a a <> fzero F) -> r <= n ->
  exists x, semi_solve_with A F o n r L P Lc b = Some x.
Proof. exact (semi_solve_with_total A F feqb_spec). Qed.

(* the whole path as coded for row-major storage (contracts discharged by C02_pstrf_correct_symm and
   C02_potrf_blocked_correct): pstrf with block size psbs, then -- if r < n -- potrf of L^T L, then the solve.  For a symmetric
   matrix whose pivoted factorisation is exact of rank r (zero Schur complement), square roots exact on the pivots met:
   A (A x - b) = 0, and A x = b whenever b = A w for some w. *)
Theorem C02_semi_solve_rowmajor : forall eps psbs bs tbs n (A0 L Lc : mat A) r P piv b x,
  fleb F (fzero F) eps = true -> 0 < psbs -> 0 < bs -> 0 < tbs ->
  (forall i j, A0 i j = A0 j i) ->
  pstrf A F psbs n eps A0 = (r, L, P, piv) -> sq_ok A F piv ->
  (forall i j, r <= i < n -> r <= j < n ->
     A0 (perm_of P 0 n i) (perm_of P 0 n j) = sumr A F 0 r (fun u => fmul F (L i u) (L j u))) ->
  (0 < r < n -> potrf_rec A F bs tbs r r 0 r (semi_gram A F n r L) = BOk A Lc /\
                sqrt_exact_lower A F r r (semi_gram A F n r L)) ->
  semi_solve_with A F RowMajor n r L P Lc b = Some x ->
  (forall i, i < n -> mv A F n A0 (fun k => fsub F (mv A F n A0 x k) (b k)) i = fzero F) /\
  (forall w, (forall k, k < n -> b k = mv A F n A0 w k) -> forall i, i < n -> mv A F n A0 x i = b i).
Proof. exact (semi_solve_rowmajor A F Fth feqb_spec fleb_00). Qed.
End Semi.
Print Assumptions C02_semi_solve_with_lsq.
Print Assumptions C02_semi_solve_with_in_range.
Print Assumptions C02_semi_solve_with_total.
Print Assumptions C02_semi_solve_rowmajor.

(* satisfiable over Qc: A = 1 1^T (4 x 4, rank 1), b = (4,0,0,0): pstrf returns rank 1, potrf of L^T L = (4) succeeds with exact
   square roots, semi_solve returns (the minimal-norm least-squares solution (1/4,1/4,1/4,1/4), ex_semi_solve) *)
Theorem C02_Q_semi_hypotheses_satisfiable :
  fst (fst (fst ex_semi_run)) = 1 /\ sq_ok Qc ps_F (snd ex_semi_run) /\
  (exists Lc, potrf_rec Qc ps_F 32 32 1 1 0 1 ex_semi_G = BOk Qc Lc) /\ sqrt_exact_lower Qc ps_F 1 1 ex_semi_G /\
  (exists x, semi_solve Qc ps_F qc_abs 20 32 32 RowMajor 4 ps_epsm ex_ones ex_semi_b = Some x).
Proof. exact ex_semi_hypotheses_satisfiable. Qed.
Print Assumptions C02_Q_semi_hypotheses_satisfiable.

(* ================= extension: cholesky_decomposition::update(alpha, beta, v)  (C02UpdModel.v / C02UpdProofs.v) ================= *)
Section Update.
Variable A : Type.
Variable F : ops A.
Hypothesis Fth : field_theory (fzero F) (fone F) (fadd F) (fmul F) (fsub F) (fopp F) (fdiv F) (finv F) (@eq A).
Hypothesis feqb_spec : forall x y, feqb F x y = true <-> x = y.
Hypothesis fleb_00 : fleb F (fzero F) (fzero F) = true.

(* when update returns (both branches, beta == 0 and the column loop): entry (i,k), k <= i, of L' L'^T equals
   alpha (L L^T)(i,k) + beta v(i) v(k)  (LL L i k = sum_{t<=k} L(i,t) L(k,t), the lower triangle of L L^T; both sides are symmetric).
   alpha <> 0, non-zero diagonal of L, the square root exact on the values it was taken of (ghost list sq). *)
Theorem C02_chol_update_correct : forall n alpha beta (L0 : mat A) (v : vec A) L' sq, alpha <> fzero F ->
  (forall j, j < n -> L0 j j <> fzero F) ->
  chol_update A F n alpha beta L0 v = UOk A L' sq -> usq_ok A F sq ->
  forall i k, k <= i < n ->
    LL A F L' i k = fadd F (fmul F alpha (LL A F L0 i k)) (fmul F (fmul F beta (v i)) (v k)).
Proof. exact (chol_update_correct A F Fth feqb_spec fleb_00). Qed.

Theorem C02_chol_update_upper : forall n alpha beta (L0 : mat A) (v : vec A) L' sq, beta <> fzero F ->
  chol_update A F n alpha beta L0 v = UOk A L' sq -> forall i c, i < c -> L' i c = L0 i c.
Proof. exact (chol_update_upper A F feqb_spec). Qed.

(* over an ordered field: for beta >= 0 (and sqrt(alpha) <> 0, non-zero diagonal) the update never throws *)
Section UpdateOrdered.
Hypothesis pos_1 : pos A F (fone F).
Hypothesis pos_sq : forall x, x <> fzero F -> pos A F (fmul F x x).
Hypothesis pos_add : forall x y, pos A F x -> nonneg A F y -> pos A F (fadd F x y).
Hypothesis nn_mul : forall x y, nonneg A F x -> nonneg A F y -> nonneg A F (fmul F x y).
Hypothesis nn_sq : forall x, nonneg A F (fmul F x x).
Hypothesis nn_div : forall x y, nonneg A F x -> pos A F y -> nonneg A F (fdiv F x y).
Hypothesis pos_nle : forall x, pos A F x -> fleb F x (fzero F) = false.
Theorem C02_chol_update_returns : forall n alpha beta (L0 : mat A) (v : vec A), fsqrt F alpha <> fzero F -> nonneg A F beta ->
  (forall j, j < n -> L0 j j <> fzero F) -> exists L' sq, chol_update A F n alpha beta L0 v = UOk A L' sq.
Proof. exact (chol_update_returns A F Fth pos_1 pos_sq pos_add nn_mul nn_sq nn_div pos_nle). Qed.
End UpdateOrdered.
End Update.
Print Assumptions C02_chol_update_correct.
Print Assumptions C02_chol_update_upper.
Print Assumptions C02_chol_update_returns.

Theorem C02_Q_update_hypotheses_satisfiable :
  exists L' sq, chol_update Qc ps_F 2 (qc_make 1 1) (qc_make 3 1) ex_upd_L ex_upd_v = UOk Qc L' sq /\ usq_ok Qc ps_F sq /\
    (forall j, j < 2 -> ex_upd_L j j <> fzero ps_F).
Proof. exact ex_update_hypotheses_satisfiable. Qed.
Print Assumptions C02_Q_update_hypotheses_satisfiable.

Theorem C02_Q_update_order_instance : forall sq,
  pos Qc (qc_ops sq) (fone (qc_ops sq)) /\
  (forall x, x <> fzero (qc_ops sq) -> pos Qc (qc_ops sq) (fmul (qc_ops sq) x x)) /\
  (forall x y, pos Qc (qc_ops sq) x -> nonneg Qc (qc_ops sq) y -> pos Qc (qc_ops sq) (fadd (qc_ops sq) x y)) /\
  (forall x y, nonneg Qc (qc_ops sq) x -> nonneg Qc (qc_ops sq) y -> nonneg Qc (qc_ops sq) (fmul (qc_ops sq) x y)) /\
  (forall x, nonneg Qc (qc_ops sq) (fmul (qc_ops sq) x x)) /\
  (forall x y, nonneg Qc (qc_ops sq) x -> pos Qc (qc_ops sq) y -> nonneg Qc (qc_ops sq) (fdiv (qc_ops sq) x y)) /\
  (forall x, pos Qc (qc_ops sq) x -> fleb (qc_ops sq) x (fzero (qc_ops sq)) = false).
Proof.
  intros sq. exact (conj (qc_pos_1 sq) (conj (qc_pos_sq sq) (conj (qc_pos_add sq) (conj (qc_nn_mul sq) (conj (qc_nn_sq sq)
    (conj (qc_nn_div sq) (qc_pos_nle sq))))))).
Qed.
Print Assumptions C02_Q_update_order_instance.

(* ================= extension: pivoting_lu_decomposition::solve with matrix right-hand sides (C02LUMatModel.v / C02LUMatProofs.v) ================= *)
Section LUMat.
Variable A : Type.
Variable F : ops A.
Variable fabs : A -> A.
Hypothesis Fth : field_theory (fzero F) (fone F) (fadd F) (fmul F) (fsub F) (fopp F) (fdiv F) (finv F) (@eq A).
Hypothesis feqb_spec : forall x y, feqb F x y = true <-> x = y.
(* solve(B,left) = swap_rows, trsm<unit_lower,left>, trsm<upper,left>: every column x of the result solves A x = b;
   solve(B,right) = trsm<upper,right>, trsm<unit_lower,right>, swap_columns_inverted: every row solves x A = b
   (every block size > 0 of getrf and of trsm) *)
Theorem C02_lu_solve_m_correct : forall bs tbs tbs' n (M0 LU : mat A) P left vs X, 0 < bs -> 0 < tbs -> 0 < tbs' ->
  getrf A F fabs bs tbs n M0 = LUOk A LU P -> lu_solve_m A F tbs' left LU P n vs = Some X ->
  Forall2 (fun b x => forall k, k < n -> (if left then mv A F n M0 x k else vm A F n x M0 k) = b k) vs X.
Proof. exact (lu_solve_m_correct A F fabs Fth feqb_spec). Qed.
End LUMat.
Print Assumptions C02_lu_solve_m_correct.
Theorem C02_Q_lu_solve_m_satisfiable :
  exists LU P X, getrf Qc (qc_ops ex_sq) qc_abs 1 1 3 ex_A3 = LUOk Qc LU P /\ lu_solve_m Qc (qc_ops ex_sq) 1 true LU P 3 ex_lum_B = Some X.
Proof. exact ex_lu_solve_m_satisfiable. Qed.
Print Assumptions C02_Q_lu_solve_m_satisfiable.

(* ================= extension: blocked Cholesky with the right-looking diagonal-block kernel (C02RlModel.v / C02RlProofs.v) ================= *)
Section Rl.
Variable A : Type.
Variable F : ops A.
Hypothesis Fth : field_theory (fzero F) (fone F) (fadd F) (fmul F) (fsub F) (fopp F) (fdiv F) (finv F) (@eq A).
Hypothesis feqb_spec : forall x y, feqb F x y = true <-> x = y.
(* column-major lower = potrf_blocked2 false ColMajor = potrf_rec_rl: every size, every block size > 0 of potrf and trsm; the
   square root exact on the pivots (stated on the returned factor: pivot j = A(j,j) - sum_{t<j} L(j,t)^2): L L^T = A on the lower
   triangle, every pivot that was divided by is non-zero, upper triangle untouched, no pivot negative (the kernel's test) *)
Theorem C02_potrf_rl_blocked_correct : forall bs tbs fuel n (M L : mat A), 0 < bs -> 0 < tbs ->
  potrf_rec_rl A F bs tbs fuel n 0 n M = BOk A L -> rl_sqrt_exact A F n M L ->
  (forall i c, c <= i < n -> sumr A F 0 (S c) (fun t => fmul F (L i t) (L c t)) = M i c) /\
  (forall c, S c < n -> L c c <> fzero F) /\
  (forall i c, i < c -> L i c = M i c) /\
  (forall j, j < n -> fltb F (fsub F (M j j) (sumr A F 0 j (fun t => fmul F (L j t) (L j t)))) (fzero F) = false).
Proof. exact (potrf_rec_rl_correct A F Fth feqb_spec). Qed.
(* row-major upper: U^T U = A on the upper triangle *)
Theorem C02_potrf_rl_upper_row_correct : forall bs tbs n (M U : mat A), 0 < bs -> 0 < tbs ->
  potrf_blocked2 A F bs tbs true RowMajor n M = BOk A U -> rl_sqrt_exact A F n (transp A M) (transp A U) ->
  (forall r c, r <= c < n -> sumr A F 0 (S r) (fun t => fmul F (U t r) (U t c)) = M r c) /\
  (forall r c, c < r -> U r c = M r c).
Proof. exact (potrf_blocked2_upper_row_correct A F Fth feqb_spec). Qed.
End Rl.
Print Assumptions C02_potrf_rl_blocked_correct.
Print Assumptions C02_potrf_rl_upper_row_correct.
Theorem C02_Q_rl_hypotheses_satisfiable :
  exists L, potrf_rec_rl Qc (qc_ops ex_sq) 1 1 2 2 0 2 ex_M = BOk Qc L /\ rl_sqrt_exact Qc (qc_ops ex_sq) 2 ex_M L.
Proof. exact ex_rl_hypotheses_satisfiable. Qed.
Print Assumptions C02_Q_rl_hypotheses_satisfiable.

(* ================= extension: conjugate gradient  cg_solver / solve(A,b,conjugate_gradient(eps,maxit))  (C02CgModel.v / C02CgProofs.v) ================= *)
Section Cg.
Variable A : Type.
Variable F : ops A.
Variable fabs : A -> A.
Hypothesis Fth : field_theory (fzero F) (fone F) (fadd F) (fmul F) (fsub F) (fopp F) (fdiv F) (finv F) (@eq A).
(* book-keeping invariant, ANY matrix, any start vector, any eps / maxit / fuel, however the run ends: the maintained residual
   is the true residual b - A x (vector version; one column of the matrix version) *)
Theorem C02_cg_vec_residual : forall fuel n (M : mat A) eps maxit (x0 b : vec A),
  let o := cg_vec A F fabs fuel n M eps maxit x0 b in
  forall i, i < n -> cg_r A o i = fsub F (b i) (mvp A F n M (cg_x A o) i).
Proof. exact (cg_vec_residual A F fabs Fth). Qed.
Theorem C02_cg_col_residual : forall fuel n (M : mat A) eps maxit (b : vec A),
  let o := cg_col A F fabs fuel n M eps maxit b in
  forall i, i < n -> cg_r A o i = fsub F (b i) (mvp A F n M (cg_x A o) i).
Proof. exact (cg_col_residual A F fabs Fth). Qed.
(* hence: whenever the routine returns through its stopping rule (the repaired test before the loop, or the test inside it)
   the TRUE residual satisfies the coded threshold norm_inf(b - A x) < eps *)
Theorem C02_cg_vec_stop_true_residual : forall fuel n (M : mat A) eps maxit (x0 b : vec A),
  let o := cg_vec A F fabs fuel n M eps maxit x0 b in
  cg_why A o = StopEps \/ cg_why A o = StopInit ->
  fltb F (ninf A F fabs n (fun i => fsub F (b i) (mvp A F n M (cg_x A o) i))) eps = true.
Proof. exact (cg_vec_stop_true_residual A F fabs Fth). Qed.
Theorem C02_cg_col_stop_true_residual : forall fuel n (M : mat A) eps maxit (b : vec A),
  let o := cg_col A F fabs fuel n M eps maxit b in
  cg_why A o = StopEps \/ cg_why A o = StopInit ->
  fltb F (ninf A F fabs n (fun i => fsub F (b i) (mvp A F n M (cg_x A o) i))) eps = true.
Proof. exact (cg_col_stop_true_residual A F fabs Fth). Qed.
End Cg.
Print Assumptions C02_cg_vec_residual.
Print Assumptions C02_cg_col_residual.
Print Assumptions C02_cg_vec_stop_true_residual.
Print Assumptions C02_cg_col_stop_true_residual.

(* ---- conjugate gradient on definite matrices: the step lengths are well defined ---- *)
Section CgDefinite.
Variable A : Type.
Variable F : ops A.
Variable fabs : A -> A.
Hypothesis Fth : field_theory (fzero F) (fone F) (fadd F) (fmul F) (fsub F) (fopp F) (fdiv F) (finv F) (@eq A).
Hypothesis feqb_spec : forall x y, feqb F x y = true <-> x = y.
Hypothesis abs_0 : fabs (fzero F) = fzero F.
Hypothesis lt_irrefl : forall x, fltb F x x = false.
Hypothesis sumsq_nz : forall n v, nonzero A F n v -> dot A F n v v <> fzero F.     (* formally real field *)
(* definite n M : u^T M u <> 0 for every u <> 0 (positive definite matrices over an ordered field).  With eps > 0 no denominator
   met by the run -- r.r and p.Ap of every iteration, recorded in cg_dens -- is zero: alpha and beta are never x/0 *)
Theorem C02_cg_vec_well_defined : forall fuel n (M : mat A) eps maxit (x0 b : vec A), definite A F n M -> fltb F (fzero F) eps = true ->
  nz_all A F (cg_dens A (cg_vec A F fabs fuel n M eps maxit x0 b)).
Proof. exact (cg_vec_well_defined A F fabs Fth feqb_spec abs_0 lt_irrefl sumsq_nz). Qed.
Theorem C02_cg_col_well_defined : forall fuel n (M : mat A) eps maxit (b : vec A), definite A F n M -> fltb F (fzero F) eps = true ->
  nz_all A F (cg_dens A (cg_col A F fabs fuel n M eps maxit b)).
Proof. exact (cg_col_well_defined A F fabs Fth feqb_spec abs_0 lt_irrefl sumsq_nz). Qed.
(* component-wise form of the stopping guarantee: |b_i - (A x)_i| < eps for every i *)
Hypothesis lt_trans : forall x y z, fltb F y x = false -> fltb F y z = true -> fltb F z x = false.
Hypothesis lt_le_trans : forall x y z, fltb F y x = false -> fltb F y z = true -> fltb F x z = true.
Theorem C02_cg_vec_stop_pointwise : forall fuel n (M : mat A) eps maxit (x0 b : vec A),
  let o := cg_vec A F fabs fuel n M eps maxit x0 b in
  cg_why A o = StopEps \/ cg_why A o = StopInit ->
  forall i, i < n -> fltb F (fabs (fsub F (b i) (mvp A F n M (cg_x A o) i))) eps = true.
Proof. exact (cg_vec_stop_pointwise A F fabs Fth lt_irrefl lt_trans lt_le_trans). Qed.
End CgDefinite.
Print Assumptions C02_cg_vec_well_defined.
Print Assumptions C02_cg_col_well_defined.
Print Assumptions C02_cg_vec_stop_pointwise.
(* satisfiable over Qc: sums of squares, a definite matrix, and a run that returns through the stopping rule *)
Theorem C02_Q_cg_instance : forall sq,
  (forall n (v : vec Qc), nonzero Qc (qc_ops sq) n v -> dot Qc (qc_ops sq) n v v <> fzero (qc_ops sq)) /\
  definite Qc cg_F 2 ex_cg_A /\
  (let o := cg_solve_v Qc cg_F qc_abs 10 2 ex_cg_A ex_cg_eps 0 ex_cg_b in cg_iters Qc o = 2 /\ cg_why Qc o = StopEps).
Proof.
  intros sq. split; [exact (qc_sumsq_nz sq)|]. split; [exact ex_cg_definite|].
  destruct ex_cg_runs as (_ & H2 & H3 & _). split; assumption.
Qed.
Print Assumptions C02_Q_cg_instance.

(* ---- conjugate gradient on symmetric definite matrices: the classical induction and termination within n iterations ---- *)
Section CgClassical.
Variable A : Type.
Variable F : ops A.
Variable fabs : A -> A.
Hypothesis Fth : field_theory (fzero F) (fone F) (fadd F) (fmul F) (fsub F) (fopp F) (fdiv F) (finv F) (@eq A).
Hypothesis feqb_spec : forall x y, feqb F x y = true <-> x = y.
(* Rk, Pk: the residuals and search directions the loop goes through from the initial residual r0 (C02CgConjProofs.loop_step_seq:
   one iteration of cg_loop / cgm_loop maps (Rk k, Pk k) to (Rk (k+1), Pk (k+1)) component-wise).  For a symmetric matrix, as long as
   no denominator vanishes: r_k . r_i = 0 and p_k^T A p_i = 0 for i < k *)
Theorem C02_cg_orthogonal : forall n (M : mat A), (forall i j, i < n -> j < n -> M i j = M j i) ->
  forall (r0 : vec A) K,
  (forall k, k < K -> rr A F n (Rk A F n M r0) k <> fzero F /\ pAp A F n M (Pk A F n M r0) k <> fzero F) ->
  forall k, k <= K -> forall i, i < k ->
    dot A F n (Rk A F n M r0 k) (Rk A F n M r0 i) = fzero F /\ dotA A F n M (Pk A F n M r0 k) (Pk A F n M r0 i) = fzero F.
Proof. intros n M Msym r0. exact (cg_seq_orthogonal A F Fth n M Msym r0). Qed.
(* hence (n+1 mutually orthogonal non-zero vectors do not exist in dimension n -- proved, C02CgConjProofs.no_orth_family): with
   eps > 0 and no iteration limit the routine returns THROUGH ITS STOPPING RULE after at most n iterations, in exact arithmetic *)
Theorem C02_cg_vec_terminates : fabs (fzero F) = fzero F -> (forall x, fltb F x x = false) ->
  (forall n v, nonzero A F n v -> dot A F n v v <> fzero F) ->
  forall fuel n (M : mat A) eps (x0 b : vec A), (forall i j, i < n -> j < n -> M i j = M j i) -> definite A F n M ->
  fltb F (fzero F) eps = true -> n < fuel ->
  let o := cg_vec A F fabs fuel n M eps 0 x0 b in
  (cg_why A o = StopEps \/ cg_why A o = StopInit) /\ cg_iters A o <= n.
Proof. exact (cg_vec_terminates A F Fth feqb_spec fabs). Qed.
Theorem C02_cg_col_terminates : fabs (fzero F) = fzero F -> (forall x, fltb F x x = false) ->
  (forall n v, nonzero A F n v -> dot A F n v v <> fzero F) ->
  forall fuel n (M : mat A) eps (b : vec A), (forall i j, i < n -> j < n -> M i j = M j i) -> definite A F n M ->
  fltb F (fzero F) eps = true -> S n < fuel ->
  let o := cg_col A F fabs fuel n M eps 0 b in
  (cg_why A o = StopEps \/ cg_why A o = StopInit) /\ cg_iters A o <= n.
Proof. exact (cg_col_terminates A F Fth feqb_spec fabs). Qed.
End CgClassical.
Print Assumptions C02_cg_orthogonal.
Print Assumptions C02_cg_vec_terminates.
Print Assumptions C02_cg_col_terminates.

(* ================= extension: symmetric eigen-decomposition, the Householder reduction step of kernels::syev (C02SyevModel.v / C02SyevProofs.v) ================= *)
(* FULL STATEMENT (not proved in general, hence _partial; checked by computation on the Qc instance C02_Q_syev_instance and compared
   through the double model of the WHOLE routine on every run): after phases 1-2 (tred2), Q is orthogonal and Q^T A Q = tridiag(d,e).
   PROVED: each reduction step is an orthogonal similarity with the intended zero pattern -- for the row i with scale <> 0, the
   reflector P = I - u u^T/h (refl) built by the code (u, h from tred_house; sqrt exact on the value met, h <> 0, h+h <> 0) is
   orthogonal, maps row i onto (0,..,0,e_i), the new leading block is P S P (S = the symmetric matrix whose lower triangle is
   stored), e_i = scale*g, d_i = h, u*scale and u/(scale*h) are left in row / column i, everything else is untouched. *)
Section Syev.
Variable A : Type.
Variable F : ops A.
Variable fabs : A -> A.
Hypothesis Fth : field_theory (fzero F) (fone F) (fadd F) (fmul F) (fsub F) (fopp F) (fdiv F) (finv F) (@eq A).
Hypothesis feqb_spec : forall x y, feqb F x y = true <-> x = y.
Definition syev_sqrt_exact (i : nat) (V : mat A) (scale : A) : Prop :=
  let h0 := sumr A F 0 i (fun k => fmul F (fdiv F (V i k) scale) (fdiv F (V i k) scale)) in fmul F (fsqrt F h0) (fsqrt F h0) = h0.
Theorem C02_syev_reflector_orthogonal_partial : forall i (V : mat A) scale g h (u : vec A), 0 < i ->
  tred_house A F fabs i V = Some (scale, g, h, u) -> syev_sqrt_exact i V scale -> h <> fzero F ->
  forall r c, r < i -> c < i ->
    sumr A F 0 i (fun t => fmul F (refl A F h u r t) (refl A F h u t c)) = delta A F r c.
Proof. exact (refl_orthogonal A F fabs Fth feqb_spec). Qed.
Theorem C02_syev_step_correct_partial : forall n i (V : mat A) scale g h (u : vec A), 0 < i ->
  tred_house A F fabs i V = Some (scale, g, h, u) -> syev_sqrt_exact i V scale -> h <> fzero F -> fadd F h h <> fzero F ->
  forall e d : vec A,
  match tred_step A F fabs n i V e d with
  | (V', e', d') =>
    (forall r c, c <= r < i -> V' r c =
       sumr A F 0 i (fun x => fmul F (refl A F h u r x) (sumr A F 0 i (fun y => fmul F (symL A V x y) (refl A F h u y c))))) /\
    e' i = fmul F scale g /\ d' i = h /\
    (forall c, c < i -> sumr A F 0 i (fun t => fmul F (V i t) (refl A F h u t c)) = if Nat.eqb c (i - 1) then e' i else fzero F) /\
    (forall c, c < i -> V' i c = fmul F (u c) scale) /\ (forall r, r < i -> V' r i = fdiv F (u r) (fmul F scale h)) /\
    (forall r c, i < r \/ (i < c /\ r < c) \/ (r = i /\ c = i) \/ (r < c < i) -> V' r c = V r c) /\
    (forall j, i < j -> e' j = e j /\ d' j = d j)
  end.
Proof. exact (tred_step_correct A F fabs Fth feqb_spec). Qed.
Theorem C02_syev_step_skip : forall n i (V : mat A) (e d : vec A), tred_house A F fabs i V = None ->
  tred_step A F fabs n i V e d = (V, upd A e i (V i (i - 1)), upd A d i (fzero F)).
Proof. exact (tred_step_skip A F fabs). Qed.
End Syev.
Print Assumptions C02_syev_reflector_orthogonal_partial.
Print Assumptions C02_syev_step_correct_partial.
Print Assumptions C02_syev_step_skip.
(* over Qc: the hypotheses are satisfiable (row (3,4): scale 7, h0 = 25/49, sqrt 5/7), and on that 3 x 3 instance the full statement
   holds by computation: Q^T A Q = tridiag(d,e) and Q^T Q = I for the output of tred2 *)
Theorem C02_Q_syev_instance :
  (exists scale g h u, tred_house Qc sy_F qc_abs 2 ex_sy_A = Some (scale, g, h, u) /\ h <> fzero sy_F /\ fadd sy_F h h <> fzero sy_F /\
     (let h0 := sumr Qc sy_F 0 2 (fun k => fmul sy_F (fdiv sy_F (ex_sy_A 2 k) scale) (fdiv sy_F (ex_sy_A 2 k) scale)) in
      fmul sy_F (fsqrt sy_F h0) (fsqrt sy_F h0) = h0)) /\
  ex_tred2_statement.   (* Q^T A Q = tridiag(d,e), Q^T Q = I, e_2 = -5 for the output (Q,d,e) of tred2: C02SyevQProofs.v *)
Proof. exact (conj ex_syev_hypotheses_satisfiable ex_tred2_similarity). Qed.
Print Assumptions C02_Q_syev_instance.
