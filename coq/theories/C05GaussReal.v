(* C05 — positive semi-definiteness of the Gaussian and ARD kernels over the real numbers, and of every kernel
   built from them with the model's combinators.

   Instance: Coq's real numbers R (Reals) with expA := exp, sqrtA arbitrary.  R is an ordered field in the sense of
   C05Proofs.OrdField (R_ordfield), so every theorem of C05Proofs.v applies.

   Route (no Bochner, no spectral theory):
     exp a is the limit of expN N a = sum_{i<=N} a^i / i!  (definition of exp in the standard library);
     for every N the kernel (x,z) |-> expN N (2 g <x,z>) is a non-negative combination of monomial kernels and has a
     finite non-negative feature map (GramRepOn: tensor features, the algebraic Schur identity of C05Proofs);
     a quadratic form is a finite sum, hence continuous in the kernel values; a limit of non-negative reals is
     non-negative.  k_gauss g x z = e(x) * exp(2 g <x,z>) * e(z) with e(x) = exp(-g <x,x>) is a rescaling.
   LimRepOn P k ("k is on P the point-wise limit of kernels with finite non-negative feature maps") is closed under all
   combinators of the model (scaling, weighted sums, products, normalisation, pull-backs/sub-ranges, point sets), contains
   every kernel with a finite feature map, the Gaussian and the ARD kernel, and implies PSDOn.

   Axioms: only those behind Coq's real numbers and exp (reported by Print Assumptions in Properties_C05.v). *)
From Coq Require Import List Arith Bool Lia Reals Lra.
From SharkV Require Import C03Model C05Model C05Proofs.
Import ListNotations.
Local Open Scope R_scope.

Lemma R_ordfield : OrdField 0 1 Rplus Rmult Rminus Rdiv Ropp Rinv Rle.
Proof.
  constructor.
  - exact Rfield.
  - exact Rle_refl.
  - exact Rle_trans.
  - intros. apply Rplus_le_compat; auto.
  - exact Rmult_le_pos.
  - intros x. apply Rle_0_sqr.
  - intros x Hx N. left. apply Rinv_0_lt_compat. lra.
Qed.

Notation RPSD := (PSDOn R 0 Rplus Rmult Rle).
Notation RGRep := (GramRepOn R 0 Rplus Rmult Rle).
Notation Rqform := (qform R 0 Rplus Rmult).
Notation Rlsum := (lsum R 0 Rplus).
Notation Rdot := (dot R 0 Rplus Rmult).
Notation Rvec := (list R).
Notation Rdim := (dimP R).
Notation Rtwo := (two R 1 Rplus).
Notation Rk_gauss := (k_gauss R 0 Rplus Rmult Rminus Ropp exp).
Notation Rk_ard := (k_ard R 0 Rplus Rmult Rminus Ropp exp).
Notation OFR := R_ordfield.

(* ------------------------------------------------------------------ sequences *)
Lemma cv_const c : Un_cv (fun _ => c) c.
Proof. intros eps H. exists 0%nat. intros n _. unfold R_dist. rewrite Rminus_diag_eq, Rabs_R0; auto. Qed.

Lemma cv_scal c a l : Un_cv a l -> Un_cv (fun N => c * a N) (c * l).
Proof. intros H. apply (CV_mult (fun _ => c) a c l); auto. apply cv_const. Qed.

Lemma cv_ext (a b : nat -> R) l : (forall N, a N = b N) -> Un_cv a l -> Un_cv b l.
Proof. intros E H eps He. destruct (H eps He) as [N HN]. exists N. intros n Hn. rewrite <- E. auto. Qed.

Lemma lsum_map_cv {T} (f : nat -> T -> R) (F : T -> R) l :
  (forall t, In t l -> Un_cv (fun N => f N t) (F t)) ->
  Un_cv (fun N => Rlsum (map (f N) l)) (Rlsum (map F l)).
Proof.
  induction l; simpl; intros H.
  - apply cv_const.
  - apply (CV_plus (fun N => f N a) (fun N => Rlsum (map (f N) l))); auto.
Qed.

Lemma cv_nonneg a l : (forall N, 0 <= a N) -> Un_cv a l -> 0 <= l.
Proof. intros H C. apply (@Rle_cv_lim (fun _ => 0) a 0 l); auto. apply cv_const. Qed.

(* the exponential series *)
Definition expN (N : nat) (a : R) : R := sum_f_R0 (fun i => / INR (fact i) * a ^ i) N.

Lemma expN_cv a : Un_cv (fun N => expN N a) (exp a).
Proof.
  unfold exp. destruct (exist_exp a) as [l Hl]. simpl. exact Hl.
Qed.

Lemma pow_R b n : C05Model.pow R 1 Rmult b n = b ^ n.
Proof. induction n; simpl; congruence. Qed.

(* ------------------------------------------------------------------ kernels on a type X *)
Section OnX.
Variable X : Type.
Notation kernel := (X -> X -> R).

Lemma qform_cv (kN : nat -> kernel) (k : kernel) (pts : list (R * X)) :
  (forall p q, In p pts -> In q pts -> Un_cv (fun N => kN N (snd p) (snd q)) (k (snd p) (snd q))) ->
  Un_cv (fun N => Rqform X (kN N) pts) (Rqform X k pts).
Proof.
  intros H. unfold C05Model.qform.
  apply (lsum_map_cv (fun N p => Rlsum (map (fun q => fst p * fst q * kN N (snd p) (snd q)) pts))
                     (fun p => Rlsum (map (fun q => fst p * fst q * k (snd p) (snd q)) pts))).
  intros p Hp.
  apply (lsum_map_cv (fun N q => fst p * fst q * kN N (snd p) (snd q)) (fun q => fst p * fst q * k (snd p) (snd q))).
  intros q Hq. apply cv_scal. auto.
Qed.

(* k is, on P, the point-wise limit of kernels with finite non-negative feature maps *)
Definition LimRepOn (P : X -> Prop) (k : kernel) : Prop :=
  exists kN : nat -> kernel, (forall N, RGRep X P (kN N)) /\
                             forall x z, P x -> P z -> Un_cv (fun N => kN N x z) (k x z).

Theorem limrep_psd (P : X -> Prop) k : LimRepOn P k -> RPSD X P k.
Proof.
  intros (kN & G & C) pts Hp.
  apply (cv_nonneg (fun N => Rqform X (kN N) pts)).
  - intros N. apply (gramrep_psd R 0 1 Rplus Rmult Rminus Rdiv Ropp Rinv Rle OFR X P (kN N) (G N)); auto.
  - apply qform_cv. rewrite Forall_forall in Hp. intros p q Hp1 Hq1. apply C; auto.
Qed.

Lemma limrep_of_gramrep (P : X -> Prop) k : RGRep X P k -> LimRepOn P k.
Proof. intros H. exists (fun _ => k). split; auto. intros. apply cv_const. Qed.

Lemma limrep_ext (P : X -> Prop) k k' : (forall x z, P x -> P z -> k x z = k' x z) -> LimRepOn P k -> LimRepOn P k'.
Proof. intros E (kN & G & C). exists kN. split; auto. intros x z Hx Hz. rewrite <- E; auto. Qed.

Lemma limrep_weaken (P Q : X -> Prop) k : (forall x, Q x -> P x) -> LimRepOn P k -> LimRepOn Q k.
Proof.
  intros I (kN & G & C). exists kN. split; auto.
  intros N. apply (gramrep_weaken R 0 Rplus Rmult Rle X P Q); auto.
Qed.

Lemma limrep_const (P : X -> Prop) c : 0 <= c -> LimRepOn P (k_const R X c).
Proof. intros H. apply limrep_of_gramrep. apply (gramrep_const R 0 1 Rplus Rmult Rminus Rdiv Ropp Rinv Rle OFR); auto. Qed.

Lemma limrep_add (P : X -> Prop) k1 k2 : LimRepOn P k1 -> LimRepOn P k2 -> LimRepOn P (k_add R Rplus X k1 k2).
Proof.
  intros (a & Ga & Ca) (b & Gb & Cb). exists (fun N => k_add R Rplus X (a N) (b N)). split.
  - intros N. apply (gramrep_add R 0 1 Rplus Rmult Rminus Rdiv Ropp Rinv Rle OFR); auto.
  - intros x z Hx Hz. unfold C05Model.k_add. apply (CV_plus (fun N => a N x z) (fun N => b N x z)); auto.
Qed.

Lemma limrep_mul (P : X -> Prop) k1 k2 : LimRepOn P k1 -> LimRepOn P k2 -> LimRepOn P (k_mul R Rmult X k1 k2).
Proof.
  intros (a & Ga & Ca) (b & Gb & Cb). exists (fun N => k_mul R Rmult X (a N) (b N)). split.
  - intros N. apply (gramrep_mul R 0 1 Rplus Rmult Rminus Rdiv Ropp Rinv Rle OFR); auto.
  - intros x z Hx Hz. unfold C05Model.k_mul. apply (CV_mult (fun N => a N x z) (fun N => b N x z)); auto.
Qed.

Lemma limrep_scaled (P : X -> Prop) c k : 0 <= c -> LimRepOn P k -> LimRepOn P (k_scaled R Rmult X c k).
Proof.
  intros Hc (a & Ga & Ca). exists (fun N => k_scaled R Rmult X c (a N)). split.
  - intros N. apply (gramrep_scaled R 0 1 Rplus Rmult Rminus Rdiv Ropp Rinv Rle OFR); auto.
  - intros x z Hx Hz. unfold C05Model.k_scaled. apply cv_scal; auto.
Qed.

(* rescaling k'(x,z) = f(x) k(x,z) f(z) keeps a feature map (features multiplied by f) *)
Lemma gramrep_conj (P : X -> Prop) (f : X -> R) k : RGRep X P k -> RGRep X P (fun x z => f x * k x z * f z).
Proof.
  intros (fs & W & E). exists (map (fun wf => (fst wf, fun x => snd wf x * f x)) fs). split.
  - rewrite Forall_forall in *. intros wf Hwf. apply in_map_iff in Hwf. destruct Hwf as (w & <- & Hw). simpl. auto.
  - intros x z Hx Hz. rewrite E by auto. unfold frep. rewrite map_map.
    rewrite <- (lsum_map_mul_l R 0 1 Rplus Rmult Rminus Rdiv Ropp Rinv Rle OFR).
    rewrite <- (lsum_map_mul_r R 0 1 Rplus Rmult Rminus Rdiv Ropp Rinv Rle OFR).
    apply (lsum_map_ext R 0 Rplus). intros wf _. simpl. ring.
Qed.

Lemma limrep_conj (P : X -> Prop) (f : X -> R) k : LimRepOn P k -> LimRepOn P (fun x z => f x * k x z * f z).
Proof.
  intros (a & Ga & Ca). exists (fun N x z => f x * a N x z * f z). split.
  - intros N. apply gramrep_conj; auto.
  - intros x z Hx Hz.
    apply (CV_mult (fun N => f x * a N x z) (fun _ => f z)); [apply cv_scal; auto|apply cv_const].
Qed.

(* NormalizedKernel: no law of the square root is needed *)
Lemma limrep_norm (sqrtA : R -> R) (P : X -> Prop) k : LimRepOn P k -> LimRepOn P (k_norm R Rdiv sqrtA X k).
Proof.
  intros H. apply (limrep_ext P (fun x z => / sqrtA (k x x) * k x z * / sqrtA (k z z))).
  - intros. unfold C05Model.k_norm, Rdiv. ring.
  - apply limrep_conj. auto.
Qed.

Lemma limrep_wsum_num (P : X -> Prop) wks :
  Forall (fun wk => 0 <= fst wk /\ LimRepOn P (snd wk)) wks -> LimRepOn P (wsum_num R 0 Rplus Rmult X wks).
Proof.
  induction 1 as [|wk r [Hw Hk] _ IH].
  - apply (limrep_ext P (k_const R X 0)); [reflexivity|]. apply limrep_const. apply Rle_refl.
  - apply (limrep_ext P (k_add R Rplus X (k_scaled R Rmult X (fst wk) (snd wk)) (wsum_num R 0 Rplus Rmult X r))); [reflexivity|].
    apply limrep_add; auto. apply limrep_scaled; auto.
Qed.

(* WeightedSumKernel; over R the weight sum may even be 0 (/0 = 0) *)
Lemma limrep_wsum (P : X -> Prop) wks :
  Forall (fun wk => 0 <= fst wk /\ LimRepOn P (snd wk)) wks -> LimRepOn P (k_wsum R 0 Rplus Rmult Rdiv X wks).
Proof.
  intros H.
  apply (limrep_ext P (k_scaled R Rmult X (/ wsum_den R 0 Rplus X wks) (wsum_num R 0 Rplus Rmult X wks))).
  - intros. unfold C05Model.k_wsum, C05Model.k_scaled, Rdiv. ring.
  - apply limrep_scaled; [|apply limrep_wsum_num; auto].
    assert (D : 0 <= wsum_den R 0 Rplus X wks).
    { apply (wsum_den_nonneg R 0 1 Rplus Rmult Rminus Rdiv Ropp Rinv Rle OFR X wks (LimRepOn P)). auto. }
    destruct D as [D|D]; [left; apply Rinv_0_lt_compat; auto|rewrite <- D, Rinv_0; apply Rle_refl].
Qed.

Lemma limrep_prod (P : X -> Prop) ks : Forall (LimRepOn P) ks -> LimRepOn P (k_prod R 1 Rmult X ks).
Proof.
  induction 1 as [|k r Hk _ IH].
  - apply (limrep_ext P (k_const R X 1)); [reflexivity|]. apply limrep_const. lra.
  - apply (limrep_ext P (k_mul R Rmult X k (k_prod R 1 Rmult X r))); [reflexivity|]. apply limrep_mul; auto.
Qed.

End OnX.

Section Pull.
Variables X Y : Type.
Variable f : X -> Y.
Lemma limrep_pull (P : Y -> Prop) k : LimRepOn Y P k -> LimRepOn X (fun x => P (f x)) (k_pull R f k).
Proof.
  intros (a & Ga & Ca). exists (fun N => k_pull R f (a N)). split.
  - intros N. apply (gramrep_pull R 0 Rplus Rmult Rle); auto.
  - intros x z Hx Hz. unfold C05Model.k_pull. auto.
Qed.
End Pull.

Lemma limrep_sub N a b k :
  (a <= b)%nat -> (b <= N)%nat -> LimRepOn Rvec (Rdim (b - a)) k -> LimRepOn Rvec (Rdim N) (k_sub R a b k).
Proof.
  intros Hab HbN H.
  apply (limrep_weaken Rvec (fun x => Rdim (b - a) (subvec R a b x))).
  - intros x Hx. unfold dimP in *. apply subvec_length; lia.
  - apply limrep_pull. auto.
Qed.

(* ------------------------------------------------------------------ the exponentiated inner product *)
Lemma gramrep_expN n c N : 0 <= c -> RGRep Rvec (Rdim n) (fun x z => expN N (c * Rdot x z)).
Proof.
  intros Hc. induction N.
  - apply (gramrep_ext R 0 Rplus Rmult Rle Rvec (Rdim n) (k_const R Rvec 1)).
    + intros. unfold expN, C05Model.k_const. simpl. field.
    + apply (gramrep_const R 0 1 Rplus Rmult Rminus Rdiv Ropp Rinv Rle OFR). lra.
  - apply (gramrep_ext R 0 Rplus Rmult Rle Rvec (Rdim n)
             (k_add R Rplus Rvec (fun x z => expN N (c * Rdot x z))
                    (k_scaled R Rmult Rvec (/ INR (fact (S N)) * c ^ S N) (k_mono R 0 1 Rplus Rmult (S N))))).
    + intros x z _ _. unfold expN, C05Model.k_add, C05Model.k_scaled, C05Model.k_mono.
      rewrite (pow_R (Rdot x z) (S N)). cbn [sum_f_R0]. rewrite Rpow_mult_distr. ring.
    + apply (gramrep_add R 0 1 Rplus Rmult Rminus Rdiv Ropp Rinv Rle OFR); auto.
      apply (gramrep_scaled R 0 1 Rplus Rmult Rminus Rdiv Ropp Rinv Rle OFR).
      * apply Rmult_le_pos; [left; apply Rinv_0_lt_compat, INR_fact_lt_0|apply pow_le; auto].
      * apply (gramrep_mono R 0 1 Rplus Rmult Rminus Rdiv Ropp Rinv Rle OFR).
Qed.

Lemma limrep_exp_dot n c : 0 <= c -> LimRepOn Rvec (Rdim n) (fun x z => exp (c * Rdot x z)).
Proof.
  intros Hc. exists (fun N x z => expN N (c * Rdot x z)). split.
  - intros N. apply gramrep_expN; auto.
  - intros x z _ _. apply expN_cv.
Qed.

Theorem psd_exp_dot n c : 0 <= c -> RPSD Rvec (Rdim n) (fun x z => exp (c * Rdot x z)).
Proof. intros. apply limrep_psd, limrep_exp_dot; auto. Qed.

(* ------------------------------------------------------------------ Gaussian kernel *)
Lemma gauss_factor n g x z : Rdim n x -> Rdim n z ->
  Rk_gauss g x z = exp (- g * Rdot x x) * exp (Rtwo * g * Rdot x z) * exp (- g * Rdot z z).
Proof.
  intros Hx Hz. unfold C05Model.k_gauss, dimP in *.
  rewrite (distsq_dot R 0 1 Rplus Rmult Rminus Rdiv Ropp Rinv Rle OFR x z) by congruence.
  rewrite <- !exp_plus. f_equal. unfold C05Model.two. ring.
Qed.

Theorem limrep_gauss n g : 0 <= g -> LimRepOn Rvec (Rdim n) (Rk_gauss g).
Proof.
  intros Hg.
  apply (limrep_ext Rvec (Rdim n) (fun x z => exp (- g * Rdot x x) * exp (Rtwo * g * Rdot x z) * exp (- g * Rdot z z))).
  - intros. symmetry. apply (gauss_factor n); auto.
  - apply (limrep_conj Rvec (Rdim n) (fun x => exp (- g * Rdot x x))).
    apply limrep_exp_dot. unfold C05Model.two. lra.
Qed.

Theorem psd_gaussian n g : 0 <= g -> RPSD Rvec (Rdim n) (Rk_gauss g).
Proof. intros. apply limrep_psd, limrep_gauss; auto. Qed.

(* the same through the old partial theorem: its two premises hold for exp *)
Theorem psd_gaussian_via_partial n g : 0 <= g -> RPSD Rvec (Rdim n) (Rk_gauss g).
Proof.
  intros Hg. apply (psd_gaussian_partial R 0 1 Rplus Rmult Rminus Rdiv Ropp Rinv Rle exp OFR n g).
  - exact exp_plus.
  - apply psd_exp_dot. unfold C05Model.two. lra.
Qed.

(* ------------------------------------------------------------------ ARD kernel: pull-back of the Gaussian kernel with
   gamma = 1 along the coordinate scaling x_i |-> sqrt(gamma_i) x_i *)
Definition ard_scale (gs x : Rvec) : Rvec := zipw R Rmult (map sqrt gs) x.

Lemma ard_scale_length gs x : length (ard_scale gs x) = Nat.min (length gs) (length x).
Proof. unfold ard_scale. revert x. induction gs; destruct x; simpl; auto. Qed.

Lemma wdistsq_scale gs : Forall (Rle 0) gs -> forall x z,
  wdistsq R 0 Rplus Rmult Rminus gs x z = distsq R 0 Rplus Rmult Rminus (ard_scale gs x) (ard_scale gs z).
Proof.
  unfold ard_scale. induction 1 as [|c gs Hc _ IH]; intros x z; [reflexivity|].
  destruct x as [|a x]; [reflexivity|]. destruct z as [|b z]; [reflexivity|].
  simpl. rewrite IH. rewrite <- (sqrt_sqrt c Hc) at 1. ring.
Qed.

Theorem limrep_ard n gs : Forall (Rle 0) gs -> LimRepOn Rvec (Rdim n) (Rk_ard gs).
Proof.
  intros Hg.
  apply (limrep_ext Rvec (Rdim n) (k_pull R (ard_scale gs) (Rk_gauss 1))).
  - intros x z _ _. unfold C05Model.k_pull, C05Model.k_gauss, C05Model.k_ard. rewrite (wdistsq_scale gs Hg). f_equal. ring.
  - apply (limrep_weaken Rvec (fun x => Rdim (Nat.min (length gs) n) (ard_scale gs x))).
    + intros x Hx. unfold dimP in *. rewrite ard_scale_length, Hx. auto.
    + apply limrep_pull. apply limrep_gauss. lra.
Qed.

Theorem psd_ard n gs : Forall (Rle 0) gs -> RPSD Rvec (Rdim n) (Rk_ard gs).
Proof. intros. apply limrep_psd, limrep_ard; auto. Qed.
