(* C03 — Dataset containers keep every element, its order and its input-label pairing.
   Statements only; proofs in C03Proofs.v, executable model in C03Model.v.

   Proved here for all datasets / arguments: batch-size arithmetic, every batch-structure operation
   (create, repartition, splitBatch, splice, append, reorderElements, indexedSubset, splitAtElement,
   transform) keeps the element sequence as documented, and the input/label pairing theorems.
   The element iterator (increment, decrement, advance by any signed offset: the loops of
   DataElementIterator::advance) dereferences exactly the element whose index it reports.
   repartitionByClass gathers by a permutation (multiset of inputs and of labels unchanged, both
   containers re-batched identically).
   NOT proved (tied to the code by the correspondence run only, see DESIGN.md#C03): that the
   repartitionByClass order is class-sorted and stable, binarySubProblem, view -> dataset.         *)
From Coq Require Import List Arith Permutation.
From SharkV Require Import ListAux C03Model C03Proofs C03Iter C03Class C12Model C12Proofs.
Import ListNotations.

Theorem C03_optimal_batch_sizes :
  forall n m l, opt_sizes n m = Some l ->
    sum l = n /\ (forall s, In s l -> 1 <= s <= m) /\
    (forall s t, In s l -> In t l -> s <= t + 1) /\ (n = 0 -> l = []).
Proof. exact opt_sizes_spec. Qed.
Print Assumptions C03_optimal_batch_sizes.

Theorem C03_batch_sizes_sum_to_element_count :
  forall A (d : @data A), sum (sizes d) = length (elems d).
Proof. intros A. exact (@sizes_sum_to_count A). Qed.
Print Assumptions C03_batch_sizes_sum_to_element_count.

Theorem C03_create :
  forall A (l : list A) m d, create l m = Some d ->
    elems d = l /\ sum (sizes d) = length l /\
    (forall s, In s (sizes d) -> 1 <= s <= (if m =? 0 then length l else m)).
Proof. intros A. exact (@create_spec A). Qed.
Print Assumptions C03_create.

Theorem C03_repartition :
  forall A szs (d d' : @data A), repartition szs d = Some d' -> elems d' = elems d /\ sizes d' = szs.
Proof. intros A. exact (@repartition_spec A). Qed.
Print Assumptions C03_repartition.

Theorem C03_split_batch :
  forall A b k (d d' : @data A), split_batch b k d = Some d' ->
    elems d' = elems d /\
    (((k = 0 \/ k = length (nth b d [])) /\ d' = d) \/
     sizes d' = firstn b (sizes d) ++ [k; length (nth b d []) - k] ++ skipn (S b) (sizes d)).
Proof. intros A. exact (@split_batch_spec A). Qed.
Print Assumptions C03_split_batch.

Theorem C03_splice :
  forall A b (d l r : @data A), splice b d = Some (l, r) ->
    l ++ r = d /\ elems l ++ elems r = elems d /\ length l = b.
Proof. intros A. exact (@splice_spec A). Qed.
Print Assumptions C03_splice.

Theorem C03_append :
  forall A (d1 d2 : @data A),
    elems (append d1 d2) = elems d1 ++ elems d2 /\ sizes (append d1 d2) = sizes d1 ++ sizes d2.
Proof. intros A. exact (@append_spec A). Qed.
Print Assumptions C03_append.

Theorem C03_reorder_is_gather :
  forall A dflt idx (d d' : @data A), reorder dflt idx d = Some d' ->
    elems d' = map (fun i => nth i (elems d) dflt) idx /\ sizes d' = sizes d.
Proof. intros A. exact (@reorder_spec A). Qed.
Print Assumptions C03_reorder_is_gather.

(* shuffle = reorderElements with a permutation: the multiset of elements is unchanged *)
Theorem C03_shuffle_keeps_multiset :
  forall A dflt idx (d d' : @data A), reorder dflt idx d = Some d' ->
    Permutation idx (seq 0 (nelems d)) -> Permutation (elems d') (elems d).
Proof. intros A. exact (@reorder_permutation A). Qed.
Print Assumptions C03_shuffle_keeps_multiset.

Theorem C03_indexed_subset :
  forall A idx (d d' : @data A), indexed_subset idx d = Some d' ->
    d' = map (fun i => nth i d []) idx /\ elems d' = flat_map (fun i => nth i d []) idx.
Proof. intros A. exact (@indexed_subset_spec A). Qed.
Print Assumptions C03_indexed_subset.

Theorem C03_split_at_element :
  forall A k (d l r : @data A), split_at_element k d = Some (l, r) ->
    elems l = firstn k (elems d) /\ elems r = skipn k (elems d).
Proof. intros A. exact (@split_at_element_spec A). Qed.
Print Assumptions C03_split_at_element.

Theorem C03_transform_keeps_structure :
  forall A B (f : A -> B) (d : @data A),
    elems (transform f d) = map f (elems d) /\ sizes (transform f d) = sizes d.
Proof. intros A B. exact (@transform_keeps_structure A B). Qed.
Print Assumptions C03_transform_keeps_structure.

(* inputs are never separated from their labels: a labelled dataset that is the pair of
   projections of one dataset of (input,label) pairs stays so under every operation applied to the
   two containers separately, and position i of the inputs always sits next to position i of the
   labels *)
Theorem C03_pairing_elements :
  forall I L (z : @data (I * L)),
    combine (elems (inputs (paired z))) (elems (labels (paired z))) = elems z.
Proof. intros I L. exact (@paired_elements I L). Qed.
Print Assumptions C03_pairing_elements.

Theorem C03_pairing_repartition :
  forall I L szs (z : @data (I * L)),
    lift2 (fun X => repartition szs) (paired z) = omap paired (repartition szs z).
Proof. intros I L. exact (@pairing_repartition I L). Qed.
Print Assumptions C03_pairing_repartition.

Theorem C03_pairing_split_batch :
  forall I L b k (z : @data (I * L)),
    lift2 (fun X => split_batch b k) (paired z) = omap paired (split_batch b k z).
Proof. intros I L. exact (@pairing_split_batch I L). Qed.
Print Assumptions C03_pairing_split_batch.

Theorem C03_pairing_reorder :
  forall I L di dl idx (z : @data (I * L)),
    match reorder di idx (inputs (paired z)), reorder dl idx (labels (paired z)) with
    | Some a, Some b => Some (mkL a b) | _, _ => None end
    = omap paired (reorder (di, dl) idx z).
Proof. intros I L. exact (@pairing_reorder I L). Qed.
Print Assumptions C03_pairing_reorder.

Theorem C03_pairing_indexed_subset :
  forall I L idx (z : @data (I * L)),
    lift2 (fun X => indexed_subset idx) (paired z) = omap paired (indexed_subset idx z).
Proof. intros I L. exact (@pairing_indexed_subset I L). Qed.
Print Assumptions C03_pairing_indexed_subset.

Theorem C03_pairing_splice_and_split :
  forall I L k (z : @data (I * L)),
    (match splice k (inputs (paired z)), splice k (labels (paired z)) with
     | Some (a1, a2), Some (b1, b2) => Some (mkL a1 b1, mkL a2 b2) | _, _ => None end
     = omap (fun p => (paired (fst p), paired (snd p))) (splice k z)) /\
    (match split_at_element k (inputs (paired z)), split_at_element k (labels (paired z)) with
     | Some (a1, a2), Some (b1, b2) => Some (mkL a1 b1, mkL a2 b2) | _, _ => None end
     = omap (fun p => (paired (fst p), paired (snd p))) (split_at_element k z)).
Proof. intros I L k z. split; [exact (@pairing_splice I L k z)|exact (@pairing_split_at_element I L k z)]. Qed.
Print Assumptions C03_pairing_splice_and_split.

(* indexedSubset(indices, subset, complement): subset and complement together are exactly the
   batches of the dataset (as index sets: a permutation of 0..n-1), for distinct indices in ANY order *)
Theorem C03_subset_and_complement :
  forall idx n, NoDup idx -> (forall i, In i idx -> i < n) ->
    Permutation (idx ++ complement idx n) (seq 0 n).
Proof. exact complement_perm. Qed.
Print Assumptions C03_subset_and_complement.

(* element access by iterator (either direction, any jump) agrees with access by index; [it_ok d it p]
   says: the iterator points into batch b at element e, reports index p, and p is the position of
   that element in the batch sequence *)
Theorem C03_iterator_dereferences_indexed_element :
  forall A (d : @data A) it p, it_ok d it p -> it_deref d it = element p d.
Proof. intros A d it p H. rewrite element_spec. exact (deref_ok d it p H). Qed.
Print Assumptions C03_iterator_dereferences_indexed_element.

Theorem C03_iterator_steps :
  forall A (d : @data A), (forall b, b < length d -> 0 < length (nth b d [])) ->
  forall it p, it_ok d it p ->
    (S p < nelems d -> it_ok d (it_incr d it) (S p) /\ it_decr d (it_incr d it) = it) /\
    (forall q, p = S q -> it_ok d (it_decr d it) q) /\
    (forall n, p + n < nelems d -> it_ok d (it_advance d it false n) (p + n)) /\
    (forall n, n <= p -> it_ok d (it_advance d it true n) (p - n)).
Proof.
  intros A d NE it p H. split; [|split; [|split]].
  - intros Hn. split; [apply incr_ok; auto|eapply incr_decr_identity; eauto].
  - intros q ->. apply decr_ok; auto.
  - intros n Hn. apply advance_forward_ok; auto.
  - intros n Hn. apply advance_backward_ok; auto.
Qed.
Print Assumptions C03_iterator_steps.

Theorem C03_repartition_by_class :
  forall I (dI : I) m (d d' : labeled I nat),
    repartition_by_class dI m d = Some d' -> nelems (inputs d) = nelems (labels d) ->
    let idx := class_order (elems (labels d)) in
    elems (inputs d') = map (fun i => nth i (elems (inputs d)) dI) idx /\
    elems (labels d') = map (fun i => nth i (elems (labels d)) 0) idx /\
    Permutation (elems (inputs d')) (elems (inputs d)) /\
    Permutation (elems (labels d')) (elems (labels d)) /\
    sizes (inputs d') = sizes (labels d').
Proof. intros I. exact (@repartition_by_class_spec I). Qed.
Print Assumptions C03_repartition_by_class.

(* non-vacuity *)
Example C03_example :
  exists d l r, create [1;2;3;4;5;6;7] 3 = Some d /\ sizes d = [3;2;2] /\
                split_at_element 4 d = Some (l, r) /\ elems l = [1;2;3;4] /\ sizes r = [1;2].
Proof. eexists. eexists. eexists. vm_compute. repeat split; reflexivity. Qed.
